(** C01: the premises of [two_nodes] are satisfiable - two concrete instances, evaluated in the kernel. *)
From SV Require Export Inst.TwoNode.
Local Open Scope Z_scope.

Definition exA : setup :=
  mkSetup (mkIC 5 100 128 0 0 false false (mkCQ 248 254 65535)) (mkTP None 0 false false false 160)
          [(mkPC None (E2E 0) 0 2 0 false 0 1, [1; 2; 3; 4])].
Definition exB : setup :=
  mkSetup (mkIC 9 128 128 0 0 false false (mkCQ 248 254 65535)) (mkTP None 0 false false false 160)
          [(mkPC None (E2E 0) 0 2 0 false 0 1, [1; 2; 3; 4])].

Definition frames_of (rs : list step_result) : list bytes :=
  flat_map (fun r => match r with SROk o _ => map snd (sent_frames (obs_of_port o 0)) | SRPanic => [] end) rs.

Definition exA_frames : list bytes :=
  match init exA with
  | Ok (iA, _) => frames_of (run iA [EvAnnounceReceiptTimer 0; EvAnnounceTimer 0 []; EvAnnounceTimer 0 []])
  | Panic _ => []
  end.

(** A (priority1 100) announces twice; B (priority1 128, clockClass 248) hears the
    two frames and runs the BMCA: B's port is SLAVE (9), parent = port 1 of clock 5,
    stepsRemoved 1 *)
Example two_nodes_example :
  match exA_frames, init exB with
  | [f1; f2], Ok (iB, _) =>
      match run_state iB [EvAnnounceReceiptTimer 0; EvRecvGeneral 0 f1; EvRecvGeneral 0 f2; EvBmca] with
      | Some iB3 => sn_states (snapshot_of iB3) = [9] /\ pd_parent (ds_parent (i_ds iB3)) = mkPI 5 1 /\ ds_steps_removed (i_ds iB3) = 1
      | None => False
      end
  | _, _ => False
  end.
Proof. vm_compute. repeat split. Qed.
