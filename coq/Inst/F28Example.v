(** C01, known finding F28 at the level of the model: three instances in a line,
    A - M - C.  A (priority1 100, clockClass 6) is the best clock; M (priority1 128,
    clockClass 6, two ports) is not.  Figure 33 never makes M a slave: its port
    towards A goes PASSIVE, M stays its own grandmaster and keeps announcing itself
    on its other port; C (clockClass 248) becomes a slave of M and carries M - not
    A - as grandmaster.  Evaluated in the kernel on the model of the port state
    machine; the same history on the real [PtpInstance]s is findings/F28-C01-*.json. *)
From SV Require Export Inst.TwoNodeEx.
Local Open Scope Z_scope.

Definition f28A : setup :=
  mkSetup (mkIC 5 100 128 0 0 false false (mkCQ 6 254 65535)) (mkTP None 0 false false false 160)
          [(mkPC None (E2E 0) 0 2 0 false 0 1, [1; 2; 3; 4])].
Definition f28M : setup :=
  mkSetup (mkIC 9 128 128 0 0 false false (mkCQ 6 254 65535)) (mkTP None 0 false false false 160)
          [(mkPC None (E2E 0) 0 2 0 false 0 1, [1; 2; 3; 4]); (mkPC None (E2E 0) 0 2 0 false 0 1, [1; 2; 3; 4])].
Definition f28C : setup :=
  mkSetup (mkIC 12 128 128 0 0 false false (mkCQ 248 254 65535)) (mkTP None 0 false false false 160)
          [(mkPC None (E2E 0) 0 2 0 false 0 1, [1; 2; 3; 4])].

Definition frames_of_port (p : nat) (rs : list step_result) : list bytes :=
  flat_map (fun r => match r with SROk o _ => map snd (sent_frames (obs_of_port o p)) | SRPanic => [] end) rs.

Definition f28A_frames : list bytes :=
  match init f28A with
  | Ok (iA, _) => frames_of (run iA [EvAnnounceReceiptTimer 0; EvAnnounceTimer 0 []; EvAnnounceTimer 0 []])
  | Panic _ => []
  end.

Definition f28M_after : option instance :=
  match f28A_frames, init f28M with
  | [f1; f2], Ok (iM, _) =>
      run_state iM [EvAnnounceReceiptTimer 0; EvAnnounceReceiptTimer 1; EvRecvGeneral 0 f1; EvRecvGeneral 0 f2; EvBmca]
  | _, _ => None
  end.

Definition f28M_frames : list bytes :=
  match f28M_after with
  | Some iM => frames_of_port 1 (run iM [EvAnnounceTimer 1 []; EvAnnounceTimer 1 []])
  | None => []
  end.

Definition f28C_after : option instance :=
  match f28M_frames, init f28C with
  | [f1; f2], Ok (iC, _) =>
      run_state iC [EvAnnounceReceiptTimer 0; EvRecvGeneral 0 f1; EvRecvGeneral 0 f2; EvBmca]
  | _, _ => None
  end.

Example f28_line_of_three :
  match f28M_after, f28C_after with
  | Some iM, Some iC =>
      (* M: port towards A PASSIVE, other port MASTER, still its own grandmaster *)
      sn_states (snapshot_of iM) = [7; 6] /\ pd_gm_identity (ds_parent (i_ds iM)) = 9 /\ ds_steps_removed (i_ds iM) = 0 /\
      (* C: slave of M's port 2, grandmaster M (9), not the best clock A (5) *)
      sn_states (snapshot_of iC) = [9] /\ pd_parent (ds_parent (i_ds iC)) = mkPI 9 2 /\
      pd_gm_identity (ds_parent (i_ds iC)) = 9 /\ ds_steps_removed (i_ds iC) = 1
  | _, _ => False
  end.
Proof. vm_compute. repeat split. Qed.
