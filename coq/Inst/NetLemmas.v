(** Ingredients of the convergence argument that hold for every node of every network. *)
From SV Require Import Inst.NetOracle Port.LemmasC05 Port.LemmasC11 Port.OracleC11.

(** S1: the slave's data sets are the selected Announce's, stepsRemoved + 1 *)
Lemma s1_steps_increase b h a d b' d' :
  set_recommended_state b (RS1 h a) d = Ok (b', d') ->
  ds_steps_removed d' = an_steps_removed a + 1 /\
  pd_parent (ds_parent d') = h_source h /\
  pd_gm_identity (ds_parent d') = an_gm_identity a.
Proof.
  unfold set_recommended_state.
  destruct (set_recommended_port_state b (RS1 h a) (ds_default d)) as [b1|?]; cbn [obind]; [|discriminate].
  destruct (pc_master_only (p_config (bp_port b1))); [discriminate|].
  unfold chk_u. destruct (in_u 16 (an_steps_removed a + 1)); cbn [obind]; [|discriminate].
  intros H. inversion H; subst. cbn. repeat split; reflexivity.
Qed.

(** what a master port advertises is the node's current stepsRemoved and
    grandmaster (C11), so along every parent link of a steady state
    stepsRemoved grows by exactly one: no parent cycles, no phantom grandmaster *)
Lemma advertised_steps ds src seq minor a :
  m_body (msg_announce ds src seq minor) = BAnnounce a ->
  an_steps_removed a = ds_steps_removed ds /\ an_gm_identity a = pd_gm_identity (ds_parent ds).
Proof. unfold msg_announce. cbn. intros H. inversion H; subst. cbn. split; reflexivity. Qed.

(** a label that grows by one along every parent link excludes cycles: following
    the parents from a node with label k reaches a root within k steps *)
Section NoCycle.
  Variable parent : nat -> option nat.
  Variable steps : nat -> nat.
  Hypothesis Hlink : forall n m, parent n = Some m -> steps n = S (steps m).

  Fixpoint walk_up (k : nat) (n : nat) : nat :=
    match k with
    | O => n
    | S k' => match parent n with Some m => walk_up k' m | None => n end
    end.

  Lemma no_parent_cycle : forall k n, steps n = k ->
    parent (walk_up k n) = None \/ steps (walk_up k n) = 0%nat.
  Proof.
    induction k as [|k IH]; intros n Hn; cbn [walk_up].
    - right. exact Hn.
    - destruct (parent n) as [m|] eqn:Ep.
      + apply IH. pose proof (Hlink n m Ep). lia.
      + left. exact Ep.
  Qed.
End NoCycle.
