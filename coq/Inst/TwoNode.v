(** C01, two instances and the wire between them: what a statime instance decides
    about another one whose Announces it hears.

    A is an instance that never received a frame and never had its settings
    changed (any silent history: timers, BMCA runs, ticks), whose port 0 is
    MASTER; B is another such instance.  A emits two Announces, B receives exactly
    those octets and runs the BMCA.  Then B's port becomes SLAVE of A (PASSIVE if
    B's clockClass is in 1..127) exactly when A's advertised attributes win the
    data set comparison of Figures 34/35 against B's own, and stays as it was
    otherwise; when it becomes slave, B's parentDS names A's port and A's clock as
    grandmaster, stepsRemoved = 1.  Used in both directions this is the pairwise
    consistency from which a two-clock network ends with one grandmaster. *)
From SV Require Export Port.MainC11d.
From SV Require Import Port.MainC11b.
Local Open Scope Z_scope.

(** * emission: the octets of an Announce decode to the data sets of the sender *)
Lemma compatible_encode m : h_version_major (m_header m) = 2 -> 0 <= h_version_minor (m_header m) < 16 ->
  is_compatible (encode_raw m) = true.
Proof.
  intros Hv Hm. unfold is_compatible, encode_raw, encode_header, byte_at, blen. rewrite <- !app_assoc. cbn [app nth length].
  apply andb_true_iff. split.
  - apply Z.leb_le. rewrite Nat2Z.inj_succ, Nat2Z.inj_succ. lia.
  - apply Z.eqb_eq. rewrite Hv. replace ((h_version_minor (m_header m) * 16) mod 256) with (h_version_minor (m_header m) * 16) by (symmetry; apply Z.mod_small; lia).
    rewrite Z.add_comm, Z.mod_add by lia. reflexivity.
Qed.

Lemma announce_emitted p d p' d' o :
  port_inv p -> ds_inv d -> is_master (p_state p) = true -> ds_path_enable d = false ->
  send_announce p d [] = Ok (p', d', o) ->
  let m := msg_announce d (p_identity p) (p_seq_announce p) (pc_minor (p_config p)) in
  sent_frames o = [(false, encode_raw m)] /\ decode (encode_raw m) = ROk m /\ is_compatible (encode_raw m) = true.
Proof.
  intros Hp Hd Em Hpe H m. unfold send_announce in H. rewrite Em, Hpe in H. cbn [length announce_tlv_loop obind] in H.
  fold m in H.
  assert (Hwf : wf_msg (mkMsg (m_header m) (m_body m) [])).
  { destruct Hd as (_ & Hdw). destruct Hp as ((_ & _ & _ & _ & _ & Hmin) & _ & _ & _ & _ & _ & Hpw).
    unfold port_wfb in Hpw. repeat (apply andb_true_iff in Hpw as [Hpw ?]).
    repeat match goal with Hx : u_ok _ _ = true |- _ => apply u_ok_iff in Hx end.
    destruct (announce_msg_parts d (p_identity p) (p_seq_announce p) (pc_minor (p_config p)) Hdw) as [W1 W2];
      [unfold wf_pi; change (2 ^ 64) with 18446744073709551616 in *; change (2 ^ 16) with 65536 in *; lia
      |change (2 ^ 16) with 65536 in *; lia|exact Hmin|].
    split; [exact W1|]. split; [exact W2|]. split; [apply wf_suffix_nil|]. unfold wire_size. cbn [m_body m_suffix]. unfold m, msg_announce. cbn. lia. }
  destruct (serialize_packet (mkMsg (m_header m) (m_body m) [])) as [frame|?] eqn:Es; cbn [obind] in H; [|discriminate].
  apply serialize_inv in Es. unfold ret in H. inversion H; subst.
  assert (Em' : mkMsg (m_header m) (m_body m) [] = m) by reflexivity. rewrite Em' in *.
  split; [reflexivity|]. split; [apply encode_decode; exact Hwf|].
  apply compatible_encode; [reflexivity|]. cbn [m msg_announce m_header h_version_minor].
  destruct Hp as ((_ & _ & _ & _ & _ & Hmin) & _). exact Hmin.
Qed.

(** * reception: the oracle's candidate for an emitted Announce *)
Definition heard (m : message) (a : announce_body) : cand := mkCand (h_source (m_header m)) (m_header m) a 1 0.

Lemma cand_of_emitted c prev p m a :
  decode (encode_raw m) = ROk m -> is_compatible (encode_raw m) = true -> m_body m = BAnnounce a ->
  h_domain (m_header m) = dd_domain (ds_default (sn_ds prev)) -> h_sdo_id (m_header m) = dd_sdo_id (ds_default (sn_ds prev)) ->
  pi_clock (h_source (m_header m)) <> own_clock c ->
  (match port_cfg c p with Some pc => pc_acceptable pc | None => None end) = None ->
  an_steps_removed a < 255 -> ds_path_enable (sn_ds prev) = false ->
  cand_of c prev p (encode_raw m) = Some (heard m a).
Proof.
  intros Hd Hc Hb Hdom Hsdo Hclk Hacc Hst Hpe. unfold cand_of, decoded. rewrite Hc, Hd, Hb. cbn [negb]. rewrite Hacc.
  rewrite Hdom, Hsdo, !Z.eqb_refl. cbn [acceptable andb].
  assert (E1 : (pi_clock (h_source (m_header m)) =? own_clock c) = false) by (apply Z.eqb_neq; exact Hclk). rewrite E1. cbn [negb andb].
  assert (E2 : (an_steps_removed a <? 255) = true) by lia. rewrite E2. cbn [andb].
  unfold loop_drop. rewrite Hpe, !andb_false_r. reflexivity.
Qed.

Lemma recv_keeps_cfg i n f i' o : step i (EvRecvGeneral n f) = Ok (i', o) ->
  ds_default (i_ds i') = ds_default (i_ds i) /\ ds_path_enable (i_ds i') = ds_path_enable (i_ds i).
Proof.
  cbn [step]. intros Hs. destruct (on_port_full i n _ i' o Hs) as [(_ & ->)|(pp & pp' & d' & oo & Hn & Hh & ->)]; [split; reflexivity|].
  cbn [i_ds].
  destruct (recv_cases pp (i_ds i) (port_ti pp) f pp' d' oo _ (or_introl eq_refl) Hh) as [(-> & _)|(m & a & o2 & _ & _ & _ & _ & _ & Ha)]; [split; reflexivity|].
  pose proof (handle_announce_ds _ _ _ _ _ _ _ _ Ha) as Hds. destruct (loop_m pp (i_ds i) m a); [destruct Hds as [_ ->]; split; reflexivity|].
  destruct Hds as (Hd & _). destruct (applies pp (i_ds i) m a); [destruct Hd as (path & ->); split; reflexivity|rewrite Hd; split; reflexivity].
Qed.

(** a port that is not a slave does not touch the data sets when it receives a general message *)
Lemma recv_keeps_ds i n f i' o pp : step i (EvRecvGeneral n f) = Ok (i', o) ->
  nth_error (i_ports i) n = Some pp -> is_slave (p_state pp) = false -> i_ds i' = i_ds i.
Proof.
  cbn [step]. intros Hs Hn Hsl. destruct (on_port_full i n _ i' o Hs) as [(_ & ->)|(pp0 & pp' & d' & oo & Hn0 & Hh & ->)]; [reflexivity|].
  rewrite Hn in Hn0. inversion Hn0; subst pp0. cbn [i_ds].
  destruct (recv_cases pp (i_ds i) (port_ti pp) f pp' d' oo _ (or_introl eq_refl) Hh) as [(-> & _)|(m & a & o2 & _ & _ & _ & _ & _ & Ha)]; [reflexivity|].
  pose proof (handle_announce_ds _ _ _ _ _ _ _ _ Ha) as Hds. destruct (loop_m pp (i_ds i) m a); [destruct Hds as [_ ->]; reflexivity|].
  destruct Hds as (Hd & _). unfold applies in Hd. rewrite Hsl in Hd. cbn [andb] in Hd. exact Hd.
Qed.

Definition is_m (d : decision) : bool := match d with DM1 | DM2 => true | _ => false end.

(** * B hears two consecutive Announces of A and runs the BMCA *)
Definition s_empty : st05 := mkS5 [[]] true.

Definition decision_of (dd : default_ds) (pid : port_identity) (x : cand) (listening : bool) : decision :=
  fig33 (cq_class (dd_quality dd)) (cmp_from_own dd) (Some (cds pid x)) (Some (cds pid x)) true listening.

Theorem hears_two c i m1 m2 a1 a2 i1 o1 i2 o2 i3 o3 :
  reach_inv c i -> inv5 c i s_empty -> nports c = 1%nat ->
  (match port_cfg c 0 with Some pc => pc_acceptable pc | None => None end) = None ->
  (match port_cfg c 0 with Some pc => pc_master_only pc | None => true end) = false ->
  ds_path_enable (i_ds i) = false ->
  wf_msg m1 -> is_compatible (encode_raw m1) = true -> m_body m1 = BAnnounce a1 ->
  wf_msg m2 -> is_compatible (encode_raw m2) = true -> m_body m2 = BAnnounce a2 ->
  h_source (m_header m2) = h_source (m_header m1) ->
  (h_seq (m_header m2) - h_seq (m_header m1)) mod 65536 = 1 ->
  h_domain (m_header m1) = dd_domain (ds_default (i_ds i)) -> h_sdo_id (m_header m1) = dd_sdo_id (ds_default (i_ds i)) ->
  h_domain (m_header m2) = dd_domain (ds_default (i_ds i)) -> h_sdo_id (m_header m2) = dd_sdo_id (ds_default (i_ds i)) ->
  pi_clock (h_source (m_header m1)) <> own_clock c ->
  an_steps_removed a1 < 255 -> an_steps_removed a2 < 255 ->
  step i (EvRecvGeneral 0 (encode_raw m1)) = Ok (i1, o1) ->
  step i1 (EvRecvGeneral 0 (encode_raw m2)) = Ok (i2, o2) ->
  step i2 EvBmca = Ok (i3, o3) ->
  let x := mkCand (h_source (m_header m2)) (m_header m2) a2 2 1 in
  let dd := ds_default (i_ds i2) in
  let prev := state_of (snapshot_of i2) 0 in
  prev <> 2 ->
  state_of (snapshot_of i3) 0 = decided_state (decision_of dd (port_id c 0) x (prev =? 4)) prev (dd_slave_only dd) false /\
  (decision_of dd (port_id c 0) x (prev =? 4) = DS1 ->
     ds_steps_removed (i_ds i3) = an_steps_removed a2 + 1 /\
     pd_parent (ds_parent (i_ds i3)) = h_source (m_header m2) /\
     pd_gm_identity (ds_parent (i_ds i3)) = an_gm_identity a2) /\
  (decision_of dd (port_id c 0) x (prev =? 4) <> DS1 ->
     if is_m (decision_of dd (port_id c 0) x (prev =? 4))
     then ds_steps_removed (i_ds i3) = 0 /\ pd_parent (ds_parent (i_ds i3)) = mkPI (dd_clock_identity dd) 0 /\
          pd_gm_identity (ds_parent (i_ds i3)) = dd_clock_identity dd
     else ds_steps_removed (i_ds i3) = ds_steps_removed (i_ds i2) /\ pd_parent (ds_parent (i_ds i3)) = pd_parent (ds_parent (i_ds i2)) /\
          pd_gm_identity (ds_parent (i_ds i3)) = pd_gm_identity (ds_parent (i_ds i2))).
Proof.
  intros Hr Hinv Hnp Hacc Hmo Hpe W1 C1 B1 W2 C2 B2 Hsrc Hseq Hd1 Hs1 Hd2 Hs2 Hclk St1 St2 Hst1 Hst2 Hst3 x dd prev Hnf.
  assert (Hall : all_ports c = [0%nat]) by (unfold all_ports; rewrite Hnp; reflexivity).
  pose proof (encode_decode m1 W1) as D1. pose proof (encode_decode m2 W2) as D2.
  destruct (recv_keeps_cfg _ _ _ _ _ Hst1) as [Df1 Pe1]. destruct (recv_keeps_cfg _ _ _ _ _ Hst2) as [Df2 Pe2].
  assert (He1 : event_valid (EvRecvGeneral 0 (encode_raw m1))) by (apply encode_raw_bok; exact W1).
  assert (He2 : event_valid (EvRecvGeneral 0 (encode_raw m2))) by (apply encode_raw_bok; exact W2).
  pose proof (reach_step c i _ i1 o1 Hr He1 Hst1) as Hr1. pose proof (reach_step c i1 _ i2 o2 Hr1 He2 Hst2) as Hr2.
  (* first Announce *)
  destruct (step_C05_model c i s_empty _ i1 o1 Hr Hinv He1 Hst1) as (s1 & E1 & Hinv1).
  cbn [step_C05] in E1.
  rewrite (cand_of_emitted c (snapshot_of i) 0 m1 a1 D1 C1 B1 Hd1 Hs1 Hclk Hacc St1 Hpe) in E1.
  cbn [s_empty cands nth seq_fresh find upsert update_nth evaluable] in E1. inversion E1; subst s1; clear E1.
  (* second Announce *)
  destruct (step_C05_model c i1 _ _ i2 o2 Hr1 Hinv1 He2 Hst2) as (s2 & E2 & Hinv2).
  cbn [step_C05] in E2.
  rewrite (cand_of_emitted c (snapshot_of i1) 0 m2 a2 D2 C2 B2) in E2;
    [|cbn [snapshot_of sn_ds]; rewrite Df1; exact Hd2|cbn [snapshot_of sn_ds]; rewrite Df1; exact Hs2|rewrite Hsrc; exact Hclk|exact Hacc|exact St2
     |cbn [snapshot_of sn_ds]; rewrite Pe1; exact Hpe].
  cbn [cands nth heard seq_fresh find cd_src cd_h cd_travel upsert update_nth evaluable cd_fresh cd_a] in E2.
  rewrite Hsrc, pi_eqb_refl in E2. cbn [cd_h cd_travel cd_src cd_a cd_fresh] in E2. rewrite Hseq in E2. cbn [Z.add Z.ltb Z.compare Pos.compare Pos.compare_cont] in E2.
  assert (Hsf : seq_fresh (heard m2 a2) [heard m1 a1] = true).
  { unfold seq_fresh, heard. cbn [find cd_src]. rewrite Hsrc, pi_eqb_refl. cbn [cd_travel cd_h]. rewrite Hseq. reflexivity. }
  rewrite Hsf in E2. change (1 + 1) with 2 in E2. change (0 + 1) with 1 in E2. inversion E2; subst s2; clear E2. rewrite <- Hsrc in Hinv2. fold x in Hinv2.
  (* the BMCA run *)
  destruct (step_C05_model c i2 _ EvBmca i3 o3 Hr2 Hinv2 I Hst3) as (s3 & E3 & _).
  rewrite step_C05_bmca_eq in E3.
  set (s := mkS5 [[x]] true) in *.
  assert (Hfr : fresh_ok s = true) by reflexivity.
  assert (Hspec : erb c s 0 = Some x).
  { unfold erb, spec_best. cbn [s cands nth find forallb]. rewrite pi_eqb_refl. reflexivity. }
  assert (Hus : usable c (snapshot_of i2) 0 = true).
  { unfold usable. destruct (port_cfg c 0) as [pc|]; [|discriminate Hmo]. rewrite Hmo. cbn [negb andb]. apply negb_true_iff. apply Z.eqb_neq. exact Hnf. }
  assert (Htag : tagged c s (snapshot_of i2) = [(0%nat, x)]) by (unfold tagged; rewrite Hall; cbn [flat_map app]; rewrite Hus, Hspec; reflexivity).
  assert (Heo : ebest_o c (tagged c s (snapshot_of i2)) = Some (0%nat, x)) by (rewrite Htag; unfold ebest_o; cbn [find forallb fst]; reflexivity).
  assert (Hdet : determinate_o c s (snapshot_of i2) = true).
  { unfold determinate_o, det_ports. rewrite Hall. cbn [forallb s cands nth]. rewrite Hspec, Heo, Htag. reflexivity. }
  change (evaluable s && fresh_ok s) with true in E3. rewrite Hdet in E3. cbn [negb] in E3.
  destruct (states_ok_o c s (snapshot_of i2) (snapshot_of i3) && ds_ok_o c s (snapshot_of i2) (snapshot_of i3)) eqn:Eok; [|discriminate E3].
  apply andb_true_iff in Eok as [Hso Hdo].
  assert (Hdec : decide_o c s (snapshot_of i2) 0 = decision_of dd (port_id c 0) x (prev =? 4)).
  { unfold decide_o. cbv zeta. rewrite Heo, Hspec. cbn [snapshot_of sn_ds]. reflexivity. }
  split.
  - unfold states_ok_o in Hso. rewrite Hall in Hso. cbn [forallb] in Hso. rewrite andb_true_r in Hso. apply Z.eqb_eq in Hso.
    rewrite Hdec in Hso. exact Hso.
  - split.
    2:{ intros Hnds1. unfold ds_ok_o in Hdo. cbv zeta in Hdo. unfold s1_o, any_m_o in Hdo. rewrite Hall in Hdo. cbn [find existsb] in Hdo.
        rewrite Hdec in Hdo. rewrite orb_false_r in Hdo.
        assert (Es : (match decision_of dd (port_id c 0) x (prev =? 4) with DS1 => negb (state_of (snapshot_of i2) 0 =? 2) | _ => false end) = false)
          by (destruct (decision_of dd (port_id c 0) x (prev =? 4)); try reflexivity; contradiction Hnds1; reflexivity).
        rewrite Es in Hdo. fold (is_m (decision_of dd (port_id c 0) x (prev =? 4))) in Hdo.
        destruct (is_m (decision_of dd (port_id c 0) x (prev =? 4))).
        - apply andb_true_iff in Hdo as [Hdo _]. apply andb_true_iff in Hdo as [H1 H2]. apply Z.eqb_eq in H1. cbn [snapshot_of sn_ds] in H1, H2.
          split; [exact H1|].
          unfold pd_eqb in H2. apply andb_true_iff in H2 as [H2 _]. apply andb_true_iff in H2 as [H2 _]. apply andb_true_iff in H2 as [H2 _].
          apply andb_true_iff in H2 as [H2 Hg]. apply pi_eqb_eq in H2. apply Z.eqb_eq in Hg. cbn [pd_parent pd_gm_identity] in H2, Hg. split; assumption.
        - unfold ds_eqb in Hdo. cbn [snapshot_of sn_ds] in Hdo.
          apply andb_true_iff in Hdo as [Hdo _]. apply andb_true_iff in Hdo as [Hdo _]. apply andb_true_iff in Hdo as [Hdo _].
          apply andb_true_iff in Hdo as [Hdo H2]. apply andb_true_iff in Hdo as [_ H1]. apply Z.eqb_eq in H1. split; [exact H1|].
          unfold pd_eqb in H2. apply andb_true_iff in H2 as [H2 _]. apply andb_true_iff in H2 as [H2 _]. apply andb_true_iff in H2 as [H2 _].
          apply andb_true_iff in H2 as [H2 Hg]. apply pi_eqb_eq in H2. apply Z.eqb_eq in Hg. split; assumption. }
    intros Hds1. unfold ds_ok_o in Hdo. cbv zeta in Hdo. unfold s1_o in Hdo. rewrite Hall in Hdo. cbn [find] in Hdo.
    rewrite Hdec, Hds1 in Hdo. fold prev in Hdo.
    assert (En : negb (prev =? 2) = true) by (apply negb_true_iff; apply Z.eqb_neq; exact Hnf). rewrite En, Heo in Hdo.
    apply andb_true_iff in Hdo as [Hdo _]. apply andb_true_iff in Hdo as [H1 H2]. apply Z.eqb_eq in H1.
    cbn [snapshot_of sn_ds x cd_a cd_src] in H1, H2. split; [exact H1|].
    unfold pd_eqb in H2. apply andb_true_iff in H2 as [H2 _]. apply andb_true_iff in H2 as [H2 _]. apply andb_true_iff in H2 as [H2 _].
    apply andb_true_iff in H2 as [H2 Hg]. apply pi_eqb_eq in H2. apply Z.eqb_eq in Hg. cbn [pd_parent pd_gm_identity] in H2, Hg. split; assumption.
Qed.

(** * what the decision means, and why the two directions agree *)
Lemma decision_of_cases dd pid x listening :
  decision_of dd pid x listening =
  if (1 <=? cq_class (dd_quality dd)) && (cq_class (dd_quality dd) <=? 127)
  then (if b_better_or_topo (fig34 (cmp_from_own dd) (cds pid x)) then DP1 else DM1)
  else (if b_better_or_topo (fig34 (cmp_from_own dd) (cds pid x)) then DS1 else DM2).
Proof. unfold decision_of, fig33. destruct listening; reflexivity. Qed.

Definition gm_attrs (d : cmp_ds) := (c_prio1 d, c_quality d, c_prio2 d, c_gm_identity d).

Lemma fig34_attrs a b a' b' : c_gm_identity a <> c_gm_identity b ->
  gm_attrs a = gm_attrs a' -> gm_attrs b = gm_attrs b' -> fig34 a b = fig34 a' b'.
Proof.
  unfold gm_attrs. intros Hne Ea Eb. inversion Ea as [[A1 A2 A3 A4]]. inversion Eb as [[B1 B2 B3 B4]].
  unfold fig34. rewrite <- A1, <- A2, <- A3, <- A4, <- B1, <- B2, <- B3, <- B4.
  assert (E : (c_gm_identity a =? c_gm_identity b) = false) by (apply Z.eqb_neq; exact Hne). rewrite E. reflexivity.
Qed.

(** an instance that is its own grandmaster: stepsRemoved 0, parentDS = its own attributes *)
Definition own_view (d : inst_ds) : Prop := ds_steps_removed d = 0 /\ ds_parent d = own_parent (ds_default d).

Lemma announced_attrs d src seq minor pid a :
  own_view d -> m_body (msg_announce d src seq minor) = BAnnounce a ->
  gm_attrs (cmp_from_announce (m_header (msg_announce d src seq minor)) a pid) = gm_attrs (cmp_from_own (ds_default d)) /\
  an_steps_removed a = 0 /\ an_gm_identity a = dd_clock_identity (ds_default d).
Proof.
  intros [Hs Hp] Hb. unfold msg_announce in Hb. cbn [m_body] in Hb. inversion Hb; subst a; clear Hb.
  unfold gm_attrs, cmp_from_announce, cmp_from_own. cbn [an_prio1 an_quality an_prio2 an_gm_identity an_steps_removed c_prio1 c_quality c_prio2 c_gm_identity].
  rewrite Hp, Hs. unfold own_parent. cbn [pd_gm_prio1 pd_gm_quality pd_gm_prio2 pd_gm_identity]. repeat split; reflexivity.
Qed.

(** two grandmasters with different identities: exactly one of them ranks the other's Announce above itself *)
Theorem two_views_opposite dA dB srcA seqA minA pidB aA srcB seqB minB pidA aB :
  own_view dA -> own_view dB -> dd_clock_identity (ds_default dA) <> dd_clock_identity (ds_default dB) ->
  m_body (msg_announce dA srcA seqA minA) = BAnnounce aA -> m_body (msg_announce dB srcB seqB minB) = BAnnounce aB ->
  b_better_or_topo (fig34 (cmp_from_own (ds_default dB)) (cmp_from_announce (m_header (msg_announce dA srcA seqA minA)) aA pidB)) =
  negb (b_better_or_topo (fig34 (cmp_from_own (ds_default dA)) (cmp_from_announce (m_header (msg_announce dB srcB seqB minB)) aB pidA))).
Proof.
  intros HA HB Hne BA BB.
  destruct (announced_attrs dA srcA seqA minA pidB aA HA BA) as (EA & _ & GA).
  destruct (announced_attrs dB srcB seqB minB pidA aB HB BB) as (EB & _ & GB).
  rewrite (fig34_attrs (cmp_from_own (ds_default dB)) _ (cmp_from_own (ds_default dB)) (cmp_from_own (ds_default dA)));
    [|cbn [cmp_from_own cmp_from_announce c_gm_identity]; rewrite GA; intros E; apply Hne; symmetry; exact E|reflexivity|exact EA].
  rewrite (fig34_attrs (cmp_from_own (ds_default dA)) _ (cmp_from_own (ds_default dA)) (cmp_from_own (ds_default dB)));
    [|cbn [cmp_from_own cmp_from_announce c_gm_identity]; rewrite GB; exact Hne|reflexivity|exact EB].
  rewrite (fig34_mirror (cmp_from_own (ds_default dB)) (cmp_from_own (ds_default dA))).
  (* different identities: the comparison never ends in a tie or a topology verdict *)
  unfold fig34. cbn [cmp_from_own c_gm_identity c_prio1 c_quality c_prio2].
  assert (E : (dd_clock_identity (ds_default dB) =? dd_clock_identity (ds_default dA)) = false) by (apply Z.eqb_neq; intros X; apply Hne; symmetry; exact X).
  rewrite E.
  repeat match goal with |- context [if ?c then _ else _] => destruct c end; reflexivity.
Qed.

(** * A: two consecutive firings of the announce timer of a master port *)
Lemma emits_two c i pp i1 o1 i2 o2 :
  reach_inv c i -> nth_error (i_ports i) 0 = Some pp -> p_state pp = PMaster -> ds_path_enable (i_ds i) = false ->
  step i (EvAnnounceTimer 0 []) = Ok (i1, o1) -> step i1 (EvAnnounceTimer 0 []) = Ok (i2, o2) ->
  let m1 := msg_announce (i_ds i) (p_identity pp) (p_seq_announce pp) (pc_minor (p_config pp)) in
  let m2 := msg_announce (i_ds i) (p_identity pp) (gen16 (p_seq_announce pp)) (pc_minor (p_config pp)) in
  sent_frames (obs_of_port o1 0) = [(false, encode_raw m1)] /\ sent_frames (obs_of_port o2 0) = [(false, encode_raw m2)] /\
  wf_msg m1 /\ wf_msg m2 /\ is_compatible (encode_raw m1) = true /\ is_compatible (encode_raw m2) = true /\
  (h_seq (m_header m2) - h_seq (m_header m1)) mod 65536 = 1.
Proof.
  intros Hr Hn Hm Hpe Hs1 Hs2 m1 m2.
  pose proof (ri_inv _ _ Hr) as Hi.
  assert (Hpi : port_inv pp) by (destruct Hi as (Hports & _); rewrite Forall_forall in Hports; apply Hports; eapply nth_error_In; eauto).
  assert (Hdi : ds_inv (i_ds i)) by (destruct Hi as (_ & Hds & _); exact Hds).
  cbn [step] in Hs1, Hs2.
  destruct (on_port_full i 0 _ i1 o1 Hs1) as [(Hnn & _)|(pp0 & pp1 & d1 & oo1 & Hn0 & Hh1 & Hi1)]; [rewrite Hn in Hnn; discriminate|].
  rewrite Hn in Hn0. inversion Hn0; subst pp0.
  destruct (on_port_inv i 0 _ i1 o1 Hs1) as [(Hnn & _)|(pp0 & pp1' & d1' & oo1' & Hn0' & Hh1' & _ & Ho1)]; [rewrite Hn in Hnn; discriminate|].
  rewrite Hn in Hn0'. inversion Hn0'; subst pp0. rewrite Hh1 in Hh1'. inversion Hh1'; subst pp1' d1' oo1'.
  assert (Em : is_master (p_state pp) = true) by (rewrite Hm; reflexivity).
  destruct (announce_emitted pp (i_ds i) pp1 d1 oo1 Hpi Hdi Em Hpe Hh1) as (F1 & D1 & C1).
  pose proof (send_announce_d pp (i_ds i) [] pp1 d1 oo1 Hh1) as Hd1. subst d1.
  (* the port after the first emission *)
  assert (Hpp1 : pp1 = port_with_seqs pp (gen16 (p_seq_announce pp)) (p_seq_sync pp) (p_seq_delay pp) (p_seq_pdelay pp)).
  { unfold send_announce in Hh1. rewrite Em, Hpe in Hh1. cbn [length announce_tlv_loop obind] in Hh1.
    destruct (serialize_packet _) as [fr|?]; cbn [obind] in Hh1; [|discriminate]. unfold ret in Hh1. inversion Hh1; reflexivity. }
  assert (Hn1 : nth_error (i_ports i1) 0 = Some pp1).
  { rewrite Hi1. cbn [i_ports]. apply nth_error_update_same. apply nth_error_Some. rewrite Hn. discriminate. }
  assert (Hds1 : i_ds i1 = i_ds i) by (rewrite Hi1; reflexivity).
  pose proof (reach_step c i (EvAnnounceTimer 0 []) i1 o1 Hr ltac:(constructor) Hs1) as Hr1.
  pose proof (ri_inv _ _ Hr1) as Hi1'.
  assert (Hpi1 : port_inv pp1) by (destruct Hi1' as (Hports & _); rewrite Forall_forall in Hports; apply Hports; eapply nth_error_In; eauto).
  destruct (on_port_inv i1 0 _ i2 o2 Hs2) as [(Hnn & _)|(pp0 & pp2 & d2 & oo2 & Hn0'' & Hh2 & _ & Ho2)]; [rewrite Hn1 in Hnn; discriminate|].
  rewrite Hn1 in Hn0''. inversion Hn0''; subst pp0. rewrite Hds1 in Hh2.
  assert (Em1 : is_master (p_state pp1) = true) by (rewrite Hpp1; destruct pp; cbn in *; rewrite Hm; reflexivity).
  destruct (announce_emitted pp1 (i_ds i) pp2 d2 oo2 Hpi1 Hdi Em1 Hpe Hh2) as (F2 & D2 & C2).
  assert (Eid : p_identity pp1 = p_identity pp /\ p_seq_announce pp1 = gen16 (p_seq_announce pp) /\ p_config pp1 = p_config pp)
    by (rewrite Hpp1; destruct pp; repeat split; reflexivity).
  destruct Eid as (E1 & E2 & E3). rewrite E1, E2, E3 in F2, D2, C2. fold m2 in F2, D2, C2. fold m1 in F1, D1, C1.
  (* well-formedness, for the receiver's side *)
  assert (Hwf : forall seq, 0 <= seq < 65536 -> wf_msg (msg_announce (i_ds i) (p_identity pp) seq (pc_minor (p_config pp)))).
  { intros seq Hseq. destruct Hdi as (_ & Hdw). destruct Hpi as ((_ & _ & _ & _ & _ & Hmin) & _ & _ & _ & _ & _ & Hpw).
    unfold port_wfb in Hpw. repeat (apply andb_true_iff in Hpw as [Hpw ?]).
    repeat match goal with Hx : u_ok _ _ = true |- _ => apply u_ok_iff in Hx end.
    destruct (announce_msg_parts (i_ds i) (p_identity pp) seq (pc_minor (p_config pp)) Hdw) as [W1 W2];
      [unfold wf_pi; change (2 ^ 64) with 18446744073709551616 in *; change (2 ^ 16) with 65536 in *; lia|exact Hseq|exact Hmin|].
    split; [exact W1|]. split; [exact W2|]. split; [apply wf_suffix_nil|]. unfold wire_size, msg_announce. cbn. lia. }
  assert (Hsq : 0 <= p_seq_announce pp < 65536).
  { destruct Hpi as (_ & _ & _ & _ & _ & _ & Hpw). unfold port_wfb in Hpw. repeat (apply andb_true_iff in Hpw as [Hpw ?]).
    repeat match goal with Hx : u_ok _ _ = true |- _ => apply u_ok_iff in Hx end. change (2 ^ 16) with 65536 in *. lia. }
  split; [rewrite Ho1, obs_of_port_tag_same, sent_frames_filter; exact F1|]. split; [rewrite Ho2, obs_of_port_tag_same, sent_frames_filter; exact F2|].
  split; [apply Hwf; exact Hsq|]. split; [apply Hwf; unfold gen16; apply Z.mod_pos_bound; lia|].
  split; [exact C1|]. split; [exact C2|].
  unfold m1, m2, msg_announce. cbn [m_header h_seq]. unfold gen16. 
  assert (Hg : (p_seq_announce pp + 1) mod 65536 = p_seq_announce pp + 1 \/ ((p_seq_announce pp + 1) mod 65536 = 0 /\ p_seq_announce pp = 65535)).
  { destruct (Z.eq_dec (p_seq_announce pp) 65535) as [E|E]; [right; rewrite E; split; reflexivity|left; apply Z.mod_small; lia]. }
  destruct Hg as [-> | [-> ->]]; [replace (p_seq_announce pp + 1 - p_seq_announce pp) with 1 by lia; reflexivity|reflexivity].
Qed.

(** * the two together *)
Definition worse_than (ddB ddA : default_ds) : bool := b_better_or_topo (fig34 (cmp_from_own ddB) (cmp_from_own ddA)).

Theorem two_nodes cA iA ppA iA1 oA1 iA2 oA2 cB iB iB1 oB1 iB2 oB2 iB3 oB3 f1 f2 :
  (* A: its own grandmaster, port 0 master, emits two Announces *)
  reach_inv cA iA -> nth_error (i_ports iA) 0 = Some ppA -> p_state ppA = PMaster ->
  ds_path_enable (i_ds iA) = false -> own_view (i_ds iA) ->
  step iA (EvAnnounceTimer 0 []) = Ok (iA1, oA1) -> step iA1 (EvAnnounceTimer 0 []) = Ok (iA2, oA2) ->
  sent_frames (obs_of_port oA1 0) = [(false, f1)] -> sent_frames (obs_of_port oA2 0) = [(false, f2)] ->
  (* B: one port, has not heard anybody yet *)
  reach_inv cB iB -> inv5 cB iB s_empty -> nports cB = 1%nat ->
  (match port_cfg cB 0 with Some pc => pc_acceptable pc | None => None end) = None ->
  (match port_cfg cB 0 with Some pc => pc_master_only pc | None => true end) = false ->
  ds_path_enable (i_ds iB) = false ->
  dd_domain (ds_default (i_ds iA)) = dd_domain (ds_default (i_ds iB)) ->
  dd_sdo_id (ds_default (i_ds iA)) = dd_sdo_id (ds_default (i_ds iB)) ->
  dd_clock_identity (ds_default (i_ds iA)) <> own_clock cB ->
  (* B receives exactly those octets, then runs the BMCA *)
  step iB (EvRecvGeneral 0 f1) = Ok (iB1, oB1) -> step iB1 (EvRecvGeneral 0 f2) = Ok (iB2, oB2) -> step iB2 EvBmca = Ok (iB3, oB3) ->
  let ddA := ds_default (i_ds iA) in
  let ddB := ds_default (i_ds iB2) in
  let prev := state_of (snapshot_of iB2) 0 in
  prev <> 2 ->
  let dec := if (1 <=? cq_class (dd_quality ddB)) && (cq_class (dd_quality ddB) <=? 127)
             then (if worse_than ddB ddA then DP1 else DM1)
             else (if worse_than ddB ddA then DS1 else DM2) in
  state_of (snapshot_of iB3) 0 = decided_state dec prev (dd_slave_only ddB) false /\
  (dec = DS1 -> ds_steps_removed (i_ds iB3) = 1 /\ pd_parent (ds_parent (i_ds iB3)) = p_identity ppA /\
                pd_gm_identity (ds_parent (i_ds iB3)) = dd_clock_identity ddA) /\
  (dec <> DS1 ->
     if is_m dec
     then ds_steps_removed (i_ds iB3) = 0 /\ pd_parent (ds_parent (i_ds iB3)) = mkPI (dd_clock_identity ddB) 0 /\
          pd_gm_identity (ds_parent (i_ds iB3)) = dd_clock_identity ddB
     else ds_steps_removed (i_ds iB3) = ds_steps_removed (i_ds iB2) /\ pd_parent (ds_parent (i_ds iB3)) = pd_parent (ds_parent (i_ds iB2)) /\
          pd_gm_identity (ds_parent (i_ds iB3)) = pd_gm_identity (ds_parent (i_ds iB2))).
Proof.
  intros HrA HnA HmA HpeA HovA HsA1 HsA2 Hf1 Hf2 HrB HinvB HnpB HaccB HmoB HpeB Hdom Hsdo Hclk HsB1 HsB2 HsB3 ddA ddB prev Hnf dec.
  destruct (emits_two cA iA ppA iA1 oA1 iA2 oA2 HrA HnA HmA HpeA HsA1 HsA2) as (F1 & F2 & W1 & W2 & C1 & C2 & Hseq).
  set (m1 := msg_announce (i_ds iA) (p_identity ppA) (p_seq_announce ppA) (pc_minor (p_config ppA))) in *.
  set (m2 := msg_announce (i_ds iA) (p_identity ppA) (gen16 (p_seq_announce ppA)) (pc_minor (p_config ppA))) in *.
  rewrite F1 in Hf1. inversion Hf1; subst f1. rewrite F2 in Hf2. inversion Hf2; subst f2.
  destruct (m_body m1) as [| | | | | | |a1| |] eqn:B1; try discriminate (eq_refl : m_body m1 = m_body m1) || (unfold m1, msg_announce in B1; cbn [m_body] in B1; discriminate B1).
  destruct (m_body m2) as [| | | | | | |a2| |] eqn:B2; try (unfold m2, msg_announce in B2; cbn [m_body] in B2; discriminate B2).
  destruct (announced_attrs (i_ds iA) (p_identity ppA) (gen16 (p_seq_announce ppA)) (pc_minor (p_config ppA)) (port_id cB 0) a2 HovA B2) as (Eattr & Est2 & Egm2).
  destruct (announced_attrs (i_ds iA) (p_identity ppA) (p_seq_announce ppA) (pc_minor (p_config ppA)) (port_id cB 0) a1 HovA B1) as (_ & Est1 & _).
  destruct (hears_two cB iB m1 m2 a1 a2 iB1 oB1 iB2 oB2 iB3 oB3 HrB HinvB HnpB HaccB HmoB HpeB W1 C1 B1 W2 C2 B2) as [Hstate Hds]; try assumption;
    try reflexivity; try (unfold m1, m2, msg_announce, base_header; cbn [m_header h_domain h_sdo_id h_source]; congruence); try lia.
  - unfold m1, msg_announce. cbn [m_header h_source]. destruct (ri_inv _ _ HrA) as (_ & _ & Hids & _). rewrite (Hids 0%nat ppA HnA). cbn [pi_clock]. exact Hclk.
  - (* the decision in terms of the two default data sets *)
    destruct (recv_keeps_cfg _ _ _ _ _ HsB1) as [Df1 _]. destruct (recv_keeps_cfg _ _ _ _ _ HsB2) as [Df2 _].
    set (x := mkCand (h_source (m_header m2)) (m_header m2) a2 2 1) in *.
    assert (Hdecx : decision_of ddB (port_id cB 0) x (prev =? 4) = dec).
    { rewrite decision_of_cases. unfold dec, worse_than.
      replace (fig34 (cmp_from_own ddB) (cds (port_id cB 0) x)) with (fig34 (cmp_from_own ddB) (cmp_from_own ddA)); [reflexivity|].
      symmetry. apply fig34_attrs; [|reflexivity|exact Eattr].
      unfold cds, x. cbn [cd_h cd_a cmp_from_own cmp_from_announce c_gm_identity]. rewrite Egm2.
      unfold ddB. rewrite Df2, Df1. destruct HrB as [_ HclkB _ _ _]. unfold clk_inv in HclkB. rewrite HclkB. intros E. apply Hclk. symmetry. exact E. }
    fold ddB in Hstate, Hds. fold prev in Hstate, Hds. rewrite Hdecx in Hstate, Hds. split; [exact Hstate|].
    destruct Hds as [Hds Hnds]. split; [|exact Hnds].
    intros Hd. destruct (Hds Hd) as (S1 & S2 & S3). rewrite Est2 in S1. split; [exact S1|]. split; [rewrite S2; reflexivity|rewrite S3; exact Egm2].
Qed.

(** * the hypotheses hold for instances that have heard nothing so far *)
Definition quiet (c : pcase) (i : instance) : Prop :=
  Forall (fun pp => p_fml pp = []) (i_ports i) /\ own_view (i_ds i) /\ inv5 c i (mkS5 (map (fun _ => []) (all_ports c)) true).

Lemma own_view_gm d : own_view (MainC11b.gm_view d).
Proof. unfold own_view, MainC11b.gm_view, ds_with, own_parent. cbn. split; reflexivity. Qed.

Lemma reset5_empty c : reset5 (mkS5 (map (fun _ => []) (all_ports c)) true) = mkS5 (map (fun _ => []) (all_ports c)) true.
Proof. unfold reset5. cbn [cands evaluable]. rewrite map_map. reflexivity. Qed.

Lemma quiet_step c i e i' o :
  reach_inv c i -> event_valid e -> silent_event e = true -> quiet c i -> step i e = Ok (i', o) -> quiet c i'.
Proof.
  intros Hr He Hsil (Hf & Hov & Hinv) Hs.
  pose proof (ri_inv _ _ Hr) as Hi.
  (* the oracle's state *)
  assert (Hinv' : inv5 c i' (mkS5 (map (fun _ => []) (all_ports c)) true)).
  { destruct (step_C05_model c i _ e i' o Hr Hinv He Hs) as (s' & E & H'). destruct e; cbn [silent_event] in *; try discriminate Hsil;
      try (cbn [step_C05] in E; inversion E; subst s'; exact H'; fail).
    rewrite step_C05_bmca_eq in E. rewrite reset5_empty in E.
    repeat match type of E with (if ?c then _ else _) = _ => destruct c end; inversion E; subst s'; exact H'. }
  assert (Hlist : forall n f, on_port i n f = Ok (i', o) -> (forall p, keeps_fml p (f p (i_ds i))) -> (forall p, keeps_d (i_ds i) (f p (i_ds i))) ->
            Forall (fun pp => p_fml pp = []) (i_ports i') /\ own_view (i_ds i')).
  { intros n f Hop Hkf Hkd. destruct (on_port_full i n f i' o Hop) as [(_ & ->)|(pp0 & pp0' & d' & oo & Hn & Hh & ->)]; [split; assumption|].
    cbn [i_ports i_ds]. rewrite (Hkd pp0 _ _ _ Hh). split; [|exact Hov].
    apply InvStep.update_nth_Forall; [exact Hf|]. rewrite (Hkf pp0 _ _ _ Hh). rewrite Forall_forall in Hf. apply Hf. eapply nth_error_In; eauto. }
  destruct e; cbn [step silent_event] in *; try discriminate Hsil.
  - destruct (Hlist p _ Hs) as [A B]; [intros pp p' d' oo Hx; unfold handle_send_timestamp in Hx; destruct ctx;
        [eapply handle_sync_timestamp_fml|eapply handle_delay_timestamp_fml|eapply handle_pdelay_timestamp_fml|eapply handle_pdelay_response_timestamp_fml]; eauto
      |intros pp; apply send_timestamp_d|]. split; [exact A|split; [exact B|exact Hinv']].
  - destruct (Hlist p _ Hs) as [A B]; [intros pp; apply send_announce_fml|intros pp; apply send_announce_d|]. split; [exact A|split; [exact B|exact Hinv']].
  - destruct (Hlist p _ Hs) as [A B]; [intros pp; apply send_sync_fml|intros pp; apply send_sync_d|]. split; [exact A|split; [exact B|exact Hinv']].
  - destruct (Hlist p _ Hs) as [A B]; [intros pp; apply send_delay_request_fml|intros pp; apply send_delay_request_d|]. split; [exact A|split; [exact B|exact Hinv']].
  - destruct (Hlist p _ Hs) as [A B]; [intros pp; apply receipt_timer_fml|intros pp; apply receipt_timer_d|]. split; [exact A|split; [exact B|exact Hinv']].
  - destruct (Hlist p _ Hs) as [A B];
      [intros pp p' d' oo Hx; unfold handle_filter_update_timer, ret in Hx; inversion Hx; reflexivity
      |intros pp p' d' oo Hx; unfold handle_filter_update_timer, ret in Hx; inversion Hx; reflexivity|]. split; [exact A|split; [exact B|exact Hinv']].
  - (* BMCA *)
    rewrite Forall_forall in Hf.
    destruct (bmca_struct _ _ _ Hs) as (step & bps & eb & bps1 & d1 & ports & E0 & Ebps & Eeb & Edec & Eports & Hi').
    pose proof (omap_list_rel calc_local_best (fun pp b => calc_local_best pp = Ok b) (fun _ _ H => H) _ _ Ebps) as F1.
    assert (Hnone : forall b, In b bps -> bp_best b = None).
    { intros b Hb1. destruct (MainC11b.Forall2_in_r _ _ _ _ F1 Hb1) as (pp & Hpp & Hcb). unfold calc_local_best in Hcb.
      rewrite (Hf pp Hpp), take_best_nil in Hcb. cbn [obind fst snd] in Hcb. inversion Hcb; reflexivity. }
    assert (Heb : eb = None).
    { rewrite flat_map_nil in Eeb; [cbn in Eeb; inversion Eeb; reflexivity|].
      intros b Hb1. unfold best_for_bmca. rewrite (Hnone b Hb1). destruct (_ || _); reflexivity. }
    subst eb.
    assert (Hgm : MainC11b.gm_mode (ds_default (i_ds i)) None = true) by (unfold MainC11b.gm_mode; cbn [compare_d0_best]; apply orb_true_r).
    destruct (MainC11b.decide_gm None (i_ds i) bps [] (i_ds i) bps1 d1 Hgm (or_introl eq_refl) Edec) as (tail & _ & Hd1 & _).
    split; [|split; [|exact Hinv']].
    + apply Forall_forall. intros pp' Hin. destruct (In_nth_error _ _ Hin) as (n & Hn').
      destruct (bmca_ports_back i i' o n pp' Hs Hn') as (pp & Hn).
      destruct (bmca_port6 i i' o n pp Hs Hn) as (pp2 & stepd & fml1 & best & iv & Hn2 & _ & Htb & _ & Hfm & _).
      rewrite Hn' in Hn2. inversion Hn2; subst pp2. rewrite (Hf pp (nth_error_In _ _ Hn)), take_best_nil in Htb. inversion Htb; subst fml1 best.
      rewrite Hfm. reflexivity.
    + rewrite Hi'. cbn [i_ds]. destruct Hd1 as [-> | ->]; [exact Hov|apply own_view_gm].
  - inversion Hs; subst. split; [apply Forall_forall; exact (proj1 (Forall_forall _ _) Hf)|split; [exact Hov|exact Hinv']].
Qed.

Lemma add_ports_own_view ps : forall i acc i' o, own_view (i_ds i) -> add_ports i ps acc = Ok (i', o) -> own_view (i_ds i').
Proof.
  induction ps as [|[pc r] ps IH]; intros i acc i' o Hov H; cbn [add_ports] in H.
  - inversion H; subst. exact Hov.
  - destruct (add_port i pc r) as [[i1 o1]|?] eqn:E; cbn [obind fst snd] in H; [|discriminate].
    eapply IH; [|exact H]. unfold add_port in E. destruct (chk_u _ _ _); cbn [obind] in E; [|discriminate].
    match type of E with context [draw ?x] => destruct (draw x) as [k p1] end.
    destruct (announce_interval_ti _); cbn [obind] in E; [|discriminate]. inversion E; subst. cbn [i_ds].
    destruct Hov as [A B]. unfold own_view, ds_with_default, own_parent. cbn [ds_steps_removed ds_parent ds_default dd_clock_identity dd_quality dd_prio1 dd_prio2].
    split; [exact A|]. rewrite B. reflexivity.
Qed.

Lemma quiet_init s es rel i o :
  setup_valid s -> init s = Ok (i, o) -> quiet (mkCase s es rel (Some o) (run i es)) i.
Proof.
  intros Hs Hi. set (c := mkCase s es rel (Some o) (run i es)).
  assert (Hf : Forall (fun p => p_fml p = [] /\ p_multiport_disable p = None) (i_ports i)).
  { unfold init in Hi. eapply add_ports_fresh; [|exact Hi]. constructor. }
  split; [eapply Forall_impl; [|exact Hf]; intros pp H; apply H|]. split.
  - unfold init in Hi. eapply add_ports_own_view; [|exact Hi]. unfold own_view, new_instance, own_parent. cbn. split; reflexivity.
  - split; [cbn [cands]; rewrite map_length; unfold all_ports; rewrite seq_length; reflexivity|].
    cbn [evaluable cands]. intros _ n pp Hn. rewrite (nth_const_gen (@nil cand)).
    rewrite Forall_forall in Hf. destruct (Hf pp (nth_error_In _ _ Hn)) as [F1 F2].
    split; [exact F2|]. intros _. rewrite F1. constructor.
    + constructor.
    + constructor.
    + constructor.
    + intros x [].
    + intros fm [].
    + intros x [].
Qed.

Lemma quiet_run c es : forall i i',
  reach_inv c i -> Forall event_valid es -> forallb silent_event es = true -> quiet c i -> run_state i es = Some i' ->
  reach_inv c i' /\ quiet c i'.
Proof.
  induction es as [|e es IH]; intros i i' Hr Hes Hsil Hq Hrun; cbn [run_state] in Hrun; [inversion Hrun; subst; split; assumption|].
  inversion Hes as [|? ? He Hes']; subst. cbn [forallb] in Hsil. apply andb_true_iff in Hsil as [Hs1 Hs2].
  destruct (step_ok i e (ri_inv _ _ Hr) He) as (i1 & o1 & Hs & _). rewrite Hs in Hrun.
  apply (IH i1 i'); [eapply reach_step; eauto|exact Hes'|exact Hs2|eapply quiet_step; eauto|exact Hrun].
Qed.

Lemma quiet_single c i : nports c = 1%nat -> quiet c i -> inv5 c i s_empty /\ own_view (i_ds i).
Proof.
  intros Hn (_ & Hov & Hinv). split; [|exact Hov]. unfold all_ports in Hinv. rewrite Hn in Hinv. exact Hinv.
Qed.

(** * a network of two clocks *)
Lemma announce_tail_state p d1 locks ti m a p' d' o :
  announce_tail p d1 locks ti m a = Ok (p', d', o) -> pi_clock (p_identity p) <> pi_clock (h_source (m_header m)) ->
  p_state p' = p_state p.
Proof.
  unfold announce_tail, bmca_register. cbv zeta. intros H Hne. destruct (_ && _); [|unfold ret in H; inversion H; reflexivity].
  assert (E : (pi_clock (p_identity (port_with_fml p (fml_register (p_identity p) ti (p_fml p) (m_header m) a 0))) =? pi_clock (h_source (m_header m))) = false).
  { apply Z.eqb_neq. replace (p_identity (port_with_fml p (fml_register (p_identity p) ti (p_fml p) (m_header m) a 0))) with (p_identity p) by (destruct p; reflexivity). exact Hne. }
  rewrite E in H. cbn [andb] in H.
  match type of H with context [draw ?x] => destruct (draw x) as [k p3] eqn:Ed end. apply draw_state_eq in Ed.
  unfold ret in H. inversion H; subst. rewrite Ed. destruct p; reflexivity.
Qed.

Lemma recv_announce_state i f i' o pp pp' m a :
  step i (EvRecvGeneral 0 f) = Ok (i', o) -> nth_error (i_ports i) 0 = Some pp -> nth_error (i_ports i') 0 = Some pp' ->
  is_compatible f = true -> decode f = ROk m -> m_body m = BAnnounce a ->
  h_domain (m_header m) = dd_domain (ds_default (i_ds i)) -> h_sdo_id (m_header m) = dd_sdo_id (ds_default (i_ds i)) ->
  pi_clock (p_identity pp) <> pi_clock (h_source (m_header m)) ->
  p_state pp' = p_state pp.
Proof.
  cbn [step]. intros Hs Hn Hn' Hc Hd Hb Hdom Hsdo Hne.
  destruct (on_port_full i 0 _ i' o Hs) as [(Hnn & _)|(pp0 & pp0' & d' & oo & Hn0 & Hh & ->)]; [rewrite Hn in Hnn; discriminate|].
  rewrite Hn in Hn0. inversion Hn0; subst pp0. cbn [i_ports] in Hn'.
  rewrite nth_error_update_same in Hn' by (apply nth_error_Some; rewrite Hn; discriminate). inversion Hn'; subst pp0'.
  destruct (recv_cases pp (i_ds i) (port_ti pp) f pp' d' oo _ (or_introl eq_refl) Hh) as [(_ & _ & Hno)|(m' & a' & o2 & _ & Hd' & _ & _ & Hb' & Ha)].
  - exfalso. specialize (Hno m a Hc Hd Hb). rewrite Hdom, Hsdo, !Z.eqb_refl in Hno. discriminate Hno.
  - rewrite Hd in Hd'. inversion Hd'; subst m'. rewrite Hb in Hb'. inversion Hb'; subst a'.
    pose proof (handle_announce_exact _ _ _ _ _ _ _ _ Ha) as Hex. destruct (loop_m pp (i_ds i) m a); [subst pp'; reflexivity|].
    destruct Hex as (d1 & locks & Ht). eapply announce_tail_state; eauto.
Qed.

(** the default data set of a new instance is its configuration (number of ports aside) *)
Definition dd_of_cfg (dd : default_ds) (cf : instance_config) : Prop :=
  dd_clock_identity dd = ic_clock_identity cf /\ dd_quality dd = ic_quality cf /\ dd_prio1 dd = ic_prio1 cf /\
  dd_prio2 dd = ic_prio2 cf /\ dd_domain dd = ic_domain cf /\ dd_sdo_id dd = ic_sdo_id cf /\ dd_slave_only dd = ic_slave_only cf.

Lemma add_ports_dd cf ps : forall i acc i' o,
  dd_of_cfg (ds_default (i_ds i)) cf /\ ds_path_enable (i_ds i) = ic_path_trace cf ->
  add_ports i ps acc = Ok (i', o) ->
  dd_of_cfg (ds_default (i_ds i')) cf /\ ds_path_enable (i_ds i') = ic_path_trace cf.
Proof.
  induction ps as [|[pc r] ps IH]; intros i acc i' o Hd H; cbn [add_ports] in H.
  - inversion H; subst. exact Hd.
  - destruct (add_port i pc r) as [[i1 o1]|?] eqn:E; cbn [obind fst snd] in H; [|discriminate].
    eapply IH; [|exact H]. unfold add_port in E. destruct (chk_u _ _ _); cbn [obind] in E; [|discriminate].
    match type of E with context [draw ?x] => destruct (draw x) as [k p1] end.
    destruct (announce_interval_ti _); cbn [obind] in E; [|discriminate]. inversion E; subst. cbn [i_ds].
    destruct Hd as [(A & B & C & D & E1 & F & G) P]. unfold dd_of_cfg, ds_with_default.
    cbn [ds_default ds_path_enable dd_clock_identity dd_quality dd_prio1 dd_prio2 dd_domain dd_sdo_id dd_slave_only]. repeat split; assumption.
Qed.

Lemma init_dd s i o : init s = Ok (i, o) ->
  dd_of_cfg (ds_default (i_ds i)) (su_config s) /\ ds_path_enable (i_ds i) = ic_path_trace (su_config s).
Proof.
  unfold init. intros H. eapply add_ports_dd; [|exact H]. unfold dd_of_cfg, new_instance. cbn. repeat split; reflexivity.
Qed.

(** the steps of the schedule keep the default data set and the path-trace switch *)
Lemma sched_keeps i e i' o : inst_inv i -> event_valid e -> step i e = Ok (i', o) ->
  (match e with EvAnnounceReceiptTimer _ | EvAnnounceTimer _ _ | EvRecvGeneral _ _ => True | _ => False end) ->
  ds_default (i_ds i') = ds_default (i_ds i) /\ ds_path_enable (i_ds i') = ds_path_enable (i_ds i).
Proof.
  intros Hi He Hs Hk. destruct e; try contradiction.
  - exact (recv_keeps_cfg _ _ _ _ _ Hs).
  - cbn [step] in Hs. destruct (on_port_full i p _ i' o Hs) as [(_ & ->)|(pp & pp' & d' & oo & _ & Hh & ->)]; [split; reflexivity|].
    cbn [i_ds]. rewrite (send_announce_d pp (i_ds i) queue pp' d' oo Hh). split; reflexivity.
  - cbn [step] in Hs. destruct (on_port_full i p _ i' o Hs) as [(_ & ->)|(pp & pp' & d' & oo & _ & Hh & ->)]; [split; reflexivity|].
    cbn [i_ds]. rewrite (receipt_timer_d pp (i_ds i) pp' d' oo Hh). split; reflexivity.
Qed.

Lemma calm_master st' : SilenceC12.calm PMaster st' -> st' = PMaster.
Proof. intros [H|[[H _]|[H _]]]; [exact H|discriminate H|discriminate H]. Qed.

Lemma announce_timer_master i i' o pp :
  step i (EvAnnounceTimer 0 []) = Ok (i', o) -> nth_error (i_ports i) 0 = Some pp -> p_state pp = PMaster ->
  exists pp', nth_error (i_ports i') 0 = Some pp' /\ p_state pp' = PMaster /\ p_identity pp' = p_identity pp.
Proof.
  cbn [step]. intros Hs Hn Hm.
  destruct (on_port_full i 0 _ i' o Hs) as [(Hnn & _)|(pp0 & pp0' & d' & oo & Hn0 & Hh & ->)]; [rewrite Hn in Hnn; discriminate|].
  rewrite Hn in Hn0. inversion Hn0; subst pp0. exists pp0'. cbn [i_ports].
  split; [apply nth_error_update_same; apply nth_error_Some; rewrite Hn; discriminate|].
  pose proof (SilenceC12.send_announce_calm _ _ _ _ _ _ Hh) as Hc. unfold SilenceC12.calmp in Hc. rewrite Hm in Hc. split; [apply calm_master; exact Hc|].
  unfold send_announce in Hh. rewrite Hm in Hh. cbn [is_master] in Hh.
  match type of Hh with context [let '(a, b) := ?X in _] => destruct X as [pb m1] end.
  destruct (announce_tlv_loop _ _ _ _ _ _ _) as [[sfx locks]|?]; cbn [obind] in Hh; [|discriminate].
  destruct (serialize_packet _); cbn [obind] in Hh; [|discriminate]. unfold ret in Hh. inversion Hh; subst. destruct pp; reflexivity.
Qed.

(** one node up to the point where it has announced twice *)
Lemma prelude_run s es rel i0 o0 :
  setup_valid s -> init s = Ok (i0, o0) -> ic_slave_only (su_config s) = false ->
  let c := mkCase s es rel (Some o0) (run i0 es) in
  exists i1 o1 i2 o2 i3 o3 pp1,
    step i0 (EvAnnounceReceiptTimer 0) = Ok (i1, o1) /\ step i1 (EvAnnounceTimer 0 []) = Ok (i2, o2) /\
    step i2 (EvAnnounceTimer 0 []) = Ok (i3, o3) /\
    reach_inv c i1 /\ reach_inv c i3 /\ quiet c i1 /\ quiet c i3 /\
    nth_error (i_ports i1) 0 = Some pp1 /\ p_state pp1 = PMaster /\
    (exists pp3, nth_error (i_ports i3) 0 = Some pp3 /\ p_state pp3 = PMaster /\ p_identity pp3 = p_identity pp1) /\
    ds_default (i_ds i1) = ds_default (i_ds i0) /\ ds_path_enable (i_ds i1) = ds_path_enable (i_ds i0) /\
    ds_default (i_ds i3) = ds_default (i_ds i0) /\ ds_path_enable (i_ds i3) = ds_path_enable (i_ds i0).
Proof.
  intros Hs Hi Hso c.
  assert (Hr0 : reach_inv c i0) by (apply reach_init; assumption).
  pose proof (quiet_init s es rel i0 o0 Hs Hi) as Hq0. fold c in Hq0.
  destruct (init_dd s i0 o0 Hi) as [Hdd Hpe].
  destruct (step_ok i0 (EvAnnounceReceiptTimer 0) (ri_inv _ _ Hr0) I) as (i1 & o1 & Hs1 & Hi1 & _).
  pose proof (reach_step c i0 (EvAnnounceReceiptTimer 0) i1 o1 Hr0 I Hs1) as Hr1.
  assert (Hq1 : quiet c i1) by (apply (quiet_step c i0 (EvAnnounceReceiptTimer 0) i1 o1 Hr0 I eq_refl Hq0 Hs1)).
  destruct (sched_keeps i0 (EvAnnounceReceiptTimer 0) i1 o1 (ri_inv _ _ Hr0) I Hs1 I) as [D1 P1].
  (* port 0 exists and becomes master *)
  assert (Hlen : (1 <= length (i_ports i0))%nat) by (destruct (ri_inv _ _ Hr0) as (_ & _ & _ & _ & Hx & _); exact Hx).
  destruct (nth_error (i_ports i0) 0) as [pp0|] eqn:Hn0; [|apply nth_error_None in Hn0; lia].
  pose proof Hs1 as Hs1'. cbn [step] in Hs1'.
  destruct (on_port_full i0 0 _ i1 o1 Hs1') as [(Hnn & _)|(pp0' & pp1 & d1 & oo1 & Hn0' & Hh1 & Hi1e)]; [rewrite Hn0 in Hnn; discriminate|].
  rewrite Hn0 in Hn0'. inversion Hn0'; subst pp0'.
  assert (Hn1 : nth_error (i_ports i1) 0 = Some pp1) by (rewrite Hi1e; cbn [i_ports]; apply nth_error_update_same; lia).
  assert (Hf0 : Forall (fun p => p_fml p = [] /\ p_multiport_disable p = None) (i_ports i0)) by (unfold init in Hi; eapply add_ports_fresh; [|exact Hi]; constructor).
  assert (Hst0 : is_faulty (p_state pp0) = false).
  { (* a new port is listening *)
    assert (Hl : forall ps i acc i' o, Forall (fun p => p_state p = PListening) (i_ports i) -> add_ports i ps acc = Ok (i', o) -> Forall (fun p => p_state p = PListening) (i_ports i')).
    { induction ps as [|[pc r] ps IH]; intros i acc i' o Hall H; cbn [add_ports] in H; [inversion H; subst; exact Hall|].
      destruct (add_port i pc r) as [[ix ox]|?] eqn:E; cbn [obind fst snd] in H; [|discriminate].
      eapply IH; [|exact H]. unfold add_port in E. destruct (chk_u _ _ _); cbn [obind] in E; [|discriminate].
      match type of E with context [draw ?x] => destruct (draw x) as [k p1] eqn:Ed end. apply draw_state_eq in Ed.
      destruct (announce_interval_ti _); cbn [obind] in E; [|discriminate]. inversion E; subst. cbn [i_ports].
      apply Forall_app. split; [exact Hall|]. constructor; [rewrite Ed; reflexivity|constructor]. }
    unfold init in Hi. pose proof (Hl (su_ports s) (new_instance (su_config s) (su_tp s)) [] i0 o0 (Forall_nil _) Hi) as Hall. rewrite Forall_forall in Hall.
    rewrite (Hall pp0 (nth_error_In _ _ Hn0)). reflexivity. }
  assert (Hm1 : p_state pp1 = PMaster).
  { destruct (receipt_timeout_arms pp0 (i_ds i0)) as (p2 & o2' & Hq & _ & F2 & _). rewrite Hh1 in Hq. inversion Hq; subst p2 o2'.
    apply F2; [exact Hst0|]. destruct Hdd as (_ & _ & _ & _ & _ & _ & G). rewrite G. exact Hso. }
  destruct (step_ok i1 (EvAnnounceTimer 0 []) Hi1 ltac:(constructor)) as (i2 & o2 & Hs2 & Hi2 & _).
  pose proof (reach_step c i1 (EvAnnounceTimer 0 []) i2 o2 Hr1 ltac:(constructor) Hs2) as Hr2.
  assert (Hq2 : quiet c i2) by (apply (quiet_step c i1 (EvAnnounceTimer 0 []) i2 o2 Hr1 ltac:(constructor) eq_refl Hq1 Hs2)).
  destruct (sched_keeps i1 (EvAnnounceTimer 0 []) i2 o2 Hi1 ltac:(constructor) Hs2 I) as [D2 P2].
  destruct (announce_timer_master i1 i2 o2 pp1 Hs2 Hn1 Hm1) as (pp2 & Hn2 & Hm2 & Hid2).
  destruct (step_ok i2 (EvAnnounceTimer 0 []) Hi2 ltac:(constructor)) as (i3 & o3 & Hs3 & Hi3 & _).
  pose proof (reach_step c i2 (EvAnnounceTimer 0 []) i3 o3 Hr2 ltac:(constructor) Hs3) as Hr3.
  assert (Hq3 : quiet c i3) by (apply (quiet_step c i2 (EvAnnounceTimer 0 []) i3 o3 Hr2 ltac:(constructor) eq_refl Hq2 Hs3)).
  destruct (sched_keeps i2 (EvAnnounceTimer 0 []) i3 o3 Hi2 ltac:(constructor) Hs3 I) as [D3 P3].
  destruct (announce_timer_master i2 i3 o3 pp2 Hs3 Hn2 Hm2) as (pp3 & Hn3 & Hm3 & Hid3).
  exists i1, o1, i2, o2, i3, o3, pp1. repeat (split; [first [assumption|congruence]|]).
  split; [exists pp3; split; [exact Hn3|split; [exact Hm3|congruence]]|]. repeat split; congruence.
Qed.

Definition single_plain (s : setup) : Prop :=
  setup_valid s /\ ic_slave_only (su_config s) = false /\ ic_path_trace (su_config s) = false /\
  exists pc r, su_ports s = [(pc, r)] /\ pc_acceptable pc = None /\ pc_master_only pc = false.

Definition demoted_state (dd : default_ds) : Z :=
  if (1 <=? cq_class (dd_quality dd)) && (cq_class (dd_quality dd) <=? 127) then 7 else 9.

(** what one clock of a two-clock network does when it hears the other one *)
Lemma node_hears sX sY iX0 oX0 iY0 oY0 :
  single_plain sX -> single_plain sY ->
  ic_domain (su_config sX) = ic_domain (su_config sY) -> ic_sdo_id (su_config sX) = ic_sdo_id (su_config sY) ->
  ic_clock_identity (su_config sX) <> ic_clock_identity (su_config sY) ->
  init sX = Ok (iX0, oX0) -> init sY = Ok (iY0, oY0) ->
  exists f1 f2 iY3 iY6,
    (* X's prelude emits f1, f2 *)
    (exists iX1 oX1 iX2 oX2 iX3 oX3,
       step iX0 (EvAnnounceReceiptTimer 0) = Ok (iX1, oX1) /\ step iX1 (EvAnnounceTimer 0 []) = Ok (iX2, oX2) /\
       step iX2 (EvAnnounceTimer 0 []) = Ok (iX3, oX3) /\
       sent_frames (obs_of_port oX2 0) = [(false, f1)] /\ sent_frames (obs_of_port oX3 0) = [(false, f2)]) /\
    (* Y's prelude, then Y hears f1, f2 and runs the BMCA *)
    run_state iY0 [EvAnnounceReceiptTimer 0; EvAnnounceTimer 0 []; EvAnnounceTimer 0 []] = Some iY3 /\
    run_state iY3 [EvRecvGeneral 0 f1; EvRecvGeneral 0 f2; EvBmca] = Some iY6 /\
    state_of (snapshot_of iY6) 0 =
      (if worse_than (ds_default (i_ds iY0)) (ds_default (i_ds iX0)) then demoted_state (ds_default (i_ds iY0)) else 6) /\
    (* Y's data sets: it follows X only if it became a slave; otherwise it is its own grandmaster *)
    let follows := worse_than (ds_default (i_ds iY0)) (ds_default (i_ds iX0))
                   && negb ((1 <=? cq_class (dd_quality (ds_default (i_ds iY0)))) && (cq_class (dd_quality (ds_default (i_ds iY0))) <=? 127)) in
    ds_steps_removed (i_ds iY6) = (if follows then 1 else 0) /\
    pd_gm_identity (ds_parent (i_ds iY6)) =
      (if follows then dd_clock_identity (ds_default (i_ds iX0)) else dd_clock_identity (ds_default (i_ds iY0))).
Proof.
  intros (HsX & HsoX & HptX & pcX & rX & HpX & HaccX & HmoX) (HsY & HsoY & HptY & pcY & rY & HpY & HaccY & HmoY) Hdom Hsdo Hclk HiX HiY.
  destruct (prelude_run sX [] false iX0 oX0 HsX HiX HsoX) as (iX1 & oX1 & iX2 & oX2 & iX3 & oX3 & ppX1 & SX1 & SX2 & SX3 & RX1 & RX3 & QX1 & QX3 & NX1 & MX1 & _ & DX1 & PX1 & _ & _).
  destruct (prelude_run sY [] false iY0 oY0 HsY HiY HsoY) as (iY1 & oY1 & iY2 & oY2 & iY3 & oY3 & ppY1 & SY1 & SY2 & SY3 & RY1 & RY3 & QY1 & QY3 & NY1 & MY1 & (ppY3 & NY3 & MY3 & IY3) & DY1 & PY1 & DY3 & PY3).
  set (cX := mkCase sX [] false (Some oX0) (run iX0 [])) in *. set (cY := mkCase sY [] false (Some oY0) (run iY0 [])) in *.
  destruct (init_dd sX iX0 oX0 HiX) as [HddX HpeX]. destruct (init_dd sY iY0 oY0 HiY) as [HddY HpeY].
  assert (HnpY : nports cY = 1%nat) by (unfold nports; cbn [cY pc_setup]; rewrite HpY; reflexivity).
  assert (HcfgY : port_cfg cY 0 = Some pcY) by (unfold port_cfg; cbn [cY pc_setup]; rewrite HpY; reflexivity).
  destruct (quiet_single cY iY3 HnpY QY3) as [InvY3 _].
  destruct QX1 as (_ & OvX1 & _).
  (* X's frames *)
  destruct (emits_two cX iX1 ppX1 iX2 oX2 iX3 oX3 RX1 NX1 MX1 ltac:(rewrite PX1, HpeX; exact HptX) SX2 SX3) as (F1 & F2 & W1 & W2 & _).
  set (m1 := msg_announce (i_ds iX1) (p_identity ppX1) (p_seq_announce ppX1) (pc_minor (p_config ppX1))) in *.
  set (m2 := msg_announce (i_ds iX1) (p_identity ppX1) (gen16 (p_seq_announce ppX1)) (pc_minor (p_config ppX1))) in *.
  (* Y receives them *)
  assert (He1 : event_valid (EvRecvGeneral 0 (encode_raw m1))) by (apply encode_raw_bok; exact W1).
  assert (He2 : event_valid (EvRecvGeneral 0 (encode_raw m2))) by (apply encode_raw_bok; exact W2).
  destruct (step_ok iY3 _ (ri_inv _ _ RY3) He1) as (iY4 & oY4 & SY4 & IY4 & _).
  destruct (step_ok iY4 _ IY4 He2) as (iY5 & oY5 & SY5 & IY5 & _).
  destruct (step_ok iY5 EvBmca IY5 I) as (iY6 & oY6 & SY6 & _).
  exists (encode_raw m1), (encode_raw m2), iY3, iY6.
  split; [exists iX1, oX1, iX2, oX2, iX3, oX3; repeat split; assumption|].
  split; [cbn [run_state]; rewrite SY1, SY2, SY3; reflexivity|].
  split; [cbn [run_state]; rewrite SY4, SY5, SY6; reflexivity|].
  (* the state of Y's port before the BMCA: still master *)
  destruct HddX as (CX & QX & P1X & P2X & DomX & SdoX & SoX). destruct HddY as (CY & QY & P1Y & P2Y & DomY & SdoY & SoY).
  assert (HownY : own_clock cY = ic_clock_identity (su_config sY)) by reflexivity.
  assert (HidX1 : pi_clock (p_identity ppX1) = ic_clock_identity (su_config sX)).
  { destruct (ri_inv _ _ RX1) as (_ & _ & Hids & _). rewrite (Hids 0%nat ppX1 NX1). cbn [pi_clock]. rewrite DX1. exact CX. }
  assert (HidY3 : pi_clock (p_identity ppY3) = ic_clock_identity (su_config sY)).
  { destruct (ri_inv _ _ RY3) as (_ & _ & Hids & _). rewrite (Hids 0%nat ppY3 NY3). cbn [pi_clock]. rewrite DY3. exact CY. }
  assert (Hhdr : forall seq, h_source (m_header (msg_announce (i_ds iX1) (p_identity ppX1) seq (pc_minor (p_config ppX1)))) = p_identity ppX1 /\
                             h_domain (m_header (msg_announce (i_ds iX1) (p_identity ppX1) seq (pc_minor (p_config ppX1)))) = ic_domain (su_config sX) /\
                             h_sdo_id (m_header (msg_announce (i_ds iX1) (p_identity ppX1) seq (pc_minor (p_config ppX1)))) = ic_sdo_id (su_config sX)).
  { intros seq. unfold msg_announce, base_header. cbn [m_header h_source h_domain h_sdo_id]. rewrite DX1, DomX, SdoX. repeat split; reflexivity. }
  destruct (nth_error (i_ports iY4) 0) as [ppY4|] eqn:NY4.
  2:{ exfalso. apply nth_error_None in NY4. destruct IY4 as (_ & _ & _ & _ & Hx & _). lia. }
  destruct (nth_error (i_ports iY5) 0) as [ppY5|] eqn:NY5.
  2:{ exfalso. apply nth_error_None in NY5. destruct IY5 as (_ & _ & _ & _ & Hx & _). lia. }
  destruct (sched_keeps iY3 _ iY4 oY4 (ri_inv _ _ RY3) He1 SY4 I) as [DY4 PY4].
  assert (B1 : exists a1, m_body m1 = BAnnounce a1) by (unfold m1, msg_announce; cbn [m_body]; eauto).
  assert (B2 : exists a2, m_body m2 = BAnnounce a2) by (unfold m2, msg_announce; cbn [m_body]; eauto).
  destruct B1 as (a1 & B1). destruct B2 as (a2 & B2).
  assert (M4 : p_state ppY4 = PMaster).
  { rewrite <- MY3. apply (recv_announce_state iY3 (encode_raw m1) iY4 oY4 ppY3 ppY4 m1 a1 SY4 NY3 NY4); try assumption.
    - apply compatible_encode; [reflexivity|]. destruct W1 as (Wh & _). apply Wh.
    - apply encode_decode. exact W1.
    - unfold m1. rewrite (proj1 (proj2 (Hhdr (p_seq_announce ppX1)))), DY3, DomY. exact Hdom.
    - unfold m1. rewrite (proj2 (proj2 (Hhdr (p_seq_announce ppX1)))), DY3, SdoY. exact Hsdo.
    - unfold m1. rewrite (proj1 (Hhdr (p_seq_announce ppX1))), HidX1, HidY3. intros E. apply Hclk. symmetry. exact E. }
  assert (IdY4 : pi_clock (p_identity ppY4) = ic_clock_identity (su_config sY)).
  { destruct IY4 as (_ & _ & Hids & _). rewrite (Hids 0%nat ppY4 NY4). cbn [pi_clock]. rewrite DY4, DY3. exact CY. }
  assert (M5 : p_state ppY5 = PMaster).
  { rewrite <- M4. apply (recv_announce_state iY4 (encode_raw m2) iY5 oY5 ppY4 ppY5 m2 a2 SY5 NY4 NY5); try assumption.
    - apply compatible_encode; [reflexivity|]. destruct W2 as (Wh & _). apply Wh.
    - apply encode_decode. exact W2.
    - unfold m2. rewrite (proj1 (proj2 (Hhdr (gen16 (p_seq_announce ppX1))))), DY4, DY3, DomY. exact Hdom.
    - unfold m2. rewrite (proj2 (proj2 (Hhdr (gen16 (p_seq_announce ppX1))))), DY4, DY3, SdoY. exact Hsdo.
    - unfold m2. rewrite (proj1 (Hhdr (gen16 (p_seq_announce ppX1)))), HidX1, IdY4. intros E. apply Hclk. symmetry. exact E. }
  assert (Hprev : state_of (snapshot_of iY5) 0 = 6) by (rewrite (MainC09.state_of_snapshot iY5 0 ppY5 NY5), M5; reflexivity).
  (* the theorem for two nodes *)
  destruct (two_nodes cX iX1 ppX1 iX2 oX2 iX3 oX3 cY iY3 iY4 oY4 iY5 oY5 iY6 oY6 (encode_raw m1) (encode_raw m2)
              RX1 NX1 MX1 ltac:(rewrite PX1, HpeX; exact HptX) OvX1 SX2 SX3 F1 F2 RY3 InvY3 HnpY
              ltac:(rewrite HcfgY; exact HaccY) ltac:(rewrite HcfgY; exact HmoY) ltac:(rewrite PY3, HpeY; exact HptY)
              ltac:(rewrite DX1, DY3, DomX, DomY; exact Hdom) ltac:(rewrite DX1, DY3, SdoX, SdoY; exact Hsdo)
              ltac:(rewrite DX1, CX, HownY; exact Hclk) SY4 SY5 SY6 ltac:(rewrite Hprev; discriminate)) as (Hstate & HS1 & HnS1).
  destruct (recv_keeps_cfg _ _ _ _ _ SY5) as [DY5 _].
  assert (Hso : dd_slave_only (ds_default (i_ds iY0)) = false) by (rewrite SoY; exact HsoY).
  assert (Eds5 : i_ds iY5 = i_ds iY3).
  { rewrite (recv_keeps_ds iY4 0 _ iY5 oY5 ppY4 SY5 NY4 ltac:(rewrite M4; reflexivity)).
    apply (recv_keeps_ds iY3 0 _ iY4 oY4 ppY3 SY4 NY3). rewrite MY3. reflexivity. }
  split.
  - rewrite Hstate, Hprev. rewrite DY5, DY4, DY3, DX1. rewrite Hso.
    unfold demoted_state. destruct ((1 <=? cq_class (dd_quality (ds_default (i_ds iY0)))) && (cq_class (dd_quality (ds_default (i_ds iY0))) <=? 127));
      destruct (worse_than (ds_default (i_ds iY0)) (ds_default (i_ds iX0))); reflexivity.
  - cbv zeta. cbv zeta in HS1, HnS1. rewrite DY5, DY4, DY3, DX1 in HS1, HnS1. rewrite Eds5 in HnS1.
    destruct QY3 as (_ & [OvS OvP] & _).
    destruct ((1 <=? cq_class (dd_quality (ds_default (i_ds iY0)))) && (cq_class (dd_quality (ds_default (i_ds iY0))) <=? 127));
      destruct (worse_than (ds_default (i_ds iY0)) (ds_default (i_ds iX0))); cbn [andb negb is_m] in *.
    + destruct (HnS1 ltac:(discriminate)) as (A1 & _ & A3). rewrite A1, A3, OvS, OvP. unfold own_parent. cbn [pd_gm_identity]. rewrite DY3. split; reflexivity.
    + destruct (HnS1 ltac:(discriminate)) as (A1 & _ & A3). rewrite A1, A3. split; reflexivity.
    + destruct (HS1 eq_refl) as (A1 & _ & A3). rewrite A1, A3. split; reflexivity.
    + destruct (HnS1 ltac:(discriminate)) as (A1 & _ & A3). rewrite A1, A3. split; reflexivity.
Qed.

Lemma worse_opposite ddA ddB : dd_clock_identity ddA <> dd_clock_identity ddB -> worse_than ddB ddA = negb (worse_than ddA ddB).
Proof.
  intros Hne. unfold worse_than. rewrite (fig34_mirror (cmp_from_own ddA) (cmp_from_own ddB)).
  unfold fig34. cbn [cmp_from_own c_gm_identity c_prio1 c_quality c_prio2].
  assert (E : (dd_clock_identity ddA =? dd_clock_identity ddB) = false) by (apply Z.eqb_neq; exact Hne). rewrite E.
  repeat match goal with |- context [if ?c then _ else _] => destruct c end; reflexivity.
Qed.

(** Two clocks, one link, one port each; both start, time out on the announce
    receipt timer, announce twice, hear the other's two Announces and run the
    BMCA.  Exactly one of them keeps its port MASTER (the one whose own data set
    wins Figures 34/35); the other one's port is SLAVE (PASSIVE if its clockClass is
    in 1..127). *)
Definition low_dd (dd : default_ds) : bool := (1 <=? cq_class (dd_quality dd)) && (cq_class (dd_quality dd) <=? 127).

Theorem two_clock_network sA sB iA0 oA0 iB0 oB0 :
  single_plain sA -> single_plain sB ->
  ic_domain (su_config sA) = ic_domain (su_config sB) -> ic_sdo_id (su_config sA) = ic_sdo_id (su_config sB) ->
  ic_clock_identity (su_config sA) <> ic_clock_identity (su_config sB) ->
  init sA = Ok (iA0, oA0) -> init sB = Ok (iB0, oB0) ->
  exists fA1 fA2 fB1 fB2 iA3 iB3 iA6 iB6,
    run_state iA0 [EvAnnounceReceiptTimer 0; EvAnnounceTimer 0 []; EvAnnounceTimer 0 []] = Some iA3 /\
    run_state iB0 [EvAnnounceReceiptTimer 0; EvAnnounceTimer 0 []; EvAnnounceTimer 0 []] = Some iB3 /\
    run_state iA3 [EvRecvGeneral 0 fB1; EvRecvGeneral 0 fB2; EvBmca] = Some iA6 /\
    run_state iB3 [EvRecvGeneral 0 fA1; EvRecvGeneral 0 fA2; EvBmca] = Some iB6 /\
    let ddA := ds_default (i_ds iA0) in
    let ddB := ds_default (i_ds iB0) in
    let wA := worse_than ddA ddB in
    state_of (snapshot_of iA6) 0 = (if wA then demoted_state ddA else 6) /\
    state_of (snapshot_of iB6) 0 = (if wA then 6 else demoted_state ddB) /\
    (* the data sets: the loser follows the winner unless its clockClass is in 1..127,
       in which case it is PASSIVE and remains its own grandmaster (finding F28) *)
    let a_follows := wA && negb (low_dd ddA) in
    let b_follows := negb wA && negb (low_dd ddB) in
    pd_gm_identity (ds_parent (i_ds iA6)) = (if a_follows then dd_clock_identity ddB else dd_clock_identity ddA) /\
    pd_gm_identity (ds_parent (i_ds iB6)) = (if b_follows then dd_clock_identity ddA else dd_clock_identity ddB) /\
    ds_steps_removed (i_ds iA6) = (if a_follows then 1 else 0) /\
    ds_steps_removed (i_ds iB6) = (if b_follows then 1 else 0).
Proof.
  intros HA HB Hdom Hsdo Hclk HiA HiB.
  destruct (node_hears sA sB iA0 oA0 iB0 oB0 HA HB Hdom Hsdo Hclk HiA HiB) as (fA1 & fA2 & iB3 & iB6 & _ & RB3 & RB6 & SB & TB & GB).
  destruct (node_hears sB sA iB0 oB0 iA0 oA0 HB HA (eq_sym Hdom) (eq_sym Hsdo) (fun E => Hclk (eq_sym E)) HiB HiA) as (fB1 & fB2 & iA3 & iA6 & _ & RA3 & RA6 & SA & TA & GA).
  exists fA1, fA2, fB1, fB2, iA3, iB3, iA6, iB6. repeat (split; [assumption|]). cbv zeta. cbv zeta in TA, GA, TB, GB.
  destruct (init_dd sA iA0 oA0 HiA) as [(CA & _) _]. destruct (init_dd sB iB0 oB0 HiB) as [(CB & _) _].
  rewrite (worse_opposite (ds_default (i_ds iA0)) (ds_default (i_ds iB0))) in SB, TB, GB by (rewrite CA, CB; exact Hclk).
  unfold low_dd.
  split; [rewrite SB; destruct (worse_than (ds_default (i_ds iA0)) (ds_default (i_ds iB0))); cbn [negb]; reflexivity|].
  split; [exact GA|]. split; [exact GB|]. split; [exact TA|exact TB].
Qed.

(** One grandmaster - unless the loser's clockClass is in 1..127 (finding F28): then
    both clocks are their own grandmaster, for every such pair of configurations. *)
Corollary two_clock_grandmasters sA sB iA0 oA0 iB0 oB0 :
  single_plain sA -> single_plain sB ->
  ic_domain (su_config sA) = ic_domain (su_config sB) -> ic_sdo_id (su_config sA) = ic_sdo_id (su_config sB) ->
  ic_clock_identity (su_config sA) <> ic_clock_identity (su_config sB) ->
  init sA = Ok (iA0, oA0) -> init sB = Ok (iB0, oB0) ->
  exists fA1 fA2 fB1 fB2 iA3 iB3 iA6 iB6,
    run_state iA0 [EvAnnounceReceiptTimer 0; EvAnnounceTimer 0 []; EvAnnounceTimer 0 []] = Some iA3 /\
    run_state iB0 [EvAnnounceReceiptTimer 0; EvAnnounceTimer 0 []; EvAnnounceTimer 0 []] = Some iB3 /\
    run_state iA3 [EvRecvGeneral 0 fB1; EvRecvGeneral 0 fB2; EvBmca] = Some iA6 /\
    run_state iB3 [EvRecvGeneral 0 fA1; EvRecvGeneral 0 fA2; EvBmca] = Some iB6 /\
    let ddA := ds_default (i_ds iA0) in
    let ddB := ds_default (i_ds iB0) in
    let wA := worse_than ddA ddB in
    let winner := if wA then dd_clock_identity ddB else dd_clock_identity ddA in
    let loser_low := if wA then low_dd ddA else low_dd ddB in
    if loser_low
    then pd_gm_identity (ds_parent (i_ds iA6)) = dd_clock_identity ddA /\ pd_gm_identity (ds_parent (i_ds iB6)) = dd_clock_identity ddB /\
         ds_steps_removed (i_ds iA6) = 0 /\ ds_steps_removed (i_ds iB6) = 0
    else pd_gm_identity (ds_parent (i_ds iA6)) = winner /\ pd_gm_identity (ds_parent (i_ds iB6)) = winner /\
         ds_steps_removed (i_ds iA6) = (if wA then 1 else 0) /\ ds_steps_removed (i_ds iB6) = (if wA then 0 else 1).
Proof.
  intros HA HB Hdom Hsdo Hclk HiA HiB.
  destruct (two_clock_network sA sB iA0 oA0 iB0 oB0 HA HB Hdom Hsdo Hclk HiA HiB)
    as (fA1 & fA2 & fB1 & fB2 & iA3 & iB3 & iA6 & iB6 & RA3 & RB3 & RA6 & RB6 & H).
  exists fA1, fA2, fB1, fB2, iA3, iB3, iA6, iB6. repeat (split; [assumption|]).
  cbv zeta in H. destruct H as (_ & _ & GA & GB & TA & TB). cbv zeta.
  destruct (worse_than (ds_default (i_ds iA0)) (ds_default (i_ds iB0)));
    destruct (low_dd (ds_default (i_ds iA0))); destruct (low_dd (ds_default (i_ds iB0))); cbn [andb negb] in *;
    repeat split; assumption.
Qed.
