(** C01 — Network converges to one grandmaster and a loop-free master/slave tree.
    The oracle judges the final snapshots of all nodes of a simulated network
    (per connected component after the fault script), written from the
    property text with the figure-level comparison of BmcaSpec.v. *)
From SV Require Export Port.BmcaSpec Port.OracleBase.

Record netcase := mkNet {
  nc_segments : list (list (nat * nat));     (* endpoints (node, port) per segment *)
  nc_nodes : list pcase;
  nc_cut : list (nat * nat);                 (* endpoints cut off their segment *)
  nc_silent : list nat                       (* nodes that were switched off *)
}.

Definition ep_eqb (a b : nat * nat) : bool := Nat.eqb (fst a) (fst b) && Nat.eqb (snd a) (snd b).
Definition mem_ep (x : nat * nat) (l : list (nat * nat)) : bool := existsb (ep_eqb x) l.
Definition mem_nat (x : nat) (l : list nat) : bool := existsb (Nat.eqb x) l.

(** snapshots after each BMCA run of a node, newest first *)
Fixpoint bmca_snaps (es : list event) (rs : list step_result) (acc : list snapshot) : list snapshot :=
  match es, rs with
  | e :: es', SROk _ sn :: rs' =>
      bmca_snaps es' rs' (match e with EvBmca => sn :: acc | _ => acc end)
  | _, _ => acc
  end.

Definition final_snap (c : pcase) : snapshot :=
  match bmca_snaps (pc_events c) (pc_trace c) [] with
  | s :: _ => s
  | [] => init_snap c
  end.

Definition node_panicked (c : pcase) : bool :=
  existsb (fun r => match r with SRPanic => true | _ => false end) (pc_trace c).

(** effective segments: cut endpoints become singleton segments, silent nodes vanish *)
Definition live_segments (n : netcase) : list (list (nat * nat)) :=
  let alive ep := negb (mem_nat (fst ep) (nc_silent n)) in
  map (fun s => filter (fun ep => alive ep && negb (mem_ep ep (nc_cut n))) s) (nc_segments n)
  ++ map (fun ep => [ep]) (filter alive (nc_cut n)).

(** nodes reachable from [start] *)
(** timing propagates only through nodes that can be master: a slave-only node
    is a leaf of the tree, it never relays *)
Fixpoint reach (relay : nat -> bool) (fuel : nat) (segs : list (list (nat * nat))) (seen : list nat) : list nat :=
  match fuel with
  | O => seen
  | S fuel' =>
      let grown :=
        fold_left (fun acc s =>
          if existsb (fun ep => mem_nat (fst ep) acc && relay (fst ep)) s
          then fold_left (fun a ep => if mem_nat (fst ep) a then a else fst ep :: a) s acc
          else acc) segs seen in
      reach relay fuel' segs grown
  end.

Definition dd_of (n : netcase) (i : nat) : default_ds :=
  match nth_error (nc_nodes n) i with
  | Some c => ds_default (sn_ds (final_snap c))
  | None => mkDD 0 0 (mkCQ 0 0 0) 0 0 0 false 0
  end.
Definition snap_of (n : netcase) (i : nat) : snapshot :=
  match nth_error (nc_nodes n) i with Some c => final_snap c | None => mkSnap [] (mkDS (dd_of n i) 0 (mkPD pi_default 0 (mkCQ 0 0 0) 0 0) [] false (mkTP None 0 false false false 0)) [] [] end.

Definition better_node (n : netcase) (a b : nat) : bool :=
  a_better_or_topo (fig34 (cmp_from_own (dd_of n a)) (cmp_from_own (dd_of n b))).

Definition node_of_clock (n : netcase) (clock : Z) : option nat :=
  find (fun i => dd_clock_identity (dd_of n i) =? clock) (seq 0 (length (nc_nodes n))).

Definition port_state_at (n : netcase) (ep : nat * nat) : Z := nth (snd ep) (sn_states (snap_of n (fst ep))) 0.

Definition component_ok (n : netcase) (segs : list (list (nat * nat))) (comp : list nat) : bool :=
  let capable := filter (fun i => negb (dd_slave_only (dd_of n i))) comp in
  match find (fun b => forallb (fun o => Nat.eqb b o || better_node n b o) capable) capable with
  | None => match capable with [] => true | _ => false end       (* no strict best: ranking not strict *)
  | Some b =>
      let bclock := dd_clock_identity (dd_of n b) in
      let segs_c := filter (fun s => existsb (fun ep => mem_nat (fst ep) comp) s) segs in
      (* the best node is grandmaster *)
      let gm_ok :=
        let ds := sn_ds (snap_of n b) in
        (ds_steps_removed ds =? 0) && (pi_clock (pd_parent (ds_parent ds)) =? bclock)
        && (pd_gm_identity (ds_parent ds) =? bclock)
        && forallb (fun s => negb (s =? 9)) (sn_states (snap_of n b)) in
      (* every other node *)
      let others_ok :=
        forallb (fun i =>
          if Nat.eqb i b then true else
          let sn := snap_of n i in
          let ds := sn_ds sn in
          let class := cq_class (dd_quality (dd_of n i)) in
          let slaves := filter (fun p => nth p (sn_states sn) 0 =? 9) (seq 0 (length (sn_states sn))) in
          if (1 <=? class) && (class <=? 127) then (length slaves =? 0)%nat
          else
            match slaves with
            | [p] =>
                let parent := pd_parent (ds_parent ds) in
                match node_of_clock n (pi_clock parent) with
                | Some m =>
                    let mep := (m, Z.to_nat (pi_port parent - 1)) in
                    (* the parent port is a master port on the same segment as the slave port *)
                    existsb (fun s => mem_ep (i, p) s && mem_ep mep s) segs_c
                    && (port_state_at n mep =? 6)
                    && (ds_steps_removed ds =? ds_steps_removed (sn_ds (snap_of n m)) + 1)
                    && (if dd_slave_only (dd_of n i)
                        then pd_gm_identity (ds_parent ds) =? pd_gm_identity (ds_parent (sn_ds (snap_of n m)))
                        else pd_gm_identity (ds_parent ds) =? bclock)
                | None => false
                end
            | _ => false
            end) comp in
      (* exactly one master port on every segment with a master-capable endpoint *)
      let seg_ok :=
        forallb (fun s =>
          if existsb (fun ep => negb (dd_slave_only (dd_of n (fst ep)))) s
          then Nat.eqb (count (fun ep => Z.eqb (port_state_at n ep) 6) s) 1
          else Nat.eqb (count (fun ep => Z.eqb (port_state_at n ep) 6) s) 0) segs_c in
      gm_ok && others_ok && seg_ok
  end.

(** the steady state does not flap: the last [k] BMCA snapshots of every live node agree *)
Definition stable (n : netcase) (k : nat) : bool :=
  forallb (fun i =>
    if mem_nat i (nc_silent n) then true else
    match nth_error (nc_nodes n) i with
    | Some c =>
        match firstn k (bmca_snaps (pc_events c) (pc_trace c) []) with
        | s :: rest => forallb (fun s' => list_eqb Z.eqb (sn_states s) (sn_states s')
                                          && pd_eqb (ds_parent (sn_ds s)) (ds_parent (sn_ds s'))
                                          && (ds_steps_removed (sn_ds s) =? ds_steps_removed (sn_ds s'))) rest
                       && (Nat.leb k (S (length rest)))
        | [] => false
        end
    | None => false
    end) (seq 0 (length (nc_nodes n))).

Definition converged (n : netcase) : bool :=
  let segs := live_segments n in
  let live := filter (fun i => negb (mem_nat i (nc_silent n))) (seq 0 (length (nc_nodes n))) in
  forallb (fun i => component_ok n segs (reach (fun j => negb (dd_slave_only (dd_of n j))) (length (nc_nodes n)) segs [i])) live.

Definition ok_C01 (n : netcase) : bool :=
  negb (existsb node_panicked (nc_nodes n)) && converged n && stable n 6.

Definition agree_C01 (n : netcase) : bool := forallb agree_port (nc_nodes n).
(** Known finding F28 (kf=1).  A live instance whose clockClass is in 1..127 and
    which is not the best of its component never becomes a slave (IEEE 1588-2019
    figure 33: P1/P2, PASSIVE); it therefore does not relay the best clock's time
    and stays the grandmaster of whatever sits behind it.  The classifier accepts
    a rejected network only when (a) such an instance exists, and (b) the network
    is fine once such instances are treated as ends of the tree: components are
    grown from every ordinary node, through ordinary master-capable nodes only. *)
Definition low_class (n : netcase) (i : nat) : bool :=
  let c := cq_class (dd_quality (dd_of n i)) in (1 <=? c) && (c <=? 127).

Definition best_of (n : netcase) (comp : list nat) : option nat :=
  let capable := filter (fun i => negb (dd_slave_only (dd_of n i))) comp in
  find (fun b => forallb (fun o => Nat.eqb b o || better_node n b o) capable) capable.

Definition f28_present (n : netcase) : bool :=
  let segs := live_segments n in
  let live := filter (fun i => negb (mem_nat i (nc_silent n))) (seq 0 (length (nc_nodes n))) in
  existsb (fun i =>
    low_class n i && negb (dd_slave_only (dd_of n i)) &&
    match best_of n (reach (fun j => negb (dd_slave_only (dd_of n j))) (length (nc_nodes n)) segs [i]) with
    | Some b => negb (Nat.eqb b i)
    | None => false
    end) live.

Definition converged_f28 (n : netcase) : bool :=
  let segs := live_segments n in
  let live := filter (fun i => negb (mem_nat i (nc_silent n))) (seq 0 (length (nc_nodes n))) in
  forallb (fun i =>
    if low_class n i
    then forallb (fun s => negb (s =? 9)) (sn_states (snap_of n i))
    else component_ok n segs
           (reach (fun j => negb (dd_slave_only (dd_of n j)) && negb (low_class n j))
                  (length (nc_nodes n)) segs [i])) live.

Definition kf_C01 (n : netcase) : Z :=
  if negb (existsb node_panicked (nc_nodes n)) && f28_present n && converged_f28 n && stable n 6
  then 1 else 0.
Definition case := netcase.
Definition run_cases := run_cases_gen agree_C01 ok_C01 kf_C01.
