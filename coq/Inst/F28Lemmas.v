(** C01: what the known-finding classifier [kf_C01] (finding F28) can excuse. *)
From SV Require Import Inst.NetOracle.
Local Open Scope Z_scope.

Lemma kf_C01_values n : kf_C01 n = 0 \/ kf_C01 n = 1.
Proof. unfold kf_C01. destruct (_ && _ && _ && _); [right|left]; reflexivity. Qed.

(** a network is excused only if no node panicked, an instance with clockClass 1..127
    that is not the best of its component is present, the network passes the whole
    oracle with such instances as ends of the tree, and it does not flap *)
Lemma kf_C01_guarded n :
  kf_C01 n <> 0 ->
  existsb node_panicked (nc_nodes n) = false /\ f28_present n = true /\ converged_f28 n = true /\ stable n 6 = true.
Proof.
  unfold kf_C01. intros H.
  destruct (existsb node_panicked (nc_nodes n)); cbn [negb andb] in H; [contradiction H; reflexivity|].
  destruct (f28_present n); cbn [andb] in H; [|contradiction H; reflexivity].
  destruct (converged_f28 n); cbn [andb] in H; [|contradiction H; reflexivity].
  destruct (stable n 6); [|contradiction H; reflexivity].
  repeat split.
Qed.

(** no instance with clockClass 1..127: nothing is excused, every rejected network is a violation *)
Lemma kf_C01_needs_low_class n : (forall i, low_class n i = false) -> kf_C01 n = 0.
Proof.
  intros H. unfold kf_C01.
  assert (E : f28_present n = false).
  { unfold f28_present. cbv zeta.
    match goal with |- existsb ?f ?l = false => generalize l end. intros l. induction l as [|x l IH]; cbn [existsb]; [reflexivity|].
    rewrite H. cbn [andb orb]. exact IH. }
  rewrite E. rewrite andb_false_r. reflexivity.
Qed.
