(** C19 — proofs about the JSON model: print/parse round trip for all values,
    Serialize/Deserialize round trip for all well-formed states. *)
From Coq Require Import Ascii String Decimal DecimalZ DecimalPos.
From SV Require Import Obs.Json.

Local Open Scope char_scope.

(** * Decimal integers *)

Lemma chars_uint_chars u : chars_uint (uint_chars u) = Some u.
Proof. induction u; cbn [uint_chars chars_uint]; try rewrite IHu; reflexivity. Qed.

Lemma uint_chars_digits u : forallb is_digit (uint_chars u) = true.
Proof. induction u; cbn [uint_chars forallb]; try rewrite IHu; reflexivity. Qed.

Lemma uint_chars_nil u : uint_chars u = [] -> u = Decimal.Nil.
Proof. destruct u; cbn; intros H; try discriminate; reflexivity. Qed.

Lemma digit_numch c : is_digit c = true -> is_numch c = true.
Proof. unfold is_numch. intros ->. reflexivity. Qed.

Lemma digit_not_minus c : is_digit c = true -> Ascii.eqb c "-" = false.
Proof.
  destruct c as [[] [] [] [] [] [] [] []]; cbn; intros H; try discriminate; reflexivity.
Qed.

Lemma to_int_nonnil z :
  match Z.to_int z with Decimal.Pos u | Decimal.Neg u => u <> Decimal.Nil end.
Proof.
  destruct z; cbn; [discriminate | apply Unsigned.to_uint_nonnil | apply Unsigned.to_uint_nonnil].
Qed.

Lemma forallb_impl {A} (f g : A -> bool) l :
  (forall x, f x = true -> g x = true) -> forallb f l = true -> forallb g l = true.
Proof.
  intros H. induction l; cbn; [reflexivity |]. intros E. apply andb_true_iff in E.
  destruct E as [E1 E2]. rewrite (H _ E1), (IHl E2). reflexivity.
Qed.

Lemma print_int_numch z : forallb is_numch (print_int z) = true.
Proof.
  unfold print_int. destruct (Z.to_int z); cbn [forallb].
  - apply (forallb_impl is_digit); [apply digit_numch | apply uint_chars_digits].
  - change (is_numch "-") with true. cbn [andb].
    apply (forallb_impl is_digit); [apply digit_numch | apply uint_chars_digits].
Qed.

Lemma print_int_nonempty z : print_int z <> [].
Proof.
  unfold print_int. pose proof (to_int_nonnil z) as H. destruct (Z.to_int z); [| discriminate].
  intros E. apply H. apply uint_chars_nil. exact E.
Qed.

Lemma int_of_token_print z : int_of_token (print_int z) = Some z.
Proof.
  unfold print_int. pose proof (to_int_nonnil z) as H. pose proof (DecimalZ.of_to z) as R.
  destruct (Z.to_int z) as [u | u].
  - destruct (uint_chars u) as [| c t] eqn:E.
    + exfalso. apply H. apply uint_chars_nil. exact E.
    + unfold int_of_token.
      assert (D : is_digit c = true).
      { pose proof (uint_chars_digits u) as F. rewrite E in F. cbn in F.
        apply andb_true_iff in F. tauto. }
      rewrite (digit_not_minus c D). rewrite <- E, chars_uint_chars, R. reflexivity.
  - unfold int_of_token. change (Ascii.eqb "-" "-") with true. cbv iota.
    destruct (uint_chars u) as [| c t] eqn:E.
    + exfalso. apply H. apply uint_chars_nil. exact E.
    + rewrite <- E, chars_uint_chars, R. reflexivity.
Qed.

(** * Tokens *)

Definition follow_ok (rest : chars) : bool :=
  match rest with [] => true | c :: _ => negb (is_numch c) end.

Lemma span_num_app t rest :
  forallb is_numch t = true -> follow_ok rest = true -> span_num (t ++ rest) = (t, rest).
Proof.
  intros Ht Hr. induction t as [| c t IH]; cbn [app].
  - destruct rest as [| c r]; [reflexivity |]. cbn [span_num follow_ok] in *.
    apply negb_true_iff in Hr. rewrite Hr. reflexivity.
  - cbn [forallb] in Ht. apply andb_true_iff in Ht. destruct Ht as [Hc Ht].
    cbn [span_num]. rewrite Hc, (IH Ht). reflexivity.
Qed.

Lemma parse_number_int z rest :
  follow_ok rest = true -> parse_number (print_int z ++ rest) = Some (JInt z, rest).
Proof.
  intros Hr. unfold parse_number. rewrite (span_num_app _ _ (print_int_numch z) Hr).
  pose proof (print_int_nonempty z). destruct (print_int z) eqn:E; [congruence |].
  rewrite <- E, int_of_token_print. reflexivity.
Qed.

Lemma parse_number_float t rest :
  float_token t = true -> follow_ok rest = true ->
  parse_number (t ++ rest) = Some (JFloat t, rest).
Proof.
  unfold float_token. intros Ht Hr. apply andb_true_iff in Ht. destruct Ht as [Ht Hi].
  apply andb_true_iff in Ht. destruct Ht as [Hn He].
  unfold parse_number. rewrite (span_num_app _ _ Hn Hr).
  destruct t; [discriminate |]. destruct (int_of_token (a :: t)); [discriminate | reflexivity].
Qed.

Lemma parse_str_plain s rest :
  plain s = true -> parse_str (s ++ dq :: rest) = Some (s, rest).
Proof.
  induction s as [| c s IH]; cbn [app parse_str plain forallb].
  - change (Ascii.eqb dq dq) with true. reflexivity.
  - intros H. apply andb_true_iff in H. destruct H as [Hc Hs]. unfold plain_char in Hc.
    apply andb_true_iff in Hc. destruct Hc as [H1 H2].
    apply negb_true_iff in H1. apply negb_true_iff in H2. rewrite H1, H2.
    fold (plain s) in Hs. rewrite (IH Hs). reflexivity.
Qed.

(** first character of a number token is none of the structural characters *)
Lemma numch_dispatch c :
  is_numch c = true ->
  is_c c "n" = false /\ is_c c "t" = false /\ is_c c "f" = false /\ is_c c dq = false /\
  is_c c "[" = false /\ is_c c "{" = false.
Proof.
  destruct c as [[] [] [] [] [] [] [] []]; cbn; intros H; try discriminate; repeat split.
Qed.

(** * Printer in list form *)

Fixpoint print_elems (l : list json) : chars :=
  match l with
  | [] => ["]"]
  | [x] => print x ++ ["]"]
  | x :: r => print x ++ "," :: print_elems r
  end.

Fixpoint print_members (l : list (chars * json)) : chars :=
  match l with
  | [] => ["}"]
  | [(k, x)] => dq :: k ++ dq :: ":" :: print x ++ ["}"]
  | (k, x) :: r => dq :: k ++ dq :: ":" :: print x ++ "," :: print_members r
  end.

Lemma print_arr l : print (JArr l) = "[" :: print_elems l.
Proof. reflexivity. Qed.

Lemma print_obj l : print (JObj l) = "{" :: print_members l.
Proof. reflexivity. Qed.

Lemma print_elems_cons x r :
  print_elems (x :: r) = print x ++ match r with [] => ["]"] | _ => "," :: print_elems r end.
Proof. destruct r; reflexivity. Qed.

Lemma print_members_cons k x r :
  print_members ((k, x) :: r)
  = dq :: k ++ dq :: ":" :: print x ++ match r with [] => ["}"] | _ => "," :: print_members r end.
Proof. destruct r; reflexivity. Qed.

(** * Well-formed values, sizes *)

Fixpoint wf_json (v : json) : bool :=
  match v with
  | JNull | JBool _ | JInt _ => true
  | JFloat t => float_token t
  | JStr s => plain s
  | JArr l => forallb wf_json l
  | JObj l => forallb (fun kv => plain (fst kv) && wf_json (snd kv)) l
  end.

Fixpoint size (v : json) : nat :=
  match v with
  | JArr l => fold_right (fun x n => (2 + size x + n)%nat) 0%nat l
  | JObj l => fold_right (fun kv n => (2 + size (snd kv) + n)%nat) 0%nat l
  | _ => 0%nat
  end.

Section JsonInd.
  Variable P : json -> Prop.
  Hypothesis HNull : P JNull.
  Hypothesis HBool : forall b, P (JBool b).
  Hypothesis HInt : forall z, P (JInt z).
  Hypothesis HFloat : forall t, P (JFloat t).
  Hypothesis HStr : forall s, P (JStr s).
  Hypothesis HArr : forall l, Forall P l -> P (JArr l).
  Hypothesis HObj : forall l, Forall (fun kv => P (snd kv)) l -> P (JObj l).

  Fixpoint json_ind' (v : json) : P v :=
    match v with
    | JNull => HNull
    | JBool b => HBool b
    | JInt z => HInt z
    | JFloat t => HFloat t
    | JStr s => HStr s
    | JArr l =>
        HArr l ((fix go (l : list json) : Forall P l :=
                   match l with
                   | [] => Forall_nil P
                   | x :: r => Forall_cons x (json_ind' x) (go r)
                   end) l)
    | JObj l =>
        HObj l ((fix go (l : list (chars * json)) : Forall (fun kv => P (snd kv)) l :=
                   match l with
                   | [] => Forall_nil _
                   | kv :: r => Forall_cons kv (json_ind' (snd kv)) (go r)
                   end) l)
    end.
End JsonInd.

(** * parse (print v) = v *)

Ltac dispatch :=
  repeat match goal with
         | |- context [is_c ?a ?b] =>
             let v := eval vm_compute in (is_c a b) in
             match v with
             | true => change (is_c a b) with true
             | false => change (is_c a b) with false
             end
         end; cbv iota.

Lemma numch_not_close c : is_numch c = true -> is_c c "]" = false /\ is_c c "}" = false.
Proof.
  destruct c as [[] [] [] [] [] [] [] []]; cbn; intros H; try discriminate; repeat split.
Qed.

(** A printed value starts with a character that is neither "]" nor "}". *)
Lemma print_head v :
  wf_json v = true -> exists c t, print v = c :: t /\ is_c c "]" = false /\ is_c c "}" = false.
Proof.
  destruct v as [| [] | z | t | s | l | l]; intros W.
  - eexists _, _. cbn. repeat split.
  - eexists _, _. cbn. repeat split.
  - eexists _, _. cbn. repeat split.
  - cbn [print]. pose proof (print_int_nonempty z) as N. pose proof (print_int_numch z) as F.
    destruct (print_int z) as [| c t]; [congruence |]. cbn [forallb] in F.
    apply andb_true_iff in F. destruct F as [F _].
    exists c, t. split; [reflexivity | apply numch_not_close; exact F].
  - cbn [print wf_json] in *. unfold float_token in W. apply andb_true_iff in W. destruct W as [W _].
    apply andb_true_iff in W. destruct W as [F N]. destruct t as [| c t]; [discriminate |].
    cbn [forallb] in F. apply andb_true_iff in F. destruct F as [F _].
    exists c, t. split; [reflexivity | apply numch_not_close; exact F].
  - eexists _, _. cbn [print]. repeat split.
  - eexists _, _. rewrite print_arr. repeat split.
  - eexists _, _. rewrite print_obj. repeat split.
Qed.

Definition P_parse (v : json) : Prop :=
  wf_json v = true -> forall rest fuel,
  follow_ok rest = true -> (size v <= fuel)%nat ->
  parse_val (S fuel) (print v ++ rest) = Some (v, rest).

Definition esize (l : list json) : nat := fold_right (fun x n => (2 + size x + n)%nat) 0%nat l.
Definition msize (l : list (chars * json)) : nat :=
  fold_right (fun kv n => (2 + size (snd kv) + n)%nat) 0%nat l.

Lemma parse_elems_S f s :
  parse_elems (S f) s =
    match parse_val f s with
    | Some (v, c :: r) =>
        if is_c c "," then
          match parse_elems f r with Some (l, b) => Some (v :: l, b) | None => None end
        else if is_c c "]" then Some ([v], r)
        else None
    | _ => None
    end.
Proof. reflexivity. Qed.

Lemma parse_members_S f s :
  parse_members (S f) s =
    match s with
    | c :: r =>
        if is_c c dq then
          match parse_str r with
          | Some (k, c1 :: r1) =>
              if is_c c1 ":" then
                match parse_val f r1 with
                | Some (v, c2 :: r2) =>
                    if is_c c2 "," then
                      match parse_members f r2 with Some (l, b) => Some ((k, v) :: l, b) | None => None end
                    else if is_c c2 "}" then Some ([(k, v)], r2)
                    else None
                | _ => None
                end
              else None
          | _ => None
          end
        else None
    | [] => None
    end.
Proof. reflexivity. Qed.

Lemma parse_elems_ok l :
  Forall P_parse l -> forallb wf_json l = true -> l <> [] ->
  forall rest fuel, (esize l <= fuel)%nat ->
  parse_elems fuel (print_elems l ++ rest) = Some (l, rest).
Proof.
  induction l as [| x r IH]; intros HP HW HN rest fuel HF; [congruence |].
  inversion HP as [| ? ? Px Pr]; subst. cbn [forallb] in HW. apply andb_true_iff in HW.
  destruct HW as [Wx Wr]. cbn [esize fold_right] in HF. fold (esize r) in HF.
  destruct fuel as [| [| f]]; try lia.
  rewrite print_elems_cons. rewrite <- app_assoc.
  rewrite parse_elems_S.
  destruct r as [| y r'].
  - cbn [app]. rewrite (Px Wx ("]" :: rest) f eq_refl ltac:(lia)). dispatch. reflexivity.
  - cbn [app]. rewrite (Px Wx ("," :: print_elems (y :: r') ++ rest) f eq_refl ltac:(lia)). dispatch.
    rewrite (IH Pr Wr ltac:(discriminate) rest (S f) ltac:(lia)). reflexivity.
Qed.

Lemma parse_members_ok l :
  Forall (fun kv => P_parse (snd kv)) l ->
  forallb (fun kv => plain (fst kv) && wf_json (snd kv)) l = true -> l <> [] ->
  forall rest fuel, (msize l <= fuel)%nat ->
  parse_members fuel (print_members l ++ rest) = Some (l, rest).
Proof.
  induction l as [| [k x] r IH]; intros HP HW HN rest fuel HF; [congruence |].
  inversion HP as [| ? ? Px Pr]; subst. cbn [forallb fst snd] in HW. apply andb_true_iff in HW.
  destruct HW as [Wx Wr]. apply andb_true_iff in Wx. destruct Wx as [Wk Wx].
  cbn [msize fold_right snd] in HF. fold (msize r) in HF. cbn [snd] in Px.
  destruct fuel as [| [| f]]; try lia.
  rewrite print_members_cons.
  rewrite parse_members_S. cbn [app]. dispatch.
  rewrite <- app_assoc. cbn [app]. rewrite (parse_str_plain k _ Wk). dispatch.
  rewrite <- app_assoc.
  destruct r as [| y r'].
  - cbn [app]. rewrite (Px Wx ("}" :: rest) f eq_refl ltac:(lia)). dispatch. reflexivity.
  - cbn [app]. rewrite (Px Wx ("," :: print_members (y :: r') ++ rest) f eq_refl ltac:(lia)). dispatch.
    rewrite (IH Pr Wr ltac:(discriminate) rest (S f) ltac:(lia)). reflexivity.
Qed.

Lemma parse_print_gen : forall v, P_parse v.
Proof.
  apply json_ind'; unfold P_parse.
  - intros _ rest fuel _ _. reflexivity.
  - intros [] _ rest fuel _ _; reflexivity.
  - intros z _ rest fuel HR _. cbn [print].
    pose proof (print_int_nonempty z) as N. pose proof (print_int_numch z) as F.
    pose proof (parse_number_int z rest HR) as PN.
    destruct (print_int z) as [| c t] eqn:E; [congruence |].
    cbn [forallb] in F. apply andb_true_iff in F. destruct F as [F _].
    destruct (numch_dispatch c F) as (D1 & D2 & D3 & D4 & D5 & D6).
    cbn [app parse_val]. rewrite D1, D2, D3, D4, D5, D6. exact PN.
  - intros t W rest fuel HR _. cbn [print wf_json] in *.
    pose proof (parse_number_float t rest W HR) as PN.
    unfold float_token in W. apply andb_true_iff in W. destruct W as [W _].
    apply andb_true_iff in W. destruct W as [F N]. destruct t as [| c t]; [discriminate |].
    cbn [forallb] in F. apply andb_true_iff in F. destruct F as [F _].
    destruct (numch_dispatch c F) as (D1 & D2 & D3 & D4 & D5 & D6).
    cbn [app parse_val]. rewrite D1, D2, D3, D4, D5, D6. exact PN.
  - intros s W rest fuel _ _. cbn [print wf_json] in *. cbn [app parse_val]. dispatch.
    rewrite <- app_assoc. cbn [app]. rewrite (parse_str_plain s rest W). reflexivity.
  - intros l HP W rest fuel _ HF. cbn [wf_json] in W. rewrite print_arr.
    cbn [app parse_val]. dispatch.
    destruct l as [| x r].
    + cbn [print_elems app]. dispatch. reflexivity.
    + assert (Wx : wf_json x = true) by (cbn [forallb] in W; apply andb_true_iff in W; tauto).
      destruct (print_head x Wx) as (c & t & E & D1 & _).
      cbn [size] in HF. fold (esize (x :: r)) in HF.
      pose proof (parse_elems_ok (x :: r) HP W ltac:(discriminate) rest fuel HF) as PM.
      rewrite print_elems_cons in PM |- *. rewrite E in PM |- *. cbn [app] in PM |- *.
      rewrite D1, PM. reflexivity.
  - intros l HP W rest fuel _ HF. cbn [wf_json] in W. rewrite print_obj.
    cbn [app parse_val]. dispatch.
    destruct l as [| [k x] r].
    + cbn [print_members app]. dispatch. reflexivity.
    + cbn [size] in HF. fold (msize ((k, x) :: r)) in HF.
      pose proof (parse_members_ok ((k, x) :: r) HP W ltac:(discriminate) rest fuel HF) as PM.
      rewrite print_members_cons in *. cbn [app] in *. dispatch. rewrite PM. reflexivity.
Qed.

(** fuel: the printed text is longer than the size measure *)
Definition Q_len (v : json) : Prop := wf_json v = true -> (size v + 1 <= length (print v))%nat.

Lemma elems_len l :
  Forall Q_len l -> forallb wf_json l = true -> (esize l <= length (print_elems l))%nat.
Proof.
  induction l as [| x r IH]; intros HQ HW; [cbn; lia |].
  inversion HQ as [| ? ? Qx Qr]; subst. cbn [forallb] in HW. apply andb_true_iff in HW.
  destruct HW as [Wx Wr]. specialize (Qx Wx). specialize (IH Qr Wr).
  rewrite print_elems_cons. cbn [esize fold_right]. fold (esize r).
  rewrite app_length. destruct r as [| y r'].
  - cbn [length esize fold_right] in *. lia.
  - cbn [length]. lia.
Qed.

Lemma members_len l :
  Forall (fun kv => Q_len (snd kv)) l ->
  forallb (fun kv => plain (fst kv) && wf_json (snd kv)) l = true ->
  (msize l <= length (print_members l))%nat.
Proof.
  induction l as [| [k x] r IH]; intros HQ HW; [cbn; lia |].
  inversion HQ as [| ? ? Qx Qr]; subst. cbn [forallb fst snd] in HW. apply andb_true_iff in HW.
  destruct HW as [Wx Wr]. apply andb_true_iff in Wx. destruct Wx as [_ Wx].
  cbn [snd] in Qx. specialize (Qx Wx). specialize (IH Qr Wr).
  rewrite print_members_cons. cbn [msize fold_right snd]. fold (msize r).
  cbn [length]. rewrite app_length. cbn [length]. rewrite app_length.
  destruct r as [| y r'].
  - cbn [length msize fold_right] in *. lia.
  - cbn [length]. lia.
Qed.

Lemma size_lt_print : forall v, Q_len v.
Proof.
  apply json_ind'; unfold Q_len.
  - intros _. cbn. lia.
  - intros [] _; cbn; lia.
  - intros z _. cbn [size print]. pose proof (print_int_nonempty z).
    destruct (print_int z); [congruence | cbn [length]; lia].
  - intros t W. cbn [size print wf_json] in *. unfold float_token in W.
    destruct t; [rewrite andb_false_r in W; discriminate | cbn [length]; lia].
  - intros s _. cbn [size print length]. lia.
  - intros l HQ W. cbn [wf_json] in W. rewrite print_arr. cbn [size length].
    fold (esize l). pose proof (elems_len l HQ W). lia.
  - intros l HQ W. cbn [wf_json] in W. rewrite print_obj. cbn [size length].
    fold (msize l). pose proof (members_len l HQ W). lia.
Qed.

(** The JSON text of every well-formed value parses back to that value
    (objects, arrays of any length and nesting, integers of ANY size and sign,
    booleans, null, float tokens, escape-free strings). *)
Theorem parse_print : forall v, wf_json v = true -> parse (print v) = Some v.
Proof.
  intros v W. unfold parse.
  pose proof (parse_print_gen v W [] (length (print v)) eq_refl) as H.
  rewrite app_nil_r in H. rewrite H; [reflexivity |].
  pose proof (size_lt_print v W). lia.
Qed.

(** * Deserialize (Serialize s) = s *)

Lemma c2s_s2c s : c2s (s2c s) = s.
Proof. apply string_of_list_ascii_of_string. Qed.

Lemma chars_eqb_refl a : chars_eqb a a = true.
Proof. unfold chars_eqb. apply String.eqb_refl. Qed.

Lemma field_hit k v l : field k ((key k, v) :: l) = Some (v, l).
Proof. unfold field. rewrite chars_eqb_refl. reflexivity. Qed.

Lemma as_int_ok rng z : rng z = true -> as_int rng (JInt z) = Some z.
Proof. intros H. cbn. rewrite H. reflexivity. Qed.

Lemma as_string_jstr s : as_string (jstr s) = Some s.
Proof. unfold as_string, jstr. rewrite c2s_s2c. reflexivity. Qed.

Lemma all_some_ints rng l :
  forallb rng l = true -> all_some (map (as_int rng) (map JInt l)) = Some l.
Proof.
  induction l as [| z l IH]; cbn [forallb map all_some]; [reflexivity |].
  intros H. apply andb_true_iff in H. destruct H as [Hz Hl].
  rewrite (as_int_ok rng z Hz), (IH Hl). reflexivity.
Qed.

Lemma as_bytes8_ok l : wf_bytes8 l = true -> as_bytes8 (jbytes l) = Some l.
Proof.
  unfold wf_bytes8, as_bytes8, jbytes. intros H. apply andb_true_iff in H. destruct H as [Hn Hb].
  rewrite (all_some_ints _ _ Hb), Hn. reflexivity.
Qed.

Lemma acc_of_ok a : wf_acc a = true -> acc_of (acc_json a) = Some a.
Proof.
  destruct a as [n | v]; cbn [wf_acc acc_json acc_of jstr]; intros H.
  - rewrite c2s_s2c, H. reflexivity.
  - rewrite chars_eqb_refl, H. reflexivity.
Qed.

Lemma ts_of_ok t : wf_ts t = true -> ts_of (ts_json t) = Some t.
Proof.
  destruct t as [n | v | v]; cbn [wf_ts ts_json ts_of jstr]; intros H.
  - rewrite c2s_s2c, H. reflexivity.
  - rewrite H, chars_eqb_refl. reflexivity.
  - rewrite H. reflexivity.
Qed.

Lemma leap_of_ok l : leap_of (jstr (leap_name l)) = Some l.
Proof. destruct l; reflexivity. Qed.

Ltac split_wf :=
  repeat match goal with
         | H : (_ && _)%bool = true |- _ => apply andb_true_iff in H; destruct H
         end.

Ltac fh := rewrite field_hit; cbv beta iota.
Ltac ai := rewrite as_int_ok by assumption; cbv beta iota.
Ltac rw L := rewrite L by assumption; cbv beta iota.

Lemma cq_of_ok q : wf_cq q = true -> cq_of (cq_json q) = Some q.
Proof.
  destruct q as [a b c]. unfold wf_cq, cq_json, cq_of. cbn [cq_class cq_accuracy cq_oslv].
  intros H. split_wf.
  fh. ai. fh. rw acc_of_ok. fh. ai. reflexivity.
Qed.

Lemma pi_of_ok p : wf_pi p = true -> pi_of (pi_json p) = Some p.
Proof.
  destruct p as [a b]. unfold wf_pi, pi_json, pi_of. cbn [pi_clock pi_port].
  intros H. split_wf.
  fh. rw as_bytes8_ok. fh. ai. reflexivity.
Qed.

Lemma mech_of_ok m : wf_mech m = true -> mech_of (mech_json m) = Some m.
Proof.
  destruct m as [a | a d | | d |]; cbn [wf_mech mech_json]; intros H; split_wf.
  - unfold mech_of. change (chars_eqb (key "E2E") (key "E2E")) with true. cbv iota.
    fh. ai. reflexivity.
  - unfold mech_of. change (chars_eqb (key "P2P") (key "E2E")) with false.
    change (chars_eqb (key "P2P") (key "P2P")) with true. cbv iota.
    fh. ai. fh. ai. reflexivity.
  - reflexivity.
  - unfold mech_of. change (chars_eqb (key "CommonP2P") (key "E2E")) with false.
    change (chars_eqb (key "CommonP2P") (key "P2P")) with false.
    change (chars_eqb (key "CommonP2P") (key "CommonP2P")) with true. cbv iota.
    fh. ai. reflexivity.
  - reflexivity.
Qed.

Lemma port_of_ok p : wf_port p = true -> port_of (port_json p) = Some p.
Proof.
  destruct p as [a b c d e f g h i j]. unfold wf_port, port_json, port_of.
  cbn [pd_identity pd_state pd_log_announce pd_receipt_timeout pd_log_sync pd_mech pd_version
       pd_minor pd_asymmetry pd_master_only].
  intros H. split_wf.
  fh. rw pi_of_ok. fh. rewrite as_string_jstr; cbv beta iota.
  match goal with H : mem_name b port_state_table = true |- _ => rewrite H end. cbn [negb]. cbv iota.
  fh. ai. fh. ai. fh. ai. fh. rw mech_of_ok. fh. ai. fh. ai. fh. ai. fh.
  reflexivity.
Qed.

Lemma all_some_map {A} (f : A -> json) (g : json -> option A) (wf : A -> bool) l :
  (forall x, wf x = true -> g (f x) = Some x) ->
  forallb wf l = true -> all_some (map g (map f l)) = Some l.
Proof.
  intros H. induction l as [| x l IH]; cbn [forallb map all_some]; [reflexivity |].
  intros E. apply andb_true_iff in E. destruct E as [Ex El].
  rewrite (H x Ex), (IH El). reflexivity.
Qed.

Theorem of_to_json : forall s, wf_state s = true -> of_json (to_json s) = Some s.
Proof.
  intros s W. unfold wf_state in W. split_wf.
  unfold to_json, of_json.
  cbn [as_obj]. fh. cbn [as_obj]. cbv beta iota.
  (* program *)
  unfold program_of. fh. rewrite as_string_jstr; cbv beta iota.
  fh. rewrite as_string_jstr; cbv beta iota. fh. rewrite as_string_jstr; cbv beta iota.
  fh. cbn [nil_end]. cbv beta iota.
  fh. cbn [as_obj]. cbv beta iota.
  (* instance *)
  unfold instance_of.
  fh. cbn [as_obj]. cbv beta iota. unfold default_of.
  fh. rw as_bytes8_ok. fh. ai. fh. rw cq_of_ok. fh. ai. fh. ai. fh. ai.
  fh. cbn [as_bool]. cbv beta iota. fh. ai. cbn [nil_end]. cbv beta iota.
  fh. cbn [as_obj]. cbv beta iota. unfold current_of.
  fh. ai. fh. ai. fh. ai. cbn [nil_end]. cbv beta iota.
  fh. cbn [as_obj]. cbv beta iota. unfold parent_of.
  fh. rw pi_of_ok. fh. rw as_bytes8_ok. fh. rw cq_of_ok. fh. ai. fh. ai. cbn [nil_end]. cbv beta iota.
  fh. cbn [as_obj]. cbv beta iota. unfold tprops_of.
  fh.
  assert (U : utc_of (match tp_utc s with Some z => JInt z | None => JNull end) = Some (tp_utc s)).
  { destruct (tp_utc s) as [z |]; cbn [utc_of]; [| reflexivity].
    match goal with H : rng_i 16 z = true |- _ => rewrite H end. reflexivity. }
  rewrite U; cbv beta iota.
  fh. rewrite leap_of_ok; cbv beta iota.
  fh. cbn [as_bool]. cbv beta iota. fh. cbn [as_bool]. cbv beta iota. fh. cbn [as_bool]. cbv beta iota.
  fh. rw ts_of_ok. cbn [nil_end]. cbv beta iota.
  fh. cbn [as_obj]. cbv beta iota. unfold ptrace_of.
  fh. cbn [as_arr]. cbv beta iota.
  rewrite (all_some_map jbytes as_bytes8 wf_bytes8 _ as_bytes8_ok) by assumption. cbv beta iota.
  fh. cbn [as_bool nil_end]. cbv beta iota.
  fh. cbn [as_arr]. cbv beta iota.
  rewrite (all_some_map port_json port_of wf_port _ port_of_ok) by assumption. cbv beta iota.
  cbn [nil_end]. cbv beta iota. destruct s; reflexivity.
Qed.

(** * The serialised state is a well-formed JSON value *)

Lemma mem_name_plain n t :
  mem_name n t = true -> forallb (fun p => plain (s2c (fst p))) t = true -> plain (s2c n) = true.
Proof.
  unfold mem_name. induction t as [| p t IH]; cbn [existsb forallb]; [discriminate |].
  intros H F. apply andb_true_iff in F. destruct F as [Fp Ft].
  apply orb_true_iff in H. destruct H as [H | H].
  - apply String.eqb_eq in H. subst n. exact Fp.
  - apply IH; assumption.
Qed.

Lemma wf_jbytes l : wf_json (jbytes l) = true.
Proof. unfold jbytes. cbn [wf_json]. induction l; cbn [map forallb]; [reflexivity | exact IHl]. Qed.

Lemma forallb_map_wf {A} (f : A -> json) l :
  (forall x, In x l -> wf_json (f x) = true) -> forallb wf_json (map f l) = true.
Proof.
  intros H. induction l as [| x l IH]; cbn [map forallb]; [reflexivity |].
  rewrite (H x (or_introl eq_refl)). apply IH. intros y Hy. apply H. right. exact Hy.
Qed.

Ltac wfj :=
  repeat match goal with
         | |- (_ && _)%bool = true => apply andb_true_iff; split
         | |- true = true => reflexivity
         | |- plain (key _) = true => reflexivity
         | |- wf_json (jbytes _) = true => apply wf_jbytes
         | |- wf_json (JInt _) = true => reflexivity
         | |- wf_json (JBool _) = true => reflexivity
         end.

Lemma wf_acc_json a : wf_acc a = true -> wf_json (acc_json a) = true.
Proof.
  destruct a as [n | v]; cbn [wf_acc acc_json]; intros H.
  - unfold jstr. cbn [wf_json]. apply (mem_name_plain n clock_accuracy_units H). reflexivity.
  - reflexivity.
Qed.

Lemma wf_ts_json t : wf_ts t = true -> wf_json (ts_json t) = true.
Proof.
  destruct t as [n | v | v]; cbn [wf_ts ts_json]; intros H.
  - unfold jstr. cbn [wf_json]. apply (mem_name_plain n time_source_units H). reflexivity.
  - reflexivity.
  - reflexivity.
Qed.

Lemma wf_cq_json q : wf_cq q = true -> wf_json (cq_json q) = true.
Proof.
  unfold wf_cq, cq_json. intros H. split_wf. cbn [wf_json forallb fst snd]. wfj.
  apply wf_acc_json; assumption.
Qed.

Lemma wf_pi_json p : wf_json (pi_json p) = true.
Proof. unfold pi_json. cbn [wf_json forallb fst snd]. wfj. Qed.

Lemma wf_mech_json m : wf_json (mech_json m) = true.
Proof. destruct m; reflexivity. Qed.

Lemma wf_port_json p : wf_port p = true -> wf_json (port_json p) = true.
Proof.
  unfold wf_port, port_json. intros H. split_wf. cbn [wf_json forallb fst snd]. wfj.
  - apply wf_pi_json.
  - unfold jstr. cbn [wf_json].
    match goal with H : mem_name _ port_state_table = true |- _ =>
      apply (mem_name_plain _ port_state_table H) end. reflexivity.
  - apply wf_mech_json.
Qed.

Theorem wf_to_json : forall s, wf_state s = true -> wf_json (to_json s) = true.
Proof.
  intros s W. unfold wf_state in W. split_wf. unfold to_json.
  cbn [wf_json forallb fst snd]. wfj;
    try (unfold jstr; cbn [wf_json]; assumption);
    try (apply wf_cq_json; assumption);
    try apply wf_pi_json.
  - destruct (tp_utc s); reflexivity.
  - destruct (tp_leap s); reflexivity.
  - apply wf_ts_json; assumption.
  - apply forallb_map_wf. intros x _. apply wf_jbytes.
  - apply forallb_map_wf. intros x Hx. apply wf_port_json.
    match goal with H : forallb wf_port (ports s) = true |- _ =>
      rewrite forallb_forall in H; exact (H x Hx) end.
Qed.

(** json_roundtrip: for EVERY well-formed observable state (path trace lists and
    port lists of any length, Duration bits of any size within i128, every
    enum variant) the bytes the daemon writes parse back, through the JSON
    parser and the Deserialize model, to exactly that state. *)
Theorem json_roundtrip : forall s,
  wf_state s = true ->
  match parse (print (to_json s)) with Some v => of_json v | None => None end = Some s.
Proof.
  intros s W. rewrite (parse_print _ (wf_to_json s W)). apply of_to_json. exact W.
Qed.
