(** C19 — hand-written classification of the metric table generated from
    format.rs (Generated/MetricTable.v): which unit the VALUE of each source
    expression is in, and what a boolean metric must look like.  No proofs. *)
From Coq Require Import Ascii String.
From SV Require Export Obs.Prom.

(** Unit of the value a source expression of format.rs evaluates to
    ([Some None]: dimensionless; [None]: an expression nobody classified yet -
    the table theorem then fails and a human has to look). *)
Definition src_unit (src : string) : option (option munit) :=
  let dimensionless := [
    "default_ds.number_ports"; "default_ds.clock_quality.clock_class";
    "default_ds.clock_quality.clock_accuracy.to_primitive()";
    "default_ds.clock_quality.offset_scaled_log_variance";
    "default_ds.priority_1"; "default_ds.priority_2"; "current_ds.steps_removed";
    "parent_ds.grandmaster_clock_quality.clock_class";
    "parent_ds.grandmaster_clock_quality.clock_accuracy.to_primitive()";
    "parent_ds.grandmaster_clock_quality.offset_scaled_log_variance";
    "parent_ds.grandmaster_priority_1"; "parent_ds.grandmaster_priority_2";
    "time_properties_ds.time_traceable"; "time_properties_ds.frequency_traceable";
    "time_properties_ds.ptp_timescale"; "time_properties_ds.time_source.to_primitive()";
    "path_trace_ds.enable"; "steps_removed"; "path_trace_ds.list.len()";
    "port_ds.port_state as u8" ]%string in
  let seconds := [
    "state.program.uptime_seconds";                (* Instant::elapsed().as_secs_f64() *)
    "current_ds.offset_from_master.seconds()";     (* Duration::seconds: nanos / 1e9 *)
    "current_ds.mean_delay.seconds()";
    "current_utc_offset";                          (* IEEE 1588 currentUtcOffset: seconds *)
    leap_src ]%string in                           (* length of the last minute: seconds *)
  let nanoseconds := [
    "mean_link_delay.to_nanos()";                  (* TimeInterval::to_nanos *)
    "current_ds.offset_from_master.nanos()"; "current_ds.mean_delay.nanos()" ]%string in
  if existsb (String.eqb src) dimensionless then Some None
  else if existsb (String.eqb src) seconds then Some (Some Seconds)
  else if existsb (String.eqb src) nanoseconds then Some (Some Nanoseconds)
  else None.

Definition munit_eqb (a b : option munit) : bool :=
  match a, b with
  | None, None => true
  | Some Seconds, Some Seconds => true
  | Some Nanoseconds, Some Nanoseconds => true
  | _, _ => false
  end.

(** The unit in the metric's name is the unit of every value published under it. *)
Definition unit_ok (m : metric) : bool :=
  forallb (fun src => match src_unit src with
                      | Some u => munit_eqb u (m_unit m)
                      | None => false end) (m_src m).

Definition starts_with (p s : string) : bool :=
  match strip_prefix (s2c p) (s2c s) with Some _ => true | None => false end.

(** A help text that promises a truth value ("1 if ..., 0 otherwise", "Whether ...") *)
Definition help_is_boolean (m : metric) : bool :=
  starts_with "1 if " (m_help m) || starts_with "Whether " (m_help m).

(** ... belongs to a metric that goes through format_bool!, and format_bool!
    publishes true as 1 and false as 0. *)
Definition bool_ok (m : metric) : bool :=
  Bool.eqb (help_is_boolean m) (m_bool m)
  && (if m_bool m then (bool_enc_true =? 1) && (bool_enc_false =? 0) else true).

Definition row_ok (m : metric) : bool := unit_ok m && bool_ok m.

Definition defective_rows : list string :=
  map m_name (filter (fun m => negb (row_ok m)) metric_table).
