(** Case format, property oracle and known-finding classifier for C19.
    No proofs here.

    A case is (state, float tokens, JSON bytes the daemon side produced with
    serde_json::to_vec, raw bytes of the HTTP response of the real
    statime-metrics-exporter fed with those JSON bytes); bytes travel packed into 63-bit integers. *)
From Coq Require Export Ascii String.
From Coq Require Export Uint63.
From SV Require Export Base.Cases Obs.Prom.


(** * Byte transport: 7 bytes per primitive 63-bit integer, most significant
    first, below a sentinel byte 1 (long string / Z literals are far too slow to
    read for coqc). *)
Fixpoint unpack1 (fuel : nat) (z : Uint63.int) (acc : chars) : chars :=
  match fuel with
  | O => acc
  | S f =>
      if Uint63.leb z 1 then acc
      else unpack1 f (Uint63.lsr z 8)
                   (ascii_of_N (Z.to_N (Uint63.to_Z (Uint63.land z 255))) :: acc)
  end.
Definition unpack (l : list Uint63.int) : chars := concat (map (fun z => unpack1 8 z []) l).

Fixpoint chars_eq (a b : chars) : bool :=
  match a, b with
  | [], [] => true
  | x :: a', y :: b' => Ascii.eqb x y && chars_eq a' b'
  | _, _ => false
  end.

(** * Decimal tokens as exact rationals: m * 10^e *)
Fixpoint digits_val (s : chars) (acc : Z) : option Z :=
  match s with
  | [] => Some acc
  | c :: r => if is_digit c then digits_val r (10 * acc + Z.of_N (N_of_ascii c) - 48) else None
  end.

Fixpoint span_digits (s : chars) : chars * chars :=
  match s with
  | c :: r => if is_digit c then let (a, b) := span_digits r in (c :: a, b) else ([], s)
  | [] => ([], [])
  end.

(** "-"? digit+ ("." digit+)? (("e"|"E") ("+"|"-")? digit+)?  ->  (m, e) *)
Definition parse_dec (t : chars) : option (Z * Z) :=
  let (neg, t1) := match t with c :: r => if Ascii.eqb c "-"%char then (true, r) else (false, t) | [] => (false, t) end in
  let (ip, t2) := span_digits t1 in
  match ip with
  | [] => None
  | _ =>
      let (fp, t3) :=
        match t2 with
        | c :: r => if Ascii.eqb c "."%char then span_digits r else ([], t2)
        | [] => ([], t2)
        end in
      let frac_ok := match t2 with
                     | c :: _ => if Ascii.eqb c "."%char then negb (match fp with [] => true | _ => false end) else true
                     | [] => true end in
      let ex :=
        match t3 with
        | [] => Some 0
        | c :: r =>
            if Ascii.eqb c "e"%char || Ascii.eqb c "E"%char then
              let (sg, r1) := match r with
                              | d :: r' => if Ascii.eqb d "-"%char then (-1, r') else if Ascii.eqb d "+"%char then (1, r') else (1, r)
                              | [] => (1, r) end in
              match r1 with
              | [] => None
              | _ => match digits_val r1 0 with Some v => Some (sg * v) | None => None end
              end
            else None
        end in
      match digits_val (ip ++ fp) 0, ex with
      | Some m, Some e =>
          if frac_ok then Some ((if neg then - m else m), e - Z.of_nat (length fp)) else None
      | _, _ => None
      end
  end.

(** rational (num, den) with den > 0 *)
Definition rat_of_dec (d : Z * Z) : Z * Z :=
  let (m, e) := d in
  if 0 <=? e then (m * 10 ^ e, 1) else (m, 10 ^ (- e)).

Definition rat_eq (a b : Z * Z) : bool := fst a * snd b =? fst b * snd a.

(** |v - x| <= |x| * 2^-40 *)
Definition rat_close (v x : Z * Z) : bool :=
  Z.abs (fst v * snd x - fst x * snd v) * 2 ^ 40 <=? Z.abs (fst x) * snd v.

(** Round a rational to binary64 (round to nearest, ties to even; normal range
    only, which covers every uptime): (signed 53-bit mantissa, exponent).
    ryu (serde_json) and Rust's Display may print DIFFERENT shortest decimals
    for the same f64 (e.g. 1650177722877179.25 as ...179.2 and ...179.3), so
    "the number the daemon sent" is compared as an f64, not as a decimal. *)
Definition to_b64 (q : Z * Z) : Z * Z :=
  let (n, d) := q in
  if n =? 0 then (0, 0) else
  let a := Z.abs n in
  let e0 := Z.log2 a - Z.log2 d - 52 in
  let scaled (e : Z) := if 0 <=? e then (a, d * 2 ^ e) else (a * 2 ^ (- e), d) in
  let e := (let (x, y) := scaled e0 in if x <? y * 2 ^ 52 then e0 - 1 else
                                       if y * 2 ^ 53 <=? x then e0 + 1 else e0) in
  let (x, y) := scaled e in
  let qf := x / y in
  let r := x mod y in
  let m := if 2 * r <? y then qf
           else if y <? 2 * r then qf + 1
           else if Z.even qf then qf else qf + 1 in
  let (m, e) := if m =? 2 ^ 53 then (2 ^ 52, e + 1) else (m, e) in
  ((if n <? 0 then - m else m), e).

Definition same_f64 (a b : Z * Z) : bool :=
  let (m1, e1) := to_b64 a in
  let (m2, e2) := to_b64 b in
  (m1 =? m2) && (e1 =? e2).

(** * What every served sample must mean (from the property text and the help texts) *)
Inductive quantity :=
| QInt (z : Z)                    (* dimensionless number *)
| QBool (b : bool)                (* "1 if ..., 0 otherwise" / "Whether ...": true as 1 *)
| QSecondsInt (z : Z)             (* a whole number of seconds *)
| QNanosBits (bits frac : Z)      (* a time span of bits / 2^frac nanoseconds *)
| QSecondsTok (t : chars).        (* seconds; the same f64 as the number the daemon sent (token) *)

Record family := mkFam { f_base : string; f_samples : list (labels * quantity) }.

Definition oracle_acc (a : accuracy) : Z :=
  match a with
  | AccProfile v => 128 + v          (* IEEE 1588-2019 Table 5: 0x80..0xFD profile specific *)
  | AccUnit n => match lookup n clock_accuracy_units with Some z => z | None => -1 end
  end.
Definition oracle_ts (t : tsource) : Z :=
  match t with
  | TsProfile v => 240 + v           (* Table 6: 0xF0..0xFE profile specific *)
  | TsUnknown v => v
  | TsUnit n => match lookup n time_source_units with Some z => z | None => -1 end
  end.

Definition id_label (k : string) (id : list Z) : chars * chars := (s2c k, clock_id_str id).

Fixpoint oracle_path (ls : labels) (l : list (list Z)) (i : Z) : list (labels * quantity) :=
  match l with
  | [] => [(ls ++ [(s2c "node", s2c "self")], QInt i)]
  | id :: r => (ls ++ [id_label "node" id], QInt i) :: oracle_path ls r (i + 1)
  end.

Definition oracle_port_label (p : port_ds) : chars * chars :=
  (s2c "port", print_int (pi_port (pd_identity p))).

Definition one (b : string) (ls : labels) (q : quantity) : family := mkFam b [(ls, q)].

Definition expected_families (s : obs_state) : list family :=
  let ci := [id_label "clock_identity" (dd_identity s)] in
  let pl := ci ++ [id_label "parent_clock_identity" (pi_clock (pa_port s));
                   (s2c "parent_port_number", print_int (pi_port (pa_port s)))] in
  [ one "uptime" [(s2c "version", s2c (pg_version s)); (s2c "build_commit", s2c (pg_commit s));
                  (s2c "build_commit_date", s2c (pg_commit_date s))] (QSecondsTok (pg_uptime s));
    one "number_ports" ci (QInt (dd_number_ports s));
    one "quality_class" ci (QInt (cq_class (dd_quality s)));
    one "quality_accuracy" ci (QInt (oracle_acc (cq_accuracy (dd_quality s))));
    one "quality_offset_scaled_log_variance" ci (QInt (cq_oslv (dd_quality s)));
    one "priority_1" ci (QInt (dd_p1 s));
    one "priority_2" ci (QInt (dd_p2 s));
    one "steps_removed" ci (QInt (cd_steps s));
    one "offset_from_master" ci (QNanosBits (cd_offset s) 32);
    one "mean_delay" ci (QNanosBits (cd_delay s) 32);
    one "grandmaster_clock_quality_class" pl (QInt (cq_class (pa_gm_quality s)));
    one "grandmaster_clock_quality_accuracy" pl (QInt (oracle_acc (cq_accuracy (pa_gm_quality s))));
    one "grandmaster_clock_quality_offset_scaled_log_variance" pl (QInt (cq_oslv (pa_gm_quality s)));
    one "grandmaster_priority_1" pl (QInt (pa_gm_p1 s));
    one "grandmaster_priority_2" pl (QInt (pa_gm_p2 s)) ]
  ++ match tp_utc s with Some z => [one "current_utc_offset" ci (QSecondsInt z)] | None => [] end
  ++ [ one "upcoming_leap" ci (QSecondsInt (match tp_leap s with NoLeap => 60 | Leap61 => 61 | Leap59 => 59 end));
       one "time_traceable" ci (QBool (tp_time_traceable s));
       one "frequency_traceable" ci (QBool (tp_freq_traceable s));
       one "ptp_timescale" ci (QBool (tp_ptp s));
       one "time_source" ci (QInt (oracle_ts (tp_source s)));
       one "path_trace_enable" ci (QBool (pt_enable s));
       mkFam "path_trace_list" (oracle_path ci (pt_list s) 0);
       mkFam "port_state"
         (map (fun p => (ci ++ [oracle_port_label p],
                         QInt (match lookup (pd_state p) port_state_table with Some z => z | None => -1 end)))
              (ports s));
       mkFam "mean_link_delay"
         (concat (map (fun p => match pd_mech p with
                                | DmP2P _ d => [(ci ++ [oracle_port_label p], QNanosBits d 16)]
                                | _ => [] end) (ports s))) ].

(** * Judging one served sample.  Result: -1 fine; 1 = boolean published
    inverted (F10); 2 = a time in seconds published under a _nanoseconds name
    (F11) - both only diagnostic, nothing is excused; 0 = any other violation. *)
Definition u_none : Z := 0.
Definition u_seconds : Z := 1.
Definition u_nanos : Z := 2.

Definition judge (base : string) (q : quantity) (u : Z) (v : chars) : Z :=
  match parse_dec v with
  | None => 0
  | Some d =>
      let r := rat_of_dec d in
      match q with
      | QInt z => if (u =? u_none) && rat_eq r (z, 1) then -1 else 0
      | QBool b =>
          if u =? u_none then
            if rat_eq r ((if b then 1 else 0), 1) then -1
            else if rat_eq r ((if b then 0 else 1), 1) then 1 else 0
          else 0
      | QSecondsInt z =>
          if u =? u_seconds then (if rat_eq r (z, 1) then -1 else 0)
          else if u =? u_nanos then (if rat_eq r (z * 10 ^ 9, 1) then -1 else 0)
          else 0
      | QNanosBits bits frac =>
          let ns := (bits, 2 ^ frac) in
          let sec := (bits, 2 ^ frac * 10 ^ 9) in
          if u =? u_nanos then
            if rat_close r ns then -1
            else if rat_close r sec && (String.eqb base "offset_from_master" || String.eqb base "mean_delay")
            then 2 else 0
          else if u =? u_seconds then (if rat_close r sec then -1 else 0)
          else 0
      | QSecondsTok t =>
          match parse_dec t with
          | Some dt =>
              if u =? u_seconds then
                (if same_f64 r (rat_of_dec dt) then -1 else 0)
              else if u =? u_nanos then
                (if rat_eq r (fst (rat_of_dec dt) * 10 ^ 9, snd (rat_of_dec dt)) then -1 else 0)
              else 0
          | None => 0
          end
      end
  end.

(** * Structure of the exposition: families *)
Record sfamily := mkSF {
  sf_name : chars;
  sf_help : chars;
  sf_type : chars;
  sf_unit : option chars;
  sf_samples : list (labels * chars)
}.

Fixpoint take_samples (n : chars) (l : list eline) : list (labels * chars) * list eline :=
  match l with
  | LSample n' ls v :: r =>
      if chars_eq n n' then let (a, b) := take_samples n r in ((ls, v) :: a, b) else ([], l)
  | _ => ([], l)
  end.

(** HELP, TYPE, optional UNIT (all for the same name), samples of that name;
    repeated; then EOF as the very last line. *)
Fixpoint families (fuel : nat) (l : list eline) : option (list sfamily) :=
  match fuel with
  | O => None
  | S f =>
      match l with
      | [LEof] => Some []
      | LHelp n h :: LType n2 t :: r =>
          if chars_eq n n2 then
            let '(u, r1) := match r with
                            | LUnit n3 u :: r' => if chars_eq n n3 then (Some u, r') else (None, r)
                            | _ => (None, r) end in
            let (sm, r2) := take_samples n r1 in
            match families f r2 with
            | Some fs => Some (mkSF n h t u sm :: fs)
            | None => None
            end
          else None
      | _ => None
      end
  end.

Definition name_char (c : ascii) : bool :=
  let n := N_of_ascii c in
  ((N.leb 97 n && N.leb n 122) || (N.leb 65 n && N.leb n 90) || (N.leb 48 n && N.leb n 57)
   || N.eqb n 95 || N.eqb n 58)%bool.

Definition valid_name (n : chars) : bool :=
  forallb name_char n && match n with c :: _ => negb (is_digit c) | [] => false end.

(** base name and unit of a served family name: prefix ++ base ++ ("_" ++ unit)? *)
Definition split_name (n : chars) (base : string) : option Z :=
  match strip_prefix (s2c "statime_" ++ s2c base) n with
  | Some r =>
      if chars_eq r [] then Some u_none
      else if chars_eq r (s2c "_seconds") then Some u_seconds
      else if chars_eq r (s2c "_nanoseconds") then Some u_nanos
      else None
  | None => None
  end.

Fixpoint labels_eq (a b : labels) : bool :=
  match a, b with
  | [], [] => true
  | (k, v) :: a', (k', v') :: b' => chars_eq k k' && chars_eq v v' && labels_eq a' b'
  | _, _ => false
  end.

Fixpoint judge_samples (base : string) (u : Z) (ex : list (labels * quantity))
         (sv : list (labels * chars)) : list Z :=
  match ex, sv with
  | [], [] => []
  | (l, q) :: ex', (l', v) :: sv' =>
      (if labels_eq l l' then judge base q u v else 0) :: judge_samples base u ex' sv'
  | _, _ => [0]
  end.

Definition judge_family (exs : list family) (sf : sfamily) : list Z :=
  match find (fun e => match split_name (sf_name sf) (f_base e) with Some _ => true | None => false end) exs with
  | None => [0]
  | Some e =>
      match split_name (sf_name sf) (f_base e) with
      | None => [0]
      | Some u =>
          let unit_line_ok :=
            match sf_unit sf with
            | None => u =? u_none
            | Some ul => ((u =? u_seconds) && chars_eq ul (s2c "seconds"))
                         || ((u =? u_nanos) && chars_eq ul (s2c "nanoseconds"))
            end in
          let type_ok := chars_eq (sf_type sf) (s2c "gauge") || chars_eq (sf_type sf) (s2c "counter") in
          (if unit_line_ok && type_ok && valid_name (sf_name sf) then [] else [0])
          ++ judge_samples (f_base e) u (f_samples e) (sf_samples sf)
      end
  end.

Fixpoint distinct_names (l : list sfamily) : bool :=
  match l with
  | [] => true
  | x :: r => negb (existsb (fun y => chars_eq (sf_name x) (sf_name y)) r) && distinct_names r
  end.

(** All findings of one response: [] = the property holds for it. *)
Definition response_findings (s : obs_state) (js resp : chars) : list Z :=
  match parse_http resp with
  | None => [0]
  | Some h =>

      let status_ok := chars_eq (h_status h) (s2c "HTTP/1.1 200 OK") in
      let len_ok := match header "content-length" h with
                    | Some v => chars_eq v (print_int (Z.of_nat (length (h_body h))))
                    | None => false end in
      if negb (status_ok && len_ok) then [0] else
      match parse_expo (h_body h) with
      | None => [0]
      | Some ls =>
          match families (S (length ls)) ls with
          | None => [0]
          | Some fs =>
              let exs := expected_families s in
              (if (length fs =? length exs)%nat && distinct_names fs then [] else [0])
              ++ concat (map (judge_family exs) fs)
          end
      end
  end.

(** The JSON hop: the bytes on the observation socket denote exactly the state. *)
Definition json_ok (s : obs_state) (js : chars) : bool :=
  match parse js with
  | Some v => match of_json v with
              | Some s' => chars_eq (print (to_json s')) (print (to_json s))
              | None => false end
  | None => false
  end.

Definition case := (obs_state * ftoks * list Uint63.int * list Uint63.int)%type.

Definition findings (c : case) : list Z :=
  let '(s, ft, js, resp) := c in
  filter (fun x => negb (x =? -1))
    ((if json_ok s (unpack js) then [] else [0]) ++ response_findings s (unpack js) (unpack resp)).

Definition ok_C19 (c : case) : bool :=
  match findings c with [] => true | _ => false end.

(** No known finding is left (F10, F11, the one-ulp uptime and the 16 KiB read
    are repaired): every rejection is a violation.  The codes 1 / 2 in
    [findings] only tell a regression of F10 / F11 apart in a replay file. *)
Definition kf_C19 (c : case) : Z := 0.

(** * Correspondence: the model reproduces the implementation's bytes *)
Definition agree_C19 (c : case) : bool :=
  let '(s, ft, js, resp) := c in
  chars_eq (print (to_json s)) (unpack js)
  && match respond s ft with Some r => chars_eq r (unpack resp) | None => false end
  && match parse (unpack js) with
     | Some v => match of_json v with
                 | Some s' => chars_eq (print (to_json s')) (unpack js)
                 | None => false end
     | None => false end.

Definition run_cases := run_cases_gen agree_C19 ok_C19 kf_C19.

(** * A concrete state used by the non-vacuity examples: a slave with a Duration
    whose bits exceed 64 bits, a path trace, a P2P port, no UTC offset. *)
Definition ex_state : obs_state :=
  mkObs "0.4.0" "e188e85" "2025-03-13" (s2c "12.5")
        [156; 107; 0; 5; 23; 33; 0; 0] 1 (mkCQ 248 (AccUnit "Unknown") 26880) 128 128 0 false 0
        1 (-42949672960000000001) 1073741824000
        (mkPI [0; 14; 254; 255; 254; 3; 0; 81] 1) [0; 14; 254; 255; 254; 3; 0; 81]
        (mkCQ 6 (AccProfile 5) 20061) 128 127
        None Leap61 true false true (TsUnit "Gnss")
        [[0; 14; 254; 255; 254; 3; 0; 81]; [1; 2; 3; 4; 5; 6; 7; 8]] true
        [mkPort (mkPI [156; 107; 0; 5; 23; 33; 0; 0] 1) "Slave" 1 3 0 (DmP2P (-3) 98304) 2 1 (-65536) false].
Definition ex_toks : ftoks := mkFt (s2c "12.5") (s2c "-10.000000000000000233") (s2c "0.00000025") [s2c "1.5"].

