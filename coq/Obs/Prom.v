(** C19 — the Prometheus / HTTP side of the exporter (format.rs):
    [render] follows [format_response] / [format_state] / [format_metric] and is
    DRIVEN BY the generated metric table (names, help texts, units, types,
    source expressions, format_bool! encoding come from format.rs through
    translate/gen_metric_table.py); [parse_expo] parses the exposition format.

    f64 [Display] is not modelled: the decimal rendering of every floating-point
    value is an input token ([ftoks]) supplied by the implementation. *)
From Coq Require Import Ascii String.
From SV Require Export Obs.Json.

Local Open Scope char_scope.

(** Tokens of the floating-point values as Rust's [Display] prints them. *)
Record ftoks := mkFt {
  ft_uptime : chars;            (* state.program.uptime_seconds *)
  ft_offset_s : chars;          (* current_ds.offset_from_master.seconds() *)
  ft_delay_s : chars;           (* current_ds.mean_delay.seconds() *)
  ft_links_ns : list chars      (* mean_link_delay.to_nanos() of the P2P ports, in order *)
}.

Definition nl : ascii := ascii_of_nat 10.
Definition cr : ascii := ascii_of_nat 13.

(** * Pieces of format.rs *)

Definition hex_digit (n : Z) : ascii :=
  match n with
  | 0 => "0" | 1 => "1" | 2 => "2" | 3 => "3" | 4 => "4" | 5 => "5" | 6 => "6" | 7 => "7"
  | 8 => "8" | 9 => "9" | 10 => "a" | 11 => "b" | 12 => "c" | 13 => "d" | 14 => "e" | _ => "f"
  end.

(** impl Display for ClockIdentity: "{:02x}" joined by ':' *)
Definition clock_id_str (l : list Z) : chars :=
  join [":"] (map (fun b => [hex_digit (b / 16); hex_digit (b mod 16)]) l).

(** value.replace('\\', "\\\\").replace('"', "\\\"").replace('\n', "\\n") *)
Fixpoint escape_label (s : chars) : chars :=
  match s with
  | [] => []
  | c :: r =>
      if Ascii.eqb c "\" then "\" :: "\" :: escape_label r
      else if Ascii.eqb c dq then "\" :: dq :: escape_label r
      else if Ascii.eqb c nl then "\" :: "n" :: escape_label r
      else c :: escape_label r
  end.

Definition labels := list (chars * chars).

Definition lookup (n : string) (t : list (string * Z)) : option Z :=
  match find (fun p => String.eqb (fst p) n) t with Some p => Some (snd p) | None => None end.

Definition acc_prim (a : accuracy) : option Z :=
  match a with
  | AccUnit n => lookup n clock_accuracy_units
  | AccProfile v => match lookup "ProfileSpecific" clock_accuracy_params with Some b => Some (b + v) | None => None end
  end.
Definition ts_prim (t : tsource) : option Z :=
  match t with
  | TsUnit n => lookup n time_source_units
  | TsProfile v => match lookup "ProfileSpecific" time_source_params with Some b => Some (b + v) | None => None end
  | TsUnknown v => match lookup "Unknown" time_source_params with Some b => Some (b + v) | None => None end
  end.

Definition bool_enc (b : bool) : Z := if b then bool_enc_true else bool_enc_false.

Definition leap_src : string :=
  "match time_properties_ds.leap_indicator() { statime::config::LeapIndicator::NoLeap => 60, statime::config::LeapIndicator::Leap61 => 61, statime::config::LeapIndicator::Leap59 => 59 }".

Definition utc_cond : string :=
  "if let Some(current_utc_offset) = time_properties_ds.current_utc_offset".

Inductive sval :=
| VInt (z : Z)
| VBool (b : bool)
| VTok (t : chars).

(** The value a source expression of format.rs denotes in a state ([None]:
    an expression this model does not know - the tie is broken). *)
Definition scalar_src (src : string) (s : obs_state) (ft : ftoks) : option sval :=
  let i z := Some (VInt z) in
  let oi (o : option Z) := match o with Some z => Some (VInt z) | None => None end in
  if String.eqb src "state.program.uptime_seconds" then Some (VTok (ft_uptime ft))
  else if String.eqb src "default_ds.number_ports" then i (dd_number_ports s)
  else if String.eqb src "default_ds.clock_quality.clock_class" then i (cq_class (dd_quality s))
  else if String.eqb src "default_ds.clock_quality.clock_accuracy.to_primitive()" then oi (acc_prim (cq_accuracy (dd_quality s)))
  else if String.eqb src "default_ds.clock_quality.offset_scaled_log_variance" then i (cq_oslv (dd_quality s))
  else if String.eqb src "default_ds.priority_1" then i (dd_p1 s)
  else if String.eqb src "default_ds.priority_2" then i (dd_p2 s)
  else if String.eqb src "current_ds.steps_removed" then i (cd_steps s)
  else if String.eqb src "current_ds.offset_from_master.seconds()" then Some (VTok (ft_offset_s ft))
  else if String.eqb src "current_ds.mean_delay.seconds()" then Some (VTok (ft_delay_s ft))
  else if String.eqb src "parent_ds.grandmaster_clock_quality.clock_class" then i (cq_class (pa_gm_quality s))
  else if String.eqb src "parent_ds.grandmaster_clock_quality.clock_accuracy.to_primitive()" then oi (acc_prim (cq_accuracy (pa_gm_quality s)))
  else if String.eqb src "parent_ds.grandmaster_clock_quality.offset_scaled_log_variance" then i (cq_oslv (pa_gm_quality s))
  else if String.eqb src "parent_ds.grandmaster_priority_1" then i (pa_gm_p1 s)
  else if String.eqb src "parent_ds.grandmaster_priority_2" then i (pa_gm_p2 s)
  else if String.eqb src "current_utc_offset" then oi (tp_utc s)
  else if String.eqb src leap_src then
    i (match tp_leap s with NoLeap => 60 | Leap61 => 61 | Leap59 => 59 end)
  else if String.eqb src "time_properties_ds.time_traceable" then Some (VBool (tp_time_traceable s))
  else if String.eqb src "time_properties_ds.frequency_traceable" then Some (VBool (tp_freq_traceable s))
  else if String.eqb src "time_properties_ds.ptp_timescale" then Some (VBool (tp_ptp s))
  else if String.eqb src "time_properties_ds.time_source.to_primitive()" then oi (ts_prim (tp_source s))
  else if String.eqb src "path_trace_ds.enable" then Some (VBool (pt_enable s))
  else None.

(** A value as the exporter prints it; a boolean must go through format_bool!,
    nothing else may. *)
Definition sval_chars (is_bool : bool) (v : sval) : option chars :=
  match v, is_bool with
  | VInt z, false => Some (print_int z)
  | VTok t, false => Some t
  | VBool b, true => Some (print_int (bool_enc b))
  | _, _ => None
  end.

Definition lbl (k : string) (v : chars) : chars * chars := (s2c k, v).

Definition base_labels (s : obs_state) : labels :=
  [lbl "clock_identity" (clock_id_str (dd_identity s))].

Definition group_labels (g : string) (s : obs_state) : option labels :=
  if String.eqb g "format_state" then
    Some [lbl "version" (s2c (pg_version s)); lbl "build_commit" (s2c (pg_commit s));
          lbl "build_commit_date" (s2c (pg_commit_date s))]
  else if String.eqb g "format_parent_ds" then
    Some (base_labels s ++ [lbl "parent_clock_identity" (clock_id_str (pi_clock (pa_port s)));
                            lbl "parent_port_number" (print_int (pi_port (pa_port s)))])
  else if String.eqb g "format_default_ds" || String.eqb g "format_current_ds"
          || String.eqb g "format_time_properties_ds" || String.eqb g "format_path_trace_ds"
          || String.eqb g "format_port_ds" then Some (base_labels s)
  else None.

Definition sample := (labels * chars)%type.

Fixpoint path_samples (ls : labels) (l : list (list Z)) (i : Z) : list sample :=
  match l with
  | [] => [(ls ++ [lbl "node" (s2c "self")], print_int i)]
  | id :: r => (ls ++ [lbl "node" (clock_id_str id)], print_int i) :: path_samples ls r (i + 1)
  end.

Definition port_label (p : port_ds) : chars * chars := lbl "port" (print_int (pi_port (pd_identity p))).

Fixpoint link_samples (ls : labels) (ps : list port_ds) (toks : list chars) : option (list sample) :=
  match ps with
  | [] => match toks with [] => Some [] | _ => None end
  | p :: r =>
      match pd_mech p with
      | DmP2P _ _ =>
          match toks with
          | t :: tr => match link_samples ls r tr with
                       | Some l => Some ((ls ++ [port_label p], t) :: l) | None => None end
          | [] => None
          end
      | _ => link_samples ls r toks
      end
  end.

Definition port_state_samples (ls : labels) (ps : list port_ds) : option (list sample) :=
  all_some (map (fun p => match lookup (pd_state p) port_state_table with
                          | Some z => Some (ls ++ [port_label p], print_int z)
                          | None => None end) ps).

Definition str_list_eqb (a b : list string) : bool :=
  (length a =? length b)%nat && forallb (fun p => String.eqb (fst p) (snd p)) (combine a b).

(** [None]: not interpretable; [Some None]: not served in this state;
    [Some (Some l)]: the measurements. *)
Definition metric_samples (m : metric) (s : obs_state) (ft : ftoks) : option (option (list sample)) :=
  match group_labels (m_group m) s with
  | None => None
  | Some ls =>
      if str_list_eqb (m_src m) ["steps_removed"; "path_trace_ds.list.len()"]%string then
        if m_bool m || negb (String.eqb (m_cond m) "") then None
        else Some (Some (path_samples ls (pt_list s) 0))
      else if str_list_eqb (m_src m) ["port_ds.port_state as u8"%string] then
        if m_bool m || negb (String.eqb (m_cond m) "") then None
        else match port_state_samples ls (ports s) with Some l => Some (Some l) | None => None end
      else if str_list_eqb (m_src m) ["mean_link_delay.to_nanos()"%string] then
        if m_bool m || negb (String.eqb (m_cond m) "") then None
        else match link_samples ls (ports s) (ft_links_ns ft) with Some l => Some (Some l) | None => None end
      else
        match m_src m with
        | [src] =>
            let served :=
              if String.eqb (m_cond m) "" then Some true
              else if String.eqb (m_cond m) utc_cond && String.eqb src "current_utc_offset" then
                Some (match tp_utc s with Some _ => true | None => false end)
              else None in
            match served with
            | None => None
            | Some false => Some None
            | Some true =>
                match scalar_src src s ft with
                | Some v => match sval_chars (m_bool m) v with
                            | Some t => Some (Some [(ls, t)]) | None => None end
                | None => None
                end
            end
        | _ => None
        end
  end.

(** format_metric *)
Definition full_name (m : metric) : chars :=
  s2c name_prefix ++ s2c (m_name m) ++
  match m_unit m with Some u => "_" :: s2c (unit_str u) | None => [] end.

Definition label_chars (l : chars * chars) : chars :=
  fst l ++ "=" :: dq :: escape_label (snd l) ++ [dq].

Definition sample_line (name : chars) (sm : sample) : chars :=
  name ++ (match fst sm with
           | [] => []
           | ls => "{" :: join [","] (map label_chars ls) ++ ["}"]
           end) ++ " " :: snd sm ++ [nl].

Definition metric_chars (m : metric) (sms : list sample) : chars :=
  let n := full_name m in
  s2c "# HELP " ++ n ++ " " :: s2c (m_help m) ++ "." :: nl ::
  s2c "# TYPE " ++ n ++ " " :: s2c (mtype_str (m_type m)) ++ nl ::
  (match m_unit m with
   | Some u => s2c "# UNIT " ++ n ++ " " :: s2c (unit_str u) ++ [nl]
   | None => []
   end) ++ concat (map (sample_line n) sms).

Fixpoint body_of (t : list metric) (s : obs_state) (ft : ftoks) : option chars :=
  match t with
  | [] => Some (s2c trailer ++ [nl])
  | m :: r =>
      match metric_samples m s ft, body_of r s ft with
      | Some (Some sms), Some rest => Some (metric_chars m sms ++ rest)
      | Some None, Some rest => Some rest
      | _, _ => None
      end
  end.

Definition crlf : chars := [cr; nl].

(** format_response *)
Definition http_of (body : chars) : chars :=
  s2c "HTTP/1.1 200 OK" ++ crlf ++ s2c "content-type: text/plain" ++ crlf ++
  s2c "content-length: " ++ print_int (Z.of_nat (length body)) ++ crlf ++ crlf ++ body.

Definition render (s : obs_state) (ft : ftoks) : option chars :=
  match body_of metric_table s ft with
  | Some b => Some (http_of b)
  | None => None
  end.

(** exporter.rs: ERROR_REPONSE, written when [handler] fails *)
Definition error_response : chars :=
  s2c "HTTP/1.1 500 Internal Server Error" ++ crlf ++ s2c "content-type: text/plain" ++ crlf ++
  s2c "content-length: 0" ++ crlf ++ crlf.

(** exporter.rs: [read_json] reads the whole observation message ([read_to_end],
    since 04bf296), whatever its size and however it is delivered; a state that
    deserialises is answered with [render]. *)
Definition respond (s : obs_state) (ft : ftoks) : option chars := render s ft.

(** * Parsing an HTTP response and the exposition format (oracle side) *)

Fixpoint split_at_crlf2 (s : chars) : option (chars * chars) :=
  match strip_prefix (crlf ++ crlf) s with
  | Some r => Some ([], r)
  | None =>
      match s with
      | [] => None
      | c :: r => match split_at_crlf2 r with Some (a, b) => Some (c :: a, b) | None => None end
      end
  end.

(** lines of a text in which every line is terminated by "\n" *)
Fixpoint lines_aux (s cur : chars) : option (list chars) :=
  match s with
  | [] => match cur with [] => Some [] | _ => None end
  | c :: r =>
      if Ascii.eqb c nl then
        match lines_aux r [] with Some l => Some (rev cur :: l) | None => None end
      else lines_aux r (c :: cur)
  end.
Definition lines (s : chars) : option (list chars) := lines_aux s [].

(** lines of the head of an HTTP message (separated by CRLF) *)
Fixpoint split_crlf (s cur : chars) : list chars :=
  match s with
  | [] => [rev cur]
  | c :: r =>
      if Ascii.eqb c nl then
        match cur with
        | c' :: cur' =>
            if Ascii.eqb c' cr then rev cur' :: split_crlf r [] else split_crlf r (c :: cur)
        | [] => split_crlf r (c :: cur)
        end
      else split_crlf r (c :: cur)
  end.

(** up to the first occurrence of [d] (exclusive); [None] if absent *)
Fixpoint split_on (d : ascii) (s : chars) : option (chars * chars) :=
  match s with
  | [] => None
  | c :: r =>
      if Ascii.eqb c d then Some ([], r)
      else match split_on d r with Some (a, b) => Some (c :: a, b) | None => None end
  end.

Record http := mkHttp { h_status : chars; h_headers : list (chars * chars); h_body : chars }.

Definition parse_header (l : chars) : option (chars * chars) :=
  match split_on ":" l with
  | Some (k, c :: v) => if Ascii.eqb c " " then Some (k, v) else None
  | _ => None
  end.

Definition parse_http (s : chars) : option http :=
  match split_at_crlf2 s with
  | Some (head, body) =>
      match split_crlf head [] with
      | st :: hs =>
          match all_some (map parse_header hs) with
          | Some h => Some (mkHttp st h body)
          | None => None
          end
      | [] => None
      end
  | None => None
  end.

Definition header (k : string) (h : http) : option chars :=
  match find (fun p => chars_eqb (fst p) (s2c k)) (h_headers h) with
  | Some p => Some (snd p)
  | None => None
  end.

(** ** Exposition format *)
Inductive eline :=
| LHelp (name text : chars)
| LType (name ty : chars)
| LUnit (name u : chars)
| LSample (name : chars) (ls : labels) (v : chars)
| LEof.

(** a label value up to its closing quote, undoing the three escapes *)
Fixpoint parse_lval (s : chars) : option (chars * chars) :=
  match s with
  | [] => None
  | c :: r =>
      if Ascii.eqb c dq then Some ([], r)
      else if Ascii.eqb c "\" then
        match r with
        | e :: r' =>
            match parse_lval r' with
            | Some (a, b) =>
                if Ascii.eqb e "\" then Some ("\" :: a, b)
                else if Ascii.eqb e dq then Some (dq :: a, b)
                else if Ascii.eqb e "n" then Some (nl :: a, b)
                else None
            | None => None
            end
        | [] => None
        end
      else match parse_lval r with Some (a, b) => Some (c :: a, b) | None => None end
  end.

(** k="v",k="v"} ; returns the labels and what follows the closing brace *)
Fixpoint parse_labels (fuel : nat) (s : chars) : option (labels * chars) :=
  match fuel with
  | O => None
  | S f =>
      match split_on "=" s with
      | Some (k, c :: r) =>
          if Ascii.eqb c dq then
            match parse_lval r with
            | Some (v, c2 :: r2) =>
                if Ascii.eqb c2 "," then
                  match parse_labels f r2 with Some (l, b) => Some ((k, v) :: l, b) | None => None end
                else if Ascii.eqb c2 "}" then Some ([(k, v)], r2)
                else None
            | _ => None
            end
          else None
      | _ => None
      end
  end.

Fixpoint span_name (s : chars) : chars * chars :=
  match s with
  | c :: r => if Ascii.eqb c "{" || Ascii.eqb c " " then ([], s)
              else let (a, b) := span_name r in (c :: a, b)
  | [] => ([], [])
  end.

Definition no_space (s : chars) : bool := forallb (fun c => negb (Ascii.eqb c " ")) s.

Definition parse_line (l : chars) : option eline :=
  match strip_prefix (s2c "# HELP ") l with
  | Some r => match split_on " " r with Some (n, t) => Some (LHelp n t) | None => None end
  | None =>
  match strip_prefix (s2c "# TYPE ") l with
  | Some r => match split_on " " r with Some (n, t) => Some (LType n t) | None => None end
  | None =>
  match strip_prefix (s2c "# UNIT ") l with
  | Some r => match split_on " " r with Some (n, t) => Some (LUnit n t) | None => None end
  | None =>
  match strip_prefix (s2c "#") l with
  | Some r => if chars_eqb l (s2c "# EOF") then Some LEof else None
  | None =>
      let (n, r) := span_name l in
      match n, r with
      | [], _ => None
      | _, c :: r1 =>
          if Ascii.eqb c "{" then
            match parse_labels (S (length r1)) r1 with
            | Some (ls, c2 :: v) =>
                if Ascii.eqb c2 " " && no_space v && negb (match v with [] => true | _ => false end)
                then Some (LSample n ls v) else None
            | _ => None
            end
          else (* c = " " *)
            if no_space r1 && negb (match r1 with [] => true | _ => false end)
            then Some (LSample n [] r1) else None
      | _, [] => None
      end
  end end end end.

Definition parse_expo (body : chars) : option (list eline) :=
  match lines body with
  | Some ls => all_some (map parse_line ls)
  | None => None
  end.
