(** C19 — the JSON hop between daemon (observer.rs: write_json = serde_json::to_vec)
    and exporter (exporter.rs: read_json = serde_json::from_slice).

    [json]: value type; [print]: serde_json's compact printer; [parse]: a
    recursive-descent parser (fuel = input length); [obs_state]: mirror of
    [ObservableState] as serde sees it; [to_json] / [of_json]: what the derived
    / hand-written Serialize / Deserialize implementations do (field order,
    externally tagged enums, Duration as i128 bits, TimeInterval as i64 bits,
    SdoId range check, Option as null, ArrayVec / Vec as arrays).

    Strings are restricted to the escape-free alphabet (no double quote, no
    backslash): that is what version / commit strings and variant names are.
    f64 numbers (uptime_seconds) are kept as their textual token. *)
From Coq Require Import Ascii String Decimal DecimalZ.
From SV Require Export Base.Prelude.
From SV Require Export Generated.MetricTable.

Definition chars := list ascii.
Definition s2c (s : string) : chars := list_ascii_of_string s.
Definition c2s (c : chars) : string := string_of_list_ascii c.

Local Open Scope char_scope.

(** * Decimal integers *)
Fixpoint uint_chars (u : Decimal.uint) : chars :=
  match u with
  | Decimal.Nil => []
  | Decimal.D0 u => "0" :: uint_chars u
  | Decimal.D1 u => "1" :: uint_chars u
  | Decimal.D2 u => "2" :: uint_chars u
  | Decimal.D3 u => "3" :: uint_chars u
  | Decimal.D4 u => "4" :: uint_chars u
  | Decimal.D5 u => "5" :: uint_chars u
  | Decimal.D6 u => "6" :: uint_chars u
  | Decimal.D7 u => "7" :: uint_chars u
  | Decimal.D8 u => "8" :: uint_chars u
  | Decimal.D9 u => "9" :: uint_chars u
  end.

Definition is_digit (c : ascii) : bool :=
  match c with
  | "0" | "1" | "2" | "3" | "4" | "5" | "6" | "7" | "8" | "9" => true
  | _ => false
  end.

Fixpoint chars_uint (s : chars) : option Decimal.uint :=
  match s with
  | [] => Some Decimal.Nil
  | c :: r =>
      match chars_uint r with
      | None => None
      | Some u =>
          match c with
          | "0" => Some (Decimal.D0 u) | "1" => Some (Decimal.D1 u) | "2" => Some (Decimal.D2 u)
          | "3" => Some (Decimal.D3 u) | "4" => Some (Decimal.D4 u) | "5" => Some (Decimal.D5 u)
          | "6" => Some (Decimal.D6 u) | "7" => Some (Decimal.D7 u) | "8" => Some (Decimal.D8 u)
          | "9" => Some (Decimal.D9 u)
          | _ => None
          end
      end
  end.

Definition print_int (z : Z) : chars :=
  match Z.to_int z with
  | Decimal.Pos u => uint_chars u
  | Decimal.Neg u => "-" :: uint_chars u
  end.

(** [Some z] iff the token is "-"? digit+ *)
Definition int_of_token (t : chars) : option Z :=
  match t with
  | [] => None
  | c :: ds =>
      if Ascii.eqb c "-" then
        match ds with
        | [] => None
        | _ => match chars_uint ds with Some u => Some (Z.of_int (Decimal.Neg u)) | None => None end
        end
      else match chars_uint t with Some u => Some (Z.of_int (Decimal.Pos u)) | None => None end
  end.

(** * JSON values *)
Inductive json :=
| JNull
| JBool (b : bool)
| JInt (z : Z)
| JFloat (tok : chars)            (* a number token that is not an integer, e.g. 12.5 or 1e-7 *)
| JStr (s : chars)
| JArr (l : list json)
| JObj (l : list (chars * json)).

Definition dq : ascii := """".

Fixpoint join (sep : chars) (l : list chars) : chars :=
  match l with
  | [] => []
  | [x] => x
  | x :: r => x ++ sep ++ join sep r
  end.

Fixpoint print (v : json) : chars :=
  match v with
  | JNull => s2c "null"
  | JBool true => s2c "true"
  | JBool false => s2c "false"
  | JInt z => print_int z
  | JFloat t => t
  | JStr s => dq :: s ++ [dq]
  | JArr l =>
      "[" :: (fix elems (l : list json) : chars :=
                match l with
                | [] => ["]"]
                | [x] => print x ++ ["]"]
                | x :: r => print x ++ "," :: elems r
                end) l
  | JObj l =>
      "{" :: (fix members (l : list (chars * json)) : chars :=
                match l with
                | [] => ["}"]
                | [(k, x)] => dq :: k ++ dq :: ":" :: print x ++ ["}"]
                | (k, x) :: r => dq :: k ++ dq :: ":" :: print x ++ "," :: members r
                end) l
  end.

(** ** Parser *)
Definition is_numch (c : ascii) : bool :=
  is_digit c || Ascii.eqb c "-" || Ascii.eqb c "+" || Ascii.eqb c "." || Ascii.eqb c "e" || Ascii.eqb c "E".

Fixpoint span_num (s : chars) : chars * chars :=
  match s with
  | c :: r => if is_numch c then let (a, b) := span_num r in (c :: a, b) else ([], s)
  | [] => ([], [])
  end.

Definition parse_number (s : chars) : option (json * chars) :=
  let (t, r) := span_num s in
  match t with
  | [] => None
  | _ => match int_of_token t with Some z => Some (JInt z, r) | None => Some (JFloat t, r) end
  end.

(** up to the closing quote; escapes are not supported (partial parser) *)
Fixpoint parse_str (s : chars) : option (chars * chars) :=
  match s with
  | [] => None
  | c :: r =>
      if Ascii.eqb c dq then Some ([], r)
      else if Ascii.eqb c "\" then None
      else match parse_str r with Some (a, b) => Some (c :: a, b) | None => None end
  end.

Fixpoint strip_prefix (p s : chars) : option chars :=
  match p, s with
  | [], _ => Some s
  | a :: p', b :: s' => if Ascii.eqb a b then strip_prefix p' s' else None
  | _ :: _, [] => None
  end.

Definition is_c (c d : ascii) : bool := Ascii.eqb c d.

Definition lit_null : chars := s2c "null".
Definition lit_true : chars := s2c "true".
Definition lit_false : chars := s2c "false".

Fixpoint parse_val (fuel : nat) (s : chars) {struct fuel} : option (json * chars) :=
  match fuel with
  | O => None
  | S f =>
      match s with
      | [] => None
      | c :: r =>
          if is_c c "n" then match strip_prefix lit_null s with Some b => Some (JNull, b) | None => None end
          else if is_c c "t" then match strip_prefix lit_true s with Some b => Some (JBool true, b) | None => None end
          else if is_c c "f" then match strip_prefix lit_false s with Some b => Some (JBool false, b) | None => None end
          else if is_c c dq then match parse_str r with Some (a, b) => Some (JStr a, b) | None => None end
          else if is_c c "[" then
            match r with
            | [] => None
            | c2 :: r2 =>
                if is_c c2 "]" then Some (JArr [], r2)
                else match parse_elems f r with Some (l, b) => Some (JArr l, b) | None => None end
            end
          else if is_c c "{" then
            match r with
            | [] => None
            | c2 :: r2 =>
                if is_c c2 "}" then Some (JObj [], r2)
                else match parse_members f r with Some (l, b) => Some (JObj l, b) | None => None end
            end
          else parse_number s
      end
  end
with parse_elems (fuel : nat) (s : chars) {struct fuel} : option (list json * chars) :=
  match fuel with
  | O => None
  | S f =>
      match parse_val f s with
      | Some (v, c :: r) =>
          if is_c c "," then
            match parse_elems f r with Some (l, b) => Some (v :: l, b) | None => None end
          else if is_c c "]" then Some ([v], r)
          else None
      | _ => None
      end
  end
with parse_members (fuel : nat) (s : chars) {struct fuel} : option (list (chars * json) * chars) :=
  match fuel with
  | O => None
  | S f =>
      match s with
      | c :: r =>
          if is_c c dq then
            match parse_str r with
            | Some (k, c1 :: r1) =>
                if is_c c1 ":" then
                  match parse_val f r1 with
                  | Some (v, c2 :: r2) =>
                      if is_c c2 "," then
                        match parse_members f r2 with Some (l, b) => Some ((k, v) :: l, b) | None => None end
                      else if is_c c2 "}" then Some ([(k, v)], r2)
                      else None
                  | _ => None
                  end
                else None
            | _ => None
            end
          else None
      | [] => None
      end
  end.

Definition parse (s : chars) : option json :=
  match parse_val (S (length s)) s with
  | Some (v, []) => Some v
  | _ => None
  end.

(** * The observable state as serde sees it *)

Inductive accuracy := AccUnit (name : string) | AccProfile (v : Z).
Inductive tsource := TsUnit (name : string) | TsProfile (v : Z) | TsUnknown (v : Z).
Inductive leap := NoLeap | Leap61 | Leap59.

Record clock_quality := mkCQ { cq_class : Z; cq_accuracy : accuracy; cq_oslv : Z }.
Record port_identity := mkPI { pi_clock : list Z; pi_port : Z }.

Inductive delay_mech :=
| DmE2E (log_min_delay_req : Z)
| DmP2P (log_min_pdelay_req : Z) (mean_link_delay : Z)     (* TimeInterval: I48F16 bits *)
| DmNone
| DmCommonP2P (mean_link_delay : Z)
| DmSpecial.

Record port_ds := mkPort {
  pd_identity : port_identity;
  pd_state : string;                 (* variant name of PortState *)
  pd_log_announce : Z;
  pd_receipt_timeout : Z;
  pd_log_sync : Z;
  pd_mech : delay_mech;
  pd_version : Z;
  pd_minor : Z;
  pd_asymmetry : Z;                  (* TimeInterval: I48F16 bits *)
  pd_master_only : bool
}.

Record obs_state := mkObs {
  (* program *)
  pg_version : string;
  pg_commit : string;
  pg_commit_date : string;
  pg_uptime : chars;                 (* f64 as printed by serde_json *)
  (* instance.default_ds *)
  dd_identity : list Z;
  dd_number_ports : Z;
  dd_quality : clock_quality;
  dd_p1 : Z;
  dd_p2 : Z;
  dd_domain : Z;
  dd_slave_only : bool;
  dd_sdo : Z;
  (* instance.current_ds *)
  cd_steps : Z;
  cd_offset : Z;                     (* Duration: I96F32 bits (i128) *)
  cd_delay : Z;
  (* instance.parent_ds *)
  pa_port : port_identity;
  pa_gm_identity : list Z;
  pa_gm_quality : clock_quality;
  pa_gm_p1 : Z;
  pa_gm_p2 : Z;
  (* instance.time_properties_ds *)
  tp_utc : option Z;
  tp_leap : leap;
  tp_time_traceable : bool;
  tp_freq_traceable : bool;
  tp_ptp : bool;
  tp_source : tsource;
  (* instance.path_trace_ds *)
  pt_list : list (list Z);
  pt_enable : bool;
  (* instance.port_ds *)
  ports : list port_ds
}.

(** ** Serialize *)
Definition jstr (s : string) : json := JStr (s2c s).
Definition key (s : string) : chars := s2c s.
Definition jbytes (l : list Z) : json := JArr (map JInt l).

Definition acc_json (a : accuracy) : json :=
  match a with
  | AccUnit n => jstr n
  | AccProfile v => JObj [(key "ProfileSpecific", JInt v)]
  end.

Definition ts_json (t : tsource) : json :=
  match t with
  | TsUnit n => jstr n
  | TsProfile v => JObj [(key "ProfileSpecific", JInt v)]
  | TsUnknown v => JObj [(key "Unknown", JInt v)]
  end.

Definition leap_name (l : leap) : string :=
  match l with NoLeap => "NoLeap" | Leap61 => "Leap61" | Leap59 => "Leap59" end.

Definition cq_json (q : clock_quality) : json :=
  JObj [(key "clock_class", JInt (cq_class q));
        (key "clock_accuracy", acc_json (cq_accuracy q));
        (key "offset_scaled_log_variance", JInt (cq_oslv q))].

Definition pi_json (p : port_identity) : json :=
  JObj [(key "clock_identity", jbytes (pi_clock p)); (key "port_number", JInt (pi_port p))].

Definition mech_json (m : delay_mech) : json :=
  match m with
  | DmE2E a => JObj [(key "E2E", JObj [(key "log_min_delay_req_interval", JInt a)])]
  | DmP2P a d => JObj [(key "P2P", JObj [(key "log_min_p_delay_req_interval", JInt a);
                                         (key "mean_link_delay", JInt d)])]
  | DmNone => jstr "NoMechanism"
  | DmCommonP2P d => JObj [(key "CommonP2P", JObj [(key "mean_link_delay", JInt d)])]
  | DmSpecial => jstr "Special"
  end.

Definition port_json (p : port_ds) : json :=
  JObj [(key "port_identity", pi_json (pd_identity p));
        (key "port_state", jstr (pd_state p));
        (key "log_announce_interval", JInt (pd_log_announce p));
        (key "announce_receipt_timeout", JInt (pd_receipt_timeout p));
        (key "log_sync_interval", JInt (pd_log_sync p));
        (key "delay_mechanism", mech_json (pd_mech p));
        (key "version_number", JInt (pd_version p));
        (key "minor_version_number", JInt (pd_minor p));
        (key "delay_asymmetry", JInt (pd_asymmetry p));
        (key "master_only", JBool (pd_master_only p))].

Definition to_json (s : obs_state) : json :=
  JObj [
    (key "program", JObj [
       (key "version", jstr (pg_version s));
       (key "build_commit", jstr (pg_commit s));
       (key "build_commit_date", jstr (pg_commit_date s));
       (key "uptime_seconds", JFloat (pg_uptime s))]);
    (key "instance", JObj [
       (key "default_ds", JObj [
          (key "clock_identity", jbytes (dd_identity s));
          (key "number_ports", JInt (dd_number_ports s));
          (key "clock_quality", cq_json (dd_quality s));
          (key "priority_1", JInt (dd_p1 s));
          (key "priority_2", JInt (dd_p2 s));
          (key "domain_number", JInt (dd_domain s));
          (key "slave_only", JBool (dd_slave_only s));
          (key "sdo_id", JInt (dd_sdo s))]);
       (key "current_ds", JObj [
          (key "steps_removed", JInt (cd_steps s));
          (key "offset_from_master", JInt (cd_offset s));
          (key "mean_delay", JInt (cd_delay s))]);
       (key "parent_ds", JObj [
          (key "parent_port_identity", pi_json (pa_port s));
          (key "grandmaster_identity", jbytes (pa_gm_identity s));
          (key "grandmaster_clock_quality", cq_json (pa_gm_quality s));
          (key "grandmaster_priority_1", JInt (pa_gm_p1 s));
          (key "grandmaster_priority_2", JInt (pa_gm_p2 s))]);
       (key "time_properties_ds", JObj [
          (key "current_utc_offset", match tp_utc s with Some z => JInt z | None => JNull end);
          (key "leap_indicator", jstr (leap_name (tp_leap s)));
          (key "time_traceable", JBool (tp_time_traceable s));
          (key "frequency_traceable", JBool (tp_freq_traceable s));
          (key "ptp_timescale", JBool (tp_ptp s));
          (key "time_source", ts_json (tp_source s))]);
       (key "path_trace_ds", JObj [
          (key "list", JArr (map jbytes (pt_list s)));
          (key "enable", JBool (pt_enable s))]);
       (key "port_ds", JArr (map port_json (ports s)))])].

(** ** Deserialize (fields in serialisation order; integer ranges of the Rust
    types are enforced as serde does) *)
Definition chars_eqb (a b : chars) : bool := String.eqb (c2s a) (c2s b).

Definition mem_name (n : string) (t : list (string * Z)) : bool :=
  existsb (fun p => String.eqb (fst p) n) t.

Definition sdo_ok (z : Z) : bool := ((0 <=? z) && (z <=? 4095))%Z.
Definition rng_u (bits z : Z) : bool := in_u bits z.
Definition rng_i (bits z : Z) : bool := in_i bits z.

Definition field (k : string) (l : list (chars * json)) : option (json * list (chars * json)) :=
  match l with
  | (k', v) :: r => if chars_eqb k' (key k) then Some (v, r) else None
  | [] => None
  end.

Definition as_int (rng : Z -> bool) (v : json) : option Z :=
  match v with JInt z => if rng z then Some z else None | _ => None end.
Definition as_bool (v : json) : option bool :=
  match v with JBool b => Some b | _ => None end.
Definition as_string (v : json) : option string :=
  match v with JStr s => Some (c2s s) | _ => None end.

Fixpoint all_some {A} (l : list (option A)) : option (list A) :=
  match l with
  | [] => Some []
  | Some x :: r => match all_some r with Some xs => Some (x :: xs) | None => None end
  | None :: _ => None
  end.

Definition as_bytes8 (v : json) : option (list Z) :=
  match v with
  | JArr l =>
      match all_some (map (as_int (rng_u 8)) l) with
      | Some bs => if (length bs =? 8)%nat then Some bs else None
      | None => None
      end
  | _ => None
  end.

Notation "'do' x '<-' e ';' f" := (match e with Some x => f | None => None end)
  (at level 200, x pattern, e at level 100, f at level 200, right associativity).

Definition acc_of (v : json) : option accuracy :=
  match v with
  | JStr n => if mem_name (c2s n) clock_accuracy_units then Some (AccUnit (c2s n)) else None
  | JObj [(k, JInt z)] =>
      if chars_eqb k (key "ProfileSpecific") && rng_u 8 z then Some (AccProfile z) else None
  | _ => None
  end.

Definition ts_of (v : json) : option tsource :=
  match v with
  | JStr n => if mem_name (c2s n) time_source_units then Some (TsUnit (c2s n)) else None
  | JObj [(k, JInt z)] =>
      if rng_u 8 z then
        if chars_eqb k (key "ProfileSpecific") then Some (TsProfile z)
        else if chars_eqb k (key "Unknown") then Some (TsUnknown z) else None
      else None
  | _ => None
  end.

Definition leap_of (v : json) : option leap :=
  match v with
  | JStr n =>
      if chars_eqb n (key "NoLeap") then Some NoLeap
      else if chars_eqb n (key "Leap61") then Some Leap61
      else if chars_eqb n (key "Leap59") then Some Leap59 else None
  | _ => None
  end.

Definition cq_of (v : json) : option clock_quality :=
  match v with
  | JObj l =>
      do (a, l) <- field "clock_class" l; do a <- as_int (rng_u 8) a;
      do (b, l) <- field "clock_accuracy" l; do b <- acc_of b;
      do (c, l) <- field "offset_scaled_log_variance" l; do c <- as_int (rng_u 16) c;
      match l with [] => Some (mkCQ a b c) | _ => None end
  | _ => None
  end.

Definition pi_of (v : json) : option port_identity :=
  match v with
  | JObj l =>
      do (a, l) <- field "clock_identity" l; do a <- as_bytes8 a;
      do (b, l) <- field "port_number" l; do b <- as_int (rng_u 16) b;
      match l with [] => Some (mkPI a b) | _ => None end
  | _ => None
  end.

Definition mech_of (v : json) : option delay_mech :=
  match v with
  | JStr n =>
      if chars_eqb n (key "NoMechanism") then Some DmNone
      else if chars_eqb n (key "Special") then Some DmSpecial else None
  | JObj [(k, JObj l)] =>
      if chars_eqb k (key "E2E") then
        do (a, l) <- field "log_min_delay_req_interval" l; do a <- as_int (rng_i 8) a;
        match l with [] => Some (DmE2E a) | _ => None end
      else if chars_eqb k (key "P2P") then
        do (a, l) <- field "log_min_p_delay_req_interval" l; do a <- as_int (rng_i 8) a;
        do (d, l) <- field "mean_link_delay" l; do d <- as_int (rng_i 64) d;
        match l with [] => Some (DmP2P a d) | _ => None end
      else if chars_eqb k (key "CommonP2P") then
        do (d, l) <- field "mean_link_delay" l; do d <- as_int (rng_i 64) d;
        match l with [] => Some (DmCommonP2P d) | _ => None end
      else None
  | _ => None
  end.

Definition port_of (v : json) : option port_ds :=
  match v with
  | JObj l =>
      do (a, l) <- field "port_identity" l; do a <- pi_of a;
      do (b, l) <- field "port_state" l; do b <- as_string b;
      if negb (mem_name b port_state_table) then None else
      do (c, l) <- field "log_announce_interval" l; do c <- as_int (rng_i 8) c;
      do (d, l) <- field "announce_receipt_timeout" l; do d <- as_int (rng_u 8) d;
      do (e, l) <- field "log_sync_interval" l; do e <- as_int (rng_i 8) e;
      do (f, l) <- field "delay_mechanism" l; do f <- mech_of f;
      do (g, l) <- field "version_number" l; do g <- as_int (rng_u 8) g;
      do (h, l) <- field "minor_version_number" l; do h <- as_int (rng_u 8) h;
      do (i, l) <- field "delay_asymmetry" l; do i <- as_int (rng_i 64) i;
      do (j, l) <- field "master_only" l; do j <- as_bool j;
      match l with [] => Some (mkPort a b c d e f g h i j) | _ => None end
  | _ => None
  end.

Definition as_obj (v : json) : option (list (chars * json)) :=
  match v with JObj l => Some l | _ => None end.
Definition as_arr (v : json) : option (list json) :=
  match v with JArr l => Some l | _ => None end.
Definition nil_end {A B} (l : list A) (x : B) : option B :=
  match l with [] => Some x | _ => None end.

Definition program_of (pg : list (chars * json)) : option (string * string * string * chars) :=
  do (ver, pg) <- field "version" pg; do ver <- as_string ver;
  do (bc, pg) <- field "build_commit" pg; do bc <- as_string bc;
  do (bd, pg) <- field "build_commit_date" pg; do bd <- as_string bd;
  do (up, pg) <- field "uptime_seconds" pg;
  do up <- match up with JFloat t => Some t | JInt z => Some (print_int z) | _ => None end;
  nil_end pg (ver, bc, bd, up).

Definition default_of (dd : list (chars * json))
  : option (list Z * Z * clock_quality * Z * Z * Z * bool * Z) :=
  do (d1, dd) <- field "clock_identity" dd; do d1 <- as_bytes8 d1;
  do (d2, dd) <- field "number_ports" dd; do d2 <- as_int (rng_u 16) d2;
  do (d3, dd) <- field "clock_quality" dd; do d3 <- cq_of d3;
  do (d4, dd) <- field "priority_1" dd; do d4 <- as_int (rng_u 8) d4;
  do (d5, dd) <- field "priority_2" dd; do d5 <- as_int (rng_u 8) d5;
  do (d6, dd) <- field "domain_number" dd; do d6 <- as_int (rng_u 8) d6;
  do (d7, dd) <- field "slave_only" dd; do d7 <- as_bool d7;
  do (d8, dd) <- field "sdo_id" dd; do d8 <- as_int sdo_ok d8;
  nil_end dd (d1, d2, d3, d4, d5, d6, d7, d8).

Definition current_of (cd : list (chars * json)) : option (Z * Z * Z) :=
  do (c1, cd) <- field "steps_removed" cd; do c1 <- as_int (rng_u 16) c1;
  do (c2, cd) <- field "offset_from_master" cd; do c2 <- as_int (rng_i 128) c2;
  do (c3, cd) <- field "mean_delay" cd; do c3 <- as_int (rng_i 128) c3;
  nil_end cd (c1, c2, c3).

Definition parent_of (pa : list (chars * json))
  : option (port_identity * list Z * clock_quality * Z * Z) :=
  do (p1, pa) <- field "parent_port_identity" pa; do p1 <- pi_of p1;
  do (p2, pa) <- field "grandmaster_identity" pa; do p2 <- as_bytes8 p2;
  do (p3, pa) <- field "grandmaster_clock_quality" pa; do p3 <- cq_of p3;
  do (p4, pa) <- field "grandmaster_priority_1" pa; do p4 <- as_int (rng_u 8) p4;
  do (p5, pa) <- field "grandmaster_priority_2" pa; do p5 <- as_int (rng_u 8) p5;
  nil_end pa (p1, p2, p3, p4, p5).

Definition utc_of (v : json) : option (option Z) :=
  match v with
  | JNull => Some None
  | JInt z => if rng_i 16 z then Some (Some z) else None
  | _ => None
  end.

Definition tprops_of (tp : list (chars * json))
  : option (option Z * leap * bool * bool * bool * tsource) :=
  do (t1, tp) <- field "current_utc_offset" tp; do t1 <- utc_of t1;
  do (t2, tp) <- field "leap_indicator" tp; do t2 <- leap_of t2;
  do (t3, tp) <- field "time_traceable" tp; do t3 <- as_bool t3;
  do (t4, tp) <- field "frequency_traceable" tp; do t4 <- as_bool t4;
  do (t5, tp) <- field "ptp_timescale" tp; do t5 <- as_bool t5;
  do (t6, tp) <- field "time_source" tp; do t6 <- ts_of t6;
  nil_end tp (t1, t2, t3, t4, t5, t6).

Definition ptrace_of (pt : list (chars * json)) : option (list (list Z) * bool) :=
  do (l1, pt) <- field "list" pt; do l1 <- as_arr l1; do l1 <- all_some (map as_bytes8 l1);
  do (l2, pt) <- field "enable" pt; do l2 <- as_bool l2;
  nil_end pt (l1, l2).

Definition instance_of (inst : list (chars * json)) :=
  do (dd, inst) <- field "default_ds" inst; do dd <- as_obj dd; do dd <- default_of dd;
  do (cd, inst) <- field "current_ds" inst; do cd <- as_obj cd; do cd <- current_of cd;
  do (pa, inst) <- field "parent_ds" inst; do pa <- as_obj pa; do pa <- parent_of pa;
  do (tp, inst) <- field "time_properties_ds" inst; do tp <- as_obj tp; do tp <- tprops_of tp;
  do (pt, inst) <- field "path_trace_ds" inst; do pt <- as_obj pt; do pt <- ptrace_of pt;
  do (po, inst) <- field "port_ds" inst; do po <- as_arr po; do po <- all_some (map port_of po);
  nil_end inst (dd, cd, pa, tp, pt, po).

Definition of_json (v : json) : option obs_state :=
  do top <- as_obj v;
  do (pg, top) <- field "program" top; do pg <- as_obj pg; do pg <- program_of pg;
  do (inst, top) <- field "instance" top; do inst <- as_obj inst; do inst <- instance_of inst;
  do _ <- nil_end top tt;
  let '(ver, bc, bd, up) := pg in
  let '(dd, cd, pa, tp, pt, po) := inst in
  let '(d1, d2, d3, d4, d5, d6, d7, d8) := dd in
  let '(c1, c2, c3) := cd in
  let '(p1, p2, p3, p4, p5) := pa in
  let '(t1, t2, t3, t4, t5, t6) := tp in
  let '(l1, l2) := pt in
  Some (mkObs ver bc bd up d1 d2 d3 d4 d5 d6 d7 d8 c1 c2 c3 p1 p2 p3 p4 p5
              t1 t2 t3 t4 t5 t6 l1 l2 po).

(** ** Well-formed states: the value ranges of the Rust types *)
Definition plain_char (c : ascii) : bool := negb (Ascii.eqb c dq) && negb (Ascii.eqb c "\").
Definition plain (s : chars) : bool := forallb plain_char s.

Definition float_token (t : chars) : bool :=
  forallb is_numch t && match t with [] => false | _ => true end
  && match int_of_token t with None => true | Some _ => false end.

Definition wf_bytes8 (l : list Z) : bool := (length l =? 8)%nat && forallb (rng_u 8) l.

Definition wf_acc (a : accuracy) : bool :=
  match a with AccUnit n => mem_name n clock_accuracy_units | AccProfile v => rng_u 8 v end.
Definition wf_ts (t : tsource) : bool :=
  match t with TsUnit n => mem_name n time_source_units | TsProfile v | TsUnknown v => rng_u 8 v end.
Definition wf_cq (q : clock_quality) : bool :=
  rng_u 8 (cq_class q) && wf_acc (cq_accuracy q) && rng_u 16 (cq_oslv q).
Definition wf_pi (p : port_identity) : bool := wf_bytes8 (pi_clock p) && rng_u 16 (pi_port p).
Definition wf_mech (m : delay_mech) : bool :=
  match m with
  | DmE2E a => rng_i 8 a
  | DmP2P a d => rng_i 8 a && rng_i 64 d
  | DmCommonP2P d => rng_i 64 d
  | DmNone | DmSpecial => true
  end.
Definition wf_port (p : port_ds) : bool :=
  wf_pi (pd_identity p) && mem_name (pd_state p) port_state_table
  && rng_i 8 (pd_log_announce p) && rng_u 8 (pd_receipt_timeout p) && rng_i 8 (pd_log_sync p)
  && wf_mech (pd_mech p) && rng_u 8 (pd_version p) && rng_u 8 (pd_minor p)
  && rng_i 64 (pd_asymmetry p).

Definition wf_state (s : obs_state) : bool :=
  plain (s2c (pg_version s)) && plain (s2c (pg_commit s)) && plain (s2c (pg_commit_date s))
  && float_token (pg_uptime s)
  && wf_bytes8 (dd_identity s) && rng_u 16 (dd_number_ports s) && wf_cq (dd_quality s)
  && rng_u 8 (dd_p1 s) && rng_u 8 (dd_p2 s) && rng_u 8 (dd_domain s)
  && sdo_ok (dd_sdo s)
  && rng_u 16 (cd_steps s) && rng_i 128 (cd_offset s) && rng_i 128 (cd_delay s)
  && wf_pi (pa_port s) && wf_bytes8 (pa_gm_identity s) && wf_cq (pa_gm_quality s)
  && rng_u 8 (pa_gm_p1 s) && rng_u 8 (pa_gm_p2 s)
  && match tp_utc s with Some z => rng_i 16 z | None => true end
  && wf_ts (tp_source s)
  && forallb wf_bytes8 (pt_list s)
  && forallb wf_port (ports s).
