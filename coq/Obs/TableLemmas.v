(** C19 — theorems over the metric table generated from format.rs (finite,
    decided by vm_compute over the explicit table, lifted with forallb_forall). *)
From Coq Require Import Ascii String.
From SV Require Import Obs.MetricSpec.

(** EVERY row is right (no exemption): the unit in its name is the unit of its
    value, and a help text promising a truth value goes with the true-as-1
    encoding of format_bool!. *)
Theorem table_ok : forall m, In m metric_table -> row_ok m = true.
Proof.
  assert (H : forallb row_ok metric_table = true) by (vm_compute; reflexivity).
  intros m Hin. rewrite forallb_forall in H. exact (H m Hin).
Qed.

Theorem format_bool_ok : bool_enc_true = 1 /\ bool_enc_false = 0.
Proof. split; reflexivity. Qed.

(** Every source expression of the table is classified (no silent gaps). *)
Theorem table_sources_classified : forall m src,
  In m metric_table -> In src (m_src m) -> src_unit src <> None.
Proof.
  assert (H : forallb (fun m => forallb (fun s => match src_unit s with Some _ => true | None => false end)
                                        (m_src m)) metric_table = true) by (vm_compute; reflexivity).
  intros m src Hm Hs. rewrite forallb_forall in H. specialize (H m Hm).
  rewrite forallb_forall in H. specialize (H src Hs). destruct (src_unit src); [discriminate | discriminate].
Qed.

(** The model can interpret every row of the table in every state shape
    (render never fails for lack of an interpretation of a source expression):
    checked on the table for the group labels and the scalar sources. *)
Theorem table_groups_known : forall m,
  In m metric_table ->
  existsb (String.eqb (m_group m))
    ["format_state"; "format_default_ds"; "format_current_ds"; "format_parent_ds";
     "format_time_properties_ds"; "format_path_trace_ds"; "format_port_ds"]%string = true.
Proof.
  assert (H : forallb (fun m => existsb (String.eqb (m_group m))
    ["format_state"; "format_default_ds"; "format_current_ds"; "format_parent_ds";
     "format_time_properties_ds"; "format_path_trace_ds"; "format_port_ds"]%string) metric_table = true)
    by (vm_compute; reflexivity).
  intros m Hm. rewrite forallb_forall in H. exact (H m Hm).
Qed.

