(** C19 — proofs about the Prometheus / HTTP model: the rendered exposition
    text parses back, line by line, to exactly the samples that were rendered
    (names, labels with escaping undone, value tokens); the Content-Length
    header equals the body length.

    f64 [Display] is abstract: the float tokens are the Section-free record
    [ftoks]; the only assumption about them is [toks_ok] (non-empty, no space,
    no newline), which holds of every decimal rendering. *)
From Coq Require Import Ascii String.
From SV Require Import Obs.MetricSpec Obs.JsonLemmas.

Local Open Scope char_scope.

(** * Character classes *)
Definition not_c (d : ascii) (s : chars) : bool := forallb (fun c => negb (Ascii.eqb c d)) s.
Definition no_nl (s : chars) : bool := not_c nl s.

Definition tok_ok (t : chars) : bool :=
  negb (match t with [] => true | _ => false end) && not_c " " t && no_nl t.

Definition toks_ok (ft : ftoks) : bool :=
  tok_ok (ft_uptime ft) && tok_ok (ft_offset_s ft) && tok_ok (ft_delay_s ft)
  && forallb tok_ok (ft_links_ns ft).

Lemma not_c_app d a b : not_c d (a ++ b) = not_c d a && not_c d b.
Proof. unfold not_c. apply forallb_app. Qed.

Lemma numch_not_space_nl c :
  is_numch c = true -> Ascii.eqb c " " = false /\ Ascii.eqb c nl = false.
Proof.
  destruct c as [[] [] [] [] [] [] [] []]; cbn; intros H; try discriminate; split; reflexivity.
Qed.

Lemma tok_ok_print_int z : tok_ok (print_int z) = true.
Proof.
  unfold tok_ok. pose proof (print_int_nonempty z) as N. pose proof (print_int_numch z) as F.
  destruct (print_int z) as [| c t] eqn:E; [congruence |]. cbn [negb andb]. rewrite <- E in F |- *.
  clear E N. unfold no_nl, not_c.
  assert (A : forall l, forallb is_numch l = true ->
              forallb (fun c => negb (Ascii.eqb c " ")) l = true /\
              forallb (fun c => negb (Ascii.eqb c nl)) l = true).
  { induction l as [| x l IH]; cbn [forallb]; [auto |]. intros H. apply andb_true_iff in H.
    destruct H as [Hx Hl]. destruct (numch_not_space_nl x Hx) as [S1 S2]. destruct (IH Hl) as [I1 I2].
    rewrite S1, S2, I1, I2. auto. }
  destruct (A _ F) as [A1 A2]. rewrite A1, A2. reflexivity.
Qed.

(** * Lines *)
Lemma lines_aux_line l : forall rest cur,
  no_nl l = true ->
  lines_aux (l ++ nl :: rest) cur =
    match lines_aux rest [] with Some ls => Some ((rev cur ++ l) :: ls) | None => None end.
Proof.
  induction l as [| c l IH]; intros rest cur H; cbn [app lines_aux].
  - change (Ascii.eqb nl nl) with true. cbv iota. rewrite app_nil_r. reflexivity.
  - unfold no_nl, not_c in H. cbn [forallb] in H. apply andb_true_iff in H. destruct H as [Hc Hl].
    apply negb_true_iff in Hc. rewrite Hc. rewrite (IH rest (c :: cur) Hl).
    cbn [rev]. rewrite <- app_assoc. reflexivity.
Qed.

Definition add_nl (l : chars) : chars := l ++ [nl].

Lemma lines_concat ls :
  forallb no_nl ls = true -> lines (concat (map add_nl ls)) = Some ls.
Proof.
  unfold lines. induction ls as [| l ls IH]; cbn [map concat forallb]; [reflexivity |].
  intros H. apply andb_true_iff in H. destruct H as [Hl Hls].
  unfold add_nl at 1. rewrite <- app_assoc. cbn [app].
  rewrite (lines_aux_line l _ [] Hl). rewrite (IH Hls). reflexivity.
Qed.

(** * Label values: escaping is undone by the parser, and never leaks a newline *)
Lemma parse_lval_escape v : forall rest,
  parse_lval (escape_label v ++ dq :: rest) = Some (v, rest).
Proof.
  induction v as [| c v IH]; intros rest; cbn [escape_label app].
  - cbn [parse_lval]. change (Ascii.eqb dq dq) with true. reflexivity.
  - destruct (Ascii.eqb c "\") eqn:E1.
    + apply Ascii.eqb_eq in E1. subst c. cbn [app parse_lval].
      change (Ascii.eqb "\" dq) with false. change (Ascii.eqb "\" "\") with true. cbv iota.
      rewrite IH. reflexivity.
    + destruct (Ascii.eqb c dq) eqn:E2.
      * apply Ascii.eqb_eq in E2. subst c. cbn [app parse_lval].
        change (Ascii.eqb "\" dq) with false. change (Ascii.eqb "\" "\") with true. cbv iota.
        rewrite IH. change (Ascii.eqb dq "\") with false. change (Ascii.eqb dq dq) with true.
        reflexivity.
      * destruct (Ascii.eqb c nl) eqn:E3.
        -- apply Ascii.eqb_eq in E3. subst c. cbn [app parse_lval].
           change (Ascii.eqb "\" dq) with false. change (Ascii.eqb "\" "\") with true. cbv iota.
           rewrite IH. change (Ascii.eqb "n" "\") with false. change (Ascii.eqb "n" dq) with false.
           change (Ascii.eqb "n" "n") with true. reflexivity.
        -- cbn [app parse_lval]. rewrite E2, E1, IH. reflexivity.
Qed.

Lemma escape_no_nl v : no_nl (escape_label v) = true.
Proof.
  unfold no_nl, not_c. induction v as [| c v IH]; cbn [escape_label forallb]; [reflexivity |].
  destruct (Ascii.eqb c "\") eqn:E1; [cbn [forallb]; rewrite IH; reflexivity |].
  destruct (Ascii.eqb c dq) eqn:E2; [cbn [forallb]; rewrite IH; reflexivity |].
  destruct (Ascii.eqb c nl) eqn:E3; [cbn [forallb]; rewrite IH; reflexivity |].
  cbn [forallb]. rewrite E3, IH. reflexivity.
Qed.

(** * Splitting *)
Lemma split_on_app d a b :
  not_c d a = true -> split_on d (a ++ d :: b) = Some (a, b).
Proof.
  unfold not_c. induction a as [| c a IH]; cbn [app split_on forallb].
  - intros _. rewrite Ascii.eqb_refl. reflexivity.
  - intros H. apply andb_true_iff in H. destruct H as [Hc Ha]. apply negb_true_iff in Hc.
    rewrite Hc, (IH Ha). reflexivity.
Qed.

(** * Labels *)
Definition key_ok (k : chars) : bool := not_c "=" k && no_nl k.

Definition labels_ok (ls : labels) : bool := forallb (fun l => key_ok (fst l)) ls.

Lemma join_cons sep x r :
  join sep (x :: r) = x ++ match r with [] => [] | _ => sep ++ join sep r end.
Proof. destruct r; cbn [join]; [rewrite app_nil_r |]; reflexivity. Qed.

Lemma parse_labels_ok ls : forall rest fuel,
  ls <> [] -> labels_ok ls = true -> (length ls <= fuel)%nat ->
  parse_labels fuel (join [","] (map label_chars ls) ++ "}" :: rest) = Some (ls, rest).
Proof.
  induction ls as [| [k v] r IH]; intros rest fuel HN HK HF; [congruence |].
  cbn [labels_ok forallb fst] in HK. apply andb_true_iff in HK. destruct HK as [Hk Hr].
  unfold key_ok in Hk. apply andb_true_iff in Hk. destruct Hk as [Hk _].
  destruct fuel as [| f]; [cbn [length] in HF; lia |].
  destruct r as [| y r'].
  - cbn [map join]. unfold label_chars. cbn [fst snd].
    rewrite <- ?app_assoc. cbn [app]. rewrite <- ?app_assoc. cbn [app parse_labels].
    rewrite (split_on_app "=" k _ Hk). change (Ascii.eqb dq dq) with true. cbv iota.
    rewrite parse_lval_escape.
    change (Ascii.eqb "}" ",") with false. change (Ascii.eqb "}" "}") with true. reflexivity.
  - change (join [","] (map label_chars ((k, v) :: y :: r')))
      with (label_chars (k, v) ++ [","] ++ join [","] (map label_chars (y :: r'))).
    unfold label_chars at 1. cbn [fst snd].
    rewrite <- ?app_assoc. cbn [app]. rewrite <- ?app_assoc. cbn [app parse_labels].
    rewrite (split_on_app "=" k _ Hk). change (Ascii.eqb dq dq) with true. cbv iota.
    rewrite parse_lval_escape.
    change (Ascii.eqb "," ",") with true. cbv iota.
    rewrite (IH rest f ltac:(discriminate) Hr ltac:(cbn [length] in *; lia)). reflexivity.
Qed.

Lemma labels_no_nl ls : labels_ok ls = true -> no_nl (join [","] (map label_chars ls)) = true.
Proof.
  induction ls as [| [k v] r IH]; [reflexivity |].
  cbn [labels_ok forallb fst]. intros H. apply andb_true_iff in H. destruct H as [Hk Hr].
  unfold key_ok in Hk. apply andb_true_iff in Hk. destruct Hk as [_ Hk].
  cbn [map]. rewrite join_cons. unfold no_nl in *. rewrite not_c_app.
  unfold label_chars at 1. cbn [fst snd]. rewrite not_c_app. rewrite Hk. cbn [andb].
  assert (E : not_c nl ("=" :: dq :: escape_label v ++ [dq]) = true).
  { change ("=" :: dq :: escape_label v ++ [dq]) with (["="; dq] ++ escape_label v ++ [dq]).
    rewrite !not_c_app. pose proof (escape_no_nl v) as X. unfold no_nl in X. rewrite X. reflexivity. }
  rewrite E. cbn [andb]. destruct r as [| y r']; [reflexivity |].
  change (match map label_chars (y :: r') with
          | [] => []
          | _ :: _ => [","] ++ join [","] (map label_chars (y :: r'))
          end) with ([","] ++ join [","] (map label_chars (y :: r'))).
  rewrite not_c_app. rewrite (IH Hr). reflexivity.
Qed.

(** * One line *)
Lemma strip_prefix_app p x : strip_prefix p (p ++ x) = Some x.
Proof. induction p as [| c p IH]; cbn [strip_prefix app]; [reflexivity |]. rewrite Ascii.eqb_refl. exact IH. Qed.

Definition name_ok (n : chars) : bool :=
  not_c " " n && not_c "{" n && no_nl n
  && match n with c :: _ => negb (Ascii.eqb "#" c) | [] => false end.

Lemma span_name_app n d rest :
  not_c " " n = true -> not_c "{" n = true -> (d = "{" \/ d = " ") ->
  span_name (n ++ d :: rest) = (n, d :: rest).
Proof.
  intros H1 H2 Hd. induction n as [| c n IH]; cbn [app span_name].
  - destruct Hd as [-> | ->]; reflexivity.
  - unfold not_c in *. cbn [forallb] in *. apply andb_true_iff in H1. apply andb_true_iff in H2.
    destruct H1 as [A1 B1]. destruct H2 as [A2 B2].
    apply negb_true_iff in A1. apply negb_true_iff in A2. rewrite A1, A2. cbn [orb].
    rewrite (IH B1 B2). reflexivity.
Qed.

Definition sample_text (name : chars) (sm : sample) : chars :=
  name ++ (match fst sm with
           | [] => []
           | ls => "{" :: join [","] (map label_chars ls) ++ ["}"]
           end) ++ " " :: snd sm.

Lemma sample_line_text name sm : sample_line name sm = add_nl (sample_text name sm).
Proof.
  unfold sample_line, sample_text, add_nl. rewrite <- !app_assoc. cbn [app]. reflexivity.
Qed.

Definition sample_ok (sm : sample) : bool := labels_ok (fst sm) && tok_ok (snd sm).

Lemma label_chars_len l : (1 <= length (label_chars l))%nat.
Proof. unfold label_chars. rewrite app_length. cbn [length]. lia. Qed.

Lemma join_labels_len ls : (length ls <= length (join [","] (map label_chars ls)))%nat.
Proof.
  induction ls as [| l r IH]; [cbn; lia |].
  cbn [map]. rewrite join_cons, app_length. pose proof (label_chars_len l).
  destruct r as [| y r']; [cbn [length]; lia |].
  change (match map label_chars (y :: r') with
          | [] => []
          | _ :: _ => [","] ++ join [","] (map label_chars (y :: r'))
          end) with ([","] ++ join [","] (map label_chars (y :: r'))).
  rewrite app_length. cbn [length] in *. lia.
Qed.

Lemma strip_hash_none p n x :
  match n with c :: _ => negb (Ascii.eqb "#" c) | [] => false end = true ->
  strip_prefix ("#" :: p) (n ++ x) = None.
Proof.
  destruct n as [| c n']; [discriminate |]. intros H. apply negb_true_iff in H.
  cbn [app strip_prefix]. rewrite H. reflexivity.
Qed.

Lemma sample_text_shape n ls v :
  sample_text n (ls, v) =
    n ++ match ls with
         | [] => " " :: v
         | _ => "{" :: join [","] (map label_chars ls) ++ "}" :: " " :: v
         end.
Proof.
  unfold sample_text. cbn [fst snd]. destruct ls; [reflexivity |].
  f_equal. cbn [app]. rewrite <- app_assoc. reflexivity.
Qed.

Lemma parse_line_sample n sm :
  name_ok n = true -> sample_ok sm = true ->
  parse_line (sample_text n sm) = Some (LSample n (fst sm) (snd sm)).
Proof.
  unfold name_ok, sample_ok. intros HN HS. destruct sm as [ls v]. cbn [fst snd] in *.
  apply andb_true_iff in HS. destruct HS as [HL HV].
  apply andb_true_iff in HN. destruct HN as [HN H4]. apply andb_true_iff in HN. destruct HN as [HN H3].
  apply andb_true_iff in HN. destruct HN as [H1 H2].
  unfold tok_ok in HV. apply andb_true_iff in HV. destruct HV as [HV V3].
  apply andb_true_iff in HV. destruct HV as [V1 V2].
  rewrite sample_text_shape. unfold parse_line.
  change (s2c "# HELP ") with ("#" :: s2c " HELP "). change (s2c "# TYPE ") with ("#" :: s2c " TYPE ").
  change (s2c "# UNIT ") with ("#" :: s2c " UNIT "). change (s2c "#") with ("#" :: []).
  rewrite !(strip_hash_none _ n _ H4).
  destruct ls as [| l0 ls'].
  - rewrite (span_name_app n " " v H1 H2 (or_intror eq_refl)).
    destruct n as [| c n']; [discriminate |].
    change (Ascii.eqb " " "{") with false. cbv iota.
    unfold no_space. fold (not_c " " v). rewrite V2. cbn [andb]. rewrite V1. reflexivity.
  - rewrite (span_name_app n "{" _ H1 H2 (or_introl eq_refl)).
    destruct n as [| c n']; [discriminate |].
    change (Ascii.eqb "{" "{") with true. cbv iota.
    rewrite (parse_labels_ok (l0 :: ls') (" " :: v) _ ltac:(discriminate) HL).
    + change (Ascii.eqb " " " ") with true. unfold no_space. fold (not_c " " v). rewrite V2.
      cbn [andb]. rewrite V1. reflexivity.
    + rewrite app_length. pose proof (join_labels_len (l0 :: ls')). lia.
Qed.

Lemma sample_text_no_nl n sm :
  name_ok n = true -> sample_ok sm = true -> no_nl (sample_text n sm) = true.
Proof.
  unfold name_ok, sample_ok. intros HN HS. destruct sm as [ls v]. cbn [fst snd] in *.
  apply andb_true_iff in HS. destruct HS as [HL HV].
  apply andb_true_iff in HN. destruct HN as [HN _]. apply andb_true_iff in HN. destruct HN as [_ H3].
  unfold tok_ok in HV. apply andb_true_iff in HV. destruct HV as [_ V3].
  unfold sample_text, no_nl in *. cbn [fst snd]. rewrite !not_c_app. rewrite H3. cbn [andb].
  assert (E : not_c nl (" " :: v) = true) by (unfold not_c in *; cbn [forallb]; rewrite V3; reflexivity).
  rewrite E, andb_true_r. destruct ls as [| l0 ls']; [reflexivity |].
  change ("{" :: join [","] (map label_chars (l0 :: ls')) ++ ["}"])
    with (["{"] ++ join [","] (map label_chars (l0 :: ls')) ++ ["}"]).
  rewrite !not_c_app. pose proof (labels_no_nl _ HL) as X. unfold no_nl in X. rewrite X. reflexivity.
Qed.

Lemma parse_line_help n t :
  not_c " " n = true ->
  parse_line (s2c "# HELP " ++ n ++ " " :: t) = Some (LHelp n t).
Proof.
  intros H. unfold parse_line. rewrite strip_prefix_app. rewrite (split_on_app " " n t H). reflexivity.
Qed.

Lemma parse_line_type n t :
  not_c " " n = true ->
  parse_line (s2c "# TYPE " ++ n ++ " " :: t) = Some (LType n t).
Proof.
  intros H. unfold parse_line.
  change (strip_prefix (s2c "# HELP ") (s2c "# TYPE " ++ n ++ " " :: t)) with (@None chars).
  rewrite strip_prefix_app. rewrite (split_on_app " " n t H). reflexivity.
Qed.

Lemma parse_line_unit n t :
  not_c " " n = true ->
  parse_line (s2c "# UNIT " ++ n ++ " " :: t) = Some (LUnit n t).
Proof.
  intros H. unfold parse_line.
  change (strip_prefix (s2c "# HELP ") (s2c "# UNIT " ++ n ++ " " :: t)) with (@None chars).
  change (strip_prefix (s2c "# TYPE ") (s2c "# UNIT " ++ n ++ " " :: t)) with (@None chars).
  rewrite strip_prefix_app. rewrite (split_on_app " " n t H). reflexivity.
Qed.

Lemma parse_line_eof : parse_line (s2c trailer) = Some LEof /\ no_nl (s2c trailer) = true.
Proof. vm_compute. split; reflexivity. Qed.

(** * One metric family *)
Definition metric_lines (m : metric) (sms : list sample) : list chars :=
  let n := full_name m in
  (s2c "# HELP " ++ n ++ " " :: s2c (m_help m) ++ ["."])
  :: (s2c "# TYPE " ++ n ++ " " :: s2c (mtype_str (m_type m)))
  :: (match m_unit m with
      | Some u => [s2c "# UNIT " ++ n ++ " " :: s2c (unit_str u)]
      | None => []
      end) ++ map (sample_text n) sms.

Definition metric_elines (m : metric) (sms : list sample) : list eline :=
  let n := full_name m in
  LHelp n (s2c (m_help m) ++ ["."])
  :: LType n (s2c (mtype_str (m_type m)))
  :: (match m_unit m with Some u => [LUnit n (s2c (unit_str u))] | None => [] end)
  ++ map (fun sm => LSample n (fst sm) (snd sm)) sms.

Lemma concat_map_sample_line n sms :
  concat (map (sample_line n) sms) = concat (map add_nl (map (sample_text n) sms)).
Proof.
  induction sms as [| sm r IH]; [reflexivity |]. cbn [map concat]. rewrite sample_line_text, IH.
  reflexivity.
Qed.

Lemma metric_chars_lines m sms :
  metric_chars m sms = concat (map add_nl (metric_lines m sms)).
Proof.
  unfold metric_chars, metric_lines. cbv zeta. rewrite concat_map_sample_line.
  destruct (m_unit m); cbn [map concat app]; unfold add_nl;
    repeat first [rewrite <- app_assoc | progress cbn [app]]; reflexivity.
Qed.

(** format of a table row: name without space / brace / newline, not starting
    with '#'; help text, type and unit strings without newline *)
Definition row_fmt_ok (m : metric) : bool :=
  name_ok (full_name m) && no_nl (s2c (m_help m)) && no_nl (s2c (mtype_str (m_type m)))
  && match m_unit m with Some u => no_nl (s2c (unit_str u)) | None => true end.

Lemma table_fmt_ok : forall m, In m metric_table -> row_fmt_ok m = true.
Proof.
  assert (H : forallb row_fmt_ok metric_table = true) by (vm_compute; reflexivity).
  intros m Hm. rewrite forallb_forall in H. exact (H m Hm).
Qed.

Lemma all_some_map_some {A} (l : list A) : all_some (map Some l) = Some l.
Proof. induction l; cbn [map all_some]; [reflexivity | rewrite IHl; reflexivity]. Qed.

Lemma metric_lines_parse m sms :
  row_fmt_ok m = true -> forallb sample_ok sms = true ->
  map parse_line (metric_lines m sms) = map Some (metric_elines m sms)
  /\ forallb no_nl (metric_lines m sms) = true.
Proof.
  unfold row_fmt_ok. intros HR HS. split_wf.
  match goal with H : name_ok _ = true |- _ => rename H into HN end.
  assert (HSP : not_c " " (full_name m) = true).
  { unfold name_ok in HN. split_wf. assumption. }
  assert (HNL : no_nl (full_name m) = true).
  { unfold name_ok in HN. split_wf. assumption. }
  unfold metric_lines, metric_elines. cbv zeta. cbn [map forallb].
  rewrite parse_line_help, parse_line_type by exact HSP.
  rewrite !map_app, forallb_app.
  assert (S1 : map parse_line (map (sample_text (full_name m)) sms)
               = map Some (map (fun sm => LSample (full_name m) (fst sm) (snd sm)) sms)
               /\ forallb no_nl (map (sample_text (full_name m)) sms) = true).
  { clear - HN HS. induction sms as [| sm r IH]; [split; reflexivity |].
    cbn [forallb] in HS. apply andb_true_iff in HS. destruct HS as [Hs Hr].
    destruct (IH Hr) as [I1 I2]. cbn [map forallb].
    rewrite (parse_line_sample _ _ HN Hs), I1, (sample_text_no_nl _ _ HN Hs), I2. split; reflexivity. }
  destruct S1 as [S1 S2].
  assert (L1 : no_nl (s2c "# HELP " ++ full_name m ++ " " :: s2c (m_help m) ++ ["."]) = true).
  { unfold no_nl in *. change (" " :: s2c (m_help m) ++ ["."]) with ([" "] ++ s2c (m_help m) ++ ["."]).
    rewrite !not_c_app. rewrite HNL.
    match goal with H : not_c nl (s2c (m_help m)) = true |- _ => rewrite H end. reflexivity. }
  assert (L2 : no_nl (s2c "# TYPE " ++ full_name m ++ " " :: s2c (mtype_str (m_type m))) = true).
  { unfold no_nl in *. change (" " :: s2c (mtype_str (m_type m))) with ([" "] ++ s2c (mtype_str (m_type m))).
    rewrite !not_c_app. rewrite HNL.
    match goal with H : not_c nl (s2c (mtype_str (m_type m))) = true |- _ => rewrite H end. reflexivity. }
  rewrite L1, L2. cbn [andb].
  destruct (m_unit m) as [u |].
  - cbn [map forallb app]. rewrite parse_line_unit by exact HSP.
    assert (L3 : no_nl (s2c "# UNIT " ++ full_name m ++ " " :: s2c (unit_str u)) = true).
    { unfold no_nl in *. change (" " :: s2c (unit_str u)) with ([" "] ++ s2c (unit_str u)).
      rewrite !not_c_app. rewrite HNL.
      match goal with H : not_c nl (s2c (unit_str u)) = true |- _ => rewrite H end. reflexivity. }
    rewrite L3. cbn [andb]. split; [do 3 f_equal; exact S1 | exact S2].
  - cbn [map forallb app]. split; [do 2 f_equal; exact S1 | exact S2].
Qed.

(** * What the model serves: label keys are well formed, value tokens are tokens *)

Lemma labels_ok_app a b : labels_ok (a ++ b) = labels_ok a && labels_ok b.
Proof. unfold labels_ok. apply forallb_app. Qed.

Lemma base_labels_ok s : labels_ok (base_labels s) = true.
Proof. reflexivity. Qed.

Lemma group_labels_ok g s ls : group_labels g s = Some ls -> labels_ok ls = true.
Proof.
  unfold group_labels.
  destruct (String.eqb g "format_state"); [intros E; injection E as <-; reflexivity |].
  destruct (String.eqb g "format_parent_ds").
  - intros E; injection E as <-. reflexivity.
  - match goal with |- (if ?b then _ else _) = _ -> _ => destruct b end;
      intros E; [injection E as <- | discriminate]. apply base_labels_ok.
Qed.

Lemma path_samples_ok ls l : forall i,
  labels_ok ls = true -> forallb sample_ok (path_samples ls l i) = true.
Proof.
  induction l as [| id r IH]; intros i HL; cbn [path_samples forallb].
  - unfold sample_ok. cbn [fst snd]. rewrite labels_ok_app, HL, tok_ok_print_int. reflexivity.
  - unfold sample_ok at 1. cbn [fst snd]. rewrite labels_ok_app, HL, tok_ok_print_int.
    cbn [andb labels_ok forallb fst lbl]. rewrite (IH (i + 1)%Z HL). reflexivity.
Qed.

Lemma port_label_ok p : labels_ok [port_label p] = true.
Proof. reflexivity. Qed.

Lemma port_state_samples_ok ls ps l :
  labels_ok ls = true -> port_state_samples ls ps = Some l -> forallb sample_ok l = true.
Proof.
  unfold port_state_samples. intros HL. revert l.
  induction ps as [| p r IH]; intros l; cbn [map all_some].
  - intros E; inversion E; reflexivity.
  - destruct (lookup (pd_state p) port_state_table) as [z |]; [| discriminate].
    destruct (all_some _) as [l' |] eqn:E'; [| discriminate].
    intros E; inversion E; subst. cbn [forallb]. rewrite (IH l' eq_refl).
    unfold sample_ok. cbn [fst snd]. rewrite labels_ok_app, HL, port_label_ok, tok_ok_print_int.
    reflexivity.
Qed.

Lemma link_samples_ok ls ps : forall toks l,
  labels_ok ls = true -> forallb tok_ok toks = true ->
  link_samples ls ps toks = Some l -> forallb sample_ok l = true.
Proof.
  induction ps as [| p r IH]; intros toks l HL HT; cbn [link_samples].
  - destruct toks; [intros E; inversion E; reflexivity | discriminate].
  - destruct (pd_mech p); try (apply IH; assumption).
    destruct toks as [| t tr]; [discriminate |].
    cbn [forallb] in HT. apply andb_true_iff in HT. destruct HT as [Ht Htr].
    destruct (link_samples ls r tr) as [l' |] eqn:E'; [| discriminate].
    intros E; inversion E; subst. cbn [forallb]. rewrite (IH tr l' HL Htr E').
    unfold sample_ok. cbn [fst snd]. rewrite labels_ok_app, HL, port_label_ok, Ht. reflexivity.
Qed.

Lemma scalar_tok_ok src s ft v b t :
  toks_ok ft = true -> scalar_src src s ft = Some v -> sval_chars b v = Some t -> tok_ok t = true.
Proof.
  unfold toks_ok. intros HT. split_wf.
  intros HS HV. destruct v as [z | bb | tk].
  - destruct b; cbn in HV; inversion HV. apply tok_ok_print_int.
  - destruct b; cbn in HV; inversion HV. apply tok_ok_print_int.
  - destruct b; cbn in HV; inversion HV; subst t.
    unfold scalar_src in HS.
    repeat match type of HS with
           | (if ?c then _ else _) = _ => destruct c
           end;
      try (inversion HS; subst; assumption);
      try discriminate;
      try (match type of HS with
           | match ?o with Some _ => _ | None => _ end = _ => destruct o; discriminate
           end).
Qed.

Lemma metric_samples_ok m s ft sms :
  toks_ok ft = true -> metric_samples m s ft = Some (Some sms) -> forallb sample_ok sms = true.
Proof.
  intros HT. unfold metric_samples.
  destruct (group_labels (m_group m) s) as [ls |] eqn:G; [| discriminate].
  pose proof (group_labels_ok _ _ _ G) as HL.
  destruct (str_list_eqb (m_src m) ["steps_removed"; "path_trace_ds.list.len()"]%string).
  { destruct (m_bool m || negb (String.eqb (m_cond m) "")); [discriminate |].
    intros E; inversion E. apply path_samples_ok; exact HL. }
  destruct (str_list_eqb (m_src m) ["port_ds.port_state as u8"%string]).
  { destruct (m_bool m || negb (String.eqb (m_cond m) "")); [discriminate |].
    destruct (port_state_samples ls (ports s)) as [l |] eqn:E'; [| discriminate].
    intros E; inversion E; subst. eapply port_state_samples_ok; eauto. }
  destruct (str_list_eqb (m_src m) ["mean_link_delay.to_nanos()"%string]).
  { destruct (m_bool m || negb (String.eqb (m_cond m) "")); [discriminate |].
    destruct (link_samples ls (ports s) (ft_links_ns ft)) as [l |] eqn:E'; [| discriminate].
    intros E; inversion E; subst. eapply link_samples_ok; eauto.
    unfold toks_ok in HT. split_wf. assumption. }
  destruct (m_src m) as [| src [| ? ?]]; try discriminate.
  match goal with |- match ?x with _ => _ end = _ -> _ => destruct x as [[|] |] end; try discriminate.
  destruct (scalar_src src s ft) as [v |] eqn:SV; [| discriminate].
  destruct (sval_chars (m_bool m) v) as [t |] eqn:SC; [| discriminate].
  intros E; inversion E; subst. cbn [forallb]. unfold sample_ok. cbn [fst snd].
  rewrite HL, (scalar_tok_ok _ _ _ _ _ _ HT SV SC). reflexivity.
Qed.

(** * The whole body *)

(** the families that are served, in order *)
Fixpoint body_struct (t : list metric) (s : obs_state) (ft : ftoks)
  : option (list (metric * list sample)) :=
  match t with
  | [] => Some []
  | m :: r =>
      match metric_samples m s ft, body_struct r s ft with
      | Some (Some sms), Some rest => Some ((m, sms) :: rest)
      | Some None, Some rest => Some rest
      | _, _ => None
      end
  end.

Definition struct_lines (l : list (metric * list sample)) : list chars :=
  concat (map (fun p => metric_lines (fst p) (snd p)) l) ++ [s2c trailer].

Definition struct_elines (l : list (metric * list sample)) : list eline :=
  concat (map (fun p => metric_elines (fst p) (snd p)) l) ++ [LEof].

Lemma concat_add_nl_app a b :
  concat (map add_nl (a ++ b)) = concat (map add_nl a) ++ concat (map add_nl b).
Proof. rewrite map_app, concat_app. reflexivity. Qed.

Lemma body_of_struct t s ft :
  body_of t s ft =
    match body_struct t s ft with
    | Some l => Some (concat (map add_nl (struct_lines l)))
    | None => None
    end.
Proof.
  induction t as [| m r IH]; cbn [body_of body_struct].
  - unfold struct_lines. cbn [map concat app]. unfold add_nl. rewrite app_nil_r. reflexivity.
  - rewrite IH. destruct (metric_samples m s ft) as [[sms |] |]; [| | reflexivity].
    + destruct (body_struct r s ft) as [l |]; [| reflexivity].
      assert (E : struct_lines ((m, sms) :: l) = metric_lines m sms ++ struct_lines l).
      { unfold struct_lines. cbn [map concat fst snd]. rewrite <- app_assoc. reflexivity. }
      rewrite E, (concat_add_nl_app (metric_lines m sms) (struct_lines l)), metric_chars_lines.
      reflexivity.
    + destruct (body_struct r s ft); reflexivity.
Qed.

Lemma body_struct_ok t s ft l :
  (forall m, In m t -> row_fmt_ok m = true) -> toks_ok ft = true ->
  body_struct t s ft = Some l ->
  Forall (fun p => row_fmt_ok (fst p) = true /\ forallb sample_ok (snd p) = true) l.
Proof.
  intros HR HT. revert l. induction t as [| m r IH]; intros l; cbn [body_struct].
  - intros E; injection E as <-. constructor.
  - assert (HR' : forall m0, In m0 r -> row_fmt_ok m0 = true) by (intros; apply HR; right; assumption).
    destruct (metric_samples m s ft) as [[sms |] |] eqn:MS; [| | discriminate].
    + destruct (body_struct r s ft) as [l' |]; [| discriminate].
      intros E; injection E as <-. constructor; [| apply IH; auto].
      cbn [fst snd]. split; [apply HR; left; reflexivity | eapply metric_samples_ok; eauto].
    + destruct (body_struct r s ft) as [l' |]; [| discriminate].
      intros E; injection E as <-. apply IH; auto.
Qed.

Lemma struct_lines_cons m sms l :
  struct_lines ((m, sms) :: l) = metric_lines m sms ++ struct_lines l.
Proof. unfold struct_lines. cbn [map concat fst snd]. rewrite <- app_assoc. reflexivity. Qed.

Lemma struct_elines_cons m sms l :
  struct_elines ((m, sms) :: l) = metric_elines m sms ++ struct_elines l.
Proof. unfold struct_elines. cbn [map concat fst snd]. rewrite <- app_assoc. reflexivity. Qed.

Lemma struct_lines_parse l :
  Forall (fun p => row_fmt_ok (fst p) = true /\ forallb sample_ok (snd p) = true) l ->
  map parse_line (struct_lines l) = map Some (struct_elines l)
  /\ forallb no_nl (struct_lines l) = true.
Proof.
  induction l as [| [m sms] r IH]; intros HF.
  - unfold struct_lines, struct_elines. cbn [map concat app forallb].
    destruct parse_line_eof as [E1 E2]. rewrite E1, E2. split; reflexivity.
  - inversion HF as [| ? ? [H1 H2] Hr]; subst. cbn [fst snd] in *.
    destruct (IH Hr) as [I1 I2]. destruct (metric_lines_parse m sms H1 H2) as [M1 M2].
    rewrite struct_lines_cons, struct_elines_cons, !map_app, forallb_app.
    rewrite M1, M2, I1, I2. split; reflexivity.
Qed.

(** render_parses: for EVERY state and all float tokens that are tokens, the
    body the model renders (= the bytes of the real exporter, by the
    correspondence) parses, line by line, to exactly the HELP / TYPE / UNIT
    lines of the served families and one sample (name, labels with escaping
    undone, value token) per measurement, closed by # EOF. *)
Theorem render_parses : forall s ft b,
  toks_ok ft = true -> body_of metric_table s ft = Some b ->
  exists served, body_struct metric_table s ft = Some served
                 /\ parse_expo b = Some (struct_elines served).
Proof.
  intros s ft b HT HB. rewrite body_of_struct in HB.
  destruct (body_struct metric_table s ft) as [served |] eqn:BS; [| discriminate].
  injection HB as <-. exists served. split; [reflexivity |].
  pose proof (body_struct_ok metric_table s ft served table_fmt_ok HT BS) as OK.
  destruct (struct_lines_parse served OK) as [P1 P2].
  unfold parse_expo. rewrite (lines_concat _ P2), P1. apply all_some_map_some.
Qed.

(** * HTTP framing: Content-Length equals the body length *)

Lemma split_at_crlf2_nocr h b :
  not_c cr h = true -> split_at_crlf2 (h ++ crlf ++ crlf ++ b) = Some (h, b).
Proof.
  unfold not_c. induction h as [| c h IH]; intros H.
  - reflexivity.
  - cbn [forallb] in H. apply andb_true_iff in H. destruct H as [Hc Hh]. apply negb_true_iff in Hc.
    cbn [app split_at_crlf2]. unfold crlf at 1 2. cbn [app strip_prefix].
    rewrite Ascii.eqb_sym in Hc. rewrite Hc. rewrite (IH Hh). reflexivity.
Qed.

Lemma digit_not_cr_nl c : is_numch c = true -> Ascii.eqb c cr = false /\ Ascii.eqb c nl = false.
Proof.
  destruct c as [[] [] [] [] [] [] [] []]; cbn; intros H; try discriminate; split; reflexivity.
Qed.

Lemma print_int_no_cr_nl z : not_c cr (print_int z) = true /\ not_c nl (print_int z) = true.
Proof.
  pose proof (print_int_numch z) as F. unfold not_c. induction (print_int z) as [| c l IH].
  - split; reflexivity.
  - cbn [forallb] in *. apply andb_true_iff in F. destruct F as [Fc Fl].
    destruct (digit_not_cr_nl c Fc) as [A B]. destruct (IH Fl) as [I1 I2].
    rewrite A, B, I1, I2. split; reflexivity.
Qed.

Lemma split_crlf_tail t : forall cur,
  not_c nl t = true -> split_crlf t cur = [rev cur ++ t].
Proof.
  unfold not_c. induction t as [| c t IH]; intros cur H; cbn [split_crlf].
  - rewrite app_nil_r. reflexivity.
  - cbn [forallb] in H. apply andb_true_iff in H. destruct H as [Hc Ht]. apply negb_true_iff in Hc.
    rewrite Hc. rewrite (IH (c :: cur) Ht). cbn [rev]. rewrite <- app_assoc. reflexivity.
Qed.

Definition pre (x : chars) (o : option (chars * chars)) : option (chars * chars) :=
  match o with Some (a, b) => Some (x ++ a, b) | None => None end.

Lemma split_step c s : Ascii.eqb cr c = false -> split_at_crlf2 (c :: s) = pre [c] (split_at_crlf2 s).
Proof.
  intros H. cbn [split_at_crlf2]. unfold crlf. cbn [app strip_prefix]. rewrite H.
  destruct (split_at_crlf2 s) as [[a b] |]; reflexivity.
Qed.

Lemma split_skip_line l c rest :
  not_c cr l = true -> Ascii.eqb cr c = false ->
  split_at_crlf2 (l ++ crlf ++ c :: rest) = pre (l ++ crlf) (split_at_crlf2 (c :: rest)).
Proof.
  unfold not_c. intros Hl Hc. induction l as [| x l IH].
  - cbn [app]. unfold crlf. cbn [app].
    assert (E1 : split_at_crlf2 (cr :: nl :: c :: rest) = pre [cr] (split_at_crlf2 (nl :: c :: rest))).
    { cbn [split_at_crlf2]. unfold crlf. cbn [app strip_prefix].
      change (Ascii.eqb cr cr) with true. change (Ascii.eqb nl nl) with true. cbv iota. rewrite Hc.
      destruct (split_at_crlf2 (nl :: c :: rest)) as [[a b] |]; reflexivity. }
    rewrite E1. rewrite (split_step nl (c :: rest) eq_refl).
    destruct (split_at_crlf2 (c :: rest)) as [[a b] |]; reflexivity.
  - cbn [forallb] in Hl. apply andb_true_iff in Hl. destruct Hl as [Hx Hl]. apply negb_true_iff in Hx.
    cbn [app]. rewrite split_step by (rewrite Ascii.eqb_sym; exact Hx). rewrite (IH Hl).
    destruct (split_at_crlf2 (c :: rest)) as [[a b] |]; reflexivity.
Qed.

Lemma split_crlf_line l rest : forall cur,
  not_c nl l = true ->
  split_crlf (l ++ crlf ++ rest) cur = (rev cur ++ l) :: split_crlf rest [].
Proof.
  unfold not_c. induction l as [| x l IH]; intros cur Hl.
  - cbn [app]. unfold crlf. cbn [app split_crlf].
    change (Ascii.eqb cr nl) with false. change (Ascii.eqb nl nl) with true. cbv iota.
    change (Ascii.eqb cr cr) with true. cbv iota. rewrite app_nil_r. reflexivity.
  - cbn [forallb] in Hl. apply andb_true_iff in Hl. destruct Hl as [Hx Hl]. apply negb_true_iff in Hx.
    cbn [app split_crlf]. rewrite Hx. rewrite (IH (x :: cur) Hl). cbn [rev]. rewrite <- app_assoc.
    reflexivity.
Qed.

(** The response head parses, and the Content-Length value is the decimal
    length of the body - for EVERY body. *)
Theorem content_length_ok : forall b,
  parse_http (http_of b) =
    Some (mkHttp (s2c "HTTP/1.1 200 OK")
                 [(s2c "content-type", s2c "text/plain");
                  (s2c "content-length", print_int (Z.of_nat (length b)))] b).
Proof.
  intros b. unfold parse_http, http_of.
  set (n := print_int (Z.of_nat (length b))).
  destruct (print_int_no_cr_nl (Z.of_nat (length b))) as [NC NN]. fold n in NC, NN.
  set (L1 := s2c "HTTP/1.1 200 OK"). set (L2 := s2c "content-type: text/plain").
  set (L3 := s2c "content-length: " ++ n).
  assert (E : L1 ++ crlf ++ L2 ++ crlf ++ s2c "content-length: " ++ n ++ crlf ++ crlf ++ b
              = L1 ++ crlf ++ L2 ++ crlf ++ L3 ++ crlf ++ crlf ++ b).
  { unfold L3. rewrite <- !app_assoc. reflexivity. }
  rewrite E. clear E.
  assert (C1 : not_c cr L1 = true) by reflexivity.
  assert (C2 : not_c cr L2 = true) by reflexivity.
  assert (C3 : not_c cr L3 = true) by (unfold L3; rewrite not_c_app, NC; reflexivity).
  assert (N1 : not_c nl L1 = true) by reflexivity.
  assert (N2 : not_c nl L2 = true) by reflexivity.
  assert (N3 : not_c nl L3 = true) by (unfold L3; rewrite not_c_app, NN; reflexivity).
  assert (S : split_at_crlf2 (L1 ++ crlf ++ L2 ++ crlf ++ L3 ++ crlf ++ crlf ++ b)
              = Some (L1 ++ crlf ++ L2 ++ crlf ++ L3, b)).
  { change (L2 ++ crlf ++ L3 ++ crlf ++ crlf ++ b)
      with ("c" :: (tl L2 ++ crlf ++ L3 ++ crlf ++ crlf ++ b)).
    rewrite (split_skip_line L1 "c" _ C1 eq_refl).
    change ("c" :: (tl L2 ++ crlf ++ L3 ++ crlf ++ crlf ++ b))
      with (L2 ++ crlf ++ "c" :: (tl L3 ++ crlf ++ crlf ++ b)).
    rewrite (split_skip_line L2 "c" _ C2 eq_refl).
    change ("c" :: (tl L3 ++ crlf ++ crlf ++ b)) with (L3 ++ crlf ++ crlf ++ b).
    rewrite (split_at_crlf2_nocr L3 b C3). unfold pre. rewrite <- !app_assoc. reflexivity. }
  rewrite S.
  rewrite (split_crlf_line L1 _ [] N1), (split_crlf_line L2 _ [] N2), (split_crlf_tail L3 [] N3).
  cbn [rev app map].
  assert (H2 : parse_header L2 = Some (s2c "content-type", s2c "text/plain")) by reflexivity.
  assert (H3 : parse_header L3 = Some (s2c "content-length", n)).
  { unfold L3, parse_header.
    change (s2c "content-length: " ++ n) with (s2c "content-length" ++ ":" :: " " :: n).
    rewrite (split_on_app ":" (s2c "content-length") (" " :: n) eq_refl). reflexivity. }
  rewrite H2, H3. reflexivity.
Qed.
