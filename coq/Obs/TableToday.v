(** C19 — statements about TODAY'S metric table (format.rs as it is): the
    refutations behind the known findings F10 and F11.  This file (and the block
    of Properties/C19.v that cites it) is to be deleted together with the
    `fix:` commits for F10 / F11; everything else keeps checking. *)
From Coq Require Import Ascii String.
From SV Require Import Obs.MetricSpec Obs.ObsCases.

(** TODAY'S TABLE: the honest statement "every row is right" is refuted, by
    exactly these rows (F11: the two _nanoseconds rows fed by .seconds();
    F10: the four boolean rows, format_bool! maps true to 0). *)
Lemma table_all_rows_ok_refuted :
  defective_rows =
    [("offset_from_master", 2); ("mean_delay", 2); ("time_traceable", 1);
     ("frequency_traceable", 1); ("ptp_timescale", 1); ("path_trace_enable", 1)]%string.
Proof. vm_compute. reflexivity. Qed.

Lemma format_bool_refuted : bool_enc_true = 0 /\ bool_enc_false = 1.
Proof. split; reflexivity. Qed.

Lemma nanoseconds_name_refuted :
  exists m, In m metric_table /\ m_name m = "offset_from_master"%string /\
            m_unit m = Some Nanoseconds /\
            m_src m = ["current_ds.offset_from_master.seconds()"%string] /\
            src_unit "current_ds.offset_from_master.seconds()" = Some (Some Seconds).
Proof.
  eexists. split.
  - do 8 right. left. reflexivity.
  - cbn. repeat split; reflexivity.
Qed.

Lemma today_findings :
  (match render ex_state ex_toks with
   | Some r => response_findings ex_state (print (to_json ex_state)) r | None => [] end)
  = [-1; -1; -1; -1; -1; -1; -1; -1; 2; 2; -1; -1; -1; -1; -1; -1; 1; 1; 1; -1; 1; -1; -1; -1; -1; -1].
Proof. vm_compute. reflexivity. Qed.
