(** Proofs about the time model (C16). *)
From SV Require Import Time.TimeCases.

Local Ltac unfold_consts :=
  unfold PTP_MAX, DUR_MAX, FRAC, NS_PER_S in *.

Lemma in_u_true bits x : in_u bits x = true <-> 0 <= x < 2 ^ bits.
Proof. unfold in_u; lia. Qed.
Lemma in_i_true bits x : in_i bits x = true <-> - 2 ^ (bits - 1) <= x < 2 ^ (bits - 1).
Proof. unfold in_i; lia. Qed.

Lemma chk_u_ok s bits x : 0 <= x < 2 ^ bits -> chk_u s bits x = Ok x.
Proof. intros H; unfold chk_u. rewrite (proj2 (in_u_true bits x) H); reflexivity. Qed.
Lemma chk_i_ok s bits x : - 2 ^ (bits - 1) <= x < 2 ^ (bits - 1) -> chk_i s bits x = Ok x.
Proof. intros H; unfold chk_i. rewrite (proj2 (in_i_true bits x) H); reflexivity. Qed.

(** Numerals used below, evaluated once. *)
Lemma P128 : 2 ^ 128 = 340282366920938463463374607431768211456. Proof. reflexivity. Qed.
Lemma P127 : 2 ^ 127 = 170141183460469231731687303715884105728. Proof. reflexivity. Qed.
Lemma P64 : 2 ^ 64 = 18446744073709551616. Proof. reflexivity. Qed.
Lemma P63 : 2 ^ 63 = 9223372036854775808. Proof. reflexivity. Qed.
Lemma P48 : 2 ^ 48 = 281474976710656. Proof. reflexivity. Qed.
Lemma P47 : 2 ^ 47 = 140737488355328. Proof. reflexivity. Qed.
Lemma P32 : 2 ^ 32 = 4294967296. Proof. reflexivity. Qed.
Lemma P16 : 2 ^ 16 = 65536. Proof. reflexivity. Qed.

Ltac pv :=
  change (128 - 1) with 127 in *; change (64 - 1) with 63 in *;
  rewrite ?P128, ?P127, ?P64, ?P63, ?P48, ?P47, ?P32, ?P16 in *.

(** 1. wire round trip *)
Lemma wire_roundtrip t :
  in_ptp t = true ->
  exists s n t',
    time_to_wire t = Ok (s, n) /\ time_from_wire s n = Ok t' /\
    0 <= s < 2 ^ 48 /\ 0 <= n < NS_PER_S /\ 0 <= time_subnano t < 2 ^ 16 /\
    t' = (s * NS_PER_S + n) * FRAC /\
    t' + time_subnano t * 2 ^ 16 = t - t mod 2 ^ 16.
Proof.
  unfold in_ptp; unfold_consts; intros H.
  set (M := 1000000000 * 2 ^ 32).
  assert (HM : M = 1000000000 * 4294967296) by reflexivity.
  assert (Hs0 : t * 2 ^ 32 / (1000000000 * 2 ^ 32) = t / 1000000000).
  { rewrite Z.div_mul_cancel_r by (pv; lia). reflexivity. }
  assert (Hs1 : t / 1000000000 / 2 ^ 32 = t / M).
  { rewrite Z.div_div by (pv; lia). reflexivity. }
  assert (Hf1 : t mod 2 ^ 32 = (t mod M) mod 2 ^ 32).
  { apply Znumtheory.Zmod_div_mod; [pv; lia | lia |]. exists 1000000000. reflexivity. }
  assert (Hf2 : t mod 2 ^ 16 = (t mod 2 ^ 32) mod 2 ^ 16).
  { apply Znumtheory.Zmod_div_mod; [pv; lia | pv; lia |]. exists (2 ^ 16). reflexivity. }
  set (s := t / M) in *.
  set (r := t mod M) in *.
  assert (Ht : t = M * s + r /\ 0 <= r < M).
  { subst s r. pose proof (Z.div_mod t M ltac:(lia)). pose proof (Z.mod_pos_bound t M ltac:(lia)). lia. }
  set (n := r / 2 ^ 32).
  set (f := r mod 2 ^ 32) in *.
  assert (Hr : r = 2 ^ 32 * n + f /\ 0 <= f < 2 ^ 32).
  { subst n f. pose proof (Z.div_mod r (2 ^ 32) ltac:(pv; lia)). pose proof (Z.mod_pos_bound r (2 ^ 32) ltac:(pv; lia)). lia. }
  set (g := f / 2 ^ 16).
  set (h := f mod 2 ^ 16) in *.
  assert (Hg : f = 2 ^ 16 * g + h /\ 0 <= h < 2 ^ 16).
  { subst g h. pose proof (Z.div_mod f (2 ^ 16) ltac:(pv; lia)). pose proof (Z.mod_pos_bound f (2 ^ 16) ltac:(pv; lia)). lia. }
  exists s, n, ((s * 1000000000 + n) * 2 ^ 32).
  unfold time_to_wire, time_secs, time_subsec_nanos, time_from_wire, time_from_i128_nanos, time_subnano.
  unfold_consts. rewrite Hs0. fold M. fold r. fold n. rewrite Hs1. rewrite Hf1. fold f. fold g.
  clearbody s r n f g h. clear Hs0 Hs1 Hf1.
  pv.
  rewrite (chk_u_ok _ 128) by (pv; lia). cbn [obind].
  rewrite (chk_u_ok _ 64) by (pv; lia). cbn [obind].
  rewrite (chk_u_ok _ 32) by (pv; lia). cbn [obind].
  rewrite (chk_u_ok _ 128) by (pv; lia).
  rewrite Hf2.
  repeat split; try lia.
Qed.

(** 2. add / sub of a duration *)
Lemma add_sub_exact t d :
  in_ptp t = true -> in_dur d = true -> 0 <= t + d ->
  exists t1, time_add_dur t d = Ok t1 /\ t1 = t + d /\ time_sub_dur t1 d = Ok t.
Proof.
  unfold in_ptp, in_dur; unfold_consts; intros Ht Hd Hs. pv.
  exists (t + d). unfold time_sub_dur, dur_neg.
  rewrite (chk_i_ok _ 128) by (pv; lia). cbn [obind]. unfold time_add_dur, TIME_MAX. pv.
  destruct (d <? 0) eqn:E1; destruct (- d <? 0) eqn:E2; try lia;
    repeat split; f_equal; lia.
Qed.

Lemma sub_add_exact t d :
  in_ptp t = true -> in_dur d = true -> 0 <= t - d ->
  exists t1, time_sub_dur t d = Ok t1 /\ t1 = t - d /\ time_add_dur t1 d = Ok t.
Proof.
  unfold in_ptp, in_dur; unfold_consts; intros Ht Hd Hs. pv.
  exists (t - d). unfold time_sub_dur, dur_neg.
  rewrite (chk_i_ok _ 128) by (pv; lia). cbn [obind]. unfold time_add_dur, TIME_MAX. pv.
  destruct (d <? 0) eqn:E1; destruct (- d <? 0) eqn:E2; try lia;
    repeat split; f_equal; lia.
Qed.

(** Time +/- Duration never fails and never leaves the representable range
    (saturation instead of wrap-around). *)
Lemma time_add_dur_total t d :
  time_ok t = true -> exists r, time_add_dur t d = Ok r /\ time_ok r = true.
Proof.
  unfold time_ok. rewrite in_u_true. intros Ht. unfold time_add_dur, TIME_MAX.
  destruct (d <? 0); eexists; (split; [reflexivity|]); rewrite in_u_true; pv; lia.
Qed.

(** 3. difference of two times *)
Lemma diff_exact a b :
  in_ptp a = true -> in_ptp b = true -> time_diff a b = Ok (a - b).
Proof.
  unfold in_ptp; unfold_consts; intros Ha Hb. pv.
  unfold time_diff, dur_from_time, dur_sub, dur_neg, dur_add.
  repeat (rewrite (chk_i_ok _ 128) by (pv; lia); cbn [obind]).
  f_equal; lia.
Qed.

(** 4. TimeInterval -> Duration -> TimeInterval is the identity on all 2^64 patterns *)
Lemma ti_roundtrip i : ti_ok i = true -> dur_to_ti (ti_to_dur i) = i.
Proof.
  unfold ti_ok, dur_to_ti, ti_to_dur; intros H.
  rewrite Z.div_mul by (pv; lia). apply wrap_i_id; [lia | exact H].
Qed.

Lemma ti_to_dur_fits i : ti_ok i = true -> dur_ok (ti_to_dur i) = true.
Proof. unfold ti_ok, dur_ok, ti_to_dur; rewrite !in_i_true; pv; lia. Qed.

(** 5. Duration -> TimeInterval is floor to 2^-16 ns inside the I48F16 range *)
Lemma dur_to_ti_floor d :
  - 2 ^ 47 * FRAC <= d < 2 ^ 47 * FRAC ->
  dur_to_ti d * 2 ^ 16 <= d < (dur_to_ti d + 1) * 2 ^ 16 /\ ti_ok (dur_to_ti d) = true.
Proof.
  unfold_consts; intros H.
  assert (Hi : dur_to_ti d = d / 2 ^ 16).
  { unfold dur_to_ti. apply wrap_i_id; [lia|]. rewrite in_i_true. pv. lia. }
  rewrite Hi. unfold ti_ok. rewrite in_i_true. pv. lia.
Qed.

(** Outside that range the conversion wraps (it is `as i64`): witness. *)
Lemma dur_to_ti_wraps_outside : dur_to_ti (2 ^ 47 * FRAC) = - 2 ^ 63.
Proof. reflexivity. Qed.

(** 6. log intervals: the domain is finite (i8), so the statement is decided
    by evaluation over all 256 values and lifted with [forallb_forall]. *)
Definition i8_values : list Z := map (fun k => Z.of_nat k - 128) (seq 0 256).
Lemma i8_values_complete n : in_i 8 n = true -> In n i8_values.
Proof.
  rewrite in_i_true. intros H. unfold i8_values. apply in_map_iff.
  exists (Z.to_nat (n + 128)). split; [lia|]. apply in_seq.
  change (2 ^ (8 - 1)) with 128 in H. lia.
Qed.

Definition log_case_ok (n : Z) : bool :=
  (66 <=? n) || ok_C16 (LogInt n) (to_opt (run_top (LogInt n))).
Lemma log_cases_all : forallb log_case_ok i8_values = true.
Proof. vm_compute. reflexivity. Qed.

Lemma log_interval_exact n :
  in_i 8 n = true -> n < 66 ->
  ok_C16 (LogInt n) (to_opt (run_top (LogInt n))) = true.
Proof.
  intros Hn Hlt. pose proof (proj1 (forallb_forall _ _) log_cases_all n (i8_values_complete n Hn)) as H.
  unfold log_case_ok in H. destruct (66 <=? n) eqn:E; [lia|]. exact H.
Qed.

Lemma log_interval_exact_explicit n :
  -41 <= n <= 65 -> dur_from_log_interval n = Ok (2 ^ n * NS_PER_S * FRAC)%Z \/ n < 0.
Proof.
  intros H. destruct (Z.ltb_spec n 0); [right; lia|left].
  assert (Hin : in_i 8 n = true) by (rewrite in_i_true; change (2 ^ (8 - 1)) with 128; lia).
  pose proof (log_interval_exact n Hin ltac:(lia)) as Hk.
  unfold ok_C16 in Hk. rewrite Hin in Hk. cbn [run_top] in Hk.
  destruct (dur_from_log_interval n) as [d|s] eqn:E; cbn in Hk; [|discriminate].
  destruct (-41 <=? n) eqn:E2; [|lia].
  f_equal. apply Z.eqb_eq in Hk. rewrite Hk. unfold NS_PER_S, FRAC.
  rewrite Z.pow_add_r by lia. change (2 ^ 41) with (512 * 2 ^ 32). lia.
Qed.

(** F18: the refuted full statement — from_log_interval 66 overflows. *)
Lemma log_interval_66_refuted : dur_from_log_interval 66 = Panic site_to_fixed.
Proof. vm_compute. reflexivity. Qed.

(** Duration arithmetic *)
Lemma dur_arith_exact a b :
  in_dur a = true -> in_dur b = true ->
  dur_add a b = Ok (a + b) /\ dur_sub a b = Ok (a - b) /\ dur_neg a = Ok (- a).
Proof.
  unfold in_dur; unfold_consts; intros Ha Hb. pv.
  unfold dur_sub, dur_neg, dur_add.
  repeat (rewrite (chk_i_ok _ 128) by (pv; lia); cbn [obind]).
  repeat split; f_equal; lia.
Qed.

(** From the wire *)
Lemma from_wire_exact s n :
  in_u 48 s = true -> 0 <= n < NS_PER_S ->
  time_from_wire s n = Ok ((s * NS_PER_S + n) * FRAC).
Proof.
  rewrite in_u_true; unfold_consts; intros Hs Hn. pv.
  unfold time_from_wire, time_from_i128_nanos. unfold_consts.
  rewrite (chk_u_ok _ 128) by (pv; lia). reflexivity.
Qed.

(** The uniform statement: on every case outside the known-finding class the
    model's output satisfies the property oracle. *)
Lemma C16_all o :
  kf_C16 (o, false, to_opt (run_top o)) = 0 -> ok_C16 o (to_opt (run_top o)) = true.
Proof.
  destruct o as [t|s n|t d|t d|a b|i|d|n|a b|d n|d]; intros Hkf; cbn [ok_C16].
  - destruct (in_ptp t) eqn:Hp; [|reflexivity].
    destruct (wire_roundtrip t Hp) as (s & n & t' & H1 & H2 & Hs & Hn & Hf & Ht' & Heq).
    cbn [run_top]. rewrite H1. cbn [obind fst snd]. rewrite H2. cbn [obind to_opt].
    rewrite (proj2 (in_u_true 48 s) Hs). unfold NS_PER_S, FRAC in *. lia.
  - destruct (in_u 48 s && (0 <=? n) && (n <? NS_PER_S)) eqn:Hp; [|reflexivity].
    apply andb_true_iff in Hp as [Hp Hc]; apply andb_true_iff in Hp as [Ha Hb].
    cbn [run_top]. rewrite from_wire_exact by (assumption || lia). cbn [obind to_opt]. lia.
  - destruct (in_ptp t && in_dur d) eqn:Hp; [|reflexivity].
    apply andb_true_iff in Hp as [Ha Hb].
    destruct (0 <=? t + d) eqn:Hc.
    + destruct (add_sub_exact t d Ha Hb ltac:(lia)) as (t1 & H1 & H2 & H3).
      cbn [run_top]. rewrite H1. cbn [obind]. rewrite H3. cbn [obind to_opt]. lia.
    + cbn [run_top]. unfold time_add_dur at 1.
      assert (Hd : d <? 0 = true) by (unfold in_ptp in Ha; lia). rewrite Hd. cbn [obind].
      unfold in_ptp, in_dur in *. unfold_consts. pv.
      unfold time_sub_dur, dur_neg. rewrite (chk_i_ok _ 128) by (pv; lia). cbn [obind].
      unfold time_add_dur. destruct (- d <? 0); cbn [obind to_opt]; lia.
  - destruct (in_ptp t && in_dur d) eqn:Hp; [|reflexivity].
    apply andb_true_iff in Hp as [Ha Hb].
    destruct (0 <=? t - d) eqn:Hc.
    + destruct (sub_add_exact t d Ha Hb ltac:(lia)) as (t1 & H1 & H2 & H3).
      cbn [run_top]. rewrite H1. cbn [obind]. rewrite H3. cbn [obind to_opt]. lia.
    + cbn [run_top]. unfold in_ptp, in_dur in *. unfold_consts. pv.
      unfold time_sub_dur at 1, dur_neg. rewrite (chk_i_ok _ 128) by (pv; lia). cbn [obind].
      unfold time_add_dur at 1. assert (Hd : - d <? 0 = true) by lia. rewrite Hd. cbn [obind].
      unfold time_add_dur. destruct (d <? 0); cbn [obind to_opt]; lia.
  - destruct (in_ptp a && in_ptp b) eqn:Hp; [|reflexivity].
    apply andb_true_iff in Hp as [Ha Hb].
    cbn [run_top]. rewrite diff_exact by assumption. cbn [obind to_opt]. lia.
  - destruct (ti_ok i) eqn:Hp; [|reflexivity].
    cbn [run_top to_opt]. rewrite ti_roundtrip by assumption. unfold ti_to_dur. lia.
  - destruct ((- 2 ^ 47 * FRAC <=? d) && (d <? 2 ^ 47 * FRAC)) eqn:Hp; [|reflexivity].
    cbn [run_top to_opt]. pose proof (dur_to_ti_floor d ltac:(lia)) as H.
    unfold ti_to_dur. lia.
  - destruct (in_i 8 n) eqn:Hp; [|reflexivity].
    cbn [kf_C16 fst] in Hkf. destruct (66 <=? n) eqn:E; [discriminate|].
    pose proof (log_interval_exact n Hp ltac:(lia)) as H. cbn [ok_C16] in H. rewrite Hp in H. exact H.
  - destruct (in_dur a && in_dur b) eqn:Hp; [|reflexivity].
    apply andb_true_iff in Hp as [Ha Hb].
    destruct (dur_arith_exact a b Ha Hb) as (H1 & H2 & H3).
    cbn [run_top]. rewrite H1, H2, H3. cbn [obind to_opt]. lia.
  - reflexivity.
  - reflexivity.
Qed.
