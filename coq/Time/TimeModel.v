(** Model of statime/src/time/{instant,duration,interval}.rs and of
    datastructures/common/{timestamp,time_interval}.rs on bit patterns.

    Time         = U96F32 : bits in [0, 2^128), value = bits / 2^32 ns
    Duration     = I96F32 : bits in [-2^127, 2^127)
    TimeInterval = I48F16 : bits in [-2^63, 2^63),  value = bits / 2^16 ns

    Semantics of the `fixed` crate as statime uses it (modelled, validated by
    the C16 correspondence run, named in the trusted base):
      a + b, a - b, -a      on bits, overflow = panic(debug)/wrap(release)
      a * b                 floor(a*b / 2^32)
      a / b                 trunc(a*2^32 / b)
      a % b                 Rust remainder on bits (sign of dividend)
      to_num (int)          floor(bits / 2^32), overflow checked
      int.to_fixed          n * 2^32, overflow checked
      float.to_fixed        round to nearest, ties to even, overflow checked *)
From SV Require Export Base.Prelude.

Definition FRAC : Z := 2 ^ 32.
Definition NS_PER_S : Z := 1000000000.

(* panic-site tags *)
Definition site_time_add : nat := 101.
Definition site_time_sub : nat := 102.
Definition site_time_diff : nat := 103.
Definition site_dur_add : nat := 104.
Definition site_dur_neg : nat := 105.
Definition site_to_fixed : nat := 106.
Definition site_to_num : nat := 107.
Definition site_dur_mul : nat := 108.
Definition site_dur_div : nat := 109.

Definition time_ok (t : Z) : bool := in_u 128 t.
Definition dur_ok (d : Z) : bool := in_i 128 d.
Definition ti_ok (i : Z) : bool := in_i 64 i.

(** Time::from_nanos_subnanos / from_nanos / from_secs (u64 inputs never overflow) *)
Definition time_from_nanos_subnanos (nanos subnanos : Z) : Z := nanos * FRAC + subnanos.
Definition time_from_nanos (nanos : Z) : Z := nanos * FRAC.
Definition time_from_secs (secs : Z) : Z := secs * NS_PER_S * FRAC.

(** Time::from_fixed_nanos(i128) *)
Definition time_from_i128_nanos (n : Z) : outcome Z := chk_u site_to_fixed 128 (n * FRAC).

(** wire timestamp = (seconds : u48 on the wire, u64 in memory ; nanos : u32) *)
Definition time_from_wire (secs nanos : Z) : outcome Z :=
  time_from_i128_nanos (secs * NS_PER_S + nanos).

(** Time::secs : (inner / 1e9).to_num::<u64>() *)
Definition time_secs (t : Z) : outcome Z :=
  let q := (t * FRAC) / (NS_PER_S * FRAC) in      (* fixed division, bits of quotient *)
  let! _ := chk_u site_dur_div 128 q in
  chk_u site_to_num 64 (q / FRAC).
(** Time::subsec_nanos : (inner % 1e9).to_num::<u32>() *)
Definition time_subsec_nanos (t : Z) : outcome Z :=
  chk_u site_to_num 32 ((t mod (NS_PER_S * FRAC)) / FRAC).
(** Time::subnano : frac() as I48F16 bits (16 fractional bits kept) *)
Definition time_subnano (t : Z) : Z := (t mod FRAC) / 2 ^ 16.

(** From<Time> for WireTimestamp *)
Definition time_to_wire (t : Z) : outcome (Z * Z) :=
  let! s := time_secs t in
  let! n := time_subsec_nanos t in
  Ok (s, n).

(** Duration *)
Definition dur_neg (d : Z) : outcome Z := chk_i site_dur_neg 128 (- d).
Definition dur_add (a b : Z) : outcome Z := chk_i site_dur_add 128 (a + b).
Definition dur_sub (a b : Z) : outcome Z := let! nb := dur_neg b in dur_add a nb.
Definition dur_from_nanos (n : Z) : Z := n * FRAC.
Definition dur_from_secs (s : Z) : outcome Z := chk_i site_dur_mul 128 ((s * FRAC) * (NS_PER_S * FRAC) / FRAC).
Definition dur_abs (d : Z) : outcome Z := chk_i site_dur_neg 128 (Z.abs d).
(** Duration / integer (TF = integer type): truncating division of bits *)
Definition dur_div_int (d n : Z) : outcome Z :=
  if n =? 0 then Panic site_dur_div else chk_i site_dur_div 128 (Z.quot (d * FRAC) (n * FRAC)).
(** Duration * integer *)
Definition dur_mul_int (d n : Z) : outcome Z := chk_i site_dur_mul 128 ((d * (n * FRAC)) / FRAC).

(** Time + Duration, Time - Duration, Time - Time *)
(** Time + Duration saturates at 0 and at the largest U96F32 value (it used
    to panic / wrap: defect F7, repaired in /repo). *)
Definition TIME_MAX : Z := 2 ^ 128 - 1.
Definition time_add_dur (t d : Z) : outcome Z :=
  if d <? 0 then Ok (Z.max 0 (t - Z.abs d))
  else Ok (Z.min TIME_MAX (t + Z.abs d)).
Definition time_sub_dur (t d : Z) : outcome Z :=
  let! nd := dur_neg d in time_add_dur t nd.
Definition dur_from_time (t : Z) : outcome Z := chk_i site_time_diff 128 t.
Definition time_diff (a b : Z) : outcome Z :=
  let! da := dur_from_time a in
  let! db := dur_from_time b in
  dur_sub da db.

(** TimeInterval <-> Duration *)
Definition ti_to_dur (i : Z) : Z := i * 2 ^ 16.
Definition dur_to_ti (d : Z) : Z := wrap_i 64 (d / 2 ^ 16).     (* `>> 16` then `as i64` *)

(** Duration::from_log_interval.  2^n * 1e9 is exact in binary64 for every i8
    n (1e9 = 2^9 * 1953125, a 21-bit odd factor), so the only rounding is the
    float -> I96F32 conversion: nearest, ties to even, of 1953125 * 2^(n+41). *)
Definition round_half_even_div_pow2 (m k : Z) : Z :=   (* nearest-even of m / 2^k, k > 0 *)
  let q := m / 2 ^ k in
  let r := m mod 2 ^ k in
  if 2 * r <? 2 ^ k then q
  else if 2 ^ k <? 2 * r then q + 1
  else if Z.even q then q else q + 1.
Definition dur_from_log_interval (n : Z) : outcome Z :=
  let e := n + 41 in
  let bits := if 0 <=? e then 1953125 * 2 ^ e else round_half_even_div_pow2 1953125 (- e) in
  chk_i site_to_fixed 128 bits.

(** core::time::Duration from Duration (saturating_to_num::<u64>()) in ns *)
Definition dur_to_core_nanos (d : Z) : Z :=
  let n := d / FRAC in
  if n <? 0 then 0 else if 2 ^ 64 <=? n then 2 ^ 64 - 1 else n.
