(** Executable case format, model runner and property oracle for C16.
    No proofs here: this file must keep compiling when a proof breaks. *)
From SV Require Export Base.Cases Time.TimeModel.

Inductive top :=
| WireRT (t : Z)            (* to_wire, subnano, from_wire : [s; n; f; t'] *)
| FromWire (s n : Z)        (* [t] *)
| AddSub (t d : Z)          (* (t + d) - d : [t1; t2] *)
| SubAdd (t d : Z)          (* (t - d) + d : [t1; t2] *)
| Diff (a b : Z)            (* a - b : [d] *)
| TiRT (i : Z)              (* interval -> duration -> interval : [d; i'] *)
| DurToTi (d : Z)           (* duration -> interval -> duration : [i; d'] *)
| LogInt (n : Z)            (* from_log_interval : [d] *)
| DurArith (a b : Z)        (* [a + b; a - b; -a] *)
| DurDivInt (d n : Z)       (* d / n (integer n) : [q] *)
| CoreNanos (d : Z).        (* core::time::Duration::from(d).as_nanos() : [n] *)

Definition run_top (o : top) : outcome (list Z) :=
  match o with
  | WireRT t =>
      let! sn := time_to_wire t in
      let f := time_subnano t in
      let! t' := time_from_wire (fst sn) (snd sn) in
      Ok [fst sn; snd sn; f; t']
  | FromWire s n => let! t := time_from_wire s n in Ok [t]
  | AddSub t d =>
      let! t1 := time_add_dur t d in
      let! t2 := time_sub_dur t1 d in Ok [t1; t2]
  | SubAdd t d =>
      let! t1 := time_sub_dur t d in
      let! t2 := time_add_dur t1 d in Ok [t1; t2]
  | Diff a b => let! d := time_diff a b in Ok [d]
  | TiRT i => Ok [ti_to_dur i; dur_to_ti (ti_to_dur i)]
  | DurToTi d => Ok [dur_to_ti d; ti_to_dur (dur_to_ti d)]
  | LogInt n => let! d := dur_from_log_interval n in Ok [d]
  | DurArith a b =>
      let! s := dur_add a b in
      let! m := dur_sub a b in
      let! n := dur_neg a in Ok [s; m; n]
  | DurDivInt d n => let! q := dur_div_int d n in Ok [q]
  | CoreNanos d => Ok [dur_to_core_nanos d]
  end.

(** The property, written from its text.  [PTP_MAX] = 2^48 s in bits. *)
Definition PTP_MAX : Z := 2 ^ 48 * NS_PER_S * FRAC.
Definition DUR_MAX : Z := 2 ^ 63 * FRAC.          (* 2^63 ns *)
Definition in_ptp (t : Z) : bool := (0 <=? t) && (t <? PTP_MAX).
Definition in_dur (d : Z) : bool := (- DUR_MAX <=? d) && (d <=? DUR_MAX).

Definition ok_C16 (o : top) (r : option (list Z)) : bool :=
  match o with
  | WireRT t =>
      if in_ptp t then
        match r with
        | Some [s; n; f; t'] =>
            in_u 48 s && (0 <=? n) && (n <? NS_PER_S) && (0 <=? f) && (f <? 2 ^ 16)
            && ((s * NS_PER_S + n) * FRAC + f * 2 ^ 16 =? t - t mod 2 ^ 16)
            && (t' =? (s * NS_PER_S + n) * FRAC)
        | _ => false
        end
      else true
  | FromWire s n =>
      if in_u 48 s && (0 <=? n) && (n <? NS_PER_S) then
        match r with Some [t] => t =? (s * NS_PER_S + n) * FRAC | _ => false end
      else true
  | AddSub t d =>
      if in_ptp t && in_dur d then
        if 0 <=? t + d then
          match r with Some [t1; t2] => (t1 =? t + d) && (t2 =? t) | _ => false end
        else  (* not representable: must clamp to 0, never wrap around *)
          match r with Some [t1; t2] => (t1 =? 0) | _ => false end
      else true
  | SubAdd t d =>
      if in_ptp t && in_dur d then
        if 0 <=? t - d then
          match r with Some [t1; t2] => (t1 =? t - d) && (t2 =? t) | _ => false end
        else
          match r with Some [t1; t2] => (t1 =? 0) | _ => false end
      else true
  | Diff a b =>
      if in_ptp a && in_ptp b then
        match r with Some [d] => d =? a - b | _ => false end
      else true
  | TiRT i =>
      if ti_ok i then
        match r with Some [d; i'] => (d =? i * 2 ^ 16) && (i' =? i) | _ => false end
      else true
  | DurToTi d =>
      if (- 2 ^ 47 * FRAC <=? d) && (d <? 2 ^ 47 * FRAC) then
        match r with
        | Some [i; d'] => (i * 2 ^ 16 <=? d) && (d <? (i + 1) * 2 ^ 16) && (d' =? i * 2 ^ 16)
        | _ => false
        end
      else true
  | LogInt n =>
      (* exactly 2^n s = 1953125 * 2^(n+41) units of 2^-32 ns; below the
         resolution (n < -41) the nearest representable value is accepted *)
      if in_i 8 n then
        match r with
        | Some [d] =>
            if -41 <=? n then d =? 2 ^ (n + 41) * 1953125
            else Z.abs (2 * (d * 2 ^ (- (n + 41))) - 2 * 1953125) <=? 2 ^ (- (n + 41))
        | _ => false
        end
      else true
  | DurArith a b =>
      if in_dur a && in_dur b then
        match r with Some [s; m; n] => (s =? a + b) && (m =? a - b) && (n =? - a) | _ => false end
      else true
  | DurDivInt _ _ => true
  | CoreNanos _ => true
  end.

(* (operation, built without debug checks?, observed output) *)
Definition case := (top * bool * option (list Z))%type.

(** Known findings (see /verif/known_findings.txt).
    1 : Duration::from_log_interval(n) for n >= 66 (2^n s exceeds I96F32). *)
Definition kf_C16 (c : case) : Z :=
  match fst (fst c) with
  | LogInt n => if 66 <=? n then 1 else 0
  | _ => 0
  end.

(* In a release build an overflow wraps instead of panicking; the wrapped
   value is not modelled, so such cases are only compared in debug builds. *)
Definition agree_C16 (c : case) : bool :=
  let '(o, rel, r) := c in
  match run_top o with
  | Panic _ => if rel then true else match r with None => true | Some _ => false end
  | Ok v => match r with Some w => zlist_eqb v w | None => false end
  end.

Definition run_cases :=
  run_cases_gen agree_C16 (fun c => ok_C16 (fst (fst c)) (snd c)) kf_C16.
