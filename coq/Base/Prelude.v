(** Base prelude: common imports and arithmetic settings for the statime model. *)
From Coq Require Export List ZArith NArith Bool Lia.
From Coq Require Export ZifyBool ZifyN ZifyNat.
Export ListNotations.
Ltac Zify.zify_post_hook ::= Z.div_mod_to_equations.
Global Open Scope Z_scope.

Global Arguments Z.add : simpl never.
Global Arguments Z.sub : simpl never.
Global Arguments Z.mul : simpl never.
Global Arguments Z.div : simpl never.
Global Arguments Z.modulo : simpl never.
Global Arguments Z.pow : simpl never.
Global Arguments Z.shiftl : simpl never.
Global Arguments Z.shiftr : simpl never.
Global Arguments Z.ltb : simpl never.
Global Arguments Z.leb : simpl never.
Global Arguments Z.eqb : simpl never.
Global Arguments Z.quot : simpl never.
Global Arguments Z.rem : simpl never.

(** Result of an operation of the implementation.  [Panic] covers every way a
    Rust call can fail to "return normally" in the sense of property C03:
    explicit panics, failed (debug) assertions and arithmetic overflow (which
    panics in debug builds and wraps silently in release builds).  The [nat]
    is a site tag used only for diagnostics. *)
Inductive outcome (A : Type) : Type :=
| Ok (a : A)
| Panic (site : nat).
Arguments Ok {A} a.
Arguments Panic {A} site.

Definition obind {A B} (x : outcome A) (f : A -> outcome B) : outcome B :=
  match x with Ok a => f a | Panic s => Panic s end.
Definition omap {A B} (f : A -> B) (x : outcome A) : outcome B :=
  match x with Ok a => Ok (f a) | Panic s => Panic s end.
Definition is_ok {A} (x : outcome A) : bool :=
  match x with Ok _ => true | Panic _ => false end.

Declare Scope outcome_scope.
Delimit Scope outcome_scope with outcome.
Notation "'let!' x ':=' e 'in' f" := (obind e (fun x => f))
  (at level 200, x pattern, e at level 100, f at level 200, right associativity).

(** Range predicates for machine integers. *)
Definition in_u (bits : Z) (x : Z) : bool := (0 <=? x) && (x <? 2 ^ bits).
Definition in_i (bits : Z) (x : Z) : bool := (- 2 ^ (bits - 1) <=? x) && (x <? 2 ^ (bits - 1)).
Definition wrap_u (bits : Z) (x : Z) : Z := x mod 2 ^ bits.
Definition wrap_i (bits : Z) (x : Z) : Z := (x + 2 ^ (bits - 1)) mod 2 ^ bits - 2 ^ (bits - 1).

Definition chk_u (site : nat) (bits : Z) (x : Z) : outcome Z :=
  if in_u bits x then Ok x else Panic site.
Definition chk_i (site : nat) (bits : Z) (x : Z) : outcome Z :=
  if in_i bits x then Ok x else Panic site.

Lemma wrap_i_id bits x : 0 < bits -> in_i bits x = true -> wrap_i bits x = x.
Proof.
  unfold in_i, wrap_i; intros Hb H.
  assert (Hp : 2 ^ bits = 2 * 2 ^ (bits - 1)).
  { replace bits with (Z.succ (bits - 1)) at 1 by lia. rewrite Z.pow_succ_r; lia. }
  assert (0 < 2 ^ (bits - 1)) by (apply Z.pow_pos_nonneg; lia).
  rewrite Z.mod_small; lia.
Qed.

Lemma wrap_u_id bits x : in_u bits x = true -> wrap_u bits x = x.
Proof. unfold in_u, wrap_u; intros H. rewrite Z.mod_small; lia. Qed.
