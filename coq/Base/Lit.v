(** Compact literals for generated cases files.  Parsing decimal [Z]
    numerals is slow in Coq (quadratic in the number of digits), primitive
    63-bit integers are fast: generated files open [uint63_scope] and build
    every number / byte string from primitive-integer literals. *)
From Coq Require Export Uint63.
From SV Require Export Base.Prelude.

Coercion Uint63.to_Z : int >-> Z.

Definition zn (x : Z) : Z := - x.
(** little-endian limbs in base 2^62 *)
Fixpoint zb (l : list int) : Z :=
  match l with
  | [] => 0
  | x :: l' => Uint63.to_Z x + 4611686018427387904 * zb l'
  end.
Definition zl (l : list int) : list Z := map Uint63.to_Z l.
Definition sz (x : Z) : option Z := Some x.

(** byte strings: 7 bytes per literal, big endian; [len] = number of bytes *)
Definition bytes7 (x : Z) : list Z :=
  [ (x / 281474976710656) mod 256; (x / 1099511627776) mod 256; (x / 4294967296) mod 256;
    (x / 16777216) mod 256; (x / 65536) mod 256; (x / 256) mod 256; x mod 256 ].
Definition bs (len : int) (l : list int) : list Z :=
  firstn (Z.to_nat (Uint63.to_Z len)) (flat_map (fun x => bytes7 (Uint63.to_Z x)) l).
Definition zi (x : Z) : Z := x.
