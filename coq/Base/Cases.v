(** Generic case runner used by every correspondence file.
    Result of [run_cases]:
      (number of cases,
       indices where model and implementation disagree,
       (index, known-finding id) where the IMPLEMENTATION's observed output
       violates the property oracle; id 0 = not a known finding). *)
From SV Require Export Base.Prelude.

Section Cases.
  Context {C : Type}.
  Variable agree : C -> bool.
  Variable okc : C -> bool.
  Variable kf : C -> Z.

  Fixpoint run_cases_aux (i : Z) (cs : list C) (mm : list Z) (bad : list (Z * Z))
    : Z * list Z * list (Z * Z) :=
    match cs with
    | [] => (i, rev mm, rev bad)
    | c :: cs' =>
        let mm' := if agree c then mm else i :: mm in
        let bad' := if okc c then bad else (i, kf c) :: bad in
        run_cases_aux (i + 1) cs' mm' bad'
    end.
  Definition run_cases_gen (cs : list C) := run_cases_aux 0 cs [] [].
End Cases.

Definition to_opt {A} (x : outcome A) : option A :=
  match x with Ok a => Some a | Panic _ => None end.

Definition zlist_eqb (a b : list Z) : bool :=
  (Nat.eqb (length a) (length b)) && forallb (fun p => fst p =? snd p) (combine a b).

Definition opt_eqb {A} (eqb : A -> A -> bool) (a b : option A) : bool :=
  match a, b with
  | Some x, Some y => eqb x y
  | None, None => true
  | _, _ => false
  end.
