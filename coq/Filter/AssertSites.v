(** F15 — `debug_assert!(time >= self.filter_time)` in InnerFilter::progress_filtertime.
    The assertion was reachable in debug builds whenever the clock returned a time
    earlier than the running filter's time (event time stamped ahead of the clock).
    Fix b057ba6 deleted it (the early return it duplicated stays).  In the model the
    panic site no longer exists: [inner_progress] cannot panic for that reason in
    either build mode, and debug and release builds now behave identically on the
    stream that used to separate them.

    (Remark kept from the analysis of the old code: the two filter times are NOT always
    equal, as DESIGN assumed; the wander filter is cloned from the running filter before
    the latter is progressed, so only wander.filter_time <= running.filter_time holds.) *)
From Coq Require Import Lia ZArith Floats.
From SV Require Import Filter.FloatBits Filter.FilterCases Filter.FilterLemmas.
Local Open Scope Z_scope.

(** progressing to an earlier time is a no-op in both build modes *)
Lemma progress_earlier_is_noop dbg cfg f time w :
  time < i_time f -> inner_progress dbg cfg f time w = Ok f.
Proof. intros H. unfold inner_progress. destruct (time <? i_time f) eqn:E; [reflexivity | lia]. Qed.

(** ... and the build mode no longer matters for [inner_progress] when no fixed-point
    overflow occurs (times below 2^127) *)
Lemma progress_mode_independent cfg f time w :
  0 <= i_time f < 2 ^ 127 -> 0 <= time < 2 ^ 127 ->
  inner_progress true cfg f time w = inner_progress false cfg f time w.
Proof.
  intros Hf Ht. unfold inner_progress. destruct (time <? i_time f); [reflexivity|].
  unfold t_diff, d_of_time, d_sub, d_neg, d_add, w_i128.
  assert (H1 : in_i 128 time = true) by (unfold in_i; lia).
  assert (H2 : in_i 128 (i_time f) = true) by (unfold in_i; lia).
  rewrite H1, H2. cbn [obind].
  assert (H3 : in_i 128 (- i_time f) = true) by (unfold in_i; lia).
  rewrite H3. cbn [obind].
  assert (H4 : in_i 128 (time + - i_time f) = true) by (unfold in_i; lia).
  rewrite H4. reflexivity.
Qed.

Definition kalman_default_cfg : kcfg :=
  kcfg_bits 4294967000000000 0 8589934592000000000 4641240890982006784 4645744490609377280
            4547007122018943789 4367597403136100796 4493980547052782275 4599676419421066581
            4604180019048437077 16 858993459200000000 4 8 4611686018427387904.

(* sync at 1000 s (replies 1000 s), then sync at 1001 s whose set_frequency reply is
   1000 s + 5 ns: before the fix the debug build panicked on the second measurement *)
Definition f15_events : list event :=
  [M (1000 * NS_PER_S * FRAC) (Some 0) None None (Some 0) None;
   M (1001 * NS_PER_S * FRAC) (Some 0) None None (Some 0) None].
Definition f15_replies : list reply :=
  [Some (1000 * NS_PER_S * FRAC); Some (1000 * NS_PER_S * FRAC);
   Some (1000 * NS_PER_S * FRAC + 5 * FRAC)].
Lemma f15_site_removed :
  map o_res (run_filter exp_eval true (FKalman kalman_default_cfg) f15_events f15_replies)
    = [Some (true, Some 0); Some (true, Some 0)]
  /\ obs_list_eqb (run_filter exp_eval true (FKalman kalman_default_cfg) f15_events f15_replies)
                  (run_filter exp_eval false (FKalman kalman_default_cfg) f15_events f15_replies) = true.
Proof. vm_compute. split; reflexivity. Qed.
