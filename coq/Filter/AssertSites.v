(** The two `debug_assert!(time >= self.filter_time)` sites of kalman.rs
    (InnerFilter::progress_filtertime, reached through the running filter and
    through the wander filter).

    Invariant (NOT "the two filter times are equal", which is false: the wander
    filter is replaced by a clone of the running filter BEFORE the running filter
    is progressed to the event time):
        wander_filter.filter_time <= running_filter.filter_time,
        and the wander filter exists only if the running filter does.

    Consequence, for debug builds: if every time returned by the clock during an
    event is at least the event time (resp. the running filter's time for
    update/demobilize), the assertion cannot fail -- in particular it can never
    fail "because of" the wander filter or in [measurement]'s own progress calls.
    The only way to reach it is a clock reply earlier than the filter time (F15). *)
From Coq Require Import Lia ZArith Floats.
From SV Require Import Filter.FloatBits Filter.FilterCases Filter.FilterLemmas.
Local Open Scope Z_scope.

Definition tle (a b : option inner) : Prop :=
  match a, b with Some w, Some r => i_time w <= i_time r | _, _ => True end.
Definition otime_le (a : option inner) (t : Z) : Prop :=
  match a with Some f => i_time f <= t | None => True end.
Definition otime_eq (a : option inner) (t : Z) : Prop :=
  match a with Some f => i_time f = t | None => False end.

Definition TInv (s : kstate) : Prop :=
  tle (k_wan s) (k_run s) /\ (k_run s = None -> k_wan s = None /\ k_cur s = None).

Definition not_assert {A} (o : outcome A) : Prop :=
  match o with Panic st => st <> site_progress_assert | Ok _ => True end.

Section Sites.
  Variable exp_fn : float -> float.
  Variable cfg : kcfg.
  Let dbg := true.

  (** -- primitives -- *)
  Lemma inner_progress_ok f time w :
    i_time f <= time ->
    not_assert (inner_progress dbg cfg f time w) /\
    forall f', inner_progress dbg cfg f time w = Ok f' -> i_time f' = time.
  Proof.
    intros H. unfold inner_progress. destruct (time <? i_time f) eqn:E; [lia|].
    unfold t_diff, d_of_time, d_sub, d_neg, d_add, w_i128. unfold dbg.
    repeat (match goal with |- context [if ?b then _ else _] => destruct b end; simpl);
      (split; [try exact I; try discriminate | intros f' Hf; inversion Hf; reflexivity || discriminate]).
  Qed.

  Lemma base_progress_ok b time w :
    otime_le b time ->
    not_assert (base_progress dbg cfg b time w) /\
    forall b', base_progress dbg cfg b time w = Ok b' -> otime_eq b' time.
  Proof.
    intros H. destruct b as [f|]; simpl in * .
    - destruct (inner_progress_ok f time w H) as [H1 H2].
      destruct (inner_progress dbg cfg f time w) as [f'|st] eqn:E; simpl in * .
      + split; [exact I|]. intros b' Hb. inversion Hb; subst. simpl. apply H2. reflexivity.
      + split; [exact H1 | discriminate].
    - split; [exact I|]. intros b' Hb. inversion Hb; subst. reflexivity.
  Qed.

  Lemma base_freq_steer_ok b steer time w :
    otime_le b time ->
    not_assert (base_freq_steer dbg cfg b steer time w) /\
    forall b', base_freq_steer dbg cfg b steer time w = Ok b' -> otime_eq b' time.
  Proof.
    intros H. destruct b as [f|]; simpl in * .
    - unfold inner_freq_steer. destruct (inner_progress_ok f time w H) as [H1 H2].
      destruct (inner_progress dbg cfg f time w) as [f'|st] eqn:E; simpl in * .
      + split; [exact I|]. intros b' Hb. inversion Hb; subst. simpl. apply H2. reflexivity.
      + split; [exact H1 | discriminate].
    - split; [exact I|]. intros b' Hb. inversion Hb; subst. reflexivity.
  Qed.

  Lemma base_absorb_offset_time b h z v :
    match b, base_absorb_offset cfg b h z v with
    | Some f, Some f' => i_time f' = i_time f
    | None, None => True
    | _, _ => False
    end.
  Proof.
    destruct b as [f|]; simpl; [|exact I].
    destruct (_ <. _); simpl; [reflexivity|]. unfold inner_absorb.
    destruct (inner_predict f h). reflexivity.
  Qed.

  Lemma base_absorb_peer_time b z v :
    match b, base_absorb_peer b z v with
    | Some f, Some f' => i_time f' = i_time f
    | None, None => True
    | _, _ => False
    end.
  Proof.
    destruct b as [f|]; simpl; [|exact I]. unfold inner_absorb.
    destruct (inner_predict f H_PEER). reflexivity.
  Qed.

  (* the same duration is added (saturating) to both filter times *)
  Lemma base_offset_steer_mono w r steer w' r' :
    tle w r -> (r = None -> w = None) ->
    base_offset_steer dbg r steer = Ok r' -> base_offset_steer dbg w steer = Ok w' ->
    tle w' r' /\ (r' = None -> w' = None) /\ (r = None <-> r' = None).
  Proof.
    intros Hle Hn Hr Hw. destruct r as [fr|], w as [fw|]; simpl in * .
    - unfold inner_offset_steer in * .
      destruct (d_from_seconds dbg steer) as [d|]; simpl in * ; [|discriminate].
      unfold t_add_d in * .
      destruct (d <? 0); inversion Hr; inversion Hw; subst; simpl;
        (split; [lia | split; [discriminate | split; discriminate]]).
    - inversion Hw; subst. unfold inner_offset_steer in Hr.
      destruct (d_from_seconds dbg steer) as [d|]; simpl in Hr; [|discriminate].
      destruct (t_add_d (i_time fr) d); simpl in Hr; inversion Hr; subst.
      simpl. split; [exact I | split; [discriminate | split; discriminate]].
    - specialize (Hn eq_refl). discriminate.
    - inversion Hr; inversion Hw; subst. simpl. split; [exact I | split; [reflexivity | split; reflexivity]].
  Qed.

  (** -- the estimator / wander part never reaches the assertion when the gate of
         [measurement] has passed -- *)
  Lemma panic_not_assert_range e : not_assert (est_measurement_variance cfg e).
  Proof.
    unfold est_measurement_variance. destruct (_ <? _); [exact I|].
    destruct (_ <? _); [|exact I]. unfold est_range_size.
    destruct (est_max (est_taken e)), (est_min (est_taken e)); simpl; try exact I; discriminate.
  Qed.

  Lemma wander_score_update_shape s u p a :
    not_assert (wander_score_update exp_fn cfg s u p a) /\
    forall s', wander_score_update exp_fn cfg s u p a = Ok s' ->
      k_run s' = k_run s /\ k_cur s' = k_cur s /\ (k_wan s' = k_wan s \/ k_wan s' = k_run s).
  Proof.
    unfold wander_score_update. pose proof (panic_not_assert_range (k_est s)) as Hp.
    destruct (est_measurement_variance cfg (k_est s)) as [mv|st]; simpl in * .
    2:{ split; [exact Hp | discriminate]. }
    destruct (_ <. _).
    { split; [exact I|]. intros s' H. inversion H; subst; simpl. auto. }
    destruct (_ <. _).
    { split; [exact I|]. intros s' H. inversion H; subst; simpl. auto. }
    split; [exact I|]. intros s' H. inversion H; subst. auto.
  Qed.

  Lemma update_wander_shape s m :
    otime_le (k_wan s) (m_time m) ->
    not_assert (update_wander exp_fn dbg cfg s m) /\
    forall s', update_wander exp_fn dbg cfg s m = Ok s' ->
      k_run s' = k_run s /\ k_cur s' = k_cur s /\ (otime_eq (k_wan s') (m_time m) \/ k_wan s' = k_run s).
  Proof.
    intros Hw. unfold update_wander.
    destruct (base_progress_ok (k_wan s) (m_time m) (k_wander s) Hw) as [P1 P2].
    destruct (base_progress dbg cfg (k_wan s) (m_time m) (k_wander s)) as [w|st] eqn:Ew; simpl.
    2:{ split; [exact P1 | discriminate]. }
    specialize (P2 w eq_refl).
    set (s0 := mk_kstate (k_run s) w (k_score s) (k_wander s) (k_wme s) (k_est s) (k_cur s) (k_near s)).
    (* sync part *)
    assert (S1 : forall o1 : outcome kstate,
               o1 = match m_sync m with
                    | Some so => let '(p, u) := base_predict cfg (k_wan s0) H_SYNC in
                                 wander_score_update exp_fn cfg s0 u p (dur_seconds so)
                    | None => Ok s0 end ->
               not_assert o1 /\
               forall s1, o1 = Ok s1 -> k_run s1 = k_run s /\ k_cur s1 = k_cur s /\
                                        (otime_eq (k_wan s1) (m_time m) \/ k_wan s1 = k_run s)).
    { intros o1 ->. destruct (m_sync m).
      - destruct (base_predict cfg (k_wan s0) H_SYNC) as [p u].
        destruct (wander_score_update_shape s0 u p (dur_seconds z)) as [Q1 Q2].
        split; [exact Q1|]. intros s1 H1. destruct (Q2 s1 H1) as (A & B & C).
        simpl in A, B, C. repeat split; auto. destruct C as [C | C]; rewrite C; auto.
      - split; [exact I|]. intros s1 H1. inversion H1; subst. simpl. auto. }
    specialize (S1 _ eq_refl). destruct S1 as [S1a S1b].
    match goal with |- context [obind ?x _] =>
      assert (Hx : not_assert x /\ forall s1, x = Ok s1 -> k_run s1 = k_run s /\ k_cur s1 = k_cur s /\
                     (otime_eq (k_wan s1) (m_time m) \/ k_wan s1 = k_run s)) by exact (conj S1a S1b);
      clear S1a S1b; destruct x as [s1|st1] end; destruct Hx as [S1a S1b]; simpl.
    2:{ split; [exact S1a | discriminate]. }
    destruct (S1b s1 eq_refl) as (A1 & B1 & C1).
    (* delay part *)
    assert (S2 : not_assert (match m_dly m with
                    | Some d => let '(p, u) := base_predict cfg (k_wan s1) H_DELAY in
                                wander_score_update exp_fn cfg s1 u p (dur_seconds d)
                    | None => Ok s1 end) /\
               forall s2, match m_dly m with
                    | Some d => let '(p, u) := base_predict cfg (k_wan s1) H_DELAY in
                                wander_score_update exp_fn cfg s1 u p (dur_seconds d)
                    | None => Ok s1 end = Ok s2 ->
                    k_run s2 = k_run s /\ k_cur s2 = k_cur s /\
                    (otime_eq (k_wan s2) (m_time m) \/ k_wan s2 = k_run s)).
    { destruct (m_dly m).
      - destruct (base_predict cfg (k_wan s1) H_DELAY) as [p u].
        destruct (wander_score_update_shape s1 u p (dur_seconds z)) as [Q1 Q2].
        split; [exact Q1|]. intros s2 H2. destruct (Q2 s2 H2) as (A & B & C).
        repeat split; try congruence. destruct C as [C | C]; rewrite C; auto.
      - split; [exact I|]. intros s2 H2. inversion H2; subst. auto. }
    destruct S2 as [S2a S2b].
    match goal with |- context [obind ?x _] =>
      assert (Hx : not_assert x /\ forall s2, x = Ok s2 -> k_run s2 = k_run s /\ k_cur s2 = k_cur s /\
                     (otime_eq (k_wan s2) (m_time m) \/ k_wan s2 = k_run s)) by exact (conj S2a S2b);
      clear S2a S2b; destruct x as [s2|st2] end; destruct Hx as [S2a S2b]; simpl.
    2:{ split; [exact S2a | discriminate]. }
    destruct (S2b s2 eq_refl) as (A2 & B2 & C2).
    destruct (in_i 8 (- wrap_i 8 (c_hyst cfg))); simpl.
    2:{ split; [discriminate | discriminate]. }
    split; [exact I|]. intros s' H. inversion H; subst; clear H.
    destruct (k_score s2 <? _); simpl;
      match goal with |- context [if ?c then _ else _] => destruct c end; simpl; auto.
  Qed.
End Sites.

(** -- a Hoare logic that also tracks the clock's replies -- *)
Definition reply_ge (T : Z) (r : reply) : Prop := match r with Some t => T <= t | None => True end.
Definition replies_ge (T : Z) (c : clk) : Prop := Forall (reply_ge T) (c_replies c).

Definition aspec {A} (T : Z) (m : CM A) (Q : A -> Prop) : Prop :=
  forall c, replies_ge T c ->
    replies_ge T (fst (m c)) /\
    match snd (m c) with Ok a => Q a | Panic st => st <> site_progress_assert end.

Lemma aspec_ret {A} T (a : A) (Q : A -> Prop) : Q a -> aspec T (mret a) Q.
Proof. intros H c Hc. simpl. auto. Qed.

Lemma aspec_bind {A B} T (m : CM A) (f : A -> CM B) (Q1 : A -> Prop) (Q2 : B -> Prop) :
  aspec T m Q1 -> (forall a, Q1 a -> aspec T (f a) Q2) -> aspec T (mbind m f) Q2.
Proof.
  intros Hm Hf c Hc. unfold mbind. specialize (Hm c Hc).
  destruct (m c) as [c1 r]. simpl in Hm. destruct Hm as [H1 H2].
  destruct r as [a | s]; simpl; auto. apply Hf; auto.
Qed.

Lemma aspec_lift {A} T (o : outcome A) (Q : A -> Prop) :
  not_assert o -> (forall a, o = Ok a -> Q a) -> aspec T (mlift o) Q.
Proof. intros Hn H c Hc. unfold mlift. simpl. split; auto. destruct o; auto. Qed.

Lemma aspec_call T (x : cmd) (Q : reply -> Prop) :
  (forall r, reply_ge T r -> Q r) -> aspec T (mcall x) Q.
Proof.
  intros HQ c Hc. unfold mcall, clk_call. unfold replies_ge in * .
  destruct (c_replies c) as [|r rs] eqn:E; simpl.
  - split; [constructor | apply HQ; exact I].
  - inversion Hc; subst. split; [assumption | apply HQ; assumption].
Qed.

Section Events.
  Variable exp_fn : float -> float.
  Variable cfg : kcfg.
  Let dbg := true.

  (* inside [measurement], after the running filter has been progressed to T *)
  Definition SInv (T : Z) (s : kstate) : Prop :=
    otime_eq (k_run s) T /\ otime_le (k_wan s) T.

  Lemma SInv_TInv T s : SInv T s -> TInv s.
  Proof.
    intros [H1 H2]. unfold TInv, tle, otime_eq, otime_le in * .
    destruct (k_run s) as [r|]; [|contradiction]. split.
    - destruct (k_wan s); [lia | exact I].
    - discriminate.
  Qed.

  Lemma d_from_seconds_na x : not_assert (d_from_seconds dbg x).
  Proof.
    unfold d_from_seconds, dur_from_seconds, f2fix, fix_mul, w_i128, dbg.
    destruct (f_scaled_to_Z x); simpl; [|discriminate].
    destruct (in_i 128 z); simpl; [|discriminate].
    destruct (in_i 128 _); simpl; [exact I | discriminate].
  Qed.

  Lemma mean_delay_update_na s : not_assert (mean_delay_update dbg s).
  Proof.
    unfold mean_delay_update. pose proof (d_from_seconds_na (base_mean_delay (k_run s))) as H.
    destruct (d_from_seconds dbg (base_mean_delay (k_run s))); simpl in * ; auto.
  Qed.

  Lemma steer_target_na s : not_assert (steer_target cfg s).
  Proof. unfold steer_target. destruct (fclamp _ _ _); simpl; [exact I | discriminate]. Qed.

  Lemma variance_factor_na s : not_assert (variance_factor cfg s).
  Proof.
    unfold variance_factor. pose proof (panic_not_assert_range cfg (k_est s)) as H.
    destruct (est_measurement_variance cfg (k_est s)); simpl in * ; auto.
  Qed.

  Lemma t_diff_na a b : not_assert (t_diff dbg a b).
  Proof.
    unfold t_diff, d_of_time, d_sub, d_neg, d_add, w_i128, dbg.
    repeat (match goal with |- context [if ?b then _ else _] => destruct b end; simpl);
      try exact I; discriminate.
  Qed.

  Lemma d_abs_na a : not_assert (d_abs dbg a).
  Proof. unfold d_abs, w_i128, dbg. destruct (in_i 128 _); simpl; [exact I | discriminate]. Qed.

  Lemma est_absorb_na e m f : not_assert (est_absorb dbg cfg e m f).
  Proof.
    unfold est_absorb.
    assert (Hp : forall a b (k : Z -> outcome estimator),
               (forall d, not_assert (k d)) -> not_assert (obind (t_diff dbg a b) k)).
    { intros a b k Hk. pose proof (t_diff_na a b). destruct (t_diff dbg a b); simpl in * ; auto. }
    assert (Ha : forall a (k : Z -> outcome estimator),
               (forall d, not_assert (k d)) -> not_assert (obind (d_abs dbg a) k)).
    { intros a k Hk. pose proof (d_abs_na a). destruct (d_abs dbg a); simpl in * ; auto. }
    assert (H1 : not_assert
      match m_sync m with
      | Some sync_offset =>
          match e_last_delay e with
          | Some (time, delay_offset) =>
              let e' := mk_est (e_data e) (e_next e) (e_fill e) (e_last_sync e) None (e_peer e) in
              let! d := t_diff dbg (m_time m) time in
              let! ad := d_abs dbg d in
              if ad <? c_est_threshold cfg then
                let! d2 := t_diff dbg time (m_time m) in
                Ok (est_insert e' (dur_seconds sync_offset -. dur_seconds delay_offset +. dur_seconds d2 *. f))
              else
                Ok (mk_est (e_data e') (e_next e') (e_fill e') (Some (m_time m, sync_offset)) None (e_peer e'))
          | None =>
              Ok (mk_est (e_data e) (e_next e) (e_fill e) (Some (m_time m, sync_offset)) (e_last_delay e) (e_peer e))
          end
      | None => Ok e
      end).
    { destruct (m_sync m); [|exact I]. destruct (e_last_delay e) as [[time dly]|]; [|exact I].
      cbv zeta. apply Hp. intros d. apply Ha. intros ad. destruct (_ <? _); [|exact I].
      apply Hp. intros d2. exact I. }
    match goal with |- not_assert (obind ?x _) => assert (Hx : not_assert x) by exact H1; destruct x as [e1|st1]; simpl; [|exact Hx] end.
    clear Hx.
    clear H1.
    assert (H2 : not_assert
      match m_dly m with
      | Some delay_offset =>
          match e_last_sync e1 with
          | Some (time, sync_offset) =>
              let e' := mk_est (e_data e1) (e_next e1) (e_fill e1) None (e_last_delay e1) (e_peer e1) in
              let! d := t_diff dbg (m_time m) time in
              let! ad := d_abs dbg d in
              if ad <? c_est_threshold cfg then
                Ok (est_insert e' (dur_seconds sync_offset -. dur_seconds delay_offset +. dur_seconds d *. f))
              else
                Ok (mk_est (e_data e') (e_next e') (e_fill e') None (Some (m_time m, delay_offset)) (e_peer e'))
          | None =>
              Ok (mk_est (e_data e1) (e_next e1) (e_fill e1) (e_last_sync e1) (Some (m_time m, delay_offset)) (e_peer e1))
          end
      | None => Ok e1
      end).
    { destruct (m_dly m); [|exact I]. destruct (e_last_sync e1) as [[time so]|]; [|exact I].
      cbv zeta. apply Hp. intros d. apply Ha. intros ad. destruct (_ <? _); exact I. }
    match goal with |- not_assert (obind ?x _) => assert (Hx : not_assert x) by exact H2; destruct x as [e2|st2]; simpl; [|exact Hx] end.
    destruct (m_peer m); exact I.
  Qed.

  (** change_frequency from a state whose filters are not ahead of T *)
  Lemma change_frequency_aspec T s t :
    otime_le (k_run s) T -> otime_le (k_wan s) T -> TInv s ->
    aspec T (change_frequency dbg cfg s t) TInv.
  Proof.
    intros Hr Hw Hi. unfold change_frequency. destruct (k_cur s) as [cur|] eqn:Ec; [|apply aspec_ret; exact Hi].
    eapply aspec_bind with (Q1 := reply_ge T).
    { apply aspec_call. auto. }
    intros [time|] Hge; [|apply aspec_ret; exact Hi]. simpl in Hge.
    assert (Hr' : otime_le (k_run s) time) by (unfold otime_le in * ; destruct (k_run s); [lia | exact I]).
    assert (Hw' : otime_le (k_wan s) time) by (unfold otime_le in * ; destruct (k_wan s); [lia | exact I]).
    destruct (base_freq_steer_ok exp_fn cfg (k_run s) (clamp_adjustment cur (t -. base_freq_offset (k_run s) *. c_1e6) (c_max_freq_offset cfg)) time (k_wander s) Hr') as [R1 R2].
    destruct (base_freq_steer_ok exp_fn cfg (k_wan s) (clamp_adjustment cur (t -. base_freq_offset (k_run s) *. c_1e6) (c_max_freq_offset cfg)) time (k_wander s) Hw') as [W1 W2].
    eapply aspec_bind with (Q1 := fun run => otime_eq run time).
    { apply aspec_lift; [exact R1 | exact R2]. }
    intros run Hrun.
    eapply aspec_bind with (Q1 := fun wan => otime_eq wan time).
    { apply aspec_lift; [exact W1 | exact W2]. }
    intros wan Hwan. apply aspec_ret.
    unfold TInv, set_cur, set_filters; simpl. unfold otime_eq, tle in * .
    destruct run as [r|]; [|contradiction]. destruct wan as [w|]; [|contradiction].
    split; [lia | discriminate].
  Qed.

  Lemma kalman_step_aspec T s off : TInv s -> aspec T (kalman_step dbg s off) TInv.
  Proof.
    intros Hi. unfold kalman_step.
    eapply aspec_bind with (Q1 := fun _ => True); [apply aspec_lift; [apply d_from_seconds_na | auto]|].
    intros d _.
    eapply aspec_bind with (Q1 := fun _ => True); [apply aspec_call; auto|].
    intros [time|] _; [|apply aspec_ret; exact Hi].
    destruct Hi as [Hle Hn].
    destruct (base_offset_steer dbg (k_run s) (-. off)) as [run|st] eqn:Er.
    2:{ intros c Hc. unfold mbind, mlift. simpl. split; [exact Hc|].
        unfold base_offset_steer, inner_offset_steer in Er. destruct (k_run s); [|discriminate].
        pose proof (d_from_seconds_na (-. off)) as Hd.
        destruct (d_from_seconds dbg (-. off)) as [dd|]; simpl in * ; [|inversion Er; subst; exact Hd].
        unfold t_add_d in Er. destruct (dd <? 0); simpl in Er; discriminate. }
    destruct (base_offset_steer dbg (k_wan s) (-. off)) as [wan|st] eqn:Ew.
    2:{ intros c Hc. unfold mbind, mlift. simpl. split; [exact Hc|].
        unfold base_offset_steer, inner_offset_steer in Ew. destruct (k_wan s); [|discriminate].
        pose proof (d_from_seconds_na (-. off)) as Hd.
        destruct (d_from_seconds dbg (-. off)) as [dd|]; simpl in * ; [|inversion Ew; subst; exact Hd].
        unfold t_add_d in Ew. destruct (dd <? 0); simpl in Ew; discriminate. }
    assert (Hn' : k_run s = None -> k_wan s = None) by (intros H; apply Hn; exact H).
    destruct (base_offset_steer_mono exp_fn _ _ _ _ _ Hle Hn' Er Ew) as (M1 & M2 & M3).
    intros c Hc. unfold mbind, mlift, mret. simpl. split; [exact Hc|].
    unfold TInv, set_filters; simpl. split; [exact M1|].
    intros Hnone. split; [apply M2; exact Hnone | apply Hn, M3, Hnone].
  Qed.

  Lemma kalman_steer_aspec T s : SInv T s -> aspec T (kalman_steer dbg cfg s) (fun r => TInv (fst r)).
  Proof.
    intros Hs. pose proof (SInv_TInv T s Hs) as Hi. destruct Hs as [S1 S2].
    assert (Hr : otime_le (k_run s) T).
    { unfold otime_eq, otime_le in * . destruct (k_run s); [lia | contradiction]. }
    unfold kalman_steer. destruct (_ <. _).
    - eapply aspec_bind with (Q1 := fun _ => True); [apply aspec_lift; [apply steer_target_na | auto]|].
      intros t _.
      eapply aspec_bind; [apply change_frequency_aspec; assumption|]. intros s' Hs'.
      eapply aspec_bind with (Q1 := fun _ => True); [apply aspec_lift; [apply mean_delay_update_na | auto]|].
      intros md _. apply aspec_ret. exact Hs'.
    - eapply aspec_bind; [apply kalman_step_aspec; exact Hi|]. intros s' Hs'.
      eapply aspec_bind with (Q1 := fun _ => True); [apply aspec_lift; [apply mean_delay_update_na | auto]|].
      intros md _. apply aspec_ret. exact Hs'.
  Qed.

  Lemma ensure_freq_init_aspec T s : SInv T s -> aspec T (ensure_freq_init s) (SInv T).
  Proof.
    intros Hs. unfold ensure_freq_init. destruct (k_cur s); [apply aspec_ret; exact Hs|].
    eapply aspec_bind with (Q1 := fun _ => True); [apply aspec_call; auto|].
    intros [t|] _; apply aspec_ret; exact Hs.
  Qed.

  Lemma absorb_with_aspec T s h z : SInv T s -> aspec T (absorb_with cfg s h z) (SInv T).
  Proof.
    intros Hs. unfold absorb_with.
    eapply aspec_bind; [apply ensure_freq_init_aspec; exact Hs|]. intros s' [A B].
    eapply aspec_bind with (Q1 := fun _ => True); [apply aspec_lift; [apply variance_factor_na | auto]|].
    intros v _. apply aspec_ret. unfold SInv, set_run, set_filters; simpl. split; [|exact B].
    pose proof (base_absorb_offset_time cfg (k_run s') h (dur_seconds z) v) as Ht.
    unfold otime_eq in * . destruct (k_run s') as [f|]; [|contradiction].
    destruct (base_absorb_offset cfg (Some f) h (dur_seconds z) v); [lia | contradiction].
  Qed.

  (** [measurement]: with clock replies not earlier than the event time the
      assertion is unreachable, whatever the measurement, and the invariant is kept. *)
  Theorem measurement_assert_unreachable s m :
    TInv s ->
    aspec (m_time m) (kalman_measurement exp_fn dbg cfg s m) (fun r => TInv (fst r)).
  Proof.
    intros Hi. set (T := m_time m). unfold kalman_measurement.
    destruct (base_after_filter_time (k_run s) (m_time m)) eqn:Hg; simpl; [|apply aspec_ret; exact Hi].
    assert (Hr : otime_le (k_run s) T).
    { unfold base_after_filter_time in Hg. unfold otime_le. destruct (k_run s); [lia | exact I]. }
    assert (Hw : otime_le (k_wan s) T).
    { destruct Hi as [Hle Hn]. unfold tle, otime_le in * .
      destruct (k_wan s) as [w|]; [|exact I]. destruct (k_run s) as [r|]; [lia|].
      destruct (Hn eq_refl) as [Hx _]. discriminate. }
    eapply aspec_bind with (Q1 := fun _ => True); [apply aspec_lift; [apply est_absorb_na | auto]|].
    intros est _.
    set (s1 := mk_kstate (k_run s) (k_wan s) (k_score s) (k_wander s) (k_wme s) est (k_cur s) (k_near s)).
    destruct (update_wander_shape exp_fn cfg s1 m Hw) as [U1 U2].
    eapply aspec_bind with (Q1 := fun s2 => otime_le (k_run s2) T /\ otime_le (k_wan s2) T).
    { apply aspec_lift; [exact U1|]. intros s2 H2. destruct (U2 s2 H2) as (A & B & C).
      simpl in A, C. rewrite A. split; [exact Hr|].
      destruct C as [C | C].
      - unfold otime_eq, otime_le in * . destruct (k_wan s2); [fold T in C; lia | exact I].
      - rewrite C. exact Hr. }
    intros s2 [R2 W2].
    destruct (base_progress_ok exp_fn cfg (k_run s2) T (k_wander s2) R2) as [P1 P2].
    eapply aspec_bind with (Q1 := fun run => otime_eq run T); [apply aspec_lift; [exact P1 | exact P2]|].
    intros run Hrun.
    assert (H3 : SInv T (set_run s2 run)) by (split; [exact Hrun | exact W2]).
    eapply aspec_bind with (Q1 := SInv T).
    { destruct (m_sync m); [apply absorb_with_aspec | apply aspec_ret]; exact H3. }
    intros s4 H4.
    eapply aspec_bind with (Q1 := SInv T).
    { destruct (m_dly m); [apply absorb_with_aspec | apply aspec_ret]; exact H4. }
    intros s5 H5.
    eapply aspec_bind with (Q1 := SInv T).
    { destruct (m_peer m); [| apply aspec_ret; exact H5].
      eapply aspec_bind with (Q1 := fun _ => True); [apply aspec_lift; [apply variance_factor_na | auto]|].
      intros v _. apply aspec_ret. destruct H5 as [A B]. split; [|exact B].
      unfold set_run, set_filters; simpl.
      pose proof (base_absorb_peer_time (k_run s5) (dur_seconds z) v) as Ht.
      unfold otime_eq in * . destruct (k_run s5) as [f|]; [|contradiction].
      destruct (base_absorb_peer (Some f) (dur_seconds z) v); [lia | contradiction]. }
    intros s6 H6. apply kalman_steer_aspec. exact H6.
  Qed.

  (** [update] / [demobilize]: replies not earlier than the running filter's time *)
  Theorem update_assert_unreachable T s :
    TInv s -> otime_le (k_run s) T ->
    aspec T (kalman_update dbg cfg s) (fun r => TInv (fst r)).
  Proof.
    intros Hi Hr. unfold kalman_update.
    assert (Hw : otime_le (k_wan s) T).
    { destruct Hi as [Hle Hn]. unfold tle, otime_le in * .
      destruct (k_wan s) as [w|]; [|exact I]. destruct (k_run s) as [r|]; [lia|].
      destruct (Hn eq_refl) as [Hx _]. discriminate. }
    eapply aspec_bind; [apply change_frequency_aspec; assumption|]. intros s' Hs'.
    eapply aspec_bind with (Q1 := fun _ => True); [apply aspec_lift; [apply mean_delay_update_na | auto]|].
    intros md _. apply aspec_ret. exact Hs'.
  Qed.

  Theorem demobilize_assert_unreachable T s :
    TInv s -> otime_le (k_run s) T ->
    aspec T (kalman_demobilize dbg cfg s) (fun _ => True).
  Proof.
    intros Hi Hr. unfold kalman_demobilize.
    assert (Hw : otime_le (k_wan s) T).
    { destruct Hi as [Hle Hn]. unfold tle, otime_le in * .
      destruct (k_wan s) as [w|]; [|exact I]. destruct (k_run s) as [r|]; [lia|].
      destruct (Hn eq_refl) as [Hx _]. discriminate. }
    eapply aspec_bind; [apply change_frequency_aspec; assumption|]. intros s' _.
    apply aspec_ret. exact I.
  Qed.

  Lemma kalman_new_TInv s : kalman_new cfg = Ok s -> TInv s.
  Proof.
    unfold kalman_new. intros H. destruct (est_measurement_variance cfg est_default); simpl in H; [|discriminate].
    inversion H; subst. unfold TInv; simpl. auto.
  Qed.
End Events.

(** F15: the assertion IS reachable when the clock returns a time earlier than the
    running filter's time (event time stamped ahead of the clock). *)
Definition f15_events : list event :=
  [M (1000 * NS_PER_S * FRAC) (Some 0) None None (Some 0) None;
   M (1001 * NS_PER_S * FRAC) (Some 0) None None (Some 0) None].
Definition f15_replies : list reply :=
  [Some (1000 * NS_PER_S * FRAC); Some (1000 * NS_PER_S * FRAC);
   Some (1000 * NS_PER_S * FRAC + 5 * FRAC)].       (* third reply: 1000 s + 5 ns < event time 1001 s *)
Definition kalman_default_cfg : kcfg := kcfg_bits 4294967000000000 0 8589934592000000000 4641240890982006784 4645744490609377280 4547007122018943789 4367597403136100796 4493980547052782275 4599676419421066581 4604180019048437077 16 858993459200000000 4 8 4611686018427387904.
Lemma f15_assert_reachable :
  map o_res (run_filter exp_eval true (FKalman kalman_default_cfg) f15_events f15_replies) = [Some (true, Some 0); None]
  /\ map o_res (run_filter exp_eval false (FKalman kalman_default_cfg) f15_events f15_replies) = [Some (true, Some 0); Some (true, Some 0)].
Proof. vm_compute. split; reflexivity. Qed.
