(** C03, filter part — "no input, timing or call order makes the library panic or
    overflow", for the clock filters (anchors statime/src/filters/kalman.rs, basic.rs).
    Only statements closed by [exact]; proofs in Filter/PanicLemmas.v.  (This file plays the
    role of a Properties/ file; it lives in Filter/ because the filter agent owns that
    directory.  Properties/C03.v may simply re-export it.)

    Reading guide.
    * [run_p exp_fn dbg (FKalman cfg) pat reps wr es rs] is the model's run of one stream:
      warm-up pattern [pat] repeated [reps] times with every clock call answered [wr], then the
      events [es] with the clock replies [rs]; the result is what the harness observes on the
      real filter (harness/src/bin/c03f.rs) and what the correspondence compares.
    * [ok_C03f es o] is the property as an oracle on an observation: the warm-up completed,
      there is one observation per event, every call AND the following current_estimates()
      returned.
    * [c_f24 cfg] is a switch of the MODEL, not a configuration field: false = kalman.rs as it
      is in /repo today, true = kalman.rs after the proposed patch .cache/scratch-filter/f24.diff.
      Cases are built with [impl_f24_fixed] (Filter/KalmanModel.v), today [false].
    * [exp_fn] is libm's exp (arbitrary), [dbg] the build mode (debug assertions and overflow
      checks on / off). *)
From Coq Require Import Floats ZArith List.
From SV Require Import Filter.FloatBits Filter.FilterCases Filter.PanicCases Filter.PanicLemmas Filter.BasicPanic.
Import ListNotations.

(** Today's code violates the property (finding F24): five peer delay measurements of 0 ns
    one second apart, or Sync / Delay_Resp measurements alternating at one event time with
    constant raw offsets, end in `Duration::from_seconds(NaN)` (Panic site 201) on the fifth
    resp. tenth measurement, in both build modes. *)
Theorem C03f_today_refuted :
  forallb (fun dbg =>
    negb (ok_C03f f24_peer_zero (run_p exp_eval dbg (FKalman cfg_today) [] 0 None f24_peer_zero []))
    && (length (snd (run_p exp_eval dbg (FKalman cfg_today) [] 0 None f24_peer_zero [])) =? 5)%nat
    && negb (ok_C03f f24_equal_times (run_p exp_eval dbg (FKalman cfg_today) [] 0 None f24_equal_times f24_replies))
    && (length (snd (run_p exp_eval dbg (FKalman cfg_today) [] 0 None f24_equal_times f24_replies)) =? 10)%nat
    && match first_site exp_eval dbg (FKalman cfg_today) [] 0 None f24_peer_zero [] with
       | Some n => Nat.eqb n site_float_to_fixed | None => false end
    && match first_site exp_eval dbg (FKalman cfg_today) [] 0 None f24_equal_times f24_replies with
       | Some n => Nat.eqb n site_float_to_fixed | None => false end)
    [true; false] = true.
Proof. exact today_refuted. Qed.

(** The conversion that panics: a finite f64 of magnitude at most MAX_ESTIMATE = 1e18 (and
    its negation) converts to a Duration in both build modes. *)
Theorem C03f_from_seconds_total : forall dbg x,
  is_fin x = true -> (fabs x <=. c_max_estimate) = true ->
  (exists d, d_from_seconds dbg x = Ok d) /\ (exists d, d_from_seconds dbg (-. x) = Ok d).
Proof. intros dbg x H1 H2. split; [exact (from_seconds_ok dbg x H1 H2) | exact (from_seconds_opp_ok dbg x H1 H2)]. Qed.

(** One call: from every state satisfying the invariant [kinv] (estimates absent or valid,
    stored times non-negative, estimator well-formed -- NO assumption on how the floats got
    there), a measurement with an event time below 2^127 (bit pattern), on a clock whose
    replies are such times or errors, returns, and the invariant holds again. *)
Theorem C03f_kalman_measurement_returns : forall exp_fn dbg cfg, cfg_ok cfg ->
  forall s m, kinv s -> time_ok (m_time m) ->
  msafe (kalman_measurement exp_fn dbg cfg s m) (fun r => kinv (fst r)).
Proof. exact kalman_measurement_safe. Qed.

(** Every run: any warm-up, any events in any order (measurements of any kind and value,
    update, demobilize), any clock script; event times and clock times below 2^127 as bit
    patterns (= 2^95 ns; the property needs 2^63 ns).  Unbounded length. *)
Theorem C03f_kalman_patched_no_panic : forall exp_fn dbg cfg, cfg_ok cfg ->
  forall pat reps wr es rs,
  Forall event_ok pat -> reply_ok wr -> Forall event_ok es -> Forall reply_ok rs ->
  ok_C03f es (run_p exp_fn dbg (FKalman cfg) pat reps wr es rs) = true.
Proof. exact kalman_patched_no_panic. Qed.

(** the witness streams of the finding, on the patched model *)
Theorem C03f_patched_witnesses :
  forallb (fun dbg =>
    ok_C03f f24_peer_zero (run_p exp_eval dbg (FKalman cfg_patched) [] 0 None f24_peer_zero [])
    && ok_C03f f24_equal_times (run_p exp_eval dbg (FKalman cfg_patched) [] 0 None f24_equal_times f24_replies))
    [true; false] = true.
Proof. exact patched_witnesses. Qed.

(** BasicFilter, the code as it is today (no patch involved): with a gain in [0, 1], every
    stream of any length whose event times are below 2^126 (bit patterns) and whose offsets
    are Durations other than the most negative one, on any clock: every call returns.
    (Invariant: offset confidence in [0, 2 s] so `offset.clamp(-c, c)` is well-formed;
    frequency confidence never negative -- binary64 rounding is monotone -- so the bounds of
    `freq_diff.clamp(1 - c, 1 + c)` are ordered whenever the clamp is evaluated.) *)
Theorem C03f_basic_no_panic : forall exp_fn dbg g, gain_ok g ->
  forall pat reps wr es rs,
  Forall bevent_ok pat -> reply_ok wr -> Forall bevent_ok es -> Forall reply_ok rs ->
  ok_C03f es (run_p exp_fn dbg (FBasic g) pat reps wr es rs) = true.
Proof. exact basic_no_panic. Qed.

(** ... and the hypothesis on the gain is needed: gain 2.0, offsets 0.1 s then 0.5 s one second
    apart make the offset confidence negative and `Duration::clamp` asserts min <= max
    (configuration only; the gain is an undocumented f64) *)
Theorem C03f_basic_gain_above_one_panics :
  let g := ftwo in
  let ev t o := M (t * NS_PER_S * FRAC) (Some (o * 1000000 * FRAC)) None None (Some (o * 1000000 * FRAC)) None in
  ok_C03f [ev 1 100; ev 2 500]
    (run_p exp_eval true (FBasic g) [] 0 None [ev 1 100; ev 2 500] (repeat (Some (NS_PER_S * FRAC)) 8)) = false.
Proof. exact basic_gain_above_one_panics. Qed.

(** Non-vacuity: the default configuration (patched) satisfies [cfg_ok]; the witness streams
    satisfy the stream hypotheses; a fresh filter satisfies the invariant. *)
Example C03f_nonvacuous :
  cfg_ok cfg_patched /\
  (Forall event_ok f24_peer_zero /\ Forall event_ok f24_equal_times /\ Forall reply_ok f24_replies) /\
  (exists s, kalman_new cfg_patched = Ok s /\ kinv s) /\
  gain_ok (fb 4602678819172646912) (* 0.5 *) /\ gain_ok fone /\ gain_ok fzero.
Proof.
  split; [exact cfg_patched_ok | split; [exact f24_streams_admissible | split; [exact (kalman_new_ok cfg_patched cfg_patched_ok)|]]].
  repeat split; reflexivity.
Qed.
