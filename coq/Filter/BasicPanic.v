(** C03, filter part, BasicFilter: no call panics for a gain in [0, 1].
    Float side: the frequency confidence never becomes negative, so the bounds of
    `freq_diff.clamp(1 - c, 1 + c)` are ordered whenever the clamp is evaluated.
    Integer side: the offset confidence stays in [0, 2 s], so `offset.clamp(-c, c)` is
    well-formed and no fixed-point operation overflows. *)
From Coq Require Import Reals Lra Lia ZArith Floats List.
From Flocq Require Import Core BinarySingleNaN.
From Flocq Require IEEE754.PrimFloat.
From SV Require Import Filter.FloatBits Filter.FloatOrder Filter.ClampBound Filter.FilterCases
  Filter.FilterLemmas Filter.PanicCases Filter.PanicLemmas.
Import ListNotations.
Local Open Scope Z_scope.

Local Existing Instance FP.Hprec.
Local Instance vexp64' : Valid_exp (FLT_exp (3 - FloatOps.emax - FloatOps.prec) FloatOps.prec) := FLT_exp_valid _ _.

(** ---- float side ---- *)
Definition fc_ok (fc : float) : Prop := (fc <. fzero) = false.
Definition gain_ok (g : float) : Prop :=
  is_fin g = true /\ (fzero <=. g) = true /\ (g <=. fone) = true.

Lemma FR_one : FR fone = 1%R.
Proof.
  unfold FR, P2B.
  replace fone with (FP.B2Prim (@B754_finite FloatOps.prec FloatOps.emax false 4503599627370496 (-52) eq_refl)).
  2:{ apply FloatAxioms.Prim2SF_inj. rewrite FP.Prim2SF_B2Prim. reflexivity. }
  rewrite FP.Prim2B_B2Prim. unfold B2R, F2R. cbn [Fnum Fexp cond_Zopp].
  replace 4503599627370496%R with (bpow radix2 52) by (vm_compute; reflexivity).
  rewrite <- bpow_plus. reflexivity.
Qed.
Lemma is_fin_one : is_fin fone = true.
Proof. reflexivity. Qed.

Lemma mul_fin x y :
  is_fin x = true -> is_fin y = true ->
  (Rabs (rndNE (FR x * FR y)) < bpow radix2 FloatOps.emax)%R ->
  is_fin (x *. y) = true /\ FR (x *. y) = rndNE (FR x * FR y).
Proof.
  intros Hx Hy Hb. rewrite is_fin_equiv in * . unfold FR, P2B in * . rewrite FP.mul_equiv.
  pose proof (Bmult_correct FloatOps.prec FloatOps.emax FP.Hprec FP.Hmax mode_NE (FP.Prim2B x) (FP.Prim2B y)) as H.
  simpl round_mode in H. rewrite Rlt_bool_true in H by exact Hb.
  destruct H as (H1 & H2 & _). split; [|exact H1]. rewrite H2, Hx, Hy. reflexivity.
Qed.

Lemma fc_ok_nan x : FloatBits.is_nan x = true -> fc_ok x.
Proof. intros H. unfold fc_ok. now apply ltb_nan_l. Qed.

Lemma fc_ok_fin x : is_fin x = true -> (0 <= FR x)%R -> fc_ok x.
Proof.
  intros Hf H0. unfold fc_ok. rewrite ltb_R by (auto using is_fin_zero). rewrite FR_zero.
  apply Rlt_bool_false. exact H0.
Qed.

Lemma fc_ok_fin_inv x : is_fin x = true -> fc_ok x -> (0 <= FR x)%R.
Proof.
  intros Hf H. unfold fc_ok in H. apply ltb_false_R in H; auto using is_fin_zero; try (now rewrite FR_zero in H).
Qed.

Lemma FR_lt_emax x : is_fin x = true -> (Rabs (FR x) < bpow radix2 FloatOps.emax)%R.
Proof.
  intros Hf. unfold FR. apply abs_B2R_lt_emax.
Qed.

Lemma rnd_abs_le x B : Fmt B -> (Rabs x <= B)%R -> (Rabs (rndNE x) <= B)%R.
Proof.
  intros FB Hx. apply abs_round_le_generic; auto; typeclasses eauto.
Qed.

Lemma rnd_ge_0 x : (0 <= x)%R -> (0 <= rndNE x)%R.
Proof.
  intros H. apply round_ge_generic; auto; try typeclasses eauto. apply generic_format_0.
Qed.

(* finite core of the confidence update  c - (c - a) * g  with 0 <= a <= c, 0 <= g <= 1 *)
Lemma fc_update_fin fc a g :
  is_fin fc = true -> is_fin a = true -> is_fin g = true ->
  (0 <= FR a <= FR fc)%R -> (0 <= FR g <= 1)%R ->
  is_fin (fc -. (fc -. a) *. g) = true /\ (0 <= FR (fc -. (fc -. a) *. g))%R.
Proof.
  intros Hfc Ha Hg [Ha0 Hac] [Hg0 Hg1].
  set (B := FR fc) in * .
  assert (HB0 : (0 <= B)%R) by lra.
  assert (FB : Fmt B) by apply format_FR.
  assert (HBe : (B < bpow radix2 FloatOps.emax)%R).
  { pose proof (FR_lt_emax fc Hfc) as H. fold B in H. rewrite Rabs_pos_eq in H by lra. exact H. }
  (* d = fc - a *)
  assert (Hd1 : (Rabs (rndNE (B - FR a)) <= B)%R) by (apply rnd_abs_le; [exact FB | rewrite Rabs_pos_eq; lra]).
  destruct (sub_fin fc a Hfc Ha) as [Fd Rd]; [fold B; lra|]. fold B in Rd.
  assert (Hd0 : (0 <= FR (fc -. a))%R) by (rewrite Rd; apply rnd_ge_0; lra).
  assert (HdB : (FR (fc -. a) <= B)%R) by (rewrite Rd; apply Rabs_le_inv in Hd1; lra).
  (* y = d * g *)
  set (d := fc -. a) in * .
  assert (Hy1 : (Rabs (rndNE (FR d * FR g)) <= B)%R).
  { apply rnd_abs_le; [exact FB|]. rewrite Rabs_pos_eq by (apply Rmult_le_pos; lra).
    apply Rle_trans with (FR d * 1)%R; [apply Rmult_le_compat_l; lra | lra]. }
  destruct (mul_fin d g Fd Hg) as [Fy Ry]; [lra|].
  assert (Hy0 : (0 <= FR (d *. g))%R) by (rewrite Ry; apply rnd_ge_0; apply Rmult_le_pos; lra).
  assert (HyB : (FR (d *. g) <= B)%R) by (rewrite Ry; apply Rabs_le_inv in Hy1; lra).
  (* r = fc - y *)
  set (y := d *. g) in * .
  assert (Hr1 : (Rabs (rndNE (B - FR y)) <= B)%R) by (apply rnd_abs_le; [exact FB | rewrite Rabs_pos_eq; lra]).
  destruct (sub_fin fc y Hfc Fy) as [Fr Rr]; [fold B; lra|]. fold B in Rr.
  split; [exact Fr|]. rewrite Rr. apply rnd_ge_0. lra.
Qed.

(** NaN propagation *)
Lemma sub_nan_l x y : FloatBits.is_nan x = true -> FloatBits.is_nan (x -. y) = true.
Proof.
  rewrite !is_nan_equiv. unfold P2B. rewrite FP.sub_equiv.
  destruct (FP.Prim2B x); try discriminate. intros _. now destruct (FP.Prim2B y).
Qed.
Lemma sub_nan_r x y : FloatBits.is_nan y = true -> FloatBits.is_nan (x -. y) = true.
Proof.
  rewrite !is_nan_equiv. unfold P2B. rewrite FP.sub_equiv.
  destruct (FP.Prim2B y); try discriminate. intros _. now destruct (FP.Prim2B x).
Qed.
Lemma mul_nan_l x y : FloatBits.is_nan x = true -> FloatBits.is_nan (x *. y) = true.
Proof.
  rewrite !is_nan_equiv. unfold P2B. rewrite FP.mul_equiv.
  destruct (FP.Prim2B x); try discriminate. intros _. now destruct (FP.Prim2B y).
Qed.

Lemma gain_ok_R g : gain_ok g -> (0 <= FR g <= 1)%R.
Proof.
  intros (Hf & H0 & H1).
  apply leb_true_R in H0; auto using is_fin_zero. apply leb_true_R in H1; auto using is_fin_one.
  rewrite FR_zero in H0. rewrite FR_one in H1. lra.
Qed.

Lemma P2B_fin_gain g : gain_ok g ->
  (exists s, P2B g = B754_zero s) \/ (exists m e H, P2B g = B754_finite false m e H).
Proof.
  intros Hg. pose proof (gain_ok_R g Hg) as [H0 _]. destruct Hg as (Hf & _).
  rewrite is_fin_equiv in Hf. unfold FR in H0.
  destruct (P2B g) as [s|s| |s m e H]; try discriminate; [left; eauto|].
  right. destruct s; [|eauto]. exfalso.
  cbn [B2R] in H0. unfold F2R in H0. cbn [Fnum Fexp cond_Zopp] in H0.
  assert ((IZR (Z.neg m) * bpow radix2 e < 0)%R).
  { pose proof (bpow_gt_0 radix2 e) as Hb. assert (IZR (Z.neg m) < 0)%R by (apply IZR_lt; lia). nra. }
  change (- Z.pos m) with (Z.neg m) in H0. lra.
Qed.

Lemma abs_not_ninf t : fabs t <> PrimFloat.neg_infinity.
Proof.
  intros H. apply (f_equal P2B) in H. rewrite P2B_ninf in H. unfold P2B, fabs in H.
  rewrite FP.abs_equiv in H. destruct (FP.Prim2B t); discriminate.
Qed.

(** L_C: the confidence update keeps the confidence non-negative (or NaN) *)
Lemma fc_update_ok fc t g :
  fc_ok fc -> (fc <. fabs t) = false -> gain_ok g ->
  fc_ok (fc -. (fc -. fabs t) *. g).
Proof.
  intros Hfc Hlt Hg. set (a := fabs t) in * .
  destruct (classify_float fc) as [Hn | Hf | Hi | Hi].
  - apply fc_ok_nan. now apply sub_nan_l.
  - destruct (classify_float a) as [Han | Haf | Hai | Hai].
    + apply fc_ok_nan, sub_nan_r, mul_nan_l, sub_nan_r, Han.
    + pose proof (gain_ok_R g Hg) as HgR. destruct Hg as (Hgf & _).
      assert (Ha0 : (0 <= FR a)%R) by (unfold a; rewrite FR_abs; apply Rabs_pos).
      assert (Hac : (FR a <= FR fc)%R) by (apply ltb_false_R in Hlt; auto).
      destruct (fc_update_fin fc a g Hf Haf Hgf (conj Ha0 Hac) HgR) as [Fr Rr].
      apply fc_ok_fin; assumption.
    + rewrite Hai in Hlt. rewrite fin_ltb_pinf in Hlt by exact Hf. discriminate.
    + exfalso. exact (abs_not_ninf t Hai).
  - (* fc = +inf: the result is NaN *)
    apply fc_ok_nan. subst fc.
    destruct (P2B_fin_gain g Hg) as [[s Eg] | (m & e & H & Eg)];
      rewrite is_nan_equiv; unfold P2B in * ;
      rewrite FP.sub_equiv, FP.mul_equiv, FP.sub_equiv; fold (P2B PrimFloat.infinity); rewrite P2B_pinf;
      rewrite Eg; destruct (FP.Prim2B a) as [sa|[|]| |sa ma ea Ha]; reflexivity.
  - exfalso. subst fc. unfold fc_ok in Hfc. rewrite ninf_ltb_fin in Hfc by reflexivity. discriminate.
Qed.

Lemma FR_two : FR ftwo = 2%R.
Proof.
  unfold FR, P2B.
  replace ftwo with (FP.B2Prim (@B754_finite FloatOps.prec FloatOps.emax false 4503599627370496 (-51) eq_refl)).
  2:{ apply FloatAxioms.Prim2SF_inj. rewrite FP.Prim2SF_B2Prim. reflexivity. }
  rewrite FP.Prim2B_B2Prim. unfold B2R, F2R. cbn [Fnum Fexp cond_Zopp].
  replace 4503599627370496%R with (bpow radix2 52) by (vm_compute; reflexivity).
  rewrite <- bpow_plus. reflexivity.
Qed.

Lemma pinf_ok : fc_ok PrimFloat.infinity.
Proof. reflexivity. Qed.

Lemma of_B_pinf x : P2B x = B754_infinity false -> x = PrimFloat.infinity.
Proof.
  intros H. rewrite FP.infinity_equiv. rewrite <- H. unfold P2B. now rewrite FP.B2Prim_Prim2B.
Qed.

(** L_B: doubling keeps the confidence non-negative (or NaN, or +inf) *)
Lemma fc_double_ok fc : fc_ok fc -> fc_ok (fc *. ftwo).
Proof.
  intros Hfc. destruct (classify_float fc) as [Hn | Hf | Hi | Hi].
  - apply fc_ok_nan, mul_nan_l, Hn.
  - pose proof (fc_ok_fin_inv fc Hf Hfc) as H0.
    destruct (Rlt_dec (Rabs (rndNE (FR fc * FR ftwo))) (bpow radix2 FloatOps.emax)) as [Hb | Hb].
    + destruct (mul_fin fc ftwo Hf eq_refl Hb) as [Fr Rr].
      apply fc_ok_fin; [exact Fr|]. rewrite Rr. apply rnd_ge_0. rewrite FR_two. lra.
    + (* overflow: the product is +inf *)
      assert (E : fc *. ftwo = PrimFloat.infinity).
      { apply of_B_pinf. unfold P2B. rewrite FP.mul_equiv.
        pose proof (Bmult_correct FloatOps.prec FloatOps.emax FP.Hprec FP.Hmax mode_NE (FP.Prim2B fc) (FP.Prim2B ftwo)) as H.
        simpl round_mode in H. unfold FR, P2B in Hb. rewrite Rlt_bool_false in H by (apply Rnot_lt_le; exact Hb).
        assert (Hs : Bsign (FP.Prim2B fc) = false).
        { rewrite is_fin_equiv in Hf. unfold FR, P2B in H0, Hf.
          destruct (FP.Prim2B fc) as [s|s| |s m e Hbd]; try discriminate.
          destruct s; [|reflexivity]. exfalso.
          cbn [B2R] in H0. unfold F2R in H0. cbn [Fnum Fexp cond_Zopp] in H0.
          pose proof (bpow_gt_0 radix2 e) as Hbp. assert (IZR (Z.neg m) < 0)%R by (apply IZR_lt; lia).
          change (- Z.pos m) with (Z.neg m) in H0. nra. }
        rewrite Hs in H.
        replace (Bsign (FP.Prim2B ftwo)) with false in H.
        2:{ change ftwo with (FP.B2Prim (@B754_finite FloatOps.prec FloatOps.emax false 4503599627370496 (-51) eq_refl)).
            now rewrite FP.Prim2B_B2Prim. }
        cbn in H. destruct (Bmult mode_NE (FP.Prim2B fc) (FP.Prim2B ftwo)) as [s|s| |s m e Hbd]; try discriminate.
        destruct s; [discriminate | reflexivity]. }
      rewrite E. exact pinf_ok.
  - subst fc. replace (PrimFloat.infinity *. ftwo) with PrimFloat.infinity by reflexivity. exact pinf_ok.
  - exfalso. subst fc. unfold fc_ok in Hfc. rewrite ninf_ltb_fin in Hfc by reflexivity. discriminate.
Qed.

Lemma pinf_not_ltb x : (PrimFloat.infinity <. x) = false.
Proof.
  rewrite FP.ltb_equiv. fold (P2B PrimFloat.infinity) (P2B x). rewrite P2B_pinf.
  unfold Bltb. destruct (P2B x) as [s|[|]| |[|] m e H]; reflexivity.
Qed.

(** L_A: when the clamp is evaluated its bounds are ordered *)
Lemma fc_clamp_bounds fc x :
  fc_ok fc -> (fc <. x) = true -> (fone -. fc <=. fone +. fc) = true.
Proof.
  intros Hfc Hlt. destruct (classify_float fc) as [Hn | Hf | Hi | Hi].
  - rewrite ltb_nan_l in Hlt by exact Hn. discriminate.
  - pose proof (fc_ok_fin_inv fc Hf Hfc) as H0. set (B := FR fc) in * .
    assert (FB : Fmt B) by apply format_FR.
    assert (F1 : Fmt 1%R) by (rewrite <- FR_one; apply format_FR).
    assert (HBe : (B < bpow radix2 FloatOps.emax)%R).
    { pose proof (FR_lt_emax fc Hf) as H. fold B in H. rewrite Rabs_pos_eq in H by lra. exact H. }
    assert (H1e : (1 < bpow radix2 FloatOps.emax)%R).
    { pose proof (FR_lt_emax fone eq_refl) as H. rewrite FR_one, Rabs_R1 in H. exact H. }
    (* lo = 1 - fc is finite *)
    assert (Hlo : (Rabs (rndNE (FR fone - B)) < bpow radix2 FloatOps.emax)%R).
    { rewrite FR_one. apply Rle_lt_trans with (Rmax 1 B).
      - apply rnd_abs_le; [apply Rmax_case; assumption|].
        apply Rabs_le. split.
        + apply Rle_trans with (- B)%R; [apply Ropp_le_contravar, Rmax_r | lra].
        + apply Rle_trans with 1%R; [lra | apply Rmax_l].
      - apply Rmax_case; assumption. }
    destruct (sub_fin fone fc eq_refl Hf Hlo) as [Flo Rlo]. fold B in Rlo.
    destruct (Rlt_dec (Rabs (rndNE (FR fone + B))) (bpow radix2 FloatOps.emax)) as [Hb | Hb].
    + destruct (add_fin fone fc eq_refl Hf Hb) as [Fhi Rhi]. fold B in Rhi.
      apply R_leb_true; auto. rewrite Rlo, Rhi. apply round_le; try typeclasses eauto. lra.
    + (* 1 + fc overflows to +inf *)
      assert (E : fone +. fc = PrimFloat.infinity).
      { apply of_B_pinf. unfold P2B. rewrite FP.add_equiv.
        assert (Hf' := Hf). rewrite is_fin_equiv in Hf'. unfold P2B in Hf'.
        pose proof (Bplus_correct FloatOps.prec FloatOps.emax FP.Hprec FP.Hmax mode_NE (FP.Prim2B fone) (FP.Prim2B fc) eq_refl Hf') as H.
        simpl round_mode in H. unfold B, FR, P2B in Hb. rewrite Rlt_bool_false in H by (apply Rnot_lt_le; exact Hb).
        destruct H as [H _].
        replace (Bsign (FP.Prim2B fone)) with false in H.
        2:{ change fone with (FP.B2Prim (@B754_finite FloatOps.prec FloatOps.emax false 4503599627370496 (-52) eq_refl)).
            now rewrite FP.Prim2B_B2Prim. }
        cbn in H. destruct (Bplus mode_NE (FP.Prim2B fone) (FP.Prim2B fc)) as [s|s| |s m e Hbd]; try discriminate.
        destruct s; [discriminate | reflexivity]. }
      rewrite E. rewrite FP.leb_equiv. fold (P2B (fone -. fc)) (P2B PrimFloat.infinity). rewrite P2B_pinf.
      rewrite is_fin_equiv in Flo. unfold Bleb. destruct (P2B (fone -. fc)) as [s|s| |[|] m e H]; try discriminate; reflexivity.
  - subst fc. rewrite pinf_not_ltb in Hlt. discriminate.
  - exfalso. subst fc. unfold fc_ok in Hfc. rewrite ninf_ltb_fin in Hfc by reflexivity. discriminate.
Qed.

(** ---- integer side ---- *)
Lemma rhe_le_mult m j N : 0 <= m <= N * 2 ^ j -> 0 < j -> 0 <= round_half_even_div_pow2 m j <= N.
Proof.
  intros [Hm0 HmN] Hj. unfold round_half_even_div_pow2.
  assert (HP : 0 < 2 ^ j) by (apply Z.pow_pos_nonneg; lia).
  pose proof (Z.div_mod m (2 ^ j) ltac:(lia)) as Hdm.
  pose proof (Z.mod_pos_bound m (2 ^ j) HP) as Hr.
  assert (Hq0 : 0 <= m / 2 ^ j) by (apply Z.div_pos; lia).
  set (q := m / 2 ^ j) in * . set (r := m mod 2 ^ j) in * . set (P := 2 ^ j) in * .
  destruct (2 * r <? P) eqn:E1; [split; [lia | nia]|].
  apply Z.ltb_ge in E1.
  assert (q + 1 <= N) by nia.
  destruct (P <? 2 * r); [lia|]. destruct (Z.even q); lia.
Qed.

Lemma gain_fix dbg g : gain_ok g -> exists gf, f2fix dbg g = Ok gf /\ 0 <= gf <= 2 ^ 32.
Proof.
  intros Hg. pose proof (gain_ok_R g Hg) as [_ H1].
  assert (Hin : forall v, 0 <= v <= 2 ^ 32 -> w_i128 dbg site_float_to_fixed v = Ok v).
  { intros v Hv. unfold w_i128.
    assert (H : in_i 128 v = true) by (unfold in_i; apply andb_true_iff; split; [apply Z.leb_le | apply Z.ltb_lt]; simpl; lia).
    now rewrite H. }
  unfold f2fix, f_scaled_to_Z. rewrite <- FP.B2SF_Prim2B. fold (P2B g). unfold FR in H1.
  destruct (P2B_fin_gain g Hg) as [[s Eg] | (m & e & H & Eg)]; rewrite Eg in * ; cbn [B2SF].
  - exists 0. split; [apply Hin; simpl; lia | simpl; lia].
  - cbn [B2R] in H1. unfold F2R in H1. cbn [Fnum Fexp cond_Zopp] in H1.
    assert (Hv : 0 <= (if 0 <=? e + 32 then Z.pos m * 2 ^ (e + 32)
                       else round_half_even_div_pow2 (Z.pos m) (- (e + 32))) <= 2 ^ 32).
    { destruct (0 <=? e + 32) eqn:Ek.
      - apply Z.leb_le in Ek. split; [apply Z.mul_nonneg_nonneg; [lia | apply Z.pow_nonneg; lia]|].
        apply le_IZR. rewrite mult_IZR.
        replace (IZR (2 ^ (e + 32))) with (bpow radix2 (e + 32)) by (rewrite <- IZR_Zpower by lia; reflexivity).
        rewrite bpow_plus. change (bpow radix2 32) with (IZR (2 ^ 32)).
        rewrite <- Rmult_assoc.
        replace (IZR (2 ^ 32)) with (1 * IZR (2 ^ 32))%R at 2 by ring.
        apply Rmult_le_compat_r; [apply IZR_le; lia | exact H1].
      - apply Z.leb_gt in Ek. set (j := - (e + 32)) in * .
        apply rhe_le_mult; [|lia]. split; [lia|].
        apply le_IZR. rewrite mult_IZR.
        replace (IZR (2 ^ j)) with (bpow radix2 j) by (rewrite <- IZR_Zpower by lia; reflexivity).
        change (IZR (2 ^ 32)) with (bpow radix2 32). rewrite <- bpow_plus.
        replace (32 + j) with (- e) by (unfold j; lia).
        apply Rmult_le_reg_r with (bpow radix2 e); [apply bpow_gt_0|].
        rewrite <- bpow_plus. replace (- e + e) with 0 by lia. exact H1. }
    eexists. split; [apply Hin; exact Hv | exact Hv].
Qed.

Lemma in_i128 v : - 2 ^ 127 <= v < 2 ^ 127 -> in_i 128 v = true.
Proof. intros H. unfold in_i. apply andb_true_iff. split; [apply Z.leb_le | apply Z.ltb_lt]; simpl; lia. Qed.

Lemma fix_mul_gain dbg a gf :
  - 2 ^ 126 <= a <= 2 ^ 126 -> 0 <= gf <= 2 ^ 32 ->
  exists r, fix_mul dbg a gf = Ok r /\ (0 <= a -> 0 <= r <= a) /\ (a <= 0 -> a <= r <= 0).
Proof.
  intros Ha Hg. unfold fix_mul, FRAC.
  assert (HP : 0 < 2 ^ 32) by lia.
  assert (H1 : 0 <= a -> 0 <= a * gf / 2 ^ 32 <= a).
  { intros H. split; [apply Z.div_pos; nia|]. apply Z.div_le_upper_bound; nia. }
  assert (H2 : a <= 0 -> a <= a * gf / 2 ^ 32 <= 0).
  { intros H. split; [apply Z.div_le_lower_bound; nia|]. apply Z.div_le_upper_bound; nia. }
  exists (a * gf / 2 ^ 32). split; [|split; assumption].
  unfold w_i128. rewrite in_i128; [reflexivity|].
  destruct (Z_le_gt_dec 0 a); [specialize (H1 l) | specialize (H2 ltac:(lia))]; lia.
Qed.

Lemma d_mul_f_ok dbg a g :
  gain_ok g -> - 2 ^ 126 <= a <= 2 ^ 126 ->
  exists r, d_mul_f dbg a g = Ok r /\ (0 <= a -> 0 <= r <= a) /\ (a <= 0 -> a <= r <= 0).
Proof.
  intros Hg Ha. unfold d_mul_f. destruct (gain_fix dbg g Hg) as (gf & -> & Hgf). cbn [obind].
  apply fix_mul_gain; assumption.
Qed.

Lemma d_neg_ok dbg d : - 2 ^ 127 < d < 2 ^ 127 -> d_neg dbg d = Ok (- d).
Proof. intros H. unfold d_neg, w_i128. rewrite in_i128; [reflexivity | lia]. Qed.
Lemma d_add_ok dbg a b : - 2 ^ 127 <= a + b < 2 ^ 127 -> d_add dbg a b = Ok (a + b).
Proof. intros H. unfold d_add, w_i128. rewrite in_i128; [reflexivity | lia]. Qed.
Lemma d_sub_ok dbg a b : - 2 ^ 127 < b < 2 ^ 127 -> - 2 ^ 127 <= a - b < 2 ^ 127 -> d_sub dbg a b = Ok (a - b).
Proof.
  intros Hb H. unfold d_sub. rewrite d_neg_ok by exact Hb. cbn [obind]. rewrite d_add_ok by lia. reflexivity.
Qed.

Lemma ONE_SEC_val : ONE_SEC = 4294967296000000000.
Proof. reflexivity. Qed.

(** ---- BasicFilter::measurement ---- *)
Definition last_ok (o : option (Z * Z * Z)) : Prop :=
  match o with
  | Some (t, off, corr) => 0 <= t < 2 ^ 126 /\ Z.abs off <= ONE_SEC /\ Z.abs corr <= ONE_SEC
  | None => True
  end.
Definition binv (s : bstate) : Prop :=
  0 <= b_offset_conf s <= 2 * ONE_SEC /\ last_ok (b_last_step s) /\
  fc_ok (b_freq_conf s) /\ gain_ok (b_gain s).
Definition bmeas_ok (m : meas) : Prop :=
  0 <= m_time m < 2 ^ 126 /\
  match m_offset m with Some o => Z.abs o < 2 ^ 127 | None => True end.

Lemma fc_init_ok : fc_ok c_1em4.
Proof. reflexivity. Qed.

Lemma basic_new_inv g : gain_ok g -> binv (basic_new g).
Proof.
  intros Hg. unfold basic_new, binv. cbn [b_offset_conf b_last_step b_freq_conf b_gain].
  pose proof ONE_SEC_val. repeat split; auto; try lia; try exact fc_init_ok; apply Hg.
Qed.

Lemma basic_offset_part_ok dbg s offset :
  binv s -> Z.abs offset <= ONE_SEC ->
  exists cl oc corr, basic_offset_part dbg s offset (Z.abs offset) = Ok (cl, oc, corr)
    /\ Z.abs cl <= ONE_SEC /\ 0 <= oc <= 2 * ONE_SEC /\ Z.abs corr <= ONE_SEC.
Proof.
  intros (Hc & _ & _ & Hg) Ho. pose proof ONE_SEC_val as HS.
  unfold basic_offset_part.
  set (conf := b_offset_conf s) in * . set (aoff := Z.abs offset) in * .
  assert (Hstage : exists cl oc,
    (if conf <? aoff
     then let! noc := d_neg dbg conf in
          let! cl := d_clamp offset noc conf in
          let! oc2 := fix_mul dbg conf (2 * FRAC) in Ok (cl, oc2)
     else let! diff := d_sub dbg conf aoff in
          let! dg := d_mul_f dbg diff (b_gain s) in
          let! oc2 := d_sub dbg conf dg in Ok (offset, oc2)) = Ok (cl, oc)
    /\ Z.abs cl <= ONE_SEC /\ 0 <= oc <= 2 * ONE_SEC).
  { destruct (conf <? aoff) eqn:E.
    - apply Z.ltb_lt in E. rewrite d_neg_ok by lia. cbn [obind].
      unfold d_clamp. assert (Hle : (- conf <=? conf) = true) by (apply Z.leb_le; lia). rewrite Hle. cbn [obind].
      unfold fix_mul. replace (conf * (2 * FRAC) / FRAC) with (conf * 2).
      2:{ rewrite Z.mul_assoc. symmetry. apply Z.div_mul. unfold FRAC. lia. }
      unfold w_i128. rewrite in_i128 by lia. cbn [obind].
      eexists. eexists. split; [reflexivity|]. split; [|lia].
      destruct (offset <? - conf) eqn:E1; [lia|]. apply Z.ltb_ge in E1.
      destruct (conf <? offset) eqn:E2; [lia|]. apply Z.ltb_ge in E2. lia.
    - apply Z.ltb_ge in E. unfold aoff in * .
      rewrite d_sub_ok by lia. cbn [obind].
      destruct (d_mul_f_ok dbg (conf - Z.abs offset) (b_gain s) Hg ltac:(lia)) as (dg & -> & Hp & _). cbn [obind].
      specialize (Hp ltac:(lia)).
      rewrite d_sub_ok by lia. cbn [obind].
      eexists. eexists. split; [reflexivity|]. lia. }
  destruct Hstage as (cl & oc & -> & Hcl & Hoc). cbn [obind].
  rewrite d_neg_ok by lia. cbn [obind].
  destruct (d_mul_f_ok dbg (- cl) (b_gain s) Hg ltac:(lia)) as (corr & -> & Hp & Hn). cbn [obind].
  exists cl, oc, corr. split; [reflexivity|]. split; [exact Hcl|]. split; [exact Hoc|].
  destruct (Z_le_gt_dec 0 (- cl)); [specialize (Hp l) | specialize (Hn ltac:(lia))]; lia.
Qed.

Lemma t_add_d_bounds t d : 0 <= t < 2 ^ 126 -> Z.abs d <= ONE_SEC ->
  exists t', t_add_d t d = Ok t' /\ 0 <= t' < 2 ^ 127.
Proof.
  intros Ht Hd. pose proof ONE_SEC_val. unfold t_add_d.
  destruct (d <? 0); eexists; (split; [reflexivity | lia]).
Qed.

Lemma t_diff_eq dbg a b : 0 <= a < 2 ^ 127 -> 0 <= b < 2 ^ 127 -> t_diff dbg a b = Ok (a - b).
Proof.
  intros Ha Hb. unfold t_diff, d_of_time, w_i128. rewrite !in_i128 by lia. cbn [obind].
  apply d_sub_ok; lia.
Qed.

Lemma basic_intervals_ok dbg m_t offset l_time l_offset l_corr :
  0 <= m_t < 2 ^ 126 -> Z.abs offset <= ONE_SEC ->
  0 <= l_time < 2 ^ 126 -> Z.abs l_offset <= ONE_SEC -> Z.abs l_corr <= ONE_SEC ->
  exists r, basic_intervals dbg m_t offset l_time l_offset l_corr = Ok r.
Proof.
  intros Hm Ho Hl Hlo Hlc. pose proof ONE_SEC_val as HS. unfold basic_intervals.
  rewrite t_diff_eq by lia. cbn [obind].
  rewrite d_sub_ok by lia. cbn [obind].
  unfold t_sub_d. rewrite d_neg_ok by lia. cbn [obind].
  destruct (t_add_d_bounds m_t (- offset) Hm ltac:(lia)) as (t1 & -> & Ht1). cbn [obind].
  rewrite d_neg_ok by lia. cbn [obind].
  destruct (t_add_d_bounds l_time (- l_offset) Hl ltac:(lia)) as (t2 & -> & Ht2). cbn [obind].
  destruct (t_diff_ok dbg t1 t2 Ht1 Ht2) as (d3 & -> & _). cbn [obind]. eauto.
Qed.

Lemma basic_freq_corr_ok s d2 d3 :
  fc_ok (b_freq_conf s) -> gain_ok (b_gain s) ->
  exists fcorr fc', basic_freq_corr s d2 d3 = Ok (fcorr, fc') /\ fc_ok fc'.
Proof.
  intros Hfc Hg. unfold basic_freq_corr.
  set (fd := fix2f d2 /. fix2f d3).
  destruct (fabs (fd -. fone) >. b_freq_conf s) eqn:E.
  - unfold fclamp. rewrite (fc_clamp_bounds _ _ Hfc E). cbn [obind].
    eexists. eexists. split; [reflexivity|]. apply fc_double_ok, Hfc.
  - cbn [obind]. eexists. eexists. split; [reflexivity|]. apply fc_update_ok; assumption.
Qed.

Lemma binv_intro ls oc fc g cur lo ld :
  0 <= oc <= 2 * ONE_SEC -> last_ok ls -> fc_ok fc -> gain_ok g -> binv (mk_bstate ls oc fc g cur lo ld).
Proof. intros. unfold binv. cbn [b_offset_conf b_last_step b_freq_conf b_gain]. auto. Qed.

Lemma basic_measurement_safe dbg s m :
  binv s -> bmeas_ok m -> msafe (basic_measurement dbg s m) (fun r => binv (fst r)).
Proof.
  intros Hs [Ht Ho]. pose proof Hs as (Hc & Hl & Hfc & Hg). pose proof ONE_SEC_val as HS.
  unfold basic_measurement.
  destruct (m_offset m) as [offset|]; [|apply msafe_ret; cbn [fst]; apply binv_intro; assumption].
  assert (Ho' : - 2 ^ 127 < offset < 2 ^ 127) by lia.
  eapply msafe_bind; [apply msafe_lift with (Q := fun a => a = Z.abs offset); rewrite (d_abs_ok dbg offset Ho'); eauto|].
  intros aoff ->. destruct (ONE_SEC <? Z.abs offset) eqn:E.
  - eapply msafe_bind; [apply msafe_lift with (Q := fun _ => True); rewrite (d_neg_ok dbg offset Ho'); eauto|].
    intros noff _. eapply msafe_bind; [apply (msafe_call _ (fun _ => True)); auto|].
    intros r _. apply msafe_ret. cbn [fst]. apply binv_intro; [lia | assumption | exact fc_init_ok | assumption].
  - apply Z.ltb_ge in E.
    eapply msafe_bind.
    { apply msafe_lift with (Q := fun p => let '(cl, oc, corr) := p in Z.abs cl <= ONE_SEC /\ 0 <= oc <= 2 * ONE_SEC /\ Z.abs corr <= ONE_SEC).
      destruct (basic_offset_part_ok dbg s offset Hs E) as (cl & oc & corr & -> & H1 & H2 & H3). exists (cl, oc, corr). split; [reflexivity|]. cbn. tauto. }
    intros [[cl oc] corr] (Hcl & Hoc & Hcorr).
    eapply msafe_bind with (Q1 := fun p => let '(fcorr, fc, cur0) := p in fc_ok fc).
    { destruct (b_last_step s) as [[[l_time l_offset] l_corr]|] eqn:El.
      - simpl in Hl. destruct Hl as (Hlt & Hlo & Hlc).
        eapply msafe_bind.
        { apply msafe_lift with (Q := fun _ => True).
          destruct (basic_intervals_ok dbg (m_time m) offset l_time l_offset l_corr Ht E Hlt Hlo Hlc) as (r & ->). eauto. }
        intros [d2 d3] _. destruct (d3 <=? 0); [apply msafe_ret; exact Hfc|].
        eapply msafe_bind.
        { apply msafe_lift with (Q := fun p => fc_ok (snd p)).
          destruct (basic_freq_corr_ok s d2 d3 Hfc Hg) as (fcorr & fc' & -> & Hfc'). eexists. split; [reflexivity | exact Hfc']. }
        intros [fcorr fc'] Hfc'. apply msafe_ret. exact Hfc'.
      - eapply msafe_bind; [apply (msafe_call _ (fun _ => True)); auto|].
        intros r _. apply msafe_ret. exact Hfc. }
    intros [[fcorr fc] cur0] Hfc'.
    eapply msafe_bind; [apply (msafe_call _ (fun _ => True)); auto|]. intros r1 _.
    assert (Hfin : forall cur, binv (mk_bstate (Some (m_time m, offset, corr)) oc fc (b_gain s) cur offset
                    match m_peer m with Some d => d | None => match m_delay m with Some d => d | None => b_last_delay s end end)).
    { intros cur. apply binv_intro; [lia | cbn [last_ok]; lia | assumption | assumption]. }
    destruct (is_fin (cur0 +. fcorr)).
    + eapply msafe_bind; [apply (msafe_call _ (fun _ => True)); auto|]. intros r2 _.
      apply msafe_ret. cbn [fst]. apply Hfin.
    + apply msafe_ret. cbn [fst]. apply Hfin.
Qed.

(** ---- whole runs of the basic filter ---- *)
Definition bevent_ok (e : event) : Prop :=
  match e with EMeas m => bmeas_ok m | _ => True end.

Section BasicRuns.
  Variable exp_fn : float -> float.
  Variable dbg : bool.
  Variable g : float.
  Hypothesis Hg : gain_ok g.

  Lemma run_event_basic_ok bs e rs :
    binv bs -> bevent_ok e -> Forall reply_ok rs ->
    exists bs' rs' o,
      run_event exp_fn dbg (FBasic g) (SB bs) e rs = (Some (SB bs'), rs', o)
      /\ binv bs' /\ Forall reply_ok rs' /\ obs_returned o = true.
  Proof.
    intros Hk He Hrs.
    assert (Hc : clk_ok (mk_clk rs [])) by exact Hrs.
    unfold run_event. destruct e as [m| |].
    - destruct (basic_measurement_safe dbg bs m Hk He _ Hc) as ([s' u] & E & Hk' & Hc').
      unfold mbind. destruct (basic_measurement dbg bs m (mk_clk rs [])) as [c1 r].
      simpl in E, Hc'. subst r. cbn [mret].
      exists s', (c_replies c1). eexists. split; [reflexivity|].
      split; [exact Hk'|]. split; [exact Hc' | reflexivity].
    - exists bs, rs. eexists. split; [reflexivity|]. split; [exact Hk|]. split; [exact Hrs | reflexivity].
    - exists (basic_new g), rs. eexists. split; [reflexivity|].
      split; [apply basic_new_inv, Hg|]. split; [exact Hrs | reflexivity].
  Qed.

  Lemma warm_once_basic_ok bs pat wr idx :
    binv bs -> Forall bevent_ok pat -> reply_ok wr ->
    exists bs', warm_once exp_fn dbg (FBasic g) (SB bs) pat wr idx = inl (SB bs') /\ binv bs'.
  Proof.
    intros Hk Hp Hw. revert bs idx Hk. induction Hp as [|e pat He Hp IH]; intros bs idx Hk; cbn [warm_once].
    - eauto.
    - destruct (run_event_basic_ok bs e _ Hk He (warm_replies_ok wr Hw)) as (bs' & rs' & o & -> & Hk' & _ & Ho).
      unfold obs_returned in Ho. destruct (o_res o); [|discriminate]. destruct (o_est o); [|discriminate].
      apply IH, Hk'.
  Qed.

  Lemma warm_loop_basic_ok bs pat wr n idx :
    binv bs -> Forall bevent_ok pat -> reply_ok wr ->
    exists bs', warm_loop exp_fn dbg (FBasic g) (SB bs) pat wr n idx = inl (SB bs') /\ binv bs'.
  Proof.
    intros Hk Hp Hw. revert bs idx Hk. induction n as [|n IH]; intros bs idx Hk; cbn [warm_loop].
    - eauto.
    - destruct (warm_once_basic_ok bs pat wr idx Hk Hp Hw) as (bs' & -> & Hk'). apply IH, Hk'.
  Qed.

  Lemma run_events_p_basic_ok bs es rs :
    binv bs -> Forall bevent_ok es -> Forall reply_ok rs ->
    forallb obs_returned (run_events_p exp_fn dbg (FBasic g) (SB bs) es rs) = true
    /\ length (run_events_p exp_fn dbg (FBasic g) (SB bs) es rs) = length es.
  Proof.
    intros Hk He. revert bs rs Hk. induction He as [|e es He Hes IH]; intros bs rs Hk Hrs; cbn [run_events_p].
    - auto.
    - destruct (run_event_basic_ok bs e rs Hk He Hrs) as (bs' & rs' & o & -> & Hk' & Hrs' & Ho).
      pose proof Ho as Ho'. unfold obs_returned in Ho'.
      destruct (o_res o); [|discriminate]. destruct (o_est o); [|discriminate].
      destruct (IH bs' rs' Hk' Hrs') as [H1 H2]. simpl. rewrite Ho, H1, H2. auto.
  Qed.

  (** BasicFilter with a gain in [0, 1]: on every stream whose event times are below 2^126
      (bit patterns) and whose offsets are representable Durations other than the minimum,
      every call returns -- the code as it is today (no patch involved). *)
  Theorem basic_no_panic pat reps wr es rs :
    Forall bevent_ok pat -> reply_ok wr -> Forall bevent_ok es -> Forall reply_ok rs ->
    ok_C03f es (run_p exp_fn dbg (FBasic g) pat reps wr es rs) = true.
  Proof.
    intros Hp Hw He Hr. unfold run_p, filter_new. cbn [obind].
    destruct (warm_loop_basic_ok (basic_new g) pat wr (Z.to_nat reps) 0 (basic_new_inv g Hg) Hp Hw) as (s' & -> & Hk').
    destruct (run_events_p_basic_ok s' es rs Hk' He Hr) as [H1 H2].
    unfold ok_C03f. cbn [fst snd]. rewrite H1, H2, Nat.eqb_refl. reflexivity.
  Qed.
End BasicRuns.

(** a gain above 1 is outside the theorem for a reason: with gain 2, offsets 0.1 s then 0.5 s
    make the offset confidence negative and `offset.clamp(-c, c)` asserts (configuration only) *)
Lemma basic_gain_above_one_panics :
  let g := ftwo in
  let ev t o := M (t * NS_PER_S * FRAC) (Some (o * 1000000 * FRAC)) None None (Some (o * 1000000 * FRAC)) None in
  ok_C03f [ev 1 100; ev 2 500]
    (run_p exp_eval true (FBasic g) [] 0 None [ev 1 100; ev 2 500] (repeat (Some (NS_PER_S * FRAC)) 8)) = false.
Proof. vm_compute. reflexivity. Qed.
