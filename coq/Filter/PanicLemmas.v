(** Proofs for the filter part of C03 (no call of the clock filters panics).

    Part 1: the conversions.  A finite f64 of magnitude at most MAX_ESTIMATE = 1e18
    converts to a Duration in every build mode ([from_seconds_ok]).
    Part 2: the Kalman filter after the F24 patch ([c_f24 cfg = true]): an invariant of the
    filter state (estimates valid or absent, times non-negative, estimator well-formed) is
    preserved by every call, and under it no Panic site is reached.
    Part 3: the unpatched model is refuted by the witness streams. *)
From Coq Require Import Reals Lra Lia ZArith Floats List.
From Flocq Require Import Core BinarySingleNaN.
From Flocq Require IEEE754.PrimFloat.
From SV Require Import Filter.FloatBits Filter.FloatOrder Filter.ClampBound Filter.FilterCases
  Filter.FilterLemmas Filter.PanicCases.
Import ListNotations.
Local Open Scope Z_scope.

(** ---- Part 1: Duration::from_seconds on bounded finite floats ---- *)
Definition EST_BOUND : Z := 10 ^ 18 * 2 ^ 32 + 1.

Lemma FR_max_estimate : FR c_max_estimate = IZR (10 ^ 18).
Proof.
  unfold FR, P2B.
  replace c_max_estimate with (FP.B2Prim (@B754_finite FloatOps.prec FloatOps.emax false 7812500000000000 7 eq_refl)).
  2:{ apply FloatAxioms.Prim2SF_inj. rewrite FP.Prim2SF_B2Prim. reflexivity. }
  rewrite FP.Prim2B_B2Prim. unfold B2R, F2R. cbn [Fnum Fexp cond_Zopp].
  change (bpow radix2 7) with (IZR (2 ^ 7)). rewrite <- mult_IZR. reflexivity.
Qed.
Lemma is_fin_max_estimate : is_fin c_max_estimate = true.
Proof. reflexivity. Qed.

Lemma rhe_le m k : 0 <= m -> 0 < k -> 0 <= round_half_even_div_pow2 m k <= m / 2 ^ k + 1.
Proof.
  intros Hm Hk. unfold round_half_even_div_pow2.
  assert (H2 : 0 < 2 ^ k) by (apply Z.pow_pos_nonneg; lia).
  assert (Hq : 0 <= m / 2 ^ k) by (apply Z.div_pos; lia).
  destruct (2 * (m mod 2 ^ k) <? 2 ^ k); [lia|].
  destruct (2 ^ k <? 2 * (m mod 2 ^ k)); [lia|].
  destruct (Z.even (m / 2 ^ k)); lia.
Qed.

Lemma f_scaled_bound x :
  is_fin x = true -> (fabs x <=. c_max_estimate) = true ->
  exists v, f_scaled_to_Z x = Some v /\ Z.abs v <= EST_BOUND.
Proof.
  intros Hf Hle.
  apply leb_true_R in Hle; [| now rewrite is_fin_abs | exact is_fin_max_estimate].
  rewrite FR_abs, FR_max_estimate in Hle.
  rewrite is_fin_equiv in Hf. unfold f_scaled_to_Z. rewrite <- FP.B2SF_Prim2B.
  unfold FR in Hle. unfold P2B in * .
  destruct (FP.Prim2B x) as [s|s| |s m e Hb]; try discriminate.
  - exists 0. split; [reflexivity | unfold EST_BOUND; simpl; lia].
  - cbn [B2SF]. eexists. split; [reflexivity|].
    cbn [B2R] in Hle. unfold F2R in Hle. cbn [Fnum Fexp] in Hle.
    assert (Hm : (IZR (Z.pos m) * bpow radix2 e <= IZR (10 ^ 18))%R).
    { destruct s; cbn [cond_Zopp] in Hle.
      - change (IZR (Z.neg m)) with (IZR (- Z.pos m)) in Hle. rewrite opp_IZR in Hle.
        replace (- IZR (Z.pos m) * bpow radix2 e)%R with (- (IZR (Z.pos m) * bpow radix2 e))%R in Hle by ring.
        rewrite Rabs_Ropp in Hle.
        rewrite Rabs_pos_eq in Hle; [exact Hle|].
        apply Rmult_le_pos; [apply IZR_le; lia | apply bpow_ge_0].
      - rewrite Rabs_pos_eq in Hle; [exact Hle|].
        apply Rmult_le_pos; [apply IZR_le; lia | apply bpow_ge_0]. }
    assert (Hv : 0 <= (if 0 <=? e + 32 then Z.pos m * 2 ^ (e + 32)
                       else round_half_even_div_pow2 (Z.pos m) (- (e + 32))) <= EST_BOUND).
    { destruct (0 <=? e + 32) eqn:Ek.
      - apply Z.leb_le in Ek. split; [apply Z.mul_nonneg_nonneg; [lia | apply Z.pow_nonneg; lia]|].
        unfold EST_BOUND. apply Z.le_trans with (10 ^ 18 * 2 ^ 32); [|lia].
        apply le_IZR. rewrite !mult_IZR.
        replace (IZR (2 ^ (e + 32))) with (bpow radix2 (e + 32)) by (rewrite <- IZR_Zpower by lia; reflexivity).
        rewrite bpow_plus. change (bpow radix2 32) with (IZR (2 ^ 32)).
        rewrite <- Rmult_assoc. apply Rmult_le_compat_r; [apply IZR_le; lia | exact Hm].
      - apply Z.leb_gt in Ek.
        destruct (rhe_le (Z.pos m) (- (e + 32)) ltac:(lia) ltac:(lia)) as [H0 H1].
        split; [exact H0|]. eapply Z.le_trans; [exact H1|]. unfold EST_BOUND.
        apply Z.add_le_mono_r.
        set (j := - (e + 32)) in * .
        assert (H2 : 0 < 2 ^ j) by (apply Z.pow_pos_nonneg; lia).
        assert (Hq : Z.pos m / 2 ^ j * 2 ^ j <= Z.pos m) by (rewrite Z.mul_comm; apply Z.mul_div_le; lia).
        apply le_IZR. apply IZR_le in Hq. rewrite mult_IZR in Hq.
        replace (IZR (2 ^ j)) with (bpow radix2 j) in Hq by (rewrite <- IZR_Zpower by lia; reflexivity).
        rewrite mult_IZR. change (IZR (2 ^ 32)) with (bpow radix2 32).
        assert (He : (bpow radix2 e = bpow radix2 (- j) * bpow radix2 (- 32))%R).
        { rewrite <- bpow_plus. f_equal. unfold j. lia. }
        assert (Hpos : (0 < bpow radix2 j)%R) by apply bpow_gt_0.
        assert (Hinv : (bpow radix2 (- j) * bpow radix2 j = 1)%R) by (rewrite <- bpow_plus; replace (- j + j) with 0 by lia; reflexivity).
        assert (H32 : (bpow radix2 (- 32) * bpow radix2 32 = 1)%R) by (rewrite <- bpow_plus; reflexivity).
        set (Q := IZR (Z.pos m / 2 ^ j)) in * .
        assert (HQ : (Q <= IZR (Z.pos m) * bpow radix2 (- j))%R).
        { apply Rmult_le_reg_r with (bpow radix2 j); [exact Hpos|].
          rewrite Rmult_assoc, Hinv, Rmult_1_r. exact Hq. }
        rewrite He in Hm.
        assert (Hm' : (IZR (Z.pos m) * bpow radix2 (- j) <= IZR (10 ^ 18) * bpow radix2 32)%R).
        { apply Rmult_le_reg_r with (bpow radix2 (- 32)); [apply bpow_gt_0|].
          rewrite (Rmult_assoc (IZR (10 ^ 18))). rewrite (Rmult_comm (bpow radix2 32)), H32, Rmult_1_r.
          rewrite Rmult_assoc. exact Hm. }
        lra. }
    destruct s; [rewrite Z.abs_opp|]; rewrite Z.abs_eq; lia.
Qed.

Lemma from_seconds_ok dbg x :
  is_fin x = true -> (fabs x <=. c_max_estimate) = true ->
  exists d, d_from_seconds dbg x = Ok d.
Proof.
  intros Hf Hle. destruct (f_scaled_bound x Hf Hle) as (v & Hv & Hb).
  unfold d_from_seconds, dur_from_seconds, f2fix. rewrite Hv.
  unfold EST_BOUND in Hb.
  assert (Hin : in_i 128 v = true).
  { unfold in_i. apply andb_true_iff. split; [apply Z.leb_le | apply Z.ltb_lt]; simpl; lia. }
  unfold w_i128 at 1. rewrite Hin. cbn [obind].
  unfold fix_mul. replace (v * (NS_PER_S * FRAC) / FRAC) with (v * NS_PER_S).
  2:{ rewrite Z.mul_assoc. symmetry. apply Z.div_mul. unfold FRAC. lia. }
  assert (Hin2 : in_i 128 (v * NS_PER_S) = true).
  { unfold in_i, NS_PER_S. apply andb_true_iff. split; [apply Z.leb_le | apply Z.ltb_lt]; simpl; lia. }
  unfold w_i128. rewrite Hin2. eauto.
Qed.

Lemma from_seconds_opp_ok dbg x :
  is_fin x = true -> (fabs x <=. c_max_estimate) = true ->
  exists d, d_from_seconds dbg (-. x) = Ok d.
Proof.
  intros Hf Hle. apply from_seconds_ok; [now rewrite is_fin_opp|].
  apply R_leb_true; [now rewrite is_fin_abs, is_fin_opp | exact is_fin_max_estimate|].
  rewrite FR_abs, FR_opp, Rabs_Ropp, <- FR_abs.
  apply leb_true_R; [now rewrite is_fin_abs | exact is_fin_max_estimate | exact Hle].
Qed.

(** ---- Part 2: the Kalman filter after the F24 patch ---- *)
Definition time_ok (t : Z) : Prop := 0 <= t < 2 ^ 127.
Definition reply_ok (r : reply) : Prop := match r with Some t => time_ok t | None => True end.
Definition clk_ok (c : clk) : Prop := Forall reply_ok (c_replies c).

(** [msafe m Q]: on a clock whose replies are times below 2^127 (bit patterns, i.e. far
    beyond 2^63 ns), [m] does not panic, its result satisfies [Q], and the remaining
    replies are still such times *)
Definition msafe {A} (m : CM A) (Q : A -> Prop) : Prop :=
  forall c, clk_ok c -> exists a, snd (m c) = Ok a /\ Q a /\ clk_ok (fst (m c)).

Lemma msafe_ret {A} (a : A) (Q : A -> Prop) : Q a -> msafe (mret a) Q.
Proof. intros H c Hc. exists a. simpl. auto. Qed.

Lemma msafe_bind {A B} (m : CM A) (f : A -> CM B) Q1 Q2 :
  msafe m Q1 -> (forall a, Q1 a -> msafe (f a) Q2) -> msafe (mbind m f) Q2.
Proof.
  intros Hm Hf c Hc. unfold mbind. destruct (Hm c Hc) as (a & E & Ha & Hc1).
  destruct (m c) as [c1 r]. simpl in * . subst r. apply Hf; assumption.
Qed.

Lemma msafe_lift {A} (o : outcome A) (Q : A -> Prop) :
  (exists a, o = Ok a /\ Q a) -> msafe (mlift o) Q.
Proof. intros (a & -> & H) c Hc. exists a. simpl. auto. Qed.

Lemma msafe_call (x : cmd) (Q : reply -> Prop) :
  (forall r, reply_ok r -> Q r) -> msafe (mcall x) Q.
Proof.
  intros HQ c Hc. unfold mcall, clk_call, clk_ok in * .
  destruct (c_replies c) as [|r rs] eqn:E; simpl.
  - exists None. repeat split; auto. apply HQ. exact I.
  - inversion Hc; subst. exists r. repeat split; auto.
Qed.

Lemma msafe_weaken {A} (m : CM A) (Q Q' : A -> Prop) :
  msafe m Q -> (forall a, Q a -> Q' a) -> msafe m Q'.
Proof. intros H HQ c Hc. destruct (H c Hc) as (a & E & Ha & Hc1). exists a. auto. Qed.

(** configuration: what the documented ranges of KalmanConfiguration give
    (precision_hysteresis <= 127, estimation boundaries not both degenerate, non-negative
    bounds), and the model is the patched one *)
Definition cfg_ok (cfg : kcfg) : Prop :=
  c_f24 cfg = true /\
  in_i 8 (- wrap_i 8 (c_hyst cfg)) = true /\
  ((0 <? c_diff_bound cfg) || (c_stat_bound cfg <=? 0)) = true /\
  (-. c_max_steer cfg <=. c_max_steer cfg) = true /\
  (-. c_max_freq_offset cfg <=. c_max_freq_offset cfg) = true.

(** invariant of the filter state *)
Definition stamp_ok (o : option (Z * Z)) : Prop :=
  match o with Some (t, _) => time_ok t | None => True end.
Definition est_inv (e : estimator) : Prop :=
  length (e_data e) = 32%nat /\ 0 <= e_fill e <= 32 /\
  stamp_ok (e_last_sync e) /\ stamp_ok (e_last_delay e).
Definition inner_ok (f : inner) : Prop := inner_valid f = true /\ 0 <= i_time f.
Definition base_ok (b : option inner) : Prop :=
  match b with Some f => inner_ok f | None => True end.
Definition base_tok (b : option inner) : Prop :=
  match b with Some f => 0 <= i_time f | None => True end.
Definition kinv (s : kstate) : Prop :=
  base_ok (k_run s) /\ base_tok (k_wan s) /\ est_inv (k_est s).

Lemma base_ok_tok b : base_ok b -> base_tok b.
Proof. destruct b; simpl; [intros [_ H]; exact H | auto]. Qed.

(* entries of a matrix all of whose entries are finite *)
Lemma ment_fin m i j : forallb (forallb is_fin) m = true -> is_fin (ment m i j) = true.
Proof.
  intros H. unfold ment.
  destruct (nth_in_or_default i m []) as [Hi | ->].
  - rewrite forallb_forall in H. specialize (H _ Hi).
    destruct (nth_in_or_default j (nth i m []) fzero) as [Hj | ->]; [|reflexivity].
    rewrite forallb_forall in H. apply H, Hj.
  - destruct j; reflexivity.
Qed.

Lemma zero_le_max : (fabs fzero <=. c_max_estimate) = true.
Proof. reflexivity. Qed.

(* the estimates read from a valid (or absent) filter convert to Durations *)
Lemma base_ok_offset b : base_ok b ->
  is_fin (base_offset b) = true /\ (fabs (base_offset b) <=. c_max_estimate) = true.
Proof.
  destruct b as [f|]; simpl; [|split; reflexivity].
  intros [Hv _]. unfold inner_valid in Hv.
  repeat (apply andb_true_iff in Hv; destruct Hv as [Hv ?]).
  split; [apply ment_fin; assumption | assumption].
Qed.
Lemma base_ok_delay b : base_ok b ->
  is_fin (base_mean_delay b) = true /\ (fabs (base_mean_delay b) <=. c_max_estimate) = true.
Proof.
  destruct b as [f|]; simpl; [|split; reflexivity].
  intros [Hv _]. unfold inner_valid in Hv.
  repeat (apply andb_true_iff in Hv; destruct Hv as [Hv ?]).
  split; [apply ment_fin; assumption | assumption].
Qed.

Lemma base_check_ok cfg b : c_f24 cfg = true -> base_tok b -> base_ok (base_check cfg b).
Proof.
  intros Hc Ht. unfold base_check. rewrite Hc. destruct b as [f|]; [|exact I].
  destruct (inner_valid f) eqn:E; simpl; [split; assumption | exact I].
Qed.

(** time arithmetic on admissible times *)
Lemma t_diff_ok dbg a b : time_ok a -> time_ok b ->
  exists d, t_diff dbg a b = Ok d /\ - 2 ^ 127 < d < 2 ^ 127.
Proof.
  intros [Ha0 Ha1] [Hb0 Hb1]. unfold t_diff, d_of_time, d_sub, d_neg, d_add, w_i128.
  assert (H1 : in_i 128 a = true) by (unfold in_i; apply andb_true_iff; split; [apply Z.leb_le | apply Z.ltb_lt]; simpl; lia).
  assert (H2 : in_i 128 b = true) by (unfold in_i; apply andb_true_iff; split; [apply Z.leb_le | apply Z.ltb_lt]; simpl; lia).
  rewrite H1, H2. cbn [obind].
  assert (H3 : in_i 128 (- b) = true) by (unfold in_i; apply andb_true_iff; split; [apply Z.leb_le | apply Z.ltb_lt]; simpl; lia).
  rewrite H3. cbn [obind].
  assert (H4 : in_i 128 (a + - b) = true) by (unfold in_i; apply andb_true_iff; split; [apply Z.leb_le | apply Z.ltb_lt]; simpl; lia).
  rewrite H4. eexists. split; [reflexivity | lia].
Qed.

Lemma d_abs_ok dbg d : - 2 ^ 127 < d < 2 ^ 127 -> d_abs dbg d = Ok (Z.abs d).
Proof.
  intros H. unfold d_abs, w_i128.
  assert (H1 : in_i 128 (Z.abs d) = true) by (unfold in_i; apply andb_true_iff; split; [apply Z.leb_le | apply Z.ltb_lt]; simpl; lia).
  now rewrite H1.
Qed.

(** ---- the measurement error estimator ---- *)
Ltac inv_tac := unfold time_ok in * ; repeat split; simpl; auto; try lia.
Lemma est_max_some l : l <> [] -> exists a, est_max l = Some a.
Proof. destruct l; [congruence | simpl; eauto]. Qed.
Lemma est_min_some l : l <> [] -> exists a, est_min l = Some a.
Proof. destruct l; [congruence | simpl; eauto]. Qed.

Lemma est_mv_ok cfg e : cfg_ok cfg -> est_inv e -> exists v, est_measurement_variance cfg e = Ok v.
Proof.
  intros (_ & _ & Hb & _) (Hl & Hf & _). unfold est_measurement_variance.
  destruct (e_fill e <? c_diff_bound cfg) eqn:E1; [eauto|].
  destruct (e_fill e <? c_stat_bound cfg) eqn:E2; [|eauto].
  apply Z.ltb_ge in E1. apply Z.ltb_lt in E2.
  assert (H1 : 1 <= e_fill e).
  { apply orb_true_iff in Hb. destruct Hb as [Hb | Hb]; [apply Z.ltb_lt in Hb | apply Z.leb_le in Hb]; lia. }
  assert (Hne : est_taken e <> []).
  { unfold est_taken. intros Hnil. apply (f_equal (@length float)) in Hnil.
    rewrite firstn_length, Hl in Hnil. simpl in Hnil. lia. }
  unfold est_range_size.
  destruct (est_max_some _ Hne) as [a ->]. destruct (est_min_some _ Hne) as [b ->].
  simpl. eauto.
Qed.

Lemma list_set_length l n v : length (list_set l n v) = length l.
Proof. revert n. induction l as [|x l IH]; intros [|n]; simpl; auto. Qed.

Lemma est_insert_inv e x : est_inv e -> est_inv (est_insert e x).
Proof.
  intros (Hl & Hf & Hs & Hd). unfold est_insert, est_inv. cbn [e_data e_fill e_last_sync e_last_delay].
  rewrite list_set_length. repeat split; auto; lia.
Qed.

Lemma obind_ok {A B} (x : outcome A) (f : A -> outcome B) (P : A -> Prop) (Q : B -> Prop) :
  (exists a, x = Ok a /\ P a) -> (forall a, P a -> exists b, f a = Ok b /\ Q b) ->
  exists b, obind x f = Ok b /\ Q b.
Proof. intros (a & -> & Ha) Hf. simpl. apply Hf, Ha. Qed.

Lemma est_absorb_ok dbg cfg e m freq :
  est_inv e -> time_ok (m_time m) ->
  exists e', est_absorb dbg cfg e m freq = Ok e' /\ est_inv e'.
Proof.
  intros He Ht. unfold est_absorb.
  apply obind_ok with (P := est_inv).
  { destruct He as (Hl & Hf & Hs & Hd).
    destruct (m_sync m) as [so|]; [|exists e; split; [reflexivity | inv_tac]].
    destruct (e_last_delay e) as [[time dof]|] eqn:Ed.
    - simpl in Hd. destruct (t_diff_ok dbg _ _ Ht Hd) as (d & -> & Hdr). cbn [obind].
      rewrite (d_abs_ok dbg d Hdr). cbn [obind].
      destruct (Z.abs d <? c_est_threshold cfg).
      + destruct (t_diff_ok dbg _ _ Hd Ht) as (d2 & -> & _). cbn [obind].
        eexists. split; [reflexivity|]. apply est_insert_inv. inv_tac.
      + eexists. split; [reflexivity|]. inv_tac.
    - eexists. split; [reflexivity|]. inv_tac. }
  intros e1 He1. apply obind_ok with (P := est_inv).
  { destruct He1 as (Hl & Hf & Hs & Hd).
    destruct (m_dly m) as [dof|]; [|exists e1; split; [reflexivity | inv_tac]].
    destruct (e_last_sync e1) as [[time sof]|] eqn:Es.
    - simpl in Hs. destruct (t_diff_ok dbg _ _ Ht Hs) as (d & -> & Hdr). cbn [obind].
      rewrite (d_abs_ok dbg d Hdr). cbn [obind].
      destruct (Z.abs d <? c_est_threshold cfg).
      + eexists. split; [reflexivity|]. apply est_insert_inv. inv_tac.
      + eexists. split; [reflexivity|]. inv_tac.
    - eexists. split; [reflexivity|]. inv_tac. }
  intros e2 He2.
  destruct (m_peer m) as [pd|]; [|eauto].
  eexists. split; [reflexivity|]. apply est_insert_inv.
  destruct He2 as (Hl & Hf & Hs & Hd). inv_tac.
Qed.

(** ---- InnerFilter / BaseFilter ---- *)
Lemma inner_progress_ok dbg cfg f time w :
  0 <= i_time f -> time_ok time ->
  exists f', inner_progress dbg cfg f time w = Ok f' /\ 0 <= i_time f'.
Proof.
  intros Hf Ht. unfold inner_progress. destruct (time <? i_time f) eqn:E; [eauto|].
  apply Z.ltb_ge in E.
  assert (Hft : time_ok (i_time f)) by (unfold time_ok in * ; lia).
  destruct (t_diff_ok dbg _ _ Ht Hft) as (d & -> & _). cbn [obind].
  eexists. split; [reflexivity|]. simpl. unfold time_ok in Ht. lia.
Qed.

Lemma base_progress_ok dbg cfg b time w :
  c_f24 cfg = true -> base_tok b -> time_ok time ->
  exists b', base_progress dbg cfg b time w = Ok b' /\ base_ok b'.
Proof.
  intros Hc Hb Ht. unfold base_progress. destruct b as [f|].
  - destruct (inner_progress_ok dbg cfg f time w Hb Ht) as (f' & -> & Hf'). cbn [obind].
    eexists. split; [reflexivity|]. apply base_check_ok; assumption.
  - eexists. split; [reflexivity|]. apply base_check_ok; [assumption|]. simpl. unfold time_ok in Ht. lia.
Qed.

Lemma inner_absorb_time cfg f z h v : i_time (inner_absorb cfg f z h v) = i_time f.
Proof.
  unfold inner_absorb. destruct (inner_predict f h) as [p u].
  destruct (c_f24 cfg && negb _); reflexivity.
Qed.

Lemma base_absorb_offset_ok cfg b h z v :
  c_f24 cfg = true -> base_tok b -> base_ok (base_absorb_offset cfg b h z v).
Proof.
  intros Hc Hb. unfold base_absorb_offset. apply base_check_ok; [assumption|].
  destruct b as [f|]; [|exact I]. simpl in Hb.
  destruct (fabs (z -. ment (i_state f) 0 0) >. dur_seconds (c_step_threshold cfg)); simpl.
  - exact Hb.
  - now rewrite inner_absorb_time.
Qed.

Lemma base_absorb_peer_ok cfg b z v :
  c_f24 cfg = true -> base_tok b -> base_ok (base_absorb_peer cfg b z v).
Proof.
  intros Hc Hb. unfold base_absorb_peer. apply base_check_ok; [assumption|].
  destruct b as [f|]; [|exact I]. simpl in * . now rewrite inner_absorb_time.
Qed.

Lemma base_freq_steer_ok dbg cfg b steer time w :
  c_f24 cfg = true -> base_tok b -> time_ok time ->
  exists b', base_freq_steer dbg cfg b steer time w = Ok b' /\ base_ok b'.
Proof.
  intros Hc Hb Ht. unfold base_freq_steer. destruct b as [f|].
  - unfold inner_freq_steer.
    destruct (inner_progress_ok dbg cfg f time w Hb Ht) as (f' & -> & Hf'). cbn [obind].
    eexists. split; [reflexivity|]. apply base_check_ok; [assumption|]. exact Hf'.
  - eexists. split; [reflexivity|]. apply base_check_ok; [assumption|]. simpl. unfold time_ok in Ht. lia.
Qed.

Lemma t_add_d_nonneg t d t' : 0 <= t -> t_add_d t d = Ok t' -> 0 <= t'.
Proof.
  intros Ht. unfold t_add_d. destruct (d <? 0); intros H; inversion H; subst; lia.
Qed.

Lemma base_offset_steer_ok dbg cfg b steer :
  c_f24 cfg = true -> base_tok b -> (exists d, d_from_seconds dbg steer = Ok d) ->
  exists b', base_offset_steer dbg cfg b steer = Ok b' /\ base_ok b'.
Proof.
  intros Hc Hb (d & Hd). unfold base_offset_steer. destruct b as [f|]; [|eexists; split; [reflexivity | exact I]].
  unfold inner_offset_steer. rewrite Hd. cbn [obind].
  destruct (t_add_d (i_time f) d) as [t|n] eqn:Et.
  - cbn [obind]. eexists. split; [reflexivity|]. apply base_check_ok; [assumption|].
    simpl. eapply t_add_d_nonneg; eauto.
  - unfold t_add_d in Et. destruct (d <? 0); discriminate.
Qed.

(** ---- KalmanFilter ---- *)
Section KalmanSafe.
  Variable exp_fn : float -> float.
  Variable dbg : bool.
  Variable cfg : kcfg.
  Hypothesis Hcfg : cfg_ok cfg.

  Let Hf24 : c_f24 cfg = true := proj1 Hcfg.

  Ltac ksplit := split; [|split]; simpl; auto using base_ok_tok.

  Lemma wander_score_update_ok s u p a :
    kinv s -> exists s', wander_score_update exp_fn cfg s u p a = Ok s' /\ kinv s'.
  Proof.
    intros (Hr & Hw & He). unfold wander_score_update.
    destruct (est_mv_ok cfg (k_est s) Hcfg He) as (mv & ->). cbn [obind].
    destruct (k_wme s >. c_10 *. fsqrt mv).
    - eexists. split; [reflexivity|]. ksplit.
    - destruct (fsqrt u >. c_10 *. k_wme s).
      + eexists. split; [reflexivity|]. ksplit.
      + eexists. split; [reflexivity|]. ksplit.
  Qed.

  Lemma update_wander_ok s m :
    kinv s -> time_ok (m_time m) ->
    exists s', update_wander exp_fn dbg cfg s m = Ok s' /\ kinv s'.
  Proof.
    intros (Hr & Hw & He) Ht. unfold update_wander.
    destruct (base_progress_ok dbg cfg (k_wan s) (m_time m) (k_wander s) Hf24 Hw Ht) as (w & -> & Hw'). cbn [obind].
    set (s0 := mk_kstate (k_run s) w (k_score s) (k_wander s) (k_wme s) (k_est s) (k_cur s) (k_near s)).
    assert (H0 : kinv s0) by (repeat split; simpl; auto using base_ok_tok; apply He).
    apply obind_ok with (P := kinv).
    { destruct (m_sync m) as [so|]; [|eauto].
      destruct (base_predict cfg (k_wan s0) H_SYNC) as [p u]. apply wander_score_update_ok, H0. }
    intros s1 H1. apply obind_ok with (P := kinv).
    { destruct (m_dly m) as [d|]; [|eauto].
      destruct (base_predict cfg (k_wan s1) H_DELAY) as [p u]. apply wander_score_update_ok, H1. }
    intros s2 (Hr2 & Hw2 & He2).
    pose proof Hcfg as (_ & Hh & _). rewrite Hh. cbn [obind].
    eexists. split; [reflexivity|].
    destruct (k_score s2 <? - wrap_i 8 (c_hyst cfg)); cbn [k_run k_wan k_est k_score];
      match goal with |- context [if ?b then _ else _] => destruct b end;
      ksplit.
  Qed.

  Lemma ensure_freq_init_safe s : kinv s -> msafe (ensure_freq_init s) kinv.
  Proof.
    intros Hs. unfold ensure_freq_init. destruct (k_cur s); [apply msafe_ret, Hs|].
    eapply msafe_bind; [apply (msafe_call _ (fun _ => True)); auto|].
    intros [t|] _; apply msafe_ret; exact Hs.
  Qed.

  Lemma freq_command_some s cur target : exists f, freq_command cfg s cur target = Some f.
  Proof.
    unfold freq_command, fclamp. pose proof Hcfg as (_ & _ & _ & _ & Hb). rewrite Hb. eauto.
  Qed.

  Lemma change_frequency_safe s target : kinv s -> msafe (change_frequency dbg cfg s target) kinv.
  Proof.
    intros (Hr & Hw & He). unfold change_frequency.
    destruct (k_cur s) as [cur|]; [|apply msafe_ret; ksplit].
    destruct (freq_command_some s cur target) as (f & ->).
    destruct (is_fin f); [|apply msafe_ret; ksplit].
    eapply msafe_bind; [apply (msafe_call _ reply_ok); auto|].
    intros [time|] Hrep; [|apply msafe_ret; ksplit].
    simpl in Hrep.
    eapply msafe_bind.
    { apply msafe_lift with (Q := base_ok). apply base_freq_steer_ok; auto using base_ok_tok. }
    intros run Hrun. eapply msafe_bind.
    { apply msafe_lift with (Q := base_ok). apply base_freq_steer_ok; auto. }
    intros wan Hwan. apply msafe_ret. ksplit.
  Qed.

  Lemma mean_delay_update_ok s : kinv s -> exists d, mean_delay_update dbg s = Ok d.
  Proof.
    intros (Hr & _). unfold mean_delay_update.
    destruct (base_ok_delay _ Hr) as [H1 H2].
    destruct (from_seconds_ok dbg _ H1 H2) as (d & ->). simpl. eauto.
  Qed.

  Lemma kalman_step_safe s : kinv s -> msafe (kalman_step dbg cfg s (base_offset (k_run s))) kinv.
  Proof.
    intros (Hr & Hw & He). unfold kalman_step.
    destruct (base_ok_offset _ Hr) as [H1 H2].
    pose proof (from_seconds_opp_ok dbg _ H1 H2) as Hd.
    eapply msafe_bind; [apply msafe_lift with (Q := fun _ => True); destruct Hd as (d & ->); eauto|].
    intros d _. eapply msafe_bind; [apply (msafe_call _ (fun _ => True)); auto|].
    intros [t|] _; [|apply msafe_ret; ksplit].
    eapply msafe_bind.
    { apply msafe_lift with (Q := base_ok). apply base_offset_steer_ok; auto using base_ok_tok. }
    intros run Hrun. eapply msafe_bind.
    { apply msafe_lift with (Q := base_ok). apply base_offset_steer_ok; auto. }
    intros wan Hwan. apply msafe_ret. ksplit.
  Qed.

  Lemma steer_target_ok s : exists t, steer_target cfg s = Ok t.
  Proof.
    unfold steer_target, fclamp. pose proof Hcfg as (_ & _ & _ & Hms & _). rewrite Hms. eauto.
  Qed.

  Lemma kalman_steer_safe s : kinv s -> msafe (kalman_steer dbg cfg s) (fun r => kinv (fst r)).
  Proof.
    intros Hs. unfold kalman_steer.
    destruct (fabs (base_offset (k_run s)) <. dur_seconds (c_step_threshold cfg)).
    - eapply msafe_bind; [apply msafe_lift with (Q := fun _ => True); destruct (steer_target_ok s) as (t & ->); eauto|].
      intros t _. eapply msafe_bind; [apply change_frequency_safe, Hs|].
      intros s' Hs'. eapply msafe_bind; [apply msafe_lift with (Q := fun _ => True); destruct (mean_delay_update_ok s' Hs') as (d & ->); eauto|].
      intros md _. apply msafe_ret. exact Hs'.
    - eapply msafe_bind; [apply kalman_step_safe, Hs|].
      intros s' Hs'. eapply msafe_bind; [apply msafe_lift with (Q := fun _ => True); destruct (mean_delay_update_ok s' Hs') as (d & ->); eauto|].
      intros md _. apply msafe_ret. exact Hs'.
  Qed.

  Lemma variance_factor_ok s : kinv s -> exists v, variance_factor cfg s = Ok v.
  Proof.
    intros (_ & _ & He). unfold variance_factor.
    destruct (est_mv_ok cfg (k_est s) Hcfg He) as (mv & ->). simpl. eauto.
  Qed.

  Lemma absorb_with_safe s h z : kinv s -> msafe (absorb_with cfg s h z) kinv.
  Proof.
    intros Hs. unfold absorb_with.
    eapply msafe_bind; [apply ensure_freq_init_safe, Hs|].
    intros s' Hs'. eapply msafe_bind.
    { apply msafe_lift with (Q := fun _ => True). destruct (variance_factor_ok s' Hs') as (v & ->). eauto. }
    intros v _. apply msafe_ret. destruct Hs' as (Hr & Hw & He).
    ksplit.
    apply base_absorb_offset_ok; auto using base_ok_tok.
  Qed.

  Lemma kalman_measurement_safe s m :
    kinv s -> time_ok (m_time m) ->
    msafe (kalman_measurement exp_fn dbg cfg s m) (fun r => kinv (fst r)).
  Proof.
    intros Hs Ht. unfold kalman_measurement.
    destruct (negb (base_after_filter_time (k_run s) (m_time m))); [apply msafe_ret, Hs|].
    destruct Hs as (Hr & Hw & He).
    eapply msafe_bind.
    { apply msafe_lift with (Q := est_inv). apply est_absorb_ok; assumption. }
    intros est Hest.
    eapply msafe_bind.
    { apply msafe_lift with (Q := kinv). apply update_wander_ok; [|assumption]. ksplit. }
    intros s2 (Hr2 & Hw2 & He2).
    eapply msafe_bind.
    { apply msafe_lift with (Q := base_ok). apply base_progress_ok; auto using base_ok_tok. }
    intros run Hrun.
    assert (H3 : kinv (set_run s2 run)) by (ksplit).
    eapply msafe_bind with (Q1 := kinv).
    { destruct (m_sync m); [apply absorb_with_safe, H3 | apply msafe_ret, H3]. }
    intros s4 H4. eapply msafe_bind with (Q1 := kinv).
    { destruct (m_dly m); [apply absorb_with_safe, H4 | apply msafe_ret, H4]. }
    intros s5 H5. eapply msafe_bind with (Q1 := kinv).
    { destruct (m_peer m) as [pd|]; [|apply msafe_ret, H5].
      eapply msafe_bind.
      { apply msafe_lift with (Q := fun _ => True). destruct (variance_factor_ok s5 H5) as (v & ->). eauto. }
      intros v _. apply msafe_ret. destruct H5 as (Hr5 & Hw5 & He5).
      ksplit.
      apply base_absorb_peer_ok; auto using base_ok_tok. }
    intros s6 H6. apply kalman_steer_safe, H6.
  Qed.

  Lemma kalman_update_safe s : kinv s -> msafe (kalman_update dbg cfg s) (fun r => kinv (fst r)).
  Proof.
    intros Hs. unfold kalman_update.
    eapply msafe_bind; [apply change_frequency_safe, Hs|].
    intros s' Hs'. eapply msafe_bind; [apply msafe_lift with (Q := fun _ => True); destruct (mean_delay_update_ok s' Hs') as (d & ->); eauto|].
    intros md _. apply msafe_ret. exact Hs'.
  Qed.

  Lemma kalman_demobilize_safe s : kinv s -> msafe (kalman_demobilize dbg cfg s) (fun _ => True).
  Proof.
    intros Hs. unfold kalman_demobilize.
    eapply msafe_bind; [apply change_frequency_safe, Hs|]. intros s' _. apply msafe_ret. exact I.
  Qed.

  Lemma kalman_estimates_ok s : kinv s -> exists r, kalman_estimates dbg s = Ok r.
  Proof.
    intros (Hr & _). unfold kalman_estimates.
    destruct (base_ok_offset _ Hr) as [H1 H2]. destruct (from_seconds_ok dbg _ H1 H2) as (o & ->). cbn [obind].
    destruct (base_ok_delay _ Hr) as [H3 H4]. destruct (from_seconds_ok dbg _ H3 H4) as (d & ->). cbn [obind].
    eauto.
  Qed.

  Lemma est_default_inv : est_inv est_default.
  Proof. repeat split; simpl; auto; lia. Qed.

  Lemma kalman_new_ok : exists s, kalman_new cfg = Ok s /\ kinv s.
  Proof.
    unfold kalman_new. destruct (est_mv_ok cfg est_default Hcfg est_default_inv) as (mv & ->). cbn [obind].
    eexists. split; [reflexivity|]. ksplit. apply est_default_inv.
  Qed.
End KalmanSafe.

(** ---- whole runs: every event returns, the invariant is preserved ---- *)
Definition event_ok (e : event) : Prop :=
  match e with EMeas m => time_ok (m_time m) | _ => True end.

Section Runs.
  Variable exp_fn : float -> float.
  Variable dbg : bool.
  Variable cfg : kcfg.
  Hypothesis Hcfg : cfg_ok cfg.

  Lemma run_event_kalman_ok ks e rs :
    kinv ks -> event_ok e -> Forall reply_ok rs ->
    exists ks' rs' o,
      run_event exp_fn dbg (FKalman cfg) (SK ks) e rs = (Some (SK ks'), rs', o)
      /\ kinv ks' /\ Forall reply_ok rs' /\ obs_returned o = true.
  Proof.
    intros Hk He Hrs.
    assert (Hc : clk_ok (mk_clk rs [])) by exact Hrs.
    unfold run_event. destruct e as [m| |].
    - destruct (kalman_measurement_safe exp_fn dbg cfg Hcfg ks m Hk He _ Hc) as ([s' u] & E & Hk' & Hc').
      unfold mbind. destruct (kalman_measurement exp_fn dbg cfg ks m (mk_clk rs [])) as [c1 r].
      simpl in E, Hc'. subst r. cbn [mret].
      destruct (kalman_estimates_ok dbg s' Hk') as (est & Eest).
      exists s', (c_replies c1). eexists. split; [reflexivity|].
      split; [exact Hk'|]. split; [exact Hc'|].
      unfold obs_returned. cbn [o_res o_est filter_estimates]. rewrite Eest. reflexivity.
    - destruct (kalman_update_safe dbg cfg Hcfg ks Hk _ Hc) as ([s' u] & E & Hk' & Hc').
      unfold mbind. destruct (kalman_update dbg cfg ks (mk_clk rs [])) as [c1 r].
      simpl in E, Hc'. subst r. cbn [mret].
      destruct (kalman_estimates_ok dbg s' Hk') as (est & Eest).
      exists s', (c_replies c1). eexists. split; [reflexivity|].
      split; [exact Hk'|]. split; [exact Hc'|].
      unfold obs_returned. cbn [o_res o_est filter_estimates]. rewrite Eest. reflexivity.
    - destruct (kalman_demobilize_safe dbg cfg Hcfg ks Hk _ Hc) as ([] & E & _ & Hc').
      unfold mbind. destruct (kalman_demobilize dbg cfg ks (mk_clk rs [])) as [c1 r].
      simpl in E, Hc'. subst r.
      destruct (kalman_new_ok cfg Hcfg) as (s' & En & Hk'). unfold mlift. rewrite En. cbn [mret].
      destruct (kalman_estimates_ok dbg s' Hk') as (est & Eest).
      exists s', (c_replies c1). eexists. split; [reflexivity|].
      split; [exact Hk'|]. split; [exact Hc'|].
      unfold obs_returned. cbn [o_res o_est filter_estimates]. rewrite Eest. reflexivity.
  Qed.

  Lemma warm_replies_ok wr : reply_ok wr -> Forall reply_ok (warm_replies wr).
  Proof. intros H. unfold warm_replies. apply Forall_forall. intros x Hx. apply repeat_spec in Hx. now subst. Qed.

  Lemma warm_once_ok ks pat wr idx :
    kinv ks -> Forall event_ok pat -> reply_ok wr ->
    exists ks', warm_once exp_fn dbg (FKalman cfg) (SK ks) pat wr idx = inl (SK ks') /\ kinv ks'.
  Proof.
    intros Hk Hp Hw. revert ks idx Hk. induction Hp as [|e pat He Hp IH]; intros ks idx Hk; cbn [warm_once].
    - eauto.
    - destruct (run_event_kalman_ok ks e _ Hk He (warm_replies_ok wr Hw)) as (ks' & rs' & o & -> & Hk' & _ & Ho).
      unfold obs_returned in Ho. destruct (o_res o); [|discriminate]. destruct (o_est o); [|discriminate].
      apply IH, Hk'.
  Qed.

  Lemma warm_loop_ok ks pat wr n idx :
    kinv ks -> Forall event_ok pat -> reply_ok wr ->
    exists ks', warm_loop exp_fn dbg (FKalman cfg) (SK ks) pat wr n idx = inl (SK ks') /\ kinv ks'.
  Proof.
    intros Hk Hp Hw. revert ks idx Hk. induction n as [|n IH]; intros ks idx Hk; cbn [warm_loop].
    - eauto.
    - destruct (warm_once_ok ks pat wr idx Hk Hp Hw) as (ks' & -> & Hk'). apply IH, Hk'.
  Qed.

  Lemma run_events_p_ok ks es rs :
    kinv ks -> Forall event_ok es -> Forall reply_ok rs ->
    forallb obs_returned (run_events_p exp_fn dbg (FKalman cfg) (SK ks) es rs) = true
    /\ length (run_events_p exp_fn dbg (FKalman cfg) (SK ks) es rs) = length es.
  Proof.
    intros Hk He. revert ks rs Hk. induction He as [|e es He Hes IH]; intros ks rs Hk Hrs; cbn [run_events_p].
    - auto.
    - destruct (run_event_kalman_ok ks e rs Hk He Hrs) as (ks' & rs' & o & -> & Hk' & Hrs' & Ho).
      pose proof Ho as Ho'. unfold obs_returned in Ho'.
      destruct (o_res o); [|discriminate]. destruct (o_est o); [|discriminate].
      destruct (IH ks' rs' Hk' Hrs') as [H1 H2]. simpl. rewrite Ho, H1, H2. auto.
  Qed.

  (** THE theorem for the patched Kalman filter: on every stream (any warm-up, any events,
      any clock script) whose event times and clock replies are times below 2^127 (as bit
      patterns: 2^95 ns, far beyond the 2^63 ns of the property), with ANY offsets, the
      model's own run satisfies the oracle: every call returned. *)
  Theorem kalman_patched_no_panic pat reps wr es rs :
    Forall event_ok pat -> reply_ok wr -> Forall event_ok es -> Forall reply_ok rs ->
    ok_C03f es (run_p exp_fn dbg (FKalman cfg) pat reps wr es rs) = true.
  Proof.
    intros Hp Hw He Hr. unfold run_p, filter_new.
    destruct (kalman_new_ok cfg Hcfg) as (s & -> & Hk). cbn [obind].
    destruct (warm_loop_ok s pat wr (Z.to_nat reps) 0 Hk Hp Hw) as (s' & -> & Hk').
    destruct (run_events_p_ok s' es rs Hk' He Hr) as [H1 H2].
    unfold ok_C03f. cbn [fst snd]. rewrite H1, H2, Nat.eqb_refl. reflexivity.
  Qed.
End Runs.

(** ---- Part 3: witnesses ---- *)
From SV Require Import Filter.AssertSites.

Definition with_f24 (b : bool) (c : kcfg) : kcfg :=
  mk_kcfg (c_step_threshold c) (c_deadzone c) (c_steer_time c) (c_max_steer c) (c_max_freq_offset c)
          (c_init_freq_unc c) (c_init_wander c) (c_delay_wander c) (c_p_low c) (c_p_high c) (c_hyst c)
          (c_est_threshold c) (c_diff_bound c) (c_stat_bound c) (c_peer_factor c) b.

Definition cfg_today : kcfg := with_f24 false kalman_default_cfg.      (* kalman.rs as it is *)
Definition cfg_patched : kcfg := with_f24 true kalman_default_cfg.     (* kalman.rs + f24.diff *)

(* F24-a: peer delay measurements of 0 ns, one per second; no clock call is made *)
Definition f24_peer_zero : list event :=
  map (fun k => M ((1 + k) * NS_PER_S * FRAC) None None (Some 0) None None) [0; 1; 2; 3; 4; 5].
(* F24-b: Sync / Delay_Resp measurements alternating at one event time, raw offsets +-300 ns *)
Definition f24_equal_times : list event :=
  concat (repeat [M (NS_PER_S * FRAC) None None None (Some (300 * FRAC)) None;
                  M (NS_PER_S * FRAC) None (Some (300 * FRAC)) None None (Some (- 300 * FRAC))] 6).
Definition f24_replies : list reply := repeat (Some (NS_PER_S * FRAC)) 40.

(** the model of today's code does not return from the fifth resp. tenth measurement, in
    both build modes, at the conversion of a NaN estimate (site 201) *)
Lemma today_refuted :
  forallb (fun dbg =>
    negb (ok_C03f f24_peer_zero (run_p exp_eval dbg (FKalman cfg_today) [] 0 None f24_peer_zero []))
    && (length (snd (run_p exp_eval dbg (FKalman cfg_today) [] 0 None f24_peer_zero [])) =? 5)%nat
    && negb (ok_C03f f24_equal_times (run_p exp_eval dbg (FKalman cfg_today) [] 0 None f24_equal_times f24_replies))
    && (length (snd (run_p exp_eval dbg (FKalman cfg_today) [] 0 None f24_equal_times f24_replies)) =? 10)%nat
    && match first_site exp_eval dbg (FKalman cfg_today) [] 0 None f24_peer_zero [] with
       | Some n => Nat.eqb n site_float_to_fixed | None => false end
    && match first_site exp_eval dbg (FKalman cfg_today) [] 0 None f24_equal_times f24_replies with
       | Some n => Nat.eqb n site_float_to_fixed | None => false end)
    [true; false] = true.
Proof. vm_compute. reflexivity. Qed.

Lemma cfg_patched_ok : cfg_ok cfg_patched.
Proof. repeat split; vm_compute; reflexivity. Qed.

Definition time_okb (t : Z) : bool := (0 <=? t) && (t <? 2 ^ 127).
Definition event_okb (e : event) : bool := match e with EMeas m => time_okb (m_time m) | _ => true end.
Definition reply_okb (r : reply) : bool := match r with Some t => time_okb t | None => true end.
Lemma time_okb_ok t : time_okb t = true -> time_ok t.
Proof. unfold time_okb, time_ok. intros H. apply andb_true_iff in H. destruct H as [H1 H2]. apply Z.leb_le in H1. apply Z.ltb_lt in H2. lia. Qed.
Lemma events_okb_ok es : forallb event_okb es = true -> Forall event_ok es.
Proof.
  intros H. apply Forall_forall. intros e He. rewrite forallb_forall in H. specialize (H e He).
  destruct e; simpl in * ; auto using time_okb_ok.
Qed.
Lemma replies_okb_ok rs : forallb reply_okb rs = true -> Forall reply_ok rs.
Proof.
  intros H. apply Forall_forall. intros r Hr. rewrite forallb_forall in H. specialize (H r Hr).
  destruct r; simpl in * ; auto using time_okb_ok.
Qed.

Lemma f24_streams_admissible :
  Forall event_ok f24_peer_zero /\ Forall event_ok f24_equal_times /\ Forall reply_ok f24_replies.
Proof.
  split; [|split]; [apply events_okb_ok | apply events_okb_ok | apply replies_okb_ok]; vm_compute; reflexivity.
Qed.

(** ... and the same streams on the patched model (instances of the theorem, evaluated) *)
Lemma patched_witnesses :
  forallb (fun dbg =>
    ok_C03f f24_peer_zero (run_p exp_eval dbg (FKalman cfg_patched) [] 0 None f24_peer_zero [])
    && ok_C03f f24_equal_times (run_p exp_eval dbg (FKalman cfg_patched) [] 0 None f24_equal_times f24_replies))
    [true; false] = true.
Proof. vm_compute. reflexivity. Qed.
