(** C02 (filter level): plant model and closed loop with the Kalman model; case
    format and executable oracle.  No proofs here.

    The plant is the one of harness/src/bin/c13.rs (struct Plant, mode Good):
    local time [l], true offset [theta] = local - master (both in units of
    2^-32 ns), oscillator error [f0] and commanded frequency [cmd] in ppm.  It is
    written with the same f64 operations as the Rust plant so that the closed
    loop built here reproduces the harness' measurement stream bit for bit. *)
From SV Require Export Filter.FilterCases.

Record plant := mk_plant { p_l : Z; p_theta : Z; p_f0 : float; p_cmd : float; p_latency : Z }.

(* Rust `x as i128` for f64 x: NaN -> 0, truncation toward zero, saturating *)
Definition f_trunc_to_Z (x : float) : Z :=
  match Prim2SF x with
  | S754_finite s m e =>
      let v := if 0 <=? e then Zpos m * 2 ^ e else Zpos m / 2 ^ (- e) in
      let v := if s then - v else v in
      Z.max (- 2 ^ 127) (Z.min (2 ^ 127 - 1) v)
  | S754_infinity s => if s then - 2 ^ 127 else 2 ^ 127 - 1
  | _ => 0
  end.

Definition c_2p32 : float := Eval vm_compute in f_of_Z_scaled (2 ^ 32) 0.
Definition c_nsfrac : float := Eval vm_compute in f_of_Z_scaled (NS_PER_S * FRAC) 0.   (* 1e9 * 2^32, exact *)
(* sec_bits(s) = (s * 1e9 * 4294967296.0) as i128 *)
Definition sec_bits (s : float) : Z := f_trunc_to_Z (s *. c_1e9 *. c_2p32).

Definition plant_advance (p : plant) (dt_bits : Z) : plant :=
  let dt := f_of_Z_scaled dt_bits 0 /. c_nsfrac in
  let rate := (p_f0 p +. (if is_fin (p_cmd p) then p_cmd p else fzero)) *. c_1em6 in
  mk_plant (p_l p + dt_bits) (p_theta p + sec_bits (rate *. dt)) (p_f0 p) (p_cmd p) (p_latency p).

(* effect of the commands of one event on the plant, and the replies it gives *)
Fixpoint plant_apply (p : plant) (cmds : list ocmd) : plant * list reply :=
  match cmds with
  | [] => (p, [])
  | OF bits :: r =>
      let p' := mk_plant (p_l p) (p_theta p) (p_f0 p) (fb bits) (p_latency p) in
      let '(p'', rs) := plant_apply p' r in (p'', Some (p_l p + p_latency p) :: rs)
  | OS d :: r =>
      let l' := p_l p + d in
      if (l' <? 0) || (2 ^ 120 <? l') then
        let '(p'', rs) := plant_apply p r in (p'', None :: rs)
      else
        let p' := mk_plant l' (Z.max (- 2 ^ 127) (Z.min (2 ^ 127 - 1) (p_theta p + d))) (p_f0 p) (p_cmd p) (p_latency p) in
        let '(p'', rs) := plant_apply p' r in (p'', Some (l' + p_latency p) :: rs)
  end.

Record c02params := mk_c02params {
  pp_l0 : Z; pp_theta0 : Z; pp_f0 : float; pp_delay : Z; pp_interval : Z; pp_latency : Z; pp_jit : Z
}.
Definition C02Params (l0 theta0 f0bits delay interval latency jit : Z) : c02params :=
  mk_c02params l0 theta0 (fb f0bits) delay interval latency jit.

(* KalmanConfiguration::default() *)
Definition default_cfg : kcfg :=
  kcfg_bits 4294967000000000 0 8589934592000000000
            4641240890982006784 4645744490609377280 4547007122018943789 4367597403136100796
            4493980547052782275 4599676419421066581 4604180019048437077 16 858993459200000000 4 8
            4611686018427387904.

Section Loop.
  Variable exp_fn : float -> float.
  Variable dbg : bool.
  Variable cfg : kcfg.
  Variable pr : c02params.

  (* one sync or delay measurement in closed loop; [None] state = the filter panicked.
     The replies of the clock depend on the commands (a step moves the clock), the
     commands do not depend on their own replies: run once with provisional
     replies to learn the commands, derive the real replies, run again. *)
  Definition loop_event (p : plant) (s : fstate) (want_delay : bool) (j : Z)
    : plant * option fstate * event * list reply * obs :=
    let adv := if want_delay then pp_interval pr / 16 else pp_interval pr - pp_interval pr / 16 in
    let p1 := plant_advance p adv in
    let t := p_l p1 in
    let ev :=
      if want_delay
      then M t None (Some (pp_delay pr + j)) None None (Some (p_theta p1 - pp_delay pr + j))
      else M t (Some (p_theta p1 + j)) None None (Some (p_theta p1 + pp_delay pr + j)) None in
    let provisional := repeat (Some (p_l p1 + p_latency p1)) 6 in
    let '(_, _, o1) := run_event exp_fn dbg (FKalman cfg) s ev provisional in
    let '(p2, replies) := plant_apply p1 (o_cmds o1) in
    let '(s2, _, o2) := run_event exp_fn dbg (FKalman cfg) s ev replies in
    (p2, s2, ev, replies, o2).

  (* (event, replies, observation, elapsed time, true offset at the event) *)
  Fixpoint loop_run (p : plant) (s : fstate) (want_delay : bool) (elapsed : Z) (js : list Z)
    : list (event * list reply * obs * Z * Z) :=
    match js with
    | [] => []
    | j :: js' =>
        let adv := if want_delay then pp_interval pr / 16 else pp_interval pr - pp_interval pr / 16 in
        let theta_at := p_theta (plant_advance p adv) in
        let '(p2, s2, ev, replies, o) := loop_event p s want_delay j in
        (ev, replies, o, elapsed + adv, theta_at) ::
        match s2 with
        | Some s' => loop_run p2 s' (negb want_delay) (elapsed + adv) js'
        | None => []
        end
    end.

  Definition loop_start (js : list Z) : list (event * list reply * obs * Z * Z) :=
    match filter_new (FKalman cfg) with
    | Ok s =>
        loop_run (mk_plant (pp_l0 pr) (pp_theta0 pr) (pp_f0 pr) fzero (pp_latency pr)) s false 0 js
    | Panic _ => []
    end.
End Loop.

(** ---- the convergence predicate of C02 at filter level ---- *)
Definition T_CONV : Z := 120 * NS_PER_S * FRAC.        (* 120 s *)
Definition FLOOR : Z := 1000 * FRAC.                   (* 1 us *)
(* after T_CONV the true offset stays within (jitter amplitude + 1 us) and the clock is not stepped *)
Definition conv_ok (jit : Z) (tail : list (Z * bool)) : bool :=
  forallb (fun s => (Z.abs (fst s) <=? jit + FLOOR) && negb (snd s)) tail.

Definition has_step (o : obs) : bool :=
  existsb (fun c => match c with OS _ => true | OF _ => false end) (o_cmds o).

(** ---- cases ---- *)
(* (params, release build?, jitter script, events, replies, observations of the prefix,
    tail samples (true offset, stepped?) from T_CONV on) *)
Definition case :=
  (c02params * bool * list Z * list event * list reply * list obs * list (Z * bool))%type.

Definition meas_eqb (a b : meas) : bool :=
  (m_time a =? m_time b) && optZ_eqb (m_offset a) (m_offset b) && optZ_eqb (m_delay a) (m_delay b)
  && optZ_eqb (m_peer a) (m_peer b) && optZ_eqb (m_sync a) (m_sync b) && optZ_eqb (m_dly a) (m_dly b).
Definition event_eqb (a b : event) : bool :=
  match a, b with
  | EMeas x, EMeas y => meas_eqb x y
  | EUpdate, EUpdate => true
  | EDemob, EDemob => true
  | _, _ => false
  end.

(* 0 agree, 1 disagree, 2 skipped (exp threshold rule) *)
Definition agree_code_C02 (c : case) : Z :=
  let '(pr, rel, js, es, rs, os, _) := c in
  let k := FKalman default_cfg in
  (* (a) the Kalman model replayed on the recorded stream gives the recorded commands *)
  let replay_ok := obs_list_eqb (run_filter exp_eval (negb rel) k es rs) os in
  (* (b) the closed loop of plant model and Kalman model regenerates the recorded stream *)
  let lr := loop_start exp_eval (negb rel) default_cfg pr js in
  let loop_ok :=
    list_eqb event_eqb (map (fun x => fst (fst (fst (fst x)))) lr) es
    && list_eqb (opt_eqb Z.eqb) (concat (map (fun x => snd (fst (fst (fst x)))) lr)) rs
    && obs_list_eqb (map (fun x => snd (fst (fst x))) lr) os in
  if replay_ok && loop_ok then 0
  else if near_case (k, rel, es, rs, os) then 2 else 1.

Definition okc_C02 (c : case) : bool :=
  let '(pr, _, _, _, _, _, tail) := c in conv_ok (pp_jit pr) tail.

Definition run_cases :=
  run_cases_gen (fun c => negb (agree_code_C02 c =? 1)) okc_C02 (fun _ => 0).
Definition run_cases_ext (cs : list case) : Z * list Z * list (Z * Z) * Z :=
  let codes := map agree_code_C02 cs in
  let '(n, _, bad) := run_cases_gen (fun _ => true) okc_C02 (fun _ => 0) cs in
  let mm := map fst (filter (fun p => snd p =? 1) (combine (map Z.of_nat (seq 0 (length cs))) codes)) in
  (n, mm, bad, Z.of_nat (length (filter (fun x => x =? 2) codes))).

(** ---- the grid of C02_grid: zero jitter, full horizon, evaluated by the kernel ---- *)
Definition HORIZON : Z := 150 * NS_PER_S * FRAC.
Definition grid_events (interval : Z) : nat := Z.to_nat (2 * (HORIZON / interval)).
Definition grid_run (theta0 : Z) (f0 : float) (delay interval : Z) : bool :=
  let pr := mk_c02params (1700000000 * NS_PER_S * FRAC) theta0 f0 delay interval (1000 * FRAC) 0 in
  let lr := loop_start exp_eval true default_cfg pr (repeat 0 (grid_events interval)) in
  Nat.eqb (length lr) (grid_events interval)
  && forallb (fun x => let '(_, _, o, el, th) := x in
                       if T_CONV <=? el then (Z.abs th <=? FLOOR) && negb (has_step o) else true) lr.
