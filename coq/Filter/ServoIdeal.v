(** C02, idealised servo over the reals (DESIGN Thm 3).  This is NOT the code: it is
    the steering law of [steer]/[change_frequency] with exact estimates (offset
    estimate = true offset e, frequency estimate = true rate error), sync interval
    T, steering time st, maximum steering rate ms (ppm).  Its only link to the code
    is the steering-law theorem C02_steer_law. *)
From Coq Require Import Reals Lra Lia.
From Flocq Require Import Raux.
Local Open Scope R_scope.

Section Ideal.
  Variables st T ms : R.
  Hypothesis HT : 0 < T < st.
  Hypothesis Hms : 0 < ms.

  Definition clampR (x m : R) : R := Rmax (- m) (Rmin m x).
  (* with exact estimates the programmed total rate error is the steering target *)
  Definition next_e (e : R) : R := e + T * (clampR (- e * 1e6 / st) ms * 1e-6).

  Let q := 1 - T / st.
  Lemma q_range : 0 < q < 1.
  Proof.
    unfold q. destruct HT as [H0 H1]. assert (0 < st) by lra.
    assert (0 < T / st < 1).
    { split. apply Rdiv_lt_0_compat; lra. apply Rmult_lt_reg_r with st; [lra|].
      unfold Rdiv. rewrite Rmult_assoc, Rinv_l by lra. lra. }
    lra.
  Qed.

  Lemma clampR_id x : Rabs x <= ms -> clampR x ms = x.
  Proof.
    intros H. apply Rabs_le_inv in H. unfold clampR.
    rewrite Rmin_right by lra. rewrite Rmax_right by lra. reflexivity.
  Qed.

  (** unsaturated: the offset contracts by the factor 1 - T/st *)
  Lemma ideal_unsat e : Rabs (- e * 1e6 / st) <= ms -> next_e e = q * e.
  Proof.
    intros H. unfold next_e, q. rewrite clampR_id by exact H.
    assert (0 < st) by lra. field. lra.
  Qed.

  Lemma ideal_contraction e :
    Rabs (- e * 1e6 / st) <= ms -> Rabs (next_e e) = q * Rabs e.
  Proof.
    intros H. rewrite ideal_unsat by exact H. rewrite Rabs_mult.
    rewrite (Rabs_pos_eq q) by (pose proof q_range; lra). reflexivity.
  Qed.

  (** saturated: the offset magnitude decreases by ms * T * 1e-6 per interval *)
  Lemma ideal_saturated e :
    ms < Rabs (- e * 1e6 / st) -> Rabs (next_e e) = Rabs e - ms * T * 1e-6.
  Proof.
    intros H. assert (Hst : 0 < st) by lra.
    assert (Hx : - e * 1e6 / st = - (e * (1e6 / st))) by (field; lra).
    assert (Hk : 0 < 1e6 / st) by (apply Rdiv_lt_0_compat; lra).
    rewrite Hx, Rabs_Ropp in H.
    destruct (Rle_or_lt 0 e) as [He | He].
    - rewrite Rabs_pos_eq in H by (apply Rmult_le_pos; lra).
      unfold next_e, clampR. rewrite Hx.
      rewrite Rmin_right by lra. rewrite Rmax_left by lra.
      assert (ms * st * 1e-6 < e).
      { apply Rmult_lt_reg_r with (1e6 / st); [exact Hk|].
        replace (ms * st * 1e-6 * (1e6 / st)) with ms by (field; lra). exact H. }
      assert (ms * T * 1e-6 < ms * st * 1e-6) by (apply Rmult_lt_compat_r; [lra|]; apply Rmult_lt_compat_l; lra).
      rewrite (Rabs_pos_eq e) by lra. rewrite Rabs_pos_eq by lra. lra.
    - assert (Hneg : e * (1e6 / st) < 0) by nra.
      rewrite Rabs_left in H by exact Hneg.
      unfold next_e, clampR. rewrite Hx.
      assert (ms < - (e * (1e6 / st))) by lra.
      rewrite Rmin_left by lra. rewrite Rmax_right by lra.
      assert (ms * st * 1e-6 < - e).
      { apply Rmult_lt_reg_r with (1e6 / st); [exact Hk|].
        replace (ms * st * 1e-6 * (1e6 / st)) with ms by (field; lra). lra. }
      assert (ms * T * 1e-6 < ms * st * 1e-6) by (apply Rmult_lt_compat_r; [lra|]; apply Rmult_lt_compat_l; lra).
      rewrite (Rabs_left e) by lra. rewrite Rabs_left by lra. lra.
  Qed.

  (** once unsaturated, always unsaturated, and geometric decay: entry into every
      band in bounded time and permanence in it *)
  Fixpoint iter_e (n : nat) (e : R) : R :=
    match n with O => e | S n' => next_e (iter_e n' e) end.

  Lemma unsat_stable e : Rabs (- e * 1e6 / st) <= ms -> Rabs (- next_e e * 1e6 / st) <= ms.
  Proof.
    intros H. rewrite ideal_unsat by exact H.
    replace (- (q * e) * 1e6 / st) with (q * (- e * 1e6 / st)) by (field; lra).
    rewrite Rabs_mult, (Rabs_pos_eq q) by (pose proof q_range; lra).
    pose proof q_range. pose proof (Rabs_pos (- e * 1e6 / st)). nra.
  Qed.

  Theorem ideal_geometric e n :
    Rabs (- e * 1e6 / st) <= ms -> Rabs (iter_e n e) = q ^ n * Rabs e.
  Proof.
    intros H. induction n as [|n IH]; simpl; [lra|].
    assert (Hn : Rabs (- iter_e n e * 1e6 / st) <= ms).
    { clear IH. induction n; simpl; [exact H | apply unsat_stable; exact IHn]. }
    rewrite ideal_contraction by exact Hn. rewrite IH. ring.
  Qed.

  Corollary ideal_permanence e eps n :
    Rabs (- e * 1e6 / st) <= ms -> Rabs e <= eps -> Rabs (iter_e n e) <= eps.
  Proof.
    intros H He. rewrite ideal_geometric by exact H.
    assert (0 <= q ^ n <= 1).
    { pose proof q_range. split; [apply pow_le; lra|].
      induction n; simpl; [lra|]. assert (0 <= q ^ n) by (apply pow_le; lra). nra. }
    pose proof (Rabs_pos e). nra.
  Qed.
End Ideal.
