(** C03, filter part: case format, model runner and executable oracle for
    "every call of the clock filters returns normally" on measurement streams as a
    port produces them (harness/src/bin/c03f.rs).  No proofs here.

    A case is
      (filter, built without debug checks?, warm-up pattern, repetitions, warm-up reply,
       observed events, clock replies of the observed part, (warm-up result, observations))
    The warm-up (the pattern repeated, every clock call answered by the constant reply)
    is executed by the harness on the real filter without recording; its result is
    [None] (completed) or [Some i] (event number i of the warm-up, counted from 0, did
    not return: the call itself or the following current_estimates() panicked).
    The observed part stops at the first call that does not return. *)
From SV Require Export Filter.FilterCases.

Definition pobserved := (option Z * list obs)%type.
Definition case :=
  (fkind * bool * list event * Z * reply * list event * list reply * pobserved)%type.

Definition p_kind (c : case) : fkind := let '(k, _, _, _, _, _, _, _) := c in k.
Definition p_events (c : case) : list event := let '(_, _, _, _, _, es, _, _) := c in es.
Definition p_observed (c : case) : pobserved := let '(_, _, _, _, _, _, _, o) := c in o.

(** ---- the property, as an executable oracle over what was OBSERVED ----
    every call returned: the warm-up completed, there is one observation per event,
    and in each of them both the call and current_estimates() returned *)
Definition obs_returned (o : obs) : bool :=
  match o_res o, o_est o with Some _, Some _ => true | _, _ => false end.
Definition ok_C03f (es : list event) (o : pobserved) : bool :=
  match fst o with
  | Some _ => false
  | None => forallb obs_returned (snd o) && Nat.eqb (length (snd o)) (length es)
  end.

(** ---- model runner ---- *)
Section PRun.
  Variable exp_fn : float -> float.
  Variable dbg : bool.

  Definition warm_replies (wr : reply) : list reply := repeat wr 8.   (* at most 3 clock calls per event *)

  (* one pass over the pattern: the new state, or (index of the event that did not
     return, state before it) *)
  Fixpoint warm_once (k : fkind) (s : fstate) (pat : list event) (wr : reply) (idx : Z)
    : fstate + (Z * fstate) :=
    match pat with
    | [] => inl s
    | e :: pat' =>
        let '(s', _, o) := run_event exp_fn dbg k s e (warm_replies wr) in
        match s', o_est o with
        | Some s'', Some _ => warm_once k s'' pat' wr (idx + 1)
        | _, _ => inr (idx, s)
        end
    end.
  Fixpoint warm_loop (k : fkind) (s : fstate) (pat : list event) (wr : reply) (n : nat) (idx : Z)
    : fstate + (Z * fstate) :=
    match n with
    | O => inl s
    | S n' =>
        match warm_once k s pat wr idx with
        | inl s' => warm_loop k s' pat wr n' (idx + Z.of_nat (length pat))
        | inr r => inr r
        end
    end.

  (* the observed part: like [run_events], but it also stops when current_estimates()
     does not return (the harness stops there) *)
  Fixpoint run_events_p (k : fkind) (s : fstate) (es : list event) (replies : list reply) : list obs :=
    match es with
    | [] => []
    | e :: es' =>
        let '(s', r', o) := run_event exp_fn dbg k s e replies in
        match s', o_est o with
        | Some s'', Some _ => o :: run_events_p k s'' es' r'
        | _, _ => [o]
        end
    end.

  Definition run_p (k : fkind) (pat : list event) (reps : Z) (wr : reply) (es : list event)
             (replies : list reply) : pobserved :=
    match filter_new k with
    | Panic _ => (None, [mk_obs [] None None])
    | Ok s =>
        match warm_loop k s pat wr (Z.to_nat reps) 0 with
        | inr (i, _) => (Some i, [])
        | inl s' => (None, run_events_p k s' es replies)
        end
    end.

  Definition near_p (k : fkind) (pat : list event) (reps : Z) (wr : reply) (es : list event)
             (replies : list reply) : bool :=
    match filter_new k with
    | Panic _ => false
    | Ok s =>
        match warm_loop k s pat wr (Z.to_nat reps) 0 with
        | inr (_, s') => match s' with SK ks => k_near ks | SB _ => false end
        | inl s' => near_events exp_fn dbg k s' es replies
        end
    end.

  (** the Panic site of the first call that does not return in the model's run
      (used by the known-finding classifier only) *)
  Definition site_of {A} (r : clk * outcome A) : option nat :=
    match snd r with Panic n => Some n | Ok _ => None end.
  Definition event_site (k : fkind) (s : fstate) (e : event) (replies : list reply) : option nat :=
    let c := mk_clk replies [] in
    match k, s, e with
    | FKalman cfg, SK ks, EMeas m => site_of (kalman_measurement exp_fn dbg cfg ks m c)
    | FKalman cfg, SK ks, EUpdate => site_of (kalman_update dbg cfg ks c)
    | FKalman cfg, SK ks, EDemob => site_of (kalman_demobilize dbg cfg ks c)
    | FBasic g, SB bs, EMeas m => site_of (basic_measurement dbg bs m c)
    | _, _, _ => None
    end.
  Definition est_site (k : fkind) (s : fstate) : option nat :=
    match k, s with
    | FKalman cfg, SK ks => match kalman_estimates dbg ks with Panic n => Some n | Ok _ => None end
    | _, _ => None
    end.
  Definition step_site (k : fkind) (s : fstate) (e : event) (replies : list reply)
    : option fstate * list reply * option nat :=
    let '(s', r', o) := run_event exp_fn dbg k s e replies in
    match s' with
    | None => (None, [], event_site k s e replies)
    | Some s'' =>
        match o_est o with
        | Some _ => (Some s'', r', None)
        | None => (None, [], est_site k s'')
        end
    end.
  Fixpoint events_site (k : fkind) (s : fstate) (es : list event) (replies : list reply) : option nat :=
    match es with
    | [] => None
    | e :: es' =>
        match step_site k s e replies with
        | (Some s', r', _) => events_site k s' es' r'
        | (None, _, n) => n
        end
    end.
  Definition first_site (k : fkind) (pat : list event) (reps : Z) (wr : reply) (es : list event)
             (replies : list reply) : option nat :=
    match filter_new k with
    | Panic n => Some n
    | Ok s =>
        match warm_loop k s pat wr (Z.to_nat reps) 0 with
        | inr (i, s') =>
            let j := Z.to_nat (i mod Z.max 1 (Z.of_nat (length pat))) in
            events_site k s' (skipn j pat) (warm_replies wr)
              (* the replies of the warm-up are constant, so restarting the list is harmless;
                 only the first event after [s'] matters: it is the one that does not return *)
        | inl s' => events_site k s' es replies
        end
    end.
End PRun.

Definition run_case (c : case) : pobserved :=
  let '(k, rel, pat, reps, wr, es, rs, _) := c in run_p exp_eval (negb rel) k pat reps wr es rs.
Definition near_case (c : case) : bool :=
  let '(k, rel, pat, reps, wr, es, rs, _) := c in near_p exp_eval (negb rel) k pat reps wr es rs.
Definition site_case (c : case) : option nat :=
  let '(k, rel, pat, reps, wr, es, rs, _) := c in first_site exp_eval (negb rel) k pat reps wr es rs.

Definition pobserved_eqb (a b : pobserved) : bool :=
  optZ_eqb (fst a) (fst b) && obs_list_eqb (snd a) (snd b).

(* 0 = model and implementation agree, 1 = they disagree,
   2 = not compared (a wander p-value within 1e-9 of a threshold: libm exp is a parameter) *)
Definition agree_code (c : case) : Z :=
  if pobserved_eqb (run_case c) (p_observed c) then 0
  else if near_case c then 2 else 1.
Definition agree_C03f (c : case) : bool := negb (agree_code c =? 1).
Definition okc_C03f (c : case) : bool := ok_C03f (p_events c) (p_observed c).

(** Known finding F24 (C03 kf=24), as long as f24.diff is not applied to /repo
    ([impl_f24_fixed] = false): a call of the KALMAN filter does not return and the model,
    run on the same stream, stops at the same place in a conversion of an estimate to a
    Duration (site 201: `az` / `to_fixed` of a NaN, infinite or too large f64; site 202: the
    fixed-point multiplication by 10^9 that follows it).  Any other panic of either filter,
    a panic the model does not predict, and every panic once the patch is applied are
    reported as plain violations. *)
Definition kf_C03f (c : case) : Z :=
  if impl_f24_fixed then 0
  else
    match p_kind c with
    | FKalman _ =>
        if pobserved_eqb (run_case c) (p_observed c) then
          match site_case c with
          | Some n => if Nat.eqb n site_float_to_fixed || Nat.eqb n site_fixed_mul then 24 else 0
          | None => 0
          end
        else 0
    | FBasic _ => 0
    end.

Definition run_cases := run_cases_gen agree_C03f okc_C03f kf_C03f.

(* same, plus the number of cases skipped because of the exp threshold rule *)
Definition run_cases_ext (cs : list case) : Z * list Z * list (Z * Z) * Z :=
  let codes := map agree_code cs in
  let '(n, _, bad) := run_cases_gen (fun _ => true) okc_C03f kf_C03f cs in
  let mm := map fst (filter (fun p => snd p =? 1) (combine (map Z.of_nat (seq 0 (length cs))) codes)) in
  (n, mm, bad, Z.of_nat (length (filter (fun x => x =? 2) codes))).
