(** The candidate repairs for F12 (Kalman: final clamp + finiteness guard at the
    actuator) and F13 (basic filter: no frequency estimate from a zero master
    interval, finiteness guard at the actuator), as models, with the EXACT C13
    statements proved for them.  Nothing here is about today's code. *)
From Coq Require Import Reals Lra Lia ZArith Floats.
From Flocq Require Import Core BinarySingleNaN.
From SV Require Import Filter.FloatBits Filter.FloatOrder Filter.ClampBound Filter.FilterCases
  Filter.FilterLemmas.
Local Open Scope Z_scope.

(** clamp(-b, b) of anything, if finite, is within [-b, b] *)
Lemma fclamp_abs_le x b r :
  is_fin b = true -> fclamp x (-. b) b = Some r -> is_fin r = true -> (fabs r <=. b) = true.
Proof.
  intros Hb Hc Hr. unfold fclamp in Hc.
  destruct (-. b <=. b) eqn:Hbb; [|discriminate]. inversion Hc as [Hc']; clear Hc.
  assert (Hnb : is_fin (-. b) = true) by now rewrite is_fin_opp.
  apply leb_true_R in Hbb; auto. rewrite FR_opp in Hbb.
  assert (HB : (0 <= FR b)%R) by lra.
  assert (Goal : forall g, is_fin g = true -> (Rabs (FR g) <= FR b)%R -> (fabs g <=. b) = true).
  { intros g Hg Hle. apply R_leb_true; [now rewrite is_fin_abs | auto | now rewrite FR_abs]. }
  destruct (x <. -. b) eqn:E1.
  - destruct (b <. -. b) eqn:E2; subst r.
    + apply Goal; auto. rewrite Rabs_pos_eq; lra.
    + apply Goal; auto. rewrite FR_opp, Rabs_Ropp, Rabs_pos_eq; lra.
  - destruct (b <. x) eqn:E2; subst r.
    + apply Goal; auto. rewrite Rabs_pos_eq; lra.
    + apply Goal; auto.
      apply ltb_false_R in E1; auto. apply ltb_false_R in E2; auto. rewrite FR_opp in E1.
      apply Rabs_le. lra.
Qed.

(** ---- repaired Kalman steering ---- *)
Section KalmanRepaired.
  Variable exp_fn : float -> float.
  Variable dbg : bool.
  Variable cfg : kcfg.
  Let b := c_max_freq_offset cfg.

  Definition change_frequency_r (s : kstate) (target : float) : CM kstate :=
    match k_cur s with
    | Some cur =>
        let error0 := clamp_adjustment cur (target -. base_freq_offset (k_run s) *. c_1e6) b in
        match fclamp (cur +. error0) (-. b) b with
        | None => mlift (Panic site_clamp_assert)
        | Some f =>
            if is_fin f then
              let error_ppm := f -. cur in
              let* r := mcall (SetFreq f) in
              match r with
              | Some time =>
                  let* run := mlift (base_freq_steer dbg cfg (k_run s) error_ppm time (k_wander s)) in
                  let* wan := mlift (base_freq_steer dbg cfg (k_wan s) error_ppm time (k_wander s)) in
                  mret (set_cur (set_filters s run wan) (Some f))
              | None => mret s
              end
            else mret s          (* non-finite: leave the clock alone *)
        end
    | None => mret s
    end.

  Definition kalman_steer_r (s : kstate) : CM (kstate * fupdate) :=
    let error := base_offset (k_run s) in
    if fabs error <. dur_seconds (c_step_threshold cfg) then
      let* target := mlift (steer_target cfg s) in
      let* s' := change_frequency_r s target in
      let* md := mlift (mean_delay_update dbg s') in
      mret (s', (true, md))
    else
      let* s' := kalman_step dbg s error in
      let* md := mlift (mean_delay_update dbg s') in
      mret (s', (false, md)).

  Definition kalman_measurement_r (s : kstate) (m : meas) : CM (kstate * fupdate) :=
    if negb (base_after_filter_time (k_run s) (m_time m)) then mret (s, fupdate_default)
    else
      let* est := mlift (est_absorb dbg cfg (k_est s) m (base_freq_offset (k_run s))) in
      let s1 := mk_kstate (k_run s) (k_wan s) (k_score s) (k_wander s) (k_wme s) est (k_cur s) (k_near s) in
      let* s2 := mlift (update_wander exp_fn dbg cfg s1 m) in
      let* run := mlift (base_progress dbg cfg (k_run s2) (m_time m) (k_wander s2)) in
      let s3 := set_run s2 run in
      let* s4 := match m_sync m with Some so => absorb_with cfg s3 H_SYNC so | None => mret s3 end in
      let* s5 := match m_dly m with Some d => absorb_with cfg s4 H_DELAY d | None => mret s4 end in
      let* s6 :=
        match m_peer m with
        | Some pd =>
            let* v := mlift (variance_factor cfg s5) in
            mret (set_run s5 (base_absorb_peer (k_run s5) (dur_seconds pd) v))
        | None => mret s5
        end in
      kalman_steer_r s6.

  Definition kalman_event_r (s : kstate) (e : event) : CM kstate :=
    match e with
    | EMeas m => let* (s', _) := kalman_measurement_r s m in mret s'
    | EUpdate => change_frequency_r s fzero
    | EDemob => let* _ := change_frequency_r s fzero in mlift (kalman_new cfg)
    end.

  Fixpoint kalman_trace_r (s : kstate) (es : list event) (rs : list reply) : list (list cmd) :=
    match es with
    | [] => []
    | e :: es' =>
        let '(c', r) := kalman_event_r s e (mk_clk rs []) in
        rev (c_log c') ::
        match r with
        | Ok s' => kalman_trace_r s' es' (c_replies c')
        | Panic _ => []
        end
    end.

  (* the exact property: finite and within the configured bound *)
  Definition cmdP_exact (c : cmd) : Prop :=
    match c with
    | SetFreq f => is_fin f = true /\ (fabs f <=. b) = true
    | StepClock _ => True
    end.

  Hypothesis Hbf : is_fin b = true.
  Hypothesis Hb0 : (fzero <=. b) = true.

  Lemma change_frequency_r_spec s t : mspec cmdP_exact (change_frequency_r s t) (fun _ => True).
  Proof.
    unfold change_frequency_r. destruct (k_cur s) as [cur|]; [|apply mspec_ret; exact I].
    destruct (fclamp _ (-. b) b) as [f|] eqn:Ef; [|apply mspec_lift; auto].
    destruct (is_fin f) eqn:Ff; [|apply mspec_ret; exact I].
    eapply mspec_bind.
    - apply (mspec_call cmdP_exact (SetFreq f) (fun _ => True)); [|auto].
      split; [exact Ff | eapply fclamp_abs_le; eauto].
    - intros [time|] _; [|apply mspec_ret; exact I].
      eapply mspec_bind; [apply mspec_lift with (Q := fun _ => True); auto|]. intros run _.
      eapply mspec_bind; [apply mspec_lift with (Q := fun _ => True); auto|]. intros wan _.
      apply mspec_ret. exact I.
  Qed.

  Lemma zero_exact : cmdP_exact (SetFreq fzero).
  Proof.
    split; [reflexivity|]. apply R_leb_true; [reflexivity | exact Hbf |].
    rewrite FR_abs, FR_zero, Rabs_R0.
    pose proof (leb_true_R _ _ is_fin_zero Hbf Hb0) as H. rewrite FR_zero in H. exact H.
  Qed.

  Lemma ensure_freq_init_exact s : mspec cmdP_exact (ensure_freq_init s) (fun _ => True).
  Proof.
    unfold ensure_freq_init. destruct (k_cur s); [apply mspec_ret; exact I|].
    eapply mspec_bind.
    - apply (mspec_call cmdP_exact (SetFreq fzero) (fun _ => True)); [apply zero_exact | auto].
    - intros [t|] _; apply mspec_ret; exact I.
  Qed.

  Lemma kalman_step_exact s off : mspec cmdP_exact (kalman_step dbg s off) (fun _ => True).
  Proof.
    unfold kalman_step.
    eapply mspec_bind; [apply mspec_lift with (Q := fun _ => True); auto|]. intros d _.
    eapply mspec_bind; [apply (mspec_call cmdP_exact _ (fun _ => True)); simpl; auto|].
    intros [t|] _; [|apply mspec_ret; exact I].
    eapply mspec_bind; [apply mspec_lift with (Q := fun _ => True); auto|]. intros run _.
    eapply mspec_bind; [apply mspec_lift with (Q := fun _ => True); auto|]. intros wan _.
    apply mspec_ret. exact I.
  Qed.

  Ltac step_true :=
    eapply mspec_bind with (Q1 := fun _ => True);
    [ first [ apply mspec_lift; auto | apply change_frequency_r_spec | apply kalman_step_exact
            | apply ensure_freq_init_exact | apply mspec_ret; exact I ] | intros ? _ ].

  Lemma absorb_with_exact s h z : mspec cmdP_exact (absorb_with cfg s h z) (fun _ => True).
  Proof. unfold absorb_with. step_true. step_true. apply mspec_ret; exact I. Qed.

  Lemma kalman_event_r_spec s e : mspec cmdP_exact (kalman_event_r s e) (fun _ => True).
  Proof.
    destruct e as [m| |]; unfold kalman_event_r.
    - eapply mspec_bind with (Q1 := fun _ => True); [| intros [s' u] _; apply mspec_ret; exact I].
      unfold kalman_measurement_r.
      destruct (negb _); [apply mspec_ret; exact I|].
      step_true. step_true. step_true.
      eapply mspec_bind with (Q1 := fun _ => True).
      { destruct (m_sync m); [apply absorb_with_exact | apply mspec_ret; exact I]. } intros s4 _.
      eapply mspec_bind with (Q1 := fun _ => True).
      { destruct (m_dly m); [apply absorb_with_exact | apply mspec_ret; exact I]. } intros s5 _.
      eapply mspec_bind with (Q1 := fun _ => True).
      { destruct (m_peer m); [| apply mspec_ret; exact I]. step_true. apply mspec_ret; exact I. }
      intros s6 _.
      unfold kalman_steer_r. destruct (_ <. _).
      + step_true. step_true. step_true. apply mspec_ret; exact I.
      + step_true. step_true. apply mspec_ret; exact I.
    - apply change_frequency_r_spec.
    - step_true. apply mspec_lift; auto.
  Qed.

  (** freq_cmd_bounded for the repaired steer path: EXACT, every trajectory, any
      estimator state (also NaN / infinite ones), any clock. *)
  Theorem repaired_freq_cmd_bounded s es rs :
    Forall (Forall cmdP_exact) (kalman_trace_r s es rs).
  Proof.
    revert s rs. induction es as [|e es IH]; intros s rs; simpl; [constructor|].
    pose proof (kalman_event_r_spec s e (mk_clk rs []) ltac:(constructor)) as [H1 _].
    destruct (kalman_event_r s e (mk_clk rs [])) as [c' r]. simpl in H1.
    constructor; [apply Forall_rev; exact H1 | destruct r; [apply IH | constructor]].
  Qed.
End KalmanRepaired.

(** ---- repaired basic filter ---- *)
Section BasicRepaired.
  Variable dbg : bool.

  Definition basic_measurement_r (s : bstate) (m : meas) : CM (bstate * fupdate) :=
    let md1 := match m_delay m with Some d => Some d | None => None end in
    let ld1 := match m_delay m with Some d => d | None => b_last_delay s end in
    let md := match m_peer m with Some d => Some d | None => md1 end in
    let ld := match m_peer m with Some d => d | None => ld1 end in
    let upd : fupdate := (false, md) in
    match m_offset m with
    | None =>
        mret (mk_bstate (b_last_step s) (b_offset_conf s) (b_freq_conf s) (b_gain s) (b_cur_freq s)
                        (b_last_offset s) ld, upd)
    | Some offset =>
        let* aoff := mlift (d_abs dbg offset) in
        if ONE_SEC <? aoff then
          let* noff := mlift (d_neg dbg offset) in
          let* _ := mcall (StepClock noff) in
          mret (mk_bstate (b_last_step s) ONE_SEC c_1em4 (b_gain s) (b_cur_freq s) offset ld, upd)
        else
          let* (clamped, oc, correction) := mlift (basic_offset_part dbg s offset aoff) in
          let* (freq_corr, fc, cur0) :=
            match b_last_step s with
            | Some (l_time, l_offset, l_corr) =>
                let* (d2, d3) := mlift (basic_intervals dbg (m_time m) offset l_time l_offset l_corr) in
                if d3 <=? 0 then
                  (* repair 1: the master's clock did not advance: no frequency information *)
                  mret (fzero, b_freq_conf s, b_cur_freq s)
                else
                  let* (fcorr, fc) := mlift (basic_freq_corr s d2 d3) in
                  mret (fcorr, fc, b_cur_freq s)
            | None =>
                let* _ := mcall (SetFreq fzero) in
                mret (fzero, b_freq_conf s, fzero)
            end in
          let* _ := mcall (StepClock correction) in
          (* repair 2: never hand a non-finite frequency to the clock *)
          if is_fin (cur0 +. freq_corr) then
            let* r := mcall (SetFreq (cur0 +. freq_corr)) in
            let cur := match r with Some _ => cur0 +. freq_corr | None => cur0 end in
            mret (mk_bstate (Some (m_time m, offset, correction)) oc fc (b_gain s) cur offset ld, upd)
          else
            mret (mk_bstate (Some (m_time m, offset, correction)) oc (b_freq_conf s) (b_gain s) cur0 offset ld, upd)
    end.

  Definition cmdP_fin (c : cmd) : Prop :=
    match c with SetFreq f => is_fin f = true | StepClock _ => True end.

  (** basic_finite for the repaired filter: every command of every measurement, from
      any state, is finite. *)
  Theorem repaired_basic_finite s m : mspec cmdP_fin (basic_measurement_r s m) (fun _ => True).
  Proof.
    unfold basic_measurement_r.
    destruct (m_offset m) as [offset|]; [|apply mspec_ret; exact I].
    eapply mspec_bind with (Q1 := fun _ => True); [apply mspec_lift; auto|]. intros aoff _.
    destruct (ONE_SEC <? aoff).
    { eapply mspec_bind with (Q1 := fun _ => True); [apply mspec_lift; auto|]. intros noff _.
      eapply mspec_bind with (Q1 := fun _ => True);
        [apply (mspec_call cmdP_fin _ (fun _ => True)); simpl; auto|]. intros _ _.
      apply mspec_ret; exact I. }
    eapply mspec_bind with (Q1 := fun _ => True); [apply mspec_lift; auto|]. intros [[clamped oc] corr] _.
    eapply mspec_bind with (Q1 := fun _ => True).
    { destruct (b_last_step s) as [[[lt lo] lc]|].
      - eapply mspec_bind with (Q1 := fun _ => True); [apply mspec_lift; auto|]. intros [d2 d3] _.
        destruct (d3 <=? 0); [apply mspec_ret; exact I|].
        eapply mspec_bind with (Q1 := fun _ => True); [apply mspec_lift; auto|]. intros [fcorr fc] _.
        apply mspec_ret; exact I.
      - eapply mspec_bind with (Q1 := fun _ => True);
          [apply (mspec_call cmdP_fin _ (fun _ => True)); simpl; auto|]. intros _ _.
        apply mspec_ret; exact I. }
    intros [[freq_corr fc] cur0] _.
    eapply mspec_bind with (Q1 := fun _ => True);
      [apply (mspec_call cmdP_fin _ (fun _ => True)); simpl; auto|]. intros _ _.
    destruct (is_fin (cur0 +. freq_corr)) eqn:Ef; [|apply mspec_ret; exact I].
    eapply mspec_bind with (Q1 := fun _ => True);
      [apply (mspec_call cmdP_fin _ (fun _ => True)); simpl; auto|]. intros r _.
    apply mspec_ret; exact I.
  Qed.
End BasicRepaired.
