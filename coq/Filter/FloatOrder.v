(** Order-theoretic facts about primitive binary64 floats, obtained through
    Flocq's bridge (Prim2B) to its formalisation of IEEE-754 binary floats.
    [FR x] is the real value of a finite float. *)
From Coq Require Import Reals Lra Lia ZArith Floats.
From Flocq Require Import Core BinarySingleNaN.
From Flocq Require IEEE754.PrimFloat.
From SV Require Import Filter.FloatBits.

Module FP := Flocq.IEEE754.PrimFloat.
Local Open Scope R_scope.

Notation bfloat := (binary_float FloatOps.prec FloatOps.emax).
Definition P2B (x : float) : bfloat := FP.Prim2B x.
Definition FR (x : float) : R := B2R (P2B x).

Notation Bfin := (@BinarySingleNaN.is_finite FloatOps.prec FloatOps.emax).
Notation Bnan := (@BinarySingleNaN.is_nan FloatOps.prec FloatOps.emax).
Lemma is_fin_equiv x : is_fin x = Bfin (P2B x).
Proof. apply FP.is_finite_equiv. Qed.
Lemma is_nan_equiv x : FloatBits.is_nan x = Bnan (P2B x).
Proof. apply FP.is_nan_equiv. Qed.

Lemma fin_not_nan x : is_fin x = true -> FloatBits.is_nan x = false.
Proof. rewrite is_fin_equiv, is_nan_equiv. now destruct (P2B x). Qed.

Lemma ltb_R x y : is_fin x = true -> is_fin y = true -> (x <. y) = Rlt_bool (FR x) (FR y).
Proof.
  intros Hx Hy. rewrite FP.ltb_equiv. apply Bltb_correct; now rewrite <- is_fin_equiv.
Qed.
Lemma leb_R x y : is_fin x = true -> is_fin y = true -> (x <=. y) = Rle_bool (FR x) (FR y).
Proof.
  intros Hx Hy. rewrite FP.leb_equiv. apply Bleb_correct; now rewrite <- is_fin_equiv.
Qed.

Lemma ltb_true_R x y : is_fin x = true -> is_fin y = true -> (x <. y) = true -> FR x < FR y.
Proof. intros Hx Hy H. rewrite ltb_R in H by assumption. now apply Rlt_bool_true_inv in H || (revert H; case Rlt_bool_spec). Qed.
Lemma ltb_false_R x y : is_fin x = true -> is_fin y = true -> (x <. y) = false -> FR y <= FR x.
Proof. intros Hx Hy H. rewrite ltb_R in H by assumption. revert H. case Rlt_bool_spec; [discriminate | auto]. Qed.
Lemma leb_true_R x y : is_fin x = true -> is_fin y = true -> (x <=. y) = true -> FR x <= FR y.
Proof. intros Hx Hy H. rewrite leb_R in H by assumption. revert H. case Rle_bool_spec; [auto | discriminate]. Qed.
Lemma R_leb_true x y : is_fin x = true -> is_fin y = true -> FR x <= FR y -> (x <=. y) = true.
Proof. intros Hx Hy H. rewrite leb_R by assumption. now apply Rle_bool_true. Qed.
Lemma R_ltb_true x y : is_fin x = true -> is_fin y = true -> FR x < FR y -> (x <. y) = true.
Proof. intros Hx Hy H. rewrite ltb_R by assumption. now apply Rlt_bool_true. Qed.

Lemma FR_opp x : FR (-. x) = - FR x.
Proof. unfold FR, P2B. rewrite FP.opp_equiv. apply B2R_Bopp. Qed.
Lemma is_fin_opp x : is_fin (-. x) = is_fin x.
Proof. rewrite !is_fin_equiv. unfold P2B. rewrite FP.opp_equiv. apply is_finite_Bopp. Qed.
Lemma is_nan_opp x : FloatBits.is_nan (-. x) = FloatBits.is_nan x.
Proof. rewrite !is_nan_equiv. unfold P2B. rewrite FP.opp_equiv. apply is_nan_Bopp. Qed.
Lemma FR_abs x : FR (fabs x) = Rabs (FR x).
Proof. unfold FR, P2B, fabs. rewrite FP.abs_equiv. apply B2R_Babs. Qed.
Lemma is_fin_abs x : is_fin (fabs x) = is_fin x.
Proof. rewrite !is_fin_equiv. unfold P2B, fabs. rewrite FP.abs_equiv. apply is_finite_Babs. Qed.
Lemma is_nan_abs x : FloatBits.is_nan (fabs x) = FloatBits.is_nan x.
Proof. rewrite !is_nan_equiv. unfold P2B, fabs. rewrite FP.abs_equiv. apply is_nan_Babs. Qed.

(** classification of a float *)
Inductive fclass (x : float) : Prop :=
| FC_nan : FloatBits.is_nan x = true -> fclass x
| FC_fin : is_fin x = true -> fclass x
| FC_pinf : x = PrimFloat.infinity -> fclass x
| FC_ninf : x = PrimFloat.neg_infinity -> fclass x.

Lemma classify_float x : fclass x.
Proof.
  destruct (P2B x) as [s|s| |s m e H] eqn:E.
  - apply FC_fin. now rewrite is_fin_equiv, E.
  - destruct s.
    + apply FC_ninf. rewrite FP.neg_infinity_equiv. rewrite <- E. unfold P2B. now rewrite FP.B2Prim_Prim2B.
    + apply FC_pinf. rewrite FP.infinity_equiv. rewrite <- E. unfold P2B. now rewrite FP.B2Prim_Prim2B.
  - apply FC_nan. now rewrite is_nan_equiv, E.
  - apply FC_fin. now rewrite is_fin_equiv, E.
Qed.

Lemma P2B_pinf : P2B PrimFloat.infinity = B754_infinity false.
Proof. unfold P2B. rewrite FP.infinity_equiv. apply FP.Prim2B_B2Prim. Qed.
Lemma P2B_ninf : P2B PrimFloat.neg_infinity = B754_infinity true.
Proof. unfold P2B. rewrite FP.neg_infinity_equiv. apply FP.Prim2B_B2Prim. Qed.

(** comparisons with infinities and NaN *)
Lemma ltb_nan_l x y : FloatBits.is_nan x = true -> (x <. y) = false.
Proof.
  rewrite is_nan_equiv, FP.ltb_equiv. fold (P2B x) (P2B y). unfold Bltb.
  destruct (P2B x); try discriminate. reflexivity.
Qed.
Lemma ltb_nan_r x y : FloatBits.is_nan y = true -> (x <. y) = false.
Proof.
  rewrite is_nan_equiv, FP.ltb_equiv. fold (P2B x) (P2B y). unfold Bltb.
  destruct (P2B y); try discriminate. now destruct (P2B x) as [ | [|] | | [|] ].
Qed.
Lemma leb_nan_l x y : FloatBits.is_nan x = true -> (x <=. y) = false.
Proof.
  rewrite is_nan_equiv, FP.leb_equiv. fold (P2B x) (P2B y). unfold Bleb.
  destruct (P2B x); try discriminate. reflexivity.
Qed.
Lemma leb_nan_r x y : FloatBits.is_nan y = true -> (x <=. y) = false.
Proof.
  rewrite is_nan_equiv, FP.leb_equiv. fold (P2B x) (P2B y). unfold Bleb.
  destruct (P2B y); try discriminate. now destruct (P2B x) as [ | [|] | | [|] ].
Qed.

Lemma fin_ltb_pinf x : is_fin x = true -> (x <. PrimFloat.infinity) = true.
Proof.
  rewrite is_fin_equiv, FP.ltb_equiv. fold (P2B x). rewrite <- P2B_pinf at 1.
  fold (P2B PrimFloat.infinity). rewrite P2B_pinf. unfold Bltb.
  destruct (P2B x) as [ | | | [|] ]; try discriminate; reflexivity.
Qed.
Lemma ninf_ltb_fin x : is_fin x = true -> (PrimFloat.neg_infinity <. x) = true.
Proof.
  rewrite is_fin_equiv, FP.ltb_equiv. fold (P2B x) (P2B PrimFloat.neg_infinity).
  rewrite P2B_ninf. unfold Bltb.
  destruct (P2B x) as [ | | | [|] ]; try discriminate; reflexivity.
Qed.

(** ---- propagation of NaN through the arithmetic operations ---- *)
Lemma Bnan_of_fin (z : bfloat) : Bfin z = true -> Bnan z = false.
Proof. now destruct z. Qed.

Lemma mul_nan_iff x c :
  is_fin c = true -> FR c <> 0 -> FloatBits.is_nan (x *. c) = FloatBits.is_nan x.
Proof.
  intros Hc Hz. rewrite is_fin_equiv in Hc. rewrite !is_nan_equiv. unfold FR, P2B in * .
  rewrite FP.mul_equiv.
  destruct (FP.Prim2B c) as [sc|sc| |sc mc ec Hbc] eqn:Ec; try discriminate.
  { simpl in Hz. now elim Hz. }
  destruct (FP.Prim2B x) as [sx|sx| |sx mx ex Hbx] eqn:Ex; try reflexivity.
  pose proof (Bmult_correct FloatOps.prec FloatOps.emax FP.Hprec FP.Hmax mode_NE
                (B754_finite sx mx ex Hbx) (B754_finite sc mc ec Hbc)) as H.
  destruct Rlt_bool.
  - destruct H as (_ & H & _). simpl in H. now apply Bnan_of_fin.
  - rewrite <- is_nan_SF_B2SF, H. apply is_nan_binary_overflow.
Qed.

Lemma div_nan_iff x c :
  is_fin c = true -> FR c <> 0 -> FloatBits.is_nan (x /. c) = FloatBits.is_nan x.
Proof.
  intros Hc Hz. rewrite is_fin_equiv in Hc. rewrite !is_nan_equiv. unfold FR, P2B in * .
  rewrite FP.div_equiv.
  destruct (FP.Prim2B c) as [sc|sc| |sc mc ec Hbc] eqn:Ec; try discriminate.
  { simpl in Hz. now elim Hz. }
  destruct (FP.Prim2B x) as [sx|sx| |sx mx ex Hbx] eqn:Ex; try reflexivity.
  pose proof (Bdiv_correct FloatOps.prec FloatOps.emax FP.Hprec FP.Hmax mode_NE
                (B754_finite sx mx ex Hbx) (B754_finite sc mc ec Hbc) Hz) as H.
  destruct Rlt_bool.
  - destruct H as (_ & H & _). simpl in H. now apply Bnan_of_fin.
  - rewrite <- is_nan_SF_B2SF, H. apply is_nan_binary_overflow.
Qed.

Lemma sub_nan_fin_l t x : is_fin t = true -> FloatBits.is_nan (t -. x) = FloatBits.is_nan x.
Proof.
  intros Ht. rewrite is_fin_equiv in Ht. rewrite !is_nan_equiv. unfold P2B in * .
  rewrite FP.sub_equiv. unfold Bminus.
  destruct (FP.Prim2B t) as [st|st| |st mt et Hbt]; try discriminate;
  destruct (FP.Prim2B x) as [sx|sx| |sx mx ex Hbx]; try reflexivity.
  - simpl. now destruct (Bool.eqb st (negb sx)).
  - simpl. apply is_nan_binary_normalize.
Qed.
