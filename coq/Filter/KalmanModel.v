(** Executable model of statime/src/filters/kalman.rs (+ matrix.rs), AS WRITTEN.

    Floats are Coq primitive binary64 floats (bit-identical to Rust f64 for
    + - * / sqrt, comparisons, abs, neg).  `exp` (libm) is a parameter
    [exp_fn].  Times and durations are the fixed-point bit patterns of
    Time/TimeModel.v.  [dbg] = the crate is built with debug assertions and
    overflow checks (true) or without (false: debug_assert! absent, integer
    overflow wraps).

    The clock is a script of replies ([Some t] = Ok(Time t), [None] = Err)
    consumed in call order, and a log of the commands issued.

    No proofs here. *)
From SV Require Export Filter.FloatBits.

(* panic sites *)
(* site 210 was debug_assert!(time >= self.filter_time) in progress_filtertime: removed by fix b057ba6 (F15) *)
Definition site_range_unwrap : nat := 211.     (* range_size(): max_by/min_by on an empty iterator .unwrap() *)
Definition site_clamp_assert : nat := 212.     (* f64::clamp / Ord::clamp assert!(min <= max) *)
Definition site_hyst_neg : nat := 213.         (* -(precision_hysteresis as i8) overflow *)
Definition site_time_conv : nat := 214.        (* Time -> Duration (U96F32 -> I96F32 to_fixed) *)
Definition site_dur_arith : nat := 215.        (* Duration add / neg / abs overflow *)
Definition site_time_arith : nat := 216.       (* Time +/- Duration under/overflow *)

(** ---- configuration, measurement ---- *)
Record kcfg := mk_kcfg {
  c_step_threshold : Z;          (* Duration bits *)
  c_deadzone : float;
  c_steer_time : Z;              (* Duration bits *)
  c_max_steer : float;
  c_max_freq_offset : float;
  c_init_freq_unc : float;
  c_init_wander : float;
  c_delay_wander : float;
  c_p_low : float;
  c_p_high : float;
  c_hyst : Z;                    (* u8 *)
  c_est_threshold : Z;           (* Duration bits *)
  c_diff_bound : Z;              (* usize *)
  c_stat_bound : Z;              (* usize *)
  c_peer_factor : float;
  c_f24 : bool                   (* MODEL ONLY, not a field of KalmanConfiguration: which kalman.rs is modelled.
                                    false = the code as it is today; true = the code after the proposed F24 patch
                                    (.cache/scratch-filter/f24.diff: singular innovation covariance ignored,
                                    BaseFilter::drop_if_invalid after every change of an estimate, wander bounded).
                                    Cases get [impl_f24_fixed]; theorems state which value they are about. *)
}.

(* the /repo the correspondence runs against: flip to [true] when f24.diff has been applied *)
Definition impl_f24_fixed : bool := true.

Record meas := mk_meas {
  m_time : Z;                    (* Time bits *)
  m_offset : option Z;
  m_delay : option Z;
  m_peer : option Z;
  m_sync : option Z;             (* raw_sync_offset *)
  m_dly : option Z               (* raw_delay_offset *)
}.

(** ---- clock ---- *)
Inductive cmd := SetFreq (f : float) | StepClock (d : Z).
Definition reply := option Z.
Record clk := mk_clk { c_replies : list reply; c_log : list cmd (* most recent first *) }.
Definition clk_call (c : clk) (x : cmd) : reply * clk :=
  match c_replies c with
  | [] => (None, mk_clk [] (x :: c_log c))
  | r :: rs => (r, mk_clk rs (x :: c_log c))
  end.

(** Operations that talk to the clock: the clock (remaining replies, command
    log) is threaded through and SURVIVES a panic, so that the commands issued
    before a panic are part of the model's observable behaviour. *)
Definition CM (A : Type) : Type := clk -> clk * outcome A.
Definition mret {A} (a : A) : CM A := fun c => (c, Ok a).
Definition mbind {A B} (m : CM A) (f : A -> CM B) : CM B :=
  fun c => let '(c1, r) := m c in
           match r with Ok a => f a c1 | Panic s => (c1, Panic s) end.
Definition mlift {A} (o : outcome A) : CM A := fun c => (c, o).
Definition mcall (x : cmd) : CM reply := fun c => let '(r, c') := clk_call c x in (c', Ok r).
Notation "'let*' x ':=' e 'in' f" := (mbind e (fun x => f))
  (at level 200, x pattern, e at level 100, f at level 200, right associativity).

(** ---- checked / wrapping fixed-point arithmetic on Time and Duration ---- *)
Section Arith.
  Variable dbg : bool.
  Definition d_neg (d : Z) : outcome Z := w_i128 dbg site_dur_arith (- d).
  Definition d_add (a b : Z) : outcome Z := w_i128 dbg site_dur_arith (a + b).
  Definition d_sub (a b : Z) : outcome Z := let! nb := d_neg b in d_add a nb.
  Definition d_abs (d : Z) : outcome Z := w_i128 dbg site_dur_arith (Z.abs d).
  Definition d_of_time (t : Z) : outcome Z := w_i128 dbg site_time_conv t.
  (* Time - Time *)
  Definition t_diff (a b : Z) : outcome Z :=
    let! da := d_of_time a in let! db := d_of_time b in d_sub da db.
  (* Time + Duration: saturating at 0 and at 2^128 - 1 (instant.rs: saturating_sub /
     saturating_add of the unsigned_abs of the duration) *)
  Definition t_add_d (t d : Z) : outcome Z :=
    if d <? 0 then Ok (Z.max 0 (t - Z.abs d))
    else Ok (Z.min (2 ^ 128 - 1) (t + Z.abs d)).
  Definition t_sub_d (t d : Z) : outcome Z := let! nd := d_neg d in t_add_d t nd.
  (* Duration * f64 : rhs.to_fixed::<I96F32>() then fixed multiplication *)
  Definition d_mul_f (d : Z) (g : float) : outcome Z := let! gf := f2fix dbg g in fix_mul dbg d gf.
  Definition d_from_seconds (s : float) : outcome Z := dur_from_seconds dbg s.
End Arith.

(* f64::min (IEEE minNum) *)
Definition fmin (x y : float) : float :=
  if is_nan x then y else if is_nan y then x else if y <. x then y else x.

(** ---- matrices (matrix.rs): rows of entries ---- *)
Definition mat := list (list float).
Definition ment (m : mat) (i j : nat) : float := nth j (nth i m []) fzero.
Definition mtranspose (m : mat) : mat :=
  match m with
  | [] => []
  | r :: _ => map (fun j => map (fun row => nth j row fzero) m) (seq 0 (length r))
  end.
Fixpoint map2f (f : float -> float -> float) (a b : list float) : list float :=
  match a, b with
  | x :: a', y :: b' => f x y :: map2f f a' b'
  | _, _ => []
  end.
Definition mmul (a b : mat) : mat :=
  let bt := mtranspose b in
  map (fun row => map (fun col => fsum (map2f PrimFloat.mul row col)) bt) a.
Fixpoint mzip (f : float -> float -> float) (a b : mat) : mat :=
  match a, b with
  | x :: a', y :: b' => map2f f x y :: mzip f a' b'
  | _, _ => []
  end.
Definition madd := mzip PrimFloat.add.
Definition msub := mzip PrimFloat.sub.
Definition msymmetrize (m : mat) : mat :=
  let n := length m in
  map (fun i => map (fun j => (ment m i j +. ment m j i) /. ftwo) (seq 0 n)) (seq 0 n).
Definition munit3 : mat := [[fone; fzero; fzero]; [fzero; fone; fzero]; [fzero; fzero; fone]].
Definition vec3 (a b c : float) : mat := [[a]; [b]; [c]].

Definition H_SYNC : mat := [[fone; fzero; fone]].
Definition H_DELAY : mat := [[fone; fzero; -. fone]].
Definition H_PEER : mat := [[fzero; fzero; fone]].

(** ---- MeasurementErrorEstimator ---- *)
Record estimator := mk_est {
  e_data : list float;           (* 32 entries *)
  e_next : Z;
  e_fill : Z;
  e_last_sync : option (Z * Z);  (* (Time, Duration) *)
  e_last_delay : option (Z * Z);
  e_peer : bool
}.
Definition est_default : estimator := mk_est (repeat fzero 32) 0 0 None None false.

Definition c_32 : float := Eval vm_compute in f_of_Z_scaled 32 0.
Definition c_31 : float := Eval vm_compute in f_of_Z_scaled 31 0.
Definition c_3 : float := Eval vm_compute in f_of_Z_scaled 3 0.
Definition c_4 : float := Eval vm_compute in f_of_Z_scaled 4 0.
Definition c_10 : float := Eval vm_compute in f_of_Z_scaled 10 0.
Definition c_max_estimate : float := Eval vm_compute in f_of_Z_scaled (10 ^ 18) 0.   (* MAX_ESTIMATE = 1e18 (F24 patch) *)

Definition est_taken (e : estimator) : list float := firstn (Z.to_nat (e_fill e)) (e_data e).
Definition est_mean (e : estimator) : float := fsum (est_taken e) /. c_32.
Definition est_variance (e : estimator) : float :=
  let mean := est_mean e in
  fsum (map (fun v => fsqr (v -. mean)) (est_taken e)) /. c_31.
(* Iterator::max_by / min_by with the comparator `if x > y {Greater} else {Less}` *)
Definition est_max (l : list float) : option float :=
  match l with
  | [] => None
  | x :: r => Some (fold_left (fun acc y => if acc >. y then acc else y) r x)
  end.
Definition est_min (l : list float) : option float :=
  match l with
  | [] => None
  | x :: r => Some (fold_left (fun acc y => if acc >. y then y else acc) r x)
  end.
Definition est_range_size (e : estimator) : outcome float :=
  match est_max (est_taken e), est_min (est_taken e) with
  | Some a, Some b => Ok (a -. b)
  | _, _ => Panic site_range_unwrap
  end.
Fixpoint list_set (l : list float) (n : nat) (v : float) : list float :=
  match l, n with
  | [], _ => []
  | _ :: r, O => v :: r
  | x :: r, S n' => x :: list_set r n' v
  end.
Definition est_insert (e : estimator) (entry : float) : estimator :=
  mk_est (list_set (e_data e) (Z.to_nat (e_next e)) entry)
         ((e_next e + 1) mod 32)
         (Z.min (e_fill e + 1) 32)
         (e_last_sync e) (e_last_delay e) (e_peer e).
Definition est_measurement_variance (cfg : kcfg) (e : estimator) : outcome float :=
  if e_fill e <? c_diff_bound cfg then Ok (fsqr (dur_seconds (c_steer_time cfg)))
  else if e_fill e <? c_stat_bound cfg then
    let! r := est_range_size e in Ok (fsqr r)
  else Ok (est_variance e /. ftwo).

Section Est.
  Variable dbg : bool.
  Variable cfg : kcfg.

  Definition est_absorb (e : estimator) (m : meas) (freq : float) : outcome estimator :=
    let! e1 :=
      match m_sync m with
      | Some sync_offset =>
          match e_last_delay e with
          | Some (time, delay_offset) =>
              let e' := mk_est (e_data e) (e_next e) (e_fill e) (e_last_sync e) None (e_peer e) in
              let! d := t_diff dbg (m_time m) time in
              let! ad := d_abs dbg d in
              if ad <? c_est_threshold cfg then
                let! d2 := t_diff dbg time (m_time m) in
                Ok (est_insert e' (dur_seconds sync_offset -. dur_seconds delay_offset
                                   +. dur_seconds d2 *. freq))
              else
                Ok (mk_est (e_data e') (e_next e') (e_fill e') (Some (m_time m, sync_offset)) None (e_peer e'))
          | None =>
              Ok (mk_est (e_data e) (e_next e) (e_fill e) (Some (m_time m, sync_offset)) (e_last_delay e) (e_peer e))
          end
      | None => Ok e
      end in
    let! e2 :=
      match m_dly m with
      | Some delay_offset =>
          match e_last_sync e1 with
          | Some (time, sync_offset) =>
              let e' := mk_est (e_data e1) (e_next e1) (e_fill e1) None (e_last_delay e1) (e_peer e1) in
              let! d := t_diff dbg (m_time m) time in
              let! ad := d_abs dbg d in
              if ad <? c_est_threshold cfg then
                Ok (est_insert e' (dur_seconds sync_offset -. dur_seconds delay_offset
                                   +. dur_seconds d *. freq))
              else
                Ok (mk_est (e_data e') (e_next e') (e_fill e') None (Some (m_time m, delay_offset)) (e_peer e'))
          | None =>
              Ok (mk_est (e_data e1) (e_next e1) (e_fill e1) (e_last_sync e1) (Some (m_time m, delay_offset)) (e_peer e1))
          end
      | None => Ok e1
      end in
    match m_peer m with
    | Some pd =>
        Ok (est_insert (mk_est (e_data e2) (e_next e2) (e_fill e2) None None true) (dur_seconds pd))
    | None => Ok e2
    end.
End Est.

(** ---- InnerFilter / BaseFilter ---- *)
Record inner := mk_inner { i_state : mat; i_unc : mat; i_time : Z }.

Definition inner_new (cfg : kcfg) (initial_offset : float) (time : Z) : inner :=
  let t2 := fsqr (dur_seconds (c_step_threshold cfg)) in
  mk_inner (vec3 initial_offset fzero fzero)
           [[t2; fzero; fzero]; [fzero; fsqr (c_init_freq_unc cfg); fzero]; [fzero; fzero; t2]]
           time.

Section Inner.
  Variable dbg : bool.
  Variable cfg : kcfg.

  Definition inner_progress (f : inner) (time : Z) (wander : float) : outcome inner :=
    if time <? i_time f then Ok f      (* early return; the debug_assert of this condition was removed (F15) *)
    else
      let! d := t_diff dbg time (i_time f) in
      let dt := dur_seconds d in
      let update : mat := [[fone; dt; fzero]; [fzero; fone; fzero]; [fzero; fzero; fone]] in
      let noise : mat :=
        [[wander *. dt *. dt *. dt /. c_3; wander *. dt *. dt /. ftwo; fzero];
         [wander *. dt *. dt /. ftwo; wander *. dt; fzero];
         [fzero; fzero; c_delay_wander cfg *. dt *. fsqr (ment (i_state f) 2 0)]] in
      Ok (mk_inner (mmul update (i_state f))
                   (madd (mmul (mmul update (i_unc f)) (mtranspose update)) noise)
                   time).

  Definition inner_predict (f : inner) (h : mat) : mat * mat :=
    (mmul h (i_state f), mmul (mmul h (i_unc f)) (mtranspose h)).

  Definition inner_absorb (f : inner) (z : float) (h : mat) (variance : float) : inner :=
    let '(prediction, uncertainty) := inner_predict f h in
    let difference := msub [[z]] prediction in
    let difference_covariance := madd uncertainty [[variance]] in
    let p := fone /. ment difference_covariance 0 0 in
    (* F24 patch: `if !(precision > 0.0 && precision.is_finite()) { return; }` *)
    if c_f24 cfg && negb ((fzero <. p) && is_fin p) then f
    else
    let inv : mat := [[p]] in
    let update_strength := mmul (mmul (i_unc f) (mtranspose h)) inv in
    mk_inner (madd (i_state f) (mmul update_strength difference))
             (msymmetrize (mmul (msub munit3 (mmul update_strength h)) (i_unc f)))
             (i_time f).

  (* F24 patch: InnerFilter::is_valid / BaseFilter::drop_if_invalid (identity on the code as it is today) *)
  Definition inner_valid (f : inner) : bool :=
    forallb (forallb is_fin) (i_state f) && forallb (forallb is_fin) (i_unc f)
    && (fabs (ment (i_state f) 0 0) <=. c_max_estimate)
    && (fabs (ment (i_state f) 2 0) <=. c_max_estimate).
  Definition base_check (b : option inner) : option inner :=
    if c_f24 cfg then
      match b with
      | Some f => if inner_valid f then Some f else None
      | None => None
      end
    else b.

  Definition inner_freq_steer (f : inner) (steer : float) (time : Z) (wander : float) : outcome inner :=
    let! f' := inner_progress f time wander in
    Ok (mk_inner (madd (i_state f') (vec3 fzero (steer *. c_1em6) fzero)) (i_unc f') (i_time f')).

  Definition inner_offset_steer (f : inner) (steer : float) : outcome inner :=
    let st := madd (i_state f) (vec3 steer fzero fzero) in
    let! d := d_from_seconds dbg steer in
    let! t := t_add_d (i_time f) d in
    Ok (mk_inner st (i_unc f) t).

  (* BaseFilter = option inner *)
  Definition base_progress (b : option inner) (time : Z) (wander : float) : outcome (option inner) :=
    match b with
    | Some f => let! f' := inner_progress f time wander in Ok (base_check (Some f'))
    | None => Ok (base_check (Some (inner_new cfg fzero time)))
    end.
  Definition base_absorb_offset (b : option inner) (h : mat) (z variance : float) : option inner :=
    base_check
    match b with
    | Some f =>
        if fabs (z -. ment (i_state f) 0 0) >. dur_seconds (c_step_threshold cfg)
        then Some (inner_new cfg z (i_time f))
        else Some (inner_absorb f z h variance)
    | None => None
    end.
  Definition base_absorb_peer (b : option inner) (z variance : float) : option inner :=
    base_check
    match b with
    | Some f => Some (inner_absorb f z H_PEER variance)
    | None => None
    end.
  Definition base_freq_steer (b : option inner) (steer : float) (time : Z) (wander : float)
    : outcome (option inner) :=
    match b with
    | Some f => let! f' := inner_freq_steer f steer time wander in Ok (base_check (Some f'))
    | None => Ok (base_check (Some (inner_new cfg fzero time)))
    end.
  Definition base_offset_steer (b : option inner) (steer : float) : outcome (option inner) :=
    match b with
    | Some f => let! f' := inner_offset_steer f steer in Ok (base_check (Some f'))
    | None => Ok None
    end.
End Inner.

Definition base_offset (b : option inner) : float :=
  match b with Some f => ment (i_state f) 0 0 | None => fzero end.
Definition base_freq_offset (b : option inner) : float :=
  match b with Some f => ment (i_state f) 1 0 | None => fzero end.
Definition base_mean_delay (b : option inner) : float :=
  match b with Some f => ment (i_state f) 2 0 | None => fzero end.
Definition base_offset_uncertainty (cfg : kcfg) (b : option inner) : float :=
  match b with Some f => fsqrt (ment (i_unc f) 0 0) | None => dur_seconds (c_step_threshold cfg) end.
Definition base_predict (cfg : kcfg) (b : option inner) (h : mat) : float * float :=
  match b with
  | Some f => let '(p, u) := inner_predict f h in (ment p 0 0, ment u 0 0)
  | None => (fzero, fsqr (dur_seconds (c_step_threshold cfg)))
  end.
Definition base_after_filter_time (b : option inner) (time : Z) : bool :=
  match b with Some f => i_time f <=? time | None => true end.

(** ---- clamp_adjustment ---- *)
Definition clamp_adjustment (current error bound : float) : float :=
  if current +. error >. bound then bound -. current
  else if current +. error <. -. bound then -. bound -. current
  else error.

(** ---- KalmanFilter ---- *)
Record kstate := mk_kstate {
  k_run : option inner;
  k_wan : option inner;
  k_score : Z;                   (* i8 *)
  k_wander : float;
  k_wme : float;                 (* wander_measurement_error *)
  k_est : estimator;
  k_cur : option float;          (* cur_frequency *)
  k_near : bool                  (* model only: a p-value came within 1e-9 (relative) of a threshold *)
}.

(* FilterUpdate: (next_update is Some, mean_delay) *)
Definition fupdate := (bool * option Z)%type.
Definition fupdate_default : fupdate := (false, None).

Definition c_P : float := Eval vm_compute in f_of_bits 4599572976541465484.   (* 0.3275911 *)
Definition c_A1 : float := Eval vm_compute in f_of_bits 4598262221740202622.  (* 0.254829592 *)
Definition c_A2 : float := Eval vm_compute in f_of_bits 13822168694349632617. (* -0.284496736 *)
Definition c_A3 : float := Eval vm_compute in f_of_bits 4609080297566953815.  (* 1.421413741 *)
Definition c_A4 : float := Eval vm_compute in f_of_bits 13832595270954732601. (* -1.453152027 *)
Definition c_A5 : float := Eval vm_compute in f_of_bits 4607458964267180333.  (* 1.061405429 *)
Definition c_1em9 : float := Eval vm_compute in f_of_bits 4472406533629990549. (* 1e-9 *)

Section Kalman.
  Variable exp_fn : float -> float.
  Variable dbg : bool.
  Variable cfg : kcfg.

  Definition chi_1 (chi : float) : float :=
    let x := fsqrt (chi /. ftwo) in
    let t := fone /. (fone +. c_P *. x) in
    (c_A1 *. t +. c_A2 *. t *. t +. c_A3 *. t *. t *. t +. c_A4 *. t *. t *. t *. t
     +. c_A5 *. t *. t *. t *. t *. t)
    *. exp_fn (-. (x *. x)).

  Definition kalman_new : outcome kstate :=
    let! mv := est_measurement_variance cfg est_default in
    Ok (mk_kstate None None 0 (c_init_wander cfg) (fsqrt mv) est_default None false).

  Definition sat_i8 (v : Z) : Z := Z.max (-128) (Z.min 127 v).
  Definition near (p thr : float) : bool := fabs (p -. thr) <=. c_1em9 *. fabs thr.

  Definition wander_score_update (s : kstate) (uncertainty prediction actual : float) : outcome kstate :=
    let! mv := est_measurement_variance cfg (k_est s) in
    if k_wme s >. c_10 *. fsqrt mv then
      Ok (mk_kstate (k_run s) (k_run s) (k_score s) (k_wander s) (fsqrt mv) (k_est s) (k_cur s) (k_near s))
    else if fsqrt uncertainty >. c_10 *. k_wme s then
      let p := fone -. chi_1 (fsqr (actual -. prediction) /. (uncertainty +. fsqr (k_wme s))) in
      let score :=
        if p <. c_p_low cfg then sat_i8 (k_score s - 1)
        else if p >. c_p_high cfg then sat_i8 (k_score s + 1)
        else k_score s - Z.sgn (k_score s) in
      let nr := k_near s || near p (c_p_low cfg) || near p (c_p_high cfg) in
      Ok (mk_kstate (k_run s) (k_run s) score (k_wander s) (fsqrt mv) (k_est s) (k_cur s) nr)
    else Ok s.

  Definition update_wander (s : kstate) (m : meas) : outcome kstate :=
    let! w := base_progress dbg cfg (k_wan s) (m_time m) (k_wander s) in
    let s0 := mk_kstate (k_run s) w (k_score s) (k_wander s) (k_wme s) (k_est s) (k_cur s) (k_near s) in
    let! s1 :=
      match m_sync m with
      | Some so =>
          let '(p, u) := base_predict cfg (k_wan s0) H_SYNC in
          wander_score_update s0 u p (dur_seconds so)
      | None => Ok s0
      end in
    let! s2 :=
      match m_dly m with
      | Some d =>
          let '(p, u) := base_predict cfg (k_wan s1) H_DELAY in
          wander_score_update s1 u p (dur_seconds d)
      | None => Ok s1
      end in
    let h8 := wrap_i 8 (c_hyst cfg) in                      (* precision_hysteresis as i8 *)
    let! nh := (if in_i 8 (- h8) then Ok (- h8) else if dbg then Panic site_hyst_neg else Ok (wrap_i 8 (- h8))) in
    let s3 :=
      if k_score s2 <? nh
      then mk_kstate (k_run s2) (k_wan s2) 0 (k_wander s2 /. c_4) (k_wme s2) (k_est s2) (k_cur s2) (k_near s2)
      else s2 in
    let s4 :=
      if h8 <? k_score s3
      then mk_kstate (k_run s3) (k_wan s3) 0
                     (if c_f24 cfg   (* F24 patch: (wander * 4.0).min(sqr(max_freq_offset * 1e-6)) *)
                      then fmin (k_wander s3 *. c_4) (fsqr (c_max_freq_offset cfg *. c_1em6))
                      else k_wander s3 *. c_4)
                     (k_wme s3) (k_est s3) (k_cur s3) (k_near s3)
      else s3 in
    Ok s4.

  Definition set_cur (s : kstate) (f : option float) : kstate :=
    mk_kstate (k_run s) (k_wan s) (k_score s) (k_wander s) (k_wme s) (k_est s) f (k_near s).
  Definition set_filters (s : kstate) (run wan : option inner) : kstate :=
    mk_kstate run wan (k_score s) (k_wander s) (k_wme s) (k_est s) (k_cur s) (k_near s).
  Definition set_run (s : kstate) (run : option inner) : kstate := set_filters s run (k_wan s).

  Definition ensure_freq_init (s : kstate) : CM kstate :=
    match k_cur s with
    | Some _ => mret s
    | None =>
        let* r := mcall (SetFreq fzero) in
        match r with
        | Some _ => mret (set_cur s (Some fzero))
        | None => mret s
        end
    end.

  (* the frequency handed to Clock::set_frequency (if finite): the clamped sum.
     [None] = f64::clamp's assert!(min <= max) fails (negative or NaN bound) *)
  Definition freq_command (s : kstate) (cur target : float) : option float :=
    let b := c_max_freq_offset cfg in
    fclamp (cur +. clamp_adjustment cur (target -. base_freq_offset (k_run s) *. c_1e6) b) (-. b) b.

  (* change_frequency after fix 4d80470 (F12): final clamp of the command and a
     finiteness guard at the actuator *)
  Definition change_frequency (s : kstate) (target : float) : CM kstate :=
    match k_cur s with
    | Some cur =>
        match freq_command s cur target with
        | None => mlift (Panic site_clamp_assert)
        | Some f =>
            if is_fin f then
              let error_ppm := f -. cur in
              let* r := mcall (SetFreq f) in
              match r with
              | Some time =>
                  let* run := mlift (base_freq_steer dbg cfg (k_run s) error_ppm time (k_wander s)) in
                  let* wan := mlift (base_freq_steer dbg cfg (k_wan s) error_ppm time (k_wander s)) in
                  mret (set_cur (set_filters s run wan) (Some f))
              | None => mret s
              end
            else mret s          (* "Not programming non-finite clock frequency" *)
        end
    | None => mret s
    end.

  (* HISTORIC (before fix 4d80470): the command was cur + clamp_adjustment(..) itself,
     which can exceed the bound by one ulp (F12).  Kept only for the refutation witness. *)
  Definition freq_command_prefix (s : kstate) (cur target : float) : float :=
    cur +. clamp_adjustment cur (target -. base_freq_offset (k_run s) *. c_1e6) (c_max_freq_offset cfg).

  Definition kalman_step (s : kstate) (offset : float) : CM kstate :=
    let* d := mlift (d_from_seconds dbg (-. offset)) in
    let* r := mcall (StepClock d) in
    match r with
    | Some _ =>
        let* run := mlift (base_offset_steer dbg cfg (k_run s) (-. offset)) in
        let* wan := mlift (base_offset_steer dbg cfg (k_wan s) (-. offset)) in
        mret (set_filters s run wan)
    | None => mret s
    end.

  Definition mean_delay_update (s : kstate) : outcome (option Z) :=
    let! d := d_from_seconds dbg (base_mean_delay (k_run s)) in Ok (Some d).

  Definition steer_target (s : kstate) : outcome float :=
    let error := base_offset (k_run s) in
    let desired_adjust :=
      fsignum error
      *. fmax (fabs error -. base_offset_uncertainty cfg (k_run s) *. c_deadzone cfg) fzero in
    match fclamp (-. desired_adjust *. c_1e6 /. dur_seconds (c_steer_time cfg))
                 (-. c_max_steer cfg) (c_max_steer cfg) with
    | Some t => Ok t
    | None => Panic site_clamp_assert
    end.

  Definition kalman_steer (s : kstate) : CM (kstate * fupdate) :=
    let error := base_offset (k_run s) in
    if fabs error <. dur_seconds (c_step_threshold cfg) then
      let* target := mlift (steer_target s) in
      let* s' := change_frequency s target in
      let* md := mlift (mean_delay_update s') in
      mret (s', (true, md))
    else
      let* s' := kalman_step s error in
      let* md := mlift (mean_delay_update s') in
      mret (s', (false, md)).

  Definition variance_factor (s : kstate) : outcome float :=
    let! mv := est_measurement_variance cfg (k_est s) in
    Ok (mv *. (if e_peer (k_est s) then c_peer_factor cfg else fone)).

  Definition absorb_with (s : kstate) (h : mat) (z : Z) : CM kstate :=
    let* s' := ensure_freq_init s in
    let* v := mlift (variance_factor s') in
    mret (set_run s' (base_absorb_offset cfg (k_run s') h (dur_seconds z) v)).

  Definition kalman_measurement (s : kstate) (m : meas) : CM (kstate * fupdate) :=
    if negb (base_after_filter_time (k_run s) (m_time m)) then mret (s, fupdate_default)
    else
      let* est := mlift (est_absorb dbg cfg (k_est s) m (base_freq_offset (k_run s))) in
      let s1 := mk_kstate (k_run s) (k_wan s) (k_score s) (k_wander s) (k_wme s) est (k_cur s) (k_near s) in
      let* s2 := mlift (update_wander s1 m) in
      let* run := mlift (base_progress dbg cfg (k_run s2) (m_time m) (k_wander s2)) in
      let s3 := set_run s2 run in
      let* s4 := match m_sync m with Some so => absorb_with s3 H_SYNC so | None => mret s3 end in
      let* s5 := match m_dly m with Some d => absorb_with s4 H_DELAY d | None => mret s4 end in
      let* s6 :=
        match m_peer m with
        | Some pd =>
            let* v := mlift (variance_factor s5) in
            mret (set_run s5 (base_absorb_peer cfg (k_run s5) (dur_seconds pd) v))
        | None => mret s5
        end in
      kalman_steer s6.

  Definition kalman_update (s : kstate) : CM (kstate * fupdate) :=
    let* s' := change_frequency s fzero in
    let* md := mlift (mean_delay_update s') in
    mret (s', (false, md)).

  (* demobilize(self): the filter is consumed; only the clock effect remains *)
  Definition kalman_demobilize (s : kstate) : CM unit :=
    let* _ := change_frequency s fzero in mret tt.

  (* current_estimates : (offset_from_master, mean_delay) *)
  Definition kalman_estimates (s : kstate) : outcome (Z * Z) :=
    let! o := d_from_seconds dbg (base_offset (k_run s)) in
    let! d := d_from_seconds dbg (base_mean_delay (k_run s)) in
    Ok (o, d).
End Kalman.
