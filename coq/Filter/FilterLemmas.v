(** Proofs about the filter models (C13, and the decision lemmas of C02). *)
From Coq Require Import Reals Lra Lia ZArith Floats.
From Flocq Require Import Core BinarySingleNaN.
From SV Require Import Filter.FloatBits Filter.FloatOrder Filter.ClampBound Filter.FilterCases.
Local Open Scope Z_scope.

(** ---- a small Hoare logic for clock-threading computations ----
    [mspec P m Q]: if every command logged so far satisfies [P], then so does
    every command logged after running [m] -- also when [m] panics -- and a
    normal result satisfies [Q]. *)
Definition log_all (P : cmd -> Prop) (c : clk) : Prop := Forall P (c_log c).

Definition mspec {A} (P : cmd -> Prop) (m : CM A) (Q : A -> Prop) : Prop :=
  forall c, log_all P c ->
    log_all P (fst (m c)) /\ match snd (m c) with Ok a => Q a | Panic _ => True end.

Lemma mspec_ret {A} (P : cmd -> Prop) (a : A) (Q : A -> Prop) : Q a -> mspec P (mret a) Q.
Proof. intros H c Hc. simpl. auto. Qed.

Lemma mspec_bind {A B} (P : cmd -> Prop) (m : CM A) (f : A -> CM B) Q1 Q2 :
  mspec P m Q1 -> (forall a, Q1 a -> mspec P (f a) Q2) -> mspec P (mbind m f) Q2.
Proof.
  intros Hm Hf c Hc. unfold mbind. specialize (Hm c Hc).
  destruct (m c) as [c1 r]. simpl in Hm. destruct Hm as [H1 H2].
  destruct r as [a | s]; simpl; auto.
  apply Hf; auto.
Qed.

Lemma mspec_lift {A} (P : cmd -> Prop) (o : outcome A) (Q : A -> Prop) :
  (forall a, o = Ok a -> Q a) -> mspec P (mlift o) Q.
Proof. intros H c Hc. unfold mlift. simpl. split; auto. destruct o; auto. Qed.

Lemma mspec_call (P : cmd -> Prop) (x : cmd) (Q : reply -> Prop) :
  P x -> (forall r, Q r) -> mspec P (mcall x) Q.
Proof.
  intros Hx HQ c Hc. unfold mcall, clk_call.
  destruct (c_replies c); simpl; split; auto; constructor; auto.
Qed.

Lemma mspec_weaken {A} (P : cmd -> Prop) (m : CM A) (Q Q' : A -> Prop) :
  mspec P m Q -> (forall a, Q a -> Q' a) -> mspec P m Q'.
Proof.
  intros H HQ c Hc. destruct (H c Hc) as [H1 H2]. split; auto.
  destruct (snd (m c)); auto.
Qed.

(** commands issued by an event = the log of a run started with an empty log *)
Lemma mspec_run {A} (P : cmd -> Prop) (m : CM A) Q rs :
  mspec P m Q -> Forall P (c_log (fst (m (mk_clk rs [])))).
Proof. intros H. apply (H (mk_clk rs [])). constructor. Qed.

(** clamp(-b, b) of anything, if finite, is within [-b, b] *)
Lemma fclamp_abs_le x b r :
  is_fin b = true -> fclamp x (-. b) b = Some r -> is_fin r = true -> (fabs r <=. b) = true.
Proof.
  intros Hb Hc Hr. unfold fclamp in Hc.
  destruct (-. b <=. b) eqn:Hbb; [|discriminate]. inversion Hc as [Hc']; clear Hc.
  assert (Hnb : is_fin (-. b) = true) by now rewrite is_fin_opp.
  apply leb_true_R in Hbb; auto. rewrite FR_opp in Hbb.
  assert (HB : (0 <= FR b)%R) by lra.
  assert (Goal : forall g, is_fin g = true -> (Rabs (FR g) <= FR b)%R -> (fabs g <=. b) = true).
  { intros g Hg Hle. apply R_leb_true; [now rewrite is_fin_abs | auto | now rewrite FR_abs]. }
  destruct (x <. -. b) eqn:E1.
  - destruct (b <. -. b) eqn:E2; subst r.
    + apply Goal; auto. rewrite Rabs_pos_eq; lra.
    + apply Goal; auto. rewrite FR_opp, Rabs_Ropp, Rabs_pos_eq; lra.
  - destruct (b <. x) eqn:E2; subst r.
    + apply Goal; auto. rewrite Rabs_pos_eq; lra.
    + apply Goal; auto.
      apply ltb_false_R in E1; auto. apply ltb_false_R in E2; auto. rewrite FR_opp in E1.
      apply Rabs_le. lra.
Qed.

(** ---- destructing successful runs of outcome-valued code ---- *)
Ltac ok_inv H :=
  repeat (simpl in H;
  match type of H with
  | obind ?x _ = Ok _ => let E := fresh "E" in destruct x eqn:E; [| discriminate H]
  | (let '(_, _) := ?x in _) = Ok _ => destruct x eqn:?
  | (if ?b then _ else _) = Ok _ => let E := fresh "E" in destruct b eqn:E
  | match ?x with _ => _ end = Ok _ => let E := fresh "E" in destruct x eqn:E
  | Ok _ = Ok _ => inversion H; subst; clear H
  | Panic _ = Ok _ => discriminate H
  end).


(** ---- C13: the Kalman servo's frequency commands (code after fix 4d80470) ---- *)
Section KalmanExact.
  Variable exp_fn : float -> float.
  Variable dbg : bool.
  Variable cfg : kcfg.
  Let b := c_max_freq_offset cfg.

  (* the exact property: finite and within the configured bound; steps unconstrained here *)
  Definition cmdP_exact (c : cmd) : Prop :=
    match c with
    | SetFreq f => is_fin f = true /\ (fabs f <=. b) = true
    | StepClock _ => True
    end.

  Hypothesis Hbf : is_fin b = true.
  Hypothesis Hb0 : (fzero <=. b) = true.

  Lemma change_frequency_spec s t : mspec cmdP_exact (change_frequency dbg cfg s t) (fun _ => True).
  Proof.
    unfold change_frequency, freq_command. destruct (k_cur s) as [cur|]; [|apply mspec_ret; exact I].
    fold b. destruct (fclamp _ (-. b) b) as [f|] eqn:Ef; [|apply mspec_lift; auto].
    destruct (is_fin f) eqn:Ff; [|apply mspec_ret; exact I].
    eapply mspec_bind.
    - apply (mspec_call cmdP_exact (SetFreq f) (fun _ => True)); [|auto].
      split; [exact Ff | eapply fclamp_abs_le; eauto].
    - intros [time|] _; [|apply mspec_ret; exact I].
      eapply mspec_bind; [apply mspec_lift with (Q := fun _ => True); auto|]. intros run _.
      eapply mspec_bind; [apply mspec_lift with (Q := fun _ => True); auto|]. intros wan _.
      apply mspec_ret. exact I.
  Qed.

  Lemma zero_exact : cmdP_exact (SetFreq fzero).
  Proof.
    split; [reflexivity|]. apply R_leb_true; [reflexivity | exact Hbf |].
    rewrite FR_abs, FR_zero, Rabs_R0.
    pose proof (leb_true_R _ _ is_fin_zero Hbf Hb0) as H. rewrite FR_zero in H. exact H.
  Qed.

  Lemma ensure_freq_init_spec s : mspec cmdP_exact (ensure_freq_init s) (fun _ => True).
  Proof.
    unfold ensure_freq_init. destruct (k_cur s); [apply mspec_ret; exact I|].
    eapply mspec_bind.
    - apply (mspec_call cmdP_exact (SetFreq fzero) (fun _ => True)); [apply zero_exact | auto].
    - intros [t|] _; apply mspec_ret; exact I.
  Qed.

  Lemma kalman_step_spec s off : mspec cmdP_exact (kalman_step dbg cfg s off) (fun _ => True).
  Proof.
    unfold kalman_step.
    eapply mspec_bind; [apply mspec_lift with (Q := fun _ => True); auto|]. intros d _.
    eapply mspec_bind; [apply (mspec_call cmdP_exact _ (fun _ => True)); simpl; auto|].
    intros [t|] _; [|apply mspec_ret; exact I].
    eapply mspec_bind; [apply mspec_lift with (Q := fun _ => True); auto|]. intros run _.
    eapply mspec_bind; [apply mspec_lift with (Q := fun _ => True); auto|]. intros wan _.
    apply mspec_ret. exact I.
  Qed.

  Ltac step_true :=
    eapply mspec_bind with (Q1 := fun _ => True);
    [ first [ apply mspec_lift; auto | apply change_frequency_spec | apply kalman_step_spec
            | apply ensure_freq_init_spec | apply mspec_ret; exact I ] | intros ? _ ].

  Lemma absorb_with_spec s h z : mspec cmdP_exact (absorb_with cfg s h z) (fun _ => True).
  Proof. unfold absorb_with. step_true. step_true. apply mspec_ret; exact I. Qed.

  Lemma kalman_steer_spec s : mspec cmdP_exact (kalman_steer dbg cfg s) (fun _ => True).
  Proof.
    unfold kalman_steer. destruct (_ <. _).
    - step_true. step_true. step_true. apply mspec_ret; exact I.
    - step_true. step_true. apply mspec_ret; exact I.
  Qed.

  Lemma kalman_measurement_spec s m :
    mspec cmdP_exact (kalman_measurement exp_fn dbg cfg s m) (fun _ => True).
  Proof.
    unfold kalman_measurement.
    destruct (negb _); [apply mspec_ret; exact I|].
    step_true. step_true. step_true.
    eapply mspec_bind with (Q1 := fun _ => True).
    { destruct (m_sync m); [apply absorb_with_spec | apply mspec_ret; exact I]. } intros s4 _.
    eapply mspec_bind with (Q1 := fun _ => True).
    { destruct (m_dly m); [apply absorb_with_spec | apply mspec_ret; exact I]. } intros s5 _.
    eapply mspec_bind with (Q1 := fun _ => True).
    { destruct (m_peer m); [| apply mspec_ret; exact I]. step_true. apply mspec_ret; exact I. }
    intros s6 _. apply kalman_steer_spec.
  Qed.

  Definition kalman_event (s : kstate) (e : event) : CM kstate :=
    match e with
    | EMeas m => let* (s', _) := kalman_measurement exp_fn dbg cfg s m in mret s'
    | EUpdate => let* (s', _) := kalman_update dbg cfg s in mret s'
    | EDemob => let* _ := kalman_demobilize dbg cfg s in mlift (kalman_new cfg)
    end.

  (* the commands of each event, in order of issue; stops after a panic *)
  Fixpoint kalman_trace (s : kstate) (es : list event) (rs : list reply) : list (list cmd) :=
    match es with
    | [] => []
    | e :: es' =>
        let '(c', r) := kalman_event s e (mk_clk rs []) in
        rev (c_log c') ::
        match r with
        | Ok s' => kalman_trace s' es' (c_replies c')
        | Panic _ => []
        end
    end.

  Lemma kalman_event_spec s e : mspec cmdP_exact (kalman_event s e) (fun _ => True).
  Proof.
    destruct e as [m| |]; unfold kalman_event.
    - eapply mspec_bind with (Q1 := fun _ => True); [apply kalman_measurement_spec|].
      intros [s' u] _. apply mspec_ret; exact I.
    - unfold kalman_update.
      eapply mspec_bind with (Q1 := fun _ => True); [|intros [s' u] _; apply mspec_ret; exact I].
      step_true. step_true. apply mspec_ret; exact I.
    - unfold kalman_demobilize.
      eapply mspec_bind with (Q1 := fun _ => True); [|intros _ _; apply mspec_lift; auto].
      eapply mspec_bind with (Q1 := fun _ => True);
        [apply change_frequency_spec | intros ? _; apply mspec_ret; exact I].
  Qed.

  (** freq_cmd_bounded, EXACT: along every trajectory (any events, any clock replies, any
      length, any exp, either build mode, ANY estimator state -- also NaN / infinite
      ones) every frequency command is finite and |f| <= max_freq_offset. *)
  Theorem freq_cmd_bounded s es rs : Forall (Forall cmdP_exact) (kalman_trace s es rs).
  Proof.
    revert s rs. induction es as [|e es IH]; intros s rs; simpl; [constructor|].
    pose proof (kalman_event_spec s e (mk_clk rs []) ltac:(constructor)) as [H1 _].
    destruct (kalman_event s e (mk_clk rs [])) as [c' r]. simpl in H1.
    constructor; [apply Forall_rev; exact H1 | destruct r; [apply IH | constructor]].
  Qed.
End KalmanExact.

(* link between the trace used in the theorems and the observations compared with the
   implementation: the commands of [run_events] are exactly those of [kalman_trace] *)
Lemma run_events_trace exp_fn dbg cfg s es rs :
  map o_cmds (run_events exp_fn dbg (FKalman cfg) (SK s) es rs)
  = map (map ocmd_of) (kalman_trace exp_fn dbg cfg s es rs).
Proof.
  revert s rs. induction es as [|e es IH]; intros s rs; [reflexivity|].
  cbn [run_events kalman_trace]. unfold run_event, kalman_event.
  destruct e as [m| |]; unfold mbind, mret, mlift.
  - destruct (kalman_measurement exp_fn dbg cfg s m (mk_clk rs [])) as [c' [[s' u]|]]; cbn; [|reflexivity].
    now rewrite IH.
  - destruct (kalman_update dbg cfg s (mk_clk rs [])) as [c' [[s' u]|]]; cbn; [|reflexivity].
    now rewrite IH.
  - destruct (kalman_demobilize dbg cfg s (mk_clk rs [])) as [c' [[]|]]; cbn; [|reflexivity].
    destruct (kalman_new cfg) as [s'|]; cbn; [|reflexivity]. now rewrite IH.
Qed.

(** ---- exact description of the commands issued by the steering code ---- *)
Section KalmanCmds.
  Variable dbg : bool.
  Variable cfg : kcfg.

  (* what change_frequency adds to the command log *)
  Definition freq_cmds (s : kstate) (t : float) (l : list cmd) : list cmd :=
    match k_cur s with
    | Some cur =>
        match freq_command cfg s cur t with
        | Some f => if is_fin f then SetFreq f :: l else l
        | None => l
        end
    | None => l
    end.

  Lemma change_frequency_log s t c :
    c_log (fst (change_frequency dbg cfg s t c)) = freq_cmds s t (c_log c).
  Proof.
    unfold change_frequency, freq_cmds. destruct (k_cur s) as [cur|]; [|reflexivity].
    destruct (freq_command cfg s cur t) as [f|]; [|reflexivity].
    destruct (is_fin f); [|reflexivity].
    unfold mbind, mcall, clk_call, mlift, mret.
    destruct (c_replies c) as [|[time|] rs]; simpl; try reflexivity.
    destruct (base_freq_steer dbg cfg (k_run s) _ time (k_wander s)); simpl; [|reflexivity].
    destruct (base_freq_steer dbg cfg (k_wan s) _ time (k_wander s)); reflexivity.
  Qed.

  Lemma change_frequency_cur_none s t c :
    k_cur s = None -> change_frequency dbg cfg s t c = (c, Ok s).
  Proof. unfold change_frequency. now intros ->. Qed.

  Lemma kalman_step_log s off c :
    c_log (fst (kalman_step dbg cfg s off c)) =
    match d_from_seconds dbg (-. off) with
    | Ok d => StepClock d :: c_log c
    | Panic _ => c_log c
    end.
  Proof.
    unfold kalman_step, mbind, mcall, clk_call, mlift, mret.
    destruct (d_from_seconds dbg (-. off)) as [d|]; simpl; [|reflexivity].
    destruct (c_replies c) as [|[time|] rs]; simpl; try reflexivity.
    destruct (base_offset_steer dbg cfg (k_run s) (-. off)); simpl; [|reflexivity].
    destruct (base_offset_steer dbg cfg (k_wan s) (-. off)); reflexivity.
  Qed.

  Lemma mlift_bind_log {A B} (o : outcome A) (f : A -> CM B) c :
    c_log (fst (mbind (mlift o) f c)) =
    match o with Ok a => c_log (fst (f a c)) | Panic _ => c_log c end.
  Proof. unfold mbind, mlift. destruct o; reflexivity. Qed.

  Lemma bind_ret_log {A B C} (m : CM A) (g : A -> outcome B) (h : A -> B -> C) c :
    c_log (fst (mbind m (fun a => mbind (mlift (g a)) (fun b => mret (h a b))) c)) = c_log (fst (m c)).
  Proof.
    unfold mbind, mlift, mret. destruct (m c) as [c1 [a|]]; simpl; [|reflexivity].
    destruct (g a); reflexivity.
  Qed.

  (** steer_decision / step_cmd: [steer] steps the clock iff NOT |offset estimate| <
      step threshold (so also when the estimate is NaN, where from_seconds panics
      before any command), the step is exactly from_seconds(-offset estimate), and
      otherwise it issues at most the one frequency command of [change_frequency]. *)
  Theorem steer_decision s c :
    c_log (fst (kalman_steer dbg cfg s c)) =
    if fabs (base_offset (k_run s)) <. dur_seconds (c_step_threshold cfg) then
      match steer_target cfg s with
      | Ok t => freq_cmds s t (c_log c)
      | Panic _ => c_log c
      end
    else
      match d_from_seconds dbg (-. base_offset (k_run s)) with
      | Ok d => StepClock d :: c_log c
      | Panic _ => c_log c
      end.
  Proof.
    unfold kalman_steer.
    destruct (fabs (base_offset (k_run s)) <. dur_seconds (c_step_threshold cfg)).
    - rewrite mlift_bind_log. destruct (steer_target cfg s) as [t|]; [|reflexivity].
      rewrite (bind_ret_log (change_frequency dbg cfg s t) (fun s' => mean_delay_update dbg s')
                            (fun s' md => (s', (true, md)))).
      apply change_frequency_log.
    - rewrite (bind_ret_log (kalman_step dbg cfg s (base_offset (k_run s))) (fun s' => mean_delay_update dbg s')
                            (fun s' md => (s', (false, md)))).
      apply kalman_step_log.
  Qed.

  (** demobilize_once: leaving the slave state issues at most one command, a
      frequency command; a freshly created filter (cur_frequency = None) issues
      nothing on [update] or [demobilize]. *)
  Theorem demobilize_log s c :
    c_log (fst (kalman_demobilize dbg cfg s c)) = freq_cmds s fzero (c_log c).
  Proof.
    unfold kalman_demobilize.
    transitivity (c_log (fst (change_frequency dbg cfg s fzero c))); [|apply change_frequency_log].
    unfold mbind, mret. destruct (change_frequency dbg cfg s fzero c) as [c1 [a|]]; reflexivity.
  Qed.

  Theorem update_log s c :
    c_log (fst (kalman_update dbg cfg s c)) = freq_cmds s fzero (c_log c).
  Proof.
    unfold kalman_update.
    rewrite (bind_ret_log (change_frequency dbg cfg s fzero) (fun s' => mean_delay_update dbg s')
                          (fun s' md => (s', (false, md)))).
    apply change_frequency_log.
  Qed.

  Lemma freq_cmds_at_most_one s t l :
    freq_cmds s t l = l \/ exists f, freq_cmds s t l = SetFreq f :: l.
  Proof.
    unfold freq_cmds. destruct (k_cur s); auto. destruct (freq_command cfg s f t) as [g|]; auto.
    destruct (is_fin g); eauto.
  Qed.

  Theorem fresh_filter_quiet s c :
    kalman_new cfg = Ok s ->
    k_cur s = None /\
    c_log (fst (kalman_update dbg cfg s c)) = c_log c /\
    c_log (fst (kalman_demobilize dbg cfg s c)) = c_log c.
  Proof.
    intros H. assert (Hc : k_cur s = None) by (unfold kalman_new in H; ok_inv H; reflexivity).
    rewrite update_log, demobilize_log. unfold freq_cmds. rewrite Hc. auto.
  Qed.
End KalmanCmds.

(** ---- the basic filter (code after fix 3d2d7f9) ---- *)
Section BasicExact.
  Variable dbg : bool.

  Definition cmdP_fin (c : cmd) : Prop :=
    match c with SetFreq f => is_fin f = true | StepClock _ => True end.

  (** basic_finite: every command of every measurement, from ANY state, is finite. *)
  Theorem basic_finite s m : mspec cmdP_fin (basic_measurement dbg s m) (fun _ => True).
  Proof.
    unfold basic_measurement.
    destruct (m_offset m) as [offset|]; [|apply mspec_ret; exact I].
    eapply mspec_bind with (Q1 := fun _ => True); [apply mspec_lift; auto|]. intros aoff _.
    destruct (ONE_SEC <? aoff).
    { eapply mspec_bind with (Q1 := fun _ => True); [apply mspec_lift; auto|]. intros noff _.
      eapply mspec_bind with (Q1 := fun _ => True);
        [apply (mspec_call cmdP_fin _ (fun _ => True)); simpl; auto|]. intros _ _.
      apply mspec_ret; exact I. }
    eapply mspec_bind with (Q1 := fun _ => True); [apply mspec_lift; auto|]. intros [[clamped oc] corr] _.
    eapply mspec_bind with (Q1 := fun _ => True).
    { destruct (b_last_step s) as [[[lt lo] lc]|].
      - eapply mspec_bind with (Q1 := fun _ => True); [apply mspec_lift; auto|]. intros [d2 d3] _.
        destruct (d3 <=? 0); [apply mspec_ret; exact I|].
        eapply mspec_bind with (Q1 := fun _ => True); [apply mspec_lift; auto|]. intros [fcorr fc] _.
        apply mspec_ret; exact I.
      - eapply mspec_bind with (Q1 := fun _ => True);
          [apply (mspec_call cmdP_fin _ (fun _ => True)); simpl; auto|]. intros _ _.
        apply mspec_ret; exact I. }
    intros [[freq_corr fc] cur0] _.
    eapply mspec_bind with (Q1 := fun _ => True);
      [apply (mspec_call cmdP_fin _ (fun _ => True)); simpl; auto|]. intros _ _.
    destruct (is_fin (cur0 +. freq_corr)) eqn:Ef; [|apply mspec_ret; exact I].
    eapply mspec_bind with (Q1 := fun _ => True);
      [apply (mspec_call cmdP_fin _ (fun _ => True)); simpl; auto|]. intros r _.
    apply mspec_ret; exact I.
  Qed.

  (* trajectories of the basic filter *)
  Fixpoint basic_trace (s : bstate) (ms : list meas) (rs : list reply) : list (list cmd) :=
    match ms with
    | [] => []
    | m :: ms' =>
        let '(c', r) := basic_measurement dbg s m (mk_clk rs []) in
        rev (c_log c') ::
        match r with
        | Ok (s', _) => basic_trace s' ms' (c_replies c')
        | Panic _ => []
        end
    end.

  Theorem basic_finite_trace s ms rs : Forall (Forall cmdP_fin) (basic_trace s ms rs).
  Proof.
    revert s rs. induction ms as [|m ms IH]; intros s rs; simpl; [constructor|].
    pose proof (basic_finite s m (mk_clk rs []) ltac:(constructor)) as [H1 _].
    destruct (basic_measurement dbg s m (mk_clk rs [])) as [c' r]. simpl in H1.
    constructor; [apply Forall_rev; exact H1 | destruct r as [[s' u]|]; [apply IH | constructor]].
  Qed.
End BasicExact.

(** ---- HISTORIC: why the fixes were needed (statements about the pre-fix formulas) ---- *)
(* F12: cur + clamp_adjustment(cur, err, bound) can be next_up(bound) *)
Definition f12_cur : float := Eval vm_compute in fb 13868707814713838335.   (* -376.76736994010565 *)
Definition f12_bound : float := Eval vm_compute in fb 4645744490609377280.  (* 400.0 *)
Lemma prefix_clamp_overshoot_witness :
  let f := f12_cur +. clamp_adjustment f12_cur (fb 4652007308841189376) f12_bound in  (* error = +1000 ppm *)
  is_fin f = true /\ (fabs f <=. f12_bound) = false /\ bits_of_f f = bits_of_f (PrimFloat.next_up f12_bound)
  /\ fclamp f (-. f12_bound) f12_bound = Some f12_bound.
Proof. vm_compute. repeat split. Qed.

(* F13: the frequency-correction formula on two zero intervals is NaN; the repaired
   measurement does not evaluate it when the master interval is <= 0 *)
Lemma prefix_basic_zero_over_zero :
  match basic_freq_corr (basic_new (fb 4602678819172646912)) 0 0 with
  | Ok (fcorr, fc) => FloatBits.is_nan fcorr && FloatBits.is_nan fc
  | Panic _ => false
  end = true.
Proof. vm_compute. reflexivity. Qed.

(* the two regression streams of the harness (indices 0 and 1) on the repaired model *)
Definition f13_events : list event :=
  [M (1000 * NS_PER_S * FRAC) (Some 0) None None (Some 0) None;
   M (1000 * NS_PER_S * FRAC) (Some 0) None None (Some 0) None].
Lemma f13_stream_now_finite :
  map o_cmds (run_filter exp_eval true (FBasic (fb 4602678819172646912)) f13_events
                (repeat (Some (1000 * NS_PER_S * FRAC)) 6))
  = [[OF 0; OS 0; OF 0]; [OS 0; OF 0]].
Proof. vm_compute. reflexivity. Qed.

(** step_cmd, magnitude clause.  NOT proved in general (it needs an error analysis
    of Duration::seconds / Duration::from_seconds); the oracle [step_ok] checks it on
    every implementation trace, and the kernel evaluates it here on a boundary
    lattice: thresholds from 2^-32 ns to 2^58 ns, offset estimates at and next to
    the rounded threshold, on both sides.  A TEST, not a proof. *)
Definition step_mag_check (thr : Z) (e : float) : bool :=
  if fabs e <. dur_seconds thr then true
  else match d_from_seconds true (-. e) with Ok d => step_ok thr d | Panic _ => true end.
Definition step_mag_points (t : float) : list float :=
  [t; PrimFloat.next_up t; PrimFloat.next_down t; PrimFloat.next_up (PrimFloat.next_up t);
   t *. ftwo; t *. c_1e6; -. t; -. PrimFloat.next_up t; -. PrimFloat.next_down t; -. (t *. c_10)].
Definition step_mag_thresholds : list Z :=
  [1; 2; 3; 1000; FRAC - 1; FRAC; FRAC + 1; 999 * FRAC; 1000 * FRAC + 7; 4294967000000000;
   1000000 * FRAC; 1000000 * FRAC + 1; NS_PER_S * FRAC - 1; NS_PER_S * FRAC; 100 * NS_PER_S * FRAC + 12345;
   2 ^ 70 + 2 ^ 17 + 1; 2 ^ 90 - 1].
Definition step_mag_grid : bool :=
  forallb (fun thr => forallb (step_mag_check thr) (step_mag_points (dur_seconds thr))) step_mag_thresholds.
Lemma step_mag_grid_holds : step_mag_grid = true.
Proof. vm_compute. reflexivity. Qed.
