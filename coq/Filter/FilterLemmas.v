(** Proofs about the filter models (C13, and the decision lemmas of C02). *)
From Coq Require Import Reals Lra Lia ZArith Floats.
From Flocq Require Import Core BinarySingleNaN.
From SV Require Import Filter.FloatBits Filter.FloatOrder Filter.ClampBound Filter.FilterCases.
Local Open Scope Z_scope.

(** ---- a small Hoare logic for clock-threading computations ----
    [mspec P m Q]: if every command logged so far satisfies [P], then so does
    every command logged after running [m] -- also when [m] panics -- and a
    normal result satisfies [Q]. *)
Definition log_all (P : cmd -> Prop) (c : clk) : Prop := Forall P (c_log c).

Definition mspec {A} (P : cmd -> Prop) (m : CM A) (Q : A -> Prop) : Prop :=
  forall c, log_all P c ->
    log_all P (fst (m c)) /\ match snd (m c) with Ok a => Q a | Panic _ => True end.

Lemma mspec_ret {A} (P : cmd -> Prop) (a : A) (Q : A -> Prop) : Q a -> mspec P (mret a) Q.
Proof. intros H c Hc. simpl. auto. Qed.

Lemma mspec_bind {A B} (P : cmd -> Prop) (m : CM A) (f : A -> CM B) Q1 Q2 :
  mspec P m Q1 -> (forall a, Q1 a -> mspec P (f a) Q2) -> mspec P (mbind m f) Q2.
Proof.
  intros Hm Hf c Hc. unfold mbind. specialize (Hm c Hc).
  destruct (m c) as [c1 r]. simpl in Hm. destruct Hm as [H1 H2].
  destruct r as [a | s]; simpl; auto.
  apply Hf; auto.
Qed.

Lemma mspec_lift {A} (P : cmd -> Prop) (o : outcome A) (Q : A -> Prop) :
  (forall a, o = Ok a -> Q a) -> mspec P (mlift o) Q.
Proof. intros H c Hc. unfold mlift. simpl. split; auto. destruct o; auto. Qed.

Lemma mspec_call (P : cmd -> Prop) (x : cmd) (Q : reply -> Prop) :
  P x -> (forall r, Q r) -> mspec P (mcall x) Q.
Proof.
  intros Hx HQ c Hc. unfold mcall, clk_call.
  destruct (c_replies c); simpl; split; auto; constructor; auto.
Qed.

Lemma mspec_weaken {A} (P : cmd -> Prop) (m : CM A) (Q Q' : A -> Prop) :
  mspec P m Q -> (forall a, Q a -> Q' a) -> mspec P m Q'.
Proof.
  intros H HQ c Hc. destruct (H c Hc) as [H1 H2]. split; auto.
  destruct (snd (m c)); auto.
Qed.

(** commands issued by an event = the log of a run started with an empty log *)
Lemma mspec_run {A} (P : cmd -> Prop) (m : CM A) Q rs :
  mspec P m Q -> Forall P (c_log (fst (m (mk_clk rs [])))).
Proof. intros H. apply (H (mk_clk rs [])). constructor. Qed.

(** ---- float facts used below ---- *)
Lemma add_nan_l x y : FloatBits.is_nan x = true -> FloatBits.is_nan (x +. y) = true.
Proof.
  rewrite !is_nan_equiv. unfold P2B. rewrite FP.add_equiv.
  destruct (FP.Prim2B x); try discriminate. reflexivity.
Qed.

Lemma zero_cmd_ok b : bound_ok b -> freq_cmd_ok b fzero.
Proof.
  intros Hb. right. split; [reflexivity|].
  destruct (bound_ok_R b Hb) as (H0 & _ & Hnf & Hns & _).
  apply R_leb_true; [reflexivity | exact Hnf |].
  rewrite FR_abs, FR_zero, Rabs_R0, Hns.
  eapply Rle_trans; [| apply succ_ge_id]. lra.
Qed.

(** F12, positive half: whatever the error term, a command computed from an
    admissible current frequency is admissible: NaN, or finite and within
    next_up(bound). *)
Lemma freq_command_ok b cur err :
  bound_ok b -> freq_cmd_ok b cur -> freq_cmd_ok b (cur +. clamp_adjustment cur err b).
Proof.
  intros Hb [Hn | [Hf Hle]].
  - left. now apply add_nan_l.
  - unfold clamp_adjustment.
    destruct (clamp_cmd_partial cur err b Hb Hf Hle) as [[H _] | H]; [left | right]; exact H.
Qed.

(** ... and it is NaN only if the error term is NaN (or the current frequency already was) *)
Lemma freq_command_nan b cur err :
  bound_ok b -> is_fin cur = true -> (fabs cur <=. PrimFloat.next_up b) = true ->
  FloatBits.is_nan (cur +. clamp_adjustment cur err b) = true -> FloatBits.is_nan err = true.
Proof.
  intros Hb Hf Hle Hn. unfold clamp_adjustment in Hn.
  destruct (clamp_cmd_partial cur err b Hb Hf Hle) as [[_ H] | [H _]]; [exact H|].
  apply fin_not_nan in H. congruence.
Qed.

(** ---- destructing successful runs of outcome-valued code ---- *)
Ltac ok_inv H :=
  repeat (simpl in H;
  match type of H with
  | obind ?x _ = Ok _ => let E := fresh "E" in destruct x eqn:E; [| discriminate H]
  | (let '(_, _) := ?x in _) = Ok _ => destruct x eqn:?
  | (if ?b then _ else _) = Ok _ => let E := fresh "E" in destruct b eqn:E
  | match ?x with _ => _ end = Ok _ => let E := fresh "E" in destruct x eqn:E
  | Ok _ = Ok _ => inversion H; subst; clear H
  | Panic _ = Ok _ => discriminate H
  end).

(** ---- C13: the Kalman servo's frequency commands ---- *)
Section KalmanInv.
  Variable exp_fn : float -> float.
  Variable dbg : bool.
  Variable cfg : kcfg.
  Hypothesis Hb : bound_ok (c_max_freq_offset cfg).
  Let b := c_max_freq_offset cfg.

  (* what a logged command must satisfy; steps are unconstrained here *)
  Definition cmdP (c : cmd) : Prop :=
    match c with SetFreq f => freq_cmd_ok b f | StepClock _ => True end.
  (* invariant: the remembered current frequency is an admissible command *)
  Definition KInv (s : kstate) : Prop :=
    match k_cur s with Some cur => freq_cmd_ok b cur | None => True end.

  Lemma wander_score_update_cur s u p a s' :
    wander_score_update exp_fn cfg s u p a = Ok s' -> k_cur s' = k_cur s.
  Proof. unfold wander_score_update. intros H. ok_inv H; reflexivity. Qed.

  Lemma update_wander_cur s m s' :
    update_wander exp_fn dbg cfg s m = Ok s' -> k_cur s' = k_cur s.
  Proof.
    unfold update_wander. intros H.
    destruct (base_progress dbg cfg (k_wan s) (m_time m) (k_wander s)) as [w|] eqn:Ew; [|discriminate H].
    simpl in H.
    match type of H with obind ?x _ = _ => destruct x as [s1|] eqn:E1; [|discriminate H] end.
    simpl in H.
    match type of H with obind ?x _ = _ => destruct x as [s2|] eqn:E2; [|discriminate H] end.
    simpl in H.
    match type of H with obind ?x _ = _ => destruct x as [nh|] eqn:E3; [|discriminate H] end.
    simpl in H. inversion H; subst; clear H.
    assert (H1 : k_cur s1 = k_cur s).
    { destruct (m_sync m).
      - destruct (base_predict cfg w H_SYNC). apply wander_score_update_cur in E1. exact E1.
      - inversion E1. reflexivity. }
    assert (H2 : k_cur s2 = k_cur s1).
    { destruct (m_dly m).
      - destruct (base_predict cfg (k_wan s1) H_DELAY). apply wander_score_update_cur in E2. exact E2.
      - inversion E2. reflexivity. }
    rewrite <- H1, <- H2.
    destruct (k_score s2 <? nh); simpl;
    match goal with |- context [if ?c then _ else _] => destruct c end; reflexivity.
  Qed.

  Lemma ensure_freq_init_spec s : KInv s -> mspec cmdP (ensure_freq_init s) KInv.
  Proof.
    intros Hs. unfold ensure_freq_init. destruct (k_cur s) eqn:E.
    - apply mspec_ret; exact Hs.
    - eapply mspec_bind.
      + apply (mspec_call cmdP (SetFreq fzero) (fun _ => True)); [apply zero_cmd_ok, Hb | auto].
      + intros [t|] _; apply mspec_ret.
        * unfold KInv, set_cur; simpl. apply zero_cmd_ok, Hb.
        * exact Hs.
  Qed.

  Lemma change_frequency_spec s t : KInv s -> mspec cmdP (change_frequency dbg cfg s t) KInv.
  Proof.
    intros Hs. unfold change_frequency. unfold KInv in Hs. destruct (k_cur s) as [cur|] eqn:E.
    2:{ apply mspec_ret. unfold KInv. now rewrite E. }
    pose proof (freq_command_ok b cur (t -. base_freq_offset (k_run s) *. c_1e6) Hb Hs) as Hf.
    eapply mspec_bind.
    - apply (mspec_call cmdP _ (fun _ => True)); [exact Hf | auto].
    - intros [time|] _.
      + eapply mspec_bind; [apply mspec_lift with (Q := fun _ => True); auto|]. intros run _.
        eapply mspec_bind; [apply mspec_lift with (Q := fun _ => True); auto|]. intros wan _.
        apply mspec_ret. unfold KInv, set_cur; simpl. exact Hf.
      + apply mspec_ret. unfold KInv. now rewrite E.
  Qed.

  Lemma kalman_step_spec s off : KInv s -> mspec cmdP (kalman_step dbg s off) KInv.
  Proof.
    intros Hs. unfold kalman_step.
    eapply mspec_bind; [apply mspec_lift with (Q := fun _ => True); auto|]. intros d _.
    eapply mspec_bind; [apply (mspec_call cmdP _ (fun _ => True)); simpl; auto|].
    intros [t|] _.
    - eapply mspec_bind; [apply mspec_lift with (Q := fun _ => True); auto|]. intros run _.
      eapply mspec_bind; [apply mspec_lift with (Q := fun _ => True); auto|]. intros wan _.
      apply mspec_ret. exact Hs.
    - apply mspec_ret. exact Hs.
  Qed.

  Lemma kalman_steer_spec s :
    KInv s -> mspec cmdP (kalman_steer dbg cfg s) (fun r => KInv (fst r)).
  Proof.
    intros Hs. unfold kalman_steer.
    destruct (fabs (base_offset (k_run s)) <. dur_seconds (c_step_threshold cfg)).
    - eapply mspec_bind; [apply mspec_lift with (Q := fun _ => True); auto|]. intros t _.
      eapply mspec_bind; [apply change_frequency_spec; exact Hs|]. intros s' Hs'.
      eapply mspec_bind; [apply mspec_lift with (Q := fun _ => True); auto|]. intros md _.
      apply mspec_ret. exact Hs'.
    - eapply mspec_bind; [apply kalman_step_spec; exact Hs|]. intros s' Hs'.
      eapply mspec_bind; [apply mspec_lift with (Q := fun _ => True); auto|]. intros md _.
      apply mspec_ret. exact Hs'.
  Qed.

  Lemma absorb_with_spec s h z : KInv s -> mspec cmdP (absorb_with cfg s h z) KInv.
  Proof.
    intros Hs. unfold absorb_with.
    eapply mspec_bind; [apply ensure_freq_init_spec; exact Hs|]. intros s' Hs'.
    eapply mspec_bind; [apply mspec_lift with (Q := fun _ => True); auto|]. intros v _.
    apply mspec_ret. exact Hs'.
  Qed.

  Lemma kalman_measurement_spec s m :
    KInv s -> mspec cmdP (kalman_measurement exp_fn dbg cfg s m) (fun r => KInv (fst r)).
  Proof.
    intros Hs. unfold kalman_measurement.
    destruct (negb (base_after_filter_time (k_run s) (m_time m))).
    { apply mspec_ret. exact Hs. }
    eapply mspec_bind; [apply mspec_lift with (Q := fun _ => True); auto|]. intros est _.
    eapply mspec_bind.
    { apply mspec_lift with (Q := fun s2 => KInv s2).
      intros s2 H2. apply update_wander_cur in H2. unfold KInv. rewrite H2. exact Hs. }
    intros s2 Hs2.
    eapply mspec_bind; [apply mspec_lift with (Q := fun _ => True); auto|]. intros run _.
    assert (Hs3 : KInv (set_run s2 run)) by exact Hs2.
    eapply mspec_bind with (Q1 := KInv).
    { destruct (m_sync m); [apply absorb_with_spec | apply mspec_ret]; exact Hs3. }
    intros s4 Hs4.
    eapply mspec_bind with (Q1 := KInv).
    { destruct (m_dly m); [apply absorb_with_spec | apply mspec_ret]; exact Hs4. }
    intros s5 Hs5.
    eapply mspec_bind with (Q1 := KInv).
    { destruct (m_peer m); [| apply mspec_ret; exact Hs5].
      eapply mspec_bind; [apply mspec_lift with (Q := fun _ => True); auto|]. intros v _.
      apply mspec_ret. exact Hs5. }
    intros s6 Hs6. apply kalman_steer_spec; exact Hs6.
  Qed.

  Lemma kalman_update_spec s :
    KInv s -> mspec cmdP (kalman_update dbg cfg s) (fun r => KInv (fst r)).
  Proof.
    intros Hs. unfold kalman_update.
    eapply mspec_bind; [apply change_frequency_spec; exact Hs|]. intros s' Hs'.
    eapply mspec_bind; [apply mspec_lift with (Q := fun _ => True); auto|]. intros md _.
    apply mspec_ret. exact Hs'.
  Qed.

  Lemma kalman_demobilize_spec s :
    KInv s -> mspec cmdP (kalman_demobilize dbg cfg s) (fun _ => True).
  Proof.
    intros Hs. unfold kalman_demobilize.
    eapply mspec_bind; [apply change_frequency_spec; exact Hs|]. intros s' _.
    apply mspec_ret. exact I.
  Qed.

  Lemma kalman_new_inv s : kalman_new cfg = Ok s -> KInv s.
  Proof. unfold kalman_new. intros H. ok_inv H. exact I. Qed.
End KalmanInv.

(** ---- exact description of the commands issued by the steering code ---- *)
Section KalmanCmds.
  Variable dbg : bool.
  Variable cfg : kcfg.

  Lemma change_frequency_log s t c :
    c_log (fst (change_frequency dbg cfg s t c)) =
    match k_cur s with
    | Some cur => SetFreq (freq_command cfg s cur t) :: c_log c
    | None => c_log c
    end.
  Proof.
    unfold change_frequency, freq_command. destruct (k_cur s) as [cur|]; [|reflexivity].
    unfold mbind, mcall, clk_call, mlift, mret.
    destruct (c_replies c) as [|[time|] rs]; simpl; try reflexivity.
    destruct (base_freq_steer dbg cfg (k_run s) _ time (k_wander s)); simpl; [|reflexivity].
    destruct (base_freq_steer dbg cfg (k_wan s) _ time (k_wander s)); reflexivity.
  Qed.

  Lemma change_frequency_cur_none s t c :
    k_cur s = None -> change_frequency dbg cfg s t c = (c, Ok s).
  Proof. unfold change_frequency. now intros ->. Qed.

  Lemma kalman_step_log s off c :
    c_log (fst (kalman_step dbg s off c)) =
    match d_from_seconds dbg (-. off) with
    | Ok d => StepClock d :: c_log c
    | Panic _ => c_log c
    end.
  Proof.
    unfold kalman_step, mbind, mcall, clk_call, mlift, mret.
    destruct (d_from_seconds dbg (-. off)) as [d|]; simpl; [|reflexivity].
    destruct (c_replies c) as [|[time|] rs]; simpl; try reflexivity.
    destruct (base_offset_steer dbg (k_run s) (-. off)); simpl; [|reflexivity].
    destruct (base_offset_steer dbg (k_wan s) (-. off)); reflexivity.
  Qed.

  Lemma mlift_bind_log {A B} (o : outcome A) (f : A -> CM B) c :
    c_log (fst (mbind (mlift o) f c)) =
    match o with Ok a => c_log (fst (f a c)) | Panic _ => c_log c end.
  Proof. unfold mbind, mlift. destruct o; reflexivity. Qed.

  Lemma bind_ret_log {A B C} (m : CM A) (g : A -> outcome B) (h : A -> B -> C) c :
    c_log (fst (mbind m (fun a => mbind (mlift (g a)) (fun b => mret (h a b))) c)) = c_log (fst (m c)).
  Proof.
    unfold mbind, mlift, mret. destruct (m c) as [c1 [a|]]; simpl; [|reflexivity].
    destruct (g a); reflexivity.
  Qed.

  (** steer_decision / step_cmd: [steer] steps the clock iff NOT |offset estimate| <
      step threshold (so also when the estimate is NaN, where from_seconds panics
      before any command), the step is exactly from_seconds(-offset estimate), and
      otherwise it issues exactly the frequency command of [change_frequency]. *)
  Theorem steer_decision s c :
    c_log (fst (kalman_steer dbg cfg s c)) =
    if fabs (base_offset (k_run s)) <. dur_seconds (c_step_threshold cfg) then
      match steer_target cfg s with
      | Ok t =>
          match k_cur s with
          | Some cur => SetFreq (freq_command cfg s cur t) :: c_log c
          | None => c_log c
          end
      | Panic _ => c_log c
      end
    else
      match d_from_seconds dbg (-. base_offset (k_run s)) with
      | Ok d => StepClock d :: c_log c
      | Panic _ => c_log c
      end.
  Proof.
    unfold kalman_steer.
    destruct (fabs (base_offset (k_run s)) <. dur_seconds (c_step_threshold cfg)).
    - rewrite mlift_bind_log. destruct (steer_target cfg s) as [t|]; [|reflexivity].
      rewrite (bind_ret_log (change_frequency dbg cfg s t) (fun s' => mean_delay_update dbg s')
                            (fun s' md => (s', (true, md)))).
      apply change_frequency_log.
    - rewrite (bind_ret_log (kalman_step dbg s (base_offset (k_run s))) (fun s' => mean_delay_update dbg s')
                            (fun s' md => (s', (false, md)))).
      apply kalman_step_log.
  Qed.

  (** demobilize_once: leaving the slave state issues at most one command, a
      frequency command; a freshly created filter (cur_frequency = None) issues
      nothing on [update] or [demobilize]. *)
  Theorem demobilize_log s c :
    c_log (fst (kalman_demobilize dbg cfg s c)) =
    match k_cur s with
    | Some cur => SetFreq (freq_command cfg s cur fzero) :: c_log c
    | None => c_log c
    end.
  Proof.
    unfold kalman_demobilize.
    transitivity (c_log (fst (change_frequency dbg cfg s fzero c))); [|apply change_frequency_log].
    unfold mbind, mret. destruct (change_frequency dbg cfg s fzero c) as [c1 [a|]]; reflexivity.
  Qed.

  Theorem update_log s c :
    c_log (fst (kalman_update dbg cfg s c)) =
    match k_cur s with
    | Some cur => SetFreq (freq_command cfg s cur fzero) :: c_log c
    | None => c_log c
    end.
  Proof.
    unfold kalman_update.
    rewrite (bind_ret_log (change_frequency dbg cfg s fzero) (fun s' => mean_delay_update dbg s')
                          (fun s' md => (s', (false, md)))).
    apply change_frequency_log.
  Qed.

  Theorem fresh_filter_quiet s c :
    kalman_new cfg = Ok s ->
    k_cur s = None /\
    c_log (fst (kalman_update dbg cfg s c)) = c_log c /\
    c_log (fst (kalman_demobilize dbg cfg s c)) = c_log c.
  Proof.
    intros H. assert (Hc : k_cur s = None) by (unfold kalman_new in H; ok_inv H; reflexivity).
    rewrite update_log, demobilize_log, Hc. auto.
  Qed.

  (* a filter stays silent on update/demobilize until a measurement has set cur_frequency,
     and an update never creates one *)
  Lemma update_keeps_cur_none s c :
    k_cur s = None -> kalman_update dbg cfg s c = (c, obind (mean_delay_update dbg s) (fun md => Ok (s, (false, md)))).
  Proof.
    intros H. unfold kalman_update, mbind. rewrite change_frequency_cur_none by exact H.
    unfold mlift, mret. destruct (mean_delay_update dbg s); reflexivity.
  Qed.
End KalmanCmds.

(** ---- trajectories: every command of every event ---- *)
Section KalmanTrace.
  Variable exp_fn : float -> float.
  Variable dbg : bool.
  Variable cfg : kcfg.

  Definition kalman_event (s : kstate) (e : event) : CM kstate :=
    match e with
    | EMeas m => let* (s', _) := kalman_measurement exp_fn dbg cfg s m in mret s'
    | EUpdate => let* (s', _) := kalman_update dbg cfg s in mret s'
    | EDemob => let* _ := kalman_demobilize dbg cfg s in mlift (kalman_new cfg)
    end.

  (* the commands of each event, in order of issue; stops after a panic *)
  Fixpoint kalman_trace (s : kstate) (es : list event) (rs : list reply) : list (list cmd) :=
    match es with
    | [] => []
    | e :: es' =>
        let '(c', r) := kalman_event s e (mk_clk rs []) in
        rev (c_log c') ::
        match r with
        | Ok s' => kalman_trace s' es' (c_replies c')
        | Panic _ => []
        end
    end.

  Hypothesis Hb : bound_ok (c_max_freq_offset cfg).

  Lemma kalman_event_spec s e :
    KInv cfg s -> mspec (cmdP cfg) (kalman_event s e) (KInv cfg).
  Proof.
    intros Hs. destruct e as [m| |]; unfold kalman_event.
    - eapply mspec_bind; [apply kalman_measurement_spec; assumption|].
      intros [s' u] H. apply mspec_ret. exact H.
    - eapply mspec_bind; [apply kalman_update_spec; assumption|].
      intros [s' u] H. apply mspec_ret. exact H.
    - eapply mspec_bind; [apply kalman_demobilize_spec; assumption|].
      intros _ _. apply mspec_lift. intros s' H. eapply kalman_new_inv; eassumption.
  Qed.

  (** freq_cmd_bounded, the part that is TRUE of today's code: along every
      trajectory (any events, any clock replies, any length), every frequency
      command is NaN or finite with |f| <= next_up(max_freq_offset). *)
  Theorem freq_cmd_bounded_partial s es rs :
    KInv cfg s -> Forall (Forall (cmdP cfg)) (kalman_trace s es rs).
  Proof.
    revert s rs. induction es as [|e es IH]; intros s rs Hs; simpl; [constructor|].
    pose proof (kalman_event_spec s e Hs (mk_clk rs []) ltac:(constructor)) as [H1 H2].
    destruct (kalman_event s e (mk_clk rs [])) as [c' r]. simpl in H1, H2.
    constructor.
    - apply Forall_rev. exact H1.
    - destruct r as [s'|]; [apply IH; exact H2 | constructor].
  Qed.
End KalmanTrace.

(** When is the command NaN?  Only when the frequency estimate is NaN (the
    steering target is finite and the current frequency is finite). *)
Lemma c_1e6_fin : is_fin c_1e6 = true. Proof. reflexivity. Qed.
Lemma FR_c_1e6 : FR c_1e6 <> 0%R.
Proof.
  unfold FR, P2B.
  replace c_1e6 with (FP.B2Prim (@B754_finite FloatOps.prec FloatOps.emax false 8589934592000000 (-33) eq_refl)).
  2:{ apply FloatAxioms.Prim2SF_inj. rewrite FP.Prim2SF_B2Prim. reflexivity. }
  rewrite FP.Prim2B_B2Prim. unfold B2R. apply Rgt_not_eq. apply F2R_gt_0. reflexivity.
Qed.

Theorem freq_cmd_nan_only_if cfg s cur t :
  bound_ok (c_max_freq_offset cfg) ->
  is_fin cur = true -> (fabs cur <=. PrimFloat.next_up (c_max_freq_offset cfg)) = true ->
  is_fin t = true ->
  FloatBits.is_nan (freq_command cfg s cur t) = true ->
  FloatBits.is_nan (base_freq_offset (k_run s)) = true.
Proof.
  intros Hb Hc Hle Ht Hn. unfold freq_command in Hn.
  apply freq_command_nan in Hn; auto.
  rewrite sub_nan_fin_l in Hn by exact Ht.
  rewrite mul_nan_iff in Hn; [exact Hn | apply c_1e6_fin | apply FR_c_1e6].
Qed.

(** ---- F12: the exact bound is refuted ---- *)
Definition f12_cur : float := Eval vm_compute in fb 13868707814713838335.   (* -376.76736994010565 *)
Definition f12_bound : float := Eval vm_compute in fb 4645744490609377280.  (* 400.0 *)
Lemma clamp_overshoot_witness :
  let f := f12_cur +. clamp_adjustment f12_cur (fb 4652007308841189376) f12_bound in  (* error = +1000 ppm *)
  is_fin f = true /\ (fabs f <=. f12_bound) = false /\ bits_of_f f = bits_of_f (PrimFloat.next_up f12_bound).
Proof. vm_compute. repeat split. Qed.

(* the stream found by the harness on the real filter (harness case index 1) *)
Definition f12_case : case :=
  ((FKalman (kcfg_bits (zs 4294967000000000) 0 (zd 1 3978248573572612096) (zd 1 29554872554618880) (zd 1 34058472181989376) (zs 4547007122018943789) (zs 4607182418800017408) (zs 4493980547052782275) (zs 4599676419421066581) (zs 4604180019048437077) 127 (zs 858993459200000000) 4 8 (zd 1 0))), false, [M (zd 1583248377 3317777848642568192) (Some (zneg (zd 6 4440849437641468551))) None None (Some (zneg (zd 6 4439211298460068487))) None; M (zd 1583248384 3413742815193639424) None (Some (zs 1630658236121896)) None None (Some (zneg (zs 3358380429074434))); M (zd 1583248385 2828588636766251520) (Some (zneg (zs 1804703260129583))) None None (Some (zneg (zs 166564078729519))) None; M (zd 1583248385 3097025514400426496) None (Some (zs 1582696903900490)) None None (Some (zneg (zs 3463845198520860))); M (zd 1583248386 2511871335973038592) (Some (zneg (zs 1199614204307916))) None None (Some (zs 438524977092148)) None; M (zd 1583248386 2780308655988845056) None (Some (zs 1646928924438780)) None None (Some (zneg (zs 2896881132158753))); M (zd 1583248387 2195154477561457152) (Some (zneg (zs 87096931536632))) None None (Some (zs 1551042249863432)) None; M (zd 1583248387 2463594039550192128) None (Some (zs 1666055150861106)) None None (Some (zneg (zs 1714199243200828))); M (zd 1583248388 1878439861122804224) (Some (zs 709475476234182)) None None (Some (zs 2347614657634246)) None; M (zd 1583248388 2146878065901873664) None (Some (zs 1566328222529208)) None None (Some (zneg (zs 1051431951974653))); M (zd 1583248389 1561723887474485760) (Some (zs 2215119676331534)) None None (Some (zs 3853258857731598)) None], [Some (zd 1583248377 3317780259412006404); Some (zd 1583248384 3145305539420291076); Some (zd 1583248384 3413745225963077636); Some (zd 1583248385 2828591047535689732); Some (zd 1583248385 3097027925169864708); Some (zd 1583248386 2511873746742476804); Some (zd 1583248386 2780311066758283268); Some (zd 1583248387 2195156888330895364); Some (zd 1583248387 2463596450319630340); Some (zd 1583248388 1878442271892242436); Some (zd 1583248388 2146880476671311876); Some (zd 1583248389 1561726298243923972)], [Ob [OF 0; OS (zd 6 4439211298435672576)] (Some (false, (Some 0))) (Some (0, 0)); Ob [OF (zs 4600694714129455752)] (Some (true, (Some (zs 1000000000)))) (Some ((zneg (zs 69000000000)), (zs 1000000000))); Ob [OF (zd 1 7150752226414532)] (Some (true, (Some (zs 1000000000)))) (Some ((zneg (zs 12847000000000)), (zs 1000000000))); Ob [OF (zd 1 27314732659454312)] (Some (true, (Some (zs 2000000000)))) (Some ((zneg (zs 304053000000000)), (zs 2000000000))); Ob [OF (zd 1 21148286325131532)] (Some (true, (Some (zs 2000000000)))) (Some ((zs 59797000000000), (zs 2000000000))); Ob [OF (zd 1 32361836920434716)] (Some (true, (Some (zs 2000000000)))) (Some ((zneg (zs 794899000000000)), (zs 2000000000))); Ob [OF (zd 1 8598445123502464)] (Some (true, (Some (zs 3000000000)))) (Some ((zs 574757000000000), (zs 3000000000))); Ob [OF (zd 1 29983531520154154)] (Some (true, (Some (zs 3000000000)))) (Some ((zneg (zs 243125000000000)), (zs 3000000000))); Ob [OF (zd 3 26164412081961548)] (Some (true, (Some (zs 4000000000)))) (Some ((zs 1150708000000000), (zs 4000000000))); Ob [OF (zd 1 34058472181989377)] (Some (true, (Some (zs 5000000000)))) (Some ((zneg (zs 1051428000000000)), (zs 5000000000))); Ob [OF (zd 1 29554872554618882)] (Some (true, (Some 0))) (Some ((zs 3853259000000000), 0))]).
Lemma freq_cmd_bounded_refuted :
  valid_cfg (match case_kind f12_case with FKalman c => c | _ => kcfg_bits 0 0 0 0 0 0 0 0 0 0 0 0 0 0 0 end) = true /\
  obs_list_eqb (run_case f12_case) (case_obs f12_case) = true /\
  ok_C13 (case_kind f12_case) (case_events f12_case) (run_case f12_case) = false /\
  kf_C13 f12_case = 1.
Proof. vm_compute. repeat split. Qed.

(** ---- F13: the basic filter commands NaN ---- *)
Definition f13_case : case :=
  ((FBasic (fb (zs 4602678819172646912))), false, [M (zd 1583248376 3902932027069956096) (Some 0) None None (Some 0) None; M (zd 1583248376 3902932027069956096) (Some 0) None None (Some 0) None], [Some (zd 1583248376 3902932027069956096); Some (zd 1583248376 3902932027069956096); Some (zd 1583248376 3902932027069956096); Some (zd 1583248376 3902932027069956096); Some (zd 1583248376 3902932027069956096)], [Ob [OF 0; OS 0; OF 0] (Some (false, None)) (Some (0, 0)); Ob [OS 0; OF (zd 1 4609434218613702656)] (Some (false, None)) (Some (0, 0))]).
Lemma basic_finite_refuted :
  obs_list_eqb (run_case f13_case) (case_obs f13_case) = true /\
  ok_C13 (case_kind f13_case) (case_events f13_case) (run_case f13_case) = false /\
  kf_C13 f13_case = 2.
Proof. vm_compute. repeat split. Qed.

Corollary freq_cmd_bounded_from_new exp_fn dbg cfg s es rs :
  bound_ok (c_max_freq_offset cfg) -> kalman_new cfg = Ok s ->
  Forall (Forall (cmdP cfg)) (kalman_trace exp_fn dbg cfg s es rs).
Proof. intros Hb Hn. apply freq_cmd_bounded_partial; [exact Hb | eapply kalman_new_inv; eassumption]. Qed.

(* link between the trace used in the theorems and the observations compared with the
   implementation: the commands of [run_events] are exactly those of [kalman_trace] *)
Lemma run_events_trace exp_fn dbg cfg s es rs :
  map o_cmds (run_events exp_fn dbg (FKalman cfg) (SK s) es rs)
  = map (map ocmd_of) (kalman_trace exp_fn dbg cfg s es rs).
Proof.
  revert s rs. induction es as [|e es IH]; intros s rs; [reflexivity|].
  cbn [run_events kalman_trace]. unfold run_event, kalman_event.
  destruct e as [m| |]; unfold mbind, mret, mlift.
  - destruct (kalman_measurement exp_fn dbg cfg s m (mk_clk rs [])) as [c' [[s' u]|]]; cbn; [|reflexivity].
    now rewrite IH.
  - destruct (kalman_update dbg cfg s (mk_clk rs [])) as [c' [[s' u]|]]; cbn; [|reflexivity].
    now rewrite IH.
  - destruct (kalman_demobilize dbg cfg s (mk_clk rs [])) as [c' [[]|]]; cbn; [|reflexivity].
    destruct (kalman_new cfg) as [s'|]; cbn; [|reflexivity]. now rewrite IH.
Qed.

(** step_cmd, magnitude clause.  NOT proved in general (it needs an error analysis
    of Duration::seconds / Duration::from_seconds); the oracle [step_ok] checks it on
    every implementation trace, and the kernel evaluates it here on a boundary
    lattice: thresholds from 2^-32 ns to 2^58 ns, offset estimates at and next to
    the rounded threshold, on both sides.  A TEST, not a proof. *)
Definition step_mag_check (thr : Z) (e : float) : bool :=
  if fabs e <. dur_seconds thr then true
  else match d_from_seconds true (-. e) with Ok d => step_ok thr d | Panic _ => true end.
Definition step_mag_points (t : float) : list float :=
  [t; PrimFloat.next_up t; PrimFloat.next_down t; PrimFloat.next_up (PrimFloat.next_up t);
   t *. ftwo; t *. c_1e6; -. t; -. PrimFloat.next_up t; -. PrimFloat.next_down t; -. (t *. c_10)].
Definition step_mag_thresholds : list Z :=
  [1; 2; 3; 1000; FRAC - 1; FRAC; FRAC + 1; 999 * FRAC; 1000 * FRAC + 7; 4294967000000000;
   1000000 * FRAC; 1000000 * FRAC + 1; NS_PER_S * FRAC - 1; NS_PER_S * FRAC; 100 * NS_PER_S * FRAC + 12345;
   2 ^ 70 + 2 ^ 17 + 1; 2 ^ 90 - 1].
Definition step_mag_grid : bool :=
  forallb (fun thr => forallb (step_mag_check thr) (step_mag_points (dur_seconds thr))) step_mag_thresholds.
Lemma step_mag_grid_holds : step_mag_grid = true.
Proof. vm_compute. reflexivity. Qed.
