(** C02 (filter level): the steering law of the code, and the kernel-evaluated grid. *)
From Coq Require Import Floats.
From SV Require Import Filter.FloatBits Filter.FilterCases Filter.FilterLemmas Filter.ServoLoop.
Local Open Scope Z_scope.

(** steer_law: the slew target and the programmed frequency, as the code computes them.
    target = clamp(-sign(e) * max(|e| - sigma*deadzone, 0) * 1e6 / steer_time, +-max_steer),
    programmed frequency = clamp(cur + clamp_adjustment(cur, target - freq_estimate*1e6, bound), +-bound),
    programmed only if finite (bound = max_freq_offset). *)
Theorem steer_law cfg s :
  steer_target cfg s =
  (let e := base_offset (k_run s) in
   let sigma := base_offset_uncertainty cfg (k_run s) in
   match fclamp (-. (fsignum e *. fmax (fabs e -. sigma *. c_deadzone cfg) fzero) *. c_1e6
                 /. dur_seconds (c_steer_time cfg))
                (-. c_max_steer cfg) (c_max_steer cfg) with
   | Some t => Ok t
   | None => Panic site_clamp_assert
   end)
  /\ forall cur t,
     freq_command cfg s cur t =
     fclamp (cur +. clamp_adjustment cur (t -. base_freq_offset (k_run s) *. c_1e6) (c_max_freq_offset cfg))
            (-. c_max_freq_offset cfg) (c_max_freq_offset cfg).
Proof. split; reflexivity. Qed.

(** While the offset estimate is below the step threshold the clock is only slewed:
    no step command is issued by [steer] (the "never stepped" clause, relative to
    the estimate). *)
Theorem slew_only dbg cfg s c :
  (fabs (base_offset (k_run s)) <. dur_seconds (c_step_threshold cfg)) = true ->
  forall d, ~ In (StepClock d) (firstn (length (c_log (fst (kalman_steer dbg cfg s c))) - length (c_log c))
                                       (c_log (fst (kalman_steer dbg cfg s c)))).
Proof.
  intros H d. rewrite steer_decision, H.
  destruct (steer_target cfg s) as [t|]; [|rewrite Nat.sub_diag; cbn; auto].
  destruct (freq_cmds_at_most_one cfg s t (c_log c)) as [E | [f E]]; rewrite E.
  - rewrite Nat.sub_diag. cbn. auto.
  - cbn [length]. replace (S (length (c_log c)) - length (c_log c))%nat with 1%nat by lia.
    cbn. intros [E' | []]. discriminate E'.
Qed.

(** C02_grid: the faithful closed loop (plant model + Kalman model, debug build
    semantics, zero jitter, 150 s of simulated time) on a finite grid.  This is a
    TEST evaluated by the kernel, not a proof of the quantified claim. *)
Definition SEC : Z := NS_PER_S * FRAC.
Definition grid_theta : list Z := [-10 * SEC; SEC / 10000; 10 * SEC].
Definition grid_f0 : list float := [fb 13862853709232340992; fb 4639481672377565184].   (* -150, +150 ppm *)
Definition grid_delay : list Z := [1000 * FRAC; 400000 * FRAC].
Definition grid_interval : list Z := [SEC / 2; 2 * SEC].
Definition grid_all : bool :=
  forallb (fun th => forallb (fun f0 => forallb (fun dl => forallb (fun iv => grid_run th f0 dl iv)
    grid_interval) grid_delay) grid_f0) grid_theta.

Lemma grid_holds : grid_all = true.
Proof. vm_compute. reflexivity. Qed.
