(** Binary64 helpers for the filter models.

    * transfer encoding between the Rust harness and Coq: the IEEE-754 bit
      pattern of an f64 as an integer in [0, 2^64) ([f_of_bits], [bits_of_f]);
      every NaN is sent as the canonical quiet NaN 0x7ff8000000000000 (Coq's
      primitive floats have a single NaN);
    * the conversions of the `fixed`/`az` crates as statime uses them:
        fixed -> f64   (`az::<f64>()`, `lossy_into`) : round to nearest even
        f64 -> fixed   (`az::<I96F32>()`, `to_fixed`) : round to nearest even of
                        x * 2^32; NaN/inf panic in every build; overflow panics
                        with debug assertions and wraps modulo 2^128 without;
    * an implementation of [exp] used only to EVALUATE the model (the model and
      every theorem are parametric in the exponential function).

    No proofs here. *)
From Coq Require Export Floats.
From SV Require Export Base.Prelude Time.TimeModel.

Definition site_float_to_fixed : nat := 201.   (* NaN / inf / overflow in az / to_fixed *)
Definition site_fixed_mul : nat := 202.        (* overflow of a fixed-point multiplication *)

Notation "a +. b" := (PrimFloat.add a b) (at level 50, left associativity).
Notation "a -. b" := (PrimFloat.sub a b) (at level 50, left associativity).
Notation "a *. b" := (PrimFloat.mul a b) (at level 40, left associativity).
Notation "a /. b" := (PrimFloat.div a b) (at level 40, left associativity).
Notation "a <. b" := (PrimFloat.ltb a b) (at level 70, no associativity).
Notation "a <=. b" := (PrimFloat.leb a b) (at level 70, no associativity).
Notation "a >. b" := (PrimFloat.ltb b a) (at level 70, no associativity, only parsing).
Notation "-. a" := (PrimFloat.opp a) (at level 35, right associativity).

Definition fabs := PrimFloat.abs.
Definition fsqrt := PrimFloat.sqrt.
Definition fzero : float := PrimFloat.zero.
Definition fnegzero : float := PrimFloat.neg_zero.
Definition fone : float := PrimFloat.one.
Definition ftwo : float := PrimFloat.two.
Definition fnan : float := PrimFloat.nan.
Definition finf : float := PrimFloat.infinity.
Definition is_fin (x : float) : bool := PrimFloat.is_finite x.
Definition is_nan (x : float) : bool := PrimFloat.is_nan x.

(** ---- bit patterns ---- *)
Definition f_of_bits (b : Z) : float :=
  let s := 2 ^ 63 <=? b in
  let b' := b mod 2 ^ 63 in
  let e := b' / 2 ^ 52 in
  let m := b' mod 2 ^ 52 in
  if Z.eqb e 2047 then
    (if Z.eqb m 0 then (if s then PrimFloat.neg_infinity else PrimFloat.infinity) else PrimFloat.nan)
  else if Z.eqb e 0 then
    match m with
    | Zpos p => SF2Prim (S754_finite s p (-1074)%Z)
    | _ => SF2Prim (S754_zero s)
    end
  else
    match (m + 2 ^ 52)%Z with
    | Zpos p => SF2Prim (S754_finite s p (e - 1075)%Z)
    | _ => PrimFloat.nan
    end.

Definition bits_of_f (f : float) : Z :=
  match Prim2SF f with
  | S754_nan => 9221120237041090560            (* 0x7ff8000000000000 *)
  | S754_zero s => if s then 2 ^ 63 else 0
  | S754_infinity s => (if s then 2 ^ 63 else 0) + 2047 * 2 ^ 52
  | S754_finite s m e =>
      (* Prim2SF yields the canonical mantissa: 53 bits for normal numbers,
         exponent -1074 for subnormal ones *)
      (if s then 2 ^ 63 else 0) +
      (if Zpos m <? 2 ^ 52 then Zpos m else (e + 1075) * 2 ^ 52 + (Zpos m - 2 ^ 52))
  end.

Definition fbits_eqb (a b : float) : bool := bits_of_f a =? bits_of_f b.

(** ---- integer -> float, nearest even of m * 2^e ---- *)
Definition f_of_Z_scaled (m e : Z) : float :=
  SF2Prim (binary_normalize prec emax m e false).

(** fixed (32 fractional bits) -> f64 *)
Definition fix2f (bits : Z) : float := f_of_Z_scaled bits (-32).

(** ---- float -> integer: nearest even of x * 2^32; None for NaN / inf ---- *)
Definition f_scaled_to_Z (x : float) : option Z :=
  match Prim2SF x with
  | S754_zero _ => Some 0
  | S754_finite s m e =>
      let k := e + 32 in
      let v := if 0 <=? k then Zpos m * 2 ^ k else round_half_even_div_pow2 (Zpos m) (- k) in
      Some (if s then - v else v)
  | _ => None
  end.

(** checked (debug) / wrapping (release) signed 128-bit result *)
Definition w_i128 (dbg : bool) (site : nat) (v : Z) : outcome Z :=
  if in_i 128 v then Ok v else if dbg then Panic site else Ok (wrap_i 128 v).
Definition w_u128 (dbg : bool) (site : nat) (v : Z) : outcome Z :=
  if in_u 128 v then Ok v else if dbg then Panic site else Ok (wrap_u 128 v).

(** `x.az::<I96F32>()` / `x.to_fixed::<I96F32>()` for x : f64 *)
Definition f2fix (dbg : bool) (x : float) : outcome Z :=
  match f_scaled_to_Z x with
  | Some v => w_i128 dbg site_float_to_fixed v
  | None => Panic site_float_to_fixed
  end.

(** fixed * fixed : floor (a*b / 2^32) *)
Definition fix_mul (dbg : bool) (a b : Z) : outcome Z := w_i128 dbg site_fixed_mul ((a * b) / FRAC).

(** constants (bit patterns printed by the harness) *)
Definition c_1e9 : float := Eval vm_compute in f_of_bits 4741671816366391296.   (* 0x41cdcd6500000000 *)
Definition c_1e6 : float := Eval vm_compute in f_of_bits 4696837146684686336.   (* 0x412e848000000000 *)
Definition c_1em6 : float := Eval vm_compute in f_of_bits 4517329193108106637.  (* 0x3eb0c6f7a0b5ed8d *)

(** Duration::seconds : inner.az::<f64>() / 1e9 *)
Definition dur_seconds (d : Z) : float := fix2f d /. c_1e9.
(** Duration::from_seconds : secs.az::<I96F32>() * 1_000_000_000.to_fixed() *)
Definition dur_from_seconds (dbg : bool) (s : float) : outcome Z :=
  let! a := f2fix dbg s in fix_mul dbg a (NS_PER_S * FRAC).

(** ---- f64 library functions used by the filters ---- *)
(* f64::signum : NaN -> NaN, otherwise copysign(1, x) *)
Definition fsignum (x : float) : float :=
  if is_nan x then fnan else if PrimFloat.get_sign x then -. fone else fone.
(* f64::max (IEEE maxNum; the sign of max(-0,+0) is irrelevant at its only use) *)
Definition fmax (x y : float) : float :=
  if is_nan x then y else if is_nan y then x else if x <. y then y else x.
(* f64::clamp; [None] = the `assert!(min <= max)` fails *)
Definition fclamp (x lo hi : float) : option float :=
  if lo <=. hi then
    Some (let x1 := if x <. lo then lo else x in if hi <. x1 then hi else x1)
  else None.
Definition fsqr (x : float) : float := x *. x.
(* Iterator::sum::<f64>() : fold from -0.0 *)
Definition fsum (l : list float) : float := fold_left PrimFloat.add l fnegzero.

(** ---- exponential used for evaluation only ---- *)
Definition c_inv_ln2 : float := Eval vm_compute in f_of_bits 4609176140021203710.  (* 0x3ff71547652b82fe *)
Definition c_ln2_hi : float := Eval vm_compute in f_of_bits 4604418534311723008.   (* 0x3fe62e42fee00000 *)
Definition c_ln2_lo : float := Eval vm_compute in f_of_bits 4461442080421002358.   (* 0x3dea39ef35793c76 *)

Fixpoint exp_taylor (n : nat) (k : float) (r acc : float) : float :=
  (* Horner: 1 + r/1 (1 + r/2 (1 + ... )) evaluated from the innermost term *)
  match n with
  | O => acc
  | S n' => exp_taylor n' (k -. fone) r (fone +. (r /. k) *. acc)
  end.

Definition f_round_to_Z (x : float) : Z :=   (* nearest integer, 0 for NaN/inf *)
  match f_scaled_to_Z x with
  | Some v => round_half_even_div_pow2 v 32
  | None => 0
  end.

Definition exp_eval (x : float) : float :=
  if is_nan x then fnan
  else if x <. (-. f_of_Z_scaled 800 0) then fzero
  else if f_of_Z_scaled 800 0 <. x then finf
  else
    let k := f_round_to_Z (x *. c_inv_ln2) in
    let kf := f_of_Z_scaled k 0 in
    let r := (x -. kf *. c_ln2_hi) -. kf *. c_ln2_lo in
    let e := exp_taylor 22 (f_of_Z_scaled 22 0) r fone in
    Z.ldexp e k.
