(** Case format, model runner and executable oracle for C13 (and the command
    comparison used by C02).  No proofs here. *)
From Coq Require Export Uint63.
From SV Require Export Base.Cases Filter.BasicModel.

(** ---- input ---- *)
Definition fb := f_of_bits.

(* Numbers in case files: decimal Z literals of many digits are very slow to
   parse, primitive integer literals are not; the harness writes big numbers in
   chunks of 62 bits. *)
Definition zs (a : int) : Z := Uint63.to_Z a.
Definition zd (a b : int) : Z := Uint63.to_Z a * 2 ^ 62 + Uint63.to_Z b.
Definition zt (a b c : int) : Z := (Uint63.to_Z a * 2 ^ 62 + Uint63.to_Z b) * 2 ^ 62 + Uint63.to_Z c.
Definition zneg (a : Z) : Z := - a.

(* Kalman configuration from integers (floats as bit patterns), in the field
   order of KalmanConfiguration *)
Definition kcfg_bits (thr dz st ms mfo ifu iw dw pl ph hy et db sb pf : Z) : kcfg :=
  mk_kcfg thr (fb dz) st (fb ms) (fb mfo) (fb ifu) (fb iw) (fb dw) (fb pl) (fb ph) hy et db sb (fb pf) impl_f24_fixed.

Inductive fkind := FKalman (cfg : kcfg) | FBasic (gain : float).
Inductive event := EMeas (m : meas) | EUpdate | EDemob.

(* Measurement in the field order of the Rust struct *)
Definition M (t : Z) (offset delay peer sync dly : option Z) : event :=
  EMeas (mk_meas t offset delay peer sync dly).

(** ---- observation ---- *)
Inductive ocmd := OF (bits : Z) | OS (d : Z).
Record obs := mk_obs {
  o_cmds : list ocmd;                     (* commands issued during the event, in order *)
  o_res : option (bool * option Z);       (* None = the call panicked; (next_update.is_some(), mean_delay) *)
  o_est : option (Z * Z)                  (* current_estimates() after the event; None = it panicked *)
}.
Definition Ob := mk_obs.

Definition ocmd_of (c : cmd) : ocmd :=
  match c with SetFreq f => OF (bits_of_f f) | StepClock d => OS d end.
Definition ocmd_eqb (a b : ocmd) : bool :=
  match a, b with
  | OF x, OF y => x =? y
  | OS x, OS y => x =? y
  | _, _ => false
  end.
Fixpoint list_eqb {A} (eqb : A -> A -> bool) (a b : list A) : bool :=
  match a, b with
  | [], [] => true
  | x :: a', y :: b' => eqb x y && list_eqb eqb a' b'
  | _, _ => false
  end.
Definition optZ_eqb := opt_eqb Z.eqb.
Definition res_eqb (a b : bool * option Z) : bool :=
  Bool.eqb (fst a) (fst b) && optZ_eqb (snd a) (snd b).
Definition est_eqb (a b : Z * Z) : bool := (fst a =? fst b) && (snd a =? snd b).
Definition obs_eqb (a b : obs) : bool :=
  match o_res a, o_res b with
  | None, None => list_eqb ocmd_eqb (o_cmds a) (o_cmds b)
  | Some x, Some y =>
      res_eqb x y && list_eqb ocmd_eqb (o_cmds a) (o_cmds b) && opt_eqb est_eqb (o_est a) (o_est b)
  | _, _ => false
  end.

(** ---- model runner ---- *)
Inductive fstate := SK (s : kstate) | SB (s : bstate).

Section Run.
  Variable exp_fn : float -> float.
  Variable dbg : bool.

  Definition filter_new (k : fkind) : outcome fstate :=
    match k with
    | FKalman cfg => let! s := kalman_new cfg in Ok (SK s)
    | FBasic g => Ok (SB (basic_new g))
    end.

  Definition filter_estimates (k : fkind) (s : fstate) : option (Z * Z) :=
    match k, s with
    | FKalman cfg, SK ks => to_opt (kalman_estimates dbg ks)
    | _, SB bs => Some (basic_estimates bs)
    | _, _ => None
    end.

  (* one event: new state, remaining replies, observation *)
  Definition run_event (k : fkind) (s : fstate) (e : event) (replies : list reply)
    : option fstate * list reply * obs :=
    let c := mk_clk replies [] in
    let finish (r : clk * outcome (fstate * fupdate)) :=
      let '(c', o) := r in
      let cmds := map ocmd_of (rev (c_log c')) in
      match o with
      | Ok (s', u) => (Some s', c_replies c', mk_obs cmds (Some u) (filter_estimates k s'))
      | Panic _ => (None, [], mk_obs cmds None None)
      end in
    match k, s, e with
    | FKalman cfg, SK ks, EMeas m =>
        finish ((let* (s', u) := kalman_measurement exp_fn dbg cfg ks m in mret (SK s', u)) c)
    | FKalman cfg, SK ks, EUpdate =>
        finish ((let* (s', u) := kalman_update dbg cfg ks in mret (SK s', u)) c)
    | FKalman cfg, SK ks, EDemob =>
        finish ((let* _ := kalman_demobilize dbg cfg ks in
                 let* s' := mlift (kalman_new cfg) in mret (SK s', fupdate_default)) c)
    | FBasic g, SB bs, EMeas m =>
        finish ((let* (s', u) := basic_measurement dbg bs m in mret (SB s', u)) c)
    | FBasic g, SB bs, EUpdate => finish (c, Ok (SB bs, fupdate_default))
    | FBasic g, SB bs, EDemob => finish (c, Ok (SB (basic_new g), fupdate_default))
    | _, _, _ => (None, [], mk_obs [] None None)
    end.

  Fixpoint run_events (k : fkind) (s : fstate) (es : list event) (replies : list reply) : list obs :=
    match es with
    | [] => []
    | e :: es' =>
        let '(s', r', o) := run_event k s e replies in
        match s' with
        | Some s'' => o :: run_events k s'' es' r'
        | None => [o]
        end
    end.

  (* [Filter::new] panicking is reported as a single panicking observation *)
  Definition run_filter (k : fkind) (es : list event) (replies : list reply) : list obs :=
    match filter_new k with
    | Ok s => run_events k s es replies
    | Panic _ => [mk_obs [] None None]
    end.

  (* did a wander p-value come within 1e-9 (relative) of a decision threshold? *)
  Fixpoint near_events (k : fkind) (s : fstate) (es : list event) (replies : list reply) : bool :=
    match es with
    | [] => match s with SK ks => k_near ks | SB _ => false end
    | e :: es' =>
        let near_now := match s with SK ks => k_near ks | SB _ => false end in
        let '(s', r', _) := run_event k s e replies in
        match s' with
        | Some s'' => near_now || near_events k s'' es' r'
        | None => near_now
        end
    end.
End Run.

(** ---- the property, as an executable oracle over OBSERVED commands ---- *)
Definition valid_cfg (c : kcfg) : bool :=
  (0 <? c_step_threshold c) && (0 <? c_steer_time c)
  && is_fin (c_max_steer c) && (fzero <. c_max_steer c)
  && is_fin (c_max_freq_offset c) && (fzero <. c_max_freq_offset c)
  && is_fin (c_deadzone c) && (fzero <=. c_deadzone c).

Definition freq_ok (bound : float) (bits : Z) : bool :=
  let f := fb bits in is_fin f && (fabs f <=. bound).

(* allowance for the 2^-32 s quantisation of Duration::from_seconds and the two
   roundings of Duration::seconds(): 0.5 * 10^9 units (of 2^-32 ns) + threshold * 2^-52 + 1 *)
Definition step_allow (thr : Z) : Z := NS_PER_S / 2 + thr / 2 ^ 52 + 1.
Definition step_ok (thr : Z) (d : Z) : bool := thr - step_allow thr <=? Z.abs d.

Definition kalman_cmd_ok (bound : float) (thr : Z) (c : ocmd) : bool :=
  match c with OF b => freq_ok bound b | OS d => step_ok thr d end.
Definition basic_cmd_ok (c : ocmd) : bool :=
  match c with OF b => is_fin (fb b) | OS _ => true end.

(* [quiet] = the filter was created or demobilized and has not been given a
   measurement since: it must not command the clock on update/demobilize *)
Fixpoint kalman_events_ok (bound : float) (thr : Z) (quiet : bool) (es : list event) (os : list obs) : bool :=
  match es, os with
  | e :: es', o :: os' =>
      forallb (kalman_cmd_ok bound thr) (o_cmds o) &&
      match e with
      | EMeas _ => kalman_events_ok bound thr false es' os'
      | EUpdate =>
          (if quiet then match o_cmds o with [] => true | _ => false end else true)
          && kalman_events_ok bound thr quiet es' os'
      | EDemob =>
          match o_cmds o with
          | [] => true
          | [OF _] => negb quiet
          | _ => false
          end && kalman_events_ok bound thr true es' os'
      end
  | _, _ => true
  end.

Definition basic_events_ok (os : list obs) : bool :=
  forallb (fun o => forallb basic_cmd_ok (o_cmds o)) os.

Definition ok_C13 (k : fkind) (es : list event) (os : list obs) : bool :=
  match k with
  | FKalman cfg =>
      if valid_cfg cfg then kalman_events_ok (c_max_freq_offset cfg) (c_step_threshold cfg) true es os
      else true
  | FBasic g => basic_events_ok os
  end.

(** ---- cases ---- *)
(* (filter, built without debug checks?, events, clock replies, observed) *)
Definition case := (fkind * bool * list event * list reply * list obs)%type.
Definition case_kind (c : case) : fkind := let '(k, _, _, _, _) := c in k.
Definition case_events (c : case) : list event := let '(_, _, es, _, _) := c in es.
Definition case_obs (c : case) : list obs := let '(_, _, _, _, os) := c in os.

Definition run_case (c : case) : list obs :=
  let '(k, rel, es, rs, _) := c in run_filter exp_eval (negb rel) k es rs.
Definition near_case (c : case) : bool :=
  let '(k, rel, es, rs, _) := c in
  match filter_new k with
  | Ok s => near_events exp_eval (negb rel) k s es rs
  | Panic _ => false
  end.

(** Known findings: none.  F12 (one-ulp overshoot of the Kalman frequency command)
    and F13 (BasicFilter NaN command) are fixed in /repo (4d80470, 3d2d7f9); a
    regression of either is reported as a plain violation. *)
Definition kf_C13 (c : case) : Z := 0.

Fixpoint obs_list_eqb (a b : list obs) : bool :=
  match a, b with
  | [], [] => true
  | x :: a', y :: b' => obs_eqb x y && obs_list_eqb a' b'
  | _, _ => false
  end.

(* 0 = model and implementation agree, 1 = they disagree,
   2 = not compared (a p-value within 1e-9 of a threshold: libm exp is not modelled bit-for-bit) *)
Definition agree_code (c : case) : Z :=
  if obs_list_eqb (run_case c) (case_obs c) then 0
  else if near_case c then 2 else 1.
Definition agree_C13 (c : case) : bool := negb (agree_code c =? 1).
Definition okc_C13 (c : case) : bool := ok_C13 (case_kind c) (case_events c) (case_obs c).

Definition run_cases := run_cases_gen agree_C13 okc_C13 kf_C13.

(* same, plus the number of cases skipped because of the exp threshold rule *)
Definition run_cases_ext (cs : list case) : Z * list Z * list (Z * Z) * Z :=
  let codes := map agree_code cs in
  let '(n, _, bad) := run_cases_gen (fun _ => true) okc_C13 kf_C13 cs in
  let mm := map fst (filter (fun p => snd p =? 1) (combine (map Z.of_nat (seq 0 (length cs))) codes)) in
  (n, mm, bad, Z.of_nat (length (filter (fun x => x =? 2) codes))).
