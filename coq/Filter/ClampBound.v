(** The rounding bound behind finding F12.

    In binary64 with round-to-nearest-even, for a finite positive bound [b] and a
    finite current value [cur] with |cur| <= succ b,
        | cur (+) (b (-) cur) |  <=  succ b          (one ulp above b, not b)
    and symmetrically for -b.  Proved over the reals with Flocq, then transported
    to primitive floats. *)
From Coq Require Import Reals Lra Lia ZArith Floats.
From Flocq Require Import Core BinarySingleNaN.
From Flocq Require IEEE754.PrimFloat.
From SV Require Import Filter.FloatBits Filter.FloatOrder.

Local Open Scope R_scope.

Section RealLevel.
  Let prec := FloatOps.prec.
  Let emax := FloatOps.emax.
  Let emin := (3 - emax - prec)%Z.
  Let fexp := FLT_exp emin prec.
  Let rnd := round radix2 fexp ZnearestE.
  Let F := generic_format radix2 fexp.
  Let ulp := Ulp.ulp radix2 fexp.
  Let succ := Ulp.succ radix2 fexp.

  Local Instance prec_gt_0_ : Prec_gt_0 prec := eq_refl.
  Local Instance valid_fexp : Valid_exp fexp := FLT_exp_valid emin prec.
  Local Instance mono_fexp : Monotone_exp fexp := FLT_exp_monotone emin prec.

  Lemma fexp_succ_le e : (fexp (e + 1) <= fexp e + 1)%Z.
  Proof. unfold fexp, FLT_exp. lia. Qed.

  (* rounding error of x is at most ulp B when |x| < 2 * bpow (mag B) *)
  Lemma err_le_ulp B x :
    0 < B -> Rabs x < bpow radix2 (mag radix2 B + 1) ->
    Rabs (rnd x - x) <= ulp B.
  Proof.
    intros HB Hx.
    destruct (Req_dec x 0) as [-> | Hx0].
    { unfold rnd. rewrite round_0 by typeclasses eauto.
      replace (0 - 0) with 0 by ring. rewrite Rabs_R0. apply ulp_ge_0. }
    eapply Rle_trans. { apply error_le_half_ulp; typeclasses eauto. }
    fold ulp. unfold ulp. rewrite (ulp_neq_0 _ _ x Hx0), (ulp_neq_0 _ _ B) by lra.
    unfold cexp.
    assert (Hm : (mag radix2 x <= mag radix2 B + 1)%Z) by (apply mag_le_bpow; assumption).
    assert (Hf : (fexp (mag radix2 x) <= fexp (mag radix2 B) + 1)%Z).
    { eapply Z.le_trans; [apply mono_fexp, Hm | apply fexp_succ_le]. }
    apply Rle_trans with (/ 2 * bpow radix2 (fexp (mag radix2 B) + 1)).
    { apply Rmult_le_compat_l; [lra | now apply bpow_le]. }
    rewrite bpow_plus. simpl (bpow radix2 1). lra.
  Qed.

  Lemma key_upper B C :
    0 < B -> F B -> F C -> Rabs C <= succ B ->
    0 <= rnd (C + rnd (B - C)) <= succ B.
  Proof.
    intros HB FB FC HC.
    assert (Hs : succ B = B + ulp B) by (apply succ_eq_pos; lra).
    assert (Hmag : B < bpow radix2 (mag radix2 B)).
    { destruct (mag radix2 B) as [e He]. simpl. specialize (He ltac:(lra)).
      rewrite Rabs_pos_eq in He by lra. apply He. }
    assert (Hsb : B + ulp B <= bpow radix2 (mag radix2 B)).
    { apply id_p_ulp_le_bpow; assumption. }
    assert (Hx : Rabs (B - C) < bpow radix2 (mag radix2 B + 1)).
    { rewrite bpow_plus. simpl (bpow radix2 1).
      apply Rle_lt_trans with (Rabs B + Rabs C).
      { replace (B - C) with (B + - C) by ring. eapply Rle_trans; [apply Rabs_triang|].
        rewrite Rabs_Ropp. lra. }
      rewrite (Rabs_pos_eq B) by lra. lra. }
    pose proof (err_le_ulp B (B - C) HB Hx) as He.
    apply Rabs_le_inv in He.
    assert (Hu : ulp B <= B) by (apply ulp_le_id; assumption).
    split.
    - apply round_ge_generic; try typeclasses eauto; [apply generic_format_0 | lra].
    - apply round_le_generic; try typeclasses eauto; [apply generic_format_succ; try typeclasses eauto; assumption | ].
      rewrite Hs. lra.
  Qed.

  Lemma key_bound B C :
    0 < B -> F B -> F C -> Rabs C <= succ B ->
    Rabs (rnd (C + rnd (B - C))) <= succ B /\ Rabs (rnd (C + rnd (- B - C))) <= succ B.
  Proof.
    intros HB FB FC HC. split.
    - destruct (key_upper B C HB FB FC HC). rewrite Rabs_pos_eq; lra.
    - assert (FC' : F (- C)) by now apply generic_format_opp.
      assert (HC' : Rabs (- C) <= succ B) by now rewrite Rabs_Ropp.
      destruct (key_upper B (- C) HB FB FC' HC') as [H1 H2].
      replace (- B - C) with (- (B - - C)) by ring.
      unfold rnd at 2. rewrite round_NE_opp. fold rnd.
      replace (C + - rnd (B - - C)) with (- (- C + rnd (B - - C))) by ring.
      unfold rnd at 1. rewrite round_NE_opp. fold rnd.
      rewrite Rabs_Ropp, Rabs_pos_eq; lra.
  Qed.
End RealLevel.

(** ---- transport to primitive floats ---- *)
Notation rndNE := (round radix2 (FLT_exp (3 - FloatOps.emax - FloatOps.prec) FloatOps.prec) ZnearestE).
Notation Fmt := (generic_format radix2 (FLT_exp (3 - FloatOps.emax - FloatOps.prec) FloatOps.prec)).
Notation Rsucc := (Ulp.succ radix2 (FLT_exp (3 - FloatOps.emax - FloatOps.prec) FloatOps.prec)).

Local Existing Instance FP.Hprec.
Local Instance vexp64 : Valid_exp (FLT_exp (3 - FloatOps.emax - FloatOps.prec) FloatOps.prec) := FLT_exp_valid _ _.

Lemma format_FR x : Fmt (FR x).
Proof. apply generic_format_B2R. Qed.

Lemma add_fin x y :
  is_fin x = true -> is_fin y = true ->
  Rabs (rndNE (FR x + FR y)) < bpow radix2 FloatOps.emax ->
  is_fin (x +. y) = true /\ FR (x +. y) = rndNE (FR x + FR y).
Proof.
  intros Hx Hy Hb. rewrite is_fin_equiv in * . unfold FR, P2B in * . rewrite FP.add_equiv.
  pose proof (Bplus_correct FloatOps.prec FloatOps.emax FP.Hprec FP.Hmax mode_NE _ _ Hx Hy) as H.
  simpl round_mode in H. rewrite Rlt_bool_true in H by exact Hb.
  destruct H as (H1 & H2 & _). split; assumption.
Qed.

Lemma sub_fin x y :
  is_fin x = true -> is_fin y = true ->
  Rabs (rndNE (FR x - FR y)) < bpow radix2 FloatOps.emax ->
  is_fin (x -. y) = true /\ FR (x -. y) = rndNE (FR x - FR y).
Proof.
  intros Hx Hy Hb. rewrite is_fin_equiv in * . unfold FR, P2B in * . rewrite FP.sub_equiv.
  pose proof (Bminus_correct FloatOps.prec FloatOps.emax FP.Hprec FP.Hmax mode_NE _ _ Hx Hy) as H.
  simpl round_mode in H. rewrite Rlt_bool_true in H by exact Hb.
  destruct H as (H1 & H2 & _). split; assumption.
Qed.

Lemma add_nan_fin_l x y : is_fin x = true -> FloatBits.is_nan (x +. y) = FloatBits.is_nan y.
Proof.
  intros Hx. rewrite is_fin_equiv in Hx. rewrite !is_nan_equiv. unfold P2B in * . rewrite FP.add_equiv.
  destruct (FP.Prim2B x) as [sx|sx| |sx mx ex Hbx]; try discriminate;
  destruct (FP.Prim2B y) as [sy|sy| |sy my ey Hby]; try reflexivity.
  - simpl. now destruct (Bool.eqb sx sy).
  - unfold Bplus. apply is_nan_binary_normalize.
Qed.

Lemma next_up_fin b :
  is_fin b = true -> Rsucc (FR b) < bpow radix2 FloatOps.emax ->
  is_fin (PrimFloat.next_up b) = true /\ FR (PrimFloat.next_up b) = Rsucc (FR b).
Proof.
  intros Hb Hs. rewrite is_fin_equiv in * . unfold FR, P2B in * . rewrite FP.next_up_equiv.
  pose proof (Bsucc_correct FloatOps.prec FloatOps.emax FP.Hprec FP.Hmax _ Hb) as H.
  rewrite Rlt_bool_true in H by exact Hs. destruct H as (H1 & H2 & _). split; assumption.
Qed.

(** a usable bound: finite, positive, below 2^1022 *)
Definition c_2p1022 : float := Eval vm_compute in Z.ldexp fone 1022.
Definition bound_ok (b : float) : Prop :=
  is_fin b = true /\ (fzero <. b) = true /\ (b <. c_2p1022) = true.

Lemma FR_zero : FR fzero = 0.
Proof. unfold FR, P2B, fzero. rewrite FP.zero_equiv, FP.Prim2B_B2Prim. reflexivity. Qed.
Lemma is_fin_zero : is_fin fzero = true.
Proof. reflexivity. Qed.
Lemma FR_2p1022 : FR c_2p1022 = bpow radix2 1022.
Proof.
  unfold FR, P2B.
  replace c_2p1022 with (FP.B2Prim (@B754_finite FloatOps.prec FloatOps.emax false 4503599627370496 970 eq_refl)).
  2:{ apply FloatAxioms.Prim2SF_inj. rewrite FP.Prim2SF_B2Prim. reflexivity. }
  rewrite FP.Prim2B_B2Prim. unfold B2R, F2R. cbn [Fnum Fexp cond_Zopp].
  replace 4503599627370496 with (bpow radix2 52) by (vm_compute; reflexivity).
  rewrite <- bpow_plus. reflexivity.
Qed.

Lemma bound_ok_R b : bound_ok b ->
  0 < FR b /\ FR b < bpow radix2 1022 /\
  is_fin (PrimFloat.next_up b) = true /\ FR (PrimFloat.next_up b) = Rsucc (FR b) /\
  Rsucc (FR b) <= bpow radix2 1022.
Proof.
  intros (Hf & Hp & Hl).
  assert (H0 : 0 < FR b).
  { rewrite <- FR_zero. apply ltb_true_R; auto. }
  assert (H1 : FR b < bpow radix2 1022).
  { rewrite <- FR_2p1022. apply ltb_true_R; auto. }
  assert (H2 : Rsucc (FR b) <= bpow radix2 1022).
  { rewrite succ_eq_pos by lra. apply id_p_ulp_le_bpow; auto. apply format_FR. }
  assert (H3 : Rsucc (FR b) < bpow radix2 FloatOps.emax).
  { eapply Rle_lt_trans; [exact H2 | apply bpow_lt; reflexivity]. }
  destruct (next_up_fin b Hf H3). repeat split; auto.
Qed.

Definition freq_cmd_ok (b f : float) : Prop :=
  FloatBits.is_nan f = true \/ (is_fin f = true /\ (fabs f <=. PrimFloat.next_up b) = true).

Theorem clamp_cmd_partial cur err b :
  bound_ok b -> is_fin cur = true -> (fabs cur <=. PrimFloat.next_up b) = true ->
  let f := cur +. (if b <. cur +. err then b -. cur
                   else if cur +. err <. -. b then -. b -. cur else err) in
  (FloatBits.is_nan f = true /\ FloatBits.is_nan err = true) \/
  (is_fin f = true /\ (fabs f <=. PrimFloat.next_up b) = true).
Proof.
  intros Hb Hc Hcb f.
  pose proof Hb as (Hbf & _ & _).
  destruct (bound_ok_R b Hb) as (HB0 & HB1 & Hnf & Hns & Hs1022).
  set (B := FR b) in * . set (C := FR cur).
  assert (HC : Rabs C <= Rsucc B).
  { rewrite <- Hns. unfold C. rewrite <- FR_abs. apply leb_true_R; auto. now rewrite is_fin_abs. }
  destruct (key_bound B C HB0 (format_FR b) (format_FR cur) HC) as [K1 K2].
  assert (Hemax : bpow radix2 1022 < bpow radix2 FloatOps.emax) by (apply bpow_lt; reflexivity).
  assert (H1023 : bpow radix2 1023 < bpow radix2 FloatOps.emax) by (apply bpow_lt; reflexivity).
  assert (Hsum : forall X, Rabs X <= B -> Rabs (rndNE (X - C)) <= bpow radix2 1023).
  { intros X HX. apply abs_round_le_generic; try typeclasses eauto.
    - apply (@generic_format_FLT_bpow radix2 (3 - FloatOps.emax - FloatOps.prec) FloatOps.prec FP.Hprec 1023).
      unfold FloatOps.emax, FloatOps.prec; lia.
    - replace (bpow radix2 1023) with (bpow radix2 1022 + bpow radix2 1022).
      2:{ change 1023%Z with (1022 + 1)%Z. rewrite bpow_plus. simpl (bpow radix2 1). lra. }
      replace (X - C) with (X + - C) by ring.
      eapply Rle_trans; [apply Rabs_triang|]. rewrite Rabs_Ropp. lra. }
  assert (Fin_le : forall g, is_fin g = true -> Rabs (FR g) <= Rsucc B ->
                             (fabs g <=. PrimFloat.next_up b) = true).
  { intros g Hg Hle. apply R_leb_true; [now rewrite is_fin_abs | auto | ].
    rewrite FR_abs, Hns. exact Hle. }
  subst f.
  destruct (b <. cur +. err) eqn:E1; [| destruct (cur +. err <. -. b) eqn:E2].
  - (* saturated upwards *)
    right.
    destruct (sub_fin b cur Hbf Hc) as [Sf Sr].
    { eapply Rle_lt_trans; [apply Hsum | exact H1023]. fold B. rewrite Rabs_pos_eq; lra. }
    fold B C in Sr.
    destruct (add_fin cur (b -. cur) Hc Sf) as [Af Ar].
    { fold C. rewrite Sr. eapply Rle_lt_trans; [exact K1 | lra]. }
    fold C in Ar. rewrite Sr in Ar. split; [exact Af | apply Fin_le; [exact Af | rewrite Ar; exact K1]].
  - (* saturated downwards *)
    right.
    assert (Nf : is_fin (-. b) = true) by now rewrite is_fin_opp.
    destruct (sub_fin (-. b) cur Nf Hc) as [Sf Sr].
    { rewrite FR_opp. fold B. eapply Rle_lt_trans; [apply Hsum | exact H1023].
      rewrite Rabs_Ropp, Rabs_pos_eq; lra. }
    rewrite FR_opp in Sr. fold B C in Sr.
    destruct (add_fin cur (-. b -. cur) Hc Sf) as [Af Ar].
    { fold C. rewrite Sr. eapply Rle_lt_trans; [exact K2 | lra]. }
    fold C in Ar. rewrite Sr in Ar. split; [exact Af | apply Fin_le; [exact Af | rewrite Ar; exact K2]].
  - (* not saturated: the command is cur + err itself, inside [-b, b] unless NaN *)
    destruct (classify_float (cur +. err)) as [Hn | Hf | Hi | Hi].
    + left. split; [exact Hn | now rewrite add_nan_fin_l in Hn].
    + right. split; [exact Hf|]. apply Fin_le; [exact Hf|].
      apply ltb_false_R in E1; auto. fold B in E1.
      apply ltb_false_R in E2; auto; [| now rewrite is_fin_opp]. rewrite FR_opp in E2. fold B in E2.
      assert (Hsb : B <= Rsucc B) by (apply succ_ge_id).
      apply Rabs_le. lra.
    + rewrite Hi in E1. rewrite fin_ltb_pinf in E1 by assumption. discriminate.
    + rewrite Hi in E2. rewrite ninf_ltb_fin in E2 by now rewrite is_fin_opp. discriminate.
Qed.
