(** Executable model of statime/src/filters/basic.rs, AS WRITTEN.  No proofs. *)
From SV Require Export Filter.KalmanModel.

Record bstate := mk_bstate {
  b_last_step : option (Z * Z * Z);   (* event_time, offset, correction *)
  b_offset_conf : Z;                  (* Duration bits *)
  b_freq_conf : float;
  b_gain : float;
  b_cur_freq : float;
  b_last_offset : Z;
  b_last_delay : Z
}.

Definition ONE_SEC : Z := NS_PER_S * FRAC.      (* Duration::from_nanos(1_000_000_000) *)
Definition c_1em4 : float := Eval vm_compute in f_of_bits 4547007122018943789.  (* 1e-4 *)
Definition c_0p1 : float := Eval vm_compute in f_of_bits 4591870180066957722.   (* 0.1 *)

Definition basic_new (gain : float) : bstate :=
  mk_bstate None ONE_SEC c_1em4 gain fzero 0 0.

Section Basic.
  Variable dbg : bool.

  (* Ord::clamp on Duration *)
  Definition d_clamp (x lo hi : Z) : outcome Z :=
    if lo <=? hi then Ok (if x <? lo then lo else if hi <? x then hi else x)
    else Panic site_clamp_assert.

  (* everything computed before the first clock call of the non-step path *)
  Definition basic_offset_part (s : bstate) (offset aoff : Z) : outcome (Z * Z * Z) :=
    let! (clamped, oc) :=
      if b_offset_conf s <? aoff then
        let! noc := d_neg dbg (b_offset_conf s) in
        let! cl := d_clamp offset noc (b_offset_conf s) in
        let! oc2 := fix_mul dbg (b_offset_conf s) (2 * FRAC) in
        Ok (cl, oc2)
      else
        let! diff := d_sub dbg (b_offset_conf s) aoff in
        let! dg := d_mul_f dbg diff (b_gain s) in
        let! oc2 := d_sub dbg (b_offset_conf s) dg in
        Ok (offset, oc2) in
    let! ncl := d_neg dbg clamped in
    let! correction := d_mul_f dbg ncl (b_gain s) in
    Ok (clamped, oc, correction).

  (* local and master intervals (Duration bits) since the previous step *)
  Definition basic_intervals (m_t offset l_time l_offset l_corr : Z) : outcome (Z * Z) :=
    let! d1 := t_diff dbg m_t l_time in
    let! d2 := d_sub dbg d1 l_corr in
    let! t1 := t_sub_d dbg m_t offset in
    let! t2 := t_sub_d dbg l_time l_offset in
    let! d3 := t_diff dbg t1 t2 in
    Ok (d2, d3).

  (* (freq_corr, new freq_confidence) from the two intervals *)
  Definition basic_freq_corr (s : bstate) (d2 d3 : Z) : outcome (float * float) :=
    let freq_diff := fix2f d2 /. fix2f d3 in
    let! (fd, fc) :=
      if fabs (freq_diff -. fone) >. b_freq_conf s then
        match fclamp freq_diff (fone -. b_freq_conf s) (fone +. b_freq_conf s) with
        | Some x => Ok (x, b_freq_conf s *. ftwo)
        | None => Panic site_clamp_assert
        end
      else
        Ok (freq_diff, b_freq_conf s -. (b_freq_conf s -. fabs (freq_diff -. fone)) *. b_gain s) in
    Ok (-. (fd -. fone) *. b_gain s *. c_0p1 *. c_1e6, fc).

  (* BasicFilter::measurement after fix 3d2d7f9 (F13): no frequency estimate when the
     master interval is not positive; never hand a non-finite frequency to the clock
     (the freq_confidence computed in this call is kept in that case) *)
  Definition basic_measurement (s : bstate) (m : meas) : CM (bstate * fupdate) :=
    let md1 := match m_delay m with Some d => Some d | None => None end in
    let ld1 := match m_delay m with Some d => d | None => b_last_delay s end in
    let md := match m_peer m with Some d => Some d | None => md1 end in
    let ld := match m_peer m with Some d => d | None => ld1 end in
    let upd : fupdate := (false, md) in
    match m_offset m with
    | None =>
        mret (mk_bstate (b_last_step s) (b_offset_conf s) (b_freq_conf s) (b_gain s) (b_cur_freq s)
                        (b_last_offset s) ld, upd)
    | Some offset =>
        let* aoff := mlift (d_abs dbg offset) in
        if ONE_SEC <? aoff then
          let* noff := mlift (d_neg dbg offset) in
          let* _ := mcall (StepClock noff) in
          mret (mk_bstate (b_last_step s) ONE_SEC c_1em4 (b_gain s) (b_cur_freq s) offset ld, upd)
        else
          let* (clamped, oc, correction) := mlift (basic_offset_part s offset aoff) in
          let* (freq_corr, fc, cur0) :=
            match b_last_step s with
            | Some (l_time, l_offset, l_corr) =>
                let* (d2, d3) := mlift (basic_intervals (m_time m) offset l_time l_offset l_corr) in
                if d3 <=? 0 then mret (fzero, b_freq_conf s, b_cur_freq s)
                else
                  let* (fcorr, fc) := mlift (basic_freq_corr s d2 d3) in
                  mret (fcorr, fc, b_cur_freq s)
            | None =>
                let* _ := mcall (SetFreq fzero) in
                mret (fzero, b_freq_conf s, fzero)
            end in
          let* _ := mcall (StepClock correction) in
          if is_fin (cur0 +. freq_corr) then
            let* r := mcall (SetFreq (cur0 +. freq_corr)) in
            let cur := match r with Some _ => cur0 +. freq_corr | None => cur0 end in
            mret (mk_bstate (Some (m_time m, offset, correction)) oc fc (b_gain s) cur offset ld, upd)
          else
            mret (mk_bstate (Some (m_time m, offset, correction)) oc fc (b_gain s) cur0 offset ld, upd)
    end.

  Definition basic_estimates (s : bstate) : Z * Z := (b_last_offset s, b_last_delay s).
End Basic.
