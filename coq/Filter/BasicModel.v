(** Executable model of statime/src/filters/basic.rs, AS WRITTEN.  No proofs. *)
From SV Require Export Filter.KalmanModel.

Record bstate := mk_bstate {
  b_last_step : option (Z * Z * Z);   (* event_time, offset, correction *)
  b_offset_conf : Z;                  (* Duration bits *)
  b_freq_conf : float;
  b_gain : float;
  b_cur_freq : float;
  b_last_offset : Z;
  b_last_delay : Z
}.

Definition ONE_SEC : Z := NS_PER_S * FRAC.      (* Duration::from_nanos(1_000_000_000) *)
Definition c_1em4 : float := Eval vm_compute in f_of_bits 4547007122018943789.  (* 1e-4 *)
Definition c_0p1 : float := Eval vm_compute in f_of_bits 4591870180066957722.   (* 0.1 *)

Definition basic_new (gain : float) : bstate :=
  mk_bstate None ONE_SEC c_1em4 gain fzero 0 0.

Section Basic.
  Variable dbg : bool.

  (* Ord::clamp on Duration *)
  Definition d_clamp (x lo hi : Z) : outcome Z :=
    if lo <=? hi then Ok (if x <? lo then lo else if hi <? x then hi else x)
    else Panic site_clamp_assert.

  Definition basic_measurement (s : bstate) (m : meas) (c : clk) : outcome (bstate * clk * fupdate) :=
    let md1 := match m_delay m with Some d => Some d | None => None end in
    let ld1 := match m_delay m with Some d => d | None => b_last_delay s end in
    let md := match m_peer m with Some d => Some d | None => md1 end in
    let ld := match m_peer m with Some d => d | None => ld1 end in
    let upd : fupdate := (false, md) in
    match m_offset m with
    | None =>
        Ok (mk_bstate (b_last_step s) (b_offset_conf s) (b_freq_conf s) (b_gain s) (b_cur_freq s)
                      (b_last_offset s) ld, c, upd)
    | Some offset =>
        let! aoff := d_abs dbg offset in
        if ONE_SEC <? aoff then
          let! noff := d_neg dbg offset in
          let '(_, c') := clk_call c (StepClock noff) in
          Ok (mk_bstate (b_last_step s) ONE_SEC c_1em4 (b_gain s) (b_cur_freq s) offset ld, c', upd)
        else
          let! (clamped, oc) :=
            if b_offset_conf s <? aoff then
              let! noc := d_neg dbg (b_offset_conf s) in
              let! cl := d_clamp offset noc (b_offset_conf s) in
              let! oc2 := fix_mul dbg (b_offset_conf s) (2 * FRAC) in
              Ok (cl, oc2)
            else
              let! diff := d_sub dbg (b_offset_conf s) aoff in
              let! dg := d_mul_f dbg diff (b_gain s) in
              let! oc2 := d_sub dbg (b_offset_conf s) dg in
              Ok (offset, oc2) in
          let! ncl := d_neg dbg clamped in
          let! correction := d_mul_f dbg ncl (b_gain s) in
          let! (freq_corr, fc, cur0, c1) :=
            match b_last_step s with
            | Some (l_time, l_offset, l_corr) =>
                let! d1 := t_diff dbg (m_time m) l_time in
                let! d2 := d_sub dbg d1 l_corr in
                let interval_local := fix2f d2 in
                let! t1 := t_sub_d dbg (m_time m) offset in
                let! t2 := t_sub_d dbg l_time l_offset in
                let! d3 := t_diff dbg t1 t2 in
                let interval_master := fix2f d3 in
                let freq_diff := interval_local /. interval_master in
                let! (fd, fc) :=
                  if fabs (freq_diff -. fone) >. b_freq_conf s then
                    match fclamp freq_diff (fone -. b_freq_conf s) (fone +. b_freq_conf s) with
                    | Some x => Ok (x, b_freq_conf s *. ftwo)
                    | None => Panic site_clamp_assert
                    end
                  else
                    Ok (freq_diff,
                        b_freq_conf s -. (b_freq_conf s -. fabs (freq_diff -. fone)) *. b_gain s) in
                Ok (-. (fd -. fone) *. b_gain s *. c_0p1 *. c_1e6, fc, b_cur_freq s, c)
            | None =>
                let '(_, c') := clk_call c (SetFreq fzero) in
                Ok (fzero, b_freq_conf s, fzero, c')
            end in
          let '(_, c2) := clk_call c1 (StepClock correction) in
          let '(r, c3) := clk_call c2 (SetFreq (cur0 +. freq_corr)) in
          let cur := match r with Some _ => cur0 +. freq_corr | None => cur0 end in
          Ok (mk_bstate (Some (m_time m, offset, correction)) oc fc (b_gain s) cur offset ld, c3, upd)
    end.

  Definition basic_estimates (s : bstate) : Z * Z := (b_last_offset s, b_last_delay s).
End Basic.
