(** C09 — Offset and delay measurements use one matching exchange, exactly. *)
From SV Require Import Time.TimeCases Port.OracleC09 Port.LemmasC09.

(** The measurement a slave port hands to its filter from a completed Sync
    exchange is recv - send - asymmetry exactly (units of 2^-32 ns, no rounding),
    offset = raw - mean delay; for all operand values below 2^100 units. *)
Theorem C09_sync_measurement_exact : forall p st id send recv,
  peer_incomplete (p_peer p) ->
  p_state p = PSlave st -> ss_sync st = MMeasuring id (Some send) (Some recv) ->
  small_time send -> small_time recv -> small_dur (pc_asymmetry (p_config p)) ->
  (forall md, p_mean_delay p = Some md -> small_dur md) ->
  exists p' m,
    extract_measurement p = Ok (p', Some m, []) /\
    me_event_time m = recv /\
    me_raw_sync m = Some (recv - send - pc_asymmetry (p_config p)) /\
    me_offset m = match p_mean_delay p with
                  | Some md => Some (recv - send - pc_asymmetry (p_config p) - md)
                  | None => None
                  end /\
    me_delay m = None /\ me_peer_delay m = None /\ me_raw_delay m = None /\
    p_state p' = PSlave (mkSS (ss_remote st) MEmpty (ss_delay st)
                              (Some (recv - send - pc_asymmetry (p_config p)))).
Proof. exact extract_sync_exact. Qed.

Theorem C09_delay_measurement_exact : forall p st id send recv,
  peer_incomplete (p_peer p) ->
  p_state p = PSlave st ->
  (forall i s r, ss_sync st = MMeasuring i (Some s) (Some r) -> False) ->
  ss_delay st = MMeasuring id (Some send) (Some recv) ->
  small_time send -> small_time recv -> small_dur (pc_asymmetry (p_config p)) ->
  (forall rs, ss_last_raw_sync st = Some rs -> small_dur rs) ->
  exists p' m,
    extract_measurement p = Ok (p', Some m, []) /\
    me_event_time m = send /\
    me_raw_delay m = Some (send - recv - pc_asymmetry (p_config p)) /\
    me_delay m = match ss_last_raw_sync st with
                 | Some rs => Some (Z.quot (rs - (send - recv - pc_asymmetry (p_config p))) 2)
                 | None => None
                 end /\
    me_offset m = None /\ me_peer_delay m = None /\ me_raw_sync m = None.
Proof. exact extract_delay_exact. Qed.

(** In every reachable state a Sync, Follow_Up or Delay_Resp whose sender is not
    the parent shown by parentDS changes nothing and reaches neither the filter
    nor the clock (so a measurement can only combine messages of the selected
    parent). *)
From SV Require Import Port.ParentInv.
Theorem C09_not_from_parent_ignored : forall s es i o i' p h,
  init s = Ok (i, o) -> run_state i es = Some i' -> In p (i_ports i') ->
  pi_eqb (h_source h) (parent_id (i_ds i')) = false ->
  (forall origin ts, handle_sync p (i_ds i') h origin ts = Ok (p, i_ds i', [])) /\
  (forall precise, handle_follow_up p (i_ds i') h precise = Ok (p, i_ds i', [])) /\
  (forall recv requester, handle_delay_resp p (i_ds i') h recv requester = Ok (p, i_ds i', [])).
Proof. exact not_from_parent_ignored. Qed.

(** C09_main: for every valid set-up and EVERY valid event list the COMPLETE
    oracle ok_C09 accepts the model's own trace: every Sync / Delay measurement
    handed to the filter is, exactly (units of 2^-32 ns), t2 - t1 - asymmetry
    resp. t3 - t4 - asymmetry (corrections applied) of ONE Sync / Follow_Up resp.
    Delay_Req timestamp / Delay_Resp pair with equal sequence id, both from the
    parent shown by parentDS, received in the current slave episode; offset =
    raw - mean delay, delay = (last raw sync - raw delay) / 2; and only a port
    that is slave emits them.  The proof couples the SlaveState of every port
    with the oracle's record of the inputs (MainC09.cpl) and carries the coupling
    through every handler, the BMCA (a port keeps its exchange state, stops being
    slave, or starts a fresh episode with a different parent) and every history. *)
From SV Require Import Port.MainC09.
Theorem C09_main : forall s es rel,
  setup_valid s -> Forall event_valid es ->
  exists i o, init s = Ok (i, o) /\ ok_C09 (mkCase s es rel (Some o) (run i es)) = true.
Proof. exact ok_C09_model. Qed.
