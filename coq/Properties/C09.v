(** C09 — Offset and delay measurements use one matching exchange, exactly. *)
From SV Require Import Time.TimeCases Port.OracleC09 Port.LemmasC09.

(** The measurement a slave port hands to its filter from a completed Sync
    exchange is recv - send - asymmetry exactly (units of 2^-32 ns, no rounding),
    offset = raw - mean delay; for all operand values below 2^100 units. *)
Theorem C09_sync_measurement_exact : forall p st id send recv,
  peer_incomplete (p_peer p) ->
  p_state p = PSlave st -> ss_sync st = MMeasuring id (Some send) (Some recv) ->
  small_time send -> small_time recv -> small_dur (pc_asymmetry (p_config p)) ->
  (forall md, p_mean_delay p = Some md -> small_dur md) ->
  exists p' m,
    extract_measurement p = Ok (p', Some m, []) /\
    me_event_time m = recv /\
    me_raw_sync m = Some (recv - send - pc_asymmetry (p_config p)) /\
    me_offset m = match p_mean_delay p with
                  | Some md => Some (recv - send - pc_asymmetry (p_config p) - md)
                  | None => None
                  end /\
    me_delay m = None /\ me_peer_delay m = None /\ me_raw_delay m = None /\
    p_state p' = PSlave (mkSS (ss_remote st) MEmpty (ss_delay st)
                              (Some (recv - send - pc_asymmetry (p_config p)))).
Proof. exact extract_sync_exact. Qed.

Theorem C09_delay_measurement_exact : forall p st id send recv,
  peer_incomplete (p_peer p) ->
  p_state p = PSlave st ->
  (forall i s r, ss_sync st = MMeasuring i (Some s) (Some r) -> False) ->
  ss_delay st = MMeasuring id (Some send) (Some recv) ->
  small_time send -> small_time recv -> small_dur (pc_asymmetry (p_config p)) ->
  (forall rs, ss_last_raw_sync st = Some rs -> small_dur rs) ->
  exists p' m,
    extract_measurement p = Ok (p', Some m, []) /\
    me_event_time m = send /\
    me_raw_delay m = Some (send - recv - pc_asymmetry (p_config p)) /\
    me_delay m = match ss_last_raw_sync st with
                 | Some rs => Some (Z.quot (rs - (send - recv - pc_asymmetry (p_config p))) 2)
                 | None => None
                 end /\
    me_offset m = None /\ me_peer_delay m = None /\ me_raw_sync m = None.
Proof. exact extract_delay_exact. Qed.
