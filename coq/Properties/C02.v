(** C02 — A slave port drives its clock to the master's time and keeps it there.
    FILTER LEVEL ONLY, PARTIAL.  What is proved:
      * C02_steer_decision : [steer] steps iff NOT |offset estimate| < threshold, else slews
      * C02_slew_only      : below the threshold no step command is issued
      * C02_steer_law      : the slew target / programmed frequency formulas of the code
      * C02_ideal_*        : contraction of an IDEALISED servo over the reals (exact
                             estimates); its only link to the code is C02_steer_law
      * C02_grid           : kernel EVALUATION (a test, not a proof) of the faithful
                             closed loop on a 24-point grid with zero jitter
    Convergence under estimation error and jitter is validated by the closed-loop
    correspondence runs (real KalmanFilter, property ranges) only. *)
From Coq Require Import Reals Floats.
From SV Require Import Filter.FloatBits Filter.FilterCases Filter.FilterLemmas Filter.ServoLoop
  Filter.ServoLemmas Filter.ServoIdeal.

Theorem C02_steer_decision : forall dbg cfg s c,
  c_log (fst (kalman_steer dbg cfg s c)) =
  if fabs (base_offset (k_run s)) <. dur_seconds (c_step_threshold cfg) then
    match steer_target cfg s with
    | Ok t => freq_cmds cfg s t (c_log c)
    | Panic _ => c_log c
    end
  else
    match d_from_seconds dbg (-. base_offset (k_run s)) with
    | Ok d => StepClock d :: c_log c
    | Panic _ => c_log c
    end.
Proof. exact steer_decision. Qed.

Theorem C02_slew_only : forall dbg cfg s c,
  (fabs (base_offset (k_run s)) <. dur_seconds (c_step_threshold cfg)) = true ->
  forall d, ~ In (StepClock d) (firstn (length (c_log (fst (kalman_steer dbg cfg s c))) - length (c_log c))
                                       (c_log (fst (kalman_steer dbg cfg s c)))).
Proof. exact slew_only. Qed.

Theorem C02_steer_law : forall cfg s,
  steer_target cfg s =
  (let e := base_offset (k_run s) in
   let sigma := base_offset_uncertainty cfg (k_run s) in
   match fclamp (-. (fsignum e *. fmax (fabs e -. sigma *. c_deadzone cfg) fzero) *. c_1e6
                 /. dur_seconds (c_steer_time cfg))
                (-. c_max_steer cfg) (c_max_steer cfg) with
   | Some t => Ok t
   | None => Panic site_clamp_assert
   end)
  /\ forall cur t,
     freq_command cfg s cur t =
     fclamp (cur +. clamp_adjustment cur (t -. base_freq_offset (k_run s) *. c_1e6) (c_max_freq_offset cfg))
            (-. c_max_freq_offset cfg) (c_max_freq_offset cfg).
Proof. exact steer_law. Qed.

Theorem C02_ideal_contraction : forall st T ms : R,
  (0 < T < st)%R -> forall e : R,
  (Rabs (- e * 1e6 / st) <= ms)%R -> Rabs (next_e st T ms e) = ((1 - T / st) * Rabs e)%R.
Proof. exact ideal_contraction. Qed.

Theorem C02_ideal_saturated : forall st T ms : R,
  (0 < T < st)%R -> (0 < ms)%R -> forall e : R,
  (ms < Rabs (- e * 1e6 / st))%R -> Rabs (next_e st T ms e) = (Rabs e - ms * T * 1e-6)%R.
Proof. exact ideal_saturated. Qed.

Theorem C02_ideal_geometric : forall st T ms : R,
  (0 < T < st)%R -> forall (e : R) (n : nat),
  (Rabs (- e * 1e6 / st) <= ms)%R -> Rabs (iter_e st T ms n e) = ((1 - T / st) ^ n * Rabs e)%R.
Proof. exact ideal_geometric. Qed.

Theorem C02_ideal_permanence : forall st T ms : R,
  (0 < T < st)%R -> forall (e eps : R) (n : nat),
  (Rabs (- e * 1e6 / st) <= ms)%R -> (Rabs e <= eps)%R -> (Rabs (iter_e st T ms n e) <= eps)%R.
Proof. exact ideal_permanence. Qed.

(** kernel evaluation on the grid {-10 s, 0.1 ms, 10 s} x {-150, 150 ppm} x {1, 400 us}
    x {0.5 s, 2 s}: from 120 s on the true offset stays within 1 us and the clock is
    never stepped (zero jitter, 150 s horizon, default configuration, debug semantics) *)
Theorem C02_grid : grid_all = true.
Proof. exact grid_holds. Qed.

(** Non-vacuity: the grid is not empty and its runs are full length. *)
Example C02_nonvacuous :
  length grid_theta = 3%nat /\ length grid_f0 = 2%nat /\ length grid_delay = 2%nat /\ length grid_interval = 2%nat /\
  grid_events (2 * SEC) = 150%nat /\
  (T_CONV <? HORIZON) = true.
Proof. vm_compute. repeat split; reflexivity. Qed.
