(** C08 — Ports act only within their role; at most one port steers the clock. *)
From SV Require Import Port.OracleC08 Port.LemmasC08.

(** Announce, Sync, Follow_Up and Delay_Resp are only produced by a port in the
    MASTER state: in every other state the handlers return no action at all. *)
Theorem C08_sync_only_master : forall p d, is_master (p_state p) = false -> send_sync p d = Ok (p, d, []).
Proof. exact send_sync_guard. Qed.
Theorem C08_follow_up_only_master : forall p d id ts,
  is_master (p_state p) = false -> handle_sync_timestamp p d id ts = Ok (p, d, []).
Proof. exact sync_timestamp_guard. Qed.
Theorem C08_announce_only_master : forall p d q,
  is_master (p_state p) = false -> send_announce p d q = Ok (p, d, []).
Proof. exact send_announce_guard. Qed.
Theorem C08_delay_resp_only_master : forall p d h ts,
  is_master (p_state p) = false -> handle_delay_req p d h ts = Ok (p, d, []).
Proof. exact delay_req_guard. Qed.
(** End-to-end Delay_Req only from the slave port. *)
Theorem C08_delay_req_only_slave : forall p d log,
  pc_delay (p_config p) = E2E log -> is_slave (p_state p) = false -> send_delay_request p d = Ok (p, d, []).
Proof. exact e2e_delay_request_guard. Qed.

(** Measurement handling never turns a non-slave port into a slave (only a
    BMCA run creates a slave port). *)
Theorem C08_measurement_keeps_non_slave : forall p d, keeps_non_slave (handle_time_measurement p d) p.
Proof. exact handle_time_measurement_non_slave. Qed.
Theorem C08_slave_handlers_keep_non_slave : forall p d,
  is_slave (p_state p) = false ->
  (forall h o ts, keeps_non_slave (handle_sync p d h o ts) p) /\
  (forall h w, keeps_non_slave (handle_follow_up p d h w) p) /\
  (forall h w r, keeps_non_slave (handle_delay_resp p d h w r) p) /\
  (forall id ts, keeps_non_slave (handle_delay_timestamp p d id ts) p).
Proof. exact non_slave_handlers. Qed.

(** * Every reachable state, every event sequence: at most one port of the
    instance is in the slave state, and a master-only port never is. *)
From SV Require Import Port.InvRun.
Theorem C08_at_most_one_slave_always : forall s es i o i',
  setup_valid s -> Forall event_valid es -> init s = Ok (i, o) -> run_state i es = Some i' ->
  (nslaves (i_ports i') <= 1)%nat /\
  (forall p, In p (i_ports i') -> pc_master_only (p_config p) = true -> is_slave (p_state p) = false).
Proof. exact reachable_roles_from_init. Qed.

(** An instance configured slave-only from the start never has a master port
    (for as long as slave-only is left alone). *)
Theorem C08_slave_only_from_start_never_master : forall s es i o i',
  setup_valid s -> ic_slave_only (su_config s) = true ->
  Forall event_valid es -> Forall (fun e => ~ sets_slave_only e) es ->
  init s = Ok (i, o) -> run_state i es = Some i' ->
  slave_only_of i' = true /\ no_master (i_ports i').
Proof. exact slave_only_from_start. Qed.

(** After slave-only is switched on at run time no port is master once the
    next BMCA run has completed, and none becomes master afterwards (until
    slave-only is switched again). *)
Theorem C08_slave_only_switch_on : forall i i1 o1 es i2,
  inst_inv i -> slave_only_of i = true -> step i EvBmca = Ok (i1, o1) ->
  Forall event_valid es -> Forall (fun e => ~ turns_on_slave_only e) es ->
  run_state i1 es = Some i2 ->
  no_master (i_ports i1) /\ so_inv i2.
Proof. exact slave_only_switch_on. Qed.

(** C08_main: for every valid set-up and EVERY valid event list the model's own
    trace satisfies the complete oracle ok_C08: at most one slave, master-only
    never slave, slave-only enforcement after a BMCA run, is_steering() /
    is_master() agreeing with the state, and - per call and per port - every
    emitted frame decodes under the modelled parser, Announce / Sync / Follow_Up /
    Delay_Resp only from a port that was master before the call, Delay_Req only
    from the slave port, sync / delay measurements only on the slave port, clock
    properties only for the port that is slave afterwards.  (ok_C08 is the very
    function evaluated on implementation traces.) *)
From SV Require Import Port.MainC08 Port.MainC08Role.
Theorem C08_main : forall s es rel,
  setup_valid s -> Forall event_valid es ->
  exists i o, init s = Ok (i, o) /\ ok_C08 (mkCase s es rel (Some o) (run i es)) = true.
Proof. exact ok_C08_model. Qed.
(** the state part alone (a weakening of the oracle) *)
Theorem C08_oracle_weakening : forall c, ok_C08 c = true -> ok_C08_states c = true.
Proof. exact ok_C08_implies_states. Qed.
Theorem C08_main_states : forall s es rel,
  setup_valid s -> Forall event_valid es ->
  exists i o, init s = Ok (i, o) /\ ok_C08_states (mkCase s es rel (Some o) (run i es)) = true.
Proof. exact ok_C08_states_model. Qed.

(** Frames are emitted by the seven emitters only (send_sync, send_announce,
    send_delay_request, handle_sync_timestamp, handle_delay_req,
    handle_pdelay_req, handle_pdelay_response_timestamp): everything received on
    the general interface (Announce, Follow_Up, Delay_Resp,
    Pdelay_Resp_Follow_Up, ...), every measurement and the announce receipt
    timer produce no frame at all, whatever the state and the input. *)
From SV Require Import Port.Frames.
Theorem C08_general_receive_never_sends : forall p d ti frame p' d' o,
  handle_general_receive p d ti frame = Ok (p', d', o) -> sent_frames o = [].
Proof. exact general_receive_never_sends. Qed.
Theorem C08_slave_side_never_sends : forall p d p' d' o,
  (forall h w t, handle_sync p d h w t = Ok (p', d', o) -> sent_frames o = []) /\
  (forall id t, handle_delay_timestamp p d id t = Ok (p', d', o) -> sent_frames o = []) /\
  (forall id t, handle_pdelay_timestamp p d id t = Ok (p', d', o) -> sent_frames o = []) /\
  (forall h w r t, handle_peer_delay_response p d h w r t = Ok (p', d', o) -> sent_frames o = []) /\
  (handle_announce_receipt_timer p d = Ok (p', d', o) -> sent_frames o = []).
Proof. exact slave_side_never_sends. Qed.
