(** C06 — Foreign masters qualify only by sustained Announces and expire when silent. *)
From SV Require Import Generated.Consts Port.ConstsTie Port.OracleC06 Port.LemmasC06.

(** The constants of foreign_master.rs as found in the source on this run. *)
Theorem C06_constants :
  src_FOREIGN_MASTER_TIME_WINDOW = FOREIGN_MASTER_TIME_WINDOW /\
  src_FOREIGN_MASTER_THRESHOLD = Z.of_nat FOREIGN_MASTER_THRESHOLD /\
  2 <= src_FOREIGN_MASTER_THRESHOLD.
Proof.
  destruct consts_agree as (H1 & H2 & _). exact (conj H1 (conj H2 threshold_at_least_two)).
Qed.

(** Whenever a BMCA run selects an Erbest on a port (the only way a foreign
    master becomes parent or pushes the port passive), the port's foreign master
    list holds, for that master, at least two stored Announces — for every
    list, i.e. after every history. *)
Theorem C06_erbest_needs_two : forall own acc ti l l' b,
  bmca_take_best own acc ti l = Ok (l', Some b) ->
  exists fm m, In fm l /\ (2 <= length (fmr_msgs fm))%nat /\ In m (fmr_msgs fm) /\
               b_header b = fm_header m /\ b_ann b = fm_ann m /\ b_age b = fm_age m.
Proof. exact erbest_needs_two. Qed.

(** Stored Announces are always filed under their sender, never carry the own
    clock identity and never report stepsRemoved >= 255: invariant of
    registration, ageing and selection. *)
Theorem C06_register_preserves_wf : forall own ti l h a age,
  fml_wf own l -> fml_wf own (fml_register own ti l h a age).
Proof. exact fml_register_wf. Qed.
Theorem C06_ageing_preserves_wf : forall own ti step l,
  fml_wf own l -> fml_wf own (fml_step_age ti step l).
Proof. exact fml_step_age_wf. Qed.
Theorem C06_selection_preserves_wf : forall own acc ti l l' ob,
  fml_wf own l -> bmca_take_best own acc ti l = Ok (l', ob) -> fml_wf own l'.
Proof. exact bmca_take_best_wf. Qed.

Theorem C06_erbest_never_own_never_255 : forall own acc ti l l' b,
  fml_wf own l -> bmca_take_best own acc ti l = Ok (l', Some b) ->
  pi_clock (h_source (b_header b)) <> pi_clock own /\ an_steps_removed (b_ann b) < 255.
Proof. exact erbest_qualified. Qed.

(** A master that falls silent: after n BMCA runs with n * bmca_interval >=
    WINDOW * announce_interval none of its Announces is left. *)
Theorem C06_silent_master_expires : forall n ti step fm,
  0 < step -> Forall (fun m => 0 <= fm_age m) (fmr_msgs fm) ->
  (1 <= n)%nat -> cutoff_age ti <= Z.of_nat n * step ->
  fmr_msgs (iter_step n ti step fm) = [].
Proof. exact silent_master_expires. Qed.

Example C06_nonvacuous :
  fml_wf (mkPI 5 1) [] /\
  cutoff_age 65536000000000 = 4 * (1000000000 * FRAC) /\
  (let h := header_new 1 in
   let a := mkAnn ts_zero 0 128 (mkCQ 248 254 65535) 128 7 0 160 in
   let src := mkPI 7 1 in
   let hh := with_source h src in
   length (fml_register (mkPI 5 1) 65536000000000
             (fml_register (mkPI 5 1) 65536000000000 [] hh a 0)
             (mkHeader 0 2 1 0 false false false false false false false false false false false false 0 src 1 0) a 0) = 1%nat).
Proof. vm_compute. repeat split; constructor. Qed.

(** C06_walk_main: for every valid set-up and EVERY valid event list the walk
    conjunct of the oracle ok_C06 (everything but the liveness scan over steady
    histories) accepts the model's own trace: after a BMCA run a port is slave of
    a parent only if at least two Announces of that parent (other clock identity,
    acceptable, stepsRemoved < 255, own domain) arrived on it within the
    foreign-master time window, counted in BMCA runs; it becomes passive by BMCA
    only with some such master or within one announce interval of an own-identity
    Announce from a lower-numbered port; and no call outside a BMCA run makes a
    port slave.  The proof couples every stored foreign-master record with the
    arrivals: for every threshold t, the stored Announces of a master younger than
    t are at most as many as its arrivals younger than t (MainC06.dom), through
    registration, the take / put-back of the best message and ageing; interval
    arithmetic is exact for log intervals in [-7, 7].  [ok_C06 c] implies
    [walk_C06 c]; the steady-master liveness half is evaluated on traces only. *)
From SV Require Import Port.MainC06.
Theorem C06_walk_main : forall s es rel,
  setup_valid s -> Forall event_valid es ->
  exists i o, init s = Ok (i, o) /\ walk_C06 (mkCase s es rel (Some o) (run i es)) = true.
Proof. exact walk_C06_main. Qed.
Theorem C06_oracle_implies_walk : forall c, ok_C06 c = true -> walk_C06 c = true.
Proof. exact ok_C06_walk. Qed.

(** C06_main: for every valid set-up and EVERY valid event list the COMPLETE
    oracle ok_C06 accepts the model's own trace - the walk above and the liveness
    half: on every steady history (one port that is not master-only, instance not
    slave-only; one master ranked better than the own clock by priority1 with a
    grandmaster other than the own clock, announcing at least once before every
    BMCA run with consecutive sequence ids modulo 2^16 - so also across
    65535 -> 0 - and no TLVs; nothing else happens) every BMCA run from the second
    Announce on leaves the port slave of that master with parentDS pointing at
    it.  The proof keeps the master's stored Announces as a block (newest last
    with the last announced sequence id, the last two adjacent, ages sorted and
    below the cut-off), shows that registration, the take / put-back of the best
    message and ageing keep it with at least two entries at every judged run,
    and evaluates the single-port BMCA run (selection, Figure 34 by priority1,
    decision S1). *)
From SV Require Import Port.MainC06b.
Theorem C06_main : forall s es rel,
  setup_valid s -> Forall event_valid es ->
  exists i o, init s = Ok (i, o) /\ ok_C06 (mkCase s es rel (Some o) (run i es)) = true.
Proof. exact ok_C06_model. Qed.
Theorem C06_steady_main : forall s es rel,
  setup_valid s -> Forall event_valid es ->
  exists i o, init s = Ok (i, o) /\ steady_ok (mkCase s es rel (Some o) (run i es)) = true.
Proof. exact steady_ok_model. Qed.
