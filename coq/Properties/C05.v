(** C05 — BMCA state decision matches IEEE 1588 for every data set combination. *)
From Coq Require Import Permutation.
From SV Require Import Port.BmcaSpec Port.LemmasC05.

(** The implemented data set comparison returns normally for ALL pairs of data
    sets (the unreachable!() arm is dead) and yields the outcome of Figures 34/35. *)
Theorem C05_compare_refines_figures : forall a b, ds_compare a b = Ok (ord_of_spec (fig34 a b)).
Proof. exact compare_refines_spec. Qed.

Theorem C05_compare_antisymmetric : forall a b, fig34 b a = mirror (fig34 a b).
Proof. exact fig34_mirror. Qed.

(** On candidates that describe grandmasters consistently and are not sent by
    the receiving clock itself, the comparison is the lexicographic order on
    (priority1, class, accuracy, variance, priority2, GM identity, stepsRemoved,
    sender identity, receiving port number) — hence total and transitive. *)
Theorem C05_comparison_is_lexicographic : forall a b,
  gm_consistent a b -> no_err1 a -> no_err1 b ->
  as_ordering (ord_of_spec (fig34 a b)) = CompOpp (lexc (key a) (key b)).
Proof. exact key_order. Qed.

(** Outside that class the figures themselves are intransitive: a > c > b > a. *)
Example C05_cycle_without_gm_consistency :
  let a := mkCmp 1 7 (mkCQ 248 254 1) 128 5 20 (mkPI 30 1) in
  let b := mkCmp 3 7 (mkCQ 248 254 1) 128 0 21 (mkPI 30 1) in
  let c := mkCmp 2 8 (mkCQ 248 254 1) 128 0 22 (mkPI 30 1) in
  fig34 a c = ABetter /\ fig34 c b = ABetter /\ fig34 b a = ABetter.
Proof. vm_compute. repeat split. Qed.

(** The selected best message (Erbest of a port, Ebest of the instance) is one
    of the candidates and is not worse than any other candidate — candidate
    lists of any length. *)
Theorem C05_selected_not_worse : forall l b,
  cand_ok l -> find_best l = Ok (Some b) ->
  In b l /\ forall x, In x l -> lexc (bkey b) (bkey x) <> Gt.
Proof. exact selected_not_worse. Qed.

Theorem C05_selection_total : forall l, exists r, find_best l = Ok r.
Proof. exact find_best_total. Qed.

(** The outcome does not depend on the order in which ports or Announces were
    presented (candidates with pairwise distinct keys). *)
Theorem C05_order_independent : forall l l' b b',
  Permutation l l' -> cand_ok l ->
  (forall x y, In x l -> In y l -> bkey x = bkey y -> x = y) ->
  find_best l = Ok (Some b) -> find_best l' = Ok (Some b') -> b = b'.
Proof. exact find_best_perm_invariant. Qed.

(** The state decision is Figure 33 (with the documented deviation for a
    listening port without qualified master), for every own data set, every
    Ebest/Erbest and every prior port state. *)
Theorem C05_decision_refines_fig33 : forall own ebest erbest st,
  exists r, recommended_state own ebest erbest st = Ok r /\
    dec_of r = fig33 (cq_class (dd_quality own)) (cmp_from_own own)
                     (option_map best_cmp_ds ebest) (option_map best_cmp_ds erbest)
                     (same_best ebest erbest) (is_listening st).
Proof. exact decision_refines_fig33. Qed.

(** The selection returns the candidate that wins every pairwise comparison of
    Figures 34/35 whenever there is one - candidate lists of any length, no
    transitivity or grandmaster-consistency assumption. *)
From SV Require Import Port.CondorcetC05.
Theorem C05_condorcet_winner_selected : forall l e,
  In e l -> (forall x, In x l -> x <> e -> beats e x) -> find_best l = Ok (Some e).
Proof. exact find_best_condorcet. Qed.

(** C05_main: for every valid set-up and EVERY valid event list the COMPLETE
    oracle ok_C05 accepts the model's own trace: at every BMCA run at which
    every foreign master a port has heard announced at least twice since the
    previous run (and nothing outside the oracle's bookkeeping happened: an
    Announce with the clock's own identity, a sequence id that moved backwards
    or by 2^15 in total, more than eight masters on a port), the state of every
    port is the one Figure 33 prescribes for D0, Erbest and Ebest computed from
    the figure-level comparison of the newest Announce of every master, and
    parentDS / currentDS / timePropertiesDS are those of decision S1, of M1/M2,
    or unchanged.  The proof couples the foreign-master list of every port with
    the oracle's candidates (MainC05.cp5), shows that Erbest and Ebest are the
    pairwise winners (C05_condorcet_winner_selected), and carries the coupling
    through every handler, every BMCA run (judged or not) and every history. *)
From SV Require Import Port.MainC05.
Theorem C05_main : forall s es rel,
  setup_valid s -> Forall event_valid es ->
  exists i o, init s = Ok (i, o) /\ ok_C05 (mkCase s es rel (Some o) (run i es)) = true.
Proof. exact ok_C05_model. Qed.
