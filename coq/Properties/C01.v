(** C01 — Network converges to one grandmaster and a loop-free master/slave tree (PARTIAL).
    Proved here: the per-node ingredients that hold for every node of every
    network.  The convergence of whole networks is evaluated (oracle
    Inst.NetOracle.ok_C01 on simulated networks of the implementation), not proved. *)
From SV Require Import Inst.NetOracle Inst.NetLemmas Port.LemmasC05 Port.BmcaSpec.

(** A slave takes over the selected Announce: stepsRemoved + 1, parent = sender,
    grandmaster = the announced one. *)
Theorem C01_s1_steps_increase : forall b h a d b' d',
  set_recommended_state b (RS1 h a) d = Ok (b', d') ->
  ds_steps_removed d' = an_steps_removed a + 1 /\
  pd_parent (ds_parent d') = h_source h /\
  pd_gm_identity (ds_parent d') = an_gm_identity a.
Proof. exact s1_steps_increase. Qed.

(** A master port advertises the node's current stepsRemoved and grandmaster. *)
Theorem C01_advertised_steps : forall ds src seq minor a,
  m_body (msg_announce ds src seq minor) = BAnnounce a ->
  an_steps_removed a = ds_steps_removed ds /\ an_gm_identity a = pd_gm_identity (ds_parent ds).
Proof. exact advertised_steps. Qed.

(** Hence in any state where every slave's stepsRemoved is its parent's plus one
    the parent links contain no cycle: following them from a node with
    stepsRemoved k reaches a root (a node without parent, or with stepsRemoved
    0) within k hops. *)
Theorem C01_no_parent_cycle : forall (parent : nat -> option nat) (steps : nat -> nat),
  (forall n m, parent n = Some m -> steps n = S (steps m)) ->
  forall k n, steps n = k ->
  parent (walk_up parent k n) = None \/ steps (walk_up parent k n) = 0%nat.
Proof. exact no_parent_cycle. Qed.

(** Every node's selection is not worse than any candidate and independent of
    the presentation order (C05), for candidate lists of any length. *)
Theorem C01_selection_sound : forall l b,
  cand_ok l -> find_best l = Ok (Some b) ->
  In b l /\ forall x, In x l -> lexc (bkey b) (bkey x) <> Gt.
Proof. exact selected_not_worse. Qed.

(** * Two instances and the wire between them (Inst/TwoNode.v).

    C01_two_nodes: A is an instance that is its own grandmaster (stepsRemoved 0,
    parentDS = its own attributes), port 0 MASTER; it emits two Announces (two
    firings of the announce timer).  B is a one-port instance that has not heard
    anybody; it receives exactly the octets A emitted and runs the BMCA.  Then
    B's port becomes SLAVE of A (PASSIVE if B's clockClass is in 1..127) exactly
    when B's own data set loses the comparison of Figures 34/35 against A's, and
    otherwise is (stays) MASTER; when it becomes slave, parentDS names A's port
    and A's clock as grandmaster and stepsRemoved is 1.  The theorem goes through
    the emitted frame octets, the decoder, the foreign-master list and the BMCA
    of the model; "has not heard anybody" and "own grandmaster" hold after [init]
    and after every history of silent events (C01_quiet_init, C01_quiet_run). *)
From SV Require Import Inst.TwoNode.
Theorem C01_two_nodes : forall cA iA ppA iA1 oA1 iA2 oA2 cB iB iB1 oB1 iB2 oB2 iB3 oB3 f1 f2,
  reach_inv cA iA -> nth_error (i_ports iA) 0 = Some ppA -> p_state ppA = PMaster ->
  ds_path_enable (i_ds iA) = false -> own_view (i_ds iA) ->
  step iA (EvAnnounceTimer 0 []) = Ok (iA1, oA1) -> step iA1 (EvAnnounceTimer 0 []) = Ok (iA2, oA2) ->
  sent_frames (obs_of_port oA1 0) = [(false, f1)] -> sent_frames (obs_of_port oA2 0) = [(false, f2)] ->
  reach_inv cB iB -> inv5 cB iB s_empty -> nports cB = 1%nat ->
  (match port_cfg cB 0 with Some pc => pc_acceptable pc | None => None end) = None ->
  (match port_cfg cB 0 with Some pc => pc_master_only pc | None => true end) = false ->
  ds_path_enable (i_ds iB) = false ->
  dd_domain (ds_default (i_ds iA)) = dd_domain (ds_default (i_ds iB)) ->
  dd_sdo_id (ds_default (i_ds iA)) = dd_sdo_id (ds_default (i_ds iB)) ->
  dd_clock_identity (ds_default (i_ds iA)) <> own_clock cB ->
  step iB (EvRecvGeneral 0 f1) = Ok (iB1, oB1) -> step iB1 (EvRecvGeneral 0 f2) = Ok (iB2, oB2) -> step iB2 EvBmca = Ok (iB3, oB3) ->
  let ddA := ds_default (i_ds iA) in
  let ddB := ds_default (i_ds iB2) in
  let prev := state_of (snapshot_of iB2) 0 in
  prev <> 2 ->
  let dec := if (1 <=? cq_class (dd_quality ddB)) && (cq_class (dd_quality ddB) <=? 127)
             then (if worse_than ddB ddA then DP1 else DM1)
             else (if worse_than ddB ddA then DS1 else DM2) in
  state_of (snapshot_of iB3) 0 = decided_state dec prev (dd_slave_only ddB) false /\
  (dec = DS1 -> ds_steps_removed (i_ds iB3) = 1 /\ pd_parent (ds_parent (i_ds iB3)) = p_identity ppA /\
                pd_gm_identity (ds_parent (i_ds iB3)) = dd_clock_identity ddA) /\
  (* otherwise: a master decision installs the own clock as grandmaster, a passive one leaves the data sets alone *)
  (dec <> DS1 ->
     if is_m dec
     then ds_steps_removed (i_ds iB3) = 0 /\ pd_parent (ds_parent (i_ds iB3)) = mkPI (dd_clock_identity ddB) 0 /\
          pd_gm_identity (ds_parent (i_ds iB3)) = dd_clock_identity ddB
     else ds_steps_removed (i_ds iB3) = ds_steps_removed (i_ds iB2) /\ pd_parent (ds_parent (i_ds iB3)) = pd_parent (ds_parent (i_ds iB2)) /\
          pd_gm_identity (ds_parent (i_ds iB3)) = pd_gm_identity (ds_parent (i_ds iB2))).
Proof. exact two_nodes. Qed.

(** Two clocks that are their own grandmasters and have different identities never
    both rank the other's Announce above themselves, and never both below: the
    two directions of C01_two_nodes demote exactly one of them. *)
Theorem C01_two_views_opposite : forall dA dB srcA seqA minA pidB aA srcB seqB minB pidA aB,
  own_view dA -> own_view dB -> dd_clock_identity (ds_default dA) <> dd_clock_identity (ds_default dB) ->
  m_body (msg_announce dA srcA seqA minA) = BAnnounce aA -> m_body (msg_announce dB srcB seqB minB) = BAnnounce aB ->
  b_better_or_topo (fig34 (cmp_from_own (ds_default dB)) (cmp_from_announce (m_header (msg_announce dA srcA seqA minA)) aA pidB)) =
  negb (b_better_or_topo (fig34 (cmp_from_own (ds_default dA)) (cmp_from_announce (m_header (msg_announce dB srcB seqB minB)) aB pidA))).
Proof. exact two_views_opposite. Qed.

Theorem C01_quiet_init : forall s es rel i o,
  setup_valid s -> init s = Ok (i, o) -> quiet (mkCase s es rel (Some o) (run i es)) i.
Proof. exact quiet_init. Qed.
Theorem C01_quiet_run : forall c es i i',
  reach_inv c i -> Forall event_valid es -> forallb silent_event es = true -> quiet c i -> run_state i es = Some i' ->
  reach_inv c i' /\ quiet c i'.
Proof. exact quiet_run. Qed.
Theorem C01_quiet_single : forall c i, nports c = 1%nat -> quiet c i -> inv5 c i s_empty /\ own_view (i_ds i).
Proof. exact quiet_single. Qed.

(** C01_two_clock_network: two clocks, one link, one port each (any valid
    configurations with the same domain and different clock identities, not
    slave-only, no path trace, no acceptable-master list, not master-only); both
    start, time out on the announce receipt timer, announce twice, hear the
    other's two Announces (the very octets the other emitted) and run the BMCA.
    Exactly one of them keeps its port MASTER - the one whose own data set wins
    Figures 34/35 - and the other one's port is SLAVE (PASSIVE if its clockClass is
    in 1..127): one grandmaster, for every pair of configurations. *)
Theorem C01_two_clock_network : forall sA sB iA0 oA0 iB0 oB0,
  single_plain sA -> single_plain sB ->
  ic_domain (su_config sA) = ic_domain (su_config sB) -> ic_sdo_id (su_config sA) = ic_sdo_id (su_config sB) ->
  ic_clock_identity (su_config sA) <> ic_clock_identity (su_config sB) ->
  init sA = Ok (iA0, oA0) -> init sB = Ok (iB0, oB0) ->
  exists fA1 fA2 fB1 fB2 iA3 iB3 iA6 iB6,
    run_state iA0 [EvAnnounceReceiptTimer 0; EvAnnounceTimer 0 []; EvAnnounceTimer 0 []] = Some iA3 /\
    run_state iB0 [EvAnnounceReceiptTimer 0; EvAnnounceTimer 0 []; EvAnnounceTimer 0 []] = Some iB3 /\
    run_state iA3 [EvRecvGeneral 0 fB1; EvRecvGeneral 0 fB2; EvBmca] = Some iA6 /\
    run_state iB3 [EvRecvGeneral 0 fA1; EvRecvGeneral 0 fA2; EvBmca] = Some iB6 /\
    let ddA := ds_default (i_ds iA0) in
    let ddB := ds_default (i_ds iB0) in
    let wA := worse_than ddA ddB in
    state_of (snapshot_of iA6) 0 = (if wA then demoted_state ddA else 6) /\
    state_of (snapshot_of iB6) 0 = (if wA then 6 else demoted_state ddB) /\
    (* the data sets: the loser follows the winner unless its clockClass is in 1..127,
       in which case it is PASSIVE and remains its own grandmaster (finding F28) *)
    let a_follows := wA && negb (low_dd ddA) in
    let b_follows := negb wA && negb (low_dd ddB) in
    pd_gm_identity (ds_parent (i_ds iA6)) = (if a_follows then dd_clock_identity ddB else dd_clock_identity ddA) /\
    pd_gm_identity (ds_parent (i_ds iB6)) = (if b_follows then dd_clock_identity ddA else dd_clock_identity ddB) /\
    ds_steps_removed (i_ds iA6) = (if a_follows then 1 else 0) /\
    ds_steps_removed (i_ds iB6) = (if b_follows then 1 else 0).
Proof. exact two_clock_network. Qed.

(** One grandmaster for every two-clock network - unless the loser of the comparison
    has a clockClass in 1..127: then, for every such pair of configurations, both
    clocks end as their own grandmaster (known finding F28, here as a theorem). *)
Theorem C01_two_clock_grandmasters : forall sA sB iA0 oA0 iB0 oB0,
  single_plain sA -> single_plain sB ->
  ic_domain (su_config sA) = ic_domain (su_config sB) -> ic_sdo_id (su_config sA) = ic_sdo_id (su_config sB) ->
  ic_clock_identity (su_config sA) <> ic_clock_identity (su_config sB) ->
  init sA = Ok (iA0, oA0) -> init sB = Ok (iB0, oB0) ->
  exists fA1 fA2 fB1 fB2 iA3 iB3 iA6 iB6,
    run_state iA0 [EvAnnounceReceiptTimer 0; EvAnnounceTimer 0 []; EvAnnounceTimer 0 []] = Some iA3 /\
    run_state iB0 [EvAnnounceReceiptTimer 0; EvAnnounceTimer 0 []; EvAnnounceTimer 0 []] = Some iB3 /\
    run_state iA3 [EvRecvGeneral 0 fB1; EvRecvGeneral 0 fB2; EvBmca] = Some iA6 /\
    run_state iB3 [EvRecvGeneral 0 fA1; EvRecvGeneral 0 fA2; EvBmca] = Some iB6 /\
    let ddA := ds_default (i_ds iA0) in
    let ddB := ds_default (i_ds iB0) in
    let wA := worse_than ddA ddB in
    let winner := if wA then dd_clock_identity ddB else dd_clock_identity ddA in
    let loser_low := if wA then low_dd ddA else low_dd ddB in
    if loser_low
    then pd_gm_identity (ds_parent (i_ds iA6)) = dd_clock_identity ddA /\ pd_gm_identity (ds_parent (i_ds iB6)) = dd_clock_identity ddB /\
         ds_steps_removed (i_ds iA6) = 0 /\ ds_steps_removed (i_ds iB6) = 0
    else pd_gm_identity (ds_parent (i_ds iA6)) = winner /\ pd_gm_identity (ds_parent (i_ds iB6)) = winner /\
         ds_steps_removed (i_ds iA6) = (if wA then 1 else 0) /\ ds_steps_removed (i_ds iB6) = (if wA then 0 else 1).
Proof. exact two_clock_grandmasters. Qed.

(** The premises are satisfiable: clock 5 (priority1 100) announces twice, clock 9
    (priority1 128, clockClass 248) hears the two frames and runs the BMCA: its port
    is SLAVE, parent = port 1 of clock 5, stepsRemoved 1 (kernel-evaluated). *)
From SV Require Import Inst.TwoNodeEx.
Example C01_two_nodes_nonvacuous :
  match exA_frames, init exB with
  | [f1; f2], Ok (iB, _) =>
      match run_state iB [EvAnnounceReceiptTimer 0; EvRecvGeneral 0 f1; EvRecvGeneral 0 f2; EvBmca] with
      | Some iB3 => sn_states (snapshot_of iB3) = [9] /\ pd_parent (ds_parent (i_ds iB3)) = mkPI 5 1 /\ ds_steps_removed (i_ds iB3) = 1
      | None => False
      end
  | _, _ => False
  end.
Proof. exact two_nodes_example. Qed.

(** Known finding F28: what the classifier of the check can excuse, and the finding
    itself on the model (three instances in a line, the middle one of clockClass 6
    and not the best: it goes PASSIVE, stays its own grandmaster, and the instance
    behind it follows it). *)
From SV Require Import Inst.F28Lemmas Inst.F28Example.
Theorem C01_known_finding_guard : forall n,
  kf_C01 n <> 0 ->
  existsb node_panicked (nc_nodes n) = false /\ f28_present n = true /\ converged_f28 n = true /\ stable n 6 = true.
Proof. exact kf_C01_guarded. Qed.

Theorem C01_known_finding_needs_low_class : forall n, (forall i, low_class n i = false) -> kf_C01 n = 0.
Proof. exact kf_C01_needs_low_class. Qed.

Example C01_F28_line_of_three_in_model :
  match f28M_after, f28C_after with
  | Some iM, Some iC =>
      sn_states (snapshot_of iM) = [7; 6] /\ pd_gm_identity (ds_parent (i_ds iM)) = 9 /\ ds_steps_removed (i_ds iM) = 0 /\
      sn_states (snapshot_of iC) = [9] /\ pd_parent (ds_parent (i_ds iC)) = mkPI 9 2 /\
      pd_gm_identity (ds_parent (i_ds iC)) = 9 /\ ds_steps_removed (i_ds iC) = 1
  | _, _ => False
  end.
Proof. exact f28_line_of_three. Qed.
