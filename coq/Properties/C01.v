(** C01 — Network converges to one grandmaster and a loop-free master/slave tree (PARTIAL).
    Proved here: the per-node ingredients that hold for every node of every
    network.  The convergence of whole networks is evaluated (oracle
    Inst.NetOracle.ok_C01 on simulated networks of the implementation), not proved. *)
From SV Require Import Inst.NetOracle Inst.NetLemmas Port.LemmasC05 Port.BmcaSpec.

(** A slave takes over the selected Announce: stepsRemoved + 1, parent = sender,
    grandmaster = the announced one. *)
Theorem C01_s1_steps_increase : forall b h a d b' d',
  set_recommended_state b (RS1 h a) d = Ok (b', d') ->
  ds_steps_removed d' = an_steps_removed a + 1 /\
  pd_parent (ds_parent d') = h_source h /\
  pd_gm_identity (ds_parent d') = an_gm_identity a.
Proof. exact s1_steps_increase. Qed.

(** A master port advertises the node's current stepsRemoved and grandmaster. *)
Theorem C01_advertised_steps : forall ds src seq minor a,
  m_body (msg_announce ds src seq minor) = BAnnounce a ->
  an_steps_removed a = ds_steps_removed ds /\ an_gm_identity a = pd_gm_identity (ds_parent ds).
Proof. exact advertised_steps. Qed.

(** Hence in any state where every slave's stepsRemoved is its parent's plus one
    the parent links contain no cycle: following them from a node with
    stepsRemoved k reaches a root (a node without parent, or with stepsRemoved
    0) within k hops. *)
Theorem C01_no_parent_cycle : forall (parent : nat -> option nat) (steps : nat -> nat),
  (forall n m, parent n = Some m -> steps n = S (steps m)) ->
  forall k n, steps n = k ->
  parent (walk_up parent k n) = None \/ steps (walk_up parent k n) = 0%nat.
Proof. exact no_parent_cycle. Qed.

(** Every node's selection is not worse than any candidate and independent of
    the presentation order (C05), for candidate lists of any length. *)
Theorem C01_selection_sound : forall l b,
  cand_ok l -> find_best l = Ok (Some b) ->
  In b l /\ forall x, In x l -> lexc (bkey b) (bkey x) <> Gt.
Proof. exact selected_not_worse. Qed.
