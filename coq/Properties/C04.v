(** C04 — Wire codec is total, lossless on defined fields and self-consistent.
    Only statements closed by [exact]; proofs live in Wire/WireLemmas.v and
    Wire/TableLemmas.v.

    Objects: [decode]/[encode_raw] are the model of Message::deserialize /
    Message::serialize (Wire/WireImpl.v, validated against the Rust code on
    every run by the correspondence harness); [spec_get], [spec_fields],
    [spec_canon], [spec_wellformed], [spec_tlvs] are the independently written
    Clause-13 codec (Wire/WireSpec.v); [bok b] says that b is a string of
    octets (every element in [0, 256)); [mlen b] is the declared
    messageLength (octets 2-3). *)
From SV Require Import Wire.WireCases Wire.WireBytes Wire.WireLemmas Wire.TableLemmas.
From SV Require Import Generated.Tables.

(** Uniform statement: for EVERY octet string (no bound on its length) and
    every list of serialisation buffer sizes, what the model does satisfies the
    executable oracle written from the property text.  No finding is excused
    ([kf_C04] is constantly 0 since F5 was repaired in /repo). *)
Theorem C04_main : forall (b : bytes) (sizes : list Z),
  bok b ->
  kf_C04 (b, run_C04 b sizes) = 0 -> ok_C04 b (run_C04 b sizes) = true.
Proof. exact C04_all_kf. Qed.

Theorem C04_main_unconditional : forall (b : bytes) (sizes : list Z),
  bok b -> ok_C04 b (run_C04 b sizes) = true.
Proof. exact C04_all. Qed.

(** Nothing past the declared messageLength is read: [decode] is a function
    of the first max(34, messageLength) octets (result or error alike). *)
Theorem C04_decode_local : forall b b',
  34 <= blen b -> mlen b <= blen b ->
  let K := Z.to_nat (Z.max 34 (mlen b)) in
  firstn K b = firstn K b' ->
  decode b = decode b'.
Proof. exact decode_local. Qed.

(** Every field of a decoded message is what the independent reader finds at
    the offset, width, bit position and byte order of the Clause-13 table
    (up to the canonical form of reserved values). *)
Theorem C04_decode_spec : forall b m,
  bok b -> decode b = ROk m ->
  forall f, In f (spec_fields (spec_msg_type b)) ->
  field_of m f = spec_canon (spec_msg_type b) f (spec_get f b).
Proof. exact decode_spec. Qed.

(** Every field of a well-formed message is written where the table puts it. *)
Theorem C04_encode_spec : forall m,
  wf_msg m ->
  forall f, In f (spec_fields (msg_type_code (body_type (m_body m)))) ->
  spec_get f (encode_raw m) = field_of m f.
Proof. exact encode_spec. Qed.

(** A decoded message is well-formed and exactly as long as declared. *)
Theorem C04_decode_wf : forall b m,
  bok b -> decode b = ROk m -> wf_msg m /\ wire_size m = mlen b.
Proof. exact decode_wf. Qed.

(** Re-encoding a decoded message: decodes to the same message, has exactly
    the declared length, agrees with the input on every field of the table
    after canonicalisation of reserved values. *)
Theorem C04_reencode : forall b m,
  bok b -> decode b = ROk m ->
  decode (encode_raw m) = ROk m /\
  blen (encode_raw m) = mlen b /\
  forall f, In f (spec_fields (spec_msg_type b)) ->
    spec_get f (encode_raw m) = spec_canon (spec_msg_type b) f (spec_get f b).
Proof. exact reencode. Qed.

(** Every well-formed message (field ranges, canonical enumeration values, a
    TLV suffix accepted by the scanner, at most 65535 octets) survives
    encode then decode. *)
Theorem C04_encode_decode : forall m, wf_msg m -> decode (encode_raw m) = ROk m.
Proof. exact encode_decode. Qed.

(** The decoder accepts exactly the well-formed frames of WireSpec
    (soundness and completeness); for accepted frames its TLV suffix and its
    TLV iteration are those of the WireSpec framing. *)
Theorem C04_decode_vs_spec : forall b,
  bok b ->
  match decode b with
  | ROk m =>
      spec_wellformed b = true /\
      spec_tlv_area b = m_suffix m /\ spec_tlv_summary b = Some (tlv_summary (m_suffix m))
  | RErr _ => spec_wellformed b = false
  end.
Proof. exact decode_vs_spec. Qed.

(** encode_decode over arbitrary TLV LISTS (even-length values, empty ones
    included, in any position): holds without side condition since the repair
    of F5 (before it, "the last TLV is not empty" was needed). *)
Theorem C04_encode_decode_tlvs : forall h bd ts,
  wf_header h -> wf_body bd -> Forall tlv_wf ts ->
  34 + body_size bd + blen (encode_tlvs ts) < 65536 ->
  decode (encode_raw (mkMsg h bd (encode_tlvs ts))) = ROk (mkMsg h bd (encode_tlvs ts)).
Proof. exact encode_decode_tlvs. Qed.

(** The former F5 witness (a Sync message with one PATH_TRACE TLV whose value
    is empty, 48 octets) is now accepted and round-trips. *)
Theorem C04_f5_repaired :
  octets_ok f5_frame = true /\ spec_wellformed f5_frame = true /\
  blen f5_frame = 48 /\
  decode f5_frame = ROk f5_msg /\
  tlvs_of (m_suffix f5_msg) = [mkTlv 8 []] /\
  ok_C04 f5_frame (run_C04 f5_frame [47; 48]) = true.
Proof. exact f5_accepted. Qed.

(** Enumeration tables regenerated from the Rust sources on every run agree
    with the model on every value (256 / 65536 values, by computation). *)
Theorem C04_clock_accuracy_table : forall v, 0 <= v < 256 ->
  roundtrip clock_accuracy_from clock_accuracy_to v = Some (canon_accuracy v).
Proof. exact clock_accuracy_table. Qed.
Theorem C04_time_source_table : forall v, 0 <= v < 256 ->
  roundtrip time_source_from time_source_to v = Some (canon_time_source v).
Proof. exact time_source_table. Qed.
Theorem C04_management_action_table : forall v, 0 <= v < 256 ->
  roundtrip management_action_from management_action_to v = Some (canon_mgmt_action v).
Proof. exact management_action_table. Qed.
Theorem C04_tlv_type_table : forall v, 0 <= v < 65536 ->
  roundtrip tlv_type_from tlv_type_to v = Some (canon_tlv_type v).
Proof. exact tlv_type_table. Qed.
Theorem C04_tlv_propagate_table : forall v, 0 <= v < 65536 ->
  in_ranges tlv_announce_propagate_ranges v = tlv_announce_propagate v.
Proof. exact tlv_propagate_table. Qed.
Theorem C04_message_type_table : forall v, 0 <= v < 256 ->
  assoc_z v message_type_try_from = msg_type_of_nibble v.
Proof. exact message_type_try_from_table. Qed.
Theorem C04_message_type_discriminants : forall t,
  assoc_mt t message_type_discriminants = Some (msg_type_code t).
Proof. exact message_type_discriminant_table. Qed.
Theorem C04_control_field_table : forall t,
  assoc_z (match assoc_mt t control_field_from with Some c => c | None => control_field_from_default end)
          control_field_to = Some (control_field t).
Proof. exact control_field_table. Qed.

(** The canonical form used by the model for clockAccuracy is the one of the
    specification (reserved values of Table 5 collapse to 0). *)
Theorem C04_canon_accuracy_spec : forall v,
  canon_accuracy v = if accuracy_defined v then v else 0.
Proof. exact canon_accuracy_spec. Qed.

(** Non-vacuity: an Announce frame with flags, a reserved clockAccuracy
    (0x7F), a non-zero reserved octet, two TLVs and two octets of padding is a
    string of octets, is accepted, and re-encodes
    to a frame that differs from the input exactly in the reserved places. *)
Definition nv_frame : bytes :=
  [ 27; 18; 0; 78; 3; 1; 5; 44;  0; 0; 0; 0; 0; 1; 128; 0;  9; 9; 9; 9;
    1; 2; 3; 4; 5; 6; 7; 8; 0; 1;  18; 52; 7; 253;
    0; 0; 101; 83; 241; 0; 59; 154; 201; 255;  0; 37; 66; 128; 6; 127; 78; 93; 129;
    8; 7; 6; 5; 4; 3; 2; 1; 0; 2; 32;
    0; 8; 0; 2; 170; 187;  0; 3; 0; 4; 1; 2; 3; 4;  238; 238 ].
Example C04_nonvacuous :
  octets_ok nv_frame = true /\
  kf_C04 (nv_frame, run_C04 nv_frame [0; 77; 78]) = 0 /\
  ok_C04 nv_frame (run_C04 nv_frame [0; 77; 78]) = true /\
  match decode nv_frame with
  | ROk m =>
      bytes_eqb (encode_raw m)
      [ 27; 18; 0; 78; 3; 1; 5; 44;  0; 0; 0; 0; 0; 1; 128; 0;  0; 0; 0; 0;
        1; 2; 3; 4; 5; 6; 7; 8; 0; 1;  18; 52; 5; 253;
        0; 0; 101; 83; 241; 0; 59; 154; 201; 255;  0; 37; 0; 128; 6; 0; 78; 93; 129;
        8; 7; 6; 5; 4; 3; 2; 1; 0; 2; 32;
        0; 8; 0; 2; 170; 187;  0; 3; 0; 4; 1; 2; 3; 4 ]
  | RErr _ => false
  end = true.
Proof.
  split; [vm_compute; reflexivity|]. split; [vm_compute; reflexivity|].
  split; vm_compute; reflexivity.
Qed.
