(** C12 — No stuck states: ports keep progressing when the host obeys timer actions. *)
From SV Require Import Port.OracleC12 Port.LemmasC12.

(** Announce receipt timeout, in every state and for every configuration: a
    faulty port stays faulty with its receipt timer re-armed; otherwise the port
    becomes MASTER with announce and sync timers due immediately, or — in a
    slave-only instance — LISTENING with the receipt timer re-armed. *)
Theorem C12_receipt_timeout_arms : forall p d,
  exists p' o, handle_announce_receipt_timer p d = Ok (p', d, o) /\
    (is_faulty (p_state p) = true ->
       p_state p' = PFaulty /\ exists ns, In (AResetAnnounceReceiptTimer ns) o) /\
    (is_faulty (p_state p) = false -> dd_slave_only (ds_default d) = false ->
       p_state p' = PMaster /\ In (AResetAnnounceTimer 0) o /\ In (AResetSyncTimer 0) o) /\
    (is_faulty (p_state p) = false -> dd_slave_only (ds_default d) = true ->
       p_state p' = PListening /\ exists ns, In (AResetAnnounceReceiptTimer ns) o).
Proof. exact receipt_timeout_arms. Qed.

(** A master port that emits re-arms the timer with exactly the configured
    interval and stays master: emissions continue at the configured cadence
    indefinitely (by induction the n-th firing is n intervals after the first). *)
Theorem C12_sync_timer_rearms : forall p d p' d' o,
  send_sync p d = Ok (p', d', o) -> is_master (p_state p) = true ->
  In (AResetSyncTimer (interval_ns (pc_log_sync (p_config p)))) o /\ p_state p' = PMaster.
Proof. exact sync_timer_rearms. Qed.
Theorem C12_announce_timer_rearms : forall p d q p' d' o,
  send_announce p d q = Ok (p', d', o) -> is_master (p_state p) = true ->
  In (AResetAnnounceTimer (interval_ns (pc_log_announce (p_config p)))) o /\ p_state p' = PMaster.
Proof. exact announce_timer_rearms. Qed.
Theorem C12_delay_req_timer_rearms : forall p d log st p' d' o,
  pc_delay (p_config p) = E2E log -> p_state p = PSlave st ->
  send_delay_request p d = Ok (p', d', o) ->
  exists ns, In (AResetDelayRequestTimer ns) o.
Proof. exact delay_req_timer_rearms. Qed.

(** BMCA transitions request the timers of the new state. *)
Theorem C12_bmca_slave_arms : forall b h a dd b',
  set_recommended_port_state b (RS1 h a) dd = Ok b' ->
  p_state (bp_port b') <> p_state (bp_port b) ->
  exists ns, bp_pending b' = [AResetAnnounceReceiptTimer ns; AResetDelayRequestTimer 0].
Proof. exact bmca_s1_arms. Qed.
Theorem C12_bmca_master_arms : forall b r dd b',
  (exists d0, r = RM1 d0 \/ r = RM2 d0) \/ (exists h a, r = RM3 h a) ->
  dd_slave_only dd = false -> p_multiport_disable (bp_port b) = None ->
  set_recommended_port_state b r dd = Ok b' ->
  p_state (bp_port b') <> p_state (bp_port b) ->
  p_state (bp_port b') = PMaster /\ bp_pending b' = [AResetAnnounceTimer 0; AResetSyncTimer 0].
Proof. exact bmca_m_arms. Qed.

(** Known finding F22 (refutes "no reachable state waits on a timer that was
    never armed"): MASTER by timeout -> FAULTY (two responders) -> clean
    exchange -> LISTENING with no announce receipt timer; ten silent BMCA runs
    leave the port there. *)
Theorem C12_timer_sane_refuted :
  let c := self_case f22_setup f22_events in
  match walk12 c (init12 c) (init_snap c) (pc_events c) (pc_trace c) with
  | Some (s, sn) => sn_states sn = [4] /\ armed s 0 3 = false /\ f22 s = true
  | None => False
  end.
Proof. exact f22_stuck. Qed.

(** C12_walk_main: for every valid set-up and EVERY valid event list the safety
    walk of the oracle never rejects the model's own trace: (a) an announce or
    sync timer firing on a master port, a delay request timer firing on an
    end-to-end slave port or on any peer-to-peer port, emits exactly one message
    of its type; (b) after every call - whether or not the host obeyed the timer
    book - the timers the state of each port relies on are armed (announce and
    sync timer of a master port, delay request timer of an end-to-end slave port,
    announce receipt timer of a listening port), except for the known stuck state
    F22, which is excused only in its exact form: a port that listens since it
    recovered from a fault that BEGAN without a running receipt timer (it had been
    master); a receipt timer lost during a fault is not excused (a faulty port
    keeps its receipt timer running: part of the invariant).  The proof gives
    every call an obligation (each timer the new state needs is requested by the
    call, or was needed and armed before and is not the one that just fired, or
    the port just became faulty) and shows it for every handler, the BMCA and the
    initial state.  The bounded-liveness conjuncts of ok_C12 (final_ok,
    dreq_cadence_ok) are evaluated on traces only. *)
From SV Require Import Port.MainC12.
Theorem C12_walk_main : forall s es rel,
  setup_valid s -> Forall event_valid es ->
  exists i o, init s = Ok (i, o) /\
    let c := mkCase s es rel (Some o) (run i es) in
    exists r, walk12 c (init12 c) (init_snap c) (pc_events c) (pc_trace c) = Some r.
Proof. exact walk12_main. Qed.

(** * The logic of the liveness half, for every history without received frames
    (timers, transmit timestamps, BMCA runs, ticks in any order and number).

    C12_silence_settles: from ANY reachable state (any valid history es0), after
    silent events that contain enough BMCA runs for four announce intervals of
    every port, every foreign-master list is empty and every multiport block has
    lapsed (each stored Announce ages by one BMCA interval per run,
    [ageing_run]); if the instance is not slave-only it is [settled]. *)
From SV Require Import Port.SilenceC12.
Theorem C12_silence_settles : forall s es0 es i0 o0 i' stepd,
  setup_valid s -> Forall event_valid es0 -> Forall event_valid es -> forallb silent_event es = true ->
  init s = Ok (i0, o0) -> run_state i0 (es0 ++ es) = Some i' ->
  bmca_interval_dur (i_log_bmca i0) = Ok stepd ->
  (1 <= count_bmca es)%nat ->
  (forall pp', In pp' (i_ports i') -> cutoff_age (port_ti pp') <= Z.of_nat (count_bmca es) * stepd) ->
  Forall (fun pp => p_fml pp = [] /\ p_multiport_disable pp = None) (i_ports i') /\
  (dd_slave_only (ds_default (i_ds i')) = false -> settled i').
Proof. exact silence_settles. Qed.

(** C12_settled_step: one silent event in a settled instance.  The instance
    stays settled; a port either keeps its state, stays SLAVE (exchange state),
    goes FAULTY -> LISTENING (a late transmit timestamp completing a clean peer
    delay exchange), or becomes MASTER; a BMCA run makes every port MASTER that
    is neither FAULTY nor LISTENING and leaves those alone; an announce receipt
    timeout makes the port MASTER unless it is FAULTY. *)
Theorem C12_settled_step : forall i e i' o,
  inst_inv i -> event_valid e -> silent_event e = true -> settled i -> step i e = Ok (i', o) ->
  settled i' /\ length (i_ports i') = length (i_ports i) /\
  forall n pp pp', nth_error (i_ports i) n = Some pp -> nth_error (i_ports i') n = Some pp' ->
    (calm (p_state pp) (p_state pp') \/ p_state pp' = PMaster) /\
    (e = EvBmca -> p_state pp' = if is_faulty (p_state pp) || is_listening (p_state pp) then p_state pp else PMaster) /\
    (e = EvAnnounceReceiptTimer n -> is_faulty (p_state pp) = false -> p_state pp' = PMaster).
Proof. exact settled_step. Qed.

(** C12_settled_run: every silent continuation of a settled instance, of any
    length: MASTER ports stay MASTER for ever, the set {MASTER, LISTENING,
    FAULTY} is never left, no port becomes FAULTY.  With C12_walk_main (a
    LISTENING port has its announce receipt timer armed, finding F22 aside) and
    the timer theorems above, what remains of the property is the arithmetic of
    the host's schedule, which the oracle [final_ok] evaluates on traces. *)
Theorem C12_settled_run : forall es i i',
  inst_inv i -> Forall event_valid es -> forallb silent_event es = true -> settled i -> run_state i es = Some i' ->
  settled i' /\ length (i_ports i') = length (i_ports i) /\
  forall n pp pp', nth_error (i_ports i) n = Some pp -> nth_error (i_ports i') n = Some pp' ->
    (p_state pp = PMaster -> p_state pp' = PMaster) /\
    (mlf (p_state pp) -> mlf (p_state pp')) /\
    (is_faulty (p_state pp') = true -> is_faulty (p_state pp) = true).
Proof. exact settled_run. Qed.

(** C12_settled_reach_master: in a settled instance a port is MASTER for good once
    a BMCA run finds it neither LISTENING nor FAULTY, or once its announce receipt
    timer fires while it is not FAULTY - whatever silent events come before and
    after (any number of them). *)
Theorem C12_settled_reach_master : forall es1 e es2 i i' n,
  inst_inv i -> Forall event_valid (es1 ++ e :: es2) -> forallb silent_event (es1 ++ e :: es2) = true -> settled i ->
  run_state i (es1 ++ e :: es2) = Some i' ->
  (forall i1 pp1, run_state i es1 = Some i1 -> nth_error (i_ports i1) n = Some pp1 ->
     (e = EvBmca /\ is_faulty (p_state pp1) = false /\ is_listening (p_state pp1) = false) \/
     (e = EvAnnounceReceiptTimer n /\ is_faulty (p_state pp1) = false)) ->
  forall pp', nth_error (i_ports i') n = Some pp' -> p_state pp' = PMaster.
Proof. exact settled_reach_master. Qed.

(** The premises are satisfiable: a port that became SLAVE (9) of a master and
    then hears nothing more is MASTER (6) after a silent tail with five BMCA runs
    (four announce intervals), evaluated in the kernel. *)
From SV Require Import Port.SilenceEx.
Example C12_silence_nonvacuous :
  states_after sil_prefix = Some [9] /\ states_after (sil_prefix ++ sil_tail) = Some [6] /\
  forallb silent_event sil_tail = true /\ count_bmca sil_tail = 5%nat /\
  match init sil_setup with
  | Ok (i0, _) =>
      match run_state i0 (sil_prefix ++ sil_tail), bmca_interval_dur (i_log_bmca i0) with
      | Some i', Ok stepd => forallb (fun pp => cutoff_age (port_ti pp) <=? 5 * stepd) (i_ports i')
      | _, _ => false
      end
  | Panic _ => false
  end = true.
Proof. exact silence_example. Qed.

(** * Cadence, in safety form (Port/CadenceC12.v).
    After the announce timer of a MASTER port has fired at host time [now12 s], and
    for as long as the port stays MASTER and neither that timer nor the port's
    announce receipt timer fires (any other calls, on any port, BMCA runs and ticks
    included), nothing touches that timer: its deadline in the host's book is
    exactly that time + the configured announce interval.  A host that fires it
    when due (to within the oracle's 2 ns) emits the next Announce one configured
    interval after the previous one; the same for Sync.  ("Emits Announce and Sync
    at their configured intervals": what remains trace-only is that an obedient
    host reaches the firing at all, i.e. the arithmetic of its schedule.) *)
From SV Require Import Port.CadenceC12 Port.CadenceEx.
Theorem C12_announce_gap : forall c i s p q mid i1 o1 s1 s2 sn2 pp,
  inst_inv i -> Forall event_valid (EvAnnounceTimer p q :: mid) ->
  book_wf (tms s) -> (p < length (tms s))%nat ->
  nth_error (i_ports i) p = Some pp -> p_state pp = PMaster ->
  step i (EvAnnounceTimer p q) = Ok (i1, o1) ->
  step_C12 c s (snapshot_of i) (EvAnnounceTimer p q) o1 (snapshot_of i1) = Some s1 ->
  state_of (snapshot_of i1) p = 6 ->
  walk12 c s1 (snapshot_of i1) mid (run i1 mid) = Some (s2, sn2) ->
  forallb (fun e => negb (own_timer p 0 e)) mid = true -> stays_master p (run i1 mid) = true ->
  obedient_firing s2 p 0 = true ->
  Z.abs (now12 s2 - now12 s - interval_ns (pc_log_announce (p_config pp))) <= 2.
Proof. exact announce_gap. Qed.
Theorem C12_sync_gap : forall c i s p mid i1 o1 s1 s2 sn2 pp,
  inst_inv i -> Forall event_valid (EvSyncTimer p :: mid) ->
  book_wf (tms s) -> (p < length (tms s))%nat ->
  nth_error (i_ports i) p = Some pp -> p_state pp = PMaster ->
  step i (EvSyncTimer p) = Ok (i1, o1) ->
  step_C12 c s (snapshot_of i) (EvSyncTimer p) o1 (snapshot_of i1) = Some s1 ->
  state_of (snapshot_of i1) p = 6 ->
  walk12 c s1 (snapshot_of i1) mid (run i1 mid) = Some (s2, sn2) ->
  forallb (fun e => negb (own_timer p 1 e)) mid = true -> stays_master p (run i1 mid) = true ->
  obedient_firing s2 p 1 = true ->
  Z.abs (now12 s2 - now12 s - interval_ns (pc_log_sync (p_config pp))) <= 2.
Proof. exact sync_gap. Qed.
Example C12_cadence_nonvacuous :
  match walk12 cad_case (init12 cad_case) (init_snap cad_case) (pc_events cad_case) (pc_trace cad_case) with
  | Some (s2, sn2) =>
      sn_states sn2 = [6] /\ deadline (tms s2) 0 0 = Some 1000000000 /\ now12 s2 = 1000000000 /\ obedient_firing s2 0 0 = true
  | None => False
  end.
Proof. exact cadence_example. Qed.

(** The delay request timer is re-armed with a duration in [0, 2 * interval] for
    every Open01 draw u = (2k+1)/2^53, k a 52-bit integer, and every log interval
    the configuration admits: consecutive Delay_Reqs of an obedient host are at
    most two intervals (+ 2 ns) apart. *)
From SV Require Import Port.DreqBound.
Theorem C12_delay_request_duration_bound : forall log k, -7 <= log <= 7 -> 0 <= k < 2 ^ 52 ->
  0 <= delay_req_duration_ns log k <= 2 * interval_ns log.
Proof. exact dreq_duration_bound. Qed.

(** Cadence of Delay_Req in safety form (Port/DreqCadence.v): after the delay
    request timer of an end-to-end SLAVE port fired at host time [now12 s], and
    for as long as the port stays slave of the same master and that timer does
    not fire, nothing touches that timer; an obedient next firing comes at most
    two delay request intervals (+ 2 ns) later - the bound [dreq_cadence_ok]
    tests on traces.  (Draws of the port's random generator: 52-bit integers.) *)
From SV Require Import Port.DreqCadence.
Theorem C12_delay_request_gap : forall c i s p mid i1 o1 s1 s2 sn2 pp st log,
  reach_inv c i -> Forall event_valid (EvDelayReqTimer p :: mid) ->
  book_wf (tms s) -> (p < length (tms s))%nat ->
  nth_error (i_ports i) p = Some pp -> p_state pp = PSlave st -> pc_delay (p_config pp) = E2E log -> -7 <= log <= 7 ->
  Forall (fun k => 0 <= k < 2 ^ 52) (p_rng pp) ->
  step i (EvDelayReqTimer p) = Ok (i1, o1) ->
  step_C12 c s (snapshot_of i) (EvDelayReqTimer p) o1 (snapshot_of i1) = Some s1 ->
  state_of (snapshot_of i1) p = 9 ->
  walk12 c s1 (snapshot_of i1) mid (run i1 mid) = Some (s2, sn2) ->
  forallb (fun e => negb (own_timer2 p e)) mid = true ->
  stays_slave p (pd_parent (ds_parent (i_ds i1))) (run i1 mid) = true ->
  obedient_firing s2 p 2 = true ->
  now12 s2 - now12 s <= 2 * interval_ns log + 2.
Proof. exact dreq_gap. Qed.
