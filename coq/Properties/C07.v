(** C07 — Traffic from unselected, unacceptable or foreign-domain sources has no effect. *)
From SV Require Import Port.OracleC07 Port.LemmasC07.

(** Frames of another domain or sdoId, with a PTP version other than 2, or
    malformed: the port, the data sets and the RNG position are unchanged and
    nothing but a read of the instance state is observable — for every frame,
    timestamp and port state. *)
Theorem C07_filtered_event_stutters : forall p d ti frame ts,
  filtered_out d frame = true ->
  exists o, handle_event_receive p d ti frame ts = Ok (p, d, o) /\ only_locks o.
Proof. exact filtered_event_stutters. Qed.
Theorem C07_filtered_general_stutters : forall p d ti frame,
  filtered_out d frame = true ->
  exists o, handle_general_receive p d ti frame = Ok (p, d, o) /\ only_locks o.
Proof. exact filtered_general_stutters. Qed.

(** Announce bearing the port's own identity or from outside the acceptable
    master list. *)
Theorem C07_announce_rejected_stutters : forall p d ti m a,
  (is_slave (p_state p) = false \/ pi_eqb (h_source (m_header m)) (pd_parent (ds_parent d)) = false) ->
  (pi_eqb (h_source (m_header m)) (p_identity p) = true
   \/ acceptable (pc_acceptable (p_config p)) (pi_clock (h_source (m_header m))) = false) ->
  exists o, handle_announce p d ti m a = Ok (p, d, o) /\ only_locks o.
Proof. exact announce_rejected_stutters. Qed.

(** Sync, Follow_Up, Delay_Resp not from the port's selected master, or a
    Delay_Resp answering someone else's request. *)
Theorem C07_sync_not_master_stutters : forall p d h origin ts,
  not_from_master p (h_source h) -> handle_sync p d h origin ts = Ok (p, d, []).
Proof. exact sync_not_master_stutters. Qed.
Theorem C07_follow_up_not_master_stutters : forall p d h precise,
  not_from_master p (h_source h) -> handle_follow_up p d h precise = Ok (p, d, []).
Proof. exact follow_up_not_master_stutters. Qed.
Theorem C07_delay_resp_not_ours_stutters : forall p d h recv requester,
  (not_from_master p (h_source h) \/ pi_eqb (p_identity p) requester = false) ->
  handle_delay_resp p d h recv requester = Ok (p, d, []).
Proof. exact delay_resp_not_ours_stutters. Qed.

(** Non-interference for histories of any length: inserting an event that
    stutters in the state reached so far changes neither the final state nor
    the results of the other events. *)
Theorem C07_noninterference_state : forall es1 i e es2,
  (forall i', run_state i es1 = Some i' -> stutters i' e) ->
  run_state i (es1 ++ e :: es2) = run_state i (es1 ++ es2).
Proof. exact run_state_insert. Qed.
Theorem C07_noninterference_trace : forall es1 i e es2 i1,
  run_state i es1 = Some i1 -> stutters i1 e ->
  exists o, run i (es1 ++ e :: es2) = run i es1 ++ SROk o (snapshot_of i1) :: run i1 es2
            /\ run i (es1 ++ es2) = run i es1 ++ run i1 es2.
Proof. exact run_insert. Qed.
