(** C07 — Traffic from unselected, unacceptable or foreign-domain sources has no effect. *)
From SV Require Import Port.OracleC07 Port.LemmasC07.

(** Frames of another domain or sdoId, with a PTP version other than 2, or
    malformed: the port, the data sets and the RNG position are unchanged and
    nothing but a read of the instance state is observable — for every frame,
    timestamp and port state. *)
Theorem C07_filtered_event_stutters : forall p d ti frame ts,
  filtered_out d frame = true ->
  exists o, handle_event_receive p d ti frame ts = Ok (p, d, o) /\ only_locks o.
Proof. exact filtered_event_stutters. Qed.
Theorem C07_filtered_general_stutters : forall p d ti frame,
  filtered_out d frame = true ->
  exists o, handle_general_receive p d ti frame = Ok (p, d, o) /\ only_locks o.
Proof. exact filtered_general_stutters. Qed.

(** Announce bearing the port's own identity or from outside the acceptable
    master list. *)
Theorem C07_announce_rejected_stutters : forall p d ti m a,
  (is_slave (p_state p) = false \/ pi_eqb (h_source (m_header m)) (pd_parent (ds_parent d)) = false) ->
  (pi_eqb (h_source (m_header m)) (p_identity p) = true
   \/ acceptable (pc_acceptable (p_config p)) (pi_clock (h_source (m_header m))) = false) ->
  exists o, handle_announce p d ti m a = Ok (p, d, o) /\ only_locks o.
Proof. exact announce_rejected_stutters. Qed.

(** Sync, Follow_Up, Delay_Resp not from the port's selected master, or a
    Delay_Resp answering someone else's request. *)
Theorem C07_sync_not_master_stutters : forall p d h origin ts,
  not_from_master p (h_source h) -> handle_sync p d h origin ts = Ok (p, d, []).
Proof. exact sync_not_master_stutters. Qed.
Theorem C07_follow_up_not_master_stutters : forall p d h precise,
  not_from_master p (h_source h) -> handle_follow_up p d h precise = Ok (p, d, []).
Proof. exact follow_up_not_master_stutters. Qed.
Theorem C07_delay_resp_not_ours_stutters : forall p d h recv requester,
  (not_from_master p (h_source h) \/ pi_eqb (p_identity p) requester = false) ->
  handle_delay_resp p d h recv requester = Ok (p, d, []).
Proof. exact delay_resp_not_ours_stutters. Qed.

(** Non-interference for histories of any length: inserting an event that
    stutters in the state reached so far changes neither the final state nor
    the results of the other events. *)
Theorem C07_noninterference_state : forall es1 i e es2,
  (forall i', run_state i es1 = Some i' -> stutters i' e) ->
  run_state i (es1 ++ e :: es2) = run_state i (es1 ++ es2).
Proof. exact run_state_insert. Qed.
Theorem C07_noninterference_trace : forall es1 i e es2 i1,
  run_state i es1 = Some i1 -> stutters i1 e ->
  exists o, run i (es1 ++ e :: es2) = run i es1 ++ SROk o (snapshot_of i1) :: run i1 es2
            /\ run i (es1 ++ es2) = run i es1 ++ run i1 es2.
Proof. exact run_insert. Qed.

(** In EVERY reachable state (any set-up whose initialisation succeeds, any
    event list) the slave port's selected master is parentDS.parentPortIdentity:
    the source filter of Sync / Follow_Up / Delay_Resp and the data sets never
    disagree about who the parent is. *)
From SV Require Import Port.ParentInv Port.MainC07 Port.MainC07b.
Theorem C07_slave_follows_parent : forall s es i o i',
  init s = Ok (i, o) -> run_state i es = Some i' -> slave_parent i'.
Proof. exact slave_follows_parent. Qed.

(** Consequently, in every reachable state, every frame of ANY ignorable class
    of the oracle ok_C07 (other PTP version, malformed, other domain / sdoId,
    Announce bearing the port's own identity or from a clock outside the
    acceptable-master list, Sync / Follow_Up not from the parent shown by
    parentDS, Delay_Resp not from it or for another requester) is a stuttering
    step: same instance afterwards, nothing observable but lock reads.  The
    Announce class rests on the invariant inst_acc: every stored foreign-master
    record and every slave port's selected master passed the acceptable-master
    filter and is not the port itself. *)
Theorem C07_ignorable_stutters_reachable : forall s es rel tr i o i' e,
  setup_valid s -> Forall event_valid es -> init s = Ok (i, o) -> run_state i es = Some i' ->
  ignorable (mkCase s es rel (Some o) tr) (snapshot_of i') e = true -> stutters i' e.
Proof. exact ignorable_stutters_reachable. Qed.

(** the same for the classes other than Announce, with their own statement *)
Theorem C07_ignorable_na_stutters_reachable : forall s es rel tr i o i' e,
  setup_valid s -> Forall event_valid es -> init s = Ok (i, o) -> run_state i es = Some i' ->
  ignorable_na (mkCase s es rel (Some o) tr) (snapshot_of i') e = true -> stutters i' e.
Proof. exact ignorable_na_stutters_reachable. Qed.

(** ... and inserting it anywhere in a history changes neither the states
    reached nor anything observable about the other calls. *)
Theorem C07_insert_ignorable_unchanged : forall s es1 e es2 rel tr i o i1,
  setup_valid s -> Forall event_valid es1 -> init s = Ok (i, o) -> run_state i es1 = Some i1 ->
  ignorable_na (mkCase s es1 rel (Some o) tr) (snapshot_of i1) e = true ->
  run_state i (es1 ++ e :: es2) = run_state i (es1 ++ es2) /\
  exists o', run i (es1 ++ e :: es2) = run i es1 ++ SROk o' (snapshot_of i1) :: run i1 es2
             /\ run i (es1 ++ es2) = run i es1 ++ run i1 es2.
Proof. exact insert_ignorable_unchanged. Qed.

(** C07_main: for every valid set-up, EVERY valid event list and EVERY set of
    insertion positions, the COMPLETE oracle ok_C07 accepts the model's own pair
    of runs (the history, and the history without the events at those positions):
    wherever an inserted event is of an ignorable class it produces nothing but
    lock reads and leaves the getters unchanged, and every other event produces
    exactly what it produces in the base run. *)
Theorem C07_main : forall s es pos rel1 rel2 i o,
  setup_valid s -> Forall event_valid es -> init s = Ok (i, o) ->
  ok_C07 (mkC07 (mkCase s (drop_at 0 pos es) rel1 (Some o) (run i (drop_at 0 pos es)))
                (mkCase s es rel2 (Some o) (run i es)) pos) = true.
Proof. exact ok_C07_model. Qed.
