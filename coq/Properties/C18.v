(** C18 — The overlay clock behaves like a clock.
    Only statements closed by [exact]; proofs live in Clock/OverlayLemmas.v.

    Vocabulary: times are U96F32 bit patterns, durations I96F32 bit patterns
    (unbounded Z in the statements), [tfu s t] = `time_from_underlying`,
    [overlay_now s t] = `now()` when the underlying clock shows [t],
    ppm is a primitive float (f64) and [float_to_fixed] its I96F32 conversion. *)
From SV Require Import Clock.OverlayCases Clock.OverlayLemmas.

(** Uniform statement, code AS IT IS.  For EVERY start and EVERY operation
    sequence of ANY length (the oracle's domain: readings below 2^111 bits,
    |ppm| <= 500, |offset| <= 10 s, advances >= 0, timestamps converted are not
    older than the last adjustment, start >= 11 s * (length + 1)), debug or
    release build: unless the run falls in the recorded finding F9 (the only
    failing checks are exact-jump checks of step_clock calls made while
    ppm <> 0), the model's observations satisfy the oracle written from the
    property text: no panic/overflow/failed debug assertion, continuity across
    every set_frequency, returned time = reading, exact jump at every step,
    rate within 2^-32 ns * (2 + dt/10^6), conversion = reading. *)
Theorem C18_main : forall t0 ops rel,
  kf_C18 (t0, ops, rel, to_opt (run_overlay (negb rel) t0 ops)) = 0 ->
  ok_C18 t0 ops (to_opt (run_overlay (negb rel) t0 ops)) = true.
Proof. exact C18_all. Qed.

(** Everything except the exactness of steps taken at ppm <> 0 holds of the
    code as it is, unconditionally on the domain. *)
Theorem C18_all_but_F9 : forall dbg t0 ops,
  ok_gen false t0 ops (to_opt (run_overlay dbg t0 ops)) = true.
Proof. exact C18_relaxed. Qed.

(** No overflow, panic or failed debug assertion on the domain. *)
Theorem C18_no_overflow : forall dbg t0 ops,
  in_domain t0 ops = true -> is_ok (run_overlay dbg t0 ops) = true.
Proof. exact no_overflow. Qed.

(** freq_change_continuous + returned_is_reading (no range hypothesis). *)
Theorem C18_freq_change_continuous : forall dbg s t f s' ret,
  0 <= t ->
  set_frequency dbg s t f = Ok (s', ret) ->
  tfu s t = Ok ret /\
  (forall p, float_to_fixed f = Ok p -> tfu s' t = Ok ret) /\
  last_sync s' = t /\ shift s' = ret - t /\ ppm s' = f.
Proof. exact set_frequency_spec. Qed.

(** The `debug_assert_eq!` in set_frequency never fails (for a ppm that
    converts to I96F32 at all, i.e. finite and below 2^95). *)
Theorem C18_debug_assert_never_fails : forall s t f p,
  0 <= t -> float_to_fixed f = Ok p ->
  set_frequency true s t f = set_frequency false s t f.
Proof. exact debug_assert_never_fails. Qed.

(** returned_is_reading for step_clock as it is. *)
Theorem C18_step_returned_is_reading : forall s t off s' ret,
  step_clock_current s t off = Ok (s', ret) ->
  tfu s' t = Ok ret /\ last_sync s' = t /\ ppm s' = ppm s.
Proof. exact step_current_returns. Qed.

(** convert_agrees_with_now: `now()` is the conversion of the reading of the
    underlying clock, for every state and instant. *)
Theorem C18_convert_agrees_with_now : forall s q, overlay_now s q = tfu s q.
Proof. exact convert_agrees_with_now. Qed.

(** Every successful conversion is the affine map t + shift + corr, with both
    additions saturating at the ends of the `Time` range ... *)
Theorem C18_conversion_is_affine_sat : forall s t r,
  tfu s t = Ok r ->
  exists p, float_to_fixed (ppm s) = Ok p /\
            r = reading_sat (last_sync s) (shift s) p t /\
            (0 <= t -> 0 <= r < 2 ^ 128) /\ - 2 ^ 127 <= t < 2 ^ 127.
Proof. exact tfu_inv. Qed.

(** ... hence the affine map itself when neither addition saturates, which is
    the case for every reading at or after the anchor inside the domain. *)
Theorem C18_conversion_is_affine : forall s t r p,
  float_to_fixed (ppm s) = Ok p -> exact_at s p t -> tfu s t = Ok r ->
  r = reading_z (last_sync s) (shift s) p t.
Proof. exact tfu_exact. Qed.

Theorem C18_no_saturation_in_domain : forall t0 k s p q,
  0 <= k -> Inv t0 k s -> (k + 1) * B_STEP <= t0 -> last_sync s <= q < TMAX ->
  float_to_fixed (ppm s) = Ok p -> exact_at s p q.
Proof. exact inv_exact_at. Qed.

(** rate_bound: between two (unsaturated) readings after the last adjustment the clock
    advances by dt * (1 + p/(10^6 * 2^32)) with an error BELOW ONE unit of
    2^-32 ns, hence (second part) within the stated 2^-32 ns * (2 + dt/10^6)
    of dt * (1 + ppm/10^6) for the exact rational value of the f64 ppm. *)
Theorem C18_rate_bound : forall s p t1 t2 r1 r2,
  float_to_fixed (ppm s) = Ok p ->
  last_sync s <= t1 <= t2 ->
  exact_at s p t1 -> exact_at s p t2 ->
  tfu s t1 = Ok r1 -> tfu s t2 = Ok r2 ->
  Z.abs (MEGA * FRAC * ((r2 - r1) - (t2 - t1)) - (t2 - t1) * p) < MEGA * FRAC /\
  rate_ok (ppm s) (t2 - t1) r1 r2 = true.
Proof. exact rate_bound. Qed.

(** The conversion error of the ppm itself: at most half a unit of 2^-32. *)
Theorem C18_ppm_conversion : forall f p,
  float_to_fixed f = Ok p ->
  exists n k, float_to_q f = Some (n, k) /\ 0 <= k /\
              Z.abs (2 * (p * 2 ^ k) - 2 * (n * FRAC)) <= 2 ^ k.
Proof. exact to_fixed_q. Qed.

(** step_exact, code as it is, ppm = +-0.0: exact whenever the readings before
    and after are representable (`Time + Duration` saturates otherwise). *)
Theorem C18_step_exact_zero_ppm : forall s t off pre s' ret,
  float_is_zero (ppm s) = true ->
  0 <= t + shift s < 2 ^ 128 -> 0 <= t + shift s + off < 2 ^ 128 ->
  tfu s t = Ok pre ->
  step_clock_current s t off = Ok (s', ret) ->
  ret = pre + off /\ tfu s' t = Ok ret.
Proof. exact step_exact_zero_ppm. Qed.

(** F9 (known finding): step_exact is FALSE of the code as it is when
    ppm <> 0.  Witness: 100 s after the anchor at +500 ppm, +10 s requested,
    the reading moves 54 997 500 ns less. *)
Theorem C18_step_exact_refuted :
  exists s t off pre s' ret,
    ppm_ok (ppm s) = true /\ Z.abs off <= OFF_MAX /\
    tfu s t = Ok pre /\ step_clock_current s t off = Ok (s', ret) /\
    tfu s' t = Ok ret /\ ret <> pre + off /\
    (pre + off - ret) / FRAC = 54997500.
Proof. exact step_exact_refuted. Qed.

Theorem C18_refuted_on_current_code :
  in_domain f9_t0 f9_ops = true /\
  ok_C18 f9_t0 f9_ops (to_opt (run_overlay_with step_clock_current true f9_t0 f9_ops)) = false /\
  kf_C18 (f9_t0, f9_ops, false, to_opt (run_overlay_with step_clock_current true f9_t0 f9_ops)) = 1.
Proof. exact C18_refuted_current. Qed.

(** PROPOSED REPAIR: step_exact for every ppm ... *)
Theorem C18_step_exact_fixed : forall s t off pre s' ret,
  0 <= t ->
  tfu s t = Ok pre -> 0 <= pre + off < 2 ^ 128 ->
  step_clock_fixed s t off = Ok (s', ret) ->
  ret = pre + off /\ tfu s' t = Ok ret /\
  last_sync s' = t /\ shift s' = ret - t /\ ppm s' = ppm s.
Proof. exact step_exact_fixed. Qed.

(** ... and the full property with no exception, for every sequence. *)
Theorem C18_main_fixed : forall dbg t0 ops,
  ok_C18 t0 ops (to_opt (run_overlay_with step_clock_fixed dbg t0 ops)) = true.
Proof. exact C18_fixed_all. Qed.

(** Non-vacuity: a concrete sequence in the domain with kf = 0 exercising
    every kind of operation (steps at ppm = 0 only), and its observations. *)
Example C18_nonvacuous :
  let t0 := 1700000000 * SEC + 123 in
  let ops := [OStep (- (3 * SEC + 5)); OAdv (7 * SEC + 1); OSetFreq (mkf true 7036874417766400 (-46));
              OAdv (1000 * SEC + 77); OConv (t0 + 500 * SEC); ONow;
              OSetFreq 0%float; OStep (10 * SEC)] in
  in_domain t0 ops = true /\
  kf_C18 (t0, ops, false, to_opt (run_overlay true t0 ops)) = 0 /\
  ok_C18 t0 ops (to_opt (run_overlay true t0 ops)) = true /\
  float_to_fixed (mkf true 7036874417766400 (-46)) = Ok (- (100 * FRAC)) /\
  nth 3 (match run_overlay true t0 ops with Ok o => o | Panic _ => [] end) []
    = [t0 - (3 * SEC + 5) + (7 * SEC + 1);
       t0 - (3 * SEC + 5) + (7 * SEC + 1) + (1000 * SEC + 77) - (100 * SEC + 8) / 1000].
Proof. vm_compute. repeat split; reflexivity. Qed.
