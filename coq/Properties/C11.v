(** C11 — Announces advertise the instance's current view of the hierarchy. *)
From SV Require Import Port.OracleC11 Port.LemmasC11.

(** Every Announce a port builds carries grandmaster identity, quality,
    priorities, stepsRemoved, UTC offset, time source and the leap /
    traceability / timescale flags of the data sets at emission, for ALL data sets. *)
Theorem C11_announce_reflects_ds : forall ds src seq minor,
  announce_reflects ds (msg_announce ds src seq minor) = true.
Proof. exact announce_reflects_ds. Qed.

(** An Announce from the parent (stepsRemoved 0..254) received on the slave port
    replaces parent and time-properties data sets by its contents and sets
    stepsRemoved to the parent's plus one. *)
Theorem C11_s1_update_exact : forall p d ti m a st,
  p_state p = PSlave st -> m_body m = BAnnounce a ->
  pi_eqb (h_source (m_header m)) (pd_parent (ds_parent d)) = true ->
  0 <= an_steps_removed a < 255 ->
  ds_path_enable d = false ->
  exists p' o,
    handle_announce p d ti m a =
      Ok (p', ds_with d (an_steps_removed a + 1)
                     (mkPD (h_source (m_header m)) (an_gm_identity a) (an_quality a) (an_prio1 a) (an_prio2 a))
                     [] (ann_time_props (m_header m) a), o).
Proof. exact s1_update_exact. Qed.

(** While grandmaster (decision M1/M2) the instance advertises its own
    attributes with stepsRemoved 0; a changed local clock quality therefore
    shows after the next BMCA run. *)
Theorem C11_gm_view : forall b d dd,
  dd_slave_only (ds_default d) = false ->
  forall r, (r = RM1 dd \/ r = RM2 dd) ->
  exists b', set_recommended_state b r d =
             Ok (b', ds_with d 0 (mkPD (mkPI (dd_clock_identity dd) 0) (dd_clock_identity dd)
                                        (dd_quality dd) (dd_prio1 dd) (dd_prio2 dd))
                             [] (mkTP None 0 false false true 160)).
Proof. exact gm_view. Qed.

(** C11_emission_main: for every valid set-up and EVERY valid event list, every
    Announce the model emits carries exactly the data sets held at emission
    (grandmaster identity, quality, priorities, stepsRemoved, UTC offset, time
    source, leap / traceability flags): the emission conjunct of the oracle
    ok_C11 ([ok_C11_emission], which ok_C11 implies) holds on the model's own
    trace. *)
From SV Require Import Port.MainC11.
Theorem C11_emission_main : forall s es rel,
  setup_valid s -> Forall event_valid es ->
  exists i o, init s = Ok (i, o) /\ ok_C11_emission (mkCase s es rel (Some o) (run i es)) = true.
Proof. exact ok_C11_emission_model. Qed.
Theorem C11_oracle_implies_emission : forall c, ok_C11 c = true -> ok_C11_emission c = true.
Proof. exact ok_C11_implies_emission. Qed.

(** C11_main: for every valid set-up and EVERY valid event list the model's own
    trace satisfies the COMPLETE oracle ok_C11 - (a) every emitted Announce
    reflects the data sets; (b) an Announce from the parent received on the
    slave port replaces parentDS / currentDS / timePropertiesDS by its contents
    (stepsRemoved + 1) unless the path-trace rule (own identity in the path, or
    more than 128 entries) discards it, in which case nothing changes; (c) after
    a BMCA run that leaves no slave but some master port the instance shows the
    grandmaster view (stepsRemoved 0, parent = own attributes, free-running time
    properties).  (c) rests on the case analysis of a BMCA run: either every
    recommendation is M1 / M2 / P1 (own clock better than Ebest, or class <= 127)
    or the port whose Erbest is Ebest is recommended S1 and ends up slave. *)
From SV Require Import Port.MainC11b.
Theorem C11_main : forall s es rel,
  setup_valid s -> Forall event_valid es ->
  exists i o, init s = Ok (i, o) /\ ok_C11 (mkCase s es rel (Some o) (run i es)) = true.
Proof. exact ok_C11_model. Qed.

(** C11_full_main: the COMPLETE oracle of the check - clauses (a)-(c) and clause
    (d): a BMCA run that leaves the slave port slave of the same parent does not
    change stepsRemoved, parentDS or timePropertiesDS, judged while the sequence
    ids of that master on that port have moved forward by less than 2^15 in total -
    accepts the model's own trace for every valid set-up and every valid event
    list.  Clause (d) (Port/MainC11d.v) rests on model invariants proved for every
    reachable state: the stored Announces of a master are ordered by age and form
    a chain of accepted sequence ids (so the best message, taken out by a BMCA run,
    is always put back as the newest record), ages are never negative, and, while
    the ids move forward, the newest record of the parent is the Announce whose
    contents the data sets hold. *)
From SV Require Import Port.MainC11d.
Theorem C11_clause_d_main : forall s es rel,
  setup_valid s -> Forall event_valid es ->
  exists i o, init s = Ok (i, o) /\ ok_C11d (mkCase s es rel (Some o) (run i es)) = true.
Proof. exact ok_C11d_model. Qed.
Theorem C11_full_main : forall s es rel,
  setup_valid s -> Forall event_valid es ->
  exists i o, init s = Ok (i, o) /\ ok_C11_full (mkCase s es rel (Some o) (run i es)) = true.
Proof. exact ok_C11_full_model. Qed.

(** Observation F27 (not raised, DESIGN 14.3; outside the quantifier of C11, which
    ranges over Announce contents, not over sequence-id anomalies): when the
    parent's sequence ids restart, parentDS alternates between the new contents
    (after each Announce) and the old ones (after each BMCA run) until the old
    records have aged out.  Evaluated on the model. *)
From SV Require Import Port.F27Example.
Example C11_observation_F27_flipflop :
  f27_class_after f27_pre = Some 6 /\
  f27_class_after (f27_pre ++ [EvRecvGeneral 0 (f27_ann 5 7)]) = Some 7 /\
  f27_class_after (f27_pre ++ [EvRecvGeneral 0 (f27_ann 5 7); EvBmca]) = Some 6 /\
  f27_class_after (f27_pre ++ [EvRecvGeneral 0 (f27_ann 5 7); EvBmca; EvRecvGeneral 0 (f27_ann 6 7)]) = Some 7 /\
  f27_class_after (f27_pre ++ [EvRecvGeneral 0 (f27_ann 5 7); EvBmca; EvRecvGeneral 0 (f27_ann 6 7); EvBmca]) = Some 6.
Proof. exact f27_flipflop. Qed.
