(** C15 — Boundary clocks propagate TLVs faithfully and break path-trace loops. *)
From SV Require Import Port.OracleC15 Port.LemmasC15.

(** The announce TLV loop refines the FIFO specification for queues of ANY
    length and TLVs of any size: what is appended to the Announce is exactly
    [expected_fwd] (unmodified bytes, arrival order, each queue entry consumed
    at most once), and the call never panics (repaired F4). *)
Theorem C15_forward_refines_spec : forall fuel q margin parent path_on acc locks,
  exists locks',
    announce_tlv_loop fuel q margin parent path_on acc locks
    = Ok (acc ++ flat_map encode_tlv (expected_fwd fuel q margin parent path_on), locks').
Proof. exact tlv_loop_refines_spec. Qed.

(** Only TLVs sent by the current parent are forwarded, and with path trace on
    never a PATH_TRACE TLV. *)
Theorem C15_only_parent_tlvs : forall fuel q room parent path_on t,
  In t (expected_fwd fuel q room parent path_on) ->
  exists f, In f q /\ fw_tlv f = t /\ pi_eqb (fw_sender f) parent = true
            /\ (path_on = true -> (tlv_type t =? 8) = false).
Proof. exact expected_fwd_from_queue. Qed.

(** Forwarding never exceeds the room: the encoded TLVs take at most the
    remaining margin, so the frame stays within MAX_DATA_LEN. *)
Theorem C15_forward_fits : forall fuel q room parent path_on,
  0 <= room ->
  blen (flat_map encode_tlv (expected_fwd fuel q room parent path_on)) <= room.
Proof. intros. rewrite encode_tlvs_length. apply expected_fwd_fits. assumption. Qed.

(** An Announce from the parent whose path already contains the own identity is
    discarded without touching any data set. *)
Theorem C15_loop_discarded : forall p d ti m a st t,
  p_state p = PSlave st -> 0 <= an_steps_removed a < 255 ->
  pi_eqb (h_source (m_header m)) (pd_parent (ds_parent d)) = true ->
  ds_path_enable d = true ->
  find_tlv 8 (tlvs_of (m_suffix m)) = Some t ->
  existsb (fun ci => ci =? dd_clock_identity (ds_default d)) (path_of_value (tlv_value t)) = true ->
  (length (path_of_value (tlv_value t)) <= PATH_CAPACITY)%nat ->
  handle_announce p d ti m a = Ok (p, d, [rd_lock; wr_lock]).
Proof. exact loop_discarded. Qed.

(** C15_main: for every valid set-up and EVERY valid event list the COMPLETE
    oracle ok_C15 accepts the model's own trace: a master port's Announce carries
    exactly the path-trace TLV (own identity appended, when enabled and fitting)
    followed by the FIFO prefix of the offered TLVs that fits, the parent's only,
    PATH_TRACE consumed but not forwarded when path trace is on, and decodes with
    the library's own parser within the maximum size; a received Announce hands
    on all its propagating TLVs, unmodified, in order, tagged with the sender, or
    none; from the parent they are handed on unless the path-trace rule discards
    the message (then nothing changes), and the path is taken over; no other call
    (any handler, timer, BMCA) forwards a TLV. *)
From SV Require Import Port.MainC15.
Theorem C15_main : forall s es rel,
  setup_valid s -> Forall event_valid es ->
  exists i o, init s = Ok (i, o) /\ ok_C15 (mkCase s es rel (Some o) (run i es)) = true.
Proof. exact ok_C15_model. Qed.
