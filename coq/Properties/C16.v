(** C16 — Time arithmetic and wire time conversions are exact.
    Only statements closed by [exact]; proofs live in Time/TimeLemmas.v. *)
From SV Require Import Time.TimeCases Time.TimeLemmas.

(** Uniform statement: for EVERY operation and operand (unbounded Z bit
    patterns), outside the recorded finding F18 (log interval >= 66), the
    model's result satisfies the executable oracle written from the property
    text: exact wire round trip to 2^-16 ns on [0, 2^48 s), exact add/sub and
    difference over the PTP range with durations within +-2^63 ns, identity of
    interval->duration->interval on all 2^64 patterns, floor rounding of
    duration->interval, log intervals = exactly 2^n s. *)
Theorem C16_main : forall o : top,
  kf_C16 (o, false, to_opt (run_top o)) = 0 -> ok_C16 o (to_opt (run_top o)) = true.
Proof. exact C16_all. Qed.

Theorem C16_wire_roundtrip : forall t,
  in_ptp t = true ->
  exists s n t',
    time_to_wire t = Ok (s, n) /\ time_from_wire s n = Ok t' /\
    0 <= s < 2 ^ 48 /\ 0 <= n < NS_PER_S /\ 0 <= time_subnano t < 2 ^ 16 /\
    t' = (s * NS_PER_S + n) * FRAC /\
    t' + time_subnano t * 2 ^ 16 = t - t mod 2 ^ 16.
Proof. exact wire_roundtrip. Qed.

Theorem C16_add_sub : forall t d,
  in_ptp t = true -> in_dur d = true -> 0 <= t + d ->
  exists t1, time_add_dur t d = Ok t1 /\ t1 = t + d /\ time_sub_dur t1 d = Ok t.
Proof. exact add_sub_exact. Qed.

(** No silent wrap-around: Time +/- Duration always returns a value inside the
    representable range (it saturates). *)
Theorem C16_add_never_wraps : forall t d,
  time_ok t = true -> exists r, time_add_dur t d = Ok r /\ time_ok r = true.
Proof. exact time_add_dur_total. Qed.

Theorem C16_diff : forall a b,
  in_ptp a = true -> in_ptp b = true -> time_diff a b = Ok (a - b).
Proof. exact diff_exact. Qed.

Theorem C16_interval_roundtrip : forall i, ti_ok i = true -> dur_to_ti (ti_to_dur i) = i.
Proof. exact ti_roundtrip. Qed.

Theorem C16_duration_to_interval_floor : forall d,
  - 2 ^ 47 * FRAC <= d < 2 ^ 47 * FRAC ->
  dur_to_ti d * 2 ^ 16 <= d < (dur_to_ti d + 1) * 2 ^ 16 /\ ti_ok (dur_to_ti d) = true.
Proof. exact dur_to_ti_floor. Qed.

Theorem C16_log_interval : forall n,
  in_i 8 n = true -> n < 66 -> ok_C16 (LogInt n) (to_opt (run_top (LogInt n))) = true.
Proof. exact log_interval_exact. Qed.

(** F18 (known finding): the full statement "for all i8" is refuted. *)
Theorem C16_log_interval_refuted : dur_from_log_interval 66 = Panic site_to_fixed.
Proof. exact log_interval_66_refuted. Qed.

(** Non-vacuity: a concrete non-trivial instance of each hypothesis. *)
Example C16_nonvacuous :
  in_ptp (1700000000 * NS_PER_S * FRAC + 123456789 * FRAC + 987654321) = true /\
  in_dur (- (5 * FRAC + 77)) = true /\
  to_opt (run_top (WireRT (1700000000 * NS_PER_S * FRAC + 123456789 * FRAC + 987654321)))
    = Some [1700000000; 123456789; 15070; (1700000000 * NS_PER_S + 123456789) * FRAC].
Proof. vm_compute. repeat split; reflexivity. Qed.
