(** C14 — Peer-delay measurement is exact and guarded against multiple responders. *)
From SV Require Import Time.TimeCases Port.OracleC14 Port.LemmasC09 Port.LemmasC14.

Theorem C14_peer_delay_exact : forall p id r t1 t2 t3 t4,
  p_peer p = PDMeasuring id (Some r) (Some t1) (Some t2) (Some t3) (Some t4) ->
  small_time t1 -> small_time t2 -> small_time t3 -> small_time t4 ->
  exists p' m o,
    extract_measurement p = Ok (p', Some m, o) /\
    me_event_time m = t4 /\
    me_peer_delay m = Some (Z.quot ((t4 - t1) - (t3 - t2)) 2) /\
    me_offset m = None /\ me_delay m = None /\ me_raw_sync m = None /\ me_raw_delay m = None /\
    p_peer p' = PDPost id r /\
    p_state p' = (if is_faulty (p_state p) then PListening else p_state p).
Proof. exact extract_peer_exact. Qed.

Theorem C14_second_responder_faulty : forall p d h w recv_time id r a b c e,
  p_peer p = PDMeasuring id (Some r) a b c e ->
  h_seq h = id -> pi_eqb r (h_source h) = false ->
  exists o, handle_peer_delay_response p d h w (p_identity p) recv_time
            = Ok (port_with_state (port_with_peer p PDEmpty) PFaulty, d, o)
            /\ forall m, ~ In (OFilterMeas m) o.
Proof. exact second_responder_faulty. Qed.

(** ... and the contested exchange is dead: with the exchange dropped, neither
    a response, nor a follow-up, nor a (late) transmit timestamp produces a
    measurement or changes the port, so the faulty state can only be left
    through a later exchange (repaired F25). *)
Theorem C14_contested_exchange_is_dead : forall p d,
  p_peer p = PDEmpty ->
  (forall h w rq ts, handle_peer_delay_response p d h w rq ts = Ok (p, d, [])) /\
  (forall h w rq, handle_peer_delay_follow_up p d h w rq = Ok (p, d, [])) /\
  (forall id ts, handle_pdelay_timestamp p d id ts = Ok (p, d, [])).
Proof. exact contested_exchange_dead. Qed.

Theorem C14_second_responder_after_measurement_faulty : forall p d h w recv_time id r,
  p_peer p = PDPost id r ->
  h_seq h = id -> pi_eqb r (h_source h) = false ->
  exists o, handle_peer_delay_response p d h w (p_identity p) recv_time
            = Ok (port_with_state p PFaulty, d, o)
            /\ forall m, ~ In (OFilterMeas m) o.
Proof. exact second_responder_after_measurement_faulty. Qed.

Theorem C14_faulty_no_master_role : forall p d q ts id h,
  p_state p = PFaulty ->
  send_sync p d = Ok (p, d, []) /\ send_announce p d q = Ok (p, d, []) /\
  handle_sync_timestamp p d id ts = Ok (p, d, []) /\ handle_delay_req p d h ts = Ok (p, d, []).
Proof. exact faulty_no_master_role. Qed.

Theorem C14_faulty_survives_receipt_timeout : forall p d,
  p_state p = PFaulty ->
  exists p' o, handle_announce_receipt_timer p d = Ok (p', d, o) /\ p_state p' = PFaulty.
Proof. exact faulty_survives_receipt_timeout. Qed.

(** C14_main: for every valid set-up and EVERY valid event list the COMPLETE
    oracle ok_C14 accepts the model's own trace: every peer-delay measurement is
    exactly ((t4-t1)-(t3-t2))/2 of one Pdelay_Req, one response and (two-step)
    the follow-up of the same responder, corrections applied; a response or
    follow-up from a second identity makes the port faulty and yields no
    measurement, a contested exchange never yields one afterwards; a faulty port
    sends no master-role frame and makes no Sync/Delay measurement; it leaves the
    faulty state only into LISTENING through a clean exchange, and enters it only
    through a conflicting response.  The proof couples PeerDelayState with the
    oracle's record of the current request (MainC14.cp14).  The theorem is FALSE
    of the tree before the repair of F26 (a faulty port was made passive by the
    multiport rule); it was found by this proof attempt. *)
From SV Require Import Port.MainC14.
Theorem C14_main : forall s es rel,
  setup_valid s -> Forall event_valid es ->
  exists i o, init s = Ok (i, o) /\ ok_C14 (mkCase s es rel (Some o) (run i es)) = true.
Proof. exact ok_C14_model. Qed.
