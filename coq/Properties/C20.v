(** C20 — The metrics exporter cannot be wedged by its clients.
    Only statements closed by [exact]; proofs live in Exporter/AcceptLemmas.v.
    Model: Exporter/AcceptLoop.v ([step] = exporter.rs as it is, [step_fixed] =
    the repaired loop; [run] uses [step_impl], the one tied to the binary). *)
From SV Require Import Exporter.AcceptCases Exporter.AcceptLemmas.

(** Uniform statement for the model tied to the real binary: for EVERY finite
    list of connection scripts (any chunking, any client and observation-socket
    behaviour), unless the run shows exactly one of the recorded failure patterns
    (F19: kf 1 premature close -> spin, kf 2 oversize -> spin, kf 3 reset -> exit),
    every client was treated as the property demands and the exporter is alive
    and idle at the end. *)
Theorem C20_main : forall items : list item,
  let o := obs_of items (run items) in
  kf_C20 (items, o) = 0 -> ok_C20 items o = true.
Proof. exact C20_impl_all. Qed.

(** [serves_next] for today's loop under the guard [benign] (every connection
    delivers the header terminator within 2048 bytes before EOF; no I/O error):
    for lists of ANY length the follow-up request is being answered (200, or 500
    when the handler fails) within [bound] steps, and the process never exits. *)
Theorem C20_serves_next : forall pre last,
  benign pre = true -> wellformed_get last = true ->
  let items := pre ++ [Conn last] in
  (exists n, (n <= bound items)%nat /\
     iter n step (init items)
     = mkCfg (Responding (status_of (c_hnd last)) WOk) [] (map expected_item pre))
  /\ (forall m, st (iter m step (init items)) <> Exited)
  /\ run_with step items
     = (map expected_item pre ++ [OStatus (status_of (c_hnd last))], FIdle).
Proof. exact serves_next. Qed.

(** The three refutations of the unguarded statement on today's code, for ALL n. *)
Theorem C20_eof_spins : forall n h w g rest,
  iter (S n) step (init (Conn (mkConn [REof] h w g) :: rest)) = rd_cfg [REof] h w [] rest [].
Proof. exact eof_spins. Qed.

Theorem C20_eof_spins_general : forall c p lg,
  kind_of c = KEof ->
  exists T, st T <> Accepting /\ pending T = p /\ log T = lg /\
    forall n, (1 + length (c_reads c) <= n)%nat -> iter n step (acc_cfg (Conn c :: p) lg) = T.
Proof. exact eof_spins_partial. Qed.

Theorem C20_oversize_spins : forall c p lg,
  kind_of c = KOversize ->
  exists T, st T <> Accepting /\ pending T = p /\ log T = lg /\
    forall n, (1 + length (c_reads c) <= n)%nat -> iter n step (acc_cfg (Conn c :: p) lg) = T.
Proof. exact oversize_spins. Qed.

Theorem C20_oversize_spins_state : forall n rs h w buf p lg,
  has_term buf = false -> (BUFn <= length buf)%nat ->
  iter n step (rd_cfg rs h w buf p lg) = rd_cfg rs h w buf p lg.
Proof. exact oversize_spins_state. Qed.

Theorem C20_reset_exits : forall c p lg,
  kind_of c = KReset \/ kind_of c = KGetRst ->
  forall n, (2 + length (c_reads c) <= n)%nat ->
    iter n step (acc_cfg (Conn c :: p) lg) = mkCfg Exited p lg.
Proof. exact reset_exits. Qed.

Theorem C20_serves_next_refuted :
  run_with step [Conn (mkConn [REof] HOk WOk false); Conn good_get] = ([ONone; ONone], FSpin)
  /\ run_with step [Conn (mkConn [RChunk 65 (repeat 65 2999)] HOk WOk false); Conn good_get]
     = ([ONone; ONone], FSpin)
  /\ run_with step [Conn (mkConn [RChunk 71 [69]; RErr] HOk WOk true); Conn good_get]
     = ([ONone; ONone], FExit).
Proof.
  exact (conj serves_next_refuted_eof (conj serves_next_refuted_oversize serves_next_refuted_reset)).
Qed.

(** THE REPAIRED LOOP: unrestricted [serves_next] and the oracle without any
    known-finding exemption, for every input. *)
Theorem C20_serves_next_fixed : forall pre last,
  no_accept_err pre = true -> wellformed_get last = true ->
  let items := pre ++ [Conn last] in
  (exists n, (n <= bound items)%nat /\
     iter n step_fixed (init items)
     = mkCfg (Responding (status_of (c_hnd last)) WOk) [] (map expected_fixed_item pre))
  /\ (forall m, st (iter m step_fixed (init items)) <> Exited)
  /\ run_with step_fixed items
     = (map expected_fixed_item pre ++ [OStatus (status_of (c_hnd last))], FIdle).
Proof. exact serves_next_fixed. Qed.

Theorem C20_fixed_main : forall items,
  ok_C20 items (obs_of items (run_with step_fixed items)) = true.
Proof. exact C20_fixed_all. Qed.

(** Non-vacuity: a benign two-connection prefix (GET with failing handler, POST)
    followed by a well-formed GET satisfies the hypotheses of [C20_serves_next]
    and is served; the same prefix with hostile clients is served by the
    repaired loop. *)
Example C20_nonvacuous :
  benign [Conn (mkConn (mk_chunk GET_BYTES []) HErr WOk false);
          Conn (mkConn [RChunk 80 [79; 83; 84; 32; 47; 32; 72; 13; 10]; RChunk 13 [10]] HOk WOk false)] = true
  /\ wellformed_get good_get = true
  /\ run_with step [Conn (mkConn (mk_chunk GET_BYTES []) HErr WOk false);
          Conn (mkConn [RChunk 80 [79; 83; 84; 32; 47; 32; 72; 13; 10]; RChunk 13 [10]] HOk WOk false);
          Conn good_get] = ([OStatus 500; ODropped; OStatus 200], FIdle)
  /\ run_with step_fixed [Conn (mkConn [REof] HOk WOk false);
          Conn (mkConn [RChunk 65 (repeat 65 2999)] HOk WOk false);
          Conn (mkConn [RChunk 71 [69]; RErr] HOk WOk true);
          Conn good_get] = ([ODropped; ODropped; ODropped; OStatus 200], FIdle).
Proof. vm_compute. repeat split; reflexivity. Qed.
