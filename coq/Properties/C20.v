(** C20 — The metrics exporter cannot be wedged by its clients.
    Only statements closed by [exact]; proofs live in Exporter/AcceptLemmas.v.
    Model: Exporter/AcceptLoop.v.  [step_impl] = [step_fixed] = the accept loop of
    exporter.rs as it is since the F19 repair (commit b7381c9), INCLUDING the
    response buffer that lives across requests; it is the model tied to the real
    binary ([run]).  Scripts carry, per connection, what the reads return, the
    handler's outcome with the bytes it appended to the buffer, and the outcome
    of write_all - so a write error is possible on the 200 AND on the 500 path.  [step_before_fix] is the loop before that
    commit, kept for the historic refutations at the end of this file. *)
From SV Require Import Exporter.AcceptCases Exporter.AcceptLemmas.

(** Uniform statement, NO exemption: for EVERY finite list of connection scripts
    (any chunking; premature close, oversize, non-GET, reset, write error; any
    observation-socket outcome) every client is treated as the property demands
    (well-formed GET: 200, or 500 when the handler fails; everybody else: the
    connection is closed) and the exporter is alive and idle at the end. *)
Theorem C20_main : forall items : list item,
  ok_C20 items (obs_of items (run items)) = true.
Proof. exact C20_impl_all. Qed.

(** Unrestricted [serves_next]: after ANY finite list of connection scripts a
    well-formed request is being answered (200, or 500 when the handler fails)
    within [bound] steps, from a buffer that holds exactly what the handler
    appended for THIS request; the process never exits; the client receives
    [reply_bytes (c_hnd last)] whatever happened before. *)
Theorem C20_serves_next : forall pre last,
  no_accept_err pre = true -> wellformed_get last = true ->
  let items := pre ++ [Conn last] in
  (exists n, (n <= bound items)%nat /\
     iter n step_impl (init items)
     = mkCfg (Responding (status_of (c_hnd last)) WOk) [] (map expected_fixed_item pre)
             (hnd_out (c_hnd last)) (expected_wire pre))
  /\ (forall m, st (iter m step_impl (init items)) <> Exited)
  /\ run items = (map expected_fixed_item pre ++ [OStatus (status_of (c_hnd last))], FIdle)
  /\ run_wire items = expected_wire pre ++ [reply_bytes (c_hnd last)].
Proof. exact serves_next_impl. Qed.

(** A client that resets while its response is pending makes write_all fail -
    on the 200 path and on the 500 path alike; neither takes the exporter down:
    the next well-formed request is answered (instance of the theorem above,
    spelled out because it is the combination of TWO faults). *)
Theorem C20_write_error_on_500_survived : forall o e last,
  wellformed_get last = true ->
  run [Conn (mkConn (mk_chunk GET_BYTES []) (HErr e) WErr true);
       Conn (mkConn (mk_chunk GET_BYTES []) (HOk o) WErr true); Conn last]
  = ([ODropped; ODropped; OStatus (status_of (c_hnd last))], FIdle).
Proof. exact write_errors_survived. Qed.

(** The only way out of [main] that is left is a failing listener. *)
Theorem C20_accept_error_exits : forall n p lg rb wr,
  iter (S n) step_impl (accB (AcceptErr :: p) lg rb wr) = mkCfg Exited p lg rb wr.
Proof. exact accept_error_exits_impl. Qed.

(** Non-vacuity: hostile clients (premature close, 3000 bytes without terminator,
    reset, failing handler, write error on the 200 path, failing handler AND write
    error) followed by a well-formed GET satisfy the hypotheses of
    [C20_serves_next] and the run is as stated. *)
Example C20_nonvacuous :
  no_accept_err hostile_pre = true
  /\ wellformed_get good_get = true
  /\ run (hostile_pre ++ [Conn good_get])
     = ([ODropped; ODropped; ODropped; OStatus 500; ODropped; ODropped; OStatus 200], FIdle)
  /\ run_wire (hostile_pre ++ [Conn good_get]) = [ERR_BYTES; [50; 48; 48]].
Proof. vm_compute. repeat split; reflexivity. Qed.

(** * ---- HISTORIC: the loop before the F19 repair ([step_before_fix]) ----
    Why the repair was needed: the three refutations, for ALL n, and the guarded
    statement that was the best one could prove of that loop.  Control flow
    only: [acc_cfg] / [rd_cfg] are configurations with the empty buffer and the
    empty wire, which that loop never touches. *)

Theorem C20_before_fix_eof_spins : forall n h w g rest,
  iter (S n) step_before_fix (init (Conn (mkConn [REof] h w g) :: rest)) = rd_cfg [REof] h w [] rest [].
Proof. exact eof_spins. Qed.

Theorem C20_before_fix_eof_spins_general : forall c p lg,
  kind_of c = KEof ->
  exists T, st T <> Accepting /\ pending T = p /\ log T = lg /\
    forall n, (1 + length (c_reads c) <= n)%nat -> iter n step_before_fix (acc_cfg (Conn c :: p) lg) = T.
Proof. exact eof_spins_partial. Qed.

Theorem C20_before_fix_oversize_spins : forall c p lg,
  kind_of c = KOversize ->
  exists T, st T <> Accepting /\ pending T = p /\ log T = lg /\
    forall n, (1 + length (c_reads c) <= n)%nat -> iter n step_before_fix (acc_cfg (Conn c :: p) lg) = T.
Proof. exact oversize_spins. Qed.

Theorem C20_before_fix_reset_exits : forall c p lg,
  kind_of c = KReset \/ kind_of c = KGetRst ->
  forall n, (2 + length (c_reads c) <= n)%nat ->
    iter n step_before_fix (acc_cfg (Conn c :: p) lg) = mkCfg Exited p lg [] [].
Proof. exact reset_exits. Qed.

Theorem C20_before_fix_refuted :
  run_with step_before_fix [Conn (mkConn [REof] (HOk []) WOk false); Conn good_get] = ([ONone; ONone], FSpin)
  /\ run_with step_before_fix [Conn (mkConn [RChunk 65 (repeat 65 2999)] (HOk []) WOk false); Conn good_get]
     = ([ONone; ONone], FSpin)
  /\ run_with step_before_fix [Conn (mkConn [RChunk 71 [69]; RErr] (HOk []) WOk true); Conn good_get]
     = ([ONone; ONone], FExit).
Proof.
  exact (conj serves_next_refuted_eof (conj serves_next_refuted_oversize serves_next_refuted_reset)).
Qed.

Theorem C20_before_fix_guarded : forall items,
  let o := obs_of items (run_with step_before_fix items) in
  kf_before_fix (items, o) = 0 -> ok_C20 items o = true.
Proof. exact before_fix_all. Qed.
