(** C10 — Master-side messages carry exact timestamps and consistent identifiers. *)
From SV Require Import Time.TimeCases Port.OracleC10 Port.LemmasC10.

(** Sequence numbers of each message type increase by one modulo 2^16, for
    histories of any length (65536+ emissions included): n applications of the
    generator from x give (x + n) mod 2^16. *)
Theorem C10_seq_ids : forall n x,
  0 <= x < 65536 -> Nat.iter n gen16 x = (x + Z.of_nat n) mod 65536.
Proof. exact gen16_iter. Qed.

(** Follow_Up: precise origin timestamp + correction = reported transmit
    timestamp to 2^-16 ns, for every timestamp in [0, 2^63 ns). *)
Theorem C10_follow_up_exact : forall d src id t minor,
  in_range_ts t = true ->
  exists w, msg_follow_up d src id t minor =
              Ok (mkMsg (with_correction (base_header d src id minor) (time_subnano t)) (BFollowUp w) [])
            /\ ts_bits w + time_subnano t * 2 ^ 16 = t - t mod 2 ^ 16
            /\ 0 <= time_subnano t < 2 ^ 16.
Proof. exact follow_up_exact. Qed.

(** Delay_Resp echoes requester and sequence number (the header is the request's
    with source, correction and log interval replaced); receive timestamp is the
    receive time to the nanosecond and the correction is the request's plus the
    sub-nanosecond part, saturating. *)
Theorem C10_delay_resp_exact : forall req src log t,
  in_range_ts t = true ->
  exists w, msg_delay_resp req src log t =
              Ok (mkMsg (with_log_interval
                           (with_correction (with_source (with_two_step req false) src)
                              (sat_i64 (h_correction req + time_subnano t))) log)
                        (BDelayResp w (h_source req)) [])
            /\ ts_bits w = t - t mod FRAC.
Proof. exact delay_resp_exact. Qed.

Theorem C10_pdelay_resp_exact : forall d src req t minor,
  in_range_ts t = true ->
  exists w, msg_pdelay_resp d src req t minor =
              Ok (mkMsg (with_correction (with_two_step (base_header d src (h_seq req) minor) true)
                                         (h_correction req))
                        (BPDelayResp w (h_source req)) [])
            /\ ts_bits w = t - t mod FRAC.
Proof. exact pdelay_resp_exact. Qed.

Theorem C10_pdelay_resp_follow_up_exact : forall d src rq id t minor,
  in_range_ts t = true ->
  exists w, msg_pdelay_resp_follow_up d src rq id t minor =
              Ok (mkMsg (base_header d src id minor) (BPDelayRespFollowUp w rq) [])
            /\ ts_bits w = t - t mod FRAC.
Proof. exact pdelay_resp_follow_up_exact. Qed.

(** C10_frames_main: for every valid set-up and EVERY valid event list, every
    frame the model emits decodes under the modelled parser to a message that
    carries the emitting port's identity and the instance's domain and sdoId,
    has exactly its declared size (at most the 1024-octet packet buffer) and goes
    out on the channel (event / general) of its message type: the frame conjunct
    of the oracle ok_C10 ([ok_C10_frames], which ok_C10 implies) holds on the
    model's own trace.  The remaining conjuncts of ok_C10 (sequence ids, exactly
    one response with exact timestamps) are proved per handler above and judged
    on traces. *)
From SV Require Import Port.MainC10.
Theorem C10_frames_main : forall s es rel,
  setup_valid s -> Forall event_valid es ->
  exists i o, init s = Ok (i, o) /\ ok_C10_frames (mkCase s es rel (Some o) (run i es)) = true.
Proof. exact ok_C10_frames_model. Qed.
Theorem C10_oracle_implies_frames : forall c, ok_C10 c = true -> ok_C10_frames c = true.
Proof. exact ok_C10_implies_frames. Qed.

(** C10_seq_main: for every valid set-up and EVERY valid event list - of any
    length, so across any number of wrap-arounds - the sequence ids of the Sync,
    Delay_Req, Pdelay_Req and Announce messages each port emits increase by one
    modulo 2^16 from one emission to the next: the sequence conjunct of the
    oracle ok_C10 ([ok_C10_seq], the very [seq_check] that judges implementation
    traces, which ok_C10 implies) holds on the model's own trace. *)
From SV Require Import Port.SeqMain.
Theorem C10_seq_main : forall s es rel,
  setup_valid s -> Forall event_valid es ->
  exists i o, init s = Ok (i, o) /\ ok_C10_seq (mkCase s es rel (Some o) (run i es)) = true.
Proof. exact ok_C10_seq_model. Qed.
Theorem C10_oracle_implies_seq : forall c, ok_C10 c = true -> ok_C10_seq c = true.
Proof. exact ok_C10_implies_seq. Qed.

(** C10_main: for every valid set-up and EVERY valid event list the COMPLETE
    oracle ok_C10 accepts the model's own trace: besides the frame and sequence
    conjuncts above, every call emits at most one event frame and the responses
    carry exactly what the property asks for - the Follow_Up of a Sync timestamp
    has the Sync's sequence id and preciseOriginTimestamp + correctionField equal
    to the reported transmit time to 2^-16 ns (correction in [0, 2^16)); the
    Delay_Resp echoes requester and sequence id, its receiveTimestamp is the
    receive time to the nanosecond and its correction the request's plus the
    sub-nanosecond part, saturating; Pdelay_Resp and Pdelay_Resp_Follow_Up echo
    requester and sequence id with exact timestamps and the transmit timestamp of
    the response is requested under the same identifiers; no other call emits a
    response. *)
From SV Require Import Port.MainC10b.
Theorem C10_main : forall s es rel,
  setup_valid s -> Forall event_valid es ->
  exists i o, init s = Ok (i, o) /\ ok_C10 (mkCase s es rel (Some o) (run i es)) = true.
Proof. exact ok_C10_model. Qed.
