(** C19 — Observability data reaches the metrics endpoint unaltered.
    Only statements closed by [exact]; proofs live in Obs/*Lemmas.v. *)
From Coq Require Import Ascii String.
From SV Require Import Obs.MetricSpec Obs.ObsCases Obs.TableLemmas Obs.JsonLemmas.

(** * The metric table translated from format.rs (regenerated on every run) *)

(** Every row outside the two recorded defect classes is right: the unit in the
    metric's name is the unit of every value published under it, and a help
    text promising a truth value goes with the true-as-1 encoding. *)
Theorem C19_table_ok : forall m,
  In m metric_table -> row_kf m = 0 -> row_ok m = true.
Proof. exact table_ok_except_known. Qed.

Theorem C19_table_sources_classified : forall m src,
  In m metric_table -> In src (m_src m) -> src_unit src <> None.
Proof. exact table_sources_classified. Qed.

(** Today's table: the unrestricted statement is refuted by exactly these rows
    (class 2 = F11, class 1 = F10). *)
Theorem C19_table_refuted :
  defective_rows =
    [("offset_from_master", 2); ("mean_delay", 2); ("time_traceable", 1);
     ("frequency_traceable", 1); ("ptp_timescale", 1); ("path_trace_enable", 1)]%string.
Proof. exact table_all_rows_ok_refuted. Qed.

Theorem C19_format_bool_refuted : bool_enc_true = 0 /\ bool_enc_false = 1.
Proof. exact format_bool_refuted. Qed.

(** * The JSON hop (observer.rs write_json -> exporter.rs read_json) *)

(** The compact JSON text of every well-formed value parses back to that value:
    objects and arrays of any length and nesting, integers of ANY size and sign
    (i128 Duration bits included), booleans, null, float tokens, escape-free strings. *)
Theorem C19_parse_print : forall v, wf_json v = true -> parse (print v) = Some v.
Proof. exact parse_print. Qed.

(** Serialize then Deserialize is the identity on every well-formed state (every
    field within the range of its Rust type, sdo_id <= 0xFFF, enum variants from
    the tables translated from the Rust sources). *)
Theorem C19_of_to_json : forall s, wf_state s = true -> of_json (to_json s) = Some s.
Proof. exact of_to_json. Qed.

(** json_roundtrip: for ALL well-formed states (path trace lists and port lists of
    any length) the bytes the daemon writes denote, after parsing and
    deserialising, exactly the state that was serialised. *)
Theorem C19_json_roundtrip : forall s,
  wf_state s = true ->
  match parse (print (to_json s)) with Some v => of_json v | None => None end = Some s.
Proof. exact json_roundtrip. Qed.
