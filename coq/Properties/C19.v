(** C19 — Observability data reaches the metrics endpoint unaltered.
    Only statements closed by [exact]; proofs live in Obs/*Lemmas.v. *)
From Coq Require Import Ascii String.
From SV Require Import Obs.MetricSpec Obs.ObsCases Obs.TableLemmas.

(** * The metric table translated from format.rs (regenerated on every run) *)

(** Every row outside the two recorded defect classes is right: the unit in the
    metric's name is the unit of every value published under it, and a help
    text promising a truth value goes with the true-as-1 encoding. *)
Theorem C19_table_ok : forall m,
  In m metric_table -> row_kf m = 0 -> row_ok m = true.
Proof. exact table_ok_except_known. Qed.

Theorem C19_table_sources_classified : forall m src,
  In m metric_table -> In src (m_src m) -> src_unit src <> None.
Proof. exact table_sources_classified. Qed.

(** Today's table: the unrestricted statement is refuted by exactly these rows
    (class 2 = F11, class 1 = F10). *)
Theorem C19_table_refuted :
  defective_rows =
    [("offset_from_master", 2); ("mean_delay", 2); ("time_traceable", 1);
     ("frequency_traceable", 1); ("ptp_timescale", 1); ("path_trace_enable", 1)]%string.
Proof. exact table_all_rows_ok_refuted. Qed.

Theorem C19_format_bool_refuted : bool_enc_true = 0 /\ bool_enc_false = 1.
Proof. exact format_bool_refuted. Qed.
