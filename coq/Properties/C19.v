(** C19 — Observability data reaches the metrics endpoint unaltered.
    Only statements closed by [exact]; proofs live in Obs/*Lemmas.v. *)
From Coq Require Import Ascii String.
From SV Require Exporter.AcceptLemmas.
From SV Require Import Obs.MetricSpec Obs.ObsCases Obs.TableLemmas Obs.JsonLemmas Obs.PromLemmas.
Module AL := SV.Exporter.AcceptLoop.
Module AC := SV.Exporter.AcceptCases.
Module AP := SV.Exporter.AcceptLemmas.

(** * The metric table translated from format.rs (regenerated on every run) *)

(** EVERY row is right, no exemption: the unit in the metric's name is the unit
    of every value published under it, and a help text promising a truth value
    goes with the true-as-1 encoding. *)
Theorem C19_table_ok : forall m, In m metric_table -> row_ok m = true.
Proof. exact table_ok. Qed.

Theorem C19_format_bool_ok : bool_enc_true = 1 /\ bool_enc_false = 0.
Proof. exact format_bool_ok. Qed.

Theorem C19_table_sources_classified : forall m src,
  In m metric_table -> In src (m_src m) -> src_unit src <> None.
Proof. exact table_sources_classified. Qed.

(** * The JSON hop (observer.rs write_json -> exporter.rs read_json) *)

(** The compact JSON text of every well-formed value parses back to that value:
    objects and arrays of any length and nesting, integers of ANY size and sign
    (i128 Duration bits included), booleans, null, float tokens, escape-free strings. *)
Theorem C19_parse_print : forall v, wf_json v = true -> parse (print v) = Some v.
Proof. exact parse_print. Qed.

(** Serialize then Deserialize is the identity on every well-formed state (every
    field within the range of its Rust type, sdo_id <= 0xFFF, enum variants from
    the tables translated from the Rust sources). *)
Theorem C19_of_to_json : forall s, wf_state s = true -> of_json (to_json s) = Some s.
Proof. exact of_to_json. Qed.

(** json_roundtrip: for ALL well-formed states (path trace lists and port lists of
    any length) the bytes the daemon writes denote, after parsing and
    deserialising, exactly the state that was serialised. *)
Theorem C19_json_roundtrip : forall s,
  wf_state s = true ->
  match parse (print (to_json s)) with Some v => of_json v | None => None end = Some s.
Proof. exact json_roundtrip. Qed.

(** * Prometheus exposition text and HTTP framing (format.rs) *)

(** render_parses: for EVERY state and all float tokens that are tokens
    (non-empty, no space, no newline - true of every f64 [Display]), the body
    the model renders parses, line by line, to exactly the HELP / TYPE / UNIT
    lines of the served families and one sample (name, labels with the escaping
    undone, value token) per rendered measurement, closed by "# EOF". *)
Theorem C19_render_parses : forall s ft b,
  toks_ok ft = true -> body_of metric_table s ft = Some b ->
  exists served, body_struct metric_table s ft = Some served
                 /\ parse_expo b = Some (struct_elines served).
Proof. exact render_parses. Qed.

(** Label values survive the text format whatever characters they contain. *)
Theorem C19_label_escaping : forall v rest,
  parse_lval (escape_label v ++ dq :: rest) = Some (v, rest).
Proof. exact parse_lval_escape. Qed.

(** The response head parses and Content-Length is the decimal length of the
    body, for EVERY body. *)
Theorem C19_content_length_ok : forall b,
  parse_http (http_of b) =
    Some (mkHttp (s2c "HTTP/1.1 200 OK")
                 [(s2c "content-type", s2c "text/plain");
                  (s2c "content-length", print_int (Z.of_nat (length b)))] b).
Proof. exact content_length_ok. Qed.

(** * The response buffer lives across requests (exporter.rs [main])

    [format_response] APPENDS to a String that is declared outside the accept
    loop; the model of that loop (Exporter/AcceptLoop.v, [step_impl]) carries it
    as state.  A connection script names what its handler call appended
    ([HOk out]: the response formatted for the observation JSON served for THAT
    request - by the byte-exact tie of this property [out] is [respond s ft] of
    Obs/Prom.v).  The theorems say that what a client receives is a function of
    its own request alone, after ANY history. *)

(** Everything that reaches any client, for EVERY list of connection scripts
    (premature closes, oversize, resets before and after the request was read,
    failing handlers, failing writes): one byte string per well-formed GET whose
    client is still there - [out] of its own handler call (200) or the constant
    500 response - and nothing else. *)
Theorem C19_wire_fresh : forall items,
  AC.no_accept_err items = true -> AL.run_wire items = AC.expected_wire items.
Proof. exact AP.wire_fresh_impl. Qed.

(** No reply contains bytes of an earlier reply: two arbitrary histories give the
    same bytes for the same final request, namely its own handler's output. *)
Theorem C19_reply_is_own_observation : forall pre pre' last,
  AC.no_accept_err pre = true -> AC.no_accept_err pre' = true -> AC.wellformed_get last = true ->
  List.last (AL.run_wire (pre ++ [AL.Conn last])) [] = AC.reply_bytes (AL.c_hnd last)
  /\ List.last (AL.run_wire (pre' ++ [AL.Conn last])) [] = AC.reply_bytes (AL.c_hnd last).
Proof. exact AP.reply_independent_of_history_impl. Qed.

(** The statement is sensitive to where the buffer is cleared: the loop that
    clears "after a successful write" instead of "before the handler call"
    (never the code of /repo) answers the request after a client reset with the
    STALE response followed by the new one, for ALL handler outputs - with the
    same status codes and the same final state. *)
Theorem C19_clear_after_write_refuted : forall o1 o2,
  AL.run_wire_with AL.step_clear_after_write (AP.reset_then_get o1 o2) = [o1 ++ o2]
  /\ AL.run_wire_with AL.step_fixed (AP.reset_then_get o1 o2) = [o2]
  /\ AC.expected_wire (AP.reset_then_get o1 o2) = [o2]
  /\ AL.run_with AL.step_clear_after_write (AP.reset_then_get o1 o2)
     = AL.run_with AL.step_fixed (AP.reset_then_get o1 o2).
Proof. exact AP.clear_after_write_refuted. Qed.

(** Non-vacuity: a slave state with a Duration whose bits exceed 64 bits, a
    path trace, a P2P port and an absent UTC offset is well formed, its tokens
    are tokens, it renders, its JSON text round-trips, and the oracle accepts the rendered
    response (no finding). *)
Example C19_nonvacuous :
  wf_state ex_state = true /\ toks_ok ex_toks = true
  /\ (match render ex_state ex_toks with
      | Some r => match parse_http r with
                  | Some h => match parse_expo (h_body h) with Some ls => (26 <=? length ls)%nat | None => false end
                  | None => false end
      | None => false end) = true
  /\ match parse (print (to_json ex_state)) with Some v => of_json v | None => None end = Some ex_state
  /\ (match respond ex_state ex_toks with
      | Some r => filter (fun x => negb (x =? -1))
                         (response_findings ex_state (print (to_json ex_state)) r)
      | None => [0] end) = [].
Proof. vm_compute. repeat split; reflexivity. Qed.
