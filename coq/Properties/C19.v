(** C19 — Observability data reaches the metrics endpoint unaltered.
    Only statements closed by [exact]; proofs live in Obs/*Lemmas.v. *)
From Coq Require Import Ascii String.
From SV Require Import Obs.MetricSpec Obs.ObsCases Obs.TableLemmas Obs.JsonLemmas Obs.PromLemmas.

(** * The metric table translated from format.rs (regenerated on every run) *)

(** EVERY row is right, no exemption: the unit in the metric's name is the unit
    of every value published under it, and a help text promising a truth value
    goes with the true-as-1 encoding. *)
Theorem C19_table_ok : forall m, In m metric_table -> row_ok m = true.
Proof. exact table_ok. Qed.

Theorem C19_format_bool_ok : bool_enc_true = 1 /\ bool_enc_false = 0.
Proof. exact format_bool_ok. Qed.

Theorem C19_table_sources_classified : forall m src,
  In m metric_table -> In src (m_src m) -> src_unit src <> None.
Proof. exact table_sources_classified. Qed.

(** * The JSON hop (observer.rs write_json -> exporter.rs read_json) *)

(** The compact JSON text of every well-formed value parses back to that value:
    objects and arrays of any length and nesting, integers of ANY size and sign
    (i128 Duration bits included), booleans, null, float tokens, escape-free strings. *)
Theorem C19_parse_print : forall v, wf_json v = true -> parse (print v) = Some v.
Proof. exact parse_print. Qed.

(** Serialize then Deserialize is the identity on every well-formed state (every
    field within the range of its Rust type, sdo_id <= 0xFFF, enum variants from
    the tables translated from the Rust sources). *)
Theorem C19_of_to_json : forall s, wf_state s = true -> of_json (to_json s) = Some s.
Proof. exact of_to_json. Qed.

(** json_roundtrip: for ALL well-formed states (path trace lists and port lists of
    any length) the bytes the daemon writes denote, after parsing and
    deserialising, exactly the state that was serialised. *)
Theorem C19_json_roundtrip : forall s,
  wf_state s = true ->
  match parse (print (to_json s)) with Some v => of_json v | None => None end = Some s.
Proof. exact json_roundtrip. Qed.

(** * Prometheus exposition text and HTTP framing (format.rs) *)

(** render_parses: for EVERY state and all float tokens that are tokens
    (non-empty, no space, no newline - true of every f64 [Display]), the body
    the model renders parses, line by line, to exactly the HELP / TYPE / UNIT
    lines of the served families and one sample (name, labels with the escaping
    undone, value token) per rendered measurement, closed by "# EOF". *)
Theorem C19_render_parses : forall s ft b,
  toks_ok ft = true -> body_of metric_table s ft = Some b ->
  exists served, body_struct metric_table s ft = Some served
                 /\ parse_expo b = Some (struct_elines served).
Proof. exact render_parses. Qed.

(** Label values survive the text format whatever characters they contain. *)
Theorem C19_label_escaping : forall v rest,
  parse_lval (escape_label v ++ dq :: rest) = Some (v, rest).
Proof. exact parse_lval_escape. Qed.

(** The response head parses and Content-Length is the decimal length of the
    body, for EVERY body. *)
Theorem C19_content_length_ok : forall b,
  parse_http (http_of b) =
    Some (mkHttp (s2c "HTTP/1.1 200 OK")
                 [(s2c "content-type", s2c "text/plain");
                  (s2c "content-length", print_int (Z.of_nat (length b)))] b).
Proof. exact content_length_ok. Qed.

(** Non-vacuity: a slave state with a Duration whose bits exceed 64 bits, a
    path trace, a P2P port and an absent UTC offset is well formed, its tokens
    are tokens, it renders, its JSON text round-trips, and the oracle accepts the rendered
    response (no finding). *)
Example C19_nonvacuous :
  wf_state ex_state = true /\ toks_ok ex_toks = true
  /\ (match render ex_state ex_toks with
      | Some r => match parse_http r with
                  | Some h => match parse_expo (h_body h) with Some ls => (26 <=? length ls)%nat | None => false end
                  | None => false end
      | None => false end) = true
  /\ match parse (print (to_json ex_state)) with Some v => of_json v | None => None end = Some ex_state
  /\ (match respond ex_state ex_toks with
      | Some r => filter (fun x => negb (x =? -1))
                         (response_findings ex_state (print (to_json ex_state)) r)
      | None => [0] end) = [].
Proof. vm_compute. repeat split; reflexivity. Qed.
