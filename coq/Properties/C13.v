(** C13 — Clock control commands stay finite and within configured bounds.
    Only statements closed by [exact]; proofs live in Filter/FilterLemmas.v,
    Filter/ClampBound.v and Filter/AssertSites.v.  The model follows /repo AFTER the
    fixes 4d80470 (F12), 3d2d7f9 (F13) and b057ba6 (F15).

    Reading guide.  [kalman_trace exp_fn dbg cfg s es rs] is the list, per event, of
    the commands the model of KalmanFilter issues from state [s] on events [es]
    (measurements, update, demobilize) with clock replies [rs]; it is what the
    correspondence run compares with the real filter ([C13_trace_is_observed]).
    [exp_fn] is libm's exp (arbitrary), [dbg] the build mode.
    [cmdP_exact cfg (SetFreq f)] = f is finite and |f| <= max_freq_offset. *)
From Coq Require Import Floats.
From SV Require Import Filter.FloatBits Filter.FloatOrder Filter.ClampBound Filter.FilterCases
  Filter.FilterLemmas Filter.AssertSites.

(** freq_cmd_bounded, EXACT: every trajectory, every length, every clock, every exp,
    both build modes, from ANY estimator state (also NaN / infinite ones). *)
Theorem C13_freq_cmd_bounded : forall exp_fn dbg cfg,
  is_fin (c_max_freq_offset cfg) = true -> (fzero <=. c_max_freq_offset cfg) = true ->
  forall s es rs, Forall (Forall (cmdP_exact cfg)) (kalman_trace exp_fn dbg cfg s es rs).
Proof. exact freq_cmd_bounded. Qed.

Theorem C13_trace_is_observed : forall exp_fn dbg cfg s es rs,
  map o_cmds (run_events exp_fn dbg (FKalman cfg) (SK s) es rs)
  = map (map ocmd_of) (kalman_trace exp_fn dbg cfg s es rs).
Proof. exact run_events_trace. Qed.

(** step_cmd / steer_decision.  [freq_cmds cfg s t l] = l plus at most the one command
    clamp(cur + clamp_adjustment(..), +-bound), issued only if finite. *)
Theorem C13_step_cmd : forall dbg cfg s c,
  c_log (fst (kalman_steer dbg cfg s c)) =
  if fabs (base_offset (k_run s)) <. dur_seconds (c_step_threshold cfg) then
    match steer_target cfg s with
    | Ok t => freq_cmds cfg s t (c_log c)
    | Panic _ => c_log c
    end
  else
    match d_from_seconds dbg (-. base_offset (k_run s)) with
    | Ok d => StepClock d :: c_log c
    | Panic _ => c_log c
    end.
Proof. exact steer_decision. Qed.

Theorem C13_freq_cmds_at_most_one : forall cfg s t l,
  freq_cmds cfg s t l = l \/ exists f, freq_cmds cfg s t l = SetFreq f :: l.
Proof. exact freq_cmds_at_most_one. Qed.

(** step_cmd, magnitude clause: kernel evaluation on a boundary lattice (a test, see
    Filter/FilterLemmas.v); in general it is checked by the oracle on implementation traces *)
Theorem C13_step_magnitude_grid_partial : step_mag_grid = true.
Proof. exact step_mag_grid_holds. Qed.

(** demobilize_once *)
Theorem C13_demobilize_once : forall dbg cfg s c,
  c_log (fst (kalman_demobilize dbg cfg s c)) = freq_cmds cfg s fzero (c_log c).
Proof. exact demobilize_log. Qed.

Theorem C13_fresh_filter_quiet : forall dbg cfg s c,
  kalman_new cfg = Ok s ->
  k_cur s = None /\
  c_log (fst (kalman_update dbg cfg s c)) = c_log c /\
  c_log (fst (kalman_demobilize dbg cfg s c)) = c_log c.
Proof. exact fresh_filter_quiet. Qed.

(** basic_finite: every command of the basic filter is finite, from any state, along
    every measurement sequence *)
Theorem C13_basic_finite : forall dbg s ms rs,
  Forall (Forall cmdP_fin) (basic_trace dbg s ms rs).
Proof. exact basic_finite_trace. Qed.

(** F15: the debug assertion is gone; progressing to an earlier time is a no-op in both
    build modes and the stream that used to panic the debug build runs identically in both *)
Theorem C13_progress_earlier_is_noop : forall dbg cfg f time w,
  (time < i_time f)%Z -> inner_progress dbg cfg f time w = Ok f.
Proof. exact progress_earlier_is_noop. Qed.

Theorem C13_F15_site_removed :
  map o_res (run_filter exp_eval true (FKalman kalman_default_cfg) f15_events f15_replies)
    = [Some (true, Some 0); Some (true, Some 0)]
  /\ obs_list_eqb (run_filter exp_eval true (FKalman kalman_default_cfg) f15_events f15_replies)
                  (run_filter exp_eval false (FKalman kalman_default_cfg) f15_events f15_replies) = true.
Proof. exact f15_site_removed. Qed.

(** HISTORIC (statements about the pre-fix formulas, kept as the reason for the fixes):
    F12: cur + clamp_adjustment(cur, err, bound) can be next_up(bound); the final clamp
    of the repaired code maps it back to the bound.  The general fact: it never exceeds
    next_up(bound) (binary64, round to nearest even). *)
Theorem C13_prefix_clamp_overshoot_witness :
  let f := f12_cur +. clamp_adjustment f12_cur (fb 4652007308841189376) f12_bound in
  is_fin f = true /\ (fabs f <=. f12_bound) = false /\ bits_of_f f = bits_of_f (PrimFloat.next_up f12_bound)
  /\ fclamp f (-. f12_bound) f12_bound = Some f12_bound.
Proof. exact prefix_clamp_overshoot_witness. Qed.

Theorem C13_prefix_clamp_partial : forall cur err b,
  bound_ok b -> is_fin cur = true -> (fabs cur <=. PrimFloat.next_up b) = true ->
  let f := cur +. (if b <. cur +. err then b -. cur
                   else if cur +. err <. -. b then -. b -. cur else err) in
  (FloatBits.is_nan f = true /\ FloatBits.is_nan err = true) \/
  (is_fin f = true /\ (fabs f <=. PrimFloat.next_up b) = true).
Proof. exact clamp_cmd_partial. Qed.

(** F13: the frequency-correction formula on two zero intervals is NaN (the repaired
    measurement no longer evaluates it there), and the old witness stream is finite now *)
Theorem C13_prefix_basic_zero_over_zero :
  match basic_freq_corr (basic_new (fb 4602678819172646912)) 0 0 with
  | Ok (fcorr, fc) => FloatBits.is_nan fcorr && FloatBits.is_nan fc
  | Panic _ => false
  end = true.
Proof. exact prefix_basic_zero_over_zero. Qed.

Theorem C13_F13_stream_now_finite :
  map o_cmds (run_filter exp_eval true (FBasic (fb 4602678819172646912)) f13_events
                (repeat (Some (1000 * NS_PER_S * FRAC)%Z) 6))
  = [[OF 0; OS 0; OF 0]; [OS 0; OF 0]].
Proof. exact f13_stream_now_finite. Qed.

(** Non-vacuity: the default configuration satisfies the hypotheses of
    C13_freq_cmd_bounded, creates a filter, and a short stream makes it issue commands. *)
Example C13_nonvacuous :
  is_fin (c_max_freq_offset kalman_default_cfg) = true /\
  (fzero <=. c_max_freq_offset kalman_default_cfg) = true /\
  valid_cfg kalman_default_cfg = true /\
  is_ok (kalman_new kalman_default_cfg) = true /\
  (3 <=? Z.of_nat (length (concat (map o_cmds
      (run_filter exp_eval true (FKalman kalman_default_cfg) f15_events f15_replies)))))%Z = true.
Proof. vm_compute. repeat split; reflexivity. Qed.
