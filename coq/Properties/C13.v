(** C13 — Clock control commands stay finite and within configured bounds.
    Only statements closed by [exact]; proofs live in Filter/ClampBound.v,
    Filter/FilterLemmas.v and Filter/Repaired.v.

    Reading guide.  [kalman_trace exp_fn dbg cfg s es rs] is the list, per event,
    of the commands the model of KalmanFilter issues from state [s] on events
    [es] (measurements, update, demobilize) with clock replies [rs]; it is what
    the correspondence run compares with the real filter ([C13_trace_is_observed]).
    [exp_fn] is libm's exp (arbitrary), [dbg] the build mode.
    [cmdP cfg (SetFreq f)] = f is NaN, or finite with |f| <= next_up(max_freq_offset). *)
From Coq Require Import Floats.
From SV Require Import Filter.FloatBits Filter.FloatOrder Filter.ClampBound Filter.FilterCases
  Filter.FilterLemmas Filter.Repaired Filter.AssertSites.

(** freq_cmd_bounded, the half that holds of today's code — every trajectory, every
    length, every clock, every exp: a frequency command is NaN or within ONE ULP
    above the bound. *)
Theorem C13_freq_cmd_partial : forall exp_fn dbg cfg s es rs,
  bound_ok (c_max_freq_offset cfg) -> kalman_new cfg = Ok s ->
  Forall (Forall (cmdP cfg)) (kalman_trace exp_fn dbg cfg s es rs).
Proof. exact freq_cmd_bounded_from_new. Qed.

Theorem C13_trace_is_observed : forall exp_fn dbg cfg s es rs,
  map o_cmds (run_events exp_fn dbg (FKalman cfg) (SK s) es rs)
  = map (map ocmd_of) (kalman_trace exp_fn dbg cfg s es rs).
Proof. exact run_events_trace. Qed.

(** the rounding fact behind it (binary64, round to nearest even) *)
Theorem C13_clamp_partial : forall cur err b,
  bound_ok b -> is_fin cur = true -> (fabs cur <=. PrimFloat.next_up b) = true ->
  let f := cur +. (if b <. cur +. err then b -. cur
                   else if cur +. err <. -. b then -. b -. cur else err) in
  (FloatBits.is_nan f = true /\ FloatBits.is_nan err = true) \/
  (is_fin f = true /\ (fabs f <=. PrimFloat.next_up b) = true).
Proof. exact clamp_cmd_partial. Qed.

(** a NaN command needs a NaN frequency estimate *)
Theorem C13_freq_cmd_nan_only_if : forall cfg s cur t,
  bound_ok (c_max_freq_offset cfg) ->
  is_fin cur = true -> (fabs cur <=. PrimFloat.next_up (c_max_freq_offset cfg)) = true ->
  is_fin t = true ->
  FloatBits.is_nan (freq_command cfg s cur t) = true ->
  FloatBits.is_nan (base_freq_offset (k_run s)) = true.
Proof. exact freq_cmd_nan_only_if. Qed.

(** F12 (known finding 1): the exact bound |f| <= max_freq_offset is false. *)
Theorem C13_clamp_overshoot_witness :
  let f := f12_cur +. clamp_adjustment f12_cur (fb 4652007308841189376) f12_bound in
  is_fin f = true /\ (fabs f <=. f12_bound) = false /\ bits_of_f f = bits_of_f (PrimFloat.next_up f12_bound).
Proof. exact clamp_overshoot_witness. Qed.

Theorem C13_freq_cmd_bounded_refuted :
  valid_cfg (match case_kind f12_case with FKalman c => c | _ => kcfg_bits 0 0 0 0 0 0 0 0 0 0 0 0 0 0 0 end) = true /\
  obs_list_eqb (run_case f12_case) (case_obs f12_case) = true /\
  ok_C13 (case_kind f12_case) (case_events f12_case) (run_case f12_case) = false /\
  kf_C13 f12_case = 1.
Proof. exact freq_cmd_bounded_refuted. Qed.

(** ... and exact for the repaired steer path (final clamp + finiteness guard),
    from ANY estimator state *)
Theorem C13_repaired_freq_cmd_bounded : forall exp_fn dbg cfg,
  is_fin (c_max_freq_offset cfg) = true -> (fzero <=. c_max_freq_offset cfg) = true ->
  forall s es rs, Forall (Forall (cmdP_exact cfg)) (kalman_trace_r exp_fn dbg cfg s es rs).
Proof. exact repaired_freq_cmd_bounded. Qed.

(** step_cmd / steer_decision *)
Theorem C13_step_cmd : forall dbg cfg s c,
  c_log (fst (kalman_steer dbg cfg s c)) =
  if fabs (base_offset (k_run s)) <. dur_seconds (c_step_threshold cfg) then
    match steer_target cfg s with
    | Ok t =>
        match k_cur s with
        | Some cur => SetFreq (freq_command cfg s cur t) :: c_log c
        | None => c_log c
        end
    | Panic _ => c_log c
    end
  else
    match d_from_seconds dbg (-. base_offset (k_run s)) with
    | Ok d => StepClock d :: c_log c
    | Panic _ => c_log c
    end.
Proof. exact steer_decision. Qed.

(** demobilize_once *)
Theorem C13_demobilize_once : forall dbg cfg s c,
  c_log (fst (kalman_demobilize dbg cfg s c)) =
  match k_cur s with
  | Some cur => SetFreq (freq_command cfg s cur fzero) :: c_log c
  | None => c_log c
  end.
Proof. exact demobilize_log. Qed.

Theorem C13_fresh_filter_quiet : forall dbg cfg s c,
  kalman_new cfg = Ok s ->
  k_cur s = None /\
  c_log (fst (kalman_update dbg cfg s c)) = c_log c /\
  c_log (fst (kalman_demobilize dbg cfg s c)) = c_log c.
Proof. exact fresh_filter_quiet. Qed.

(** F13 (known finding 2): the basic filter commands a NaN frequency. *)
Theorem C13_basic_finite_refuted :
  obs_list_eqb (run_case f13_case) (case_obs f13_case) = true /\
  ok_C13 (case_kind f13_case) (case_events f13_case) (run_case f13_case) = false /\
  kf_C13 f13_case = 2.
Proof. exact basic_finite_refuted. Qed.

Theorem C13_repaired_basic_finite : forall dbg s m,
  mspec cmdP_fin (basic_measurement_r dbg s m) (fun _ => True).
Proof. exact repaired_basic_finite. Qed.

(** step_cmd, magnitude clause: kernel evaluation on a boundary lattice (a test, see
    Filter/FilterLemmas.v); in general it is checked by the oracle on implementation traces *)
Theorem C13_step_magnitude_grid_partial : step_mag_grid = true.
Proof. exact step_mag_grid_holds. Qed.

(** debug_assert!(time >= self.filter_time), debug builds.  Invariant TInv: the wander
    filter's time never exceeds the running filter's time (they are NOT always equal),
    and it exists only if the running filter does.  If the clock's replies during a
    measurement are not earlier than the event time, no path reaches the assertion --
    neither through the running filter nor through the wander filter -- and TInv is kept.
    ([aspec T m Q]: replies >= T  ==>  m does not panic at site_progress_assert, and Q.) *)
Theorem C13_measurement_assert_unreachable : forall exp_fn cfg s m,
  TInv s ->
  aspec (m_time m) (kalman_measurement exp_fn true cfg s m) (fun r => TInv (fst r)).
Proof. exact measurement_assert_unreachable. Qed.

Theorem C13_update_assert_unreachable : forall (exp_fn : float -> float) cfg T s,
  TInv s -> otime_le (k_run s) T ->
  aspec T (kalman_update true cfg s) (fun r => TInv (fst r)).
Proof. exact update_assert_unreachable. Qed.

Theorem C13_demobilize_assert_unreachable : forall (exp_fn : float -> float) cfg T s,
  TInv s -> otime_le (k_run s) T ->
  aspec T (kalman_demobilize true cfg s) (fun _ => True).
Proof. exact demobilize_assert_unreachable. Qed.

Theorem C13_new_filter_TInv : forall cfg s, kalman_new cfg = Ok s -> TInv s.
Proof. exact kalman_new_TInv. Qed.

(** F15: with a reply EARLIER than the event time the assertion is reached (debug build
    panics on the second measurement, release build carries on) *)
Theorem C13_F15_assert_reachable :
  map o_res (run_filter exp_eval true (FKalman kalman_default_cfg) f15_events f15_replies) = [Some (true, Some 0); None]
  /\ map o_res (run_filter exp_eval false (FKalman kalman_default_cfg) f15_events f15_replies) = [Some (true, Some 0); Some (true, Some 0)].
Proof. exact f15_assert_reachable. Qed.

(** Non-vacuity: the default bound satisfies the hypothesis, the default
    configuration creates a filter, and the F12 stream makes it issue commands. *)
Example C13_nonvacuous :
  bound_ok f12_bound /\
  is_ok (kalman_new (match case_kind f12_case with FKalman c => c | _ => kcfg_bits 0 0 0 0 0 0 0 0 0 0 0 0 0 0 0 end)) = true /\
  (10 <=? Z.of_nat (length (concat (map o_cmds (run_case f12_case))))) = true.
Proof. vm_compute. repeat split; reflexivity. Qed.
