(** C17 — Shared instance state is never locked re-entrantly or seen half-updated. *)
From SV Require Import Lock.LockTrace Port.OracleC17 Port.LemmasC17 Port.SiteTie.
From SV Require Generated.PanicSites Port.SiteTable.

(** The with_ref / with_mut call sites of the library found in the source on
    this run are the reviewed ones (22 sites; part of the site inventory). *)
Theorem C17_lock_sites_unchanged : Generated.PanicSites.src_sites = Port.SiteTable.reviewed_sites.
Proof. exact sites_agree. Qed.

(** Announce emission takes read sections only — one per TLV handed out by the
    provider, each released before the next (never nested, never a write) — for
    provider queues of any length. *)
Theorem C17_send_announce_locks : forall p d q p' d' o,
  send_announce p d q = Ok (p', d', o) ->
  Forall (fun x => is_rd x \/ lock_free x) o.
Proof. exact send_announce_locks. Qed.

(** Announce reception: at most a read of the parent identity followed by ONE
    write section that contains the whole S1 update; whenever the data sets
    change, that write section was taken. *)
Theorem C17_handle_announce_locks : forall p d ti m a p' d' o,
  handle_announce p d ti m a = Ok (p', d', o) ->
  exists locks rest, o = locks ++ rest /\ Forall lock_free rest /\
    (locks = [] \/ locks = [rd_lock] \/ locks = [rd_lock; wr_lock]) /\
    (d' <> d -> locks = [rd_lock; wr_lock]).
Proof. exact handle_announce_locks. Qed.

(** Snapshot atomicity under a reader-writer lock, for every serial order of
    sections (i.e. every interleaving of threads the lock admits): each value a
    reader extracts is the view of the state after a whole number of write
    sections.  Since each logical update is one write section, a snapshot of
    parent / current / time-properties data sets never mixes two updates. *)
Theorem C17_snapshot_atomic : forall (S V : Type) (l : list (section S V)) (s : S) (v : V),
  In v (snd (exec S V l s [])) ->
  exists k view, In (Read S V view) l /\ v = view (after S (firstn k (writes S V l)) s).
Proof. exact snapshot_atomic. Qed.

(** C17_main: for EVERY set-up whose initialisation succeeds and EVERY event
    list (no hypothesis on the events at all) the model's own trace satisfies
    the complete oracle ok_C17: the instance state is never requested while
    held, every call has at most one write section, the data sets change only
    in a call that has one, reads precede it, and a BMCA run is exactly one
    write section.  (ok_C17 is the function evaluated on implementation traces,
    where the lock events come from the harness's PtpInstanceStateMutex.) *)
From SV Require Import Port.LockMain.
Theorem C17_main : forall s es rel i o,
  init s = Ok (i, o) -> ok_C17 (mkCase s es rel (Some o) (run i es)) = true.
Proof. exact ok_C17_model. Qed.
