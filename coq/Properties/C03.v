(** C03 — No input, timing or call order makes the library panic or overflow.
    [outcome] = Ok | Panic, where Panic stands for an explicit panic, a failed
    (debug) assertion or an arithmetic overflow. *)
From SV Require Import Time.TimeCases Time.TimeLemmas Port.OracleC03 Port.OracleC10 Port.OracleC15
     Port.LemmasC03 Port.LemmasC05 Port.LemmasC15 Port.SiteTie Port.BmcaSpec.
From SV Require Generated.PanicSites Port.SiteTable.

(** Tie to the source: the per-function inventory of potentially panicking
    expressions (unwrap/expect, assert*, unreachable!, indexing and slicing,
    split_at/copy_from_slice, push/collect, clamp, float->Duration, fixed-point
    conversions, integer casts, arithmetic operators) found in statime/src on
    this run is the reviewed one. *)
Theorem C03_site_inventory_unchanged : Generated.PanicSites.src_sites = Port.SiteTable.reviewed_sites.
Proof. exact sites_agree. Qed.

(** Time +/- Duration never fails (saturates; repaired F7). *)
Theorem C03_time_add_total : forall t d,
  time_ok t = true -> exists r, time_add_dur t d = Ok r /\ time_ok r = true.
Proof. exact time_add_dur_total. Qed.

(** The data set comparison and the best-master selection return normally for
    ALL data sets / candidate lists (unreachable!() is dead). *)
Theorem C03_compare_total : forall a b, exists o, ds_compare a b = Ok o.
Proof. exact ds_compare_total. Qed.
Theorem C03_find_best_total : forall l, exists r, find_best l = Ok r.
Proof. exact find_best_total. Qed.

(** Master-side handlers: for every port state, data set, request header and
    every timestamp in [0, 2^63 ns) the call returns normally. *)
Theorem C03_send_sync_total : forall p d, exists r, send_sync p d = Ok r.
Proof. exact send_sync_total. Qed.
Theorem C03_sync_timestamp_total : forall p d id ts,
  in_range_ts ts = true -> exists r, handle_sync_timestamp p d id ts = Ok r.
Proof. exact sync_timestamp_total. Qed.
Theorem C03_delay_req_total : forall p d h ts,
  in_range_ts ts = true -> exists r, handle_delay_req p d h ts = Ok r.
Proof. exact delay_req_total. Qed.
Theorem C03_pdelay_req_total : forall p d h ts,
  in_range_ts ts = true -> exists r, handle_pdelay_req p d h ts = Ok r.
Proof. exact pdelay_req_total. Qed.
Theorem C03_pdelay_response_timestamp_total : forall p d id rq ts,
  in_range_ts ts = true -> exists r, handle_pdelay_response_timestamp p d id rq ts = Ok r.
Proof. exact pdelay_response_timestamp_total. Qed.
Theorem C03_send_delay_request_total : forall p d, exists r, send_delay_request p d = Ok r.
Proof. exact send_delay_request_total. Qed.

(** Announce emission with ANY provider queue (TLVs of any size, any number)
    returns normally and the frame fits the packet buffer (repaired F4). *)
Theorem C03_send_announce_total : forall p d q,
  (length (ds_path d) <= 200)%nat -> exists r, send_announce p d q = Ok r.
Proof. exact send_announce_total. Qed.

(** * The unbounded statement: NO host call sequence reaches a panic site.
    For every valid set-up (at least one and fewer than 65535 ports, every port
    configuration within the documented ranges, instance configuration and
    initial time properties representable on the wire: [setup_valid]) and EVERY sequence of host calls on the instance and
    its ports - frames of arbitrary octets and length, receive/transmit
    timestamps in [0, 2^63 ns), timer expirations, any TLV provider queue, BMCA
    runs and run-time setting changes (clock quality: any representable value) in
    any order ([event_valid]) - initialisation succeeds and
    every call returns normally.  [SRPanic] covers explicit panics, failed
    (debug) assertions and arithmetic overflow of every checked operation of
    the model.  Proved by the instance invariant [inst_inv] (Port/Inv*.v). *)
From SV Require Import Port.InvRun.
Theorem C03_no_host_call_sequence_panics : forall s es,
  setup_valid s -> Forall event_valid es ->
  exists i o, init s = Ok (i, o) /\ ~ In SRPanic (run i es).
Proof. exact no_panic_ever. Qed.
Theorem C03_invariant_inductive : forall i e,
  inst_inv i -> event_valid e -> exists i' o, step i e = Ok (i', o) /\ step_post i e i'.
Proof. exact step_ok. Qed.
Theorem C03_invariant_initial : forall s,
  setup_valid s -> exists i o, init s = Ok (i, o) /\ inst_inv i /\ no_master (i_ports i).
Proof. exact init_ok. Qed.

(** C03_main: the executable oracle ok_C03 accepts the model's own trace for
    every valid set-up and every valid event list (ties the oracle that judges
    implementation traces to the invariant proof). *)
From SV Require Import Port.MainC03.
Theorem C03_main : forall s es rel,
  setup_valid s -> Forall event_valid es ->
  exists i o, init s = Ok (i, o) /\ ok_C03 (mkCase s es rel (Some o) (run i es)) = true.
Proof. exact ok_C03_model. Qed.
