(** Lemmas for C07: ignored traffic stutters (state, data sets, RNG position,
    pending actions all unchanged; nothing but lock reads observable). *)
From SV Require Import Port.OracleC07.

Definition only_locks (o : list obs) : Prop := forall x, In x o -> exists w d, x = OLock w d.

Lemma only_locks_nil : only_locks []. Proof. intros x []. Qed.
Lemma only_locks_rd : only_locks [rd_lock].
Proof. intros x [<-|[]]. eexists; eexists; reflexivity. Qed.

(** 1. wrong PTP version, malformed, other domain or sdoId: dropped by parse_and_filter *)
Definition filtered_out (d : inst_ds) (frame : bytes) : bool :=
  negb (is_compatible frame)
  || match decode frame with
     | RErr _ => true
     | ROk m => negb ((h_sdo_id (m_header m) =? dd_sdo_id (ds_default d))
                      && (h_domain (m_header m) =? dd_domain (ds_default d)))
     end.

Lemma filtered_parse d frame :
  filtered_out d frame = true -> exists o, parse_and_filter d frame = (None, o) /\ only_locks o.
Proof.
  unfold filtered_out, parse_and_filter. intros H.
  destruct (is_compatible frame); cbn [negb orb] in *.
  - destruct (decode frame) as [m|e].
    + destruct ((h_sdo_id (m_header m) =? dd_sdo_id (ds_default d))
                && (h_domain (m_header m) =? dd_domain (ds_default d))); [discriminate|].
      eexists; split; [reflexivity|apply only_locks_rd].
    + eexists; split; [reflexivity|apply only_locks_nil].
  - eexists; split; [reflexivity|apply only_locks_nil].
Qed.

Lemma filtered_event_stutters p d ti frame ts :
  filtered_out d frame = true ->
  exists o, handle_event_receive p d ti frame ts = Ok (p, d, o) /\ only_locks o.
Proof.
  intros H. destruct (filtered_parse d frame H) as (o & Hp & Ho).
  unfold handle_event_receive. rewrite Hp. exists o. split; [reflexivity|exact Ho].
Qed.

Lemma filtered_general_stutters p d ti frame :
  filtered_out d frame = true ->
  exists o, handle_general_receive p d ti frame = Ok (p, d, o) /\ only_locks o.
Proof.
  intros H. destruct (filtered_parse d frame H) as (o & Hp & Ho).
  unfold handle_general_receive. rewrite Hp. exists o. split; [reflexivity|exact Ho].
Qed.

(** 2. Announce bearing the port's own identity, or from an identity outside the
    acceptable master list (the sender is then not the parent of a slave port) *)
Lemma announce_rejected_stutters p d ti m a :
  (is_slave (p_state p) = false \/ pi_eqb (h_source (m_header m)) (pd_parent (ds_parent d)) = false) ->
  (pi_eqb (h_source (m_header m)) (p_identity p) = true
   \/ acceptable (pc_acceptable (p_config p)) (pi_clock (h_source (m_header m))) = false) ->
  exists o, handle_announce p d ti m a = Ok (p, d, o) /\ only_locks o.
Proof.
  intros Hns Hrej. unfold handle_announce.
  assert (Hreg : bmca_register (p_identity p) (pc_acceptable (p_config p)) ti (p_fml p) (m_header m) a
                 = (false, p_fml p)).
  { unfold bmca_register. destruct Hrej as [H|H]; rewrite H; cbn [negb andb]; [reflexivity|].
    destruct (negb (pi_eqb (h_source (m_header m)) (p_identity p))); reflexivity. }
  destruct Hns as [Hs|Hp].
  - rewrite Hs. cbn [andb obind]. rewrite Hreg. eexists; split; [reflexivity|apply only_locks_nil].
  - destruct (is_slave (p_state p) && (an_steps_removed a <? 255)); cbn [obind].
    + rewrite Hp. cbn [obind]. rewrite Hreg. eexists; split; [reflexivity|apply only_locks_rd].
    + rewrite Hreg. eexists; split; [reflexivity|apply only_locks_nil].
Qed.

(** 3. Sync / Follow_Up / Delay_Resp not sent by the port's selected master, or
    a Delay_Resp answering someone else's request *)
Definition not_from_master (p : port) (src : port_identity) : Prop :=
  match p_state p with
  | PSlave st => pi_eqb (ss_remote st) src = false
  | _ => True
  end.

Lemma sync_not_master_stutters p d h origin ts :
  not_from_master p (h_source h) -> handle_sync p d h origin ts = Ok (p, d, []).
Proof.
  unfold not_from_master, handle_sync. destruct (p_state p); try reflexivity.
  intros H. rewrite H. reflexivity.
Qed.

Lemma follow_up_not_master_stutters p d h precise :
  not_from_master p (h_source h) -> handle_follow_up p d h precise = Ok (p, d, []).
Proof.
  unfold not_from_master, handle_follow_up. destruct (p_state p); try reflexivity.
  intros H. rewrite H. reflexivity.
Qed.

Lemma delay_resp_not_ours_stutters p d h recv requester :
  (not_from_master p (h_source h) \/ pi_eqb (p_identity p) requester = false) ->
  handle_delay_resp p d h recv requester = Ok (p, d, []).
Proof.
  unfold not_from_master, handle_delay_resp. destruct (p_state p) as [| | | |st]; try reflexivity.
  intros [H|H].
  - rewrite H. destruct (negb (pi_eqb (p_identity p) requester)); reflexivity.
  - rewrite H. reflexivity.
Qed.

(** * Non-interference: inserting stuttering events anywhere leaves the run unchanged *)
Definition stutters (i : instance) (e : event) : Prop :=
  exists o, step i e = Ok (i, o) /\ forall x, In x o -> exists w d, snd x = OLock w d.

Lemma run_state_insert es1 : forall i e es2,
  (forall i', run_state i es1 = Some i' -> stutters i' e) ->
  run_state i (es1 ++ e :: es2) = run_state i (es1 ++ es2).
Proof.
  induction es1 as [|e1 es1 IH]; intros i e es2 H; cbn [app run_state].
  - destruct (H i eq_refl) as (o & Hs & _). rewrite Hs. reflexivity.
  - destruct (step i e1) as [[i1 o1]|s] eqn:E; [|reflexivity]. apply IH.
    intros i' Hi'. apply H. cbn [run_state]. rewrite E. exact Hi'.
Qed.

(** the observable results of the non-inserted events are unchanged as well *)
Lemma run_insert es1 : forall i e es2 i1,
  run_state i es1 = Some i1 -> stutters i1 e ->
  exists o, run i (es1 ++ e :: es2) = run i es1 ++ SROk o (snapshot_of i1) :: run i1 es2
            /\ run i (es1 ++ es2) = run i es1 ++ run i1 es2.
Proof.
  induction es1 as [|e1 es1 IH]; intros i e es2 i1 Hr Hs; cbn [app run run_state] in *.
  - inversion Hr; subst. destruct Hs as (o & Hs & _). rewrite Hs. exists o. split; reflexivity.
  - destruct (step i e1) as [[i' o1]|s]; [|discriminate].
    destruct (IH i' e es2 i1 Hr Hs) as (o & H1 & H2). exists o. rewrite H1, H2. split; reflexivity.
Qed.
