(** C09, whole histories: the complete oracle [ok_C09] accepts the model's own
    trace for every valid set-up and every valid event list.  The proof couples
    the exchange state of every slave port (SlaveState: pending Sync / Follow_Up
    and Delay_Req / Delay_Resp halves, last raw sync offset, mean delay) with
    the oracle's record of the INPUTS of the history. *)
From SV Require Export Port.MainC07b Port.OracleC09 Port.LemmasC09.

(** * exact values of the checked arithmetic *)
Lemma chk_i_val s b x y : chk_i s b x = Ok y -> y = x.
Proof. unfold chk_i. destruct (in_i b x); intros H; inversion H; reflexivity. Qed.
Lemma chk_u_val s b x y : chk_u s b x = Ok y -> y = x.
Proof. unfold chk_u. destruct (in_u b x); intros H; inversion H; reflexivity. Qed.
Lemma dur_sub_val a b y : dur_sub a b = Ok y -> y = a - b.
Proof.
  unfold dur_sub, dur_neg, dur_add. intros H.
  destruct (chk_i site_dur_neg 128 (- b)) as [nb|?] eqn:E; cbn [obind] in H; [|discriminate].
  apply chk_i_val in E. apply chk_i_val in H. lia.
Qed.
Lemma time_diff_val a b y : time_diff a b = Ok y -> y = a - b.
Proof.
  unfold time_diff, dur_from_time. intros H.
  destruct (chk_i site_time_diff 128 a) as [da|?] eqn:E1; cbn [obind] in H; [|discriminate].
  destruct (chk_i site_time_diff 128 b) as [db|?] eqn:E2; cbn [obind] in H; [|discriminate].
  apply chk_i_val in E1, E2. apply dur_sub_val in H. lia.
Qed.
Lemma time_of_wire_val w t : time_of_wire w = Ok t -> t = wts w.
Proof. unfold time_of_wire, time_from_wire, time_from_i128_nanos, wts. apply chk_u_val. Qed.

(** a stored (saturating) Time equals the exact value whenever that is representable *)
Definition exact_if (exactv stored : Z) : Prop := 0 <= exactv -> stored = exactv.

Lemma TIME_MAXv : TIME_MAX = 340282366920938463463374607431768211455. Proof. reflexivity. Qed.

Lemma time_add_dur_exact t d c : 0 <= t -> t + Z.abs d <= TIME_MAX -> time_add_dur t d = Ok c -> exact_if (t + d) c.
Proof.
  unfold time_add_dur, exact_if. intros Ht Hm H Hx. destruct (d <? 0) eqn:E; inversion H; lia.
Qed.
Lemma time_sub_dur_exact t d c : 0 <= t -> t + Z.abs d <= TIME_MAX -> time_sub_dur t d = Ok c -> exact_if (t - d) c.
Proof.
  unfold time_sub_dur, dur_neg. intros Ht Hm H.
  destruct (chk_i site_dur_neg 128 (- d)) as [nd|?] eqn:E; cbn [obind] in H; [|discriminate].
  apply chk_i_val in E. subst nd. replace (t - d) with (t + - d) by lia. apply time_add_dur_exact; [exact Ht|lia|exact H].
Qed.

(** * the coupling between a port and the oracle's record *)
Definition sync_cpl (remote : port_identity) (sy : list sync_rec) (fu : list fup_rec) (ms : meas_state) : Prop :=
  match ms with
  | MEmpty => True
  | MMeasuring id (Some snd) None =>
      exists r, In r fu /\ fr_src r = remote /\ fr_seq r = id /\ exact_if (fr_t1c r) snd
  | MMeasuring id None (Some rcv) =>
      exists r, In r sy /\ sr_src r = remote /\ sr_seq r = id /\ sr_two r = true /\ exact_if (sr_t2c r) rcv
  | MMeasuring _ None None => True
  | MMeasuring _ (Some _) (Some _) => False
  end.
Definition delay_cpl (remote : port_identity) (dt : list dts_rec) (dr : list drs_rec) (ms : meas_state) : Prop :=
  match ms with
  | MEmpty => True
  | MMeasuring id (Some snd) None => exists r, In r dt /\ dt_id r = id /\ dt_t3 r = snd
  | MMeasuring id None (Some rcv) =>
      exists r, In r dr /\ dr_src r = remote /\ dr_seq r = id /\ exact_if (dr_t4c r) rcv
  | MMeasuring _ None None => True
  | MMeasuring _ (Some _) (Some _) => False
  end.

Definition slave_cpl (st : slave_state) (s : pstate09) : Prop :=
  ss_last_raw_sync st = last_raw_sync s /\
  sync_cpl (ss_remote st) (syncs s) (fups s) (ss_sync st) /\
  delay_cpl (ss_remote st) (dtss s) (drss s) (ss_delay st).

Definition cpl_nopeer (p : port) (s : pstate09) : Prop :=
  p_mean_delay p = mean_delay9 s /\ forall st, p_state p = PSlave st -> slave_cpl st s.
Definition cpl (p : port) (s : pstate09) : Prop := peer_incomplete (p_peer p) /\ cpl_nopeer p s.

(** the record only grows *)
Definition ext (s s1 : pstate09) : Prop :=
  incl (syncs s) (syncs s1) /\ incl (fups s) (fups s1) /\ incl (dtss s) (dtss s1) /\ incl (drss s) (drss s1) /\
  last_raw_sync s1 = last_raw_sync s /\ mean_delay9 s1 = mean_delay9 s.

Lemma ext_refl s : ext s s.
Proof. unfold ext. repeat split; try apply incl_refl. Qed.

Lemma sync_cpl_ext r sy fu sy1 fu1 ms : incl sy sy1 -> incl fu fu1 -> sync_cpl r sy fu ms -> sync_cpl r sy1 fu1 ms.
Proof.
  intros H1 H2. destruct ms as [|id [a|] [b|]]; cbn; auto.
  - intros (x & Hx & Hr). exists x. split; [apply H2; exact Hx|exact Hr].
  - intros (x & Hx & Hr). exists x. split; [apply H1; exact Hx|exact Hr].
Qed.
Lemma delay_cpl_ext r dt dr dt1 dr1 ms : incl dt dt1 -> incl dr dr1 -> delay_cpl r dt dr ms -> delay_cpl r dt1 dr1 ms.
Proof.
  intros H1 H2. destruct ms as [|id [a|] [b|]]; cbn; auto.
  - intros (x & Hx & Hr). exists x. split; [apply H1; exact Hx|exact Hr].
  - intros (x & Hx & Hr). exists x. split; [apply H2; exact Hx|exact Hr].
Qed.
Lemma slave_cpl_ext st s s1 : ext s s1 -> slave_cpl st s -> slave_cpl st s1.
Proof.
  intros (A & B & C & D & E & F) (H1 & H2 & H3). split; [rewrite E; exact H1|]. split.
  - eapply sync_cpl_ext; eauto.
  - eapply delay_cpl_ext; eauto.
Qed.
Lemma cpl_nopeer_ext p s s1 : ext s s1 -> cpl_nopeer p s -> cpl_nopeer p s1.
Proof.
  intros He [Hm Hs]. split; [destruct He as (_ & _ & _ & _ & _ & F); rewrite F; exact Hm|].
  intros st Hst. eapply slave_cpl_ext; [exact He|apply Hs; exact Hst].
Qed.
Lemma cpl_ext p s s1 : ext s s1 -> cpl p s -> cpl p s1.
Proof. intros He [Hp Hn]. split; [exact Hp|eapply cpl_nopeer_ext; eauto]. Qed.

(** * candidates *)
Lemma nonneg_parts s : nonneg_inputs s = true ->
  (forall r, In r (syncs s) -> 0 <= sr_t2c r) /\ (forall r, In r (fups s) -> 0 <= fr_t1c r) /\
  (forall r, In r (drss s) -> 0 <= dr_t4c r).
Proof.
  unfold nonneg_inputs. intros H. apply andb_true_iff in H as [H H3]. apply andb_true_iff in H as [H1 H2].
  rewrite forallb_forall in H1, H2, H3. repeat split; intros r Hr;
    [specialize (H1 r Hr)|specialize (H2 r Hr)|specialize (H3 r Hr)]; lia.
Qed.

Lemma cand_one parent asym s r : In r (syncs s) -> sr_src r = parent -> sr_two r = false ->
  In (sr_t2c r, sr_t2c r - sr_origin r - asym) (sync_candidates parent asym s).
Proof.
  intros Hin Hs Ht. unfold sync_candidates. apply in_flat_map. exists r. split; [exact Hin|].
  rewrite Hs, pi_eqb_refl, Ht. cbn. left. reflexivity.
Qed.
Lemma cand_two parent asym s r f : In r (syncs s) -> sr_src r = parent -> sr_two r = true ->
  In f (fups s) -> fr_src f = parent -> fr_seq f = sr_seq r ->
  In (sr_t2c r, sr_t2c r - fr_t1c f - asym) (sync_candidates parent asym s).
Proof.
  intros Hin Hs Ht Hf Hfs Hq. unfold sync_candidates. apply in_flat_map. exists r. split; [exact Hin|].
  rewrite Hs, pi_eqb_refl, Ht. cbn [negb]. apply in_flat_map. exists f. split; [exact Hf|].
  rewrite Hfs, pi_eqb_refl, Hq, Z.eqb_refl. cbn. left. reflexivity.
Qed.
Lemma cand_delay parent asym s t r : In t (dtss s) -> In r (drss s) -> dr_src r = parent -> dr_seq r = dt_id t ->
  In (dt_t3 t, dt_t3 t - dr_t4c r - asym) (delay_candidates parent asym s).
Proof.
  intros Ht Hr Hs Hq. unfold delay_candidates. apply in_flat_map. exists t. split; [exact Ht|].
  apply in_flat_map. exists r. split; [exact Hr|]. rewrite Hs, pi_eqb_refl, Hq, Z.eqb_refl. cbn. left. reflexivity.
Qed.
Lemma cand_found (l : list (Z * Z)) a b : In (a, b) l -> existsb (fun c => (fst c =? a) && (snd c =? b)) l = true.
Proof. intros H. apply existsb_exists. exists (a, b). split; [exact H|]. cbn. rewrite !Z.eqb_refl. reflexivity. Qed.

(** * extract_measurement, case by case *)
Definition extract_slave (p : port) : outcome (port * option measurement * list obs) :=
  match p_state p with
  | PSlave st =>
      match ss_sync st with
      | MMeasuring _ (Some send) (Some recv) =>
          let! d0 := time_diff recv send in
          let! raw := dur_sub d0 (pc_asymmetry (p_config p)) in
          let! off := match p_mean_delay p with
                      | Some md => let! o := dur_sub raw md in Ok (Some o)
                      | None => Ok None
                      end in
          let m := mkMeas recv off None None (Some raw) None in
          Ok (port_with_state p (PSlave (mkSS (ss_remote st) MEmpty (ss_delay st) (Some raw))),
              Some m, [])
      | _ =>
          match ss_delay st with
          | MMeasuring _ (Some send) (Some recv) =>
              let! d0 := time_diff send recv in
              let! raw := dur_sub d0 (pc_asymmetry (p_config p)) in
              let! dl := match ss_last_raw_sync st with
                         | Some rs =>
                             let! x := dur_sub rs raw in
                             let! h := chk_i site_dur_div 128 (Z.quot x 2) in Ok (Some h)
                         | None => Ok None
                         end in
              let m := mkMeas send None dl None None (Some raw) in
              Ok (port_with_state p (PSlave (mkSS (ss_remote st) (ss_sync st) MEmpty (ss_last_raw_sync st))),
                  Some m, [])
          | _ => Ok (p, None, [])
          end
      end
  | _ => Ok (p, None, [])
  end.

Lemma extract_inc p : peer_incomplete (p_peer p) -> extract_measurement p = extract_slave p.
Proof.
  unfold extract_measurement, extract_slave.
  destruct (p_peer p) as [|id [r|] [a|] [b|] [c|] [e|]|]; cbn [peer_incomplete]; intros H; try reflexivity; contradiction.
Qed.

Definition minc (m : meas_state) : Prop := match m with MMeasuring _ (Some _) (Some _) => False | _ => True end.
Lemma sync_cpl_inc r a b m : sync_cpl r a b m -> minc m.
Proof. destruct m as [|id [x|] [y|]]; cbn; auto. Qed.
Lemma delay_cpl_inc r a b m : delay_cpl r a b m -> minc m.
Proof. destruct m as [|id [x|] [y|]]; cbn; auto. Qed.

Lemma extract_slave_rest p : (forall st, p_state p = PSlave st -> minc (ss_sync st) /\ minc (ss_delay st)) ->
  extract_slave p = Ok (p, None, []).
Proof.
  unfold extract_slave. intros H. destruct (p_state p) as [| | | |st]; try reflexivity.
  destruct (H st eq_refl) as [H1 H2].
  destruct (ss_sync st) as [|id [x|] [y|]]; cbn in H1; try contradiction;
    destruct (ss_delay st) as [|id2 [x2|] [y2|]]; cbn in H2; try contradiction; reflexivity.
Qed.

Lemma cpl_nopeer_minc p s : cpl_nopeer p s -> forall st, p_state p = PSlave st -> minc (ss_sync st) /\ minc (ss_delay st).
Proof.
  intros [_ H] st Hst. destruct (H st Hst) as (_ & H1 & H2). split; [eapply sync_cpl_inc; eauto|eapply delay_cpl_inc; eauto].
Qed.

(** * what one handler call must establish *)
Definition is_sd (m : measurement) : bool :=
  match me_raw_sync m, me_raw_delay m with None, None => false | _, _ => true end.

Definition post (p : port) (parent : port_identity) (asym : Z) (s1 : pstate09) (p' : port) (o : list obs) : Prop :=
  (is_slave (p_state p) = false -> existsb is_sd (meas_of o) = false) /\
  exists s2, meas_all parent asym s1 (meas_of o) = Some s2 /\ cpl p' s2.

Lemma post_quiet p parent asym s1 p' o : meas_of o = [] -> cpl p' s1 -> post p parent asym s1 p' o.
Proof. intros Ho Hc. unfold post. rewrite Ho. split; [reflexivity|]. exists s1. split; [reflexivity|exact Hc]. Qed.

(** nothing complete: no measurement *)
Lemma htm_rest q d s q' d' o : cpl q s -> handle_time_measurement q d = Ok (q', d', o) -> q' = q /\ o = [].
Proof.
  intros [Hp Hn] H. unfold handle_time_measurement in H.
  rewrite (extract_inc q Hp), (extract_slave_rest q (cpl_nopeer_minc q s Hn)) in H. cbn [obind] in H.
  unfold ret in H. inversion H; auto.
Qed.

(** a completed Sync exchange *)
Lemma htm_sync q d st id sn rcv s parent q' d' o :
  peer_incomplete (p_peer q) -> p_state q = PSlave st -> ss_sync st = MMeasuring id (Some sn) (Some rcv) ->
  ss_remote st = parent -> p_mean_delay q = mean_delay9 s ->
  delay_cpl parent (dtss s) (drss s) (ss_delay st) ->
  (nonneg_inputs s = true -> In (rcv, rcv - sn - pc_asymmetry (p_config q)) (sync_candidates parent (pc_asymmetry (p_config q)) s)) ->
  handle_time_measurement q d = Ok (q', d', o) ->
  exists s2, meas_all parent (pc_asymmetry (p_config q)) s (meas_of o) = Some s2 /\ cpl q' s2.
Proof.
  intros Hp Hst Hsy Hrem Hmd Hdl Hc H. unfold handle_time_measurement in H.
  rewrite (extract_inc q Hp) in H. unfold extract_slave in H. rewrite Hst, Hsy in H.
  destruct (time_diff rcv sn) as [d0|?] eqn:E1; cbn [obind] in H; [|discriminate]. apply time_diff_val in E1. subst d0.
  destruct (dur_sub _ _) as [raw|?] eqn:E2; cbn [obind] in H; [|discriminate]. apply dur_sub_val in E2.
  set (asym := pc_asymmetry (p_config q)) in *.
  match type of H with context [obind ?X _] =>
    match X with match p_mean_delay q with _ => _ end => destruct X as [off|?] eqn:E3 end end; cbn [obind] in H; [|discriminate].
  assert (Hoff : off = match mean_delay9 s with Some md => Some (raw - md) | None => None end).
  { rewrite <- Hmd. destruct (p_mean_delay q) as [md|]; [|inversion E3; reflexivity].
    destruct (dur_sub raw md) as [x|?] eqn:E4; cbn [obind] in E3; [|discriminate]. apply dur_sub_val in E4. inversion E3; subst. reflexivity. }
  clear E3. rename Hoff into E3.
 cbn [filter_mean_delay me_delay me_peer_delay] in H. unfold ret in H. inversion H; subst q' d' o. clear H.
  cbn [app meas_of flat_map meas_all meas_ok me_raw_sync me_raw_delay me_peer_delay me_event_time me_offset me_delay].
  assert (Hok : negb (nonneg_inputs s) ||
                existsb (fun c => (fst c =? rcv) && (snd c =? raw)) (sync_candidates parent asym s) &&
                opt_z_eqb off match mean_delay9 s with Some md => Some (raw - md) | None => None end &&
                opt_z_eqb None None = true).
  { destruct (nonneg_inputs s) eqn:En; [|reflexivity]. cbn [negb orb].
    rewrite E3, opt_z_eqb_refl. subst raw. rewrite (cand_found _ _ _ (Hc eq_refl)). reflexivity. }
  rewrite Hok. eexists. split; [reflexivity|].
  split; [exact Hp|]. split; [exact Hmd|].
  cbn [port_with_state p_state]. intros st' Hst'. inversion Hst'; subst st'. clear Hst'.
  unfold slave_cpl. cbn [ss_last_raw_sync ss_sync ss_delay ss_remote last_raw_sync syncs fups dtss drss sync_cpl].
  split; [reflexivity|]. split; [exact I|]. rewrite Hrem. exact Hdl.
Qed.

(** a completed Delay_Req exchange *)
Lemma htm_delay q d st id sn rcv s parent q' d' o :
  peer_incomplete (p_peer q) -> p_state q = PSlave st -> minc (ss_sync st) ->
  ss_delay st = MMeasuring id (Some sn) (Some rcv) ->
  ss_remote st = parent -> p_mean_delay q = mean_delay9 s -> ss_last_raw_sync st = last_raw_sync s ->
  sync_cpl parent (syncs s) (fups s) (ss_sync st) ->
  (nonneg_inputs s = true -> In (sn, sn - rcv - pc_asymmetry (p_config q)) (delay_candidates parent (pc_asymmetry (p_config q)) s)) ->
  handle_time_measurement q d = Ok (q', d', o) ->
  exists s2, meas_all parent (pc_asymmetry (p_config q)) s (meas_of o) = Some s2 /\ cpl q' s2.
Proof.
  intros Hp Hst Hinc Hdl Hrem Hmd Hlr Hsy Hc H. unfold handle_time_measurement in H.
  rewrite (extract_inc q Hp) in H. unfold extract_slave in H. rewrite Hst in H.
  assert (Hx : forall T (A : Z -> Z -> Z -> T) (B : T),
            match ss_sync st with MMeasuring i (Some a) (Some b) => A i a b | _ => B end = B).
  { intros T A B. destruct (ss_sync st) as [|i [a|] [b|]]; cbn in Hinc; try contradiction; reflexivity. }
  rewrite Hx in H. clear Hx. rewrite Hdl in H.
  destruct (time_diff sn rcv) as [d0|?] eqn:E1; cbn [obind] in H; [|discriminate]. apply time_diff_val in E1. subst d0.
  destruct (dur_sub _ _) as [raw|?] eqn:E2; cbn [obind] in H; [|discriminate]. apply dur_sub_val in E2.
  set (asym := pc_asymmetry (p_config q)) in *.
  match type of H with context [obind ?X _] =>
    match X with match ss_last_raw_sync st with _ => _ end => destruct X as [dl|?] eqn:E3 end end; cbn [obind] in H; [|discriminate].
  assert (Hdlv : dl = match last_raw_sync s with Some rs => Some (Z.quot (rs - raw) 2) | None => None end).
  { rewrite <- Hlr. destruct (ss_last_raw_sync st) as [rs|]; [|inversion E3; reflexivity].
    destruct (dur_sub rs raw) as [x|?] eqn:E4; cbn [obind] in E3; [|discriminate]. apply dur_sub_val in E4.
    destruct (chk_i _ _ _) as [hh|?] eqn:E5; cbn [obind] in E3; [|discriminate]. apply chk_i_val in E5. inversion E3; subst. reflexivity. }
  clear E3.
  unfold ret in H. inversion H; subst q' d' o. clear H.
  cbn [app meas_of flat_map meas_all meas_ok me_raw_sync me_raw_delay me_peer_delay me_event_time me_offset me_delay].
  assert (Hok : negb (nonneg_inputs s) ||
                existsb (fun c => (fst c =? sn) && (snd c =? raw)) (delay_candidates parent asym s) &&
                opt_z_eqb dl match last_raw_sync s with Some rs => Some (Z.quot (rs - raw) 2) | None => None end &&
                opt_z_eqb None None = true).
  { destruct (nonneg_inputs s) eqn:En; [|reflexivity]. cbn [negb orb].
    rewrite <- Hdlv, opt_z_eqb_refl. subst raw. rewrite (cand_found _ _ _ (Hc eq_refl)). reflexivity. }
  rewrite Hok. eexists. split; [reflexivity|].
  assert (Hmd' : p_mean_delay (match filter_mean_delay (mkMeas sn None dl None None (Some raw)) with
                               | Some md => port_with_mean_delay (port_with_state q (PSlave (mkSS (ss_remote st) (ss_sync st) MEmpty (ss_last_raw_sync st)))) (Some md)
                               | None => port_with_state q (PSlave (mkSS (ss_remote st) (ss_sync st) MEmpty (ss_last_raw_sync st))) end)
                 = match match last_raw_sync s with Some rs => Some (Z.quot (rs - raw) 2) | None => None end with
                   | Some dd => Some dd | None => mean_delay9 s end).
  { rewrite <- Hdlv. cbn [filter_mean_delay me_delay me_peer_delay]. destruct dl; cbn; [reflexivity|exact Hmd]. }
  split; [destruct (filter_mean_delay _); exact Hp|]. split; [exact Hmd'|].
  intros st' Hst'.
  assert (Hst2 : st' = mkSS (ss_remote st) (ss_sync st) MEmpty (ss_last_raw_sync st)).
  { destruct (filter_mean_delay _); cbn [port_with_state port_with_mean_delay p_state] in Hst'; inversion Hst'; reflexivity. }
  subst st'. unfold slave_cpl. cbn [ss_last_raw_sync ss_sync ss_delay ss_remote last_raw_sync syncs fups dtss drss delay_cpl].
  split; [exact Hlr|]. split; [rewrite Hrem; exact Hsy|exact I].
Qed.

(** a call that may complete a peer-delay exchange *)
Lemma peer_dec x : peer_incomplete x \/ exists id r a b c e, x = PDMeasuring id (Some r) (Some a) (Some b) (Some c) (Some e).
Proof.
  destruct x as [|id [r|] [a|] [b|] [c|] [e|]|]; cbn; auto. right. do 6 eexists. reflexivity.
Qed.

Lemma htm_peer q d s parent asym q' d' o :
  cpl_nopeer q s -> handle_time_measurement q d = Ok (q', d', o) ->
  existsb is_sd (meas_of o) = false /\
  exists s2, meas_all parent asym s (meas_of o) = Some s2 /\ cpl q' s2.
Proof.
  intros Hn H. destruct (peer_dec (p_peer q)) as [Hp|(id & r & a & b & c & e & Ep)].
  - destruct (htm_rest q d s q' d' o (conj Hp Hn) H) as [-> ->]. split; [reflexivity|].
    exists s. split; [reflexivity|split; assumption].
  - unfold handle_time_measurement, extract_measurement in H. rewrite Ep in H.
    destruct (time_diff e a) as [x1|?]; cbn [obind] in H; [|discriminate].
    destruct (time_diff c b) as [x2|?]; cbn [obind] in H; [|discriminate].
    destruct (dur_sub x1 x2) as [x3|?]; cbn [obind] in H; [|discriminate].
    destruct (chk_i _ _ _) as [half|?]; cbn [obind] in H; [|discriminate].
    destruct Hn as [Hmd Hs].
    destruct (is_faulty (p_state (port_with_peer q (PDPost id r)))) eqn:Ef;
      unfold set_forced in H; cbn [obind filter_mean_delay me_delay me_peer_delay] in H; unfold ret in H; inversion H; subst q' d' o; clear H.
    + split; [destruct (_ || _); reflexivity|].
      assert (Hm : forall l, meas_of (l ++ [OFilterMeas (mkMeas e None None (Some half) None None)]) =
                             meas_of l ++ [mkMeas e None None (Some half) None None]).
      { intros l. unfold meas_of. rewrite flat_map_app. reflexivity. }
      rewrite Hm. destruct (_ || _); cbn [meas_of flat_map app meas_all meas_ok me_raw_sync me_raw_delay me_peer_delay];
        (eexists; split; [reflexivity|]); (split; [exact I|]); (split; [reflexivity|]); intros st Hst; discriminate Hst.
    + split; [reflexivity|].
      cbn [app meas_of flat_map meas_all meas_ok me_raw_sync me_raw_delay me_peer_delay].
      eexists. split; [reflexivity|]. split; [exact I|]. split; [reflexivity|].
      cbn [port_with_mean_delay port_with_peer p_state]. intros st Hst. exact (Hs st Hst).
Qed.

(** * the four handlers of the exchange *)
Lemma cpl_set_slave p s s1 st st' :
  cpl p s -> ext s s1 -> p_state p = PSlave st ->
  ss_remote st' = ss_remote st -> ss_last_raw_sync st' = ss_last_raw_sync st ->
  sync_cpl (ss_remote st) (syncs s1) (fups s1) (ss_sync st') ->
  delay_cpl (ss_remote st) (dtss s1) (drss s1) (ss_delay st') ->
  cpl (set_slave p st') s1.
Proof.
  intros [Hp [Hm Hs]] He Hst Hr Hl Hsy Hdl. split; [exact Hp|]. split.
  - cbn. destruct He as (_ & _ & _ & _ & _ & F). rewrite F. exact Hm.
  - cbn [set_slave port_with_state p_state]. intros st2 Hst2. inversion Hst2; subst st2.
    destruct (Hs st Hst) as (H1 & _ & _). destruct He as (_ & _ & _ & _ & E & _).
    split; [rewrite Hl, E; exact H1|]. rewrite Hr. split; assumption.
Qed.

Lemma corr_bound h : wf_header h -> Z.abs (ti_to_dur (h_correction h)) <= 2 ^ 80.
Proof. intros (_ & _ & _ & _ & Hc & _). unfold ti_to_dur. pv. lia. Qed.

Lemma ts_room ts x : ts_valid ts -> Z.abs x <= 2 ^ 80 -> 0 <= ts /\ ts + Z.abs x <= TIME_MAX.
Proof. unfold ts_valid, FRAC. rewrite TIME_MAXv. intros H Hx. pv. lia. Qed.

Lemma wts_room w x : wf_ts w -> Z.abs x <= 2 ^ 80 -> 0 <= wts w /\ wts w + Z.abs x <= TIME_MAX.
Proof. unfold wf_ts, wts, FRAC, NS_PER_S. rewrite TIME_MAXv. intros [H1 H2] Hx. pv. nia. Qed.

Lemma handle_sync_post p d h origin ts s parent p' d' o :
  cpl p s -> (forall st, p_state p = PSlave st -> ss_remote st = parent) ->
  ts_valid ts -> wf_header h ->
  handle_sync p d h origin ts = Ok (p', d', o) ->
  post p parent (pc_asymmetry (p_config p))
       (mkP9 (mkSR (h_seq h) (h_source h) (h_two_step h) (ts - h_correction h * 2 ^ 16) (wts origin) :: syncs s)
             (fups s) (dtss s) (drss s) (last_raw_sync s) (mean_delay9 s)) p' o.
Proof.
  intros Hc Hrem Hts Hwf H.
  set (rec := mkSR (h_seq h) (h_source h) (h_two_step h) (ts - h_correction h * 2 ^ 16) (wts origin)).
  set (s1 := mkP9 (rec :: syncs s) (fups s) (dtss s) (drss s) (last_raw_sync s) (mean_delay9 s)).
  assert (He : ext s s1).
  { unfold ext, s1. cbn. repeat split; try apply incl_refl. apply incl_tl, incl_refl. }
  pose proof (cpl_ext p s s1 He Hc) as Hc1.
  unfold handle_sync in H. destruct (p_state p) as [| | | |st] eqn:Est;
    try (unfold ret in H; inversion H; subst; apply post_quiet; [reflexivity|exact Hc1]).
  split; [rewrite Est; intros Hx; discriminate Hx|].
  destruct (negb (pi_eqb (ss_remote st) (h_source h))) eqn:En;
    [unfold ret in H; inversion H; subst; exists s1; split; [reflexivity|exact Hc1]|].
  apply negb_false_iff, pi_eqb_eq in En. pose proof (Hrem st eq_refl) as Hpar.
  destruct (time_sub_dur ts (ti_to_dur (h_correction h))) as [corrected|?] eqn:Ect; cbn [obind] in H; [|discriminate].
  assert (Hex : exact_if (sr_t2c rec) corrected).
  { destruct (ts_room ts _ Hts (corr_bound h Hwf)) as [A B]. exact (time_sub_dur_exact _ _ _ A B Ect). }
  destruct Hc as [Hp [Hm Hs]]. destruct (Hs st Est) as (Hl & Hsy & Hdl).
  assert (Hdl1 : delay_cpl (ss_remote st) (dtss s1) (drss s1) (ss_delay st)) by exact Hdl.
  assert (Hhead : In rec (syncs s1)) by (left; reflexivity).
  (* the new pending state (seq, None, Some corrected) of a two-step Sync *)
  assert (Hnew : h_two_step h = true ->
            cpl (set_slave p (mkSS (ss_remote st) (MMeasuring (h_seq h) None (Some corrected)) (ss_delay st) (ss_last_raw_sync st))) s1).
  { intros Htwo. eapply cpl_set_slave; [split; [exact Hp|split; [exact Hm|exact Hs]]|exact He|exact Est|reflexivity|reflexivity| |exact Hdl1].
    cbn [ss_sync sync_cpl]. exists rec. repeat split; try assumption; try reflexivity. symmetry. exact En. }
  destruct (h_two_step h) eqn:Etwo.
  - specialize (Hnew eq_refl).
    destruct (ss_sync st) as [|id [sn|] [rc|]] eqn:Esy.
    + unfold ret in H. inversion H; subst. exists s1. split; [reflexivity|exact Hnew].
    + destruct (id =? h_seq h); unfold ret in H; inversion H; subst; exists s1; (split; [reflexivity|]); [exact Hc1|exact Hnew].
    + destruct (id =? h_seq h) eqn:Eid.
      * apply Z.eqb_eq in Eid.
        cbn [sync_cpl] in Hsy. destruct Hsy as (f & Hf & Hfs & Hfq & Hfe).
        replace (pc_asymmetry (p_config p)) with
          (pc_asymmetry (p_config (set_slave p (mkSS (ss_remote st) (MMeasuring id (Some sn) (Some corrected)) (ss_delay st) (ss_last_raw_sync st))))) by reflexivity.
        eapply htm_sync; [exact Hp|reflexivity|reflexivity|exact Hpar| | | |exact H].
        -- exact Hm.
        -- cbn [ss_delay]. rewrite <- Hpar. exact Hdl1.
        -- intros Hnn. destruct (nonneg_parts s1 Hnn) as (N1 & N2 & _).
           rewrite (Hex (N1 rec Hhead)), (Hfe (N2 f Hf)).
           apply (cand_two parent _ s1 rec f); try assumption; try reflexivity.
           ++ cbn. rewrite <- En. exact Hpar.
           ++ rewrite Hfs. exact Hpar.
           ++ rewrite Hfq. exact Eid.
      * unfold ret in H. inversion H; subst. exists s1. split; [reflexivity|exact Hnew].
    + destruct (id =? h_seq h); unfold ret in H; inversion H; subst; exists s1; (split; [reflexivity|]); [exact Hc1|exact Hnew].
    + destruct (id =? h_seq h) eqn:Eid; [|unfold ret in H; inversion H; subst; exists s1; split; [reflexivity|exact Hnew]].
      apply Z.eqb_eq in Eid.
      assert (Hq : cpl (set_slave p (mkSS (ss_remote st) (MMeasuring id None (Some corrected)) (ss_delay st) (ss_last_raw_sync st))) s1).
      { rewrite Eid. exact Hnew. }
      destruct (htm_rest _ _ _ _ _ _ Hq H) as [-> ->]. exists s1. split; [reflexivity|exact Hq].
  - clear Hnew.
    assert (Hfresh : (let! send := time_of_wire origin in
                      handle_time_measurement
                        (set_slave p (mkSS (ss_remote st) (MMeasuring (h_seq h) (Some send) (Some corrected)) (ss_delay st) (ss_last_raw_sync st))) d)
                     = Ok (p', d', o) ->
                     exists s2, meas_all parent (pc_asymmetry (p_config p)) s1 (meas_of o) = Some s2 /\ cpl p' s2).
    { intros Hf. destruct (time_of_wire origin) as [send|?] eqn:Ew; cbn [obind] in Hf; [|discriminate].
      apply time_of_wire_val in Ew. subst send.
      replace (pc_asymmetry (p_config p)) with
        (pc_asymmetry (p_config (set_slave p (mkSS (ss_remote st) (MMeasuring (h_seq h) (Some (wts origin)) (Some corrected)) (ss_delay st) (ss_last_raw_sync st))))) by reflexivity.
      eapply htm_sync; [exact Hp|reflexivity|reflexivity|exact Hpar| | | |exact Hf].
      - exact Hm.
      - cbn [ss_delay]. rewrite <- Hpar. exact Hdl1.
      - intros Hnn. destruct (nonneg_parts s1 Hnn) as (N1 & _ & _).
        rewrite (Hex (N1 rec Hhead)).
        apply (cand_one parent _ s1 rec); try assumption; try reflexivity. cbn. rewrite <- En. exact Hpar. }
    destruct (ss_sync st) as [|id sn rc]; [exact (Hfresh H)|].
    destruct (id =? h_seq h); [unfold ret in H; inversion H; subst; exists s1; split; [reflexivity|exact Hc1]|exact (Hfresh H)].
Qed.

Lemma handle_follow_up_post p d h precise s parent p' d' o :
  cpl p s -> (forall st, p_state p = PSlave st -> ss_remote st = parent) ->
  wf_ts precise -> wf_header h ->
  handle_follow_up p d h precise = Ok (p', d', o) ->
  post p parent (pc_asymmetry (p_config p))
       (mkP9 (syncs s) (mkFR (h_seq h) (h_source h) (wts precise + h_correction h * 2 ^ 16) :: fups s)
             (dtss s) (drss s) (last_raw_sync s) (mean_delay9 s)) p' o.
Proof.
  intros Hc Hrem Hts Hwf H.
  set (rec := mkFR (h_seq h) (h_source h) (wts precise + h_correction h * 2 ^ 16)).
  set (s1 := mkP9 (syncs s) (rec :: fups s) (dtss s) (drss s) (last_raw_sync s) (mean_delay9 s)).
  assert (He : ext s s1).
  { unfold ext, s1. cbn. repeat split; try apply incl_refl. apply incl_tl, incl_refl. }
  pose proof (cpl_ext p s s1 He Hc) as Hc1.
  unfold handle_follow_up in H. destruct (p_state p) as [| | | |st] eqn:Est;
    try (unfold ret in H; inversion H; subst; apply post_quiet; [reflexivity|exact Hc1]).
  split; [rewrite Est; intros Hx; discriminate Hx|].
  destruct (negb (pi_eqb (ss_remote st) (h_source h))) eqn:En;
    [unfold ret in H; inversion H; subst; exists s1; split; [reflexivity|exact Hc1]|].
  apply negb_false_iff, pi_eqb_eq in En. pose proof (Hrem st eq_refl) as Hpar.
  destruct (time_of_wire precise) as [t0|?] eqn:Ew; cbn [obind] in H; [|discriminate].
  apply time_of_wire_val in Ew. subst t0.
  destruct (time_add_dur (wts precise) (ti_to_dur (h_correction h))) as [send|?] eqn:Ect; cbn [obind] in H; [|discriminate].
  assert (Hex : exact_if (fr_t1c rec) send).
  { destruct (wts_room precise _ Hts (corr_bound h Hwf)) as [A B]. exact (time_add_dur_exact _ _ _ A B Ect). }
  destruct Hc as [Hp [Hm Hs]]. destruct (Hs st Est) as (Hl & Hsy & Hdl).
  assert (Hdl1 : delay_cpl (ss_remote st) (dtss s1) (drss s1) (ss_delay st)) by exact Hdl.
  assert (Hhead : In rec (fups s1)) by (left; reflexivity).
  assert (Hnew : cpl (set_slave p (mkSS (ss_remote st) (MMeasuring (h_seq h) (Some send) None) (ss_delay st) (ss_last_raw_sync st))) s1).
  { eapply cpl_set_slave; [split; [exact Hp|split; [exact Hm|exact Hs]]|exact He|exact Est|reflexivity|reflexivity| |exact Hdl1].
    cbn [ss_sync sync_cpl]. exists rec. repeat split; try assumption; try reflexivity. symmetry. exact En. }
  assert (Hfresh : handle_time_measurement
                     (set_slave p (mkSS (ss_remote st) (MMeasuring (h_seq h) (Some send) None) (ss_delay st) (ss_last_raw_sync st))) d
                   = Ok (p', d', o) ->
                   exists s2, meas_all parent (pc_asymmetry (p_config p)) s1 (meas_of o) = Some s2 /\ cpl p' s2).
  { intros Hf. destruct (htm_rest _ _ _ _ _ _ Hnew Hf) as [-> ->]. exists s1. split; [reflexivity|exact Hnew]. }
  destruct (ss_sync st) as [|id [sn|] [rc|]] eqn:Esy; try exact (Hfresh H).
  - destruct (id =? h_seq h); [unfold ret in H; inversion H; subst; exists s1; split; [reflexivity|exact Hc1]|exact (Hfresh H)].
  - destruct (id =? h_seq h); [unfold ret in H; inversion H; subst; exists s1; split; [reflexivity|exact Hc1]|exact (Hfresh H)].
  - destruct (id =? h_seq h) eqn:Eid; [|exact (Hfresh H)].
    apply Z.eqb_eq in Eid.
    cbn [sync_cpl] in Hsy. destruct Hsy as (f & Hf & Hfs & Hfq & Hft & Hfe).
    replace (pc_asymmetry (p_config p)) with
      (pc_asymmetry (p_config (set_slave p (mkSS (ss_remote st) (MMeasuring (h_seq h) (Some send) (Some rc)) (ss_delay st) (ss_last_raw_sync st))))) by reflexivity.
    eapply htm_sync; [exact Hp|reflexivity|reflexivity|exact Hpar| | | |exact H].
    + exact Hm.
    + cbn [ss_delay]. rewrite <- Hpar. exact Hdl1.
    + intros Hnn. destruct (nonneg_parts s1 Hnn) as (N1 & N2 & _).
      rewrite (Hex (N2 rec Hhead)), (Hfe (N1 f Hf)).
      apply (cand_two parent _ s1 f rec); try assumption; try reflexivity.
      * rewrite Hfs. exact Hpar.
      * cbn. rewrite <- En. exact Hpar.
      * cbn. rewrite Hfq. symmetry. exact Eid.
  - destruct (id =? h_seq h); exact (Hfresh H).
Qed.

Lemma handle_delay_resp_post p d h recv requester s parent p' d' o :
  cpl p s -> (forall st, p_state p = PSlave st -> ss_remote st = parent) ->
  wf_ts recv -> wf_header h ->
  handle_delay_resp p d h recv requester = Ok (p', d', o) ->
  post p parent (pc_asymmetry (p_config p))
       (if pi_eqb requester (p_identity p) then
          mkP9 (syncs s) (fups s) (dtss s)
               (mkDR (h_seq h) (h_source h) (wts recv - h_correction h * 2 ^ 16) :: drss s)
               (last_raw_sync s) (mean_delay9 s)
        else s) p' o.
Proof.
  intros Hc Hrem Hts Hwf H.
  set (rec := mkDR (h_seq h) (h_source h) (wts recv - h_correction h * 2 ^ 16)).
  set (s0 := mkP9 (syncs s) (fups s) (dtss s) (rec :: drss s) (last_raw_sync s) (mean_delay9 s)).
  set (s1 := if pi_eqb requester (p_identity p) then s0 else s).
  assert (He : ext s s1).
  { unfold s1. destruct (pi_eqb requester (p_identity p)); [|apply ext_refl].
    unfold ext, s0. cbn. repeat split; try apply incl_refl. apply incl_tl, incl_refl. }
  pose proof (cpl_ext p s s1 He Hc) as Hc1.
  unfold handle_delay_resp in H. destruct (p_state p) as [| | | |st] eqn:Est;
    try (unfold ret in H; inversion H; subst; apply post_quiet; [reflexivity|exact Hc1]).
  split; [rewrite Est; intros Hx; discriminate Hx|].
  destruct (negb (pi_eqb (p_identity p) requester) || negb (pi_eqb (ss_remote st) (h_source h))) eqn:En;
    [unfold ret in H; inversion H; subst; exists s1; split; [reflexivity|exact Hc1]|].
  apply orb_false_iff in En as [En1 En2]. apply negb_false_iff in En1, En2. apply pi_eqb_eq in En2.
  rewrite pi_eqb_sym in En1. pose proof (Hrem st eq_refl) as Hpar.
  assert (Hs1 : s1 = s0) by (unfold s1; rewrite En1; reflexivity).
  destruct Hc as [Hp [Hm Hs]]. destruct (Hs st Est) as (Hl & Hsy & Hdl).
  destruct (ss_delay st) as [|id sn [rc|]] eqn:Edl;
    try (unfold ret in H; inversion H; subst; exists s1; split; [reflexivity|exact Hc1]).
  destruct (id =? h_seq h) eqn:Eid; [|unfold ret in H; inversion H; subst; exists s1; split; [reflexivity|exact Hc1]].
  apply Z.eqb_eq in Eid.
  destruct (time_of_wire recv) as [t0|?] eqn:Ew; cbn [obind] in H; [|discriminate].
  apply time_of_wire_val in Ew. subst t0.
  destruct (time_sub_dur (wts recv) (ti_to_dur (h_correction h))) as [rt|?] eqn:Ect; cbn [obind] in H; [|discriminate].
  assert (Hex : exact_if (dr_t4c rec) rt).
  { destruct (wts_room recv _ Hts (corr_bound h Hwf)) as [A B]. exact (time_sub_dur_exact _ _ _ A B Ect). }
  rewrite Hs1 in *. clear Hs1.
  assert (Hhead : In rec (drss s0)) by (left; reflexivity).
  assert (Hsy0 : sync_cpl (ss_remote st) (syncs s0) (fups s0) (ss_sync st)) by exact Hsy.
  destruct sn as [sn|].
  - cbn [delay_cpl] in Hdl. destruct Hdl as (t & Ht & Htid & Htv).
    replace (pc_asymmetry (p_config p)) with
      (pc_asymmetry (p_config (set_slave p (mkSS (ss_remote st) (ss_sync st) (MMeasuring id (Some sn) (Some rt)) (ss_last_raw_sync st))))) by reflexivity.
    eapply htm_delay; [exact Hp|reflexivity|eapply sync_cpl_inc; exact Hsy|reflexivity|exact Hpar|exact Hm|exact Hl| | |exact H].
    + cbn [ss_sync]. rewrite <- Hpar. exact Hsy0.
    + intros Hnn. destruct (nonneg_parts s0 Hnn) as (_ & _ & N3).
      rewrite (Hex (N3 rec Hhead)), <- Htv.
      apply (cand_delay parent _ s0 t rec); try assumption; try reflexivity.
      * cbn. rewrite <- En2. exact Hpar.
      * cbn. rewrite Htid. symmetry. exact Eid.
  - assert (Hq : cpl (set_slave p (mkSS (ss_remote st) (ss_sync st) (MMeasuring id None (Some rt)) (ss_last_raw_sync st))) s0).
    { eapply cpl_set_slave; [split; [exact Hp|split; [exact Hm|exact Hs]]|exact He|exact Est|reflexivity|reflexivity|exact Hsy0|].
      cbn [ss_delay delay_cpl]. exists rec. repeat split; try assumption; try reflexivity; symmetry; assumption. }
    destruct (htm_rest _ _ _ _ _ _ Hq H) as [-> ->]. exists s0. split; [reflexivity|exact Hq].
Qed.

Lemma handle_delay_timestamp_post p d tid ts s parent p' d' o :
  cpl p s -> (forall st, p_state p = PSlave st -> ss_remote st = parent) ->
  handle_delay_timestamp p d tid ts = Ok (p', d', o) ->
  post p parent (pc_asymmetry (p_config p))
       (mkP9 (syncs s) (fups s) (mkDT tid ts :: dtss s) (drss s) (last_raw_sync s) (mean_delay9 s)) p' o.
Proof.
  intros Hc Hrem H.
  set (rec := mkDT tid ts).
  set (s1 := mkP9 (syncs s) (fups s) (rec :: dtss s) (drss s) (last_raw_sync s) (mean_delay9 s)).
  assert (He : ext s s1).
  { unfold ext, s1. cbn. repeat split; try apply incl_refl. apply incl_tl, incl_refl. }
  pose proof (cpl_ext p s s1 He Hc) as Hc1.
  unfold handle_delay_timestamp in H. destruct (p_state p) as [| | | |st] eqn:Est;
    try (unfold ret in H; inversion H; subst; apply post_quiet; [reflexivity|exact Hc1]).
  split; [rewrite Est; intros Hx; discriminate Hx|].
  pose proof (Hrem st eq_refl) as Hpar.
  destruct Hc as [Hp [Hm Hs]]. destruct (Hs st Est) as (Hl & Hsy & Hdl).
  destruct (ss_delay st) as [|id [sn|] rc] eqn:Edl;
    try (unfold ret in H; inversion H; subst; exists s1; split; [reflexivity|exact Hc1]).
  destruct (id =? tid) eqn:Eid; [|unfold ret in H; inversion H; subst; exists s1; split; [reflexivity|exact Hc1]].
  apply Z.eqb_eq in Eid.
  assert (Hhead : In rec (dtss s1)) by (left; reflexivity).
  assert (Hsy1 : sync_cpl (ss_remote st) (syncs s1) (fups s1) (ss_sync st)) by exact Hsy.
  destruct rc as [rc|].
  - cbn [delay_cpl] in Hdl. destruct Hdl as (r & Hr & Hrs & Hrq & Hre).
    replace (pc_asymmetry (p_config p)) with
      (pc_asymmetry (p_config (set_slave p (mkSS (ss_remote st) (ss_sync st) (MMeasuring id (Some ts) (Some rc)) (ss_last_raw_sync st))))) by reflexivity.
    eapply htm_delay; [exact Hp|reflexivity|eapply sync_cpl_inc; exact Hsy|reflexivity|exact Hpar|exact Hm|exact Hl| | |exact H].
    + cbn [ss_sync]. rewrite <- Hpar. exact Hsy1.
    + intros Hnn. destruct (nonneg_parts s1 Hnn) as (_ & _ & N3).
      rewrite (Hre (N3 r Hr)).
      apply (cand_delay parent _ s1 rec r); try assumption; try reflexivity.
      * rewrite Hrs. exact Hpar.
      * cbn. rewrite Hrq. exact Eid.
  - assert (Hq : cpl (set_slave p (mkSS (ss_remote st) (ss_sync st) (MMeasuring id (Some ts) None) (ss_last_raw_sync st))) s1).
    { eapply cpl_set_slave; [split; [exact Hp|split; [exact Hm|exact Hs]]|exact He|exact Est|reflexivity|reflexivity|exact Hsy1|].
      cbn [ss_delay delay_cpl]. exists rec. repeat split; try assumption; try reflexivity. symmetry. exact Eid. }
    destruct (htm_rest _ _ _ _ _ _ Hq H) as [-> ->]. exists s1. split; [reflexivity|exact Hq].
Qed.

(** * calls that do not touch the exchange *)
Lemma post_keep p parent asym s p' o :
  cpl p s -> meas_of o = [] -> peer_incomplete (p_peer p') -> p_mean_delay p' = p_mean_delay p ->
  (forall st', p_state p' = PSlave st' ->
     exists st, p_state p = PSlave st /\ ss_remote st' = ss_remote st /\
       ss_last_raw_sync st' = ss_last_raw_sync st /\ ss_sync st' = ss_sync st /\
       (ss_delay st' = ss_delay st \/ exists id, ss_delay st' = MMeasuring id None None)) ->
  post p parent asym s p' o.
Proof.
  intros [Hp [Hm Hs]] Ho Hp' Hm' Hst. apply post_quiet; [exact Ho|].
  split; [exact Hp'|]. split; [rewrite Hm'; exact Hm|].
  intros st' Hst'. destruct (Hst st' Hst') as (st & Est & Hr & Hl & Hsy & Hdl).
  destruct (Hs st Est) as (A & B & C). unfold slave_cpl. rewrite Hr, Hl, Hsy. split; [exact A|split; [exact B|]].
  destruct Hdl as [->|(id & ->)]; [exact C|exact I].
Qed.

Lemma post_same p parent asym s o : cpl p s -> meas_of o = [] -> post p parent asym s p o.
Proof.
  intros Hc Ho. apply post_keep; try assumption; try reflexivity; [apply Hc|].
  intros st Hst. exists st. repeat split; auto.
Qed.

Lemma go_faulty_post p q parent asym s d p' d' o :
  cpl p s -> p_mean_delay q = p_mean_delay p -> peer_incomplete (p_peer q) ->
  go_faulty q d = Ok (p', d', o) -> post p parent asym s p' o.
Proof.
  intros Hc Hm Hp H. unfold go_faulty, set_forced, ret in H. inversion H; subst. clear H.
  apply post_keep; try assumption.
  - destruct (_ || _); reflexivity.
  - cbn. intros st Hst. discriminate Hst.
Qed.

Lemma htm_peer_post p q parent asym s d p' d' o :
  cpl p s -> p_mean_delay q = p_mean_delay p -> p_state q = p_state p ->
  handle_time_measurement q d = Ok (p', d', o) -> post p parent asym s p' o.
Proof.
  intros [Hp [Hm Hs]] Hmq Hsq H.
  assert (Hn : cpl_nopeer q s).
  { split; [rewrite Hmq; exact Hm|]. intros st Hst. rewrite Hsq in Hst. exact (Hs st Hst). }
  destruct (htm_peer q d s parent asym p' d' o Hn H) as [H1 H2]. split; [intros _; exact H1|exact H2].
Qed.

Ltac peer_tac Hc H :=
  crunch H;
  try (apply post_same; [exact Hc|reflexivity]);
  try (match goal with Hx : go_faulty ?q ?dd = Ok _ |- _ =>
         eapply (go_faulty_post _ q); [exact Hc|reflexivity| |exact Hx]; first [apply Hc|exact I] end);
  try (match goal with Hx : handle_time_measurement ?q ?dd = Ok _ |- _ =>
         eapply (htm_peer_post _ q); [exact Hc|reflexivity|reflexivity|exact Hx] end).

Lemma handle_pdelay_timestamp_post p d tid ts s parent asym p' d' o :
  cpl p s -> handle_pdelay_timestamp p d tid ts = Ok (p', d', o) -> post p parent asym s p' o.
Proof. intros Hc H. unfold handle_pdelay_timestamp in H. peer_tac Hc H. Qed.

Lemma handle_peer_delay_response_post p d h w r t s parent asym p' d' o :
  cpl p s -> handle_peer_delay_response p d h w r t = Ok (p', d', o) -> post p parent asym s p' o.
Proof. intros Hc H. unfold handle_peer_delay_response in H. peer_tac Hc H. Qed.

Lemma handle_peer_delay_follow_up_post p d h w r s parent asym p' d' o :
  cpl p s -> handle_peer_delay_follow_up p d h w r = Ok (p', d', o) -> post p parent asym s p' o.
Proof. intros Hc H. unfold handle_peer_delay_follow_up in H. cbv zeta in H. peer_tac Hc H. Qed.

Lemma meas_of_app a b : meas_of (a ++ b) = meas_of a ++ meas_of b.
Proof. unfold meas_of. apply flat_map_app. Qed.
Lemma forward_obs_nomeas sfx src : meas_of (forward_obs sfx src) = [].
Proof. unfold forward_obs. induction (filter _ _) as [|t l IH]; [reflexivity|exact IH]. Qed.

Lemma draw_fields x z y : draw x = (z, y) ->
  p_state y = p_state x /\ p_peer y = p_peer x /\ p_mean_delay y = p_mean_delay x.
Proof. unfold draw. destruct (p_rng x); intros E; inversion E; repeat split. Qed.

Ltac same_state := let st := fresh "st" in let Hst := fresh "Hst" in
  intros st Hst; first [discriminate Hst | exists st; repeat split; auto].

Ltac keep_tac Hc H :=
  crunch H;
  (apply post_keep; [exact Hc|reflexivity|first [apply Hc|exact I]|reflexivity|
                     cbn [port_with_seqs port_with_peer p_state]; same_state]).

Lemma handle_delay_req_post p d h ts s parent asym p' d' o :
  cpl p s -> handle_delay_req p d h ts = Ok (p', d', o) -> post p parent asym s p' o.
Proof. intros Hc H. unfold handle_delay_req in H. keep_tac Hc H. Qed.
Lemma handle_pdelay_req_post p d h ts s parent asym p' d' o :
  cpl p s -> handle_pdelay_req p d h ts = Ok (p', d', o) -> post p parent asym s p' o.
Proof. intros Hc H. unfold handle_pdelay_req in H. keep_tac Hc H. Qed.
Lemma handle_sync_timestamp_post p d id ts s parent asym p' d' o :
  cpl p s -> handle_sync_timestamp p d id ts = Ok (p', d', o) -> post p parent asym s p' o.
Proof. intros Hc H. unfold handle_sync_timestamp in H. keep_tac Hc H. Qed.
Lemma handle_pdelay_response_timestamp_post p d id rq ts s parent asym p' d' o :
  cpl p s -> handle_pdelay_response_timestamp p d id rq ts = Ok (p', d', o) -> post p parent asym s p' o.
Proof. intros Hc H. unfold handle_pdelay_response_timestamp in H. keep_tac Hc H. Qed.
Lemma send_sync_post p d s parent asym p' d' o :
  cpl p s -> send_sync p d = Ok (p', d', o) -> post p parent asym s p' o.
Proof. intros Hc H. unfold send_sync in H. keep_tac Hc H. Qed.
Lemma filter_update_post p d s parent asym p' d' o :
  cpl p s -> handle_filter_update_timer p d = Ok (p', d', o) -> post p parent asym s p' o.
Proof. intros Hc H. unfold handle_filter_update_timer in H. keep_tac Hc H. Qed.

Lemma loop_nomeas fuel : forall q margin parent pe acc lk r lk',
  announce_tlv_loop fuel q margin parent pe acc lk = Ok (r, lk') -> meas_of lk = [] -> meas_of lk' = [].
Proof.
  induction fuel as [|fuel IH]; intros q margin parent pe acc lk r lk' H Hl; cbn [announce_tlv_loop] in H.
  - inversion H; subst. exact Hl.
  - destruct q as [|f q']; [inversion H; subst; exact Hl|].
    destruct (fwd_size f <=? margin); [|inversion H; subst; exact Hl].
    assert (Hl' : meas_of (lk ++ [rd_lock]) = []) by (rewrite meas_of_app, Hl; reflexivity).
    destruct (negb _); [eapply IH; eauto|]. destruct (_ && _); eapply IH; eauto.
Qed.

Lemma send_announce_post p d q s parent asym p' d' o :
  cpl p s -> send_announce p d q = Ok (p', d', o) -> post p parent asym s p' o.
Proof.
  intros Hc H. unfold send_announce in H.
  destruct (is_master (p_state p)); [|unfold ret in H; inversion H; subst; apply post_same; [exact Hc|reflexivity]].
  match type of H with context [let '(a, b) := ?X in _] => destruct X as [pb m1] end.
  destruct (announce_tlv_loop _ _ _ _ _ _ _) as [[sfx locks]|?] eqn:El; cbn [obind] in H; [|discriminate].
  destruct (serialize_packet _); cbn [obind] in H; [|discriminate]. unfold ret in H. inversion H; subst.
  apply post_keep; [exact Hc| |apply Hc|reflexivity|cbn [port_with_seqs p_state]; same_state].
  change (meas_of ([rd_lock; rd_lock] ++ locks ++ [AResetAnnounceTimer (interval_ns (pc_log_announce (p_config p))); ASendGeneral a false]) = []).
  rewrite !meas_of_app. rewrite (loop_nomeas _ _ _ _ _ _ _ _ _ El eq_refl). reflexivity.
Qed.

Lemma send_delay_request_post p d s parent asym p' d' o :
  cpl p s -> send_delay_request p d = Ok (p', d', o) -> post p parent asym s p' o.
Proof.
  intros Hc H. unfold send_delay_request in H.
  crunch H; try (apply post_same; [exact Hc|reflexivity]);
    repeat match goal with E : draw _ = (_, _) |- _ => apply draw_fields in E; destruct E as (? & ? & ?) end.
  - apply post_keep; [exact Hc|reflexivity| | |].
    + match goal with E : p_peer _ = _ |- _ => rewrite E end. apply Hc.
    + match goal with E : p_mean_delay _ = _ |- _ => rewrite E end. reflexivity.
    + match goal with E : p_state ?y = p_state _ |- _ => rewrite E end.
      cbn [set_slave port_with_state port_with_seqs p_state]. intros st' Hst'. inversion Hst'; subst st'.
      eexists. split; [eassumption|]. cbn. repeat split; auto. right. eexists. reflexivity.
  - apply post_keep; [exact Hc|reflexivity| | |].
    + match goal with E : p_peer _ = _ |- _ => rewrite E end. exact I.
    + match goal with E : p_mean_delay _ = _ |- _ => rewrite E end. reflexivity.
    + match goal with E : p_state _ = _ |- _ => rewrite E end. cbn [port_with_seqs port_with_peer p_state]. same_state.
Qed.

Lemma set_forced_fields p st p1 o : set_forced p st = (p1, o) ->
  p1 = port_with_state p st /\ meas_of o = [].
Proof. unfold set_forced. intros H. inversion H; subst. split; [reflexivity|]. destruct (_ || _); reflexivity. Qed.

Lemma meas_of_lock l : meas_of (rd_lock :: l) = meas_of l.
Proof. reflexivity. Qed.

Ltac fields_tac Hc :=
    repeat match goal with E : (if ?c then _ else _) = (_, _) |- _ => destruct c eqn:?; [inversion E; subst; clear E|] end;
    repeat match goal with E : (if ?c then _ else _) = (_, _) |- _ => destruct c eqn:?; [|inversion E; subst; clear E] end;
    repeat match goal with E : draw _ = (_, _) |- _ => apply draw_fields in E; destruct E as (? & ? & ?) end;
    repeat match goal with E : set_forced _ _ = (_, _) |- _ => apply set_forced_fields in E; destruct E as [-> ?] end;
    (apply post_keep; [exact Hc| | | |]);
    try (rewrite ?meas_of_lock, ?meas_of_app; repeat match goal with E : meas_of _ = [] |- _ => rewrite E end; reflexivity);
    repeat match goal with E : p_peer _ = _ |- _ => rewrite E end;
    repeat match goal with E : p_mean_delay _ = _ |- _ => rewrite E end;
    repeat match goal with E : p_state _ = p_state _ |- _ => rewrite E end;
    cbn [port_with_state port_with_fml port_with_multiport p_peer p_mean_delay p_state]; try apply Hc; try reflexivity; try same_state;
    try (intros st Hst; discriminate Hst).

Lemma receipt_timer_post p d s parent asym p' d' o :
  cpl p s -> handle_announce_receipt_timer p d = Ok (p', d', o) -> post p parent asym s p' o.
Proof.
  intros Hc H. unfold handle_announce_receipt_timer in H.
  crunch H; fields_tac Hc.
Qed.

Lemma handle_announce_post p d ti m a s parent asym p' d' o :
  cpl p s -> handle_announce p d ti m a = Ok (p', d', o) -> post p parent asym s p' o.
Proof.
  intros Hc H. unfold handle_announce in H. cbv zeta in H.
  match type of H with obind ?X _ = _ => destruct X as [[[d1 lp] locks]|?] eqn:Er end; cbn [obind] in H; [|discriminate].
  assert (Hl : meas_of locks = []) by (crunch Er; reflexivity).
  destruct lp; [unfold ret in H; inversion H; subst; apply post_same; [exact Hc|exact Hl]|].
  destruct (bmca_register _ _ _ _ _ _) as [acc fml]. destruct acc; [|unfold ret in H; inversion H; subst; apply post_same; [exact Hc|exact Hl]].
  match type of H with context [if ?c then set_forced ?x ?y else ?z] => destruct c end.
  - destruct (set_forced _ _) as [p2 o2] eqn:Es. apply set_forced_fields in Es. destruct Es as [-> Ho2].
    match type of H with context [draw ?x] => destruct (draw x) as [k p3] eqn:Ed end.
    apply draw_fields in Ed. destruct Ed as (E1 & E2 & E3).
    unfold ret in H. inversion H; subst. apply post_keep; [exact Hc| | | |].
    + rewrite !meas_of_app, Hl, Ho2. exact (forward_obs_nomeas _ _).
    + rewrite E2. apply Hc.
    + rewrite E3. reflexivity.
    + rewrite E1. cbn. intros st Hst. discriminate Hst.
  - match type of H with context [draw ?x] => destruct (draw x) as [k p3] eqn:Ed end.
    apply draw_fields in Ed. destruct Ed as (E1 & E2 & E3).
    unfold ret in H. inversion H; subst. apply post_keep; [exact Hc| | | |].
    + rewrite !meas_of_app, Hl. exact (forward_obs_nomeas _ _).
    + rewrite E2. apply Hc.
    + rewrite E3. reflexivity.
    + rewrite E1. cbn [port_with_fml p_state]. same_state.
Qed.

(** * dispatch: one host call against the oracle's record of it *)
Lemma post_prepend p parent asym s1 p' o1 o : meas_of o1 = [] ->
  post p parent asym s1 p' o -> post p parent asym s1 p' (o1 ++ o).
Proof. intros H1 Hp. unfold post. rewrite meas_of_app, H1. exact Hp. Qed.

Lemma post_ext p parent asym s s1 p' o : ext s s1 -> cpl p s ->
  (forall s', cpl p s' -> post p parent asym s' p' o) -> post p parent asym s1 p' o.
Proof. intros He Hc H. apply H. eapply cpl_ext; eauto. Qed.

Lemma general_post c n p d ti m s parent p' d' o :
  cpl p s -> (forall st, p_state p = PSlave st -> ss_remote st = parent) ->
  p_identity p = port_id c n -> wf_header (m_header m) -> wf_body (m_body m) ->
  handle_general_internal p d ti m = Ok (p', d', o) ->
  post p parent (pc_asymmetry (p_config p))
    (match m_body m with
     | BFollowUp precise =>
         mkP9 (syncs s)
              (mkFR (h_seq (m_header m)) (h_source (m_header m))
                    (wts precise + h_correction (m_header m) * 2 ^ 16) :: fups s)
              (dtss s) (drss s) (last_raw_sync s) (mean_delay9 s)
     | BDelayResp recv requester =>
         if pi_eqb requester (port_id c n) then
           mkP9 (syncs s) (fups s) (dtss s)
                (mkDR (h_seq (m_header m)) (h_source (m_header m))
                      (wts recv - h_correction (m_header m) * 2 ^ 16) :: drss s)
                (last_raw_sync s) (mean_delay9 s)
         else s
     | _ => s
     end) p' o.
Proof.
  intros Hc Hrem Hid Hh Hb H. unfold handle_general_internal in H.
  destruct (m_body m) eqn:Eb; cbn [wf_body] in Hb;
    try (unfold ret in H; inversion H; subst; apply post_same; [exact Hc|reflexivity]).
  - eapply handle_follow_up_post; eassumption.
  - rewrite <- Hid. destruct Hb as [Hb _]. eapply handle_delay_resp_post; eassumption.
  - eapply handle_peer_delay_follow_up_post; eauto.
  - eapply handle_announce_post; eauto.
Qed.

Lemma receive_general_post c n p d ti frame s parent p' d' o :
  cpl p s -> (forall st, p_state p = PSlave st -> ss_remote st = parent) ->
  p_identity p = port_id c n -> bok frame ->
  handle_general_receive p d ti frame = Ok (p', d', o) ->
  forall prev, sn_ds prev = d ->
  post p parent (pc_asymmetry (p_config p)) (record09 c prev n (EvRecvGeneral n frame) s) p' o.
Proof.
  intros Hc Hrem Hid Hbok H prev Hprev.
  unfold handle_general_receive, parse_and_filter in H. unfold record09. rewrite Nat.eqb_refl, Hprev. cbn [negb].
  destruct (is_compatible frame) eqn:Ec; cbn [negb] in *;
    [|unfold ret in H; inversion H; subst; apply post_same; [exact Hc|reflexivity]].
  unfold decoded. destruct (decode frame) as [m|?] eqn:Ed;
    [|unfold ret in H; inversion H; subst; apply post_same; [exact Hc|reflexivity]].
  rewrite (andb_comm (h_domain (m_header m) =? _)).
  destruct ((h_sdo_id (m_header m) =? dd_sdo_id (ds_default d)) && (h_domain (m_header m) =? dd_domain (ds_default d)));
    [|unfold ret in H; inversion H; subst; apply post_same; [exact Hc|reflexivity]].
  unfold prepend in H.
  destruct (handle_general_internal p d ti m) as [[[p1 d1] o2]|?] eqn:E; cbn [obind] in H; [|discriminate].
  inversion H; subst. apply (post_prepend _ _ _ _ _ [rd_lock] o2); [reflexivity|].
  destruct (decoded_wf frame m Hbok Ed) as (Hh & Hb & _).
  eapply general_post; eauto.
Qed.

Lemma receive_event_post c n p d ti frame ts s parent p' d' o :
  cpl p s -> (forall st, p_state p = PSlave st -> ss_remote st = parent) ->
  p_identity p = port_id c n -> bok frame -> ts_valid ts ->
  handle_event_receive p d ti frame ts = Ok (p', d', o) ->
  forall prev, sn_ds prev = d ->
  post p parent (pc_asymmetry (p_config p)) (record09 c prev n (EvRecvEvent n frame ts) s) p' o.
Proof.
  intros Hc Hrem Hid Hbok Hts H prev Hprev.
  unfold handle_event_receive, parse_and_filter in H. unfold record09. rewrite Nat.eqb_refl, Hprev. cbn [negb].
  destruct (is_compatible frame) eqn:Ec; cbn [negb] in *;
    [|unfold ret in H; inversion H; subst; apply post_same; [exact Hc|reflexivity]].
  unfold decoded. destruct (decode frame) as [m|?] eqn:Ed;
    [|unfold ret in H; inversion H; subst; apply post_same; [exact Hc|reflexivity]].
  rewrite (andb_comm (h_domain (m_header m) =? _)).
  destruct ((h_sdo_id (m_header m) =? dd_sdo_id (ds_default d)) && (h_domain (m_header m) =? dd_domain (ds_default d)));
    [|unfold ret in H; inversion H; subst; apply post_same; [exact Hc|reflexivity]].
  unfold prepend in H.
  match type of H with obind ?X _ = _ => destruct X as [[[p1 d1] o2]|?] eqn:E end; cbn [obind] in H; [|discriminate].
  inversion H; subst. apply (post_prepend _ _ _ _ _ [rd_lock] o2); [reflexivity|].
  destruct (decoded_wf frame m Hbok Ed) as (Hh & Hb & _).
  pose proof (fun dd => general_post c n p dd ti m s parent p' d' o2 Hc Hrem Hid Hh Hb) as Hgen.
  destruct (m_body m) eqn:Eb; try (eapply Hgen; exact E).
  - eapply handle_sync_post; eassumption.
  - eapply handle_delay_req_post; eauto.
  - eapply handle_pdelay_req_post; eauto.
  - eapply handle_peer_delay_response_post; eauto.
Qed.

Lemma send_timestamp_post c n p d ctx ts s parent p' d' o :
  cpl p s -> (forall st, p_state p = PSlave st -> ss_remote st = parent) ->
  handle_send_timestamp p d ctx ts = Ok (p', d', o) ->
  forall prev, post p parent (pc_asymmetry (p_config p)) (record09 c prev n (EvSendTimestamp n ctx ts) s) p' o.
Proof.
  intros Hc Hrem H prev. unfold handle_send_timestamp in H. unfold record09.
  destruct ctx; try rewrite Nat.eqb_refl; cbn [negb].
  - eapply handle_sync_timestamp_post; eauto.
  - eapply handle_delay_timestamp_post; eauto.
  - eapply handle_pdelay_timestamp_post; eauto.
  - eapply handle_pdelay_response_timestamp_post; eauto.
Qed.

Definition stays (pp pp' : port) : Prop :=
  is_slave (p_state pp') = false \/
  exists st st', p_state pp = PSlave st /\ p_state pp' = PSlave st' /\ ss_remote st' = ss_remote st.

Lemma stays_refl pp : stays pp pp.
Proof. unfold stays. destruct (p_state pp) as [| | | |st] eqn:E; auto. right. exists st, st. auto. Qed.

Lemma remote_stays pp pp' :
  remote_of (p_state pp') = remote_of (p_state pp) \/ remote_of (p_state pp') = None -> stays pp pp'.
Proof.
  unfold stays. intros [H|H].
  - destruct (p_state pp') as [| | | |st'] eqn:E'; auto. right.
    destruct (p_state pp) as [| | | |st] eqn:E; cbn in H; try discriminate. inversion H. exists st, st'. auto.
  - left. destruct (p_state pp'); try reflexivity. discriminate H.
Qed.

(** every call addressed to port [n], judged against the oracle's record for [n] *)
Lemma port_call_post c i n e pp s i' o :
  event_port e = Some n -> nth_error (i_ports i) n = Some pp ->
  cpl pp s -> (forall st, p_state pp = PSlave st -> ss_remote st = parent_id (i_ds i)) ->
  p_identity pp = port_id c n -> event_valid e -> step i e = Ok (i', o) ->
  exists pp' oo, i_ports i' = update_nth n pp' (i_ports i) /\ o = tag n oo /\
    post pp (parent_id (i_ds i)) (pc_asymmetry (p_config pp)) (record09 c (snapshot_of i) n e s) pp' oo /\
    stays pp pp'.
Proof.
  intros Hev Hn Hc Hrem Hid He Hs.
  assert (Hon : forall f, on_port i n f = Ok (i', o) ->
            exists pp' d' oo, f pp (i_ds i) = Ok (pp', d', oo) /\ i_ports i' = update_nth n pp' (i_ports i) /\ o = tag n oo).
  { intros f H. unfold on_port in H. rewrite Hn in H.
    destruct (f pp (i_ds i)) as [[[pp' d'] oo]|?]; cbn [obind] in H; [|discriminate].
    inversion H; subst. exists pp', d', oo. repeat split. }
  destruct e; cbn [event_port] in Hev; try discriminate Hev; inversion Hev; subst; cbn [step event_valid] in *;
    destruct (Hon _ Hs) as (pp' & d' & oo & Hh & Hports & Ho); exists pp', oo; (split; [exact Hports|]); (split; [exact Ho|]);
    (split; [|apply remote_stays]).
  - destruct He as [Hb Ht]. eapply receive_event_post; eauto.
  - eapply handle_event_receive_remote; exact Hh.
  - eapply receive_general_post; eauto.
  - eapply handle_general_receive_remote; exact Hh.
  - eapply send_timestamp_post; eauto.
  - eapply handle_send_timestamp_remote; exact Hh.
  - eapply send_announce_post; eauto.
  - eapply send_announce_remote; exact Hh.
  - eapply send_sync_post; eauto.
  - eapply send_sync_remote; exact Hh.
  - eapply send_delay_request_post; eauto.
  - eapply send_delay_request_remote; exact Hh.
  - eapply receipt_timer_post; eauto.
  - eapply receipt_timer_remote; exact Hh.
  - eapply filter_update_post; eauto.
  - unfold handle_filter_update_timer, ret in Hh. inversion Hh; subst. left. reflexivity.
Qed.

(** * BMCA: a port keeps its exchange state, stops being slave, or starts a fresh slave episode *)
Definition fresh_slave (s : port_state) : Prop := exists r, s = PSlave (mkSS r MEmpty MEmpty None).
Definition bm_rel (p p' : port) : Prop :=
  p_mean_delay p' = p_mean_delay p /\ p_peer p' = p_peer p /\
  (p_state p' = p_state p \/ is_slave (p_state p') = false \/
   (fresh_slave (p_state p') /\ remote_of (p_state p) <> remote_of (p_state p'))).
Definition same3 (p p' : port) : Prop :=
  p_state p' = p_state p /\ p_mean_delay p' = p_mean_delay p /\ p_peer p' = p_peer p.

Lemma calc_local_best_same3 p b : calc_local_best p = Ok b -> same3 p (bp_port b).
Proof.
  unfold calc_local_best. destruct (bmca_take_best _ _ _ _) as [r|?]; cbn [obind]; [|discriminate].
  intros H. inversion H; repeat split.
Qed.
Lemma step_announce_age_same3 step p p' : step_announce_age step p = Ok p' -> same3 p p'.
Proof.
  unfold step_announce_age. destruct (dur_from_log_interval _); cbn [obind]; [|discriminate].
  intros H. inversion H; subst. destruct (p_multiport_disable p); repeat split.
Qed.

Lemma srpt_bm_rel b rs dd b1 : set_recommended_port_state b rs dd = Ok b1 -> bm_rel (bp_port b) (bp_port b1).
Proof.
  intros H. unfold set_recommended_port_state, set_forced in H.
  destruct rs as [d0|d0|h a|h a|h a|h a];
    crunch H; cbn [bp_port];
    repeat match goal with E : draw _ = (_, _) |- _ => apply draw_fields in E; destruct E as (? & ? & ?) end;
    unfold bm_rel;
    repeat match goal with E : p_peer _ = _ |- _ => rewrite E end;
    repeat match goal with E : p_mean_delay _ = _ |- _ => rewrite E end;
    repeat match goal with E : p_state _ = p_state _ |- _ => rewrite E end;
    cbn [port_with_state p_peer p_mean_delay p_state is_slave];
    (split; [reflexivity|split; [reflexivity|]]); auto;
    try (right; right; split; [eexists; reflexivity|]);
    repeat match goal with E : p_state _ = _ |- _ => rewrite E end; cbn [remote_of ss_remote]; try discriminate.
  destruct (p_state (bp_port b)) as [| | | |st]; cbn [remote_of]; try discriminate.
  intros Hx. inversion Hx as [Hy]. rewrite Hy, pi_eqb_refl in E0. discriminate E0.
Qed.

Lemma srs_bm_rel b rs d b' d' : set_recommended_state b rs d = Ok (b', d') -> bm_rel (bp_port b) (bp_port b').
Proof.
  unfold set_recommended_state. intros H.
  destruct (set_recommended_port_state b rs (ds_default d)) as [b1|?] eqn:E1; cbn [obind] in H; [|discriminate].
  pose proof (srpt_bm_rel _ _ _ _ E1) as H1.
  destruct rs; crunch H; cbn [bp_port]; exact H1.
Qed.

Lemma bm_rel_refl p : bm_rel p p.
Proof. repeat split; auto. Qed.

Lemma bmca_decide_bm ebest : forall todo done d done' d',
  bmca_decide ebest d todo done = Ok (done', d') ->
  exists tail, done' = done ++ tail /\ Forall2 (fun b b' => bm_rel (bp_port b) (bp_port b')) todo tail.
Proof.
  induction todo as [|b todo IH]; intros done d done' d' H; cbn [bmca_decide] in H.
  - inversion H; subst. exists []. rewrite app_nil_r. split; [reflexivity|constructor].
  - destruct (recommended_state _ _ _ _) as [r|?]; cbn [obind] in H; [|discriminate].
    destruct r as [rs|].
    + destruct (set_recommended_state b rs d) as [[b' d1]|?] eqn:E; cbn [obind fst snd] in H; [|discriminate].
      destruct (IH _ _ _ _ H) as (tail & -> & Ht). exists (b' :: tail). rewrite <- app_assoc. split; [reflexivity|].
      constructor; [eapply srs_bm_rel; exact E|exact Ht].
    + destruct (IH _ _ _ _ H) as (tail & -> & Ht). exists (b :: tail). rewrite <- app_assoc. split; [reflexivity|].
      constructor; [apply bm_rel_refl|exact Ht].
Qed.

Lemma bmca_bm_rel i i' o : bmca i = Ok (i', o) -> Forall2 bm_rel (i_ports i) (i_ports i').
Proof.
  unfold bmca. intros H.
  destruct (bmca_interval_dur _) as [step|?]; cbn [obind] in H; [|discriminate].
  destruct (negb _); [discriminate|].
  destruct (omap_list calc_local_best (i_ports i)) as [bps|?] eqn:E1; cbn [obind] in H; [|discriminate].
  destruct (find_best _) as [ebest|?]; cbn [obind] in H; [|discriminate].
  destruct (bmca_decide ebest (i_ds i) bps []) as [[bps1 d1]|?] eqn:E2; cbn [obind] in H; [|discriminate].
  destruct (omap_list _ bps1) as [ports|?] eqn:E3; cbn [obind] in H; [|discriminate].
  inversion H; subst. cbn [i_ports].
  pose proof (omap_list_rel _ (fun p b => same3 p (bp_port b)) calc_local_best_same3 _ _ E1) as R1.
  destruct (bmca_decide_bm _ _ _ _ _ _ E2) as (tail & Ht & R2). cbn [app] in Ht. subst tail.
  pose proof (omap_list_rel _ (fun b p' => same3 (bp_port b) p')
                (fun b p' Hx => step_announce_age_same3 _ _ _ Hx) _ _ E3) as R3.
  clear - R1 R2 R3. revert bps1 ports R2 R3. induction R1 as [|p b lp lb Hpb _ IH]; intros bps1 ports R2 R3.
  - inversion R2; subst. inversion R3; subst. constructor.
  - inversion R2 as [|? b1 ? lb1 Hb1 R2']; subst. inversion R3 as [|? p' ? lp' Hp' R3']; subst.
    constructor; [|eapply IH; eassumption].
    destruct Hpb as (A1 & A2 & A3). destruct Hb1 as (B1 & B2 & B3). destruct Hp' as (C1 & C2 & C3).
    unfold bm_rel. rewrite C2, B1, A2, C3, B2, A3, C1. split; [reflexivity|split; [reflexivity|]].
    rewrite <- A1. exact B3.
Qed.

Lemma meas_of_nolock l : meas_of (filter (fun y => negb (MainC08Role.is_lock y)) l) = meas_of l.
Proof.
  unfold meas_of. induction l as [|y l IH]; [reflexivity|]. cbn [filter flat_map].
  destruct y; cbn [MainC08Role.is_lock negb flat_map]; rewrite ?IH; reflexivity.
Qed.

Lemma bmca_no_meas i i' o : inst_inv i -> bmca i = Ok (i', o) -> forall q, meas_of (obs_of_port o q) = [].
Proof.
  intros Hi Hb q.
  destruct (bmca_ok i Hi) as (i2 & o2 & Hb2 & _ & _ & _ & _ & bps1 & Ho & Hq).
  rewrite Hb in Hb2. injection Hb2 as E1 E2. subst i2 o2. rewrite Ho.
  rewrite !obs_of_port_app.
  assert (Hw : obs_of_port [(-1, wr_lock)] q = []).
  { unfold obs_of_port. cbn [filter fst]. destruct (-1 =? Z.of_nat q) eqn:E; [lia|reflexivity]. }
  rewrite Hw. cbn [app]. rewrite !obs_of_port_tag_ports. rewrite Nat.sub_0_r. cbn [Nat.leb].
  destruct (nth_error bps1 q) as [b|] eqn:Eb; [|reflexivity].
  assert (Hbq : bquiet b).
  { clear - Hq Eb. revert q Eb. induction Hq as [|y z ly lz Hyz _ IH]; intros [|q] Eb; cbn in *; try discriminate.
    - inversion Eb; subst. apply Hyz.
    - eapply IH; eauto. }
  destruct Hbq as [Q1 Q2].
  assert (Hns : forall l sl, forallb (bobs_ok sl) l = true -> meas_of l = []).
  { intros l sl Hl. unfold meas_of. induction l as [|y l IH]; cbn [flat_map]; [reflexivity|].
    cbn [forallb] in Hl. apply andb_true_iff in Hl as [Hy Hl]. rewrite (IH Hl). destruct y; try reflexivity; discriminate. }
  rewrite meas_of_app, !meas_of_nolock. rewrite (Hns _ _ Q1), (Hns _ _ Q2). reflexivity.
Qed.

(** * one step of the oracle, port by port *)
Definition reset9 (s : pstate09) : pstate09 := mkP9 [] [] [] [] None (mean_delay9 s).

Lemma state_of_snapshot i n pp : nth_error (i_ports i) n = Some pp ->
  state_of (snapshot_of i) n = port_state_code (p_state pp).
Proof.
  intros H. unfold state_of, snapshot_of. cbn [sn_states].
  erewrite nth_error_nth; [reflexivity|]. rewrite nth_error_map, H. reflexivity.
Qed.

Lemma code_slave s : (port_state_code s =? 9) = is_slave s.
Proof. destruct s; reflexivity. Qed.

Lemma finish i i' p pp pp' s2 :
  slave_parent i -> slave_parent i' ->
  nth_error (i_ports i) p = Some pp -> nth_error (i_ports i') p = Some pp' ->
  ((cpl pp' s2 /\ stays pp pp') \/
   (fresh_slave (p_state pp') /\ remote_of (p_state pp) <> remote_of (p_state pp') /\
    peer_incomplete (p_peer pp') /\ p_mean_delay pp' = mean_delay9 s2)) ->
  cpl pp' (if negb (state_of (snapshot_of i) p =? state_of (snapshot_of i') p)
              || negb (pi_eqb (parent_id (i_ds i)) (parent_id (i_ds i')))
           then reset9 s2 else s2).
Proof.
  intros Hsp Hsp' Hn Hn' H.
  rewrite (state_of_snapshot i p pp Hn), (state_of_snapshot i' p pp' Hn').
  destruct H as [[Hc Hst]|(Hf & Hne & Hp & Hm)].
  - destruct Hst as [Hns|(st & st' & E & E' & Hr)].
    + destruct (_ || _); [|exact Hc]. destruct Hc as [Hp [Hm _]]. split; [exact Hp|]. split; [exact Hm|].
      intros st Hst. rewrite Hst in Hns. discriminate.
    + rewrite E, E'. cbn [port_state_code]. rewrite Z.eqb_refl. cbn [negb orb].
      rewrite <- (Hsp pp st (nth_error_In _ _ Hn) E), <- (Hsp' pp' st' (nth_error_In _ _ Hn') E'), Hr, pi_eqb_refl.
      exact Hc.
  - destruct Hf as [r Hf].
    assert (Hch : negb (port_state_code (p_state pp) =? port_state_code (p_state pp'))
                  || negb (pi_eqb (parent_id (i_ds i)) (parent_id (i_ds i'))) = true).
    { rewrite Hf. cbn [port_state_code]. destruct (p_state pp) as [| | | |st] eqn:E; try reflexivity.
      cbn [port_state_code]. rewrite Z.eqb_refl. cbn [negb orb].
      rewrite <- (Hsp pp st (nth_error_In _ _ Hn) E), <- (Hsp' pp' _ (nth_error_In _ _ Hn') Hf). cbn [ss_remote].
      destruct (pi_eqb (ss_remote st) r) eqn:Ee; [|reflexivity]. apply pi_eqb_eq in Ee. exfalso. apply Hne.
      rewrite Hf. cbn. rewrite Ee. reflexivity. }
    rewrite Hch. split; [exact Hp|]. split; [exact Hm|]. intros st Hst. rewrite Hf in Hst. inversion Hst; subst.
    split; [reflexivity|split; exact I].
Qed.

Lemma record09_other c prev p e n s : event_port e = Some n -> n <> p -> record09 c prev p e s = s.
Proof.
  intros He Hne. assert (Hb : Nat.eqb p n = false) by (apply Nat.eqb_neq; auto).
  destruct e; cbn [event_port] in He; inversion He; subst; unfold record09; rewrite ?Hb; try reflexivity.
  destruct ctx; rewrite ?Hb; reflexivity.
Qed.

Lemma record09_none c prev p e s : event_port e = None -> record09 c prev p e s = s.
Proof. destruct e; cbn [event_port]; intros H; try discriminate H; reflexivity. Qed.

Lemma nth_error_update_same {A} n (x : A) l : (n < length l)%nat -> nth_error (update_nth n x l) n = Some x.
Proof. revert n; induction l as [|y l IH]; intros [|n] H; cbn in *; try lia; [reflexivity|apply IH; lia]. Qed.
Lemma nth_error_update_other {A} n m (x : A) l : n <> m -> nth_error (update_nth n x l) m = nth_error l m.
Proof.
  revert n m; induction l as [|y l IH]; intros [|n] [|m] H; cbn; try reflexivity; try congruence.
  apply IH. congruence.
Qed.


Lemma Forall2_nth {A B} (R : A -> B -> Prop) l l' : Forall2 R l l' ->
  forall n x, nth_error l n = Some x -> exists y, nth_error l' n = Some y /\ R x y.
Proof.
  induction 1 as [|a b l l' Hab _ IH]; intros [|n] x Hn; cbn in *; try discriminate.
  - inversion Hn; subst. exists b. auto.
  - apply IH. exact Hn.
Qed.

Definition changed9 (i i' : instance) (p : nat) : bool :=
  negb (state_of (snapshot_of i) p =? state_of (snapshot_of i') p)
  || negb (pi_eqb (parent_id (i_ds i)) (parent_id (i_ds i'))).

Lemma port_C09 c i e i' o p pp s0 :
  reach_inv c i -> event_valid e -> step i e = Ok (i', o) ->
  nth_error (i_ports i) p = Some pp -> cpl pp s0 ->
  exists pp' s2, nth_error (i_ports i') p = Some pp' /\
    meas_all (parent_id (i_ds i)) (pc_asymmetry (p_config pp)) (record09 c (snapshot_of i) p e s0)
             (meas_of (obs_of_port o p)) = Some s2 /\
    (is_slave (p_state pp) = false -> existsb is_sd (meas_of (obs_of_port o p)) = false) /\
    cpl pp' (if changed9 i i' p then reset9 s2 else s2).
Proof.
  intros Hr He Hs Hn Hc.
  pose proof (reach_step c i e i' o Hr He Hs) as Hr'.
  destruct Hr as [Hi Hclk Hsp Hacc Hcf]. destruct Hr' as [Hi' _ Hsp' _ _].
  assert (Hlen : (p < length (i_ports i))%nat) by (apply nth_error_Some; rewrite Hn; discriminate).
  assert (Hrem : forall st, p_state pp = PSlave st -> ss_remote st = parent_id (i_ds i)).
  { intros st Hst. exact (Hsp pp st (nth_error_In _ _ Hn) Hst). }
  assert (Hid : p_identity pp = port_id c p).
  { destruct Hi as (_ & _ & Hids & _). rewrite (Hids p pp Hn). unfold port_id. rewrite <- Hclk. reflexivity. }
  (* a port the call does not touch *)
  assert (Hidle : record09 c (snapshot_of i) p e s0 = s0 -> obs_of_port o p = [] -> nth_error (i_ports i') p = Some pp ->
            exists pp' s2, nth_error (i_ports i') p = Some pp' /\
              meas_all (parent_id (i_ds i)) (pc_asymmetry (p_config pp)) (record09 c (snapshot_of i) p e s0)
                       (meas_of (obs_of_port o p)) = Some s2 /\
              (is_slave (p_state pp) = false -> existsb is_sd (meas_of (obs_of_port o p)) = false) /\
              cpl pp' (if changed9 i i' p then reset9 s2 else s2)).
  { intros H1 H2 H3. exists pp, s0. rewrite H1, H2. split; [exact H3|]. split; [reflexivity|]. split; [reflexivity|].
    apply (finish i i' p pp pp s0 Hsp Hsp' Hn H3). left. split; [exact Hc|apply stays_refl]. }
  destruct (event_port e) as [n|] eqn:Eev.
  - destruct (Nat.eq_dec n p) as [->|Hne].
    + destruct (port_call_post c i p e pp s0 i' o Eev Hn Hc Hrem Hid He Hs) as (pp' & oo & Hports & Ho & [Hp1 (s2 & Hm & Hc2)] & Hst).
      assert (Hn' : nth_error (i_ports i') p = Some pp') by (rewrite Hports; apply nth_error_update_same; exact Hlen).
      exists pp', s2. split; [exact Hn'|].
      assert (Hoo : meas_of (obs_of_port o p) = meas_of oo).
      { rewrite Ho, obs_of_port_tag_same. apply meas_of_nolock. }
      rewrite Hoo. split; [exact Hm|]. split; [exact Hp1|].
      apply (finish i i' p pp pp' s2 Hsp Hsp' Hn Hn'). left. split; assumption.
    + assert (Hon : forall f, on_port i n f = Ok (i', o) -> obs_of_port o p = [] /\ nth_error (i_ports i') p = Some pp).
      { intros f H. unfold on_port in H. destruct (nth_error (i_ports i) n) as [q|]; [|inversion H; subst; split; [reflexivity|exact Hn]].
        destruct (f q (i_ds i)) as [[[q' d'] oo]|?]; cbn [obind] in H; [|discriminate]. inversion H; subst. cbn [i_ports].
        split; [apply obs_of_port_tag_other; auto|]. rewrite nth_error_update_other; [exact Hn|exact Hne]. }
      assert (Hx : obs_of_port o p = [] /\ nth_error (i_ports i') p = Some pp).
      { destruct e; cbn [event_port] in Eev; try discriminate Eev; inversion Eev; subst; cbn [step] in Hs; eapply Hon; exact Hs. }
      destruct Hx as [H2 H3]. apply Hidle; [eapply record09_other; eauto|exact H2|exact H3].
  - destruct e; cbn [event_port] in Eev; try discriminate Eev; cbn [step] in Hs.
    + (* BMCA *)
      pose proof (bmca_no_meas i i' o Hi Hs p) as Hnm.
      destruct (Forall2_nth _ _ _ (bmca_bm_rel i i' o Hs) p pp Hn) as (pp' & Hn' & Hm & Hp & Hst).
      exists pp', s0. split; [exact Hn'|]. rewrite Hnm. cbn [record09]. split; [reflexivity|]. split; [reflexivity|].
      apply (finish i i' p pp pp' s0 Hsp Hsp' Hn Hn').
      destruct Hc as [Hpc [Hmc Hsc]].
      destruct Hst as [Hsame|[Hns|[Hf Hne]]].
      * left. split.
        -- split; [rewrite Hp; exact Hpc|]. split; [rewrite Hm; exact Hmc|]. intros st Hst. rewrite Hsame in Hst. exact (Hsc st Hst).
        -- unfold stays. destruct (p_state pp') as [| | | |st'] eqn:E'; auto. right. exists st', st'. auto.
      * left. split.
        -- split; [rewrite Hp; exact Hpc|]. split; [rewrite Hm; exact Hmc|]. intros st Hst. rewrite Hst in Hns. discriminate.
        -- left. exact Hns.
      * right. split; [exact Hf|]. split; [exact Hne|]. split; [rewrite Hp; exact Hpc|rewrite Hm; exact Hmc].
    + inversion Hs; subst. apply Hidle; [reflexivity| |exact Hn].
      unfold obs_of_port. cbn [filter fst]. destruct (-1 =? Z.of_nat p) eqn:E; [lia|reflexivity].
    + inversion Hs; subst. apply Hidle; [reflexivity| |exact Hn].
      unfold obs_of_port. cbn [filter fst]. destruct (-1 =? Z.of_nat p) eqn:E; [lia|reflexivity].
    + inversion Hs; subst. apply Hidle; [reflexivity|reflexivity|exact Hn].
Qed.

(** * the fold over the ports and the walk over the history *)
Lemma fold_opt {S} (g : option (list S) -> nat -> option (list S)) (Q : nat -> S -> Prop) l : forall done,
  (forall p, In p l -> exists x, Q p x /\ forall dn, g (Some dn) p = Some (dn ++ [x])) ->
  exists xs, fold_left g l (Some done) = Some (done ++ xs) /\ Forall2 Q l xs.
Proof.
  induction l as [|p l IH]; intros done H; cbn [fold_left].
  - exists []. rewrite app_nil_r. split; [reflexivity|constructor].
  - destruct (H p (or_introl eq_refl)) as (x & Hq & Hg). rewrite Hg.
    destruct (IH (done ++ [x]) (fun q Hq' => H q (or_intror Hq'))) as (xs & Hf & Hall).
    exists (x :: xs). rewrite Hf, <- app_assoc. split; [reflexivity|constructor; assumption].
Qed.

Definition cpl_all (i : instance) (st : list pstate09) : Prop :=
  forall n pp, nth_error (i_ports i) n = Some pp -> cpl pp (nth n st p9_empty).

Lemma ports_len c i : reach_inv c i -> length (i_ports i) = nports c.
Proof.
  intros [_ _ _ _ Hcf]. unfold nports. apply (f_equal (@length _)) in Hcf.
  unfold cfgs_of in Hcf. rewrite !map_length in Hcf. exact Hcf.
Qed.

Lemma port_cfg_of c i n pp : reach_inv c i -> nth_error (i_ports i) n = Some pp -> port_cfg c n = Some (p_config pp).
Proof.
  intros [_ _ _ _ Hcf] Hn. unfold port_cfg.
  assert (Hx : nth_error (cfgs_of i) n = Some (p_config pp)) by (unfold cfgs_of; rewrite nth_error_map, Hn; reflexivity).
  rewrite Hcf, nth_error_map in Hx. destruct (nth_error (su_ports (pc_setup c)) n) as [[pc r]|]; [|discriminate].
  cbn in Hx. inversion Hx. reflexivity.
Qed.

Lemma step_C09_model c i st e i' o :
  reach_inv c i -> cpl_all i st -> event_valid e -> step i e = Ok (i', o) ->
  exists st', step_C09 c st (snapshot_of i) e o (snapshot_of i') = Some st' /\ cpl_all i' st'.
Proof.
  intros Hr Hall He Hs.
  pose proof (reach_step c i e i' o Hr He Hs) as Hr'.
  unfold step_C09.
  match goal with |- exists st', fold_left ?g _ _ = _ /\ _ =>
    destruct (fold_opt g (fun p x => forall pp', nth_error (i_ports i') p = Some pp' -> cpl pp' x) (all_ports c) [])
      as (xs & Hf & HQ) end.
  - intros p Hp. unfold all_ports in Hp. apply in_seq in Hp. rewrite <- (ports_len c i Hr) in Hp.
    destruct (nth_error (i_ports i) p) as [pp|] eqn:Hn; [|apply nth_error_None in Hn; lia].
    destruct (port_C09 c i e i' o p pp (nth p st p9_empty) Hr He Hs Hn (Hall p pp Hn)) as (pp' & s2 & Hn' & Hm & Hsd & Hc).
    exists (if changed9 i i' p then reset9 s2 else s2). split.
    + intros pp2 Hn2. rewrite Hn' in Hn2. inversion Hn2; subst. exact Hc.
    + intros dn. rewrite (port_cfg_of c i p pp Hr Hn).
      rewrite (state_of_snapshot i p pp Hn), code_slave.
      change (fun m : measurement => match me_raw_sync m with Some _ => true | None => match me_raw_delay m with Some _ => true | None => false end end)
        with is_sd.
      assert (Hg : negb (is_slave (p_state pp)) && existsb is_sd (meas_of (obs_of_port o p)) = false).
      { destruct (is_slave (p_state pp)) eqn:Esl; [reflexivity|]. rewrite (Hsd eq_refl). reflexivity. }
      rewrite Hg. change (pd_parent (ds_parent (sn_ds (snapshot_of i)))) with (parent_id (i_ds i)).
      rewrite Hm. rewrite <- (state_of_snapshot i p pp Hn). reflexivity.
  - cbn [app] in Hf. exists xs. split; [exact Hf|].
    intros n pp' Hn'.
    assert (Hlt : (n < nports c)%nat).
    { rewrite <- (ports_len c i' Hr'). apply nth_error_Some. rewrite Hn'. discriminate. }
    assert (Hseq : nth_error (all_ports c) n = Some n).
    { unfold all_ports. rewrite nth_error_nth' with (d := O) by (rewrite seq_length; exact Hlt). rewrite seq_nth by exact Hlt. reflexivity. }
    destruct (Forall2_nth _ _ _ HQ n n Hseq) as (y & Hy & Hq).
    rewrite (nth_error_nth _ _ _ Hy). apply Hq. exact Hn'.
Qed.

Lemma walk_C09_model c es : forall i st,
  reach_inv c i -> cpl_all i st -> Forall event_valid es ->
  walk (step_C09 c) st (snapshot_of i) es (run i es) = true.
Proof.
  induction es as [|e es IH]; intros i st Hr Hall Hes; cbn [run walk]; [reflexivity|].
  inversion Hes as [|? ? He Hes']; subst.
  destruct (step_ok i e (ri_inv _ _ Hr) He) as (i1 & o1 & Hs & _). rewrite Hs. cbn [walk].
  destruct (step_C09_model c i st e i1 o1 Hr Hall He Hs) as (st' & Hst & Hall'). rewrite Hst.
  apply IH; [eapply reach_step; eauto|exact Hall'|exact Hes'].
Qed.

Lemma add_ports_cpl0 ps : forall i acc i' o,
  Forall (fun p => cpl p p9_empty) (i_ports i) -> add_ports i ps acc = Ok (i', o) ->
  Forall (fun p => cpl p p9_empty) (i_ports i').
Proof.
  induction ps as [|[c r] ps IH]; intros i acc i' o Hn H; cbn [add_ports] in H.
  - inversion H; subst. exact Hn.
  - destruct (add_port i c r) as [[i1 o1]|?] eqn:E; cbn [obind fst snd] in H; [|discriminate].
    eapply IH; [|exact H]. unfold add_port in E. destruct (chk_u _ _ _); cbn [obind] in E; [|discriminate].
    match type of E with context [draw ?x] => destruct (draw x) as [k p1] eqn:Ed end.
    destruct (announce_interval_ti _); cbn [obind] in E; [|discriminate]. inversion E; subst. cbn [i_ports].
    apply Forall_app. split; [exact Hn|]. constructor; [|constructor].
    apply draw_fields in Ed. destruct Ed as (E1 & E2 & E3). cbn [p_state p_peer p_mean_delay] in *.
    split; [rewrite E2; exact I|]. split; [rewrite E3; reflexivity|]. intros st Hst. rewrite E1 in Hst. discriminate.
Qed.

Lemma nth_const {A} (x : A) (l : list nat) n : nth n (map (fun _ => x) l) x = x.
Proof. revert n; induction l as [|y l IH]; intros [|n]; cbn; auto. Qed.

(** the complete C09 oracle accepts the model's own trace, for every valid
    set-up and every valid event list *)
Theorem ok_C09_model s es rel :
  setup_valid s -> Forall event_valid es ->
  exists i o, init s = Ok (i, o) /\ ok_C09 (mkCase s es rel (Some o) (run i es)) = true.
Proof.
  intros Hs Hes. destruct (init_ok s Hs) as (i & o & Hi & _). exists i, o. split; [exact Hi|].
  unfold ok_C09. cbn [pc_events pc_trace]. unfold init_snap. cbn [pc_setup]. rewrite Hi.
  apply walk_C09_model; [apply reach_init; assumption| |exact Hes].
  intros n pp Hn. rewrite nth_const.
  assert (Hall : Forall (fun p => cpl p p9_empty) (i_ports i)).
  { unfold init in Hi. eapply add_ports_cpl0; [|exact Hi]. constructor. }
  rewrite Forall_forall in Hall. apply Hall. eapply nth_error_In; exact Hn.
Qed.
