(** Lemmas for C03: panic-freedom of the model's handlers under the stated ranges. *)
From SV Require Import Time.TimeCases Time.TimeLemmas Port.OracleC03 Port.OracleC10 Port.LemmasC10 Port.OracleC15 Port.LemmasC15.

Lemma encode_fits m : wire_size m <= MAX_DATA_LEN -> encode MAX_DATA_LEN m = Ok (encode_raw m).
Proof. unfold encode. intros H. destruct (MAX_DATA_LEN <? wire_size m) eqn:E; [lia|reflexivity]. Qed.

(** fixed-size messages always fit the packet buffer *)
Lemma small_message_fits h b :
  (match b with BAnnounce _ => False | _ => True end) ->
  serialize_packet (mkMsg h b []) = Ok (encode_raw (mkMsg h b [])).
Proof.
  intros Hb. unfold serialize_packet. apply encode_fits.
  destruct b; try contradiction; cbv; discriminate.
Qed.

Lemma send_sync_total p d : exists r, send_sync p d = Ok r.
Proof.
  unfold send_sync. destruct (is_master (p_state p)); [|eexists; reflexivity].
  unfold msg_sync. rewrite small_message_fits by exact I. cbn [obind]. eexists; reflexivity.
Qed.

Lemma sync_timestamp_total p d id ts : in_range_ts ts = true -> exists r, handle_sync_timestamp p d id ts = Ok r.
Proof.
  intros H. unfold handle_sync_timestamp. destruct (is_master (p_state p)); [|eexists; reflexivity].
  destruct (follow_up_exact (ds_default d) (p_identity p) id ts (pc_minor (p_config p)) H) as (w & Hm & _).
  rewrite Hm. cbn [obind]. rewrite small_message_fits by exact I. cbn [obind]. eexists; reflexivity.
Qed.

Lemma delay_req_total p d h ts : in_range_ts ts = true -> exists r, handle_delay_req p d h ts = Ok r.
Proof.
  intros H. unfold handle_delay_req. destruct (is_master (p_state p)); [|eexists; reflexivity].
  destruct (delay_resp_exact h (p_identity p) (dm_interval (pc_delay (p_config p))) ts H) as (w & Hm & _).
  rewrite Hm. cbn [obind]. rewrite small_message_fits by exact I. cbn [obind]. eexists; reflexivity.
Qed.

Lemma pdelay_req_total p d h ts : in_range_ts ts = true -> exists r, handle_pdelay_req p d h ts = Ok r.
Proof.
  intros H. unfold handle_pdelay_req.
  destruct (pdelay_resp_exact (ds_default d) (p_identity p) h ts (pc_minor (p_config p)) H) as (w & Hm & _).
  rewrite Hm. cbn [obind]. rewrite small_message_fits by exact I. cbn [obind]. eexists; reflexivity.
Qed.

Lemma pdelay_response_timestamp_total p d id rq ts :
  in_range_ts ts = true -> exists r, handle_pdelay_response_timestamp p d id rq ts = Ok r.
Proof.
  intros H. unfold handle_pdelay_response_timestamp.
  destruct (pdelay_resp_follow_up_exact (ds_default d) (p_identity p) rq id ts (pc_minor (p_config p)) H) as (w & Hm & _).
  rewrite Hm. cbn [obind]. rewrite small_message_fits by exact I. cbn [obind]. eexists; reflexivity.
Qed.

Lemma send_delay_request_total p d : exists r, send_delay_request p d = Ok r.
Proof.
  unfold send_delay_request. destruct (pc_delay (p_config p)).
  - destruct (p_state p); try (eexists; reflexivity).
    unfold msg_delay_req. rewrite small_message_fits by exact I. cbn [obind].
    match goal with |- context [draw ?x] => destruct (draw x) end. eexists; reflexivity.
  - unfold msg_pdelay_req. rewrite small_message_fits by exact I. cbn [obind].
    match goal with |- context [draw ?x] => destruct (draw x) end. eexists; reflexivity.
Qed.

(** an Announce with its TLVs always fits: the path TLV is added only below the
    margin and the forwarded TLVs never exceed the remaining room (repaired F4) *)
Lemma send_announce_total p d q : (length (ds_path d) <= 200)%nat -> exists r, send_announce p d q = Ok r.
Proof.
  intros Hlen. unfold send_announce. destruct (is_master (p_state p)); [|eexists; reflexivity].
  set (m := msg_announce d (p_identity p) (p_seq_announce p) (pc_minor (p_config p))).
  assert (Hw : wire_size m = 64) by reflexivity.
  set (margin0 := MAX_DATA_LEN - wire_size m).
  assert (Hm0 : margin0 = 960) by (unfold margin0; rewrite Hw; reflexivity).
  match goal with |- context [let '(a, b) := ?X in _] => set (pm := X) end.
  assert (Hpm : blen (fst pm) + snd pm = margin0 /\ 0 <= snd pm).
  { subst pm. destruct (ds_path_enable d); [|cbn; lia].
    destruct (length (ds_path d) <? PATH_CAPACITY)%nat; [|cbn; lia].
    match goal with |- context [if ?c then _ else _] => destruct c eqn:Ec end; [|cbn; lia].
    cbn [fst snd]. rewrite encode_tlv_length. cbn [tlv_value]. lia. }
  destruct pm as [path_bytes margin1]. cbn [fst snd] in Hpm.
  destruct (tlv_loop_refines_spec (length q) q margin1 (pd_parent (ds_parent d)) (ds_path_enable d) path_bytes [])
    as [locks Hloop].
  rewrite Hloop. cbn [obind].
  unfold serialize_packet. rewrite encode_fits.
  - cbn [obind]. eexists; reflexivity.
  - unfold wire_size. cbn [m_body m_suffix]. change (body_size (m_body m)) with 30.
    unfold blen. rewrite app_length, Nat2Z.inj_add.
    fold (blen path_bytes). fold (blen (flat_map encode_tlv (expected_fwd (length q) q margin1 (pd_parent (ds_parent d)) (ds_path_enable d)))).
    rewrite encode_tlvs_length.
    pose proof (expected_fwd_fits (length q) q margin1 (pd_parent (ds_parent d)) (ds_path_enable d) ltac:(lia)).
    unfold MAX_DATA_LEN in *. lia.
Qed.
