(** C12, cadence of Delay_Req in safety form: after the delay request timer of an
    end-to-end SLAVE port has fired, and for as long as the port stays slave of
    the same master and that timer does not fire, nothing touches that timer:
    its deadline in the host's book is the firing time + the duration the call
    asked for, which is at most two delay request intervals ([dreq_duration_bound]). *)
From SV Require Export Port.CadenceC12 Port.DreqBound.
Local Open Scope Z_scope.

Definition is_reset2 (x : obs) : bool := match x with AResetDelayRequestTimer _ => true | _ => false end.
Definition quiet2 (oo : list obs) : bool := forallb (fun x => negb (is_reset2 x)) oo.
Lemma quiet2_app a b : quiet2 (a ++ b) = quiet2 a && quiet2 b.
Proof. apply forallb_app. Qed.

Lemma extract_quiet2 p p' om o : extract_measurement p = Ok (p', om, o) -> quiet2 o = true.
Proof.
  unfold extract_measurement, set_forced. intros H. crunch H;
    repeat match goal with E : (if ?c then _ else _) = (_, _) |- _ => destruct c; inversion E; subst; clear E end;
    repeat match goal with |- context [if ?c then _ else _] => destruct c end; reflexivity.
Qed.
Lemma htm_quiet2 q d q' d' o : handle_time_measurement q d = Ok (q', d', o) -> quiet2 o = true.
Proof.
  unfold handle_time_measurement. intros H.
  destruct (extract_measurement q) as [[[p1 om] o1]|?] eqn:E; cbn [obind] in H; [|discriminate].
  apply extract_quiet2 in E. destruct om as [m|]; [destruct (filter_mean_delay m)|]; unfold ret in H; inversion H; subst;
    rewrite ?quiet2_app, ?E; reflexivity.
Qed.
Ltac q2_tac H :=
  crunch H;
  first [ reflexivity
        | match goal with Hx : handle_time_measurement _ _ = Ok _ |- _ => exact (htm_quiet2 _ _ _ _ _ Hx) end
        | match goal with Hx : go_faulty _ _ = Ok _ |- _ =>
            unfold go_faulty, set_forced, ret in Hx; repeat match type of Hx with context [if ?c then _ else _] => destruct c end; inversion Hx; reflexivity end ].

Lemma handle_sync_quiet2 p d h w t p' d' o : handle_sync p d h w t = Ok (p', d', o) -> quiet2 o = true.
Proof. intros H. unfold handle_sync in H. q2_tac H. Qed.
Lemma handle_follow_up_quiet2 p d h w p' d' o : handle_follow_up p d h w = Ok (p', d', o) -> quiet2 o = true.
Proof. intros H. unfold handle_follow_up in H. q2_tac H. Qed.
Lemma handle_delay_resp_quiet2 p d h w r p' d' o : handle_delay_resp p d h w r = Ok (p', d', o) -> quiet2 o = true.
Proof. intros H. unfold handle_delay_resp in H. q2_tac H. Qed.
Lemma handle_delay_timestamp_quiet2 p d id t p' d' o : handle_delay_timestamp p d id t = Ok (p', d', o) -> quiet2 o = true.
Proof. intros H. unfold handle_delay_timestamp in H. q2_tac H. Qed.
Lemma handle_pdelay_timestamp_quiet2 p d id t p' d' o : handle_pdelay_timestamp p d id t = Ok (p', d', o) -> quiet2 o = true.
Proof. intros H. unfold handle_pdelay_timestamp in H. q2_tac H. Qed.
Lemma handle_peer_delay_response_quiet2 p d h w r t p' d' o : handle_peer_delay_response p d h w r t = Ok (p', d', o) -> quiet2 o = true.
Proof. intros H. unfold handle_peer_delay_response in H. q2_tac H. Qed.
Lemma handle_peer_delay_follow_up_quiet2 p d h w r p' d' o : handle_peer_delay_follow_up p d h w r = Ok (p', d', o) -> quiet2 o = true.
Proof. intros H. unfold handle_peer_delay_follow_up in H. cbv zeta in H. q2_tac H. Qed.
Lemma handle_delay_req_quiet2 p d h ts p' d' o : handle_delay_req p d h ts = Ok (p', d', o) -> quiet2 o = true.
Proof. intros H. unfold handle_delay_req in H. q2_tac H. Qed.
Lemma handle_pdelay_req_quiet2 p d h ts p' d' o : handle_pdelay_req p d h ts = Ok (p', d', o) -> quiet2 o = true.
Proof. intros H. unfold handle_pdelay_req in H. q2_tac H. Qed.
Lemma handle_sync_timestamp_quiet2 p d id ts p' d' o : handle_sync_timestamp p d id ts = Ok (p', d', o) -> quiet2 o = true.
Proof. intros H. unfold handle_sync_timestamp in H. q2_tac H. Qed.
Lemma handle_pdelay_response_timestamp_quiet2 p d id rq ts p' d' o :
  handle_pdelay_response_timestamp p d id rq ts = Ok (p', d', o) -> quiet2 o = true.
Proof. intros H. unfold handle_pdelay_response_timestamp in H. q2_tac H. Qed.
Lemma send_sync_quiet2 p d p' d' o : send_sync p d = Ok (p', d', o) -> quiet2 o = true.
Proof. intros H. unfold send_sync in H. q2_tac H. Qed.
Lemma forward_obs_quiet2 sfx src : quiet2 (forward_obs sfx src) = true.
Proof. unfold forward_obs, quiet2. rewrite forallb_forall. intros x Hx. apply in_map_iff in Hx as (t & <- & _). reflexivity. Qed.
Lemma handle_announce_quiet2 p d ti m a p' d' o : handle_announce p d ti m a = Ok (p', d', o) -> quiet2 o = true.
Proof.
  intros H. unfold handle_announce in H. cbv zeta in H.
  match type of H with obind ?X _ = _ => destruct X as [[[d1 lp] locks]|?] eqn:E end; cbn [obind] in H; [|discriminate].
  assert (Hl : quiet2 locks = true) by (crunch E; reflexivity).
  destruct lp; [unfold ret in H; inversion H; subst; exact Hl|].
  destruct (bmca_register _ _ _ _ _ _) as [acc fml]. destruct acc; [|unfold ret in H; inversion H; subst; exact Hl].
  unfold set_forced in H.
  match type of H with context [if ?c then _ else _] => destruct c end;
    match type of H with context [draw ?x] => destruct (draw x) as [k p3] end;
    unfold ret in H; inversion H; subst; rewrite !quiet2_app, Hl; cbn [andb].
  all: repeat match goal with |- context [if ?c then _ else _] => destruct c end.
  all: unfold quiet2; cbn [forallb app is_reset2 negb andb]; try apply forward_obs_quiet2.
Qed.
Lemma general_internal_quiet2 p d ti m p' d' o : handle_general_internal p d ti m = Ok (p', d', o) -> quiet2 o = true.
Proof.
  unfold handle_general_internal. intros H. destruct (m_body m); try (unfold ret in H; inversion H; reflexivity).
  - eapply handle_follow_up_quiet2; eauto.
  - eapply handle_delay_resp_quiet2; eauto.
  - eapply handle_peer_delay_follow_up_quiet2; eauto.
  - eapply handle_announce_quiet2; eauto.
Qed.
Lemma parse_quiet2 d frame m o1 : parse_and_filter d frame = (m, o1) -> quiet2 o1 = true.
Proof.
  unfold parse_and_filter. destruct (negb _); [intros H; inversion H; reflexivity|]. destruct (decode frame); [|intros H; inversion H; reflexivity].
  destruct (_ && _); intros H; inversion H; reflexivity.
Qed.
Lemma general_receive_quiet2 p d ti frame p' d' o : handle_general_receive p d ti frame = Ok (p', d', o) -> quiet2 o = true.
Proof.
  unfold handle_general_receive. intros H. destruct (parse_and_filter d frame) as [[m|] o1] eqn:Ep; pose proof (parse_quiet2 _ _ _ _ Ep) as Hq;
    [|unfold ret in H; inversion H; subst; exact Hq].
  unfold prepend in H. destruct (handle_general_internal p d ti m) as [[[p1 d1] o2]|?] eqn:E; cbn [obind] in H; [|discriminate].
  inversion H; subst. rewrite quiet2_app, Hq. eapply general_internal_quiet2; eauto.
Qed.
Lemma event_receive_quiet2 p d ti frame ts p' d' o : handle_event_receive p d ti frame ts = Ok (p', d', o) -> quiet2 o = true.
Proof.
  unfold handle_event_receive. intros H. destruct (parse_and_filter d frame) as [[m|] o1] eqn:Ep; pose proof (parse_quiet2 _ _ _ _ Ep) as Hq;
    [|unfold ret in H; inversion H; subst; exact Hq].
  unfold prepend in H. match type of H with obind ?X _ = _ => destruct X as [[[p1 d1] o2]|?] eqn:E end; cbn [obind] in H; [|discriminate].
  inversion H; subst. rewrite quiet2_app, Hq. cbn [andb]. destruct (m_body m); try (eapply general_internal_quiet2; exact E).
  - eapply handle_sync_quiet2; eauto.
  - eapply handle_delay_req_quiet2; eauto.
  - eapply handle_pdelay_req_quiet2; eauto.
  - eapply handle_peer_delay_response_quiet2; eauto.
Qed.
Lemma send_timestamp_quiet2 p d c ts p' d' o : handle_send_timestamp p d c ts = Ok (p', d', o) -> quiet2 o = true.
Proof.
  unfold handle_send_timestamp. intros H. destruct c;
    [eapply handle_sync_timestamp_quiet2|eapply handle_delay_timestamp_quiet2|eapply handle_pdelay_timestamp_quiet2|eapply handle_pdelay_response_timestamp_quiet2]; eauto.
Qed.
Lemma announce_loop_quiet2 : forall fuel queue margin parent path_on acc_b acc_l sfx locks,
  announce_tlv_loop fuel queue margin parent path_on acc_b acc_l = Ok (sfx, locks) ->
  quiet2 acc_l = true -> quiet2 locks = true.
Proof.
  induction fuel as [|fuel IH]; intros queue margin parent path_on acc_b acc_l sfx locks H Hq; cbn [announce_tlv_loop] in H.
  - crunch H; exact Hq.
  - crunch H; try exact Hq; eapply IH; try eassumption; rewrite ?quiet2_app, ?Hq; reflexivity.
Qed.
Lemma send_announce_quiet2 p d q p' d' o : send_announce p d q = Ok (p', d', o) -> quiet2 o = true.
Proof.
  unfold send_announce. intros H. destruct (is_master (p_state p)); [|unfold ret in H; inversion H; reflexivity].
  match type of H with context [let '(a, b) := ?X in _] => destruct X as [pb m1] end.
  match type of H with obind ?X _ = _ => destruct X as [[sfx locks]|?] eqn:El end; cbn [obind] in H; [|discriminate].
  destruct (serialize_packet _) as [frame|?]; cbn [obind] in H; [|discriminate].
  unfold ret in H. inversion H; subst. pose proof (announce_loop_quiet2 _ _ _ _ _ _ _ _ _ El eq_refl) as Hl.
  unfold quiet2 in *. cbn [app forallb is_reset2 negb andb rd_lock]. rewrite forallb_app, Hl. reflexivity.
Qed.
Lemma receipt_timer_quiet2 p d p' d' o : handle_announce_receipt_timer p d = Ok (p', d', o) -> quiet2 o = true.
Proof.
  unfold handle_announce_receipt_timer, set_forced. intros H.
  repeat match type of H with context [draw ?x] => destruct (draw x) as [k p3] end.
  crunch H; repeat match goal with E : (if ?c then _ else _) = (_, _) |- _ => destruct c; inversion E; subst; clear E end;
    repeat match goal with |- context [if ?c then _ else _] => destruct c end; reflexivity.
Qed.

Lemma tag_untouched2 n oo p : quiet2 oo = true -> forallb (fun x => negb (touches p 2 x)) (tag n oo) = true.
Proof.
  intros Hq. unfold tag. rewrite forallb_forall. intros y Hy. apply in_map_iff in Hy as (x & <- & Hx).
  unfold quiet2 in Hq. rewrite forallb_forall in Hq. specialize (Hq x Hx). unfold touches.
  destruct x; cbn [fst snd reset_kind is_reset2 negb] in *; try (rewrite andb_false_r; reflexivity); try discriminate Hq;
    cbn; rewrite andb_false_r; reflexivity.
Qed.

Lemma send_delay_request_shape p d p' d' o log st :
  send_delay_request p d = Ok (p', d', o) -> pc_delay (p_config p) = E2E log -> p_state p = PSlave st ->
  exists k ctx frame, o = [rd_lock; AResetDelayRequestTimer (delay_req_duration_ns log k); ASendEvent ctx frame false].
Proof.
  unfold send_delay_request. intros H Hd Hs. rewrite Hd, Hs in H.
  destruct (serialize_packet _) as [frame|?]; cbn [obind] in H; [|discriminate].
  match type of H with context [draw ?x] => destruct (draw x) as [k p3] end.
  unfold ret in H. inversion H; subst. eexists _, _, _. reflexivity.
Qed.

(** a BMCA run requests nothing from a port that stays slave of the same master *)
Lemma srpt_slave_keeps b rs dd b1 st st1 : set_recommended_port_state b rs dd = Ok b1 ->
  p_state (bp_port b) = PSlave st -> p_state (bp_port b1) = PSlave st1 -> ss_remote st1 = ss_remote st -> b1 = b.
Proof.
  intros H Hs Hs1 Hr. unfold set_recommended_port_state, set_forced in H. rewrite Hs in H.
  destruct rs; crunch H; try reflexivity; cbn [bp_port] in Hs1;
    repeat match goal with E : draw _ = (_, _) |- _ => apply draw_state_eq in E; rewrite E in Hs1; clear E end;
    cbn [port_with_state p_state] in Hs1; try discriminate Hs1.
  (* S1 with a different master *)
  inversion Hs1; subst st1. cbn [ss_remote] in Hr.
  match goal with E : negb (pi_eqb _ _) = true |- _ => rewrite Hr, pi_eqb_refl in E; discriminate E end.
Qed.

Lemma srs_slave_keeps b rs d b' d' st st' : set_recommended_state b rs d = Ok (b', d') ->
  p_state (bp_port b) = PSlave st -> p_state (bp_port b') = PSlave st' -> ss_remote st' = ss_remote st ->
  bp_pending b' = bp_pending b /\ (quiet2 (bp_side b) = true -> quiet2 (bp_side b') = true).
Proof.
  intros H Hs Hs' Hr. unfold set_recommended_state in H.
  destruct (set_recommended_port_state b rs (ds_default d)) as [b1|?] eqn:E1; cbn [obind] in H; [|discriminate].
  assert (Hb' : bp_port b' = bp_port b1) by (destruct rs; crunch H; reflexivity).
  rewrite Hb' in Hs'. pose proof (srpt_slave_keeps _ _ _ _ _ _ E1 Hs Hs' Hr) as ->.
  destruct rs; crunch H; cbn [bp_pending bp_side]; split; auto.
  intros Hq. rewrite quiet2_app, Hq. reflexivity.
Qed.

Lemma decide_slave_keeps ebest : forall todo done d done' d',
  bmca_decide ebest d todo done = Ok (done', d') ->
  exists tail, done' = done ++ tail /\
    Forall2 (fun b b' => forall st st', p_state (bp_port b) = PSlave st -> p_state (bp_port b') = PSlave st' -> ss_remote st' = ss_remote st ->
                         bp_pending b' = bp_pending b /\ (quiet2 (bp_side b) = true -> quiet2 (bp_side b') = true)) todo tail.
Proof.
  induction todo as [|b todo IH]; intros done d done' d' H; cbn [bmca_decide] in H.
  - inversion H; subst. exists []. rewrite app_nil_r. split; [reflexivity|constructor].
  - destruct (recommended_state _ _ _ _) as [r|?] eqn:Er; cbn [obind] in H; [|discriminate].
    destruct r as [rs|].
    + destruct (set_recommended_state b rs d) as [[b' d1]|?] eqn:E; cbn [obind fst snd] in H; [|discriminate].
      destruct (IH _ _ _ _ H) as (tail & -> & Ht). exists (b' :: tail). rewrite <- app_assoc. split; [reflexivity|].
      constructor; [intros st st' A B C; eapply srs_slave_keeps; eauto|exact Ht].
    + destruct (IH _ _ _ _ H) as (tail & -> & Ht). exists (b :: tail). rewrite <- app_assoc. split; [reflexivity|].
      constructor; [intros st st' _ _ _; split; auto|exact Ht].
Qed.

Lemma bmca_untouched2 i i' o p pp pp' st st' :
  bmca i = Ok (i', o) ->
  nth_error (i_ports i) p = Some pp -> nth_error (i_ports i') p = Some pp' ->
  p_state pp = PSlave st -> p_state pp' = PSlave st' -> ss_remote st' = ss_remote st ->
  forallb (fun x => negb (touches p 2 x)) o = true.
Proof.
  intros Hb Hn Hn' Hs Hs' Hr.
  destruct (bmca_struct _ _ _ Hb) as (step & bps & eb & bps1 & d1 & ports & E0 & Ebps & Eeb & Edec & Eports & Hi').
  pose proof (omap_list_rel calc_local_best (fun pp b => calc_local_best pp = Ok b) (fun _ _ H => H) _ _ Ebps) as F1.
  destruct (decide_slave_keeps _ _ _ _ _ _ Edec) as (tail & Ht & HF2). cbn [app] in Ht. subst tail.
  pose proof (omap_list_rel (fun b => step_announce_age step (bp_port b)) (fun b pp' => p_state pp' = p_state (bp_port b))
                (fun b pp' H => step_announce_age_state _ _ _ H) _ _ Eports) as HF3.
  destruct (MainC09.Forall2_nth _ _ _ F1 p pp Hn) as (b & Hbp & Hcb).
  destruct (MainC09.Forall2_nth _ _ _ HF2 p b Hbp) as (b1 & Hb1 & Hkeep).
  destruct (MainC09.Forall2_nth _ _ _ HF3 p b1 Hb1) as (pp2 & Hpp2 & Hst).
  rewrite Hi' in Hn'. cbn [i_ports] in Hn'. rewrite Hn' in Hpp2. inversion Hpp2; subst pp2.
  assert (Hb0 : bp_pending b = [] /\ bp_side b = [] /\ p_state (bp_port b) = p_state pp).
  { unfold calc_local_best in Hcb. destruct (bmca_take_best _ _ _ _) as [[l1 bb]|?]; cbn [obind] in Hcb; [|discriminate].
    inversion Hcb; subst b. cbn [bp_pending bp_side bp_port]. split; [reflexivity|]. split; [reflexivity|]. destruct pp; reflexivity. }
  destruct Hb0 as (P0 & S0 & St0).
  destruct (Hkeep st st' ltac:(rewrite St0; exact Hs) ltac:(rewrite <- Hst; exact Hs') Hr) as [P1 S1]. rewrite S0 in S1. specialize (S1 eq_refl).
  assert (Ho : o = [(-1, wr_lock)] ++ tag_ports 0 bps1 bp_side ++ tag_ports 0 bps1 bp_pending).
  { unfold bmca in Hb. rewrite E0 in Hb. cbn [obind] in Hb. destruct (negb _); [discriminate|]. rewrite Ebps in Hb. cbn [obind] in Hb.
    rewrite Eeb in Hb. cbn [obind] in Hb. rewrite Edec in Hb. cbn [obind] in Hb. rewrite Eports in Hb. cbn [obind] in Hb. inversion Hb; reflexivity. }
  rewrite Ho, !forallb_app. apply andb_true_iff. split; [unfold touches, wr_lock; cbn [forallb fst snd reset_kind]; rewrite !andb_false_r; reflexivity|]. apply andb_true_iff. split.
  - apply tag_ports_untouched. intros q bq Hq Hqp. cbn in Hqp. subst q. rewrite Hb1 in Hq. inversion Hq; subst bq. apply tag_untouched2. exact S1.
  - apply tag_ports_untouched. intros q bq Hq Hqp. cbn in Hqp. subst q. rewrite Hb1 in Hq. inversion Hq; subst bq. rewrite P1, P0. reflexivity.
Qed.

Definition own_timer2 (p : nat) (e : event) : bool := match e with EvDelayReqTimer q => Nat.eqb q p | _ => false end.

Lemma step_untouched2 i e i' o p pp pp' st st' :
  step i e = Ok (i', o) -> own_timer2 p e = false ->
  nth_error (i_ports i) p = Some pp -> nth_error (i_ports i') p = Some pp' ->
  p_state pp = PSlave st -> p_state pp' = PSlave st' -> ss_remote st' = ss_remote st ->
  forallb (fun x => negb (touches p 2 x)) o = true.
Proof.
  intros Hs Hown Hn Hn' Hst Hst' Hr.
  assert (Hport : forall n f, on_port i n f = Ok (i', o) ->
            (forall q d q' d' oo, f q d = Ok (q', d', oo) -> quiet2 oo = true) ->
            forallb (fun x => negb (touches p 2 x)) o = true).
  { intros n f Hop Hq. destruct (on_port_inv i n f i' o Hop) as [(_ & _ & ->)|(q & q' & d' & oo & _ & Hh & _ & ->)]; [reflexivity|].
    apply tag_untouched2. eapply Hq; eauto. }
  destruct e; cbn [step own_timer2] in *.
  - apply (Hport p0 _ Hs). intros. eapply event_receive_quiet2; eauto.
  - apply (Hport p0 _ Hs). intros. eapply general_receive_quiet2; eauto.
  - apply (Hport p0 _ Hs). intros. eapply send_timestamp_quiet2; eauto.
  - apply (Hport p0 _ Hs). intros. eapply send_announce_quiet2; eauto.
  - apply (Hport p0 _ Hs). intros. eapply send_sync_quiet2; eauto.
  - destruct (on_port_inv i p0 _ i' o Hs) as [(_ & _ & ->)|(q & q' & d' & oo & Hq & Hh & _ & ->)]; [reflexivity|].
    apply tag_other_port. intros ->. rewrite Nat.eqb_refl in Hown. discriminate Hown.
  - apply (Hport p0 _ Hs). intros. eapply receipt_timer_quiet2; eauto.
  - apply (Hport p0 _ Hs). intros q d q' d' oo Hx. unfold handle_filter_update_timer, ret in Hx. inversion Hx; reflexivity.
  - eapply bmca_untouched2; eauto.
  - inversion Hs; subst. unfold touches, wr_lock. cbn [forallb fst snd reset_kind]. rewrite !andb_false_r. reflexivity.
  - inversion Hs; subst. unfold touches, wr_lock. cbn [forallb fst snd reset_kind]. rewrite !andb_false_r. reflexivity.
  - inversion Hs; subst. reflexivity.
Qed.

Definition stays_slave (p : nat) (par : port_identity) (rs : list step_result) : bool :=
  forallb (fun r => match r with
                    | SROk _ sn => (state_of sn p =? 9) && pi_eqb (pd_parent (ds_parent (sn_ds sn))) par
                    | SRPanic => true
                    end) rs.

Lemma code9_slave st : port_state_code st = 9 -> exists s, st = PSlave s.
Proof. destruct st; cbn; intros H; try discriminate H. eauto. Qed.

Theorem deadline_kept2 c p par : forall mid i s s2 sn2,
  reach_inv c i -> Forall event_valid mid ->
  walk12 c s (snapshot_of i) mid (run i mid) = Some (s2, sn2) ->
  forallb (fun e => negb (own_timer2 p e)) mid = true ->
  state_of (snapshot_of i) p = 9 -> pd_parent (ds_parent (i_ds i)) = par -> stays_slave p par (run i mid) = true ->
  deadline (tms s2) p 2 = deadline (tms s) p 2.
Proof.
  induction mid as [|e mid IH]; intros i s s2 sn2 Hr Hes Hw Hown Hm0 Hpar Hst; cbn [run walk12] in Hw.
  - inversion Hw; reflexivity.
  - inversion Hes as [|? ? He Hes']; subst. cbn [forallb] in Hown. apply andb_true_iff in Hown as [Ho1 Ho2]. apply negb_true_iff in Ho1.
    destruct (step_ok i e (ri_inv _ _ Hr) He) as (i1 & o1 & Hs & Hi1 & _). cbn [run] in Hw, Hst. rewrite Hs in Hw, Hst. cbn [walk12] in Hw.
    pose proof (reach_step c i e i1 o1 Hr He Hs) as Hr1.
    destruct (step_C12 c s (snapshot_of i) e o1 (snapshot_of i1)) as [s'|] eqn:Est; [|discriminate Hw].
    cbn [stays_slave forallb] in Hst. apply andb_true_iff in Hst as [Hm1 Hst']. apply andb_true_iff in Hm1 as [Hm1 Hp1].
    apply Z.eqb_eq in Hm1. apply pi_eqb_eq in Hp1. cbn [snapshot_of sn_ds] in Hp1.
    rewrite (IH i1 s' s2 sn2 Hr1 Hes' Hw Ho2 Hm1 Hp1 Hst').
    destruct (nth_error (i_ports i) p) as [pp|] eqn:Hn.
    2:{ exfalso. unfold state_of, snapshot_of in Hm0. cbn [sn_states] in Hm0. rewrite nth_overflow in Hm0; [discriminate|]. rewrite map_length. apply nth_error_None. exact Hn. }
    destruct (nth_error (i_ports i1) p) as [pp1|] eqn:Hn1.
    2:{ exfalso. unfold state_of, snapshot_of in Hm1. cbn [sn_states] in Hm1. rewrite nth_overflow in Hm1; [discriminate|]. rewrite map_length. apply nth_error_None. exact Hn1. }
    rewrite (MainC09.state_of_snapshot i p pp Hn) in Hm0. rewrite (MainC09.state_of_snapshot i1 p pp1 Hn1) in Hm1.
    destruct (code9_slave _ Hm0) as (st & Hst0). destruct (code9_slave _ Hm1) as (st1 & Hst1).
    pose proof (ri_par _ _ Hr pp st (nth_error_In _ _ Hn) Hst0) as R0. pose proof (ri_par _ _ Hr1 pp1 st1 (nth_error_In _ _ Hn1) Hst1) as R1.
    unfold parent_id in R0, R1.
    assert (Etm : timer_event e <> Some (p, 2%nat)).
    { intros E. destruct e; cbn [timer_event own_timer2] in *; try discriminate E. inversion E; subst. rewrite Nat.eqb_refl in Ho1. discriminate Ho1. }
    apply (book_untouched c s (snapshot_of i) e o1 (snapshot_of i1) s' p 2 Est Etm).
    apply (step_untouched2 i e i1 o1 p pp pp1 st st1 Hs Ho1 Hn Hn1 Hst0 Hst1). rewrite R0, R1, Hp1. reflexivity.
Qed.

(** Cadence of Delay_Req: the deadline after a firing, and the gap to an obedient next firing *)
Theorem dreq_cadence c i s p mid i1 o1 s1 s2 sn2 pp st log :
  reach_inv c i -> Forall event_valid (EvDelayReqTimer p :: mid) ->
  book_wf (tms s) -> (p < length (tms s))%nat ->
  nth_error (i_ports i) p = Some pp -> p_state pp = PSlave st -> pc_delay (p_config pp) = E2E log ->
  step i (EvDelayReqTimer p) = Ok (i1, o1) ->
  step_C12 c s (snapshot_of i) (EvDelayReqTimer p) o1 (snapshot_of i1) = Some s1 ->
  state_of (snapshot_of i1) p = 9 ->
  walk12 c s1 (snapshot_of i1) mid (run i1 mid) = Some (s2, sn2) ->
  forallb (fun e => negb (own_timer2 p e)) mid = true ->
  stays_slave p (pd_parent (ds_parent (i_ds i1))) (run i1 mid) = true ->
  exists k, deadline (tms s2) p 2 = Some (now12 s + delay_req_duration_ns log k).
Proof.
  intros Hr Hes Hwf Hp Hn Hst Hd Hs Hstep Hm1 Hw Hown Hstay.
  inversion Hes as [|? ? He Hes']; subst.
  pose proof (reach_step c i _ i1 o1 Hr He Hs) as Hr1.
  rewrite (deadline_kept2 c p _ mid i1 s1 s2 sn2 Hr1 Hes' Hw Hown Hm1 eq_refl Hstay).
  cbn [step] in Hs. destruct (on_port_inv i p _ i1 o1 Hs) as [(Hnn & _)|(pp0 & pp0' & d' & oo & Hn0 & Hh & _ & Ho)]; [rewrite Hn in Hnn; discriminate|].
  rewrite Hn in Hn0. inversion Hn0; subst pp0.
  destruct (send_delay_request_shape _ _ _ _ _ _ _ Hh Hd Hst) as (k & ctx & frame & ->). exists k.
  assert (Ho' : o1 = [(-1, OLock false 0)] ++ (Z.of_nat p, AResetDelayRequestTimer (delay_req_duration_ns log k)) :: [(Z.of_nat p, ASendEvent ctx frame false)]) by (rewrite Ho; reflexivity).
  apply (book_fired c s (snapshot_of i) (EvDelayReqTimer p) o1 (snapshot_of i1) s1 p 2 _ _ _ Hstep I Hwf Hp ltac:(lia) Ho').
  - unfold touches. cbn [fst snd reset_kind]. rewrite Nat2Z.id, Nat.eqb_refl. reflexivity.
  - unfold touches. cbn [forallb fst snd reset_kind]. rewrite !andb_false_r. reflexivity.
Qed.

Corollary dreq_gap c i s p mid i1 o1 s1 s2 sn2 pp st log :
  reach_inv c i -> Forall event_valid (EvDelayReqTimer p :: mid) ->
  book_wf (tms s) -> (p < length (tms s))%nat ->
  nth_error (i_ports i) p = Some pp -> p_state pp = PSlave st -> pc_delay (p_config pp) = E2E log -> -7 <= log <= 7 ->
  Forall (fun k => 0 <= k < 2 ^ 52) (p_rng pp) ->
  step i (EvDelayReqTimer p) = Ok (i1, o1) ->
  step_C12 c s (snapshot_of i) (EvDelayReqTimer p) o1 (snapshot_of i1) = Some s1 ->
  state_of (snapshot_of i1) p = 9 ->
  walk12 c s1 (snapshot_of i1) mid (run i1 mid) = Some (s2, sn2) ->
  forallb (fun e => negb (own_timer2 p e)) mid = true ->
  stays_slave p (pd_parent (ds_parent (i_ds i1))) (run i1 mid) = true ->
  obedient_firing s2 p 2 = true ->
  now12 s2 - now12 s <= 2 * interval_ns log + 2.
Proof.
  intros Hr Hes Hwf Hp Hn Hst Hd Hlog Hrng Hs Hstep Hm1 Hw Hown Hstay Hob.
  (* the draw of this call *)
  inversion Hes as [|? ? He Hes']; subst.
  pose proof (reach_step c i _ i1 o1 Hr He Hs) as Hr1.
  pose proof Hs as Hs0. cbn [step] in Hs0. destruct (on_port_inv i p _ i1 o1 Hs0) as [(Hnn & _)|(pp0 & pp0' & d' & oo & Hn0 & Hh & _ & Ho)]; [rewrite Hn in Hnn; discriminate|].
  rewrite Hn in Hn0. inversion Hn0; subst pp0.
  assert (Hk : exists k, 0 <= k < 2 ^ 52 /\ oo = [rd_lock; AResetDelayRequestTimer (delay_req_duration_ns log k); ASendEvent (CtxDelayReq (p_seq_delay pp)) (match serialize_packet (msg_delay_req (ds_default (i_ds i)) (p_identity pp) (p_seq_delay pp) (pc_minor (p_config pp))) with Ok f => f | Panic _ => [] end) false]).
  { unfold send_delay_request in Hh. rewrite Hd, Hst in Hh.
    destruct (serialize_packet _) as [frame|?]; cbn [obind] in Hh; [|discriminate].
    match type of Hh with context [draw ?x] => destruct (draw x) as [k p3] eqn:Ed end.
    unfold ret in Hh. inversion Hh; subst. exists k. split; [|reflexivity].
    unfold draw in Ed. cbn [set_slave port_with_state port_with_seqs p_rng] in Ed.
    replace (p_rng (port_with_state (port_with_seqs pp (p_seq_announce pp) (p_seq_sync pp) (gen16 (p_seq_delay pp)) (p_seq_pdelay pp)) (PSlave (mkSS (ss_remote st) (ss_sync st) (MMeasuring (p_seq_delay pp) None None) (ss_last_raw_sync st))))) with (p_rng pp) in Ed by (destruct pp; reflexivity).
    destruct (p_rng pp) as [|k0 r0]; inversion Ed; subst; [change (2 ^ 52) with 4503599627370496; lia|]. inversion Hrng; assumption. }
  destruct Hk as (k & Hk & Hoo).
  assert (Ho' : o1 = [(-1, OLock false 0)] ++ (Z.of_nat p, AResetDelayRequestTimer (delay_req_duration_ns log k)) :: [(Z.of_nat p, ASendEvent (CtxDelayReq (p_seq_delay pp)) (match serialize_packet (msg_delay_req (ds_default (i_ds i)) (p_identity pp) (p_seq_delay pp) (pc_minor (p_config pp))) with Ok f => f | Panic _ => [] end) false)]) by (rewrite Ho, Hoo; reflexivity).
  assert (Hdl : deadline (tms s2) p 2 = Some (now12 s + delay_req_duration_ns log k)).
  { rewrite (deadline_kept2 c p _ mid i1 s1 s2 sn2 Hr1 Hes' Hw Hown Hm1 eq_refl Hstay).
    apply (book_fired c s (snapshot_of i) (EvDelayReqTimer p) o1 (snapshot_of i1) s1 p 2 _ _ _ Hstep I Hwf Hp ltac:(lia) Ho').
    - unfold touches. cbn [fst snd reset_kind]. rewrite Nat2Z.id, Nat.eqb_refl. reflexivity.
    - unfold touches. cbn [forallb fst snd reset_kind]. rewrite !andb_false_r. reflexivity. }
  unfold obedient_firing in Hob. rewrite Hdl in Hob. pose proof (dreq_duration_bound log k Hlog Hk). lia.
Qed.
