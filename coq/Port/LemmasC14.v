(** Lemmas for C14 (peer delay). *)
From SV Require Import Time.TimeCases Time.TimeLemmas Port.OracleC14 Port.LemmasC09.

(** mean link delay = ((t4 - t1) - (t3 - t2)) / 2, truncating, exactly. *)
Lemma extract_peer_exact p id r t1 t2 t3 t4 :
  p_peer p = PDMeasuring id (Some r) (Some t1) (Some t2) (Some t3) (Some t4) ->
  small_time t1 -> small_time t2 -> small_time t3 -> small_time t4 ->
  exists p' m o,
    extract_measurement p = Ok (p', Some m, o) /\
    me_event_time m = t4 /\
    me_peer_delay m = Some (Z.quot ((t4 - t1) - (t3 - t2)) 2) /\
    me_offset m = None /\ me_delay m = None /\ me_raw_sync m = None /\ me_raw_delay m = None /\
    p_peer p' = PDPost id r /\
    p_state p' = (if is_faulty (p_state p) then PListening else p_state p).
Proof.
  intros Hp H1 H2 H3 H4. unfold extract_measurement. rewrite Hp.
  rewrite (time_diff_small t4 t1 H4 H1); cbn [obind].
  rewrite (time_diff_small t3 t2 H3 H2); cbn [obind].
  assert (Hs : dur_sub (t4 - t1) (t3 - t2) = Ok (t4 - t1 - (t3 - t2))).
  { unfold small_time in *. rewrite P100 in *. unfold dur_sub, dur_neg, dur_add.
    repeat (rewrite (chk_i_ok _ 128) by (pv; lia); cbn [obind]). f_equal; lia. }
  rewrite Hs; cbn [obind].
  rewrite (chk_i_ok _ 128).
  2:{ unfold small_time in *. rewrite P100 in *. pv.
      pose proof (Z.quot_rem' (t4 - t1 - (t3 - t2)) 2).
      pose proof (Z.rem_bound_abs (t4 - t1 - (t3 - t2)) 2 ltac:(lia)). lia. }
  cbn [obind].
  destruct (is_faulty (p_state (port_with_peer p (PDPost id r)))) eqn:Ef;
    cbn [port_with_peer p_state] in Ef; rewrite Ef.
  - unfold set_forced. cbn [port_with_peer port_with_state p_state p_peer].
    eexists; eexists; eexists; repeat split; reflexivity.
  - eexists; eexists; eexists; repeat split; reflexivity.
Qed.

(** A response to the current request from a second identity makes the port
    faulty; the response is not used (no measurement reaches the filter). *)
Lemma second_responder_faulty p d h w recv_time id r a b c e :
  p_peer p = PDMeasuring id (Some r) a b c e ->
  h_seq h = id -> pi_eqb r (h_source h) = false ->
  exists o, handle_peer_delay_response p d h w (p_identity p) recv_time
            = Ok (port_with_state (port_with_peer p PDEmpty) PFaulty, d, o)
            /\ forall m, ~ In (OFilterMeas m) o.
Proof.
  intros Hp Hid Hne. unfold handle_peer_delay_response.
  assert (Hself : pi_eqb (p_identity p) (p_identity p) = true).
  { unfold pi_eqb. rewrite !Z.eqb_refl. reflexivity. }
  rewrite Hself. cbn [negb]. rewrite Hp. rewrite Hid, Z.eqb_refl. cbn [negb].
  rewrite Hne. cbn [negb]. unfold go_faulty, set_forced, ret.
  eexists. split; [reflexivity|].
  intros m Hin. match type of Hin with context [if ?c then _ else _] => destruct c end;
    cbn in Hin; intuition discriminate.
Qed.

Lemma contested_exchange_dead p d :
  p_peer p = PDEmpty ->
  (forall h w rq ts, handle_peer_delay_response p d h w rq ts = Ok (p, d, [])) /\
  (forall h w rq, handle_peer_delay_follow_up p d h w rq = Ok (p, d, [])) /\
  (forall id ts, handle_pdelay_timestamp p d id ts = Ok (p, d, [])).
Proof.
  intros H. unfold handle_peer_delay_response, handle_peer_delay_follow_up, handle_pdelay_timestamp.
  rewrite H. repeat split; intros; try destruct (negb _); reflexivity.
Qed.

Lemma second_responder_after_measurement_faulty p d h w recv_time id r :
  p_peer p = PDPost id r ->
  h_seq h = id -> pi_eqb r (h_source h) = false ->
  exists o, handle_peer_delay_response p d h w (p_identity p) recv_time
            = Ok (port_with_state p PFaulty, d, o)
            /\ forall m, ~ In (OFilterMeas m) o.
Proof.
  intros Hp Hid Hne. unfold handle_peer_delay_response.
  assert (Hself : pi_eqb (p_identity p) (p_identity p) = true).
  { unfold pi_eqb. rewrite !Z.eqb_refl. reflexivity. }
  rewrite Hself. cbn [negb]. rewrite Hp. rewrite Hid, Z.eqb_refl, Hne. cbn [negb andb].
  unfold go_faulty, set_forced, ret.
  eexists. split; [reflexivity|].
  intros m Hin. destruct (is_slave (p_state p) || is_faulty (p_state p) || is_faulty PFaulty);
    cbn in Hin; intuition discriminate.
Qed.

(** While faulty a port emits no master-role message ... *)
Lemma faulty_no_master_role p d q ts id h :
  p_state p = PFaulty ->
  send_sync p d = Ok (p, d, []) /\ send_announce p d q = Ok (p, d, []) /\
  handle_sync_timestamp p d id ts = Ok (p, d, []) /\ handle_delay_req p d h ts = Ok (p, d, []).
Proof.
  intros H. unfold send_sync, send_announce, handle_sync_timestamp, handle_delay_req.
  rewrite H. cbn [is_master]. repeat split; reflexivity.
Qed.

(** ... and the announce receipt timeout does not end the faulty state (repaired F8). *)
Lemma faulty_survives_receipt_timeout p d :
  p_state p = PFaulty ->
  exists p' o, handle_announce_receipt_timer p d = Ok (p', d, o) /\ p_state p' = PFaulty.
Proof.
  intros H. unfold handle_announce_receipt_timer. rewrite H. cbn [is_faulty].
  unfold draw. destruct (p_rng p); cbn [fst snd]; eexists; eexists; (split; [reflexivity|]);
    cbn [port_with_rng p_state]; assumption.
Qed.
