(** The emission-by-role conjunct of ok_C08 on the model's own steps, and the
    full whole-history theorem C08_main. *)
From SV Require Export Port.MainC08 Port.Frames.

Definition is_lock (x : obs) : bool := match x with OLock _ _ => true | _ => false end.

(** the per-port part of [role_ok] in step_C08 *)
Definition role_port (prev sn : snapshot) (q : nat) (op : list obs) : bool :=
  forallb (fun x => match decoded (snd x) with
                    | Some m =>
                        let t := body_type (m_body m) in
                        (if master_role_type t then state_of prev q =? 6 else true)
                        && (match t with MTDelayReq => state_of prev q =? 9 | _ => true end)
                    | None => false
                    end) (sent_frames op)
  && forallb (fun x => match x with
                       | OFilterMeas m =>
                           match me_raw_sync m, me_raw_delay m with
                           | None, None => true
                           | _, _ => state_of prev q =? 9
                           end
                       | OClockSetProps _ => state_of sn q =? 9
                       | _ => true
                       end) op.

Lemma obs_of_port_tag_same n oo : obs_of_port (tag n oo) n = filter (fun x => negb (is_lock x)) oo.
Proof.
  unfold obs_of_port, tag. induction oo as [|x oo IH]; cbn [map filter]; [reflexivity|].
  destruct x; cbn [fst snd is_lock negb]; rewrite ?Z.eqb_refl; cbn [map]; rewrite ?IH; try reflexivity.
  destruct (-1 =? Z.of_nat n) eqn:E; [lia|]. exact IH.
Qed.

Lemma obs_of_port_tag_other n q oo : q <> n -> obs_of_port (tag n oo) q = [].
Proof.
  intros Hne. unfold obs_of_port, tag. induction oo as [|x oo IH]; cbn [map filter]; [reflexivity|].
  assert (H1 : (Z.of_nat n =? Z.of_nat q) = false) by lia.
  assert (H2 : (-1 =? Z.of_nat q) = false) by lia.
  destruct x; cbn [fst snd]; rewrite ?H1, ?H2; exact IH.
Qed.

Lemma state_of_snapshot i n p : nth_error (i_ports i) n = Some p ->
  state_of (snapshot_of i) n = port_state_code (p_state p).
Proof.
  intros H. unfold state_of, snapshot_of. cbn [sn_states].
  rewrite (nth_indep _ 0 (port_state_code (p_state p))).
  2: { rewrite map_length. apply nth_error_Some. rewrite H. discriminate. }
  rewrite (map_nth (fun p => port_state_code (p_state p))). rewrite (nth_error_nth _ _ _ H). reflexivity.
Qed.

Lemma sent_frames_filter oo : sent_frames (filter (fun x => negb (is_lock x)) oo) = sent_frames oo.
Proof.
  unfold sent_frames. induction oo as [|x oo IH]; cbn [filter flat_map]; [reflexivity|].
  destruct x; cbn [is_lock negb flat_map]; rewrite ?IH; reflexivity.
Qed.

Lemma role_port_of p d prev sn n oo :
  acts_in_role p d oo -> state_of prev n = port_state_code (p_state p) ->
  role_port prev sn n (filter (fun x => negb (is_lock x)) oo) = true.
Proof.
  intros [Hf Hm] Hst. unfold role_port. rewrite sent_frames_filter. apply andb_true_iff. split.
  - apply forallb_forall. intros x Hx. unfold frames_role in Hf. rewrite Forall_forall in Hf.
    destruct (Hf x Hx) as (m & Hd & H1 & H2 & _). unfold decoded. rewrite Hd. rewrite Hst.
    destruct (master_role_type (body_type (m_body m))) eqn:Em.
    + specialize (H1 eq_refl). destruct (p_state p); try discriminate. cbn.
      destruct (body_type (m_body m)); try reflexivity; discriminate.
    + cbn [andb]. destruct (body_type (m_body m)) eqn:Et; try reflexivity.
      specialize (H2 eq_refl). destruct (p_state p); try discriminate. reflexivity.
  - apply forallb_forall. intros x Hx. apply filter_In in Hx. destruct Hx as [Hx _].
    unfold mcalm in Hm. rewrite forallb_forall in Hm. specialize (Hm x Hx). rewrite Hst.
    destruct x; try reflexivity; cbn in Hm.
    + destruct (me_raw_sync m), (me_raw_delay m); try reflexivity; destruct (p_state p); try discriminate; reflexivity.
    + discriminate.
Qed.

Lemma role_port_nil prev sn q : role_port prev sn q [] = true.
Proof. reflexivity. Qed.

Lemma on_port_role i n f i' o :
  on_port i n f = Ok (i', o) ->
  (forall p p' d' oo, nth_error (i_ports i) n = Some p -> f p (i_ds i) = Ok (p', d', oo) -> acts_in_role p (i_ds i) oo) ->
  forall q, role_port (snapshot_of i) (snapshot_of i') q (obs_of_port o q) = true.
Proof.
  unfold on_port. intros H Hf q. destruct (nth_error (i_ports i) n) as [p|] eqn:En.
  - destruct (f p (i_ds i)) as [[[p' d'] oo]|?] eqn:E; cbn [obind] in H; [|discriminate].
    inversion H; subst. destruct (Nat.eq_dec q n) as [->|Hne].
    + rewrite obs_of_port_tag_same. apply (role_port_of p (i_ds i)); [eapply Hf; eauto|apply state_of_snapshot; exact En].
    + rewrite obs_of_port_tag_other by exact Hne. reflexivity.
  - inversion H; subst. reflexivity.
Qed.

(** BMCA observations per port *)
Lemma obs_of_port_app a b q : obs_of_port (a ++ b) q = obs_of_port a q ++ obs_of_port b q.
Proof. unfold obs_of_port. rewrite filter_app, map_app. reflexivity. Qed.

Lemma obs_of_port_tag_ports f : forall bs k q,
  obs_of_port (tag_ports k bs f) q =
  match nth_error bs (q - k) with
  | Some b => if (k <=? q)%nat then filter (fun x => negb (is_lock x)) (f b) else []
  | None => []
  end.
Proof.
  induction bs as [|b bs IH]; intros k q; cbn [tag_ports].
  - destruct (q - k)%nat; reflexivity.
  - rewrite obs_of_port_app, IH. destruct (Nat.eq_dec q k) as [->|Hne].
    + rewrite obs_of_port_tag_same. rewrite Nat.sub_diag. cbn [nth_error]. rewrite Nat.leb_refl.
      replace (k - S k)%nat with 0%nat by lia.
      destruct bs as [|b2 bs2]; cbn [nth_error]; [rewrite app_nil_r; reflexivity|].
      assert (Hle : (S k <=? k)%nat = false) by (apply Nat.leb_gt; lia). rewrite Hle, app_nil_r. reflexivity.
    + rewrite obs_of_port_tag_other by exact Hne. cbn [app].
      destruct (Nat.leb_spec k q) as [Hle|Hgt].
      * assert (Hq : (q - k = S (q - S k))%nat) by lia. rewrite Hq. cbn [nth_error].
        assert (Hle' : (S k <=? q)%nat = true) by (apply Nat.leb_le; lia). rewrite Hle'. reflexivity.
      * assert (Hle' : (S k <=? q)%nat = false) by (apply Nat.leb_gt; lia). rewrite Hle'.
        destruct (nth_error bs (q - S k)); destruct (nth_error (b :: bs) (q - k)); reflexivity.
Qed.

Lemma bquiet_role prev sn q l sl :
  forallb (bobs_ok sl) l = true -> (sl = true -> state_of sn q = 9) ->
  role_port prev sn q (filter (fun x => negb (is_lock x)) l) = true.
Proof.
  intros Hq Hsl. unfold role_port. rewrite sent_frames_filter.
  assert (Hns : sent_frames l = []).
  { unfold sent_frames. induction l as [|x l IH]; cbn [flat_map]; [reflexivity|].
    cbn [forallb] in Hq. apply andb_true_iff in Hq as [Hx Hl]. rewrite (IH Hl). destruct x; try reflexivity; discriminate. }
  rewrite Hns. cbn [forallb andb].
  apply forallb_forall. intros x Hx. apply filter_In in Hx. destruct Hx as [Hx _].
  rewrite forallb_forall in Hq. specialize (Hq x Hx). destruct x; try reflexivity; cbn in Hq; try discriminate.
  rewrite (Hsl Hq). reflexivity.
Qed.

Lemma role_port_app prev sn q a b :
  role_port prev sn q a = true -> role_port prev sn q b = true -> role_port prev sn q (a ++ b) = true.
Proof.
  unfold role_port. intros Ha Hb. apply andb_true_iff in Ha as [A1 A2]. apply andb_true_iff in Hb as [B1 B2].
  unfold sent_frames in *. rewrite flat_map_app, !forallb_app, A1, A2, B1, B2. reflexivity.
Qed.

Lemma bmca_role i i' o :
  inst_inv i -> bmca i = Ok (i', o) ->
  forall q, role_port (snapshot_of i) (snapshot_of i') q (obs_of_port o q) = true.
Proof.
  intros Hi Hb q. destruct (bmca_ok i Hi) as (i2 & o2 & Hb2 & _ & _ & _ & _ & bps1 & Ho & Hq).
  rewrite Hb in Hb2. injection Hb2 as E1 E2. subst i2 o2. rewrite Ho.
  rewrite !obs_of_port_app.
  assert (Hw : obs_of_port [(-1, wr_lock)] q = []).
  { unfold obs_of_port. cbn [filter fst]. destruct (-1 =? Z.of_nat q) eqn:E; [lia|reflexivity]. }
  rewrite Hw. cbn [app]. rewrite !obs_of_port_tag_ports. rewrite Nat.sub_0_r. cbn [Nat.leb].
  destruct (nth_error bps1 q) as [b|] eqn:Eb; [|reflexivity].
  assert (Hp : exists p', nth_error (i_ports i') q = Some p' /\ bquiet b /\ p_state p' = p_state (bp_port b)).
  { clear - Hq Eb. revert q Eb. induction Hq as [|x y lx ly Hxy _ IH]; intros [|q] Eb; cbn in *; try discriminate.
    - inversion Eb; subst. eauto.
    - apply IH. exact Eb. }
  destruct Hp as (p' & Hp' & [Q1 Q2] & Hst).
  assert (Hsl : is_slave (p_state (bp_port b)) = true -> state_of (snapshot_of i') q = 9).
  { intros H. rewrite (state_of_snapshot _ _ _ Hp'), Hst. destruct (p_state (bp_port b)); try discriminate. reflexivity. }
  apply role_port_app; eapply bquiet_role; eauto.
Qed.

(** every step of the model: per port, emissions / measurements / clock calls by role *)
Lemma step_role i e i' o :
  inst_inv i -> event_valid e -> step i e = Ok (i', o) ->
  forall q, role_port (snapshot_of i) (snapshot_of i') q (obs_of_port o q) = true.
Proof.
  intros Hi He Hs.
  assert (Hpd : forall n p, nth_error (i_ports i) n = Some p -> port_inv p /\ ds_inv (i_ds i)).
  { intros n p Hn. destruct Hi as (Hports & Hds & _). split; [|exact Hds].
    rewrite Forall_forall in Hports. apply Hports. eapply nth_error_In; eauto. }
  destruct e; cbn [step event_valid] in *.
  - destruct He as [Hf Hts]. eapply on_port_role; [exact Hs|]. intros pp pp' dd' oo Hn Hh. cbv beta in Hh.
    destruct (Hpd _ _ Hn). eapply event_receive_in_role; eauto.
  - eapply on_port_role; [exact Hs|]. intros pp pp' dd' oo Hn Hh. cbv beta in Hh. apply calm_in_role. eapply handle_general_receive_calm; eauto.
  - destruct He as [Hts Hc]. eapply on_port_role; [exact Hs|]. intros pp pp' dd' oo Hn Hh. cbv beta in Hh.
    destruct (Hpd _ _ Hn). eapply send_timestamp_in_role; eauto.
  - eapply on_port_role; [exact Hs|]. intros pp pp' dd' oo Hn Hh. cbv beta in Hh. destruct (Hpd _ _ Hn). eapply announce_timer_in_role; eauto.
  - eapply on_port_role; [exact Hs|]. intros pp pp' dd' oo Hn Hh. cbv beta in Hh. destruct (Hpd _ _ Hn). eapply sync_timer_in_role; eauto.
  - eapply on_port_role; [exact Hs|]. intros pp pp' dd' oo Hn Hh. cbv beta in Hh. destruct (Hpd _ _ Hn). eapply delay_timer_in_role; eauto.
  - eapply on_port_role; [exact Hs|]. intros pp pp' dd' oo Hn Hh. cbv beta in Hh. apply calm_in_role. eapply receipt_timer_calm; eauto.
  - eapply on_port_role; [exact Hs|]. intros pp pp' dd' oo Hn Hh. cbv beta in Hh. apply calm_in_role.
    unfold handle_filter_update_timer, ret in Hh. inversion Hh; subst. reflexivity.
  - apply bmca_role; assumption.
  - inversion Hs; subst. intros k. unfold obs_of_port. cbn [filter fst].
    destruct (-1 =? Z.of_nat k) eqn:E; [lia|reflexivity].
  - inversion Hs; subst. intros k. unfold obs_of_port. cbn [filter fst].
    destruct (-1 =? Z.of_nat k) eqn:E; [lia|reflexivity].
  - inversion Hs; subst. intros k. reflexivity.
Qed.

(** * C08_main: the full oracle on the model's own trace, every history *)
Lemma step_C08_model c i e i' o enf :
  inst_inv i -> event_valid e -> step i e = Ok (i', o) ->
  step_C08_states c enf (snapshot_of i) e o (snapshot_of i') = Some (
      (match e with EvBmca => slave_only_of i | EvSetSlaveOnly false => false | _ => enf end) && slave_only_of i') ->
  step_C08 c enf (snapshot_of i) e o (snapshot_of i') = Some (
      (match e with EvBmca => slave_only_of i | EvSetSlaveOnly false => false | _ => enf end) && slave_only_of i').
Proof.
  intros Hi He Hs Hst. unfold step_C08_states in Hst. unfold step_C08. cbv zeta in *.
  match type of Hst with (if ?a && ?b && ?c0 && ?f then _ else _) = _ =>
    destruct a; destruct b; destruct c0; destruct f; cbn [andb] in Hst; try discriminate Hst end.
  assert (Hrole : forallb (fun p => role_port (snapshot_of i) (snapshot_of i') p (obs_of_port o p)) (all_ports c) = true).
  { apply forallb_forall. intros q _. eapply step_role; eauto. }
  unfold role_port in Hrole. rewrite Hrole. cbn [andb]. exact Hst.
Qed.

Lemma walk_model c : forall es i enf,
  inst_inv i -> cfgs_of i = map fst (su_ports (pc_setup c)) -> enf_inv enf i -> Forall event_valid es ->
  walk (step_C08 c) enf (snapshot_of i) es (run i es) = true.
Proof.
  induction es as [|e es IH]; intros i enf Hi Hcf Henf Hes; cbn [run walk]; [reflexivity|].
  inversion Hes as [|? ? He Hes']; subst.
  pose proof (walk_states_model c (e :: es) i enf Hi Hcf Henf Hes) as Hw. cbn [run walk] in Hw.
  destruct (step i e) as [[i' o]|?] eqn:Hs; [|reflexivity]. cbn [walk] in *.
  destruct (step_ok i e Hi He) as (i2 & o2 & Hs2 & Hi' & Hcf' & Hso & Hkeep & Hbm). rewrite Hs in Hs2.
  injection Hs2 as E1 E2. subst i2 o2.
  destruct (step_C08_states c enf (snapshot_of i) e o (snapshot_of i')) as [enf'|] eqn:Est; [|discriminate].
  assert (Henf'eq : enf' = (match e with EvBmca => slave_only_of i | EvSetSlaveOnly false => false | _ => enf end)
                           && slave_only_of i').
  { unfold step_C08_states in Est. cbv zeta in Est.
    match type of Est with (if ?a then _ else _) = _ => destruct a; [|discriminate Est] end.
    inversion Est. reflexivity. }
  rewrite Henf'eq in Est. rewrite (step_C08_model c i e i' o enf Hi He Hs Est). rewrite <- Henf'eq.
  apply IH; [exact Hi'|rewrite Hcf'; exact Hcf| |exact Hes'].
  (* the enforcement invariant, as in walk_states_model *)
  unfold enf_inv. rewrite Henf'eq. intros H. apply andb_true_iff in H as [H1 H2]. split; [exact H2|].
  destruct e; try (destruct (Henf H1) as [Hs1 Hn1]; apply (Hso ltac:(intros X; discriminate X) ltac:(intros _; exact Hn1)); exact H2).
  - apply Hbm; [reflexivity|exact H1].
  - destruct b; [|discriminate]. destruct (Henf H1) as [_ Hn1]. cbn [step] in Hs. inversion Hs; subst. exact Hn1.
Qed.

Theorem ok_C08_model s es rel :
  setup_valid s -> Forall event_valid es ->
  exists i o, init s = Ok (i, o) /\ ok_C08 (mkCase s es rel (Some o) (run i es)) = true.
Proof.
  intros Hs Hes. destruct (init_ok s Hs) as (i & o & Hi & Hinv & Hnm). exists i, o. split; [exact Hi|].
  unfold ok_C08, init_snap. cbn [pc_setup pc_events pc_trace]. rewrite Hi.
  apply walk_model; [exact Hinv| |  |exact Hes].
  - cbn [pc_setup]. unfold init in Hi. rewrite (add_ports_cfgs _ _ _ _ _ Hi). reflexivity.
  - intros H. split; [|exact Hnm].
    unfold init in Hi. rewrite (add_ports_slave_only _ _ _ _ _ Hi). exact H.
Qed.
