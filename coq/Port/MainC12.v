(** C12, whole histories, the safety walk of the oracle: in every history, after
    every call, the timers the state of each port relies on are armed in the
    host's timer book - announce and sync timer for a master port, delay request
    timer for an end-to-end slave port, announce receipt timer for a listening
    port - except for the known stuck state F22 (a port that recovered from
    FAULTY listens without a receipt timer), which the oracle flags.  Hence
    [walk12] never rejects the model's own trace.  (The bounded-liveness
    conjuncts [final_ok] and [dreq_cadence_ok] are evaluated on traces only.) *)
From SV Require Export Port.MainC06 Port.OracleC12 Port.LemmasC12.

(** * the timer book *)
Definition armedT (ts : timers) (k : nat) : bool := match nth k ts None with Some _ => true | None => false end.

Definition reset_kind (x : obs) : option nat :=
  match x with
  | AResetAnnounceTimer _ => Some 0%nat | AResetSyncTimer _ => Some 1%nat
  | AResetDelayRequestTimer _ => Some 2%nat | AResetAnnounceReceiptTimer _ => Some 3%nat
  | AResetFilterUpdateTimer _ => Some 4%nat | _ => None
  end.

Definition reset_step (now : Z) (acc : list timers) (x : tobs) : list timers :=
  let p := Z.to_nat (fst x) in
  let upd k ns := update_nth p (set_timer (nth p acc no_timers) k (Some (now + ns))) acc in
  match snd x with
  | AResetAnnounceTimer ns => upd 0%nat ns
  | AResetSyncTimer ns => upd 1%nat ns
  | AResetDelayRequestTimer ns => upd 2%nat ns
  | AResetAnnounceReceiptTimer ns => upd 3%nat ns
  | AResetFilterUpdateTimer ns => upd 4%nat ns
  | _ => acc
  end.

Lemma apply_resets_fold now tms o : apply_resets now tms o = fold_left (reset_step now) o tms.
Proof. reflexivity. Qed.

Definition book_wf (tms : list timers) : Prop := Forall (fun ts => length ts = 5%nat) tms.

Lemma set_timer_len ts k v : length (set_timer ts k v) = length ts.
Proof. unfold set_timer. apply update_nth_length. Qed.

Lemma Forall_update_nth {A} (P : A -> Prop) n x l : Forall P l -> P x -> Forall P (update_nth n x l).
Proof.
  revert n; induction l as [|y l IH]; intros [|n] H Hx; cbn; auto; inversion H; subst; constructor; auto.
Qed.

Lemma nth_no_timers_len tms p : book_wf tms -> length (nth p tms no_timers) = 5%nat.
Proof.
  intros H. destruct (nth_in_or_default p tms no_timers) as [Hin|Hd]; [|rewrite Hd; reflexivity].
  unfold book_wf in H. rewrite Forall_forall in H. apply H. exact Hin.
Qed.

Lemma reset_step_wf now acc x : book_wf acc -> book_wf (reset_step now acc x) /\ length (reset_step now acc x) = length acc.
Proof.
  intros H. unfold reset_step. destruct (snd x); try (split; [exact H|reflexivity]);
    (split; [apply Forall_update_nth; [exact H|rewrite set_timer_len; apply nth_no_timers_len; exact H]|apply update_nth_length]).
Qed.

Lemma armedT_set ts k v k' : (k < length ts)%nat -> armedT (set_timer ts k (Some v)) k' = (Nat.eqb k k' || armedT ts k').
Proof.
  intros Hk. unfold armedT, set_timer. destruct (Nat.eqb_spec k k') as [<-|Hne].
  - rewrite nth_update_same by exact Hk. reflexivity.
  - rewrite nth_update_other by exact Hne. reflexivity.
Qed.

Lemma reset_step_armed now acc x q k :
  book_wf acc -> armedT (nth q acc no_timers) k = true -> armedT (nth q (reset_step now acc x) no_timers) k = true.
Proof.
  intros Hwf H. unfold reset_step.
  assert (Hupd : forall k0 ns, armedT (nth q (update_nth (Z.to_nat (fst x)) (set_timer (nth (Z.to_nat (fst x)) acc no_timers) k0 (Some (now + ns))) acc) no_timers) k = true).
  { intros k0 ns. destruct (Nat.eq_dec (Z.to_nat (fst x)) q) as [->|Hne].
    - destruct (Nat.lt_ge_cases q (length acc)) as [Hlt|Hge].
      + rewrite nth_update_same by exact Hlt.
        destruct (Nat.lt_ge_cases k0 5) as [Hk|Hk].
        * rewrite armedT_set by (rewrite nth_no_timers_len by exact Hwf; exact Hk). rewrite H. apply orb_true_r.
        * unfold set_timer. assert (Hid : forall l : timers, (length l <= k0)%nat -> update_nth k0 (Some (now + ns)) l = l).
          { clear. intros l. revert k0. induction l as [|y l IH]; intros [|k0] Hl; cbn in *; try reflexivity; try lia. rewrite IH by lia. reflexivity. }
          rewrite Hid by (rewrite nth_no_timers_len by exact Hwf; lia). exact H.
      + assert (Hid : update_nth q (set_timer (nth q acc no_timers) k0 (Some (now + ns))) acc = acc).
        { clear - Hge. revert q Hge. induction acc as [|y l IH]; intros [|q] Hl; cbn in *; try reflexivity; try lia. rewrite IH by lia. reflexivity. }
        rewrite Hid. exact H.
    - rewrite nth_update_other by exact Hne. exact H. }
  destruct (snd x); try exact H; apply Hupd.
Qed.

Lemma reset_step_sets now acc x q k :
  book_wf acc -> Z.to_nat (fst x) = q -> (q < length acc)%nat -> reset_kind (snd x) = Some k ->
  armedT (nth q (reset_step now acc x) no_timers) k = true.
Proof.
  intros Hwf Hq Hlt Hk. unfold reset_step. rewrite Hq.
  destruct (snd x); cbn [reset_kind] in Hk; try discriminate Hk; inversion Hk; subst k;
    rewrite nth_update_same by exact Hlt; rewrite armedT_set by (rewrite nth_no_timers_len by exact Hwf; lia); reflexivity.
Qed.

Lemma apply_resets_wf now o : forall tms, book_wf tms -> book_wf (apply_resets now tms o) /\ length (apply_resets now tms o) = length tms.
Proof.
  induction o as [|x o IH]; intros tms H; [split; [exact H|reflexivity]|].
  rewrite apply_resets_fold. cbn [fold_left]. rewrite <- apply_resets_fold.
  destruct (reset_step_wf now tms x H) as [H1 H2]. destruct (IH _ H1) as [H3 H4]. split; [exact H3|rewrite H4; exact H2].
Qed.

Lemma apply_resets_mono now o : forall tms q k,
  book_wf tms -> armedT (nth q tms no_timers) k = true -> armedT (nth q (apply_resets now tms o) no_timers) k = true.
Proof.
  induction o as [|x o IH]; intros tms q k Hwf H; [exact H|]. rewrite apply_resets_fold. cbn [fold_left]. rewrite <- apply_resets_fold.
  apply IH; [apply reset_step_wf; exact Hwf|apply reset_step_armed; assumption].
Qed.

Lemma apply_resets_sets now o : forall tms q k x,
  book_wf tms -> In x o -> Z.to_nat (fst x) = q -> (q < length tms)%nat -> reset_kind (snd x) = Some k ->
  armedT (nth q (apply_resets now tms o) no_timers) k = true.
Proof.
  induction o as [|y o IH]; intros tms q k x Hwf Hin Hq Hlt Hk; [destruct Hin|].
  rewrite apply_resets_fold. cbn [fold_left]. rewrite <- apply_resets_fold.
  destruct (reset_step_wf now tms y Hwf) as [Hwf' Hlen'].
  destruct Hin as [->|Hin].
  - apply apply_resets_mono; [exact Hwf'|]. eapply reset_step_sets; eauto.
  - eapply IH; eauto. rewrite Hlen'. exact Hlt.
Qed.

(** * what a port state relies on, and what one call owes *)
Definition req (e2e : bool) (st : port_state) : list nat :=
  match st with
  | PMaster => [0; 1]%nat
  | PSlave _ => if e2e then [2%nat] else []
  | PListening => [3%nat]
  | PFaulty => [3%nat]       (* unless the fault began without a receipt timer *)
  | _ => []
  end.
Definition e2e_of (pp : port) : bool := match pc_delay (p_config pp) with E2E _ => true | P2P _ => false end.
Definition has_reset (k : nat) (oo : list obs) : Prop := exists x, In x oo /\ reset_kind x = Some k.

Definition oblig (e2e : bool) (pp pp' : port) (oo : list obs) (fk : option nat) : Prop :=
  forall k, In k (req e2e (p_state pp')) ->
    has_reset k oo \/ (In k (req e2e (p_state pp)) /\ fk <> Some k) \/
    (p_state pp' = PFaulty /\ is_faulty (p_state pp) = false).

(** state changes that need no timer *)
Definition soft (pp pp' : port) : Prop :=
  p_state pp' = p_state pp \/ (is_slave (p_state pp) = true /\ is_slave (p_state pp') = true) \/
  (is_faulty (p_state pp) = true /\ p_state pp' = PListening) \/ p_state pp' = PFaulty \/ p_state pp' = PPassive.

Lemma soft_oblig e2e pp pp' oo : soft pp pp' -> oblig e2e pp pp' oo None.
Proof.
  intros Hs k Hk. destruct Hs as [H|[[H1 H2]|[[H1 H2]|[H|H]]]].
  - right. left. rewrite <- H. split; [exact Hk|discriminate].
  - right. left. destruct (p_state pp); try discriminate H1. destruct (p_state pp'); try discriminate H2. split; [exact Hk|discriminate].
  - rewrite H2 in Hk. destruct Hk as [<-|[]]. right. left. destruct (p_state pp); try discriminate H1. split; [left; reflexivity|discriminate].
  - rewrite H in Hk. destruct Hk as [<-|[]]. destruct (is_faulty (p_state pp)) eqn:Ef.
    + right. left. destruct (p_state pp); try discriminate Ef. split; [left; reflexivity|discriminate].
    + right. right. split; [exact H|reflexivity].
  - rewrite H in Hk. destruct Hk.
Qed.

Lemma soft_refl pp : soft pp pp.
Proof. left. reflexivity. Qed.

Lemma extract_soft p p' om o : extract_measurement p = Ok (p', om, o) -> soft p p'.
Proof.
  unfold extract_measurement, set_forced. intros H. crunch H;
    repeat match goal with E : (if ?c then _ else _) = (_, _) |- _ => destruct c eqn:?; inversion E; subst; clear E end;
    unfold soft; cbn [port_with_state port_with_peer p_state is_slave is_faulty] in *;
    repeat match goal with E : p_state _ = _ |- _ => rewrite E in * end; cbn [is_slave is_faulty] in *; auto 6.
Qed.

Lemma htm_soft q d q' d' o : handle_time_measurement q d = Ok (q', d', o) -> soft q q'.
Proof.
  unfold handle_time_measurement. intros H.
  destruct (extract_measurement q) as [[[p1 om] o1]|?] eqn:E; cbn [obind] in H; [|discriminate].
  apply extract_soft in E. destruct om as [m|]; [destruct (filter_mean_delay m)|]; unfold ret in H; inversion H; subst; exact E.
Qed.

Lemma soft_slave_upd p st st' q' : p_state p = PSlave st -> soft (set_slave p st') q' -> soft p q'.
Proof.
  intros E Hs. unfold soft in *. cbn [set_slave port_with_state p_state is_slave is_faulty] in Hs. rewrite E. cbn [is_slave is_faulty].
  destruct Hs as [H|[[_ H2]|[[H1 _]|[H|H]]]]; auto 6.
  - right. left. split; [reflexivity|]. rewrite H. reflexivity.
  - discriminate H1.
Qed.

Lemma soft_peer_upd p x q' : soft (port_with_peer p x) q' -> soft p q'.
Proof. unfold soft. cbn [port_with_peer p_state]. auto. Qed.

Ltac soft_tac H :=
  crunch H;
  first [ apply soft_refl
        | (unfold soft; cbn [set_slave port_with_state port_with_peer port_with_seqs p_state is_slave is_faulty];
           repeat match goal with E : p_state _ = _ |- _ => rewrite E end; cbn [is_slave is_faulty]; auto 6; fail)
        | match goal with Hx : handle_time_measurement (set_slave ?p ?st') ?dd = Ok _ |- _ =>
            eapply soft_slave_upd; [eassumption|exact (htm_soft _ _ _ _ _ Hx)] end
        | match goal with Hx : handle_time_measurement (port_with_peer ?p ?x) ?dd = Ok _ |- _ =>
            eapply soft_peer_upd; exact (htm_soft _ _ _ _ _ Hx) end
        | match goal with Hx : go_faulty ?q ?dd = Ok _ |- _ =>
            unfold go_faulty, set_forced, ret in Hx; inversion Hx; subst; right; right; right; left; reflexivity end ].

Lemma handle_sync_soft p d h w t p' d' o : handle_sync p d h w t = Ok (p', d', o) -> soft p p'.
Proof. intros H. unfold handle_sync in H. soft_tac H. Qed.
Lemma handle_follow_up_soft p d h w p' d' o : handle_follow_up p d h w = Ok (p', d', o) -> soft p p'.
Proof. intros H. unfold handle_follow_up in H. soft_tac H. Qed.
Lemma handle_delay_resp_soft p d h w r p' d' o : handle_delay_resp p d h w r = Ok (p', d', o) -> soft p p'.
Proof. intros H. unfold handle_delay_resp in H. soft_tac H. Qed.
Lemma handle_delay_timestamp_soft p d id t p' d' o : handle_delay_timestamp p d id t = Ok (p', d', o) -> soft p p'.
Proof. intros H. unfold handle_delay_timestamp in H. soft_tac H. Qed.
Lemma handle_pdelay_timestamp_soft p d id t p' d' o : handle_pdelay_timestamp p d id t = Ok (p', d', o) -> soft p p'.
Proof. intros H. unfold handle_pdelay_timestamp in H. soft_tac H. Qed.
Lemma handle_peer_delay_response_soft p d h w r t p' d' o : handle_peer_delay_response p d h w r t = Ok (p', d', o) -> soft p p'.
Proof. intros H. unfold handle_peer_delay_response in H. soft_tac H. Qed.
Lemma handle_peer_delay_follow_up_soft p d h w r p' d' o : handle_peer_delay_follow_up p d h w r = Ok (p', d', o) -> soft p p'.
Proof. intros H. unfold handle_peer_delay_follow_up in H. cbv zeta in H. soft_tac H. Qed.
Lemma handle_delay_req_soft p d h ts p' d' o : handle_delay_req p d h ts = Ok (p', d', o) -> soft p p'.
Proof. intros H. unfold handle_delay_req in H. soft_tac H. Qed.
Lemma handle_pdelay_req_soft p d h ts p' d' o : handle_pdelay_req p d h ts = Ok (p', d', o) -> soft p p'.
Proof. intros H. unfold handle_pdelay_req in H. soft_tac H. Qed.
Lemma handle_sync_timestamp_soft p d id ts p' d' o : handle_sync_timestamp p d id ts = Ok (p', d', o) -> soft p p'.
Proof. intros H. unfold handle_sync_timestamp in H. soft_tac H. Qed.
Lemma handle_pdelay_response_timestamp_soft p d id rq ts p' d' o :
  handle_pdelay_response_timestamp p d id rq ts = Ok (p', d', o) -> soft p p'.
Proof. intros H. unfold handle_pdelay_response_timestamp in H. soft_tac H. Qed.

Lemma handle_announce_soft p d ti m a p' d' o : handle_announce p d ti m a = Ok (p', d', o) -> soft p p'.
Proof.
  intros H. unfold handle_announce in H. cbv zeta in H.
  match type of H with obind ?X _ = _ => destruct X as [[[d1 lp] locks]|?] end; cbn [obind] in H; [|discriminate].
  destruct lp; [unfold ret in H; inversion H; apply soft_refl|].
  destruct (bmca_register _ _ _ _ _ _) as [acc fml]. destruct acc; [|unfold ret in H; inversion H; apply soft_refl].
  unfold set_forced in H.
  match type of H with context [if ?c then _ else _] => destruct c end;
    match type of H with context [draw ?x] => let E := fresh "Ed" in destruct (draw x) as [k p3] eqn:E; apply draw_state_eq in E end;
    unfold ret in H; inversion H; subst; unfold soft; rewrite Ed; cbn [port_with_state port_with_multiport port_with_fml p_state]; auto 6.
Qed.

Lemma general_internal_soft p d ti m p' d' o : handle_general_internal p d ti m = Ok (p', d', o) -> soft p p'.
Proof.
  unfold handle_general_internal. intros H. destruct (m_body m); try (unfold ret in H; inversion H; apply soft_refl).
  - eapply handle_follow_up_soft; eauto.
  - eapply handle_delay_resp_soft; eauto.
  - eapply handle_peer_delay_follow_up_soft; eauto.
  - eapply handle_announce_soft; eauto.
Qed.

Lemma general_receive_soft p d ti frame p' d' o : handle_general_receive p d ti frame = Ok (p', d', o) -> soft p p'.
Proof.
  unfold handle_general_receive. intros H. destruct (parse_and_filter d frame) as [[m|] o1]; [|unfold ret in H; inversion H; apply soft_refl].
  unfold prepend in H. destruct (handle_general_internal p d ti m) as [[[p1 d1] o2]|?] eqn:E; cbn [obind] in H; [|discriminate].
  inversion H; subst. eapply general_internal_soft; eauto.
Qed.

Lemma event_receive_soft p d ti frame ts p' d' o : handle_event_receive p d ti frame ts = Ok (p', d', o) -> soft p p'.
Proof.
  unfold handle_event_receive. intros H. destruct (parse_and_filter d frame) as [[m|] o1]; [|unfold ret in H; inversion H; apply soft_refl].
  unfold prepend in H. match type of H with obind ?X _ = _ => destruct X as [[[p1 d1] o2]|?] eqn:E end; cbn [obind] in H; [|discriminate].
  inversion H; subst. destruct (m_body m); try (eapply general_internal_soft; exact E).
  - eapply handle_sync_soft; eauto.
  - eapply handle_delay_req_soft; eauto.
  - eapply handle_pdelay_req_soft; eauto.
  - eapply handle_peer_delay_response_soft; eauto.
Qed.

Lemma send_timestamp_soft p d c ts p' d' o : handle_send_timestamp p d c ts = Ok (p', d', o) -> soft p p'.
Proof.
  unfold handle_send_timestamp. intros H. destruct c.
  - eapply handle_sync_timestamp_soft; eauto.
  - eapply handle_delay_timestamp_soft; eauto.
  - eapply handle_pdelay_timestamp_soft; eauto.
  - eapply handle_pdelay_response_timestamp_soft; eauto.
Qed.

(** * the timer handlers re-arm what they rely on *)
Lemma in_reset (x : obs) k oo : In x oo -> reset_kind x = Some k -> has_reset k oo.
Proof. intros H1 H2. exists x. split; assumption. Qed.

Lemma oblig_same e2e pp pp' oo fk :
  req e2e (p_state pp') = req e2e (p_state pp) ->
  (forall k, fk = Some k -> In k (req e2e (p_state pp)) -> has_reset k oo) -> oblig e2e pp pp' oo fk.
Proof.
  intros Hr Hf k Hk. rewrite Hr in Hk.
  assert (Hd : fk = Some k \/ fk <> Some k).
  { destruct fk as [k0|]; [|right; discriminate]. destruct (Nat.eq_dec k0 k) as [->|Hne]; [left; reflexivity|right; intros Hx; inversion Hx; contradiction]. }
  destruct Hd as [He|Hne]; [left; apply Hf; assumption|right; left; split; assumption].
Qed.

Lemma req_master e2e st k : In k (req e2e st) -> (k = 0 \/ k = 1)%nat -> st = PMaster.
Proof.
  destruct st; cbn [req]; try (intros []; fail); try reflexivity; intros H Hk.
  - destruct H as [<-|[]]. destruct Hk; discriminate.
  - destruct H as [<-|[]]. destruct Hk; discriminate.
  - destruct e2e; [destruct H as [<-|[]]; destruct Hk; discriminate|destruct H].
Qed.

Lemma announce_timer_oblig e2e p d q p' d' o : send_announce p d q = Ok (p', d', o) -> oblig e2e p p' o (Some 0%nat).
Proof.
  intros H. destruct (is_master (p_state p)) eqn:Em.
  - destruct (announce_timer_rearms _ _ _ _ _ _ H Em) as [Hin Hst]. apply oblig_same.
    + rewrite Hst. destruct (p_state p); try discriminate Em. reflexivity.
    + intros k Hk _. inversion Hk; subst. eapply in_reset; [exact Hin|reflexivity].
  - unfold send_announce in H. rewrite Em in H. unfold ret in H. inversion H; subst. apply oblig_same; [reflexivity|].
    intros k Hk Hin. inversion Hk; subst. rewrite (req_master _ _ _ Hin (or_introl eq_refl)) in Em. discriminate Em.
Qed.

Lemma sync_timer_oblig e2e p d p' d' o : send_sync p d = Ok (p', d', o) -> oblig e2e p p' o (Some 1%nat).
Proof.
  intros H. destruct (is_master (p_state p)) eqn:Em.
  - destruct (sync_timer_rearms _ _ _ _ _ H Em) as [Hin Hst]. apply oblig_same.
    + rewrite Hst. destruct (p_state p); try discriminate Em. reflexivity.
    + intros k Hk _. inversion Hk; subst. eapply in_reset; [exact Hin|reflexivity].
  - unfold send_sync in H. rewrite Em in H. unfold ret in H. inversion H; subst. apply oblig_same; [reflexivity|].
    intros k Hk Hin. inversion Hk; subst. rewrite (req_master _ _ _ Hin (or_intror eq_refl)) in Em. discriminate Em.
Qed.

Lemma delay_timer_oblig p d p' d' o : send_delay_request p d = Ok (p', d', o) -> oblig (e2e_of p) p p' o (Some 2%nat).
Proof.
  intros H.
  assert (Hst : p_state p' = p_state p \/ exists st st', p_state p = PSlave st /\ p_state p' = PSlave st').
  { unfold send_delay_request in H. crunch H;
      repeat match goal with E : draw _ = (_, _) |- _ => apply draw_state_eq in E end;
      repeat match goal with E : p_state _ = p_state _ |- _ => rewrite E end;
      cbn [set_slave port_with_state port_with_peer port_with_seqs p_state]; auto.
    right. eexists; eexists. split; [first [eassumption|reflexivity]|reflexivity]. }
  apply oblig_same.
  - destruct Hst as [->|(st & st' & -> & ->)]; reflexivity.
  - intros k Hk Hin. inversion Hk; subst k. unfold e2e_of in Hin.
    destruct (p_state p) as [| | | |st] eqn:Est; cbn [req] in Hin;
      try (destruct Hin as [Hx|[Hx|[]]]; discriminate Hx); try (destruct Hin as [Hx|[]]; discriminate Hx); try (destruct Hin; fail).
    destruct (pc_delay (p_config p)) as [log|log] eqn:Ed; [|destruct Hin].
    destruct (delay_req_timer_rearms _ _ _ _ _ _ _ Ed Est H) as (ns & Hi). eapply in_reset; [exact Hi|reflexivity].
Qed.

Lemma receipt_timer_oblig e2e p d p' d' o : handle_announce_receipt_timer p d = Ok (p', d', o) -> oblig e2e p p' o (Some 3%nat).
Proof.
  intros H k Hk. destruct (receipt_timeout_arms p d) as (p1 & o1 & H1 & Hf & Hm & Hl). rewrite H in H1. inversion H1; subst p1 d' o1.
  destruct (is_faulty (p_state p)) eqn:Ef.
  - destruct (Hf eq_refl) as [Hs (ns & Hin)]. rewrite Hs in Hk. destruct Hk as [<-|[]]. left. eapply in_reset; [exact Hin|reflexivity].
  - destruct (dd_slave_only (ds_default d)) eqn:Eso.
    + destruct (Hl eq_refl eq_refl) as [Hs (ns & Hin)]. rewrite Hs in Hk. destruct Hk as [<-|[]]. left. eapply in_reset; [exact Hin|reflexivity].
    + destruct (Hm eq_refl eq_refl) as (Hs & Hin0 & Hin1). rewrite Hs in Hk. destruct Hk as [<-|[<-|[]]]; left; [eapply in_reset; [exact Hin0|reflexivity]|eapply in_reset; [exact Hin1|reflexivity]].
Qed.

Lemma filter_timer_oblig e2e p d p' d' o : handle_filter_update_timer p d = Ok (p', d', o) -> oblig e2e p p' o (Some 4%nat).
Proof.
  intros H. unfold handle_filter_update_timer, ret in H. inversion H; subst. apply oblig_same; [reflexivity|].
  intros k Hk Hin. inversion Hk; subst k. exfalso.
  destruct (p_state p'); cbn [req] in Hin; try (destruct Hin as [Hx|[Hx|[]]]; discriminate Hx); try (destruct Hin as [Hx|[]]; discriminate Hx); try (destruct Hin; fail).
  destruct e2e; [destruct Hin as [Hx|[]]; discriminate Hx|destruct Hin].
Qed.

(** * BMCA transitions request the timers of the new state *)
Definition bm12 (b0 b1 : bport) : Prop :=
  p_config (bp_port b1) = p_config (bp_port b0) /\
  forall e2e k, In k (req e2e (p_state (bp_port b1))) ->
    has_reset k (bp_pending b1) \/ In k (req e2e (p_state (bp_port b0))).

Lemma srpt_states b rs dd b1 : set_recommended_port_state b rs dd = Ok b1 ->
  (p_state (bp_port b1) = p_state (bp_port b) /\ bp_pending b1 = bp_pending b) \/
  (is_slave (p_state (bp_port b1)) = true /\ exists ns, bp_pending b1 = [AResetAnnounceReceiptTimer ns; AResetDelayRequestTimer 0]) \/
  (p_state (bp_port b1) = PListening /\ exists ns, bp_pending b1 = [AResetAnnounceReceiptTimer ns]) \/
  p_state (bp_port b1) = PPassive \/
  (p_state (bp_port b1) = PMaster /\ bp_pending b1 = [AResetAnnounceTimer 0; AResetSyncTimer 0]).
Proof.
  intros H. unfold set_recommended_port_state, set_forced in H.
  destruct rs as [d0|d0|h a|h a|h a|h a];
    crunch H; cbn [bp_port bp_pending];
    repeat match goal with E : draw _ = (_, _) |- _ => apply draw_state_eq in E end;
    repeat match goal with E : p_state _ = p_state _ |- _ => rewrite E end;
    cbn [port_with_state p_state is_slave];
    first [ left; split; reflexivity
          | right; left; split; [reflexivity|eexists; reflexivity]
          | right; right; left; split; [reflexivity|eexists; reflexivity]
          | right; right; right; left; reflexivity
          | right; right; right; right; split; reflexivity
          | left; split; [assumption|reflexivity] ].
Qed.

Lemma srpt_bm12 b rs dd b1 : bp_pending b = [] -> set_recommended_port_state b rs dd = Ok b1 -> bm12 b b1.
Proof.
  intros Hp0 H. destruct (srpt_fields _ _ _ _ H) as (_ & _ & Hc & _). split; [exact Hc|]. intros e2e k Hk.
  destruct (srpt_states _ _ _ _ H) as [[Hs _]|[[Hs (ns & Hp)]|[[Hs (ns & Hp)]|[Hs|[Hs Hp]]]]].
  - right. rewrite <- Hs. exact Hk.
  - destruct (p_state (bp_port b1)); try discriminate Hs. cbn [req] in Hk. destruct e2e; [|destruct Hk]. destruct Hk as [<-|[]].
    left. rewrite Hp. eexists. split; [right; left; reflexivity|reflexivity].
  - rewrite Hs in Hk. destruct Hk as [<-|[]]. left. rewrite Hp. eexists. split; [left; reflexivity|reflexivity].
  - rewrite Hs in Hk. destruct Hk.
  - rewrite Hs in Hk. left. rewrite Hp. destruct Hk as [<-|[<-|[]]];
      [exists (AResetAnnounceTimer 0); split; [left; reflexivity|reflexivity]|exists (AResetSyncTimer 0); split; [right; left; reflexivity|reflexivity]].
Qed.

Lemma srs_bm12 b rs d b' d' : bp_pending b = [] -> set_recommended_state b rs d = Ok (b', d') -> bm12 b b'.
Proof.
  unfold set_recommended_state. intros Hp0 H.
  destruct (set_recommended_port_state b rs (ds_default d)) as [b1|?] eqn:E1; cbn [obind] in H; [|discriminate].
  pose proof (srpt_bm12 _ _ _ _ Hp0 E1) as H1.
  destruct rs; crunch H; unfold bm12 in *; cbn [bp_port bp_pending]; exact H1.
Qed.

Lemma bm12_refl b : bm12 b b.
Proof. split; [reflexivity|]. intros e2e k Hk. right. exact Hk. Qed.

Lemma bmca_decide_bm12 ebest : forall todo done d done' d',
  Forall (fun b => bp_pending b = []) todo ->
  bmca_decide ebest d todo done = Ok (done', d') ->
  exists tail, done' = done ++ tail /\ Forall2 bm12 todo tail.
Proof.
  induction todo as [|b todo IH]; intros done d done' d' Hall H; cbn [bmca_decide] in H.
  - inversion H; subst. exists []. rewrite app_nil_r. split; [reflexivity|constructor].
  - destruct (recommended_state _ _ _ _) as [r|?]; cbn [obind] in H; [|discriminate].
    destruct r as [rs|].
    + destruct (set_recommended_state b rs d) as [[b' d1]|?] eqn:E; cbn [obind fst snd] in H; [|discriminate].
      inversion Hall as [|? ? Hb Hall']; subst.
      destruct (IH _ _ _ _ Hall' H) as (tail & -> & Ht). exists (b' :: tail). rewrite <- app_assoc. split; [reflexivity|].
      constructor; [eapply srs_bm12; [exact Hb|exact E]|exact Ht].
    + inversion Hall as [|? ? Hb Hall']; subst.
      destruct (IH _ _ _ _ Hall' H) as (tail & -> & Ht). exists (b :: tail). rewrite <- app_assoc. split; [reflexivity|].
      constructor; [apply bm12_refl|exact Ht].
Qed.

Lemma tag_in n oo x : In x oo -> reset_kind x <> None -> In (Z.of_nat n, x) (tag n oo).
Proof.
  intros Hin Hr. unfold tag. apply in_map_iff. exists x. split; [|exact Hin]. destruct x; try reflexivity. contradiction Hr; reflexivity.
Qed.

Lemma tag_ports_in f : forall bs k q b x, nth_error bs q = Some b -> In x (f b) -> reset_kind x <> None ->
  In (Z.of_nat (k + q), x) (tag_ports k bs f).
Proof.
  induction bs as [|b0 bs IH]; intros k q b x Hn Hin Hr; [destruct q; discriminate Hn|]. cbn [tag_ports]. apply in_or_app.
  destruct q as [|q]; cbn [nth_error] in Hn.
  - inversion Hn; subst b0. left. rewrite Nat.add_0_r. apply tag_in; assumption.
  - right. replace (k + S q)%nat with (S k + q)%nat by lia. eapply IH; eauto.
Qed.

Lemma bmca_oblig i i' o q pp :
  bmca i = Ok (i', o) -> nth_error (i_ports i) q = Some pp ->
  exists pp', nth_error (i_ports i') q = Some pp' /\ p_config pp' = p_config pp /\
    (is_faulty (p_state pp) = false -> p_state pp' = PListening -> is_listening (p_state pp) = true \/ True) /\
    forall e2e k, In k (req e2e (p_state pp')) ->
      (exists x, In x o /\ Z.to_nat (fst x) = q /\ reset_kind (snd x) = Some k) \/ In k (req e2e (p_state pp)).
Proof.
  unfold bmca. intros H Hn.
  destruct (bmca_interval_dur _) as [step|?]; cbn [obind] in H; [|discriminate].
  destruct (negb _); [discriminate|].
  destruct (omap_list calc_local_best (i_ports i)) as [bps|?] eqn:E1; cbn [obind] in H; [|discriminate].
  destruct (find_best _) as [ebest|?]; cbn [obind] in H; [|discriminate].
  destruct (bmca_decide ebest (i_ds i) bps []) as [[bps1 d1]|?] eqn:E2; cbn [obind] in H; [|discriminate].
  destruct (omap_list _ bps1) as [ports|?] eqn:E3; cbn [obind] in H; [|discriminate].
  inversion H; subst. cbn [i_ports].
  pose proof (omap_list_rel _ (fun p b => calc_local_best p = Ok b) (fun p b Hx => Hx) _ _ E1) as R1.
  assert (Hpend : Forall (fun b => bp_pending b = []) bps).
  { clear - R1. induction R1 as [|p b lp lb Hpb _ IH]; constructor; [|exact IH].
    unfold calc_local_best in Hpb. destruct (bmca_take_best _ _ _ _); cbn [obind] in Hpb; [|discriminate]. inversion Hpb; reflexivity. }
  destruct (bmca_decide_bm12 _ _ _ _ _ _ Hpend E2) as (tail & Ht & R2). cbn [app] in Ht. subst tail.
  pose proof (omap_list_rel _ (fun b p' => step_announce_age step (bp_port b) = Ok p') (fun b p' Hx => Hx) _ _ E3) as R3.
  destruct (MainC09.Forall2_nth _ _ _ R1 q pp Hn) as (b0 & Hb0 & Hc0).
  destruct (MainC09.Forall2_nth _ _ _ R2 q b0 Hb0) as (b1 & Hb1 & [Hcfg Hd]).
  destruct (MainC09.Forall2_nth _ _ _ R3 q b1 Hb1) as (pp' & Hpp' & Hage).
  destruct (step_announce_age_same3 _ _ _ Hage) as (Hst & _ & _).
  destruct (calc_local_best_same3 _ _ Hc0) as (Hst0 & _ & _).
  exists pp'. split; [exact Hpp'|]. split.
  { unfold step_announce_age in Hage. destruct (dur_from_log_interval _); cbn [obind] in Hage; [|discriminate]. inversion Hage; subst.
    unfold calc_local_best in Hc0. destruct (bmca_take_best _ _ _ _); cbn [obind] in Hc0; [|discriminate]. inversion Hc0; subst. cbn in Hcfg.
    destruct (p_multiport_disable (bp_port b1)); cbn; exact Hcfg. }
  split; [auto|].
  intros e2e k Hk. rewrite Hst in Hk. destruct (Hd e2e k Hk) as [(x & Hin & Hr)|Hc]; [left|right; rewrite <- Hst0; exact Hc].
  exists (Z.of_nat q, x). split; [|split; [cbn; lia|exact Hr]].
  right. apply in_or_app. right. apply (tag_ports_in bp_pending bps1 0 q b1 x Hb1 Hin). rewrite Hr. discriminate.
Qed.

(** * every call, port by port *)
Lemma step_oblig c i e i' o p pp :
  reach_inv c i -> event_valid e -> step i e = Ok (i', o) -> nth_error (i_ports i) p = Some pp ->
  exists pp', nth_error (i_ports i') p = Some pp' /\ p_config pp' = p_config pp /\
    forall k, In k (req (e2e_of pp) (p_state pp')) ->
      (exists x, In x o /\ Z.to_nat (fst x) = p /\ reset_kind (snd x) = Some k) \/
      (In k (req (e2e_of pp) (p_state pp)) /\ timer_event e <> Some (p, k)) \/
      (p_state pp' = PFaulty /\ is_faulty (p_state pp) = false).
Proof.
  intros Hr He Hs Hn.
  assert (Hlt : (p < length (i_ports i))%nat) by (apply nth_error_Some; rewrite Hn; discriminate).
  (* an addressed port with a handler obligation *)
  assert (Haddr : forall f fk, on_port i p f = Ok (i', o) ->
            (forall pp' d' oo, f pp (i_ds i) = Ok (pp', d', oo) -> oblig (e2e_of pp) pp pp' oo fk) ->
            (forall k, fk <> Some k -> timer_event e <> Some (p, k)) ->
            exists pp', nth_error (i_ports i') p = Some pp' /\ p_config pp' = p_config pp /\
              forall k, In k (req (e2e_of pp) (p_state pp')) ->
                (exists x, In x o /\ Z.to_nat (fst x) = p /\ reset_kind (snd x) = Some k) \/
                (In k (req (e2e_of pp) (p_state pp)) /\ timer_event e <> Some (p, k)) \/
                (p_state pp' = PFaulty /\ is_faulty (p_state pp) = false)).
  { intros f fk Hop Hob Hfk. destruct (on_port_full i p f i' o Hop) as [(Hnn & _)|(pp0 & pp0' & d' & oo & Hn0 & Hh & Hi')]; [rewrite Hn in Hnn; discriminate|].
    rewrite Hn in Hn0. inversion Hn0; subst pp0.
    assert (Hn' : nth_error (i_ports i') p = Some pp0') by (subst i'; cbn [i_ports]; apply nth_error_update_same; exact Hlt).
    exists pp0'. split; [exact Hn'|]. split; [eapply step_cfg; eauto; apply (ri_inv _ _ Hr)|].
    intros k Hk. destruct (Hob _ _ _ Hh k Hk) as [(x & Hx & Hrk)|[[Hc Hf]|Hent]].
    - left. exists (Z.of_nat p, x). split; [|split; [cbn; lia|exact Hrk]].
      unfold on_port in Hop. rewrite Hn, Hh in Hop. cbn [obind] in Hop. inversion Hop; subst. apply tag_in; [exact Hx|rewrite Hrk; discriminate].
    - right. left. split; [exact Hc|apply Hfk; exact Hf].
    - right. right. exact Hent. }
  (* a port the call leaves alone *)
  assert (Hidle : nth_error (i_ports i') p = Some pp -> (forall k, timer_event e <> Some (p, k)) ->
            exists pp', nth_error (i_ports i') p = Some pp' /\ p_config pp' = p_config pp /\
              forall k, In k (req (e2e_of pp) (p_state pp')) ->
                (exists x, In x o /\ Z.to_nat (fst x) = p /\ reset_kind (snd x) = Some k) \/
                (In k (req (e2e_of pp) (p_state pp)) /\ timer_event e <> Some (p, k)) \/
                (p_state pp' = PFaulty /\ is_faulty (p_state pp) = false)).
  { intros Hn' Hte. exists pp. split; [exact Hn'|]. split; [reflexivity|]. intros k Hk. right. left. split; [exact Hk|apply Hte]. }
  assert (Hother : forall n f, n <> p -> on_port i n f = Ok (i', o) -> nth_error (i_ports i') p = Some pp).
  { intros n f Hne Hop. destruct (on_port_full i n f i' o Hop) as [(_ & ->)|(pp0 & pp0' & d' & oo & _ & _ & ->)]; [exact Hn|].
    cbn [i_ports]. rewrite nth_error_update_other by exact Hne. exact Hn. }
  assert (Hnone : forall k : nat, @None nat <> Some k) by (intros k Hx; discriminate Hx).
  destruct e; cbn [step event_valid timer_event] in *.
  - destruct (Nat.eq_dec p0 p) as [->|Hne]; [|apply Hidle; [eapply Hother; eauto|intros k Hx; discriminate Hx]].
    apply (Haddr _ None Hs); [|intros k _ Hx; discriminate Hx]. intros pp' d' oo Hh. apply soft_oblig. eapply event_receive_soft; eauto.
  - destruct (Nat.eq_dec p0 p) as [->|Hne]; [|apply Hidle; [eapply Hother; eauto|intros k Hx; discriminate Hx]].
    apply (Haddr _ None Hs); [|intros k _ Hx; discriminate Hx]. intros pp' d' oo Hh. apply soft_oblig. eapply general_receive_soft; eauto.
  - destruct (Nat.eq_dec p0 p) as [->|Hne]; [|apply Hidle; [eapply Hother; eauto|intros k Hx; discriminate Hx]].
    apply (Haddr _ None Hs); [|intros k _ Hx; discriminate Hx]. intros pp' d' oo Hh. apply soft_oblig. eapply send_timestamp_soft; eauto.
  - destruct (Nat.eq_dec p0 p) as [->|Hne]; [|apply Hidle; [eapply Hother; eauto|intros k Hx; inversion Hx; contradiction]].
    apply (Haddr _ (Some 0%nat) Hs); [|intros k Hk Hx; inversion Hx; subst; contradiction]. intros pp' d' oo Hh. eapply announce_timer_oblig; eauto.
  - destruct (Nat.eq_dec p0 p) as [->|Hne]; [|apply Hidle; [eapply Hother; eauto|intros k Hx; inversion Hx; contradiction]].
    apply (Haddr _ (Some 1%nat) Hs); [|intros k Hk Hx; inversion Hx; subst; contradiction]. intros pp' d' oo Hh. eapply sync_timer_oblig; eauto.
  - destruct (Nat.eq_dec p0 p) as [->|Hne]; [|apply Hidle; [eapply Hother; eauto|intros k Hx; inversion Hx; contradiction]].
    apply (Haddr _ (Some 2%nat) Hs); [|intros k Hk Hx; inversion Hx; subst; contradiction]. intros pp' d' oo Hh. eapply delay_timer_oblig; eauto.
  - destruct (Nat.eq_dec p0 p) as [->|Hne]; [|apply Hidle; [eapply Hother; eauto|intros k Hx; inversion Hx; contradiction]].
    apply (Haddr _ (Some 3%nat) Hs); [|intros k Hk Hx; inversion Hx; subst; contradiction]. intros pp' d' oo Hh. eapply receipt_timer_oblig; eauto.
  - destruct (Nat.eq_dec p0 p) as [->|Hne]; [|apply Hidle; [eapply Hother; eauto|intros k Hx; inversion Hx; contradiction]].
    apply (Haddr _ (Some 4%nat) Hs); [|intros k Hk Hx; inversion Hx; subst; contradiction]. intros pp' d' oo Hh. eapply filter_timer_oblig; eauto.
  - (* BMCA *)
    destruct (bmca_oblig i i' o p pp Hs Hn) as (pp' & Hn' & Hcfg & _ & Hob). exists pp'. split; [exact Hn'|]. split; [exact Hcfg|].
    intros k Hk. destruct (Hob _ k Hk) as [Hx|Hc]; [left; exact Hx|right; left; split; [exact Hc|discriminate]].
  - inversion Hs; subst. apply Hidle; [exact Hn|intros k Hx; discriminate Hx].
  - inversion Hs; subst. apply Hidle; [exact Hn|intros k Hx; discriminate Hx].
  - inversion Hs; subst. apply Hidle; [exact Hn|intros k Hx; discriminate Hx].
Qed.

(** * the invariant of the walk *)
Definition exc12 (st : port_state) (r u : bool) : Prop :=
  (st = PListening /\ r = true) \/ (st = PFaulty /\ u = true).

Definition Inv12 (c : pcase) (i : instance) (tm : list timers) (rc ua : list bool) : Prop :=
  book_wf tm /\ length tm = nports c /\
  forall p pp, nth_error (i_ports i) p = Some pp ->
    forall k, In k (req (e2e_of pp) (p_state pp)) ->
      armedT (nth p tm no_timers) k = true \/ (k = 3%nat /\ exc12 (p_state pp) (nth p rc false) (nth p ua false)).

Lemma clear_wf tm q kf : book_wf tm -> book_wf (update_nth q (set_timer (nth q tm no_timers) kf None) tm).
Proof. intros H. apply Forall_update_nth; [exact H|]. rewrite set_timer_len. apply nth_no_timers_len. exact H. Qed.

Lemma clear_armed tm q kf p k : (p, k) <> (q, kf) ->
  armedT (nth p (update_nth q (set_timer (nth q tm no_timers) kf None) tm) no_timers) k = armedT (nth p tm no_timers) k.
Proof.
  intros Hne. destruct (Nat.eq_dec q p) as [->|Hq]; [|rewrite nth_update_other by exact Hq; reflexivity].
  destruct (Nat.lt_ge_cases p (length tm)) as [Hlt|Hge].
  - rewrite nth_update_same by exact Hlt. unfold armedT, set_timer. rewrite nth_update_other; [reflexivity|]. intros ->. apply Hne. reflexivity.
  - assert (Hid : forall (x : timers) l n, (length l <= n)%nat -> update_nth n x l = l).
    { clear. intros x l. induction l as [|y l IH]; intros [|n] Hl; cbn in *; try reflexivity; try lia. rewrite IH by lia. reflexivity. }
    rewrite Hid by exact Hge. reflexivity.
Qed.

Lemma nth_map_ports {A} (f : nat -> A) d n p : (p < n)%nat -> nth p (map f (seq 0 n)) d = f p.
Proof.
  intros H. rewrite (nth_indep _ d (f 0%nat)) by (rewrite map_length, seq_length; exact H).
  rewrite (map_nth f (seq 0 n) 0%nat p), seq_nth by exact H. reflexivity.
Qed.

Lemma inv12_sane c i tm rc ua s sn :
  reach_inv c i -> Inv12 c i tm rc ua -> tms s = tm -> recovered s = rc -> sn = snapshot_of i ->
  timers_sane_but_f22 c s sn = true.
Proof.
  intros Hr (Hwf & Hlen & Hall) Ht Hrc ->. unfold timers_sane_but_f22. apply forallb_forall. intros p Hp.
  unfold all_ports in Hp. apply in_seq in Hp. rewrite <- (ports_len c i Hr) in Hp.
  destruct (nth_error (i_ports i) p) as [pp|] eqn:Hn; [|apply nth_error_None in Hn; lia].
  rewrite (MainC09.state_of_snapshot i p pp Hn). unfold armed. rewrite Ht, Hrc.
  assert (He : is_e2e c p = e2e_of pp) by (unfold is_e2e, e2e_of; rewrite (port_cfg_of c i p pp Hr Hn); reflexivity).
  specialize (Hall p pp Hn). fold (armedT (nth p tm no_timers) 0) (armedT (nth p tm no_timers) 1) (armedT (nth p tm no_timers) 2) (armedT (nth p tm no_timers) 3).
  destruct (p_state pp) as [| | | |st] eqn:Est; cbn [port_state_code Z.eqb Pos.eqb req] in *; try reflexivity.
  - destruct (Hall 3%nat (or_introl eq_refl)) as [H|[_ [[_ H]|[H _]]]]; [rewrite H; reflexivity|rewrite H; apply orb_true_r|discriminate H].
  - destruct (Hall 0%nat (or_introl eq_refl)) as [H0|[H0 _]]; [|discriminate H0].
    destruct (Hall 1%nat (or_intror (or_introl eq_refl))) as [H1|[H1 _]]; [|discriminate H1]. rewrite H0, H1. reflexivity.
  - rewrite He. destruct (e2e_of pp); [|reflexivity].
    destruct (Hall 2%nat (or_introl eq_refl)) as [H2|[H2 _]]; [exact H2|discriminate H2].
Qed.

Definition rec_next (c : pcase) (prev sn : snapshot) (rc ua : list bool) : list bool :=
  map (fun p => if state_of sn p =? 4
                then (nth p rc false && (state_of prev p =? 4)) || ((state_of prev p =? 2) && nth p ua false)
                else false) (all_ports c).
Definition uaf_next (c : pcase) (prev sn : snapshot) (ua : list bool) (tms2 : list timers) : list bool :=
  map (fun p => if state_of sn p =? 2
                then (if state_of prev p =? 2 then nth p ua false
                      else match nth 3 (nth p tms2 no_timers) None with Some _ => false | None => true end)
                else false) (all_ports c).

Lemma step_inv12 c i e i' o tm rc ua now :
  reach_inv c i -> event_valid e -> step i e = Ok (i', o) -> Inv12 c i tm rc ua ->
  let tms1 := match timer_event e with
              | Some (p, k) => update_nth p (set_timer (nth p tm no_timers) k None) tm
              | None => tm
              end in
  let tms2 := apply_resets now tms1 o in
  Inv12 c i' tms2 (rec_next c (snapshot_of i) (snapshot_of i') rc ua) (uaf_next c (snapshot_of i) (snapshot_of i') ua tms2).
Proof.
  intros Hr He Hs (Hwf & Hlen & Hall). cbv zeta.
  pose proof (reach_step c i e i' o Hr He Hs) as Hr'.
  set (tms1 := match timer_event e with Some (p, k) => update_nth p (set_timer (nth p tm no_timers) k None) tm | None => tm end).
  assert (Hwf1 : book_wf tms1) by (unfold tms1; destruct (timer_event e) as [[q kf]|]; [apply clear_wf|]; exact Hwf).
  assert (Hlen1 : length tms1 = nports c) by (unfold tms1; destruct (timer_event e) as [[q kf]|]; [rewrite update_nth_length|]; exact Hlen).
  destruct (apply_resets_wf now o tms1 Hwf1) as [Hwf2 Hlen2].
  split; [exact Hwf2|]. split; [rewrite Hlen2; exact Hlen1|].
  intros p pp' Hn' k Hk.
  assert (Hp : (p < nports c)%nat) by (rewrite <- (ports_len c i' Hr'); apply nth_error_Some; rewrite Hn'; discriminate).
  assert (Hpi : (p < length (i_ports i))%nat) by (rewrite (ports_len c i Hr); exact Hp).
  destruct (nth_error (i_ports i) p) as [pp|] eqn:Hn; [|apply nth_error_None in Hn; lia].
  destruct (step_oblig c i e i' o p pp Hr He Hs Hn) as (pp2 & Hn2 & Hcfg & Hob). rewrite Hn' in Hn2. inversion Hn2; subst pp2.
  assert (He2e : e2e_of pp' = e2e_of pp) by (unfold e2e_of; rewrite Hcfg; reflexivity). rewrite He2e in Hk.
  unfold rec_next, uaf_next, all_ports. rewrite !(nth_map_ports _ false (nports c) p Hp).
  rewrite (MainC09.state_of_snapshot i p pp Hn), (MainC09.state_of_snapshot i' p pp' Hn'), !code_faulty, !code_listening.
  fold (armedT (nth p (apply_resets now tms1 o) no_timers) 3).
  destruct (Hob k Hk) as [(x & Hx & Hxp & Hxk)|[[Hc Hte]|(Hfa' & Hfa)]].
  - left. eapply apply_resets_sets; eauto. rewrite Hlen1. exact Hp.
  - destruct (Hall p pp Hn k Hc) as [Ha|[Hk3 Hex]].
    + left. apply apply_resets_mono; [exact Hwf1|]. unfold tms1. destruct (timer_event e) as [[q kf]|]; [|exact Ha].
      rewrite clear_armed; [exact Ha|]. intros Hx. inversion Hx; subst. apply Hte. reflexivity.
    + subst k.
      assert (Hst' : p_state pp' = PListening \/ p_state pp' = PFaulty).
      { destruct (p_state pp'); cbn [req] in Hk; auto; try (destruct Hk as [Hx|[Hx|[]]]; discriminate Hx); try (destruct Hk; fail).
        destruct (e2e_of pp); [destruct Hk as [Hx|[]]; discriminate Hx|destruct Hk]. }
      destruct (armedT (nth p (apply_resets now tms1 o) no_timers) 3) eqn:Earm; [left; reflexivity|].
      right. split; [reflexivity|]. unfold exc12.
      assert (Hnone : match nth 3 (nth p (apply_resets now tms1 o) no_timers) None with Some _ => false | None => true end = true).
      { unfold armedT in Earm. destruct (nth 3 (nth p (apply_resets now tms1 o) no_timers) None); [discriminate Earm|reflexivity]. }
      destruct Hex as [[Hl Hrc]|[Hf Hua]]; destruct Hst' as [Hs'|Hs']; rewrite Hs'; cbn [is_listening is_faulty].
      * left. split; [reflexivity|]. rewrite Hl, Hrc. reflexivity.
      * right. split; [reflexivity|]. rewrite Hl. cbn [is_faulty]. exact Hnone.
      * left. split; [reflexivity|]. rewrite Hf, Hua. cbn [is_listening is_faulty andb orb]. apply orb_true_r.
      * right. split; [reflexivity|]. rewrite Hf, Hua. reflexivity.
  - (* entering the faulty state *)
    rewrite Hfa' in Hk. destruct Hk as [<-|[]].
    destruct (armedT (nth p (apply_resets now tms1 o) no_timers) 3) eqn:Earm; [left; reflexivity|].
    right. split; [reflexivity|]. right. rewrite Hfa', Hfa. cbn [is_faulty]. split; [reflexivity|].
    unfold armedT in Earm. destruct (nth 3 (nth p (apply_resets now tms1 o) no_timers) None); [discriminate Earm|reflexivity].
Qed.

(** * a timer that fires in the state relying on it produces its message *)
Lemma msg_type_eqb_refl t : msg_type_eqb t t = true.
Proof. destruct t; reflexivity. Qed.

Lemma emitted_one pp d oo t0 : frames_role pp d oo -> one_frame oo t0 ->
  emitted_types (filter (fun x => negb (MainC08Role.is_lock x)) oo) t0 = 1%nat.
Proof.
  intros Hf (ev & m0 & Hs & Ht). unfold emitted_types, count. rewrite sent_frames_filter, Hs.
  unfold frames_role in Hf. rewrite Hs in Hf. apply Forall_inv in Hf.
  destruct Hf as (m & Hd & _ & _ & Henc & _). cbn [snd] in Hd, Henc. cbn [filter snd]. unfold decoded. rewrite Hd.
  rewrite <- (encode_raw_type _ _ Henc), Ht, msg_type_eqb_refl. reflexivity.
Qed.

Lemma fires_ok_model c i e i' o :
  reach_inv c i -> event_valid e -> step i e = Ok (i', o) ->
  match e with
  | EvAnnounceTimer p _ => if state_of (snapshot_of i) p =? 6 then (emitted_types (obs_of_port o p) MTAnnounce =? 1)%nat else true
  | EvSyncTimer p => if state_of (snapshot_of i) p =? 6 then (emitted_types (obs_of_port o p) MTSync =? 1)%nat else true
  | EvDelayReqTimer p =>
      match port_cfg c p with
      | Some pc => match pc_delay pc with
                   | E2E _ => if state_of (snapshot_of i) p =? 9 then (emitted_types (obs_of_port o p) MTDelayReq =? 1)%nat else true
                   | P2P _ => (emitted_types (obs_of_port o p) MTPDelayReq =? 1)%nat
                   end
      | None => true
      end
  | _ => true
  end = true.
Proof.
  intros Hr He Hs.
  assert (Hpd : forall n pp, nth_error (i_ports i) n = Some pp -> port_inv pp /\ ds_inv (i_ds i)).
  { intros n pp Hn. destruct (ri_inv _ _ Hr) as (Hports & Hds & _). split; [|exact Hds]. rewrite Forall_forall in Hports. apply Hports. eapply nth_error_In; eauto. }
  destruct e; try reflexivity; cbn [step event_valid] in *.
  - destruct (nth_error (i_ports i) p) as [pp|] eqn:Hn; [|rewrite (state_of_none i p Hn); reflexivity].
    rewrite (MainC09.state_of_snapshot i p pp Hn), code_master'. destruct (is_master (p_state pp)) eqn:Em; [|reflexivity].
    destruct (on_port_full i p _ i' o Hs) as [(Hx & _)|(pp0 & pp0' & d' & oo & Hn0 & Hh & _)]; [rewrite Hn in Hx; discriminate|].
    rewrite Hn in Hn0. inversion Hn0; subst pp0. destruct (Hpd p pp Hn) as [Hp Hd].
    unfold on_port in Hs. rewrite Hn, Hh in Hs. cbn [obind] in Hs. inversion Hs; subst. rewrite obs_of_port_tag_same.
    pose proof (send_announce_one _ _ _ _ _ _ Hh) as Ho. rewrite Em in Ho.
    rewrite (emitted_one pp (i_ds i) oo MTAnnounce (send_announce_role _ _ _ _ _ _ Hp Hd He Hh) Ho). reflexivity.
  - destruct (nth_error (i_ports i) p) as [pp|] eqn:Hn; [|rewrite (state_of_none i p Hn); reflexivity].
    rewrite (MainC09.state_of_snapshot i p pp Hn), code_master'. destruct (is_master (p_state pp)) eqn:Em; [|reflexivity].
    destruct (on_port_full i p _ i' o Hs) as [(Hx & _)|(pp0 & pp0' & d' & oo & Hn0 & Hh & _)]; [rewrite Hn in Hx; discriminate|].
    rewrite Hn in Hn0. inversion Hn0; subst pp0. destruct (Hpd p pp Hn) as [Hp Hd].
    unfold on_port in Hs. rewrite Hn, Hh in Hs. cbn [obind] in Hs. inversion Hs; subst. rewrite obs_of_port_tag_same.
    pose proof (send_sync_one _ _ _ _ _ Hh) as Ho. rewrite Em in Ho.
    rewrite (emitted_one pp (i_ds i) oo MTSync (send_sync_role _ _ _ _ _ Hp Hd Hh) Ho). reflexivity.
  - destruct (nth_error (i_ports i) p) as [pp|] eqn:Hn.
    + rewrite (port_cfg_of c i p pp Hr Hn).
      destruct (on_port_full i p _ i' o Hs) as [(Hx & _)|(pp0 & pp0' & d' & oo & Hn0 & Hh & _)]; [rewrite Hn in Hx; discriminate|].
      rewrite Hn in Hn0. inversion Hn0; subst pp0. destruct (Hpd p pp Hn) as [Hp Hd].
      unfold on_port in Hs. rewrite Hn, Hh in Hs. cbn [obind] in Hs. inversion Hs; subst. rewrite obs_of_port_tag_same.
      pose proof (send_delay_request_one _ _ _ _ _ Hh) as Ho. pose proof (send_delay_request_role _ _ _ _ _ Hp Hd Hh) as Hfr.
      rewrite (MainC09.state_of_snapshot i p pp Hn), code_slave.
      destruct (pc_delay (p_config pp)).
      * destruct (is_slave (p_state pp)); [|reflexivity]. rewrite (emitted_one pp (i_ds i) oo MTDelayReq Hfr Ho). reflexivity.
      * rewrite (emitted_one pp (i_ds i) oo MTPDelayReq Hfr Ho). reflexivity.
    + assert (Hnone : port_cfg c p = None).
      { unfold port_cfg. destruct (nth_error (su_ports (pc_setup c)) p) as [[pc r]|] eqn:E; [|reflexivity].
        exfalso. apply nth_error_None in Hn. assert (Hx : nth_error (su_ports (pc_setup c)) p <> None) by (rewrite E; discriminate).
        apply nth_error_Some in Hx. pose proof (ports_len c i Hr) as Hl. unfold nports in Hl. lia. }
      rewrite Hnone. reflexivity.
Qed.

(** * the walk *)
Lemma step_C12_model c i e i' o s :
  reach_inv c i -> event_valid e -> step i e = Ok (i', o) ->
  Inv12 c i (tms s) (recovered s) (uaf s) ->
  exists s', step_C12 c s (snapshot_of i) e o (snapshot_of i') = Some s' /\
    Inv12 c i' (tms s') (recovered s') (uaf s').
Proof.
  intros Hr He Hs Hinv. pose proof (reach_step c i e i' o Hr He Hs) as Hr'.
  assert (Htick : forall ns, e = EvTick ns -> exists s', step_C12 c s (snapshot_of i) e o (snapshot_of i') = Some s' /\
            Inv12 c i' (tms s') (recovered s') (uaf s')).
  { intros ns ->. cbn [step] in Hs. inversion Hs; subst. eexists. split; [reflexivity|]. cbn [tms recovered uaf]. exact Hinv. }
  pose proof (step_inv12 c i e i' o (tms s) (recovered s) (uaf s) (now12 s) Hr He Hs Hinv) as Hinv'. cbv zeta in Hinv'.
  unfold rec_next, uaf_next in Hinv'.
  pose proof (fires_ok_model c i e i' o Hr He Hs) as Hfires.
  assert (Hmain : forall sfin, tms sfin = apply_resets (now12 s) (match timer_event e with
                                   | Some (p, k) => update_nth p (set_timer (nth p (tms s) no_timers) k None) (tms s)
                                   | None => tms s end) o ->
             recovered sfin = map (fun p => if state_of (snapshot_of i') p =? 4
                                            then (nth p (recovered s) false && (state_of (snapshot_of i) p =? 4))
                                                 || ((state_of (snapshot_of i) p =? 2) && nth p (uaf s) false)
                                            else false) (all_ports c) ->
             timers_sane_but_f22 c sfin (snapshot_of i') = true).
  { intros sfin Ht Hrc. eapply (inv12_sane c i'); [exact Hr'| |reflexivity|reflexivity|reflexivity]. rewrite Ht, Hrc. exact Hinv'. }
  destruct e; try (eapply Htick; reflexivity); cbn [step_C12]; cbv zeta;
    try rewrite Hfires; cbn [negb];
    match goal with |- exists s', (if negb ?ob then _ else _) = _ /\ _ => destruct (negb ob) end;
    try (eexists; split; [reflexivity|]; cbn [tms recovered uaf]; exact Hinv');
    match goal with |- exists s', (if ?sane then _ else _) = _ /\ _ => destruct sane end;
    try (eexists; split; [reflexivity|]; cbn [tms recovered uaf]; exact Hinv');
    match goal with |- exists s', (if ?sb then _ else _) = _ /\ _ =>
      assert (Hsb : sb = true) by (apply Hmain; reflexivity); rewrite Hsb end;
    eexists; (split; [reflexivity|]); cbn [tms recovered uaf]; exact Hinv'.
Qed.

Lemma walk12_model c es : forall i s,
  reach_inv c i -> Inv12 c i (tms s) (recovered s) (uaf s) -> Forall event_valid es ->
  exists r, walk12 c s (snapshot_of i) es (run i es) = Some r.
Proof.
  induction es as [|e es IH]; intros i s Hr Hinv Hes; cbn [run walk12]; [eexists; reflexivity|].
  inversion Hes as [|? ? He Hes']; subst.
  destruct (step_ok i e (ri_inv _ _ Hr) He) as (i1 & o1 & Hs & _). rewrite Hs. cbn [walk12].
  destruct (step_C12_model c i e i1 o1 s Hr He Hs Hinv) as (s' & Hst & Hinv'). rewrite Hst.
  apply IH; [eapply reach_step; eauto|exact Hinv'|exact Hes'].
Qed.

(** the initial timer book: every port listens with its receipt timer armed *)
Lemma add_ports_init ps : forall i acc i' o,
  (forall p, (p < length (i_ports i))%nat -> exists x, In x acc /\ Z.to_nat (fst x) = p /\ reset_kind (snd x) = Some 3%nat) ->
  Forall (fun pp => p_state pp = PListening) (i_ports i) ->
  add_ports i ps acc = Ok (i', o) ->
  (forall p, (p < length (i_ports i'))%nat -> exists x, In x o /\ Z.to_nat (fst x) = p /\ reset_kind (snd x) = Some 3%nat) /\
  Forall (fun pp => p_state pp = PListening) (i_ports i').
Proof.
  induction ps as [|[c r] ps IH]; intros i acc i' o Hacc Hst H; cbn [add_ports] in H.
  - inversion H; subst. split; assumption.
  - destruct (add_port i c r) as [[i1 o1]|?] eqn:E; cbn [obind fst snd] in H; [|discriminate].
    unfold add_port in E. destruct (chk_u _ _ _); cbn [obind] in E; [|discriminate].
    match type of E with context [draw ?x] => destruct (draw x) as [k p1] eqn:Ed end.
    destruct (announce_interval_ti _); cbn [obind] in E; [|discriminate]. inversion E; subst. clear E.
    apply draw_state_eq in Ed. cbn [p_state] in Ed.
    eapply IH; [| |exact H]; cbn [i_ports].
    + intros p Hp. rewrite app_length in Hp. cbn [length] in Hp.
      destruct (Nat.eq_dec p (length (i_ports i))) as [->|Hne].
      * eexists. split; [apply in_or_app; right; left; reflexivity|]. cbn. split; [lia|reflexivity].
      * destruct (Hacc p ltac:(lia)) as (x & Hx & Hxp & Hxk). exists x. split; [apply in_or_app; left; exact Hx|split; assumption].
    + apply Forall_app. split; [exact Hst|]. constructor; [exact Ed|constructor].
Qed.

(** the safety walk of the C12 oracle never rejects the model's own trace *)
Theorem walk12_main s es rel :
  setup_valid s -> Forall event_valid es ->
  exists i o, init s = Ok (i, o) /\
    let c := mkCase s es rel (Some o) (run i es) in
    exists r, walk12 c (init12 c) (init_snap c) (pc_events c) (pc_trace c) = Some r.
Proof.
  intros Hs Hes. destruct (init_ok s Hs) as (i & o & Hi & _). exists i, o. split; [exact Hi|]. cbv zeta.
  cbn [pc_events pc_trace]. unfold init_snap. cbn [pc_setup]. rewrite Hi.
  set (c := mkCase s es rel (Some o) (run i es)).
  pose proof (reach_init s es rel (run i es) i o Hs Hi) as Hr. fold c in Hr.
  apply walk12_model; [exact Hr| |exact Hes].
  unfold init12. cbn [tms recovered uaf pc_init].
  assert (Hwf0 : book_wf (map (fun _ : nat => no_timers) (all_ports c))).
  { unfold book_wf. apply Forall_forall. intros x Hx. apply in_map_iff in Hx. destruct Hx as (y & <- & _). reflexivity. }
  destruct (apply_resets_wf 0 o _ Hwf0) as [Hwf Hlen]. rewrite map_length in Hlen. unfold all_ports in Hlen. rewrite seq_length in Hlen.
  split; [exact Hwf|]. split; [exact Hlen|].
  unfold init in Hi.
  assert (H0 : forall p, (p < length (i_ports (new_instance (su_config s) (su_tp s))))%nat ->
             exists x : tobs, In x [] /\ Z.to_nat (fst x) = p /\ reset_kind (snd x) = Some 3%nat) by (intros p Hp; cbn in Hp; lia).
  destruct (add_ports_init _ _ _ _ _ H0 (Forall_nil _) Hi) as [Hobs Hst].
  intros p pp Hn k Hk. rewrite Forall_forall in Hst. rewrite (Hst pp (nth_error_In _ _ Hn)) in Hk. destruct Hk as [<-|[]].
  left. assert (Hp : (p < length (i_ports i))%nat) by (apply nth_error_Some; rewrite Hn; discriminate).
  destruct (Hobs p Hp) as (x & Hx & Hxp & Hxk). eapply apply_resets_sets; eauto.
  rewrite map_length. unfold all_ports. rewrite seq_length, <- (ports_len c i Hr). exact Hp.
Qed.
