(** C05 — BMCA state decision matches IEEE 1588 for every data set combination.
    The oracle recomputes, with the figure-level specification (BmcaSpec.v),
    what every BMCA run must decide, for histories of the evaluable shape:
    every foreign master that ever announced on a port announces at least twice
    again before each BMCA run (so that its newest Announce is its candidate). *)
From SV Require Export Port.BmcaSpec Port.OracleBase.

(** [cd_travel]: how far the sequence id of this master has moved, in total,
    over the Announces counted so far *)
Record cand := mkCand { cd_src : port_identity; cd_h : header; cd_a : announce_body; cd_fresh : Z; cd_travel : Z }.

(** the Announce closes a path-trace loop (or overflows the path) while the port
    is slave of its sender: it is dropped before it reaches the foreign-master
    list (Clause 16.2, property C15) *)
Definition loop_drop (prev : snapshot) (p : nat) (m : message) : bool :=
  (state_of prev p =? 9) && pi_eqb (h_source (m_header m)) (pd_parent (ds_parent (sn_ds prev)))
  && ds_path_enable (sn_ds prev)
  && match find_tlv 8 (tlvs_of (m_suffix m)) with
     | Some t => let path := path_of_value (tlv_value t) in
                 (PATH_CAPACITY <? length path)%nat
                 || existsb (fun ci => ci =? dd_clock_identity (ds_default (sn_ds prev))) path
     | None => false
     end.

(** a valid foreign Announce on port p (as in C06) *)
Definition cand_of (c : pcase) (prev : snapshot) (p : nat) (frame : bytes) : option cand :=
  if negb (is_compatible frame) then None else
  match decoded frame with
  | Some m =>
      match m_body m with
      | BAnnounce a =>
          let h := m_header m in
          let acc := match port_cfg c p with Some pc => pc_acceptable pc | None => None end in
          if (h_domain h =? dd_domain (ds_default (sn_ds prev)))
             && (h_sdo_id h =? dd_sdo_id (ds_default (sn_ds prev)))
             && negb (pi_clock (h_source h) =? own_clock c)
             && acceptable acc (pi_clock (h_source h))
             && (an_steps_removed a <? 255)
             && negb (loop_drop prev p m)
          then Some (mkCand (h_source h) h a 1 0) else None
      | _ => None
      end
  | None => None
  end.

Fixpoint upsert (x : cand) (l : list cand) : list cand :=
  match l with
  | [] => [x]
  | y :: l' => if pi_eqb (cd_src y) (cd_src x)
               then mkCand (cd_src x) (cd_h x) (cd_a x) (cd_fresh y + 1)
                           (cd_travel y + (h_seq (cd_h x) - h_seq (cd_h y)) mod 65536) :: l'
               else y :: upsert x l'
  end.

Definition cds (p : port_identity) (x : cand) : cmp_ds := cmp_from_announce (cd_h x) (cd_a x) p.

(** spec-best of a list: better (or better by topology) than every other element *)
Definition spec_best (p : port_identity) (l : list cand) : option cand :=
  find (fun e => forallb (fun o => pi_eqb (cd_src o) (cd_src e)
                                  || a_better_or_topo (fig34 (cds p e) (cds p o))) l) l.

(** [evaluable] = false once something with a lasting effect outside the
    oracle's bookkeeping happened (own-identity Announce: multiport rule; stale
    sequence id: the record is rejected).  The library compares a sequence id
    with the newest record it still HOLDS of that master, which is an older one
    once BMCA runs have consumed the newest; the oracle therefore requires the
    ids of one master to have moved by less than 2^15 in total ([cd_travel]),
    which makes the two tests agree on every history *)
Record st05 := mkS5 { cands : list (list cand); evaluable : bool }.

Definition own_announce (c : pcase) (frame : bytes) : bool :=
  if negb (is_compatible frame) then false else
  match decoded frame with
  | Some m => match m_body m with
              | BAnnounce _ => pi_clock (h_source (m_header m)) =? own_clock c
              | _ => false
              end
  | None => false
  end.

Definition seq_fresh (x : cand) (l : list cand) : bool :=
  match find (fun y => pi_eqb (cd_src y) (cd_src x)) l with
  | Some y => cd_travel y + (h_seq (cd_h x) - h_seq (cd_h y)) mod 65536 <? 32767
  | None => true
  end.

Definition tp_of_ann (h : header) (a : announce_body) : time_props :=
  mkTP (if h_utc_valid h then Some (an_utc_offset a) else None)
       (if h_leap59 h then 2 else if h_leap61 h then 1 else 0)
       (h_time_traceable h) (h_freq_traceable h) (h_ptp_timescale h) (an_time_source a).

Definition step_C05 (c : pcase) (s : st05) (prev : snapshot) (e : event) (o : list tobs) (sn : snapshot) : option st05 :=
  match e with
  | EvRecvGeneral p frame | EvRecvEvent p frame _ =>
      match cand_of c prev p frame with
      | Some x =>
          let l := nth p (cands s) [] in
          if seq_fresh x l then Some (mkS5 (update_nth p (upsert x l) (cands s)) (evaluable s))
          else Some (mkS5 (cands s) false)
      | None => Some (mkS5 (cands s) (evaluable s && negb (own_announce c frame)))
      end
  | EvBmca =>
      let ds := sn_ds prev in
      let dd := ds_default ds in
      let fresh_ok := forallb (fun l => forallb (fun x => 2 <=? cd_fresh x) l && (length l <=? 8)%nat) (cands s) in
      let reset := mkS5 (map (map (fun x => mkCand (cd_src x) (cd_h x) (cd_a x) 0 (cd_travel x))) (cands s)) (evaluable s) in
      if negb (evaluable s && fresh_ok) then Some reset
      else
        let erb (p : nat) := spec_best (port_id c p) (nth p (cands s) []) in
        let usable (p : nat) := match port_cfg c p with
                                | Some pc => negb (pc_master_only pc) && negb (state_of prev p =? 2)
                                | None => false
                                end in
        (* Ebest: best of the usable ports' Erbest, each seen from its own port *)
        let tagged := flat_map (fun p => if usable p then match erb p with Some x => [(p, x)] | None => [] end else [])
                               (all_ports c) in
        let ebest := find (fun e1 => forallb (fun e2 =>
                              Nat.eqb (fst e1) (fst e2)
                              || a_better_or_topo (fig34 (cds (port_id c (fst e1)) (snd e1))
                                                         (cds (port_id c (fst e2)) (snd e2)))) tagged) tagged in
        (* the specification must itself be decidable here (no ties, no cycles) *)
        let determinate :=
          forallb (fun p => match nth p (cands s) [] with [] => true | _ => match erb p with Some _ => true | None => false end end)
                  (all_ports c)
          && match tagged with [] => true | _ => match ebest with Some _ => true | None => false end end in
        if negb determinate then Some reset else
        let d0 := cmp_from_own dd in
        let decide (p : nat) : decision :=
          fig33 (cq_class (dd_quality dd)) d0
                (match ebest with Some (q, x) => Some (cds (port_id c q) x) | None => None end)
                (match erb p with Some x => Some (cds (port_id c p) x) | None => None end)
                (match ebest with Some (q, _) => Nat.eqb p q | None => false end)
                (state_of prev p =? 4) in
        let states_ok :=
          forallb (fun p => state_of sn p =? decided_state (decide p) (state_of prev p) (dd_slave_only dd) false)
                  (all_ports c) in
        let s1 := find (fun p => match decide p with DS1 => negb (state_of prev p =? 2) | _ => false end) (all_ports c) in
        let any_m := existsb (fun p => match decide p with DM1 | DM2 => true | _ => false end) (all_ports c) in
        let ds_ok :=
          match s1, ebest with
          | Some p, Some (_, x) =>
              (ds_steps_removed (sn_ds sn) =? an_steps_removed (cd_a x) + 1)
              && pd_eqb (ds_parent (sn_ds sn))
                        (mkPD (cd_src x) (an_gm_identity (cd_a x)) (an_quality (cd_a x))
                              (an_prio1 (cd_a x)) (an_prio2 (cd_a x)))
              && tp_eqb (ds_tp (sn_ds sn)) (tp_of_ann (cd_h x) (cd_a x))
          | _, _ =>
              if any_m then
                (ds_steps_removed (sn_ds sn) =? 0)
                && pd_eqb (ds_parent (sn_ds sn))
                          (mkPD (mkPI (dd_clock_identity dd) 0) (dd_clock_identity dd) (dd_quality dd)
                                (dd_prio1 dd) (dd_prio2 dd))
                && (length (ds_path (sn_ds sn)) =? 0)%nat
              else ds_eqb (sn_ds sn) ds
          end in
        if states_ok && ds_ok then Some reset else None
  | _ => Some s
  end.

Definition ok_C05 (c : pcase) : bool :=
  walk (step_C05 c) (mkS5 (map (fun _ => []) (all_ports c)) true) (init_snap c) (pc_events c) (pc_trace c).

(** number of BMCA runs the oracle could actually judge (for coverage accounting) *)
Definition kf_C05 (c : pcase) : Z := 0.
Definition case := pcase.
Definition run_cases := run_cases_gen agree_port ok_C05 kf_C05.
