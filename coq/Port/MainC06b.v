(** C06, whole histories, the liveness half [steady_ok]: on every steady history
    (one port, one better master announcing before every BMCA run with
    consecutive sequence ids, across 65535 -> 0) every BMCA run from the second
    Announce on leaves the port slave of that master. *)
From Coq Require Import Sorted.
From SV Require Export Port.MainC12.

(** the semantic shape test of [steady_ok], as a top-level function *)
Fixpoint shape_sem6 (c : pcase) (prev : snapshot) (es : list event) (rs : list step_result)
                    (src : option (port_identity * Z)) (since : Z) : bool :=
  match es, rs with
  | [], _ => true
  | EvBmca :: es', SROk _ sn :: rs' => (1 <=? since) && shape_sem6 c sn es' rs' src 0
  | EvRecvGeneral O frame :: es', SROk _ sn :: rs' =>
      match arrival_of c prev 0 frame 0, decoded frame with
      | Some a, Some m =>
          match m_body m with
          | BAnnounce ab =>
              (an_prio1 ab <? dd_prio1 (ds_default (sn_ds prev)))
              && (128 <=? cq_class (dd_quality (ds_default (sn_ds prev))))
              && negb (an_gm_identity ab =? own_clock c)
              && (blen (m_suffix m) =? 0)
              && match src with
                 | Some (s, q) => pi_eqb s (ar_src a) && (ar_seq a =? (q + 1) mod 65536)
                 | None => true
                 end
              && shape_sem6 c sn es' rs' (Some (ar_src a, ar_seq a)) (since + 1)
          | _ => false
          end
      | _, _ => false
      end
  | _, _ => false
  end.

Lemma steady_ok_eq c :
  steady_ok c = if is_steady_shape c then
                  if shape_sem6 c (init_snap c) (pc_events c) (pc_trace c) None 0
                  then steady_scan c (init_snap c) (pc_events c) (pc_trace c) None 0 0 else true
                else true.
Proof.
  unfold steady_ok. destruct (is_steady_shape c); [|reflexivity]. cbv zeta.
  match goal with |- (if ?f _ _ _ _ _ then _ else _) = _ =>
    assert (Hf : forall es prev rs src since, f prev es rs src since = shape_sem6 c prev es rs src since) end.
  { induction es as [|e es IH]; intros prev rs src since; [destruct rs; reflexivity|].
    destruct e; try reflexivity.
    - destruct p; [|reflexivity]. destruct rs as [|[o sn|] rs]; try reflexivity. cbn [shape_sem6].
      destruct (arrival_of c prev 0 frame 0); [|reflexivity]. destruct (decoded frame); [|reflexivity].
      destruct (m_body m); try reflexivity. rewrite IH. reflexivity.
    - destruct rs as [|[o sn|] rs]; try reflexivity. cbn [shape_sem6]. rewrite IH. reflexivity. }
  rewrite Hf. reflexivity.
Qed.

(** * the stored Announces of the steady master *)
Definition seq_of (m : foreign_msg) : Z := h_seq (fm_header m).
Definition adj2 (msgs : list foreign_msg) : Prop :=
  forall l a b, msgs = l ++ [a; b] -> seq_of b = (seq_of a + 1) mod 65536.
Definition ages_sorted (msgs : list foreign_msg) : Prop := StronglySorted (fun a b => fm_age b <= fm_age a) msgs.

Lemma adj2_suffix pre suf : adj2 (pre ++ suf) -> adj2 suf.
Proof. intros H l a b ->. apply (H (pre ++ l)). rewrite <- app_assoc. reflexivity. Qed.

Lemma sorted_suffix pre suf : ages_sorted (pre ++ suf) -> ages_sorted suf.
Proof. unfold ages_sorted. induction pre as [|x pre IH]; [auto|]. cbn [app]. intros H. inversion H; subst. auto. Qed.

Lemma filter_suffix (f : foreign_msg -> bool) msgs :
  ages_sorted msgs -> (forall a b, fm_age b <= fm_age a -> f a = true -> f b = true) ->
  exists pre, msgs = pre ++ filter f msgs.
Proof.
  unfold ages_sorted. intros Hs Hm. induction msgs as [|x l IH]; [exists []; reflexivity|].
  inversion Hs as [|? ? Hs' Hall]; subst. cbn [filter]. destruct (f x) eqn:Ex.
  - exists []. cbn [app]. f_equal. symmetry.
    clear - Hall Hm Ex. induction l as [|y l IH]; [reflexivity|]. inversion Hall; subst. cbn [filter].
    rewrite (Hm x y) by assumption. f_equal. apply IH. assumption.
  - destruct (IH Hs') as (pre & Hp). exists (x :: pre). cbn [app]. rewrite <- Hp. reflexivity.
Qed.

Lemma sorted_snoc msgs m : ages_sorted msgs -> (forall x, In x msgs -> fm_age m <= fm_age x) -> ages_sorted (msgs ++ [m]).
Proof.
  unfold ages_sorted. induction msgs as [|y l IH]; intros Hs Hm; cbn [app]; [constructor; constructor|].
  inversion Hs as [|? ? Hs' Hall]; subst. constructor.
  - apply IH; [exact Hs'|]. intros x Hx. apply Hm. right. exact Hx.
  - apply Forall_app. split; [exact Hall|]. constructor; [apply Hm; left; reflexivity|constructor].
Qed.

Lemma sorted_removelast msgs : ages_sorted msgs -> ages_sorted (removelast msgs).
Proof.
  intros H. destruct msgs as [|x l]; [exact H|]. assert (Hne : x :: l <> []) by discriminate.
  rewrite (app_removelast_last x Hne) in H. unfold ages_sorted in *.
  clear Hne. revert H. generalize (removelast (x :: l)) (last (x :: l) x). intros pre lst.
  induction pre as [|y pre IH]; intros H; [constructor|]. cbn [app] in H. inversion H as [|? ? Hs Hall]; subst.
  constructor; [apply IH; exact Hs|]. apply Forall_app in Hall. apply Hall.
Qed.

Lemma sorted_tl msgs : ages_sorted msgs -> ages_sorted (tl msgs).
Proof. unfold ages_sorted. destruct msgs; [auto|]. intros H. inversion H; assumption. Qed.

Lemma sorted_map_age msgs s : ages_sorted msgs ->
  ages_sorted (map (fun m => mkFMsg (fm_header m) (fm_ann m) (fm_age m + s)) msgs).
Proof.
  unfold ages_sorted. induction msgs as [|x l IH]; intros H; [constructor|]. inversion H as [|? ? Hs Hall]; subst. cbn [map].
  constructor; [apply IH; exact Hs|]. apply Forall_forall. intros y Hy. apply in_map_iff in Hy. destruct Hy as (z & <- & Hz).
  rewrite Forall_forall in Hall. specialize (Hall z Hz). cbn [fm_age]. lia.
Qed.

Lemma adj2_tl msgs : adj2 msgs -> adj2 (tl msgs).
Proof. destruct msgs as [|x l]; [auto|]. cbn [tl]. intros H. apply (adj2_suffix [x] l). exact H. Qed.

Lemma adj2_snoc msgs m d : msgs <> [] -> seq_of m = (seq_of (last msgs d) + 1) mod 65536 -> adj2 (msgs ++ [m]).
Proof.
  intros Hne Hs l a b Heq.
  assert (Hx : msgs = l ++ [a] /\ m = b).
  { change (l ++ [a; b]) with (l ++ [a] ++ [b]) in Heq. rewrite app_assoc in Heq. apply app_inj_tail in Heq. exact Heq. }
  destruct Hx as [-> <-]. rewrite last_last in Hs. exact Hs.
Qed.

Lemma adj2_map_age msgs s : adj2 msgs -> adj2 (map (fun m => mkFMsg (fm_header m) (fm_ann m) (fm_age m + s)) msgs).
Proof.
  intros H l a b Heq.
  assert (Hx : exists l0 a0 b0, msgs = l0 ++ [a0; b0] /\ seq_of a = seq_of a0 /\ seq_of b = seq_of b0).
  { clear H. revert l Heq. induction msgs as [|x msgs IH]; intros l Heq; [destruct l; discriminate Heq|].
    destruct l as [|y l]; cbn [map app] in Heq.
    - destruct msgs as [|x2 [|x3 m3]]; cbn [map] in Heq; try discriminate Heq. inversion Heq; subst.
      exists [], x, x2. repeat split.
    - inversion Heq as [[Hy Ht]]. destruct (IH l Ht) as (l0 & a0 & b0 & -> & H1 & H2). exists (x :: l0), a0, b0. repeat split; assumption. }
  destruct Hx as (l0 & a0 & b0 & Hm & -> & ->). eapply H; eauto.
Qed.

(** the block of stored Announces of master [s], newest last with sequence id [q] *)
Record block (own dd_prio1 : Z) (ti : Z) (s : port_identity) (q : Z) (msgs : list foreign_msg) : Prop := mkBlock {
  bl_ne : msgs <> [];
  bl_src : Forall (fun m => h_source (fm_header m) = s /\ an_prio1 (fm_ann m) < dd_prio1 /\
                            an_gm_identity (fm_ann m) <> own /\ an_steps_removed (fm_ann m) < 255) msgs;
  bl_last : forall d, seq_of (last msgs d) = q;
  bl_adj : adj2 msgs;
  bl_sorted : ages_sorted msgs;
  bl_lt : Forall (fun m => 0 <= fm_age m < cutoff_age ti) msgs
}.

Record pblock (own dd_prio1 : Z) (ti : Z) (s : port_identity) (q : Z) (msgs : list foreign_msg) : Prop := mkPBlock {
  pb_ne : msgs <> [];
  pb_src : Forall (fun m => h_source (fm_header m) = s /\ an_prio1 (fm_ann m) < dd_prio1 /\
                            an_gm_identity (fm_ann m) <> own /\ an_steps_removed (fm_ann m) < 255) msgs;
  pb_last : forall d, seq_of (last msgs d) = q;
  pb_sorted : ages_sorted msgs;
  pb_lt : Forall (fun m => 0 <= fm_age m < cutoff_age ti) msgs
}.
Lemma block_pblock own p1 ti s q msgs : block own p1 ti s q msgs -> pblock own p1 ti s q msgs.
Proof. intros [A B C D E F]. constructor; assumption. Qed.

Lemma purge_id ti msgs : Forall (fun m => 0 <= fm_age m < cutoff_age ti) msgs -> purge_old ti msgs = msgs.
Proof.
  unfold purge_old. induction 1 as [|m l Hm _ IH]; [reflexivity|]. cbn [filter].
  destruct (Z.ltb_spec (fm_age m) (cutoff_age ti)); [rewrite IH; reflexivity|lia].
Qed.

Lemma last_tl {A} (l : list A) d : (2 <= length l)%nat -> last (tl l) d = last l d.
Proof. destruct l as [|x [|y l]]; cbn [length]; try lia. reflexivity. Qed.

(** registering the next Announce *)
Lemma block_register own p1 ti s q msgs h a age :
  pblock own p1 ti s q msgs -> 0 < cutoff_age ti ->
  h_source h = s -> an_prio1 a < p1 -> an_gm_identity a <> own -> an_steps_removed a < 255 ->
  h_seq h = (q + 1) mod 65536 -> 0 <= age < cutoff_age ti -> (forall x, In x msgs -> age <= fm_age x) ->
  block own p1 ti s (h_seq h) (fmr_msgs (fm_register ti (mkFM s msgs) h a age)) /\
  (Nat.min (length msgs + 1) 8 <= length (fmr_msgs (fm_register ti (mkFM s msgs) h a age)) <= length msgs + 1)%nat.
Proof.
  intros [Hne Hsrc Hlast Hsort Hlt] Hc Hs Hp Hg Hst Hq Hage Hmin.
  unfold fm_register. cbn [fmr_msgs]. rewrite (purge_id ti msgs Hlt). unfold MAX_ANNOUNCE_MESSAGES.
  set (new := mkFMsg h a age).
  assert (Hnew : h_source (fm_header new) = s /\ an_prio1 (fm_ann new) < p1 /\ an_gm_identity (fm_ann new) <> own /\ an_steps_removed (fm_ann new) < 255)
    by (cbn; repeat split; assumption).
  destruct (Nat.ltb_spec (length msgs) 8) as [Hl|Hl].
  - split; [|rewrite app_length; cbn [length]; lia]. constructor.
    + destruct msgs; discriminate.
    + apply Forall_app. split; [exact Hsrc|constructor; [exact Hnew|constructor]].
    + intros d. rewrite last_last. reflexivity.
    + apply (adj2_snoc msgs new new Hne). unfold new at 1, seq_of at 1. cbn [fm_header]. rewrite Hq. f_equal. f_equal. symmetry. apply Hlast.
    + apply sorted_snoc; [exact Hsort|exact Hmin].
    + apply Forall_app. split; [exact Hlt|constructor; [exact Hage|constructor]].
  - assert (Hl2 : (2 <= length msgs)%nat) by lia.
    assert (Htne : tl msgs <> []) by (destruct msgs as [|x [|y l]]; cbn in *; try lia; discriminate).
    split; [|rewrite app_length; cbn [length]; destruct msgs; cbn [tl length] in *; lia]. constructor.
    + destruct (tl msgs); discriminate.
    + apply Forall_app. split; [apply Forall_tl; exact Hsrc|constructor; [exact Hnew|constructor]].
    + intros d. rewrite last_last. reflexivity.
    + apply (adj2_snoc (tl msgs) new new Htne). unfold new at 1, seq_of at 1. cbn [fm_header]. rewrite Hq. f_equal. f_equal.
      rewrite last_tl by exact Hl2. symmetry. apply Hlast.
    + apply sorted_snoc; [apply sorted_tl; exact Hsort|]. intros x Hx. apply Hmin. destruct msgs; [destruct Hx|right; exact Hx].
    + apply Forall_app. split; [apply Forall_tl; exact Hlt|constructor; [exact Hage|constructor]].
Qed.

(** the first Announce of a master *)
Lemma block_first own p1 ti s h a :
  0 < cutoff_age ti -> h_source h = s -> an_prio1 a < p1 -> an_gm_identity a <> own -> an_steps_removed a < 255 ->
  block own p1 ti s (h_seq h) [mkFMsg h a 0].
Proof.
  intros Hc Hs Hp Hg Hst. constructor.
  - discriminate.
  - constructor; [cbn; repeat split; assumption|constructor].
  - intros d. reflexivity.
  - intros l x y Heq. destruct l as [|z [|z2 l]]; discriminate Heq.
  - constructor; constructor.
  - constructor; [cbn; lia|constructor].
Qed.

Lemma filter_length_le {A} (f : A -> bool) l : (length (filter f l) <= length l)%nat.
Proof. induction l as [|x l IH]; [apply Nat.le_refl|]. cbn [filter]. destruct (f x); cbn [length]; lia. Qed.

Lemma last_app_ne {A} (a b : list A) d : b <> [] -> last (a ++ b) d = last b d.
Proof.
  intros H. destruct b as [|y b] using rev_ind; [contradiction H; reflexivity|]. rewrite app_assoc, !last_last. reflexivity.
Qed.

Lemma last_map_ne {A B} (f : A -> B) l x d : l <> [] -> last (map f l) d = f (last l x).
Proof.
  induction l as [|y l IH]; intros H; [contradiction H; reflexivity|].
  destruct l as [|z l]; [reflexivity|]. change (last (map f (y :: z :: l)) d) with (last (map f (z :: l)) d).
  change (last (y :: z :: l) x) with (last (z :: l) x). apply IH. discriminate.
Qed.

(** ageing at the end of a BMCA run keeps the block when its newest message survives *)
Lemma block_age own p1 ti s q msgs step :
  block own p1 ti s q msgs -> 0 < step ->
  (forall d, fm_age (last msgs d) + step < cutoff_age ti) ->
  exists msgs', fmr_msgs (fm_step_age ti step (mkFM s msgs)) = msgs' /\ block own p1 ti s q msgs' /\
    (length msgs' <= length msgs)%nat /\
    (forall n, (n <= length msgs)%nat ->
       (forall m, In m (skipn (length msgs - n) msgs) -> fm_age m + step < cutoff_age ti) -> (n <= length msgs')%nat).
Proof.
  intros [Hne Hsrc Hlast Hadj Hsort Hlt] Hs Hkeep. unfold fm_step_age. cbn [fmr_msgs]. eexists. split; [reflexivity|].
  set (aged := map (fun m => mkFMsg (fm_header m) (fm_ann m) (fm_age m + step)) msgs).
  assert (Hsa : ages_sorted aged) by (apply sorted_map_age; exact Hsort).
  destruct (filter_suffix (fun m => fm_age m <? cutoff_age ti) aged Hsa) as (pre & Hpre).
  { intros x y Hxy Hx. apply Z.ltb_lt in Hx. apply Z.ltb_lt. lia. }
  unfold purge_old. fold aged.
  (* the last aged message survives *)
  destruct msgs as [|x0 l0]; [contradiction Hne; reflexivity|]. remember (x0 :: l0) as msgs eqn:Emsgs.
  assert (Hane : aged <> []) by (unfold aged; rewrite Emsgs; discriminate).
  assert (Hlast_aged : forall d, last aged d = mkFMsg (fm_header (last msgs x0)) (fm_ann (last msgs x0)) (fm_age (last msgs x0) + step)).
  { intros d. unfold aged. rewrite (last_map_ne (fun m => mkFMsg (fm_header m) (fm_ann m) (fm_age m + step)) msgs x0 d Hne). reflexivity. }
  set (kept := filter (fun m => fm_age m <? cutoff_age ti) aged) in *.
  assert (Hlast_in : In (last aged x0) kept).
  { apply filter_In. split.
    - rewrite (app_removelast_last x0 Hane) at 2. apply in_or_app. right. left. reflexivity.
    - rewrite Hlast_aged. cbn [fm_age]. apply Z.ltb_lt. apply Hkeep. }
  assert (Hkne : kept <> []) by (intros Hk; rewrite Hk in Hlast_in; destruct Hlast_in).
  split.
  - constructor.
    + exact Hkne.
    + apply Forall_forall. intros m Hm. apply filter_In in Hm. destruct Hm as [Hm _]. unfold aged in Hm. apply in_map_iff in Hm.
      destruct Hm as (m0 & <- & Hm0). rewrite Forall_forall in Hsrc. exact (Hsrc m0 Hm0).
    + intros d. assert (Hl : last kept d = last aged d).
      { transitivity (last (pre ++ kept) d); [|rewrite <- Hpre; reflexivity]. destruct kept as [|k0 kl] eqn:Ek; [contradiction Hkne; reflexivity|]. rewrite last_app_ne by discriminate. reflexivity. }
      rewrite Hl, Hlast_aged. unfold seq_of. cbn [fm_header]. apply (Hlast x0).
    + apply (adj2_suffix pre kept). rewrite <- Hpre. apply adj2_map_age. exact Hadj.
    + apply (sorted_suffix pre kept). rewrite <- Hpre. exact Hsa.
    + apply Forall_forall. intros m Hm. apply filter_In in Hm. destruct Hm as [Hm Hlt']. apply Z.ltb_lt in Hlt'.
      unfold aged in Hm. apply in_map_iff in Hm. destruct Hm as (m0 & <- & Hm0). rewrite Forall_forall in Hlt. specialize (Hlt m0 Hm0). cbn [fm_age] in *. lia.
  - split.
    { unfold kept, aged. etransitivity; [apply filter_length_le|]. rewrite map_length. apply Nat.le_refl. }
    intros n Hn Hall.
    assert (Hcount : forall l : list foreign_msg, (forall m, In m l -> fm_age m + step < cutoff_age ti) ->
              length (filter (fun m => fm_age m <? cutoff_age ti) (map (fun m => mkFMsg (fm_header m) (fm_ann m) (fm_age m + step)) l)) = length l).
    { induction l as [|x l IH]; intros Hx; [reflexivity|]. cbn [map filter fm_age].
      destruct (Z.ltb_spec (fm_age x + step) (cutoff_age ti)); [|specialize (Hx x (or_introl eq_refl)); lia].
      cbn [length]. rewrite IH; [reflexivity|]. intros m Hm. apply Hx. right. exact Hm. }
    unfold kept, aged. rewrite <- (firstn_skipn (length msgs - n) msgs) at 1. rewrite map_app, filter_app, app_length.
    rewrite (Hcount _ Hall), skipn_length. lia.
Qed.

(** * the steady scenario: one port, one master *)
Lemma handle_announce_registers p d ti m a p' d' o :
  negb (pi_eqb (h_source (m_header m)) (p_identity p)) && acceptable (pc_acceptable (p_config p)) (pi_clock (h_source (m_header m))) = true ->
  m_suffix m = [] -> pi_clock (p_identity p) <> pi_clock (h_source (m_header m)) ->
  handle_announce p d ti m a = Ok (p', d', o) ->
  p_fml p' = fml_register (p_identity p) ti (p_fml p) (m_header m) a 0 /\ p_state p' = p_state p /\
  p_multiport_disable p' = p_multiport_disable p /\ p_config p' = p_config p /\ p_identity p' = p_identity p /\
  ds_default d' = ds_default d.
Proof.
  intros Hacc Hsuf Hclk H. unfold handle_announce in H. cbv zeta in H. rewrite Hsuf in H.
  change (tlvs_of []) with (@nil tlv) in H. cbn [find_tlv] in H.
  match type of H with obind ?X _ = _ => destruct X as [[[d1 lp] locks]|?] eqn:Er end; cbn [obind] in H; [|discriminate].
  assert (Hlp : lp = false /\ ds_default d1 = ds_default d).
  { destruct (is_slave (p_state p) && (an_steps_removed a <? 255)); [|inversion Er; split; reflexivity].
    destruct (pi_eqb (h_source (m_header m)) (pd_parent (ds_parent d))); [|inversion Er; split; reflexivity].
    destruct (chk_u _ _ _); cbn [obind] in Er; [|discriminate].
    destruct (ds_path_enable d); inversion Er; split; reflexivity. }
  destruct Hlp as [-> Hdd]. unfold bmca_register in H. rewrite Hacc in H.
  assert (Hno : (pi_clock (p_identity (port_with_fml p (fml_register (p_identity p) ti (p_fml p) (m_header m) a 0))) =? pi_clock (h_source (m_header m))) = false).
  { cbn [port_with_fml p_identity]. apply Z.eqb_neq. exact Hclk. }
  rewrite Hno in H. cbn [andb] in H.
  match type of H with context [draw ?x] => destruct (draw x) as [k p3] eqn:Ed end.
  pose proof (draw_fml _ _ _ Ed) as F1. pose proof (draw_mp _ _ _ Ed) as F2. pose proof (draw_state_eq _ _ _ Ed) as F3.
  destruct (draw_cfg_id _ _ _ Ed) as [F4 F5].
  unfold ret in H. inversion H; subst. rewrite F1, F2, F3, F4, F5. cbn [port_with_fml p_fml p_state p_multiport_disable p_config p_identity].
  repeat split; auto.
Qed.

Definition sinv (c : pcase) (i : instance) (src : option (port_identity * Z)) (since total : Z) : Prop :=
  exists pp, i_ports i = [pp] /\ pc_master_only (p_config pp) = false /\ p_multiport_disable pp = None /\
    dd_slave_only (ds_default (i_ds i)) = false /\ i_log_bmca i = pc_log_announce (p_config pp) /\
    0 <= since <= total /\
    match src with
    | None => total = 0 /\ p_fml pp = [] /\ p_state pp = PListening
    | Some (s, q) =>
        128 <= cq_class (dd_quality (ds_default (i_ds i))) /\ 1 <= total /\ 0 <= q < 65536 /\
        exists msgs, p_fml pp = [mkFM s msgs] /\
          block (dd_clock_identity (ds_default (i_ds i))) (dd_prio1 (ds_default (i_ds i))) (port_ti pp) s q msgs /\
          Z.of_nat (length msgs) <= total /\
          (1 <= since -> 2 <= total -> (2 <= length msgs)%nat) /\
          (1 <= since -> forall d, fm_age (last msgs d) = 0) /\
          (if 2 <=? total - since
           then exists st, p_state pp = PSlave st /\ ss_remote st = s /\ parent_id (i_ds i) = s
           else p_state pp = PListening)
    end.

Lemma wrap_next q : 0 <= q < 65536 -> wrapping_sub16 ((q + 1) mod 65536) q = 1.
Proof.
  intros H. unfold wrapping_sub16. destruct (Z.eq_dec q 65535) as [->|Hne]; [reflexivity|].
  rewrite (Z.mod_small (q + 1)) by lia. replace (q + 1 - q) with 1 by lia. reflexivity.
Qed.

Lemma steady_announce c i frame i' o src since total a m ab :
  reach_inv c i -> sinv c i src since total -> bok frame ->
  step i (EvRecvGeneral 0 frame) = Ok (i', o) ->
  arrival_of c (snapshot_of i) 0 frame 0 = Some a -> decoded frame = Some m -> m_body m = BAnnounce ab ->
  an_prio1 ab < dd_prio1 (ds_default (i_ds i)) -> 128 <= cq_class (dd_quality (ds_default (i_ds i))) ->
  an_gm_identity ab <> own_clock c -> blen (m_suffix m) = 0 ->
  match src with Some (s, q) => s = ar_src a /\ ar_seq a = (q + 1) mod 65536 | None => True end ->
  sinv c i' (Some (ar_src a, ar_seq a)) (since + 1) (total + 1).
Proof.
  intros Hr (pp & Hports & Hmo & Hmp & Hso & Hlog & Hrange & Hsrc) Hbok Hs Harr Hdec Hbody Hp1 Hcls Hgm Hsuf Hsq.
  pose proof (ri_inv _ _ Hr) as Hi. pose proof (ri_clk _ _ Hr) as Hclk.
  assert (Hn : nth_error (i_ports i) 0 = Some pp) by (rewrite Hports; reflexivity).
  assert (Hid : p_identity pp = port_id c 0).
  { destruct Hi as (_ & _ & Hids & _). rewrite (Hids 0%nat pp Hn). unfold port_id. rewrite <- Hclk. reflexivity. }
  assert (Hpi : port_inv pp) by (destruct Hi as (Hp & _); rewrite Forall_forall in Hp; apply Hp; rewrite Hports; left; reflexivity).
  assert (Hla : -7 <= pc_log_announce (p_config pp) <= 7) by (destruct Hpi as ((Hx & _) & _); exact Hx).
  destruct (cutoff_pos pp Hla) as (_ & _ & Hcpos).
  (* what the arrival says about the frame *)
  unfold arrival_of in Harr. rewrite Hdec, Hbody in Harr.
  destruct (negb (is_compatible frame)) eqn:Ecomp; [discriminate Harr|]. apply negb_false_iff in Ecomp.
  rewrite (port_cfg_of c i 0 pp Hr Hn) in Harr. cbn [snapshot_of sn_ds] in Harr.
  destruct ((h_domain (m_header m) =? dd_domain (ds_default (i_ds i))) && (h_sdo_id (m_header m) =? dd_sdo_id (ds_default (i_ds i)))
            && negb (pi_clock (h_source (m_header m)) =? own_clock c)
            && acceptable (pc_acceptable (p_config pp)) (pi_clock (h_source (m_header m)))
            && (an_steps_removed ab <? 255)) eqn:Econd; [|discriminate Harr].
  inversion Harr; subst a. clear Harr. cbn [ar_src ar_seq] in *.
  apply andb_true_iff in Econd as [Econd Esteps]. apply andb_true_iff in Econd as [Econd Eacc].
  apply andb_true_iff in Econd as [Econd Eclk]. apply andb_true_iff in Econd as [Edom Esdo].
  apply negb_true_iff, Z.eqb_neq in Eclk. apply Z.ltb_lt in Esteps.
  unfold decoded in Hdec. destruct (decode frame) as [m0|?] eqn:Ed; [|discriminate Hdec]. inversion Hdec; subst m0.
  destruct (decoded_wf frame m Hbok Ed) as (Hwh & _ & _).
  assert (Hsufnil : m_suffix m = []) by (destruct (m_suffix m); [reflexivity|unfold blen in Hsuf; cbn in Hsuf; lia]).
  (* the call *)
  cbn [step] in Hs. unfold on_port in Hs. rewrite Hn in Hs.
  destruct (handle_general_receive pp (i_ds i) (port_ti pp) frame) as [[[pp' d'] oo]|?] eqn:Eh; cbn [obind] in Hs; [|discriminate].
  inversion Hs; subst i' o. clear Hs.
  unfold handle_general_receive, parse_and_filter in Eh. rewrite Ecomp, Ed in Eh. cbn [negb] in Eh.
  rewrite Esdo, Edom in Eh. cbn [andb] in Eh. unfold prepend in Eh.
  destruct (handle_general_internal pp (i_ds i) (port_ti pp) m) as [[[p1 d1] o2]|?] eqn:Eg; cbn [obind] in Eh; [|discriminate].
  inversion Eh; subst pp' d' oo. clear Eh. unfold handle_general_internal in Eg. rewrite Hbody in Eg.
  assert (Hownclk : pi_clock (p_identity pp) = own_clock c) by (rewrite Hid; reflexivity).
  assert (Hacc : negb (pi_eqb (h_source (m_header m)) (p_identity pp)) && acceptable (pc_acceptable (p_config pp)) (pi_clock (h_source (m_header m))) = true).
  { rewrite Eacc, andb_true_r. apply negb_true_iff. destruct (pi_eqb (h_source (m_header m)) (p_identity pp)) eqn:E; [|reflexivity].
    apply pi_eqb_eq in E. rewrite E, Hownclk in Eclk. contradiction Eclk; reflexivity. }
  destruct (handle_announce_registers pp (i_ds i) (port_ti pp) m ab p1 d1 o2 Hacc Hsufnil ltac:(rewrite Hownclk; auto) Eg)
    as (F1 & F2 & F3 & F4 & F5 & F6).
  assert (Hpt : port_ti p1 = port_ti pp) by (unfold port_ti; rewrite F4; reflexivity).
  pose proof (handle_announce_parent _ _ _ _ _ _ _ _ Eg) as Hpar.
  exists p1. cbn [i_ports i_ds i_log_bmca update_nth]. rewrite Hports. cbn [update_nth]. split; [reflexivity|].
  rewrite F3, F4, F6. split; [exact Hmo|]. split; [exact Hmp|]. split; [exact Hso|]. split; [exact Hlog|]. split; [lia|].
  assert (Hq : 0 <= h_seq (m_header m) < 65536) by (destruct Hwh as (_ & _ & _ & _ & _ & _ & Hx & _); exact Hx).
  assert (Hgm' : an_gm_identity ab <> dd_clock_identity (ds_default (i_ds i))) by (unfold own_clock in Hgm; unfold clk_inv in Hclk; rewrite Hclk; exact Hgm).
  assert (Hstate_same : forall X Y : Prop, (if 2 <=? total + 1 - (since + 1) then X else Y) = (if 2 <=? total - since then X else Y)) by (intros; replace (total + 1 - (since + 1)) with (total - since) by lia; reflexivity).
  split; [exact Hcls|]. split; [lia|]. split; [exact Hq|]. rewrite F1, F2, Hpt, Hstate_same, Hpar.
  destruct src as [[s q]|].
  - destruct Hsq as [-> Hseq]. destruct Hsrc as (_ & Ht & Hqr & msgs & Hfml & Hblk & Hlb & Hl2 & Hl0 & Hst).
    rewrite Hfml. unfold fml_register, fml_qualified. rewrite Hownclk. cbn [fml_find fmr_identity].
    assert (Ec1 : (pi_clock (h_source (m_header m)) =? own_clock c) = false) by (apply Z.eqb_neq; exact Eclk). rewrite Ec1, pi_eqb_refl.
    pose proof Hblk as [Hne Hbsrc Hlast Hadj Hsort Hlt].
    assert (Hlm : exists lastm, last (map Some msgs) None = Some lastm /\ seq_of lastm = q).
    { destruct msgs as [|x0 l0]; [contradiction Hne; reflexivity|]. exists (last (x0 :: l0) x0). split; [|apply Hlast].
      rewrite (last_map_ne Some (x0 :: l0) x0 None) by discriminate. reflexivity. }
    destruct Hlm as (lastm & Hlm & Hlq). cbn [fmr_msgs]. rewrite Hlm. unfold seq_of in Hlq. rewrite Hlq, Hseq, (wrap_next q Hqr).
    cbn [Z.leb negb]. destruct (Z.leb_spec 255 (an_steps_removed ab)); [lia|]. cbn [negb fml_update fmr_identity]. rewrite pi_eqb_refl.
    destruct (block_register _ _ _ _ _ _ (m_header m) ab 0 (block_pblock _ _ _ _ _ _ Hblk) Hcpos eq_refl Hp1 Hgm' Esteps Hseq (conj (Z.le_refl 0) Hcpos)) as [Hb' Hlen'].
    { intros x Hx. rewrite Forall_forall in Hlt. specialize (Hlt x Hx). lia. }
    destruct Hlen' as [Hlen' Hub'].
    eexists. split; [reflexivity|]. rewrite <- Hseq. split; [exact Hb'|]. split; [|split; [|split]].
    + apply Z.le_trans with (Z.of_nat (length msgs + 1)); [apply Nat2Z.inj_le; exact Hub'|lia].
    + intros _ _. assert (1 <= length msgs)%nat by (destruct msgs; [contradiction Hne; reflexivity|cbn; lia]).
      eapply Nat.le_trans; [|exact Hlen']. destruct (Nat.min_spec (length msgs + 1) 8) as [[_ Hm]|[_ Hm]]; rewrite Hm; lia.
    + intros _ d. unfold fm_register. cbn [fmr_msgs]. destruct (_ <? _)%nat; rewrite last_last; reflexivity.
    + exact Hst.
  - destruct Hsrc as (Ht & Hfml & Hst). rewrite Hfml. unfold fml_register, fml_qualified. rewrite Hownclk. cbn [fml_find].
    assert (Ec1 : (pi_clock (h_source (m_header m)) =? own_clock c) = false) by (apply Z.eqb_neq; exact Eclk). rewrite Ec1.
    destruct (Z.leb_spec 255 (an_steps_removed ab)); [lia|]. cbn [negb length Nat.ltb Nat.leb app].
    eexists. split; [reflexivity|]. split; [apply block_first; [exact Hcpos|reflexivity|exact Hp1|exact Hgm'|exact Esteps]|]. split; [|split; [|split]].
    + cbn [length]. lia.
    + intros _ Hx. lia.
    + intros _ d. reflexivity.
    + destruct (2 <=? total - since) eqn:E; [apply Z.leb_le in E; lia|exact Hst].
Qed.

(** * the BMCA run of the steady scenario *)
Lemma pblock_removelast own p1 ti s q msgs x0 :
  block own p1 ti s q msgs -> (2 <= length msgs)%nat ->
  pblock own p1 ti s (seq_of (last (removelast msgs) x0)) (removelast msgs) /\
  seq_of (last msgs x0) = (seq_of (last (removelast msgs) x0) + 1) mod 65536 /\
  msgs = removelast msgs ++ [last msgs x0] /\
  (forall x, In x (removelast msgs) -> fm_age (last msgs x0) <= fm_age x).
Proof.
  intros [Hne Hsrc Hlast Hadj Hsort Hlt] Hlen.
  pose proof (app_removelast_last x0 Hne) as Hsplit. set (rl := removelast msgs) in *. set (lm := last msgs x0) in *.
  assert (Hrlne : rl <> []).
  { intros Hx. rewrite Hx in Hsplit. rewrite Hsplit in Hlen. cbn in Hlen. lia. }
  pose proof (app_removelast_last x0 Hrlne) as Hsplit2.
  assert (Hall_rl : forall (P : foreign_msg -> Prop), Forall P msgs -> Forall P rl).
  { intros P HP. rewrite Hsplit in HP. apply Forall_app in HP. apply HP. }
  split; [|split; [|split; [exact Hsplit|]]].
  - constructor.
    + exact Hrlne.
    + apply Hall_rl. exact Hsrc.
    + intros d. rewrite Hsplit2 at 1. rewrite last_last. rewrite Hsplit2 at 2. rewrite last_last. reflexivity.
    + unfold rl. apply sorted_removelast. exact Hsort.
    + apply Hall_rl. exact Hlt.
  - apply (Hadj (removelast rl) (last rl x0) lm). rewrite Hsplit at 1. rewrite Hsplit2 at 1. rewrite <- app_assoc. reflexivity.
  - intros x Hx. unfold ages_sorted in Hsort. rewrite Hsplit in Hsort.
    clear - Hsort Hx. induction rl as [|y l IH]; [destruct Hx|]. cbn [app] in Hsort. inversion Hsort as [|? ? Hs Hall]; subst.
    destruct Hx as [->|Hx]; [|apply IH; assumption]. rewrite Forall_forall in Hall. apply Hall. apply in_or_app. right. left. reflexivity.
Qed.

Lemma rec_rs1 dd b st :
  128 <= cq_class (dd_quality dd) -> an_gm_identity (b_ann b) <> dd_clock_identity dd -> an_prio1 (b_ann b) < dd_prio1 dd ->
  recommended_state dd (Some b) (Some b) st = Ok (Some (RS1 (b_header b) (b_ann b))).
Proof.
  intros Hc Hg Hp. unfold recommended_state.
  assert (Hcls : (1 <=? cq_class (dd_quality dd)) && (cq_class (dd_quality dd) <=? 127) = false).
  { apply andb_false_iff. right. apply Z.leb_gt. lia. }
  rewrite Hcls. unfold compare_d0_best. rewrite compare_refines_spec. cbn [obind].
  assert (Hfig : fig34 (cmp_from_own dd) (best_cmp_ds b) = BBetter).
  { unfold fig34, cmp_from_own, best_cmp_ds, cmp_from_announce. cbn [c_gm_identity c_prio1].
    destruct (Z.eqb_spec (dd_clock_identity dd) (an_gm_identity (b_ann b))) as [E|_]; [contradiction Hg; symmetry; exact E|].
    destruct (Z.ltb_spec (dd_prio1 dd) (an_prio1 (b_ann b))); [lia|]. destruct (Z.ltb_spec (an_prio1 (b_ann b)) (dd_prio1 dd)); [reflexivity|lia]. }
  rewrite Hfig. cbn [ord_of_spec as_ordering]. unfold compare_global_and_port. rewrite best_eqb_refl. cbn [obind].
  destruct st; reflexivity.
Qed.

Lemma take_best_single own acc ti s msgs x0 :
  bmca_take_best own acc ti [mkFM s msgs] =
  if (2 <=? length msgs)%nat
  then Ok (bmca_reregister own acc ti [mkFM s (removelast msgs)] (fm_header (last msgs x0)) (fm_ann (last msgs x0)) (fm_age (last msgs x0)),
           Some (mkBest (fm_header (last msgs x0)) (fm_ann (last msgs x0)) (fm_age (last msgs x0)) own))
  else Ok ([mkFM s msgs], None).
Proof.
  unfold bmca_take_best, fml_take_qualified, fm_take, FOREIGN_MASTER_THRESHOLD. cbn [map fmr_msgs fmr_identity].
  destruct (2 <=? length msgs)%nat eqn:El; cbn [fst snd fold_left map].
  - assert (Hne : msgs <> []) by (intros ->; discriminate El).
    rewrite (last_map_ne Some msgs x0 None Hne). cbn [map find_best max_by_aux obind b_header b_ann b_age]. reflexivity.
  - reflexivity.
Qed.

Lemma steady_bmca c i i' o s q since total :
  reach_inv c i -> sinv c i (Some (s, q)) since total -> 1 <= since -> bmca i = Ok (i', o) ->
  sinv c i' (Some (s, q)) 0 total /\
  (2 <= total -> state_of (snapshot_of i') 0 = 9 /\ parent_id (i_ds i') = s).
Proof.
  intros Hr (pp & Hports & Hmo & Hmp & Hso & Hlog & Hrange & Hcls & Ht & Hqr & msgs & Hfml & Hblk & Hlb & Hl2 & Hl0 & Hst) Hsince H.
  pose proof (ri_inv _ _ Hr) as Hi. pose proof (ri_acc _ _ Hr) as Hacc.
  assert (Hin : In pp (i_ports i)) by (rewrite Hports; left; reflexivity).
  assert (Hpi : port_inv pp) by (destruct Hi as (Hp & _); rewrite Forall_forall in Hp; apply Hp; exact Hin).
  assert (Hla : -7 <= pc_log_announce (p_config pp) <= 7) by (destruct Hpi as ((Hx & _) & _); exact Hx).
  destruct (interval_facts _ Hla) as (Hiv & Hstep & _ & _ & Hspos).
  destruct (cutoff_pos pp Hla) as (_ & Hcut & Hcpos).
  set (stepd := dur_of_log (pc_log_announce (p_config pp))) in *.
  pose proof Hblk as [Hne Hbsrc Hlast Hadj Hsort Hlt].
  destruct msgs as [|x0 l0] eqn:Emsgs; [contradiction Hne; reflexivity|]. rewrite <- Emsgs in *.
  (* every stored Announce of the master is acceptable and not the port's own *)
  assert (Hstored : forall m0, In m0 msgs ->
            acceptable (pc_acceptable (p_config pp)) (pi_clock (h_source (fm_header m0))) = true /\
            pi_clock (h_source (fm_header m0)) <> pi_clock (p_identity pp) /\ 0 <= seq_of m0 < 65536).
  { intros m0 Hm0. unfold inst_acc in Hacc. rewrite Forall_forall in Hacc. destruct (Hacc pp Hin) as [Hall _].
    unfold fml_all in Hall. rewrite Hfml in Hall. inversion Hall as [|? ? Hfm _]; subst. cbn [fmr_msgs] in Hfm. rewrite Forall_forall in Hfm.
    destruct (Hfm m0 Hm0) as [A B]. split; [exact A|]. split; [exact B|].
    destruct Hpi as (_ & _ & _ & _ & (_ & Hnn) & _). unfold fml_nn in Hnn. rewrite Hfml in Hnn. inversion Hnn as [|? ? Hs0 _]; subst.
    cbn [fmr_msgs] in Hs0. rewrite Forall_forall in Hs0. destruct (Hs0 m0 Hm0) as [(_ & _ & _ & _ & _ & _ & Hq0 & _) _]. exact Hq0. }
  (* the selection *)
  assert (Hsel : exists msgs1 best,
            bmca_take_best (p_identity pp) (pc_acceptable (p_config pp)) (port_ti pp) (p_fml pp) = Ok ([mkFM s msgs1], best) /\
            block (dd_clock_identity (ds_default (i_ds i))) (dd_prio1 (ds_default (i_ds i))) (port_ti pp) s q msgs1 /\
            (forall d, fm_age (last msgs1 d) = 0) /\ (length msgs1 <= length msgs)%nat /\
            (if (2 <=? length msgs)%nat
             then (2 <= length msgs1)%nat /\ exists b, best = Some b /\ h_source (b_header b) = s /\
                  an_gm_identity (b_ann b) <> dd_clock_identity (ds_default (i_ds i)) /\ an_prio1 (b_ann b) < dd_prio1 (ds_default (i_ds i))
             else best = None)).
  { rewrite Hfml, (take_best_single _ _ _ _ _ x0). destruct (2 <=? length msgs)%nat eqn:El.
    - apply Nat.leb_le in El.
      destruct (pblock_removelast _ _ _ _ _ _ x0 Hblk El) as (Hpb & Hseq & Hsplit & Hmin).
      set (lm := last msgs x0) in *. set (rl := removelast msgs) in *.
      assert (Hlm_in : In lm msgs) by (rewrite Hsplit; apply in_or_app; right; left; reflexivity).
      destruct (Hstored lm Hlm_in) as (Ha & Hnc & _).
      rewrite Forall_forall in Hbsrc. destruct (Hbsrc lm Hlm_in) as (Hs1 & Hp1 & Hg1 & Hst1).
      assert (Hrl_ne : rl <> []) by (apply Hpb).
      assert (Hrl_last_in : In (last rl x0) msgs).
      { rewrite Hsplit. apply in_or_app. left. rewrite (app_removelast_last x0 Hrl_ne) at 2. apply in_or_app. right. left. reflexivity. }
      destruct (Hstored _ Hrl_last_in) as (_ & _ & Hq1).
      unfold bmca_reregister.
      assert (Haccb : negb (pi_eqb (h_source (fm_header lm)) (p_identity pp)) && acceptable (pc_acceptable (p_config pp)) (pi_clock (h_source (fm_header lm))) = true).
      { rewrite Ha, andb_true_r. apply negb_true_iff. destruct (pi_eqb (h_source (fm_header lm)) (p_identity pp)) eqn:E; [|reflexivity].
        apply pi_eqb_eq in E. rewrite E in Hnc. contradiction Hnc; reflexivity. }
      rewrite Haccb. unfold fml_register, fml_qualified.
      assert (Ec1 : (pi_clock (h_source (fm_header lm)) =? pi_clock (p_identity pp)) = false) by (apply Z.eqb_neq; exact Hnc). rewrite Ec1.
      rewrite Hs1. cbn [fml_find fmr_identity]. rewrite pi_eqb_refl. cbn [fmr_msgs].
      rewrite (last_map_ne Some rl x0 None Hrl_ne).
      unfold seq_of in Hseq. rewrite Hseq. unfold seq_of in Hq1. rewrite (wrap_next _ Hq1). cbn [Z.leb negb].
      destruct (Z.leb_spec 255 (an_steps_removed (fm_ann lm))); [lia|]. cbn [negb fml_update fmr_identity]. rewrite pi_eqb_refl.
      assert (Hage0 : fm_age lm = 0) by (apply (Hl0 Hsince)).
      destruct (block_register _ _ _ _ _ _ (fm_header lm) (fm_ann lm) (fm_age lm) Hpb Hcpos Hs1 Hp1 Hg1 Hst1 Hseq) as [Hb' Hlen'].
      { rewrite Hage0. lia. }
      { intros x Hx. apply Hmin. exact Hx. }
      eexists. eexists. split; [reflexivity|]. split.
      + assert (Hqq : h_seq (fm_header lm) = q) by (apply (Hlast x0)). rewrite Hqq in Hb'. exact Hb'.
      + destruct Hlen' as [Hlen' Hub'].
        assert (Hrll : (length rl + 1 = length msgs)%nat).
        { transitivity (length (rl ++ [lm])); [rewrite app_length; reflexivity|]. rewrite <- Hsplit. reflexivity. }
        split.
        * intros d. unfold fm_register. cbn [fmr_msgs]. destruct (_ <? _)%nat; rewrite last_last; exact Hage0.
        * split; [rewrite <- Hrll; exact Hub'|]. split.
          -- eapply Nat.le_trans; [|exact Hlen'].
             assert (Hrl1 : (1 <= length rl)%nat) by (destruct rl; [contradiction Hrl_ne; reflexivity|cbn; lia]).
             destruct (Nat.min_spec (length rl + 1) 8) as [[_ Hm]|[_ Hm]]; rewrite Hm; lia.
          -- eexists. split; [reflexivity|]. cbn [b_header b_ann]. repeat split; assumption.
    - eexists. eexists. split; [reflexivity|]. split; [exact Hblk|]. split; [exact (Hl0 Hsince)|]. split; [apply Nat.le_refl|reflexivity]. }
  destruct Hsel as (msgs1 & best & Htb & Hblk1 & Hage1 & Hub1 & Hbest).
  (* the run *)
  unfold bmca in H. rewrite Hlog, Hstep in H. cbn [obind] in H. destruct (negb _); [discriminate|].
  rewrite Hports in H. cbn [omap_list] in H. unfold calc_local_best in H. rewrite Htb in H. cbn [obind fst snd] in H.
  set (b0 := mkBP (port_with_fml pp [mkFM s msgs1]) best [] []) in *.
  cbn [flat_map app] in H. unfold best_for_bmca in H. cbn [b0 bp_port bp_best port_with_fml p_config p_state] in H. rewrite Hmo in H.
  assert (Hnf : is_faulty (p_state pp) = false).
  { destruct (2 <=? total - since); [destruct Hst as (st & -> & _)|rewrite Hst]; reflexivity. }
  rewrite Hnf in H. cbn [orb] in H.
  pose proof (block_age _ _ _ _ _ _ stepd Hblk1 Hspos) as Hage.
  destruct Hage as (msgs2 & Hm2 & Hblk2 & Hub2 & Hcount).
  { intros d. rewrite Hage1, Hcut. unfold stepd. lia. }
  assert (Hports' : forall b1, p_fml (bp_port b1) = [mkFM s msgs1] -> p_multiport_disable (bp_port b1) = None ->
            p_config (bp_port b1) = p_config pp ->
            step_announce_age stepd (bp_port b1) = Ok (port_with_fml (bp_port b1) [mkFM s msgs2])).
  { intros b1 Hf1 Hm1 Hc1. unfold step_announce_age. rewrite Hc1, Hiv. cbn [obind]. rewrite Hm1, Hf1.
    assert (Hpt : port_ti (bp_port b1) = port_ti pp) by (unfold port_ti; rewrite Hc1; reflexivity). rewrite Hpt.
    assert (Heq : fm_step_age (port_ti pp) stepd (mkFM s msgs1) = mkFM s msgs2).
    { unfold fm_step_age in *. cbn [fmr_msgs fmr_identity] in *. rewrite Hm2. reflexivity. }
    unfold fml_step_age. cbn [map filter]. rewrite Heq. cbn [fmr_msgs].
    destruct msgs2 as [|y l2]; [destruct Hblk2 as [Hx _ _ _ _ _]; contradiction Hx; reflexivity|]. reflexivity. }
  destruct (2 <=? length msgs)%nat eqn:El.
  - (* qualified: the port becomes / stays slave of s *)
    destruct Hbest as (Hlen1 & b & -> & Hbs & Hbg & Hbp).
    cbn [opt_list app find_best max_by_aux obind] in H. cbn [bmca_decide b0 bp_best] in H.
    rewrite (rec_rs1 _ b _ Hcls Hbg Hbp) in H. cbn [obind] in H.
    destruct (set_recommended_state b0 (RS1 (b_header b) (b_ann b)) (i_ds i)) as [[b1 d1]|?] eqn:Esrs; cbn [obind fst snd bmca_decide app] in H; [|discriminate].
    destruct (srs_rs1_parent _ _ _ _ _ _ Esrs) as [Hpar Hrem].
    pose proof (srs_default _ _ _ _ _ Esrs) as Hdd.
    assert (Hsl : is_slave (p_state (bp_port b1)) = true /\ p_fml (bp_port b1) = [mkFM s msgs1] /\
                  p_multiport_disable (bp_port b1) = None /\ p_config (bp_port b1) = p_config pp).
    { unfold set_recommended_state in Esrs.
      destruct (set_recommended_port_state b0 (RS1 (b_header b) (b_ann b)) (ds_default (i_ds i))) as [bx|?] eqn:Ep; cbn [obind] in Esrs; [|discriminate].
      destruct (srpt_fields _ _ _ _ Ep) as (F1 & F2 & F3 & _).
      assert (Hbx : bp_port b1 = bp_port bx) by (crunch Esrs; reflexivity). rewrite Hbx, F1, F2, F3. cbn [b0 bp_port port_with_fml p_fml p_multiport_disable p_config].
      split; [|split; [reflexivity|split; [exact Hmp|reflexivity]]].
      unfold set_recommended_port_state, set_forced in Ep. cbn [b0 bp_port port_with_fml p_config p_state] in Ep. rewrite Hmo in Ep.
      destruct (2 <=? total - since).
      - destruct Hst as (st & Hstp & Hremote & _). rewrite Hstp in Ep. rewrite Hremote, Hbs, pi_eqb_refl in Ep. cbn [negb] in Ep.
        inversion Ep; subst bx. cbn [b0 bp_port port_with_fml p_state]. rewrite Hstp. reflexivity.
      - rewrite Hst in Ep. match type of Ep with context [draw ?x] => destruct (draw x) as [k p2] eqn:Ed; apply draw_state_eq in Ed end.
        inversion Ep; subst bx. cbn [bp_port]. rewrite Ed. reflexivity. }
    destruct Hsl as (Hsl & Hf1 & Hm1 & Hc1).
    cbn [omap_list] in H. rewrite (Hports' b1 Hf1 Hm1 Hc1) in H. cbn [obind] in H. inversion H; subst i' o. clear H.
    split.
    + exists (port_with_fml (bp_port b1) [mkFM s msgs2]). cbn [i_ports i_ds i_log_bmca port_with_fml p_config p_multiport_disable p_fml p_state].
      split; [reflexivity|]. rewrite Hc1, Hdd. split; [exact Hmo|]. split; [exact Hm1|]. split; [exact Hso|]. split; [reflexivity|]. split; [lia|].
      split; [exact Hcls|]. split; [exact Ht|]. split; [exact Hqr|]. exists msgs2. split; [reflexivity|].
      assert (Hpt : port_ti (port_with_fml (bp_port b1) [mkFM s msgs2]) = port_ti pp) by (unfold port_ti; cbn [port_with_fml p_config]; rewrite Hc1; reflexivity).
      rewrite Hpt. split; [exact Hblk2|]. split; [lia|]. split; [intros Hx; lia|]. split; [intros Hx; lia|].
      assert (Htot : 2 <= total) by (apply Nat.leb_le in El; lia).
      replace (total - 0) with total by lia. destruct (Z.leb_spec 2 total); [|lia].
      destruct (p_state (bp_port b1)) as [| | | |st1] eqn:Est1; try discriminate Hsl. exists st1. split; [reflexivity|].
      rewrite (Hrem st1 eq_refl), Hpar, Hbs. split; reflexivity.
    + intros _. cbn [i_ds]. split; [|rewrite Hpar; exact Hbs].
      unfold state_of, snapshot_of. cbn [sn_states i_ports map nth port_with_fml p_state].
      destruct (p_state (bp_port b1)); try discriminate Hsl. reflexivity.
  - (* a single stored Announce: nothing is selected, the port keeps listening *)
    subst best. cbn [opt_list app find_best obind bmca_decide] in H.
    assert (Htot1 : total = 1).
    { apply Nat.leb_gt in El. destruct (Z.le_gt_cases 2 total) as [Hx|Hx]; [|lia]. specialize (Hl2 Hsince Hx). lia. }
    assert (Hlisten : p_state pp = PListening).
    { destruct (Z.leb_spec 2 (total - since)); [lia|exact Hst]. }
    unfold recommended_state in H. cbn [b0 bp_best bp_port port_with_fml p_state] in H. rewrite Hlisten in H. cbn [obind app] in H.
    cbn [omap_list] in H. rewrite (Hports' b0) in H; [|reflexivity|exact Hmp|reflexivity]. cbn [obind] in H. inversion H; subst i' o. clear H.
    split; [|intros Hx; lia].
    exists (port_with_fml (bp_port b0) [mkFM s msgs2]). cbn [i_ports i_ds i_log_bmca b0 bp_port port_with_fml p_config p_multiport_disable p_fml p_state].
    split; [reflexivity|]. split; [exact Hmo|]. split; [exact Hmp|]. split; [exact Hso|]. split; [reflexivity|]. split; [lia|].
    split; [exact Hcls|]. split; [exact Ht|]. split; [exact Hqr|]. exists msgs2. split; [reflexivity|].
    assert (Hpt : port_ti (port_with_fml (port_with_fml pp [mkFM s msgs1]) [mkFM s msgs2]) = port_ti pp) by reflexivity.
    rewrite Hpt. split; [exact Hblk2|]. split; [lia|]. split; [intros Hx; lia|]. split; [intros Hx; lia|].
    replace (total - 0) with total by lia. destruct (Z.leb_spec 2 total); [lia|exact Hlisten].
Qed.

(** * the scan over a steady history *)
Definition steady_event (e : event) : bool := match e with EvBmca | EvRecvGeneral O _ => true | _ => false end.

Lemma scan_model c es : forall i src since total,
  reach_inv c i -> sinv c i src since total -> Forall event_valid es -> forallb steady_event es = true ->
  shape_sem6 c (snapshot_of i) es (run i es) src since = true ->
  steady_scan c (snapshot_of i) es (run i es) src since total = true.
Proof.
  induction es as [|e es IH]; intros i src since total Hr Hinv Hes Hshape Hsem; [reflexivity|].
  inversion Hes as [|? ? He Hes']; subst. cbn [forallb] in Hshape. apply andb_true_iff in Hshape as [Hse Hshape].
  destruct (step_ok i e (ri_inv _ _ Hr) He) as (i1 & o1 & Hs & _).
  pose proof (reach_step c i e i1 o1 Hr He Hs) as Hr1.
  cbn [run] in *. rewrite Hs in *.
  destruct e; try discriminate Hse.
  - (* an Announce on port 0 *)
    destruct p; [|discriminate Hse]. cbn [shape_sem6 steady_scan] in *.
    destruct (arrival_of c (snapshot_of i) 0 frame 0) as [a|] eqn:Ea; [|discriminate Hsem].
    destruct (decoded frame) as [m|] eqn:Ed; [|discriminate Hsem].
    destruct (m_body m) as [| | | | | | |ab| |] eqn:Eb; try discriminate Hsem.
    pose proof Hsem as Hsem0.
    apply andb_true_iff in Hsem as [Hsem Hrec]. apply andb_true_iff in Hsem as [Hsem H5]. apply andb_true_iff in Hsem as [Hsem H4].
    apply andb_true_iff in Hsem as [Hsem H3]. apply andb_true_iff in Hsem as [H1 H2].
    cbn [snapshot_of sn_ds] in *.
    assert (Hsq : match src with Some (s, q) => s = ar_src a /\ ar_seq a = (q + 1) mod 65536 | None => True end).
    { destruct src as [[s q]|]; [|exact I]. apply andb_true_iff in H5 as [H51 H52].
      split; [apply pi_eqb_eq; exact H51|apply Z.eqb_eq; exact H52]. }
    assert (Hinv1 : sinv c i1 (Some (ar_src a, ar_seq a)) (since + 1) (total + 1)).
    { apply (steady_announce c i frame i1 o1 src since total a m ab Hr Hinv He Hs Ea Ed Eb); [apply Z.ltb_lt; exact H1|apply Z.leb_le; exact H2| |apply Z.eqb_eq; exact H4|exact Hsq].
      apply negb_true_iff, Z.eqb_neq in H3. exact H3. }
    rewrite H1, H2, H3, H4, H5. cbn [andb].
    apply (IH i1 _ _ _ Hr1 Hinv1 Hes' Hshape Hrec).
  - (* a BMCA run *)
    cbn [shape_sem6 steady_scan] in *. apply andb_true_iff in Hsem as [Hsince Hrec]. apply Z.leb_le in Hsince.
    destruct src as [[s q]|].
    + cbn [step] in Hs. destruct (steady_bmca c i i1 o1 s q since total Hr Hinv Hsince Hs) as [Hinv1 Hslave].
      apply andb_true_iff. split; [apply andb_true_iff; split|].
      * apply Z.leb_le. exact Hsince.
      * destruct (Z.leb_spec 2 total); [|reflexivity]. destruct (Hslave ltac:(lia)) as [H9 Hpar].
        rewrite H9. cbn [snapshot_of sn_ds]. unfold parent_id in Hpar. rewrite Hpar, pi_eqb_refl. reflexivity.
      * apply (IH i1 _ _ _ Hr1 Hinv1 Hes' Hshape Hrec).
    + destruct Hinv as (pp & _ & _ & _ & _ & _ & Hrange & Htot & _). lia.
Qed.

(** * the initial state of a steady history *)
Lemma init_single s pc r i o : su_ports s = [(pc, r)] -> init s = Ok (i, o) ->
  exists pp, i_ports i = [pp] /\ p_config pp = pc /\ p_fml pp = [] /\ p_state pp = PListening /\
    p_multiport_disable pp = None /\ i_log_bmca i = Z.min 127 (pc_log_announce pc) /\
    dd_slave_only (ds_default (i_ds i)) = ic_slave_only (su_config s).
Proof.
  intros Hp Hi. unfold init in Hi. rewrite Hp in Hi. cbn [add_ports] in Hi.
  destruct (add_port _ pc r) as [[i1 o1]|?] eqn:E; cbn [obind fst snd] in Hi; [|discriminate]. inversion Hi; subst i o. clear Hi.
  unfold add_port in E. destruct (chk_u _ _ _); cbn [obind] in E; [|discriminate].
  match type of E with context [draw ?x] => destruct (draw x) as [k p1] eqn:Ed end.
  destruct (announce_interval_ti _); cbn [obind] in E; [|discriminate]. inversion E; subst. clear E.
  cbn [new_instance i_ports i_ds i_log_bmca ds_with_default ds_default dd_slave_only app].
  pose proof (draw_fml _ _ _ Ed) as F1. pose proof (draw_mp _ _ _ Ed) as F2. pose proof (draw_state_eq _ _ _ Ed) as F3.
  destruct (draw_cfg_id _ _ _ Ed) as [F4 _]. exists p1. rewrite F1, F2, F3, F4. repeat split.
Qed.

(** the liveness half of the C06 oracle accepts the model's own trace *)
Theorem steady_ok_model s es rel :
  setup_valid s -> Forall event_valid es ->
  exists i o, init s = Ok (i, o) /\ steady_ok (mkCase s es rel (Some o) (run i es)) = true.
Proof.
  intros Hs Hes. destruct (init_ok s Hs) as (i & o & Hi & _). exists i, o. split; [exact Hi|].
  set (c := mkCase s es rel (Some o) (run i es)). rewrite steady_ok_eq.
  destruct (is_steady_shape c) eqn:Eshape; [|reflexivity].
  destruct (shape_sem6 c (init_snap c) (pc_events c) (pc_trace c) None 0) eqn:Esem; [|reflexivity].
  unfold is_steady_shape in Eshape. apply andb_true_iff in Eshape as [Eshape Hev]. apply andb_true_iff in Eshape as [Eshape Hmo].
  apply andb_true_iff in Eshape as [Hnp Hso]. apply Nat.eqb_eq in Hnp. apply negb_true_iff in Hso.
  unfold init_snap in *. cbn [pc_setup c pc_events pc_trace] in *. rewrite Hi in *. cbn [snapshot_of sn_ds] in Hso.
  pose proof (reach_init s es rel (run i es) i o Hs Hi) as Hr. fold c in Hr.
  unfold nports in Hnp. cbn [pc_setup c] in Hnp.
  destruct (su_ports s) as [|[pc r] [|x l]] eqn:Eps; try discriminate Hnp.
  destruct (init_single s pc r i o Eps Hi) as (pp & Hports & Hcfg & Hfml & Hst & Hmp & Hlog & Hsoi).
  unfold port_cfg in Hmo. cbn [pc_setup c] in Hmo. rewrite Eps in Hmo. cbn [nth_error] in Hmo. apply negb_true_iff in Hmo.
  assert (Hla : -7 <= pc_log_announce pc <= 7).
  { destruct Hs as (Hcfgs & _). rewrite Eps in Hcfgs. inversion Hcfgs as [|? ? Hc _]; subst. destruct Hc as (Hx & _). exact Hx. }
  apply scan_model; [exact Hr| |exact Hes| |exact Esem].
  - exists pp. split; [exact Hports|]. rewrite Hcfg. split; [exact Hmo|]. split; [exact Hmp|]. split; [exact Hso|].
    split; [rewrite Hlog; lia|]. split; [lia|]. split; [reflexivity|]. split; [exact Hfml|exact Hst].
  - apply forallb_forall. intros e He. rewrite forallb_forall in Hev. specialize (Hev e He). unfold steady_event. exact Hev.
Qed.

(** the complete C06 oracle accepts the model's own trace *)
Theorem ok_C06_model s es rel :
  setup_valid s -> Forall event_valid es ->
  exists i o, init s = Ok (i, o) /\ ok_C06 (mkCase s es rel (Some o) (run i es)) = true.
Proof.
  intros Hs Hes. destruct (walk_C06_main s es rel Hs Hes) as (i & o & Hi & Hw).
  destruct (steady_ok_model s es rel Hs Hes) as (i2 & o2 & Hi2 & Hst). rewrite Hi in Hi2. inversion Hi2; subst i2 o2.
  exists i, o. split; [exact Hi|]. unfold ok_C06. unfold walk_C06 in Hw. rewrite Hw, Hst. reflexivity.
Qed.
