(** The inventory of potentially panicking expressions and of instance-state
    lock acquisitions found in /repo's statime/src on this run
    (coq/Generated/PanicSites.v) equals the reviewed inventory
    (Port/SiteTable.v).  Editing any function of the library so that its list
    of such expressions changes breaks this proof. *)
From Coq Require Import ZArith List.
From SV Require Import Generated.PanicSites Port.SiteTable.
Open Scope Z_scope.

Lemma sites_agree : src_sites = reviewed_sites.
Proof. reflexivity. Qed.

Definition total_panic_sites : Z := fold_left (fun acc x => acc + snd (fst (fst x))) reviewed_sites 0.
Definition total_lock_sites : Z := fold_left (fun acc x => acc + snd (fst x)) reviewed_sites 0.
