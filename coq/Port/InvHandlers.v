(** Per-handler lemmas: under the port invariant and valid inputs every handler
    returns normally, preserves the invariant, the port's identity and
    configuration, and never turns a non-slave port into a slave. *)
From SV Require Export Port.Inv Wire.WireBytes.

Definition pres (p p' : port) : Prop :=
  p_identity p' = p_identity p /\ p_config p' = p_config p /\
  (is_slave (p_state p) = false -> is_slave (p_state p') = false) /\
  (is_master (p_state p) = false -> is_master (p_state p') = false).

Lemma pres_refl p : pres p p. Proof. repeat split; auto. Qed.
Lemma pres_trans a b c : pres a b -> pres b c -> pres a c.
Proof. intros (A1 & A2 & A3 & A4) (B1 & B2 & B3 & B4). repeat split; try congruence; auto. Qed.

Definition ds_inv (d : inst_ds) : Prop := (length (ds_path d) <= 128)%nat /\ ds_wfb d = true.

(** the shape of a good result *)
Definition ds_good (d d' : inst_ds) : Prop := ds_inv d' /\ ds_default d' = ds_default d.
Lemma ds_good_refl d : ds_inv d -> ds_good d d. Proof. intros; split; [assumption|reflexivity]. Qed.

Definition good (p : port) (d : inst_ds) (r : hres) : Prop :=
  exists p' d' o, r = Ok (p', d', o) /\ port_inv p' /\ pres p p' /\ ds_good d d'.

Lemma good_ret p d o : port_inv p -> ds_inv d -> good p d (ret p d o).
Proof. intros Hp Hd. exists p, d, o. split; [reflexivity|]. split; [exact Hp|]. split; [apply pres_refl|first [exact Hd | apply ds_good_refl; exact Hd]]. Qed.

Lemma good_ret2 p d d1 o : port_inv p -> ds_good d d1 -> good p d (ret p d1 o).
Proof. intros Hp Hd. exists p, d1, o. split; [reflexivity|]. split; [exact Hp|]. split; [apply pres_refl|exact Hd]. Qed.

(** state-only updates keep the rest of the invariant *)
Lemma port_inv_state p s :
  port_inv p -> pstate_ok s -> (pc_master_only (p_config p) = true -> is_slave s = false) ->
  port_inv (port_with_state p s).
Proof. intros (A & B & C & D & [E1 E2] & F & G) Hs Hm. repeat split; try assumption; apply A. Qed.

Lemma port_inv_peer p x : port_inv p -> peer_ok x -> port_inv (port_with_peer p x).
Proof. intros (A & B & C & D & [E1 E2] & F & G) Hx. repeat split; try assumption; apply A. Qed.

Lemma port_inv_mean p m : port_inv p -> od_ok m -> port_inv (port_with_mean_delay p m).
Proof. intros (A & B & C & D & [E1 E2] & F & G) Hx. repeat split; try assumption; apply A. Qed.

Lemma port_inv_rng p r : port_inv p -> port_inv (port_with_rng p r).
Proof. intros (A & B & C & D & [E1 E2] & F & G). repeat split; try assumption; apply A. Qed.

Definition seq_next (old new : Z) : Prop := new = old \/ new = gen16 old.
Lemma seq_next_ok old new : u_ok 16 old = true -> seq_next old new -> u_ok 16 new = true.
Proof.
  unfold u_ok, seq_next, gen16. change (2 ^ 16) with 65536. intros H [->| ->]; [exact H|].
  pose proof (Z.mod_pos_bound (old + 1) 65536 ltac:(lia)). lia.
Qed.
Lemma port_inv_seqs p a s d q :
  port_inv p -> seq_next (p_seq_announce p) a -> seq_next (p_seq_sync p) s ->
  seq_next (p_seq_delay p) d -> seq_next (p_seq_pdelay p) q -> port_inv (port_with_seqs p a s d q).
Proof.
  intros (A & B & C & D & [E1 E2] & F & G) Ha Hs Hd Hq. repeat split; try assumption; try apply A.
  unfold port_wfb in *. cbn [port_with_seqs p_identity p_seq_announce p_seq_sync p_seq_delay p_seq_pdelay].
  apply andb_true_iff in G; destruct G as [G G4]. apply andb_true_iff in G; destruct G as [G G3].
  apply andb_true_iff in G; destruct G as [G G2]. apply andb_true_iff in G; destruct G as [G G1].
  rewrite G, (seq_next_ok _ _ G1 Ha), (seq_next_ok _ _ G2 Hs), (seq_next_ok _ _ G3 Hd), (seq_next_ok _ _ G4 Hq).
  reflexivity.
Qed.

Lemma port_inv_draw p : port_inv p -> port_inv (snd (draw p)).
Proof. intros H. unfold draw. destruct (p_rng p); cbn [snd]; [exact H|apply port_inv_rng; exact H]. Qed.
Lemma pres_draw p : pres p (snd (draw p)).
Proof. unfold draw. destruct (p_rng p); cbn [snd]; repeat split; auto. Qed.

Lemma set_forced_inv p s :
  port_inv p -> pstate_ok s -> (pc_master_only (p_config p) = true -> is_slave s = false) ->
  port_inv (fst (set_forced p s)).
Proof. intros. unfold set_forced. cbn [fst]. apply port_inv_state; assumption. Qed.

(** * Measurements *)
Lemma extract_measurement_ok p :
  port_inv p ->
  exists p' om o, extract_measurement p = Ok (p', om, o) /\ port_inv p' /\ pres p p' /\
    (forall m, om = Some m -> od_ok (filter_mean_delay m)).
Proof.
  intros Hinv. pose proof Hinv as (Hcfg & Hst & Hpeer & Hmd & Hfml & Hmo & Hwfb).
  destruct Hcfg as (_ & _ & _ & _ & Hasym & _).
  unfold extract_measurement.
  assert (Hslave : forall X : outcome (port * option measurement * list obs),
    (X = match p_state p with
         | PSlave st =>
             match ss_sync st with
             | MMeasuring _ (Some send) (Some recv) =>
                 let! d0 := time_diff recv send in
                 let! raw := dur_sub d0 (pc_asymmetry (p_config p)) in
                 let! off := match p_mean_delay p with
                             | Some md => let! o := dur_sub raw md in Ok (Some o)
                             | None => Ok None
                             end in
                 let m := mkMeas recv off None None (Some raw) None in
                 Ok (port_with_state p (PSlave (mkSS (ss_remote st) MEmpty (ss_delay st) (Some raw))), Some m, [])
             | _ =>
                 match ss_delay st with
                 | MMeasuring _ (Some send) (Some recv) =>
                     let! d0 := time_diff send recv in
                     let! raw := dur_sub d0 (pc_asymmetry (p_config p)) in
                     let! dl := match ss_last_raw_sync st with
                                | Some rs => let! x := dur_sub rs raw in
                                             let! h := chk_i site_dur_div 128 (Z.quot x 2) in Ok (Some h)
                                | None => Ok None
                                end in
                     let m := mkMeas send None dl None None (Some raw) in
                     Ok (port_with_state p (PSlave (mkSS (ss_remote st) (ss_sync st) MEmpty (ss_last_raw_sync st))), Some m, [])
                 | _ => Ok (p, None, [])
                 end
             end
         | _ => Ok (p, None, [])
         end) ->
    exists p' om o, X = Ok (p', om, o) /\ port_inv p' /\ pres p p' /\
      (forall m, om = Some m -> od_ok (filter_mean_delay m))).
  { intros X ->.
    destruct (p_state p) as [| | | |st] eqn:Est;
      try (exists p, None, []; split; [reflexivity|]; split; [exact Hinv|]; split; [apply pres_refl|];
           intros m Hm; discriminate).
    cbn [pstate_ok] in Hst. destruct Hst as (Hsync & Hdelay & Hlast).
    assert (Hnomo : pc_master_only (p_config p) = true -> False).
    { intros Hm. specialize (Hmo Hm). cbn in Hmo. discriminate. }
    assert (Hmo' : forall s', pc_master_only (p_config p) = true -> is_slave s' = false)
      by (intros s' Hm; destruct (Hnomo Hm)).
    assert (Hdel :
      exists (p' : port) (om : option measurement) (o : list obs),
        match ss_delay st with
        | MMeasuring _ (Some send) (Some recv) =>
            let! d0 := time_diff send recv in
            let! raw := dur_sub d0 (pc_asymmetry (p_config p)) in
            let! dl := match ss_last_raw_sync st with
                       | Some rs => let! x := dur_sub rs raw in
                                    let! h := chk_i site_dur_div 128 (Z.quot x 2) in Ok (Some h)
                       | None => Ok None
                       end in
            let m := mkMeas send None dl None None (Some raw) in
            Ok (port_with_state p (PSlave (mkSS (ss_remote st) (ss_sync st) MEmpty (ss_last_raw_sync st))), Some m, [])
        | _ => Ok (p, None, [])
        end = Ok (p', om, o) /\ port_inv p' /\ pres p p' /\
        (forall m, om = Some m -> od_ok (filter_mean_delay m))).
    { destruct (ss_delay st) as [|did [dsend|] [drecv|]] eqn:Edelay;
        try (exists p, None, []; split; [reflexivity|]; split; [exact Hinv|]; split; [apply pres_refl|];
             intros m Hm; discriminate).
      cbn [meas_ok ot_ok] in Hdelay. destruct Hdelay as [Hs Hr].
      destruct (time_diff_ok dsend drecv Hs Hr) as [-> Hb]. cbn [obind].
      rewrite dur_sub_ok by (bnd; lia). cbn [obind].
      destruct (ss_last_raw_sync st) as [rs|] eqn:Ers.
      + cbn [od_ok] in Hlast. rewrite dur_sub_ok by (bnd; lia). cbn [obind].
        destruct (quot2_ok (rs - (dsend - drecv - pc_asymmetry (p_config p))) ltac:(bnd; lia)) as [-> Hq].
        cbn [obind]. eexists; eexists; eexists; split; [reflexivity|]. split; [|split].
        * apply port_inv_state; [exact Hinv| |auto]. cbn [pstate_ok ss_sync ss_delay ss_last_raw_sync meas_ok].
          split; [exact Hsync|]. split; [exact I|exact Hlast].
        * repeat split; auto. intros Hns. rewrite Est in Hns. discriminate.
        * intros m Hm. inversion Hm; subst. cbn. bnd. lia.
      + cbn [obind]. eexists; eexists; eexists; split; [reflexivity|]. split; [|split].
        * apply port_inv_state; [exact Hinv| |auto]. cbn [pstate_ok ss_sync ss_delay ss_last_raw_sync meas_ok].
          split; [exact Hsync|]. split; [exact I|exact Hlast].
        * repeat split; auto. intros Hns. rewrite Est in Hns. discriminate.
        * intros m Hm. inversion Hm; subst. cbn. exact I. }
    destruct (ss_sync st) as [|sid [send|] [recv|]] eqn:Esync; try exact Hdel.
    (* sync complete *)
    cbn [meas_ok ot_ok] in Hsync. destruct Hsync as [Hs Hr].
    destruct (time_diff_ok recv send Hr Hs) as [-> Hb]. cbn [obind].
    rewrite dur_sub_ok by (bnd; lia). cbn [obind].
    assert (Hraw : d_ok (recv - send - pc_asymmetry (p_config p))) by (bnd; lia).
    destruct (p_mean_delay p) as [md|] eqn:Emd.
    + cbn [od_ok] in Hmd. rewrite dur_sub_ok by (bnd; lia). cbn [obind].
      eexists; eexists; eexists; split; [reflexivity|]. split; [|split].
      * apply port_inv_state; [exact Hinv| |auto]. cbn [pstate_ok ss_sync ss_delay ss_last_raw_sync meas_ok od_ok].
        split; [exact I|]. split; [exact Hdelay|exact Hraw].
      * repeat split; auto. intros Hns. rewrite Est in Hns. discriminate.
      * intros m Hm. inversion Hm; subst. cbn. exact I.
    + cbn [obind]. eexists; eexists; eexists; split; [reflexivity|]. split; [|split].
      * apply port_inv_state; [exact Hinv| |auto]. cbn [pstate_ok ss_sync ss_delay ss_last_raw_sync meas_ok od_ok].
        split; [exact I|]. split; [exact Hdelay|exact Hraw].
      * repeat split; auto. intros Hns. rewrite Est in Hns. discriminate.
      * intros m Hm. inversion Hm; subst. cbn. exact I. }
  destruct (p_peer p) as [|pid [resp|] [a|] [b|] [c|] [e|]|] eqn:Ep; try (apply Hslave; reflexivity).
  (* peer delay measurement complete *)
  cbn [peer_ok ot_ok] in Hpeer. destruct Hpeer as (Ha & Hb & Hc & He).
  destruct (time_diff_ok e a He Ha) as [-> B1]. cbn [obind].
  destruct (time_diff_ok c b Hc Hb) as [-> B2]. cbn [obind].
  rewrite dur_sub_ok by (bnd; lia). cbn [obind].
  destruct (quot2_ok (e - a - (c - b)) ltac:(bnd; lia)) as [-> Hq]. cbn [obind].
  assert (Hp1 : port_inv (port_with_peer p (PDPost pid resp))) by (apply port_inv_peer; [exact Hinv|exact I]).
  destruct (is_faulty (p_state (port_with_peer p (PDPost pid resp)))) eqn:Ef.
  - cbn [port_with_peer p_state] in Ef.
    eexists; eexists; eexists; split; [reflexivity|]. split; [|split].
    + apply set_forced_inv; [exact Hp1|exact I|reflexivity].
    + repeat split; auto.
    + intros m Hm. inversion Hm; subst. cbn. bnd. lia.
  - eexists; eexists; eexists; split; [reflexivity|]. split; [exact Hp1|split].
    + repeat split; auto.
    + intros m Hm. inversion Hm; subst. cbn. bnd. lia.
Qed.

Lemma handle_time_measurement_ok p d :
  port_inv p -> ds_inv d -> good p d (handle_time_measurement p d).
Proof.
  intros Hp Hd. unfold handle_time_measurement, good.
  destruct (extract_measurement_ok p Hp) as (p1 & om & o & -> & Hp1 & Hpres & Hmd). cbn [obind].
  destruct om as [m|].
  - destruct (filter_mean_delay m) as [md|] eqn:Ef.
    + eexists; eexists; eexists; split; [reflexivity|]. split; [|split; [|first [exact Hd | apply ds_good_refl; exact Hd]]].
      * apply port_inv_mean; [exact Hp1|]. specialize (Hmd m eq_refl). rewrite Ef in Hmd. exact Hmd.
      * destruct Hpres as (A & B & C & D). repeat split; auto.
    + eexists; eexists; eexists; split; [reflexivity|]. split; [exact Hp1|]. split; [exact Hpres|first [exact Hd | apply ds_good_refl; exact Hd]].
  - eexists; eexists; eexists; split; [reflexivity|]. split; [exact Hp1|]. split; [exact Hpres|first [exact Hd | apply ds_good_refl; exact Hd]].
Qed.

(** [good] through a state-preserving prefix *)
Lemma good_via p p1 d r : pres p p1 -> good p1 d r -> good p d r.
Proof.
  intros Hpres (p' & d' & o & -> & Hinv & Hpres' & Hd). exists p', d', o.
  split; [reflexivity|]. split; [exact Hinv|]. split; [eapply pres_trans; eauto|first [exact Hd | apply ds_good_refl; exact Hd]].
Qed.

(** updating the slave sub-state of a slave port *)
Lemma set_slave_inv p st st' :
  port_inv p -> p_state p = PSlave st -> pstate_ok (PSlave st') -> port_inv (set_slave p st').
Proof.
  intros Hp Hst Hok. unfold set_slave. apply port_inv_state; [exact Hp|exact Hok|].
  intros Hm. destruct Hp as (_ & _ & _ & _ & _ & Hmo & _). specialize (Hmo Hm). rewrite Hst in Hmo. discriminate.
Qed.
Lemma set_slave_pres p st st' : p_state p = PSlave st -> pres p (set_slave p st').
Proof. intros H. unfold set_slave. repeat split; auto. intros Hn. rewrite H in Hn. discriminate. Qed.

Lemma slave_parts p st : port_inv p -> p_state p = PSlave st ->
  meas_ok (ss_sync st) /\ meas_ok (ss_delay st) /\ od_ok (ss_last_raw_sync st).
Proof. intros (_ & H & _) Hst. rewrite Hst in H. exact H. Qed.

Lemma slave_ok_intro r sy de la : meas_ok sy -> meas_ok de -> od_ok la -> pstate_ok (PSlave (mkSS r sy de la)).
Proof. intros. cbn. repeat split; assumption. Qed.
Lemma meas_intro id s r : ot_ok s -> ot_ok r -> meas_ok (MMeasuring id s r).
Proof. intros. split; assumption. Qed.
Lemma ot_some t : t_ok t -> ot_ok (Some t). Proof. intros H; exact H. Qed.
Lemma meas_parts id s r : meas_ok (MMeasuring id s r) -> ot_ok s /\ ot_ok r.
Proof. intros H; exact H. Qed.

Ltac slave_step p st Hst Hp :=
  eapply good_via; [eapply (set_slave_pres p st); exact Hst|];
  apply handle_time_measurement_ok; [eapply set_slave_inv; [exact Hp|exact Hst|]|assumption].

Lemma handle_sync_ok p d h origin ts :
  port_inv p -> ds_inv d -> wf_header h -> wf_ts origin -> ts_valid ts ->
  good p d (handle_sync p d h origin ts).
Proof.
  intros Hp Hd Hh Ho Hts. unfold handle_sync.
  destruct (p_state p) as [| | | |st] eqn:Hst; try (apply good_ret; assumption).
  destruct (negb (pi_eqb (ss_remote st) (h_source h))); [apply good_ret; assumption|].
  destruct (slave_parts p st Hp Hst) as (Hsy & Hde & Hla).
  assert (Hc : corr_ok (h_correction h)) by (unfold corr_ok; apply Hh).
  destruct (time_sub_corr_ok ts (h_correction h) (ts_valid_small ts Hts) Hc) as (corrected & -> & Hcorr).
  cbn [obind].
  assert (Hreset : good p d (ret (set_slave p (mkSS (ss_remote st) (MMeasuring (h_seq h) None (Some corrected))
                                                     (ss_delay st) (ss_last_raw_sync st))) d [])).
  { eapply good_via; [eapply (set_slave_pres p st); exact Hst|]. apply good_ret; [|assumption].
    eapply set_slave_inv; [exact Hp|exact Hst|].
    apply slave_ok_intro; [apply meas_intro; [exact I|exact Hcorr]|exact Hde|exact Hla]. }
  destruct (h_two_step h).
  - destruct (ss_sync st) as [|id send [r|]] eqn:Esy.
    + exact Hreset.
    + destruct (id =? h_seq h); [apply good_ret; assumption|exact Hreset].
    + destruct (id =? h_seq h); [|exact Hreset].
      slave_step p st Hst Hp.
      apply slave_ok_intro; [apply meas_intro; [apply (meas_parts _ _ _ Hsy)|exact Hcorr]|exact Hde|exact Hla].
  - destruct (time_of_wire_ok origin Ho) as (send & Hsend & Hsb).
    assert (Hfresh : good p d (let! send := time_of_wire origin in
                               handle_time_measurement
                                 (set_slave p (mkSS (ss_remote st) (MMeasuring (h_seq h) (Some send) (Some corrected))
                                                    (ss_delay st) (ss_last_raw_sync st))) d)).
    { rewrite Hsend. cbn [obind]. slave_step p st Hst Hp.
      apply slave_ok_intro; [apply meas_intro; [cbn; bnd; lia|exact Hcorr]|exact Hde|exact Hla]. }
    destruct (ss_sync st) as [|id s0 r0]; [exact Hfresh|].
    destruct (id =? h_seq h); [apply good_ret; assumption|exact Hfresh].
Qed.

Lemma handle_follow_up_ok p d h precise :
  port_inv p -> ds_inv d -> wf_header h -> wf_ts precise ->
  good p d (handle_follow_up p d h precise).
Proof.
  intros Hp Hd Hh Ho. unfold handle_follow_up.
  destruct (p_state p) as [| | | |st] eqn:Hst; try (apply good_ret; assumption).
  destruct (negb (pi_eqb (ss_remote st) (h_source h))); [apply good_ret; assumption|].
  destruct (slave_parts p st Hp Hst) as (Hsy & Hde & Hla).
  assert (Hc : corr_ok (h_correction h)) by (unfold corr_ok; apply Hh).
  destruct (time_of_wire_ok precise Ho) as (t0 & -> & Ht0). cbn [obind].
  destruct (time_add_corr_ok t0 (h_correction h) Ht0 Hc) as (send_time & -> & Hst'). cbn [obind].
  assert (Hfresh : forall recv, ot_ok recv ->
            good p d (handle_time_measurement
                        (set_slave p (mkSS (ss_remote st) (MMeasuring (h_seq h) (Some send_time) recv)
                                           (ss_delay st) (ss_last_raw_sync st))) d)).
  { intros recv Hr. slave_step p st Hst Hp.
    apply slave_ok_intro; [apply meas_intro; [exact Hst'|exact Hr]|exact Hde|exact Hla]. }
  destruct (ss_sync st) as [|id [s0|] recv] eqn:Esy.
  - apply Hfresh. exact I.
  - destruct (id =? h_seq h); [apply good_ret; assumption|apply Hfresh; exact I].
  - destruct (id =? h_seq h); [apply Hfresh; apply (meas_parts _ _ _ Hsy)|apply Hfresh; exact I].
Qed.

Lemma handle_delay_resp_ok p d h recv requester :
  port_inv p -> ds_inv d -> wf_header h -> wf_ts recv ->
  good p d (handle_delay_resp p d h recv requester).
Proof.
  intros Hp Hd Hh Ho. unfold handle_delay_resp.
  destruct (p_state p) as [| | | |st] eqn:Hst; try (apply good_ret; assumption).
  destruct (negb (pi_eqb (p_identity p) requester) || negb (pi_eqb (ss_remote st) (h_source h)));
    [apply good_ret; assumption|].
  destruct (slave_parts p st Hp Hst) as (Hsy & Hde & Hla).
  assert (Hc : corr_ok (h_correction h)) by (unfold corr_ok; apply Hh).
  destruct (ss_delay st) as [|id send [r|]] eqn:Ede; try (apply good_ret; assumption).
  destruct (id =? h_seq h); [|apply good_ret; assumption].
  destruct (time_of_wire_ok recv Ho) as (t0 & -> & Ht0). cbn [obind].
  destruct (time_sub_corr_ok t0 (h_correction h) Ht0 Hc) as (rt & -> & Hrt). cbn [obind].
  slave_step p st Hst Hp.
  apply slave_ok_intro; [exact Hsy|apply meas_intro; [apply (meas_parts _ _ _ Hde)|exact Hrt]|exact Hla].
Qed.

Lemma handle_delay_timestamp_ok p d tid ts :
  port_inv p -> ds_inv d -> ts_valid ts -> good p d (handle_delay_timestamp p d tid ts).
Proof.
  intros Hp Hd Hts. unfold handle_delay_timestamp.
  destruct (p_state p) as [| | | |st] eqn:Hst; try (apply good_ret; assumption).
  destruct (slave_parts p st Hp Hst) as (Hsy & Hde & Hla).
  destruct (ss_delay st) as [|id [s0|] recv] eqn:Ede; try (apply good_ret; assumption).
  destruct (id =? tid); [|apply good_ret; assumption].
  slave_step p st Hst Hp.
  apply slave_ok_intro; [exact Hsy| |exact Hla].
  apply meas_intro; [|apply (meas_parts _ _ _ Hde)].
  pose proof (ts_valid_small ts Hts). cbn. bnd. lia.
Qed.

Lemma peer_step p d x : port_inv p -> ds_inv d -> peer_ok x ->
  good p d (handle_time_measurement (port_with_peer p x) d).
Proof.
  intros Hp Hd Hx. eapply good_via; [|apply handle_time_measurement_ok; [apply port_inv_peer; eassumption|assumption]].
  repeat split; auto.
Qed.

Lemma peer_intro id resp a b c e : ot_ok a -> ot_ok b -> ot_ok c -> ot_ok e -> peer_ok (PDMeasuring id resp a b c e).
Proof. intros. repeat split; assumption. Qed.
Lemma peer_parts id resp a b c e : peer_ok (PDMeasuring id resp a b c e) -> ot_ok a /\ ot_ok b /\ ot_ok c /\ ot_ok e.
Proof. intros H; exact H. Qed.

Lemma handle_pdelay_timestamp_ok p d tid ts :
  port_inv p -> ds_inv d -> ts_valid ts -> good p d (handle_pdelay_timestamp p d tid ts).
Proof.
  intros Hp Hd Hts. unfold handle_pdelay_timestamp.
  pose proof Hp as (_ & _ & Hpeer & _).
  destruct (p_peer p) as [|id resp [s0|] rr rs rv|] eqn:Epe; try (apply good_ret; assumption).
  destruct (id =? tid); [|apply good_ret; assumption].
  destruct (peer_parts _ _ _ _ _ _ Hpeer) as (_ & Hb & Hc & He).
  apply peer_step; auto. apply peer_intro; auto.
  pose proof (ts_valid_small ts Hts). cbn. bnd. lia.
Qed.

Lemma go_faulty_ok p d : port_inv p -> ds_inv d -> good p d (go_faulty p d).
Proof.
  intros Hp Hd. unfold go_faulty, set_forced, ret, good.
  eexists; eexists; eexists; split; [reflexivity|]. split; [|split; [|first [exact Hd | apply ds_good_refl; exact Hd]]].
  - apply port_inv_state; [exact Hp|exact I|reflexivity].
  - repeat split; auto.
Qed.

Lemma handle_peer_delay_response_ok p d h w requester ts :
  port_inv p -> ds_inv d -> wf_header h -> wf_ts w -> ts_valid ts ->
  good p d (handle_peer_delay_response p d h w requester ts).
Proof.
  intros Hp Hd Hh Hw Hts. unfold handle_peer_delay_response.
  destruct (negb (pi_eqb (p_identity p) requester)); [apply good_ret; assumption|].
  pose proof Hp as (_ & _ & Hpeer & _).
  assert (Hc : corr_ok (h_correction h)) by (unfold corr_ok; apply Hh).
  destruct (p_peer p) as [|id resp a b c e|id resp] eqn:Epe.
  - apply good_ret; assumption.
  - destruct (negb (id =? h_seq h)); [apply good_ret; assumption|].
    cbn in Hpeer. destruct Hpeer as (Ha & Hb & Hc' & He).
    assert (Hset : good p d
                     match e with
                     | Some _ => ret p d []
                     | None =>
                         let! rv := time_sub_dur ts (ti_to_dur (h_correction h)) in
                         let! rr := time_of_wire w in
                         let rs := if h_two_step h then c else Some rr in
                         handle_time_measurement
                           (port_with_peer p (PDMeasuring id (Some (h_source h)) a (Some rr) rs (Some rv))) d
                     end).
    { destruct e; [apply good_ret; assumption|].
      destruct (time_sub_corr_ok ts (h_correction h) (ts_valid_small ts Hts) Hc) as (rv & -> & Hrv). cbn [obind].
      destruct (time_of_wire_ok w Hw) as (rr & -> & Hrr). cbn [obind].
      apply peer_step; auto. apply peer_intro; auto.
      - cbn. bnd. lia.
      - destruct (h_two_step h); [exact Hc'|cbn; bnd; lia]. }
    destruct resp as [r|].
    + destruct (negb (pi_eqb r (h_source h))); [|exact Hset].
      eapply good_via; [|apply go_faulty_ok; [apply port_inv_peer; [exact Hp|exact I]|exact Hd]]. repeat split; auto.
    + exact Hset.
  - destruct ((id =? h_seq h) && negb (pi_eqb resp (h_source h))); [apply go_faulty_ok|apply good_ret]; assumption.
Qed.

Lemma handle_peer_delay_follow_up_ok p d h origin requester :
  port_inv p -> ds_inv d -> wf_header h -> wf_ts origin ->
  good p d (handle_peer_delay_follow_up p d h origin requester).
Proof.
  intros Hp Hd Hh Hw. unfold handle_peer_delay_follow_up.
  destruct (negb (pi_eqb (p_identity p) requester)); [apply good_ret; assumption|].
  pose proof Hp as (_ & _ & Hpeer & _).
  assert (Hc : corr_ok (h_correction h)) by (unfold corr_ok; apply Hh).
  destruct (p_peer p) as [|id resp a b c e|id resp] eqn:Epe.
  - apply good_ret; assumption.
  - destruct (negb (id =? h_seq h)); [apply good_ret; assumption|].
    cbn in Hpeer. destruct Hpeer as (Ha & Hb & Hc' & He).
    assert (Hset : good p d
                     match c with
                     | Some _ => ret p d []
                     | None =>
                         let! t0 := time_of_wire origin in
                         let! rs := time_add_dur t0 (ti_to_dur (h_correction h)) in
                         handle_time_measurement
                           (port_with_peer p (PDMeasuring id (Some (h_source h)) a b (Some rs) e)) d
                     end).
    { destruct c; [apply good_ret; assumption|].
      destruct (time_of_wire_ok origin Hw) as (t0 & -> & Ht0). cbn [obind].
      destruct (time_add_corr_ok t0 (h_correction h) Ht0 Hc) as (rs & -> & Hrs). cbn [obind].
      apply peer_step; auto. apply peer_intro; auto. }
    destruct resp as [r|].
    + destruct (negb (pi_eqb r (h_source h))); [|exact Hset].
      eapply good_via; [|apply go_faulty_ok; [apply port_inv_peer; [exact Hp|exact I]|exact Hd]]. repeat split; auto.
    + exact Hset.
  - destruct ((id =? h_seq h) && negb (pi_eqb resp (h_source h))); [apply go_faulty_ok|apply good_ret]; assumption.
Qed.

(** * Master side *)
Lemma good_of_total p d r :
  port_inv p -> ds_inv d ->
  (forall x, r = Ok x -> exists o, x = (p, d, o)) -> (exists x, r = Ok x) -> good p d r.
Proof.
  intros Hp Hd Hshape [x Hx]. destruct (Hshape x Hx) as [o ->]. rewrite Hx. apply good_ret; assumption.
Qed.

Lemma send_sync_ok p d : port_inv p -> ds_inv d -> good p d (send_sync p d).
Proof.
  intros Hp Hd. unfold send_sync. destruct (is_master (p_state p)); [|apply good_ret; assumption].
  unfold msg_sync. rewrite small_message_fits by exact I. cbn [obind].
  eapply good_via; [|apply good_ret; [apply port_inv_seqs; [exact Hp|first [left; reflexivity|right; reflexivity]..]|first [exact Hd | apply ds_good_refl; exact Hd]]]. repeat split; auto.
Qed.

Lemma handle_sync_timestamp_ok p d id ts :
  port_inv p -> ds_inv d -> ts_valid ts -> good p d (handle_sync_timestamp p d id ts).
Proof.
  intros Hp Hd Hts. unfold handle_sync_timestamp. destruct (is_master (p_state p)); [|apply good_ret; assumption].
  destruct (follow_up_exact (ds_default d) (p_identity p) id ts (pc_minor (p_config p)) (ts_valid_in_range ts Hts))
    as (w & -> & _). cbn [obind].
  rewrite small_message_fits by exact I. cbn [obind]. apply good_ret; assumption.
Qed.

Lemma handle_delay_req_ok p d h ts :
  port_inv p -> ds_inv d -> ts_valid ts -> good p d (handle_delay_req p d h ts).
Proof.
  intros Hp Hd Hts. unfold handle_delay_req. destruct (is_master (p_state p)); [|apply good_ret; assumption].
  destruct (delay_resp_exact h (p_identity p) (dm_interval (pc_delay (p_config p))) ts (ts_valid_in_range ts Hts))
    as (w & -> & _). cbn [obind].
  rewrite small_message_fits by exact I. cbn [obind]. apply good_ret; assumption.
Qed.

Lemma handle_pdelay_req_ok p d h ts :
  port_inv p -> ds_inv d -> ts_valid ts -> good p d (handle_pdelay_req p d h ts).
Proof.
  intros Hp Hd Hts. unfold handle_pdelay_req.
  destruct (pdelay_resp_exact (ds_default d) (p_identity p) h ts (pc_minor (p_config p)) (ts_valid_in_range ts Hts))
    as (w & -> & _). cbn [obind].
  rewrite small_message_fits by exact I. cbn [obind]. apply good_ret; assumption.
Qed.

Lemma handle_pdelay_response_timestamp_ok p d id rq ts :
  port_inv p -> ds_inv d -> ts_valid ts -> good p d (handle_pdelay_response_timestamp p d id rq ts).
Proof.
  intros Hp Hd Hts. unfold handle_pdelay_response_timestamp.
  destruct (pdelay_resp_follow_up_exact (ds_default d) (p_identity p) rq id ts (pc_minor (p_config p))
              (ts_valid_in_range ts Hts)) as (w & -> & _). cbn [obind].
  rewrite small_message_fits by exact I. cbn [obind]. apply good_ret; assumption.
Qed.

Lemma send_delay_request_ok p d : port_inv p -> ds_inv d -> good p d (send_delay_request p d).
Proof.
  intros Hp Hd. unfold send_delay_request. destruct (pc_delay (p_config p)).
  - destruct (p_state p) as [| | | |st] eqn:Hst; try (apply good_ret; assumption).
    unfold msg_delay_req. rewrite small_message_fits by exact I. cbn [obind].
    destruct (slave_parts p st Hp Hst) as (Hsy & Hde & Hla).
    set (p1 := port_with_seqs p (p_seq_announce p) (p_seq_sync p) (gen16 (p_seq_delay p)) (p_seq_pdelay p)).
    assert (Hp1 : port_inv p1) by (apply port_inv_seqs; [exact Hp|first [left; reflexivity|right; reflexivity]..]).
    set (p2 := set_slave p1 (mkSS (ss_remote st) (ss_sync st) (MMeasuring (p_seq_delay p) None None) (ss_last_raw_sync st))).
    assert (Hp2 : port_inv p2).
    { eapply set_slave_inv; [exact Hp1|exact Hst|]. apply slave_ok_intro; auto. apply meas_intro; exact I. }
    pose proof (port_inv_draw p2 Hp2) as Hp3. pose proof (pres_draw p2) as Hpr3.
    destruct (draw p2) as [k p3]. cbn [snd] in *.
    exists p3, d, [rd_lock; AResetDelayRequestTimer (delay_req_duration_ns log_interval k);
                  ASendEvent (CtxDelayReq (p_seq_delay p)) (encode_raw (msg_delay_req (ds_default d) (p_identity p) (p_seq_delay p) (pc_minor (p_config p)))) false].
    split; [reflexivity|]. split; [exact Hp3|]. split; [|first [exact Hd | apply ds_good_refl; exact Hd]].
    eapply pres_trans; [|exact Hpr3]. repeat split; auto. intros Hn. rewrite Hst in Hn. discriminate.
  - unfold msg_pdelay_req. rewrite small_message_fits by exact I. cbn [obind].
    set (p1 := port_with_seqs p (p_seq_announce p) (p_seq_sync p) (p_seq_delay p) (gen16 (p_seq_pdelay p))).
    assert (Hp1 : port_inv p1) by (apply port_inv_seqs; [exact Hp|first [left; reflexivity|right; reflexivity]..]).
    set (p2 := port_with_peer p1 (PDMeasuring (p_seq_pdelay p) None None None None None)).
    assert (Hp2 : port_inv p2) by (apply port_inv_peer; [exact Hp1|apply peer_intro; exact I]).
    pose proof (port_inv_draw p2 Hp2) as Hp3. pose proof (pres_draw p2) as Hpr3.
    destruct (draw p2) as [k p3]. cbn [snd] in *.
    eexists; eexists; eexists. split; [reflexivity|]. split; [exact Hp3|]. split; [|first [exact Hd | apply ds_good_refl; exact Hd]].
    eapply pres_trans; [|exact Hpr3]. repeat split; auto.
Qed.

Lemma send_announce_ok p d q : port_inv p -> ds_inv d -> good p d (send_announce p d q).
Proof.
  intros Hp Hd.
  destruct (send_announce_total p d q ltac:(unfold ds_inv in Hd; lia)) as [[[p' d'] o] H].
  rewrite H. unfold send_announce in H.
  destruct (is_master (p_state p)).
  - match type of H with context [let '(a, b) := ?X in _] => destruct X as [pb m1] end.
    destruct (announce_tlv_loop _ _ _ _ _ _ _) as [[sfx locks]|?]; cbn [obind] in H; [|discriminate].
    destruct (serialize_packet _); cbn [obind] in H; [|discriminate].
    unfold ret in H. injection H as <- <- <-.
    exists (port_with_seqs p (gen16 (p_seq_announce p)) (p_seq_sync p) (p_seq_delay p) (p_seq_pdelay p)), d.
    eexists. split; [reflexivity|]. split; [apply port_inv_seqs; [exact Hp|first [left; reflexivity|right; reflexivity]..]|]. split; [|first [exact Hd | apply ds_good_refl; exact Hd]].
    repeat split; auto.
  - unfold ret in H. injection H as <- <- <-. apply good_ret; assumption.
Qed.

(** * Announce reception *)
Lemma fml_register_inv p l : port_inv p -> fml_ok (p_identity p) l -> port_inv (port_with_fml p l).
Proof. intros (A & B & C & D & [E1 E2] & F & G) [Hl1 Hl2]. repeat split; try assumption; apply A. Qed.

Lemma port_inv_multiport p m : port_inv p -> port_inv (port_with_multiport p m).
Proof. intros (A & B & C & D & [E1 E2] & F & G). repeat split; try assumption; apply A. Qed.

Lemma ds_with_inv d steps par path tp :
  ds_inv d -> u_ok 16 steps = true -> pd_wfb par = true -> (length path <= 128)%nat ->
  forallb (u_ok 64) path = true -> tp_wfb tp = true -> ds_inv (ds_with d steps par path tp).
Proof.
  intros [_ Hw] Hs Hp Hl Hf Ht. split; [exact Hl|].
  unfold ds_wfb in *. cbn [ds_with ds_default ds_steps_removed ds_parent ds_path ds_tp].
  apply andb_true_iff in Hw as [Hw _]. apply andb_true_iff in Hw as [Hw _].
  apply andb_true_iff in Hw as [Hw _]. apply andb_true_iff in Hw as [Hw _].
  rewrite Hw, Hs, Hp, Hf, Ht. reflexivity.
Qed.

Lemma handle_announce_ok p d ti m a :
  port_inv p -> ds_inv d -> wf_header (m_header m) -> wf_ann a -> bok (m_suffix m) ->
  good p d (handle_announce p d ti m a).
Proof.
  intros Hp Hd Hwh Hwa Hsuf.
  assert (Hsteps : 0 <= an_steps_removed a) by apply Hwa.
  unfold handle_announce.
  (* the data set update *)
  cbv zeta.
  match goal with |- good p d (obind ?X _) =>
    assert (Hr : exists d1 lp locks, X = Ok (d1, lp, locks) /\ ds_good d d1) end.
  { destruct (is_slave (p_state p) && (an_steps_removed a <? 255)) eqn:Es;
      [|eexists; eexists; eexists; split; [reflexivity|first [exact Hd | apply ds_good_refl; exact Hd]]].
    destruct (pi_eqb (h_source (m_header m)) (pd_parent (ds_parent d)));
      [|eexists; eexists; eexists; split; [reflexivity|first [exact Hd | apply ds_good_refl; exact Hd]]].
    apply andb_true_iff in Es as [_ Hlt].
    unfold chk_u. assert (in_u 16 (an_steps_removed a + 1) = true) as -> by (unfold in_u; change (2 ^ 16) with 65536; lia).
    cbn [obind].
    assert (Hst : u_ok 16 (an_steps_removed a + 1) = true) by (apply u_ok_iff; change (2 ^ 16) with 65536; lia).
    pose proof (ann_pd_wfb _ _ Hwh Hwa) as Hpd. pose proof (ann_tp_wfb (m_header m) a Hwa) as Htp.
    destruct (if ds_path_enable d then find_tlv 8 (tlvs_of (m_suffix m)) else None) as [t|] eqn:Et.
    - destruct (PATH_CAPACITY <? length (path_of_value (tlv_value t)))%nat eqn:Ec;
        [eexists; eexists; eexists; split; [reflexivity|first [exact Hd | apply ds_good_refl; exact Hd]]|].
      destruct (existsb _ _); eexists; eexists; eexists; (split; [reflexivity|]); [apply ds_good_refl; exact Hd|].
      split; [|reflexivity].
      apply ds_with_inv; try assumption.
      + apply Nat.ltb_ge in Ec. unfold PATH_CAPACITY in Ec. exact Ec.
      + unfold path_of_value. apply chunks8_wfb.
        destruct (ds_path_enable d); [|discriminate]. apply find_tlv_in in Et.
        pose proof (tlvset_iter_bok (length (m_suffix m)) (m_suffix m) Hsuf) as Hall.
        rewrite Forall_forall in Hall. apply (Hall t). exact Et.
    - eexists; eexists; eexists; split; [reflexivity|]. split; [|reflexivity].
      apply ds_with_inv; try assumption; [cbn; lia|reflexivity]. }
  destruct Hr as (d1 & lp & locks & -> & Hd1). cbn [obind].
  destruct lp; [apply good_ret2; assumption|].
  unfold bmca_register.
  destruct (negb (pi_eqb (h_source (m_header m)) (p_identity p)) &&
            acceptable (pc_acceptable (p_config p)) (pi_clock (h_source (m_header m)))); [|apply good_ret2; assumption].
  set (fml := fml_register (p_identity p) ti (p_fml p) (m_header m) a 0).
  assert (Hp1 : port_inv (port_with_fml p fml)).
  { apply fml_register_inv; [exact Hp|]. destruct Hp as (_ & _ & _ & _ & [Hw Hn] & _).
    split; [apply fml_register_wf; exact Hw|apply fml_register_nn; [exact Hn|split; assumption]]. }
  match goal with |- context [if ?c then set_forced ?x ?y else ?z] => destruct c end.
  - set (p2 := fst (set_forced (port_with_multiport (port_with_fml p fml) (Some 0)) PPassive)).
    assert (Hp2 : port_inv p2).
    { apply set_forced_inv; [apply port_inv_multiport; exact Hp1|exact I|reflexivity]. }
    unfold set_forced. cbn [fst snd].
    pose proof (port_inv_draw _ Hp2) as Hp3. pose proof (pres_draw p2) as Hpr.
    unfold p2, set_forced in Hp3, Hpr. cbn [fst] in Hp3, Hpr.
    match goal with |- context [draw ?x] => destruct (draw x) as [k p3] end. cbn [snd] in *.
    eexists; eexists; eexists. split; [reflexivity|]. split; [exact Hp3|]. split; [|exact Hd1].
    eapply pres_trans; [|exact Hpr]. repeat split; auto.
  - pose proof (port_inv_draw _ Hp1) as Hp3. pose proof (pres_draw (port_with_fml p fml)) as Hpr.
    destruct (draw (port_with_fml p fml)) as [k p3]. cbn [snd] in *.
    eexists; eexists; eexists. split; [reflexivity|]. split; [exact Hp3|]. split; [|exact Hd1].
    eapply pres_trans; [|exact Hpr]. repeat split; auto.
Qed.

(** * Timers *)
(** The announce receipt timer is the one port-level call that can create a
    master port (never on a slave-only instance), so it gets the weaker shape. *)
Definition pres_w (p p' : port) : Prop :=
  p_identity p' = p_identity p /\ p_config p' = p_config p /\
  (is_slave (p_state p) = false -> is_slave (p_state p') = false).
Definition good_w (p : port) (d : inst_ds) (r : hres) : Prop :=
  exists p' d' o, r = Ok (p', d', o) /\ port_inv p' /\ pres_w p p' /\ ds_good d d' /\
    (dd_slave_only (ds_default d) = true -> is_master (p_state p) = false -> is_master (p_state p') = false).
Lemma good_weaken p d r : good p d r -> good_w p d r.
Proof.
  intros (p' & d' & o & -> & Hp & (A & B & C & D) & Hd). exists p', d', o.
  split; [reflexivity|]. split; [exact Hp|]. split; [repeat split; assumption|]. split; [exact Hd|]. intros _. exact D.
Qed.

Lemma handle_announce_receipt_timer_ok p d :
  port_inv p -> ds_inv d -> good_w p d (handle_announce_receipt_timer p d).
Proof.
  intros Hp Hd. unfold handle_announce_receipt_timer.
  destruct (is_faulty (p_state p)) eqn:Ef.
  - apply good_weaken. pose proof (port_inv_draw _ Hp) as Hp3. pose proof (pres_draw p) as Hpr.
    destruct (draw p) as [k p1]. cbn [snd] in *.
    eexists; eexists; eexists. split; [reflexivity|]. split; [exact Hp3|]. split; [exact Hpr|apply ds_good_refl; exact Hd].
  - destruct (dd_slave_only (ds_default d)) eqn:Eso.
    + apply good_weaken. destruct (is_listening (p_state p)).
      * pose proof (port_inv_draw _ Hp) as Hp3. pose proof (pres_draw p) as Hpr.
        destruct (draw p) as [k p1]. cbn [snd] in *.
        eexists; eexists; eexists. split; [reflexivity|]. split; [exact Hp3|]. split; [exact Hpr|apply ds_good_refl; exact Hd].
      * assert (Hp1 : port_inv (fst (set_forced p PListening))) by (apply set_forced_inv; [exact Hp|exact I|reflexivity]).
        unfold set_forced in *. cbn [fst snd] in *.
        pose proof (port_inv_draw _ Hp1) as Hp3. pose proof (pres_draw (port_with_state p PListening)) as Hpr.
        destruct (draw (port_with_state p PListening)) as [k p2]. cbn [snd] in *.
        eexists; eexists; eexists. split; [reflexivity|]. split; [exact Hp3|]. split; [|apply ds_good_refl; exact Hd].
        eapply pres_trans; [|exact Hpr]. repeat split; auto.
    + destruct (is_master (p_state p)).
      * apply good_weaken. eexists; eexists; eexists. split; [reflexivity|]. split; [exact Hp|]. split; [apply pres_refl|apply ds_good_refl; exact Hd].
      * assert (Hp1 : port_inv (fst (set_forced p PMaster))) by (apply set_forced_inv; [exact Hp|exact I|reflexivity]).
        unfold set_forced in *. cbn [fst snd] in *.
        eexists; eexists; eexists. split; [reflexivity|]. split; [exact Hp1|]. split; [repeat split; auto|].
        split; [apply ds_good_refl; exact Hd|]. intros H. rewrite Eso in H. discriminate.
Qed.

Lemma handle_filter_update_timer_ok p d :
  port_inv p -> ds_inv d -> good p d (handle_filter_update_timer p d).
Proof. intros. apply good_ret; assumption. Qed.

(** * Frame reception *)
Definition frame_valid (f : bytes) : Prop := bok f.

Lemma prepend_good p d o r : good p d r -> good p d (prepend o r).
Proof.
  intros (p' & d' & o' & -> & H). unfold prepend. cbn [obind]. exists p', d', (o ++ o'). split; [reflexivity|exact H].
Qed.

Lemma decoded_wf frame m : bok frame -> decode frame = ROk m ->
  wf_header (m_header m) /\ wf_body (m_body m) /\ bok (m_suffix m).
Proof. intros Hb Hd. destruct (decode_wf frame m Hb Hd) as [(A & B & [C _] & _) _]. split; [exact A|split; [exact B|exact C]]. Qed.

Lemma handle_general_internal_ok p d ti m :
  port_inv p -> ds_inv d -> wf_header (m_header m) -> wf_body (m_body m) -> bok (m_suffix m) ->
  good p d (handle_general_internal p d ti m).
Proof.
  intros Hp Hd Hh Hb Hsuf. unfold handle_general_internal.
  destruct (m_body m) eqn:Eb; cbn in Hb; try (apply good_ret; assumption).
  - apply handle_follow_up_ok; assumption.
  - destruct Hb. apply handle_delay_resp_ok; assumption.
  - destruct Hb. apply handle_peer_delay_follow_up_ok; assumption.
  - apply handle_announce_ok; assumption.
Qed.

Lemma handle_event_receive_ok p d ti frame ts :
  port_inv p -> ds_inv d -> bok frame -> ts_valid ts ->
  good p d (handle_event_receive p d ti frame ts).
Proof.
  intros Hp Hd Hf Hts. unfold handle_event_receive, parse_and_filter.
  destruct (negb (is_compatible frame)); [apply good_ret; assumption|].
  destruct (decode frame) as [m|e] eqn:Ed; [|apply good_ret; assumption].
  destruct (decoded_wf frame m Hf Ed) as (Hh & Hb & Hsuf).
  destruct ((h_sdo_id (m_header m) =? dd_sdo_id (ds_default d)) && (h_domain (m_header m) =? dd_domain (ds_default d)));
    [|apply good_ret; assumption].
  apply prepend_good.
  destruct (m_body m) eqn:Eb; cbn in Hb.
  - apply handle_sync_ok; assumption.
  - apply handle_delay_req_ok; assumption.
  - apply handle_pdelay_req_ok; assumption.
  - destruct Hb. apply handle_peer_delay_response_ok; assumption.
  - apply handle_general_internal_ok; try assumption. rewrite Eb. exact Hb.
  - apply handle_general_internal_ok; try assumption. rewrite Eb. exact Hb.
  - apply handle_general_internal_ok; try assumption. rewrite Eb. exact Hb.
  - apply handle_general_internal_ok; try assumption. rewrite Eb. exact Hb.
  - apply handle_general_internal_ok; try assumption. rewrite Eb. exact Hb.
  - apply handle_general_internal_ok; try assumption. rewrite Eb. exact Hb.
Qed.

Lemma handle_general_receive_ok p d ti frame :
  port_inv p -> ds_inv d -> bok frame -> good p d (handle_general_receive p d ti frame).
Proof.
  intros Hp Hd Hf. unfold handle_general_receive, parse_and_filter.
  destruct (negb (is_compatible frame)); [apply good_ret; assumption|].
  destruct (decode frame) as [m|e] eqn:Ed; [|apply good_ret; assumption].
  destruct (decoded_wf frame m Hf Ed) as (Hh & Hb & Hsuf).
  destruct ((h_sdo_id (m_header m) =? dd_sdo_id (ds_default d)) && (h_domain (m_header m) =? dd_domain (ds_default d)));
    [|apply good_ret; assumption].
  apply prepend_good. apply handle_general_internal_ok; assumption.
Qed.

Lemma handle_send_timestamp_ok p d c ts :
  port_inv p -> ds_inv d -> ts_valid ts -> good p d (handle_send_timestamp p d c ts).
Proof.
  intros Hp Hd Hts. unfold handle_send_timestamp. destruct c.
  - apply handle_sync_timestamp_ok; assumption.
  - apply handle_delay_timestamp_ok; assumption.
  - apply handle_pdelay_timestamp_ok; assumption.
  - apply handle_pdelay_response_timestamp_ok; assumption.
Qed.
