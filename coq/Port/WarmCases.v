(** Cases with a long unobserved warm-up: one host call repeated [w_count]
    times (so that 16-bit sequence ids wrap), then an observed tail.  The model
    iterates [step] through the warm-up; correspondence compares the tail.
    No proofs. *)
From SV Require Export Port.PortCases Port.OracleC10.

Record wcase := mkW {
  w_setup : setup;
  w_pre : list event;
  w_rep : event;
  w_count : Z;
  w_post : list event;
  w_release : bool;
  w_trace : option (list step_result)     (* None: the implementation panicked before the tail *)
}.

Definition step_quiet (oi : option instance) (e : event) : option instance :=
  match oi with
  | Some i => match step i e with Ok (i', _) => Some i' | Panic _ => None end
  | None => None
  end.

Definition warmed (c : wcase) : option instance :=
  match init (w_setup c) with
  | Ok (i, _) =>
      N.iter (Z.to_N (w_count c)) (fun oi => step_quiet oi (w_rep c)) (run_state i (w_pre c))
  | Panic _ => None
  end.

Definition agree_warm (c : wcase) : bool :=
  match warmed c, w_trace c with
  | Some i, Some t => trace_agree (w_release c) (run i (w_post c)) t
  | None, None => true
  | None, Some _ => w_release c
  | Some _, None => false
  end.

Definition sr_panic (r : step_result) : bool := match r with SRPanic => true | _ => false end.
Definition sr_frames (r : step_result) : list (bool * bytes) :=
  match r with SROk o _ => sent_frames (map snd o) | SRPanic => [] end.

(** C03: every call of the warm-up and of the tail returned normally *)
Definition ok_warm_C03 (c : wcase) : bool :=
  match w_trace c with
  | None => false
  | Some t => negb (existsb sr_panic t)
  end.

(** C10: per message type, consecutive sequence ids mod 2^16 across the tail
    (a panic is C03's business: the frames before it are still judged) *)
Definition ok_warm_C10 (c : wcase) : bool :=
  match w_trace c with
  | None => true
  | Some t => match seq_check [] 0 (flat_map sr_frames t) with Some _ => true | None => false end
  end.

(** C09: a delay measurement produced in the tail carries, as its event time
    (= t3), the transmit timestamp that was reported for the request whose
    sequence id the completing message bears - never that of another exchange.
    Only exchanges whose timestamp was reported inside the tail are judged. *)
Fixpoint id_get (m : list (Z * Z)) (id : Z) : option Z :=
  match m with [] => None | (i, t) :: m' => if i =? id then Some t else id_get m' id end.

Definition delay_meas (o : list tobs) : list measurement :=
  flat_map (fun x => match snd x with
                     | OFilterMeas m => match me_raw_delay m with Some _ => [m] | None => [] end
                     | _ => []
                     end) o.

Fixpoint walk_C09 (seen : list (Z * Z)) (es : list event) (t : list step_result) : bool :=
  match es, t with
  | e :: es', SROk o _ :: t' =>
      let seen' := match e with
                   | EvSendTimestamp _ (CtxDelayReq id) ts =>
                       match id_get seen id with Some _ => seen | None => (id, ts) :: seen end
                   | _ => seen
                   end in
      let ok :=
        match e with
        | EvRecvGeneral _ frame | EvRecvEvent _ frame _ =>
            match (if is_compatible frame then decoded frame else None) with
            | Some m =>
                match m_body m with
                | BDelayResp _ _ =>
                    forallb (fun x => match id_get seen (h_seq (m_header m)) with
                                      | Some ts => me_event_time x =? ts
                                      | None => true
                                      end) (delay_meas o)
                | _ => true
                end
            | None => true
            end
        | EvSendTimestamp _ (CtxDelayReq id) ts =>
            forallb (fun x => me_event_time x =? (match id_get seen id with Some t0 => t0 | None => ts end)) (delay_meas o)
        | _ => true
        end in
      ok && walk_C09 seen' es' t'
  | _, _ => true
  end.

Definition ok_warm_C09 (c : wcase) : bool :=
  match w_trace c with
  | None => true
  | Some t => walk_C09 [] (w_post c) t
  end.

Definition kf_warm (c : wcase) : Z := 0.
