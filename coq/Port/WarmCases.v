(** Cases with a long unobserved warm-up: one host call repeated [w_count]
    times (so that 16-bit sequence ids wrap), then an observed tail.  The model
    iterates [step] through the warm-up; correspondence compares the tail.
    No proofs. *)
From SV Require Export Port.PortCases Port.OracleC10.

Record wcase := mkW {
  w_setup : setup;
  w_pre : list event;
  w_rep : event;
  w_count : Z;
  w_post : list event;
  w_release : bool;
  w_trace : option (list step_result)     (* None: the implementation panicked before the tail *)
}.

Definition step_quiet (oi : option instance) (e : event) : option instance :=
  match oi with
  | Some i => match step i e with Ok (i', _) => Some i' | Panic _ => None end
  | None => None
  end.

Definition warmed (c : wcase) : option instance :=
  match init (w_setup c) with
  | Ok (i, _) =>
      N.iter (Z.to_N (w_count c)) (fun oi => step_quiet oi (w_rep c)) (run_state i (w_pre c))
  | Panic _ => None
  end.

Definition agree_warm (c : wcase) : bool :=
  match warmed c, w_trace c with
  | Some i, Some t => trace_agree (w_release c) (run i (w_post c)) t
  | None, None => true
  | None, Some _ => w_release c
  | Some _, None => false
  end.

Definition sr_panic (r : step_result) : bool := match r with SRPanic => true | _ => false end.
Definition sr_frames (r : step_result) : list (bool * bytes) :=
  match r with SROk o _ => sent_frames (map snd o) | SRPanic => [] end.

(** C03: every call of the warm-up and of the tail returned normally *)
Definition ok_warm_C03 (c : wcase) : bool :=
  match w_trace c with
  | None => false
  | Some t => negb (existsb sr_panic t)
  end.

(** C10: per message type, consecutive sequence ids mod 2^16 across the tail
    (a panic is C03's business: the frames before it are still judged) *)
Definition ok_warm_C10 (c : wcase) : bool :=
  match w_trace c with
  | None => true
  | Some t => match seq_check [] 0 (flat_map sr_frames t) with Some _ => true | None => false end
  end.

Definition kf_warm (c : wcase) : Z := 0.
